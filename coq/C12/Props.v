(* C12 - outbound messages keep their order and drive the state machine in that
   order.  All statements: every state map, role, constants, every label list. *)
From V Require Import Lib.Base C11.Engine C11.EngineProofs C11.Model C12.Proofs C12.Compose C12.ComposeProofs C12.Gen.
Local Open Scope N_scope.

(* messages written for the wire, then the (at most one) message refused by the
   state machine, then the messages still queued = the accepted SendMessage
   calls in call order: nothing is reordered, duplicated or lost while the
   send loop runs *)
Theorem C12_wire_order : forall sm r s0 rqcap k ls s,
  run sm r s0 rqcap k (init sm r s0) ls = Some s ->
  wire_log (lg s) ++ rej_log (lg s) ++ sendq (sn s) = enq_log (lg s) /\
  (length (rej_log (lg s)) <= 1)%nat /\ (rej_log (lg s) <> [] -> salive (sph (sn s)) = false).
Proof. exact order_inv. Qed.
Print Assumptions C12_wire_order.

(* the bytes handed to the muxer are those messages' bytes: segment sizes add up
   to the written messages (minus what is still in the payload buffer), and no
   segment exceeds SegmentMaxPayloadLength *)
Theorem C12_segments : forall sm r s0 rqcap k ls s,
  run sm r s0 rqcap k (init sm r s0) ls = Some s ->
  Forall (fun n => n <= c_segmax k) (seg_log (lg s)) /\
  sumN (seg_log (lg s)) + inflight (sph (sn s)) <= sumN (lens (wire_log (lg s))) /\
  (salive (sph (sn s)) = true -> sumN (seg_log (lg s)) + inflight (sph (sn s)) = sumN (lens (wire_log (lg s)))).
Proof. exact seg_inv. Qed.

Theorem C12_batch_size : forall sm r s0 rqcap k ls s,
  run sm r s0 rqcap k (init sm r s0) ls = Some s ->
  match sph (sn s) with SBatch cnt pay => 1 <= cnt /\ cnt <= N.max 1 (c_maxmsgs k) | _ => True end.
Proof. exact batch_bounds_inv. Qed.

(* each written message makes exactly one local transition, in the same order;
   the ones not yet made are exactly the queued (pipelined) ones *)
Theorem C12_transition_order : forall sm r s0 rqcap k ls s,
  run sm r s0 rqcap k (init sm r s0) ls = Some s ->
  strans_log (lg s) ++ queued (sn s) = wire_log (lg s).
Proof. exact trans_order_inv. Qed.
Print Assumptions C12_transition_order.

(* the interleaving of send and receive transitions is a run of the state
   machine from the initial state in which every send transition is made in a
   state where we have agency and every receive transition in a state where the
   peer has it; its send projection is the send transition log, its receive
   projection the handler log (plus the call that is imminent) *)
Theorem C12_interleave : forall sm r s0 rqcap k ls s,
  run sm r s0 rqcap k (init sm r s0) ls = Some s ->
  path sm r s0 (tlog (lg s)) /\ path_end s0 (tlog (lg s)) = cur (c s) /\
  send_msgs (tlog (lg s)) = strans_log (lg s) /\
  recv_msgs (tlog (lg s)) = hlog (lg s) ++ accepted_pending (lph (rc s)).
Proof.
  intros. destruct (path_inv sm r s0 rqcap k ls s H) as (_ & A & B & C & D). auto.
Qed.
Print Assumptions C12_interleave.

(* a first message that the current state does not permit is not sent: the
   send loop fails, nothing is added to the wire, no transition happens, and
   its only next action reports the error and stops the protocol *)
Theorem C12_first_rejected : forall sm r s0 rqcap k s m q,
  sph (sn s) = SHeld -> queued (sn s) = [] -> sendq (sn s) = m :: q -> next sm (cur (c s)) m = None ->
  exists s', step sm r s0 rqcap k s SendDeq = Some s' /\ sph (sn s') = SFail /\
    wire_log (lg s') = wire_log (lg s) /\ seg_log (lg s') = seg_log (lg s) /\ tlog (lg s') = tlog (lg s) /\
    c s' = c s /\ rej_log (lg s') = rej_log (lg s) ++ [m] /\
    (forall ls s'', run sm r s0 rqcap k s' ls = Some s'' ->
       wire_log (lg s'') = wire_log (lg s) /\ seg_log (lg s'') = seg_log (lg s)) /\
    (forall s'', stopped (fl s') = false -> step sm r s0 rqcap k s' (SendError GSend false) = Some s'' ->
       err (fl s'') = true /\ stopped (fl s'') = true).
Proof.
  intros sm r s0 rqcap k s m q H1 H2 H3 H4.
  destruct (first_rejected sm r s0 rqcap k s m q H1 H2 H3 H4) as (s' & A & B & C & D & E & F & G).
  exists s'. repeat split; auto.
  - destruct (dead_send_frozen sm r s0 rqcap k ls s' s'') as (_ & W & _); auto. rewrite B. reflexivity. congruence.
  - destruct (dead_send_frozen sm r s0 rqcap k ls s' s'') as (_ & _ & W & _); auto. rewrite B. reflexivity. congruence.
  - eapply sfail_reports; eauto.
  - eapply sfail_reports; eauto.
Qed.
Print Assumptions C12_first_rejected.

(* ---- two endpoints ---------------------------------------------------------
   Client engine A and server engine B of the same state map over two FIFO
   wires (C12/Compose.v).  `conforming`: the conversation is a path of the
   automaton from s0, every message sent from a state where a side has agency,
   every message non-empty and within maxReadBufferSize and every declared
   byte limit.  The callers enqueue exactly the two projections, in order, AT
   ANY TIME (arbitrary pipelining, also by the server; only the capacity of the
   send queue and the pending-send limit delay an Enq).  For EVERY schedule of
   the composed system:
   - no loop of either endpoint ever fails or returns, no error flag is set
     (`healthy`): every message is accepted by the peer's state machine;
   - each handler log is, in order, a prefix of the peer's projection, each
     transition log a prefix of the conversation;
   - an endpoint that has made all its transitions and called its last handler
     has handed exactly the peer's projection to its application.
   This theorem is the SAFETY half (kept under its round-2 name).  The PROGRESS
   half - a state in which no label of the composition is enabled has completed
   the conversation (deadlock freedom) - is proved below: C12_conforming
   (safety /\ progress) and C12_conforming_terminates (no infinite schedule). *)
Theorem C12_conforming_partial : forall sm s0 rqa rqb k conv,
  conforming sm s0 k conv ->
  forall ls s, crun sm s0 rqa rqb k conv (cinit sm s0) ls = Some s ->
  healthy (ea s) /\ healthy (eb s) /\
  prefix (hmsgs (ea s)) (projR sm RServer s0 conv) /\ prefix (hmsgs (eb s)) (projR sm RClient s0 conv) /\
  prefix (map tmsg (tlog (lg (ea s)))) conv /\ prefix (map tmsg (tlog (lg (eb s)))) conv /\
  prefix (wire_log (lg (ea s))) (projR sm RClient s0 conv) /\ prefix (wire_log (lg (eb s))) (projR sm RServer s0 conv) /\
  (length (tlog (lg (ea s))) = length conv -> accepted_pending (lph (rc (ea s))) = [] ->
     hmsgs (ea s) = projR sm RServer s0 conv) /\
  (length (tlog (lg (eb s))) = length conv -> accepted_pending (lph (rc (eb s))) = [] ->
     hmsgs (eb s) = projR sm RClient s0 conv).
Proof.
  intros sm s0 rqa rqb k conv HC ls s R.
  destruct (CInv_run sm s0 rqa rqb k conv HC ls s R) as (IA & IB).
  destruct (EInv_logs sm s0 k conv HC _ _ _ _ _ IA) as (A1 & A2 & A3 & A4 & A5).
  destruct (EInv_logs sm s0 k conv HC _ _ _ _ _ IB) as (B1 & B2 & B3 & B4 & B5).
  split; [exact A1|]. split; [exact B1|]. split; [exact A3|]. split; [exact B3|].
  split; [exact A2|]. split; [exact B2|]. split; [exact A4|]. split; [exact B4|].
  split; intros L P; [apply (proj1 (A5 L P))|apply (proj1 (B5 L P))].
Qed.
Print Assumptions C12_conforming_partial.

(* non-vacuity: a chain-sync conversation with a pipelined second RequestNext,
   an AwaitReply and a final Done, run through the composition to completion *)
Definition cs_conv : list msg :=
  [M 1 0 3 []; M 2 2 40 []; M 3 0 3 []; M 4 1 3 []; M 5 3 20 []; M 6 7 3 []].
Definition cs_sched : list (bool * label) :=
  map (pair true) [Enq (M 1 0 3 []); Enq (M 3 0 3 []); TakeSendToken; SendDeq; SendDeq; BatchEnd; SendSeg 6] ++
  map (pair false) [TakeRecvToken; SegIn 6; DecMsg (M 1 0 3 []); Admit; Put; DecMsg (M 3 0 3 []); Admit; Put;
                    Handle; HandlerCall; HandlerRet HOk; Enq (M 2 2 40 []); TakeSendToken; SendDeq; BatchEnd; SendSeg 40;
                    TakeRecvToken; Handle; HandlerCall; HandlerRet HOk; Enq (M 4 1 3 []); Enq (M 5 3 20 []);
                    TakeSendToken; SendDeq; SendDeq; BatchEnd; SendSeg 23; TakeSendToken; SendQueuedTransition] ++
  map (pair true) [TakeRecvToken; SegIn 40; DecMsg (M 2 2 40 []); Admit; Put; Handle; HandlerCall; HandlerRet HOk;
                   TakeSendToken; SendQueuedTransition; TakeRecvToken; SegIn 23; DecMsg (M 4 1 3 []); Admit; Put;
                   DecMsg (M 5 3 20 []); Admit; Put; Handle; HandlerCall; HandlerRet HOk;
                   TakeRecvToken; Handle; HandlerCall; HandlerRet HOk;
                   Enq (M 6 7 3 []); TakeSendToken; SendDeq; BatchEnd; SendSeg 3] ++
  map (pair false) [TakeRecvToken; SegIn 3; DecMsg (M 6 7 3 []); Admit; Put; Handle; HandlerCall; HandlerRet HOk].
Example C12_conforming_run :
  match crun sm_chainsync_ntn 1 55 55 consts_gen cs_conv (cinit sm_chainsync_ntn 1) cs_sched with
  | Some s => map m_id (hmsgs (ea s)) = [2; 4; 5] /\ map m_id (hmsgs (eb s)) = [1; 3; 6] /\
              length (tlog (lg (ea s))) = 6%nat /\ length (tlog (lg (eb s))) = 6%nat /\
              cur (c (ea s)) = 5 /\ cur (c (eb s)) = 5 /\
              map m_id (projR sm_chainsync_ntn RClient 1 cs_conv) = [1; 3; 6] /\
              map m_id (projR sm_chainsync_ntn RServer 1 cs_conv) = [2; 4; 5]
  | None => False
  end.
Proof. vm_compute. repeat split; reflexivity. Qed.
Lemma cs_limits : forall q, limit_of sm_chainsync_ntn q = 0 \/ limit_of sm_chainsync_ntn q = 462000.
Proof.
  intros q. unfold limit_of, entry_of, sm_chainsync_ntn. cbn [sm_entries lookup_entry].
  repeat (destruct (N.eqb _ q); [right; reflexivity|]). left. reflexivity.
Qed.
Example C12_conforming_hyp : conforming sm_chainsync_ntn 1 consts_gen cs_conv.
Proof.
  split.
  - cbn [Compose.cpath cs_conv].
    repeat (eexists; split; [vm_compute; reflexivity|split; [vm_compute; discriminate|]]). exact I.
  - intros m H. cbn in H.
    assert (L : m_len m <= 40 /\ 0 < m_len m).
    { repeat (destruct H as [<-|H]; [cbn; lia|]). destruct H. }
    split; [lia|]. split; [cbn; lia|]. intros q. destruct (cs_limits q) as [E|E]; [left; exact E|right; rewrite E; lia].
Qed.

(* ---- the engine's send path and agency (findings of the chain-sync builder) --
   `done-sent-without-agency`: the model exhibits it and it does not contradict
   C12_interleave.  sendLoop WRITES every message it finds queued behind the
   first one of a batch (pipelining) and only queues its TRANSITION; the
   theorem is about transitions.  Here Done is on the wire while the state is
   CanAwait (server agency); its transition is still queued and is made when
   agency returns. *)
Example C12_done_written_without_agency :
  match run sm_chainsync_ntn RClient 1 55 consts_gen (init sm_chainsync_ntn RClient 1)
    [Enq (M 1 0 3 []); Enq (M 2 7 3 []); TakeSendToken; SendDeq; SendDeq; BatchEnd; SendSeg 6] with
  | Some s => map m_id (wire_log (lg s)) = [1; 2] /\ seg_log (lg s) = [6] /\ cur (c s) = 2 /\
              agency_of sm_chainsync_ntn (cur (c s)) = AServer /\ map m_id (queued (sn s)) = [2] /\
              map m_id (strans_log (lg s)) = [1]
  | None => False
  end.
Proof. vm_compute. repeat split; reflexivity. Qed.
(* `stop-hangs-sendqueue-full`: SendMessage blocks (the label is not enabled)
   while the send queue is full; sendLoop drains it only with a token, i.e. not
   while the peer has agency and nothing arrives *)
Theorem C12_enq_blocks_when_full : forall sm r s0 rqcap k s m,
  c_sendqcap k <= N.of_nat (length (sendq (sn s))) -> step sm r s0 rqcap k s (Enq m) = None.
Proof.
  intros sm r s0 rqcap k s m H. cbn. unfold do_enq.
  assert (E : (N.of_nat (length (sendq (sn s))) <? c_sendqcap k) = false) by (apply N.ltb_ge; exact H).
  rewrite E, andb_false_r. reflexivity.
Qed.
Theorem C12_sendloop_needs_token : forall sm r s0 rqcap k s l s',
  sph (sn s) = SWait -> sendTok (c s) = false -> step sm r s0 rqcap k s l = Some s' ->
  sendq (sn s') = sendq (sn s) \/ exists m, sendq (sn s') = sendq (sn s) ++ [m].
Proof.
  intros sm r s0 rqcap k s l s' HP HT HS. destr_st s. cbn in *. subst.
  destruct l; cbn in HS;
    unfold do_enq, do_enq_over, do_take_send, do_send_queued, do_send_deq, do_batch_end, do_send_seg,
      do_seg_in, do_dec_incomplete, do_dec_bad, do_dec_empty, do_dec_msg, do_admit, do_put, do_take_recv,
      do_handle, do_handler_call, do_handler_ret, do_send_error, do_exit in HS; cbn in HS;
    crush HS; auto.
  right. eexists; reflexivity.
Qed.

(* non-vacuity: a pipelined chain-sync client (three RequestNext in one batch) *)
Example C12_pipelined_run :
  match run sm_chainsync_ntn RClient 1 55 consts_gen (init sm_chainsync_ntn RClient 1)
    [Enq (M 1 0 3 []); Enq (M 2 0 3 []); Enq (M 3 0 3 []); TakeSendToken; SendDeq; SendDeq; SendDeq; BatchEnd; SendSeg 9;
     TakeRecvToken; SegIn 40; DecMsg (M 4 2 40 []); Admit; Put; Handle; HandlerCall; HandlerRet HOk;
     TakeSendToken; SendQueuedTransition] with
  | Some s => map m_id (wire_log (lg s)) = [1; 2; 3] /\ map m_id (strans_log (lg s)) = [1; 2] /\
              map m_id (queued (sn s)) = [3] /\ cur (c s) = 2
  | None => False
  end.
Proof. vm_compute. repeat split; reflexivity. Qed.
(* a first message not permitted in Idle (RollForward from the client) *)
Example C12_first_rejected_run :
  match run sm_chainsync_ntn RClient 1 55 consts_gen (init sm_chainsync_ntn RClient 1)
    [Enq (M 1 2 30 []); TakeSendToken; SendDeq; SendError GSend false] with
  | Some s => wire_log (lg s) = [] /\ seg_log (lg s) = [] /\ err (fl s) = true /\ map m_id (rej_log (lg s)) = [1]
  | None => False
  end.
Proof. vm_compute. repeat split; reflexivity. Qed.

(* ---- two endpoints: safety AND progress ------------------------------------
   (proofs: C12/ProgressInv.v, C12/Progress.v; Engine.v and Compose.v unchanged)
   C12_conforming = C12_conforming_partial (SAFETY, every schedule) + PROGRESS:
   a composed state reached by any schedule in which NO label of the
   composition is enabled - no action of any loop of either engine, no segment
   deliverable from either wire, no SendMessage of a caller (`cstep s x = None`
   for every (side, label); the composition offers exactly the labels of the
   environment assumed by C12_conforming_partial: no timeout, no external Stop,
   no muxer death, handlers return nil, faithful codec, callers enqueue their
   projections in order and respect the pending-send limit) - has COMPLETED the
   conversation: both transition logs are the whole conversation and both
   handler logs are the whole projections of the peer.  This holds
   (a) when the callers have enqueued their whole projections, for every
       constants record, and
   (b) without that premise whenever the send queue has capacity > 0: Enq is a
       label of the composition, so the callers are never blocked for ever
       either (deadlock freedom of engines + callers).
   Auxiliary invariants: sendHeld -> SHeld, recvHeld -> LWaitMsg, RDecode ->
   rbuf > 0, pendR = sum of the accounted sizes = sizes of the messages between
   admission and handler return, pendS = sum of the queued sizes (GInv, every
   label list of one engine); an incomplete decode leaves fewer bytes than the
   next message, batches and segment remainders are non-empty (XInv); bytes
   handed to the muxer = bytes on the wire + read buffer + decoded messages,
   no empty segment on the wire (DInv, every schedule of the composition). *)
From V Require Import C12.ProgressInv C12.Progress.

Theorem C12_conforming : forall sm s0 rqa rqb k conv,
  conforming sm s0 k conv ->
  forall ls s, crun sm s0 rqa rqb k conv (cinit sm s0) ls = Some s ->
  (* safety *)
  (healthy (ea s) /\ healthy (eb s) /\
   prefix (hmsgs (ea s)) (projR sm RServer s0 conv) /\ prefix (hmsgs (eb s)) (projR sm RClient s0 conv) /\
   prefix (map tmsg (tlog (lg (ea s)))) conv /\ prefix (map tmsg (tlog (lg (eb s)))) conv /\
   prefix (wire_log (lg (ea s))) (projR sm RClient s0 conv) /\ prefix (wire_log (lg (eb s))) (projR sm RServer s0 conv) /\
   (length (tlog (lg (ea s))) = length conv -> accepted_pending (lph (rc (ea s))) = [] ->
      hmsgs (ea s) = projR sm RServer s0 conv) /\
   (length (tlog (lg (eb s))) = length conv -> accepted_pending (lph (rc (eb s))) = [] ->
      hmsgs (eb s) = projR sm RClient s0 conv)) /\
  (* progress *)
  ((forall x, cstep sm s0 rqa rqb k conv s x = None) ->
   (enq_log (lg (ea s)) = projR sm RClient s0 conv /\ enq_log (lg (eb s)) = projR sm RServer s0 conv) \/
   0 < c_sendqcap k ->
   map tmsg (tlog (lg (ea s))) = conv /\ map tmsg (tlog (lg (eb s))) = conv /\
   hmsgs (ea s) = projR sm RServer s0 conv /\ hmsgs (eb s) = projR sm RClient s0 conv).
Proof.
  intros sm s0 rqa rqb k conv HC ls s R. split.
  - exact (C12_conforming_partial sm s0 rqa rqb k conv HC ls s R).
  - intros Q [(EA & EB)|CAP].
    + exact (progress sm s0 rqa rqb k conv HC ls s R Q EA EB).
    + exact (progress_strong sm s0 rqa rqb k conv HC ls s R Q CAP).
Qed.
Print Assumptions C12_conforming.

(* non-vacuity of the progress premise: the state reached by the chain-sync
   schedule above is quiescent (no label of the composition is enabled) *)
Example C12_conforming_quiescent :
  match crun sm_chainsync_ntn 1 55 55 consts_gen cs_conv (cinit sm_chainsync_ntn 1) cs_sched with
  | Some s => forall x, cstep sm_chainsync_ntn 1 55 55 consts_gen cs_conv s x = None
  | None => False
  end.
Proof.
  destruct (crun sm_chainsync_ntn 1 55 55 consts_gen cs_conv (cinit sm_chainsync_ntn 1) cs_sched) as [s|] eqn:E;
    [|vm_compute in E; discriminate E].
  vm_compute in E. injection E as <-.
  intros [[|] l]; destruct l; try reflexivity; try (destruct r; reflexivity); try (destruct g; reflexivity).
Qed.
(* ... and a state in the middle of the conversation is not: after the client
   has written its two pipelined requests the server's recvLoop can take its token *)
Example C12_conforming_not_quiescent :
  match crun sm_chainsync_ntn 1 55 55 consts_gen cs_conv (cinit sm_chainsync_ntn 1) (firstn 7 cs_sched) with
  | Some s => cstep sm_chainsync_ntn 1 55 55 consts_gen cs_conv s (false, TakeRecvToken) <> None
  | None => False
  end.
Proof. vm_compute. discriminate. Qed.

(* ---- no infinite schedule (C12/Termination.v) -------------------------------
   Every label of the composition costs at least one unit of an explicit
   measure, so a schedule from the initial state has at most
   sum over both projections of (3*len + 14) + 10 labels - for EVERY conversation
   (conforming or not) and every queue capacity, provided
   SegmentMaxPayloadLength > 0 (with 0 the model's segment loop spins for ever).
   With C12_conforming: a schedule can be extended only finitely often, and
   when it cannot be extended any more the conversation is complete - every
   maximal schedule of the two engines and their callers ends in completion,
   without any fairness assumption. *)
From V Require Import C12.Termination.
Theorem C12_conforming_terminates : forall sm s0 rqa rqb k conv,
  0 < c_segmax k ->
  forall ls s, crun sm s0 rqa rqb k conv (cinit sm s0) ls = Some s ->
  N.of_nat (length ls) <= wsum 14 (projR sm RClient s0 conv) + wsum 14 (projR sm RServer s0 conv) + 10.
Proof. exact terminates. Qed.
Print Assumptions C12_conforming_terminates.
(* the bound for the chain-sync example: 6 messages, 72 bytes *)
Example C12_conforming_bound :
  wsum 14 (projR sm_chainsync_ntn RClient 1 cs_conv) + wsum 14 (projR sm_chainsync_ntn RServer 1 cs_conv) + 10 = 310
  /\ length cs_sched = 74%nat /\ 0 < c_segmax consts_gen.
Proof. vm_compute. repeat split; reflexivity. Qed.
