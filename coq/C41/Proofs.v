(* C41 - lemmas.  Strategy: every comparison of the model is the sign of a
   lexicographic comparison of per-candidate integer key vectors; a comparison
   of that shape is a total preorder; the fold of selectPreferred returns a
   maximal element for any comparison that is antisymmetric and transitive on
   the candidates. *)
From Coq Require Import Permutation.
From V Require Import Lib.Base C41.Model.
Local Open Scope Z_scope.

(* ---- lexicographic comparison of key vectors ----------------------------- *)
Definition sgn (x y : Z) : Z := if y <? x then 1 else if x <? y then -1 else 0.
Fixpoint lex (a b : list Z) : Z :=
  match a, b with
  | x :: a', y :: b' => if x =? y then lex a' b' else sgn x y
  | _, _ => 0
  end.

Lemma sgn_range x y : sgn x y = 1 /\ y < x \/ sgn x y = -1 /\ x < y \/ sgn x y = 0 /\ x = y.
Proof. unfold sgn. destruct (y <? x) eqn:E1; destruct (x <? y) eqn:E2; lia. Qed.

Lemma lex_range a : forall b, lex a b = 1 \/ lex a b = -1 \/ lex a b = 0.
Proof.
  induction a as [|x a IH]; intros [|y b]; cbn [lex]; try lia.
  destruct (x =? y); [apply IH|]. destruct (sgn_range x y); lia.
Qed.

Lemma lex_antisym a : forall b, lex a b = - lex b a.
Proof.
  induction a as [|x a IH]; intros [|y b]; cbn [lex]; try lia.
  destruct (Z.eqb_spec x y), (Z.eqb_spec y x); try (exfalso; lia); [apply IH|].
  destruct (sgn_range x y), (sgn_range y x); lia.
Qed.

Lemma lex_refl a : lex a a = 0.
Proof. induction a as [|x a IH]; cbn [lex]; [lia|]. rewrite Z.eqb_refl. exact IH. Qed.

Lemma lex_eq0 a : forall b, length a = length b -> lex a b = 0 -> a = b.
Proof.
  induction a as [|x a IH]; intros [|y b] L H; cbn in L; try discriminate; [reflexivity|].
  cbn [lex] in H. destruct (x =? y) eqn:E.
  - f_equal; [lia|]. apply IH; [lia|exact H].
  - destruct (sgn_range x y); lia.
Qed.

(* the one transitivity fact everything else follows from *)
Lemma lex_trans_gen a : forall b c, length a = length b -> length b = length c ->
  lex a b >= 0 -> lex b c >= 0 ->
  lex a c >= 0 /\ (lex a b > 0 \/ lex b c > 0 -> lex a c > 0).
Proof.
  induction a as [|x a IH]; intros [|y b] [|z c] L1 L2 H1 H2; cbn in L1, L2; try discriminate;
    cbn [lex] in *; try lia.
  destruct (x =? y) eqn:E1; destruct (y =? z) eqn:E2; destruct (x =? z) eqn:E3; try lia.
  - apply IH with (b := b); lia.
  - destruct (sgn_range y z), (sgn_range x z); lia.
  - destruct (sgn_range x y), (sgn_range x z); lia.
  - destruct (sgn_range x y), (sgn_range y z); lia.
  - destruct (sgn_range x y), (sgn_range y z), (sgn_range x z); lia.
Qed.

(* ---- Compare is lexicographic on (block number, has VRF, - VRF value) ----- *)
Definition hv (t : tip) : Z := if is_nil (t_vrf t) then 0 else 1.
Definition ckey (t : tip) : list Z := [Z.of_N (t_bn t); hv t; - Z.of_N (be (t_vrf t))].
Definition okey (o : otip) : list Z :=
  match o with None => [0; 0; 0; 0] | Some t => 1 :: ckey t end.

Lemma compare_lex a b : compare a b = lex (ckey a) (ckey b).
Proof.
  destruct a as [na va wa da], b as [nb vb wb db].
  unfold compare, ckey, hv, cmpN, lex, sgn; cbn [t_bn t_vrf].
  destruct va as [|xa ra], vb as [|xb rb]; cbn [is_nil andb];
    try (change (be []) with 0%N);
    try (remember (be (xa :: ra)) as A); try (remember (be (xb :: rb)) as B);
    repeat match goal with |- context [(?x =? ?y)%N] => destruct (N.eqb_spec x y) end;
    repeat match goal with |- context [(?x <? ?y)%N] => destruct (N.ltb_spec x y) end;
    cbn [negb];
    repeat match goal with |- context [?x =? ?y] => destruct (Z.eqb_spec x y) end;
    repeat match goal with |- context [?x <? ?y] => destruct (Z.ltb_spec x y) end;
    try lia.
Qed.

Lemma compare_o_lex a b : compare_o a b = lex (okey a) (okey b).
Proof.
  destruct a as [a|], b as [b|]; cbn [compare_o okey]; try reflexivity.
  change (lex (1 :: ckey a) (1 :: ckey b)) with (lex (ckey a) (ckey b)). apply compare_lex.
Qed.

Lemma okey_len o : length (okey o) = 4%nat.
Proof. destruct o; reflexivity. Qed.

(* ---- the density key ------------------------------------------------------ *)
Definition windowed (t : tip) : bool := match t_win t with Some _ => true | None => false end.
(* nil candidates are compatible with both kinds *)
Definition is_windowed (o : otip) : bool := match o with Some t => windowed t | None => true end.
Definition is_plain (o : otip) : bool := match o with Some t => negb (windowed t) | None => true end.
(* a candidate list on which compareDensity uses ONE metric for every pair *)
Definition homogeneous (p : selector) (cs : list otip) : bool :=
  (s_window p =? 0)%N || forallb is_windowed cs || forallb is_plain cs.
(* true: every pair is compared by window block counts; false: by the legacy ratio *)
Definition mode (p : selector) (cs : list otip) : bool :=
  (0 <? s_window p)%N && forallb is_windowed cs.

Definition dkey (m : bool) (p : selector) (f : forkpt) (t : tip) : Z :=
  if m then match t_win t with
            | Some s => Z.of_N (blocks_in_window s (f_slot f) (s_window p))
            | None => 0 end
  else Z.of_N (t_dens t).

Definition wkey (m : bool) (p : selector) (f : forkpt) (tipbn : N) (o : otip) : list Z :=
  match o with
  | None => [0; 0; 0; 0; 0]
  | Some t => 1 :: (if is_deep_fork p f tipbn then dkey m p f t else 0) :: ckey t
  end.

Lemma wkey_len m p f tb o : length (wkey m p f tb o) = 5%nat.
Proof. destruct o; reflexivity. Qed.

Lemma cmpN_sgn x y : cmpN x y = sgn (Z.of_N x) (Z.of_N y).
Proof.
  unfold cmpN, sgn. destruct (N.ltb_spec y x), (N.ltb_spec x y);
  destruct (Z.ltb_spec (Z.of_N y) (Z.of_N x)), (Z.ltb_spec (Z.of_N x) (Z.of_N y)); lia.
Qed.

Lemma compare_density_key m p f a b :
  (m = true -> (0 <? s_window p)%N = true /\ windowed a = true /\ windowed b = true) ->
  (m = false -> s_window p = 0%N \/ windowed a = false \/ windowed b = false) ->
  compare_density p a b f = sgn (dkey m p f a) (dkey m p f b).
Proof.
  intros Ht Hf. unfold compare_density, dkey, windowed in *.
  destruct m.
  - destruct (Ht eq_refl) as (W & A & B). rewrite W.
    destruct (t_win a); [|discriminate]. destruct (t_win b); [|discriminate]. apply cmpN_sgn.
  - destruct (Hf eq_refl) as [W|[A|B]].
    + rewrite W. cbn. apply cmpN_sgn.
    + destruct (0 <? s_window p)%N; destruct (t_win a); try discriminate; apply cmpN_sgn.
    + destruct (0 <? s_window p)%N; destruct (t_win a); destruct (t_win b); try discriminate; apply cmpN_sgn.
Qed.

Lemma cwd_lex p f tb cs a b :
  homogeneous p cs = true -> In a cs -> In b cs ->
  compare_with_density p f tb a b = lex (wkey (mode p cs) p f tb a) (wkey (mode p cs) p f tb b).
Proof.
  intros H Ia Ib. destruct a as [a|], b as [b|]; cbn [compare_with_density wkey]; try reflexivity.
  change (lex (1 :: ?x :: ckey a) (1 :: ?y :: ckey b))
    with (if x =? y then lex (ckey a) (ckey b) else sgn x y).
  destruct (is_deep_fork p f tb); cbn [negb].
  - rewrite (compare_density_key (mode p cs) p f a b).
    + rewrite <- compare_lex.
      destruct (sgn_range (dkey (mode p cs) p f a) (dkey (mode p cs) p f b)) as [[E L]|[[E L]|[E L]]];
        rewrite E; cbn [Z.eqb negb].
      * destruct (Z.eqb_spec (dkey (mode p cs) p f a) (dkey (mode p cs) p f b)); [lia|reflexivity].
      * destruct (Z.eqb_spec (dkey (mode p cs) p f a) (dkey (mode p cs) p f b)); [lia|reflexivity].
      * rewrite L, Z.eqb_refl. reflexivity.
    + unfold mode. intros M. apply andb_true_iff in M. destruct M as [W F].
      rewrite forallb_forall in F. split; [exact W|]. split; [apply (F _ Ia)|apply (F _ Ib)].
    + unfold mode, homogeneous in *. intros M.
      destruct (N.eqb_spec (s_window p) 0); [left; assumption|]. cbn [orb] in H.
      assert (W : (0 <? s_window p)%N = true) by (apply N.ltb_lt; lia).
      rewrite W in M. cbn [andb] in M. rewrite M in H. cbn [orb] in H.
      rewrite forallb_forall in H. specialize (H _ Ia). cbn [is_plain] in H.
      right; left. destruct (windowed a); [discriminate|reflexivity].
  - rewrite Z.eqb_refl. apply compare_lex.
Qed.

(* ---- BlocksInWindow against its arithmetic specification ------------------- *)
(* spec: blocks with forkSlot < s <= forkSlot + window, in unbounded arithmetic *)
Definition in_window (fs w s : N) : bool := ((fs <? s) && (s <=? fs + w))%N.

Lemma biw_fold slots fs w : forall acc,
  fold_left (fun count s => if (fs <? s)%N && (s - fs <=? w)%N then (count + 1)%N else count) slots acc
  = (acc + N.of_nat (length (filter (in_window fs w) slots)))%N.
Proof.
  induction slots as [|s r IH]; intros acc; cbn [fold_left filter length]; [lia|].
  rewrite IH. unfold in_window at 2.
  destruct (N.ltb_spec fs s), (N.leb_spec (s - fs) w), (N.leb_spec s (fs + w)); cbn [andb length]; lia.
Qed.

Lemma blocks_in_window_spec slots fs w :
  blocks_in_window slots fs w = N.of_nat (length (filter (in_window fs w) slots)).
Proof.
  unfold blocks_in_window. destruct (N.eqb_spec w 0) as [->|NZ].
  - replace (filter (in_window fs 0) slots) with (@nil N); [reflexivity|].
    induction slots as [|s r IH]; [reflexivity|]. cbn [filter]. unfold in_window at 1.
    destruct (N.ltb_spec fs s), (N.leb_spec s (fs + 0)); cbn [andb]; try lia; exact IH.
  - rewrite biw_fold. lia.
Qed.

(* ---- IsDeepFork ------------------------------------------------------------ *)
Lemma is_deep_fork_spec p f tb :
  is_deep_fork p f tb = true <-> Z.of_N tb - Z.of_N (f_bn f) > Z.of_N (s_k p).
Proof.
  unfold is_deep_fork. destruct (N.leb_spec tb (f_bn f)); [split; [discriminate|lia]|].
  rewrite N.ltb_lt. lia.
Qed.

(* ---- the fold of selectPreferred ------------------------------------------- *)
Section Select.
  Variable A : Type.
  Variable cmp : A -> A -> Z.
  Variable P : A -> Prop.
  Hypothesis cmp_antisym : forall a b, P a -> P b -> cmp a b = - cmp b a.
  Hypothesis cmp_trans : forall a b c, P a -> P b -> P c -> cmp a b >= 0 -> cmp b c >= 0 -> cmp a c >= 0.

  Definition stepsel (pref c : A) : A := if 0 <? cmp c pref then c else pref.

  Lemma cmp_refl a : P a -> cmp a a = 0.
  Proof. intros Pa. pose proof (cmp_antisym a a Pa Pa). lia. Qed.

  Lemma fold_max r : forall c0, P c0 -> Forall P r ->
    let m := fold_left stepsel r c0 in
    (m = c0 \/ In m r) /\ P m /\ cmp m c0 >= 0 /\ forall c, In c r -> cmp m c >= 0.
  Proof.
    induction r as [|c r IH]; intros c0 P0 Pr; cbn [fold_left].
    - repeat split; auto. + rewrite cmp_refl; [lia|auto]. + intros c [].
    - inversion Pr as [|? ? Pc Pr']; subst.
      assert (Ps : P (stepsel c0 c)) by (unfold stepsel; destruct (0 <? cmp c c0); auto).
      destruct (IH (stepsel c0 c) Ps Pr') as (Hin & Pm & Hge & Hall).
      set (m := fold_left stepsel r (stepsel c0 c)) in *.
      assert (G : cmp m c0 >= 0 /\ cmp m c >= 0).
      { unfold stepsel in Hge. destruct (Z.ltb_spec 0 (cmp c c0)) as [L|L].
        - split; [|exact Hge]. apply (cmp_trans m c c0); auto; lia.
        - split; [exact Hge|]. apply (cmp_trans m c0 c); auto.
          rewrite (cmp_antisym c0 c); auto; lia. }
      repeat split; auto; try tauto.
      + destruct Hin as [E|I]; [|right; right; exact I].
        unfold stepsel in E. destruct (0 <? cmp c c0); [right; left; auto|left; auto].
      + intros x [<-|I]; [tauto|auto].
  Qed.

  (* the first maximal element is kept: nothing before the result is strictly
     worse-or-equal replaced; stated as: an element equal to the running best
     never replaces it *)
  Lemma fold_keeps c0 r : (forall c, In c r -> cmp c c0 <= 0) -> P c0 -> Forall P r ->
    fold_left stepsel r c0 = c0.
  Proof.
    revert c0. induction r as [|c r IH]; intros c0 H P0 Pr; cbn [fold_left]; [reflexivity|].
    inversion Pr; subst. unfold stepsel at 2.
    destruct (Z.ltb_spec 0 (cmp c c0)) as [L|L]; [specialize (H c (or_introl eq_refl)); lia|].
    apply IH; auto. intros x I. apply H. right; exact I.
  Qed.
End Select.

Arguments stepsel {A} cmp pref c.

Lemma select_preferred_fold cmp c0 r :
  select_preferred cmp (c0 :: r) = fold_left (stepsel cmp) r c0.
Proof. reflexivity. Qed.

Section SelectO.
  Variable cmp : otip -> otip -> Z.
  Variable cs : list otip.
  Let P := fun x : otip => In x cs.
  Hypothesis cmp_antisym : forall a b, P a -> P b -> cmp a b = - cmp b a.
  Hypothesis cmp_trans : forall a b c, P a -> P b -> P c -> cmp a b >= 0 -> cmp b c >= 0 -> cmp a c >= 0.

  Lemma select_in : cs <> [] -> In (select_preferred cmp cs) cs.
  Proof.
    subst P. destruct cs as [|c0 r] eqn:E; [congruence|]. intros _.
    rewrite select_preferred_fold.
    destruct (fold_max otip cmp (fun x => In x (c0 :: r)) cmp_antisym cmp_trans r c0) as (Hin & _).
    - left; reflexivity.
    - apply Forall_forall. intros x I. right; exact I.
    - destruct Hin as [->|I]; [left; reflexivity|right; exact I].
  Qed.

  Lemma select_max : forall c, In c cs -> cmp (select_preferred cmp cs) c >= 0.
  Proof.
    subst P. destruct cs as [|c0 r] eqn:E; [intros c []|]. intros c I.
    rewrite select_preferred_fold.
    destruct (fold_max otip cmp (fun x => In x (c0 :: r)) cmp_antisym cmp_trans r c0) as (_ & _ & H0 & Hr).
    - left; reflexivity.
    - apply Forall_forall. intros x Ix. right; exact Ix.
    - destruct I as [<-|I]; [exact H0|apply Hr; exact I].
  Qed.
End SelectO.

(* select on a permutation: both results are maximal members, hence equivalent *)
Lemma select_perm cmp cs cs' :
  cs <> [] ->
  (forall a b, In a cs -> In b cs -> cmp a b = - cmp b a) ->
  (forall a b c, In a cs -> In b cs -> In c cs -> cmp a b >= 0 -> cmp b c >= 0 -> cmp a c >= 0) ->
  Permutation cs cs' ->
  cmp (select_preferred cmp cs) (select_preferred cmp cs') = 0.
Proof.
  intros NE AS TR Pm.
  assert (NE' : cs' <> []).
  { intros ->. apply Permutation_sym, Permutation_nil in Pm. contradiction. }
  assert (AS' : forall a b, In a cs' -> In b cs' -> cmp a b = - cmp b a).
  { intros a b Ia Ib. apply AS; eapply Permutation_in; try apply Permutation_sym; eauto. }
  assert (TR' : forall a b c, In a cs' -> In b cs' -> In c cs' -> cmp a b >= 0 -> cmp b c >= 0 -> cmp a c >= 0).
  { intros a b c Ia Ib Ic. apply TR; eapply Permutation_in; try apply Permutation_sym; eauto. }
  pose proof (select_in cmp cs AS TR NE) as I1.
  pose proof (select_in cmp cs' AS' TR' NE') as I2.
  assert (I1' : In (select_preferred cmp cs) cs') by (eapply Permutation_in; eauto).
  assert (I2' : In (select_preferred cmp cs') cs) by (eapply Permutation_in; try apply Permutation_sym; eauto).
  pose proof (select_max cmp cs AS TR _ I2') as G1.
  pose proof (select_max cmp cs' AS' TR' _ I1') as G2.
  rewrite (AS _ _ I1 I2') in *. lia.
Qed.

(* select_index returns the position of select_preferred's result *)
Lemma select_index_fold cmp r : forall best i pref (pre : list otip),
  nth_error (pre ++ r) best = Some pref -> (best < i)%nat -> i = length pre ->
  let st := fold_left (fun st c => let '(best, i, pref) := st in
              if 0 <? cmp c pref then (i, S i, c) else (best, S i, pref)) r (best, i, pref) in
  nth_error (pre ++ r) (fst (fst st)) = Some (snd st) /\ snd st = fold_left (stepsel cmp) r pref.
Proof.
  induction r as [|c r IH]; intros best i pref pre N L I; cbn [fold_left].
  - cbn. split; auto.
  - unfold stepsel at 2. destruct (0 <? cmp c pref).
    + replace (pre ++ c :: r) with ((pre ++ [c]) ++ r) by (rewrite <- app_assoc; reflexivity).
      apply IH.
      * rewrite nth_error_app1 by (rewrite app_length; cbn; lia).
        rewrite nth_error_app2 by lia. replace (i - length pre)%nat with O by lia. reflexivity.
      * lia.
      * rewrite app_length; cbn; lia.
    + replace (pre ++ c :: r) with ((pre ++ [c]) ++ r) by (rewrite <- app_assoc; reflexivity).
      apply IH.
      * rewrite <- app_assoc. exact N.
      * lia.
      * rewrite app_length; cbn; lia.
Qed.

Lemma select_index_correct cmp cs i :
  select_index cmp cs = Some i -> nth_error cs i = Some (select_preferred cmp cs).
Proof.
  destruct cs as [|c0 r]; [discriminate|]. unfold select_index. intros E. injection E as <-.
  rewrite select_preferred_fold.
  destruct (select_index_fold cmp r O 1%nat c0 [c0]) as (N & S); cbn; auto.
  cbn in N. rewrite N. f_equal. exact S.
Qed.

(* ---- GenesisSelector.Compare ----------------------------------------------- *)
Definition gkey (a : frag) : list Z := [Z.of_N (g_inwin a); Z.of_N (g_total a)].
Lemma genesis_compare_lex a b : genesis_compare a b = lex (gkey a) (gkey b).
Proof.
  destruct a as [wa ta], b as [wb tb]. unfold genesis_compare, gkey, lex, sgn; cbn [g_inwin g_total].
  repeat match goal with |- context [(?x =? ?y)%N] => destruct (N.eqb_spec x y) end;
  repeat match goal with |- context [(?x <? ?y)%N] => destruct (N.ltb_spec x y) end;
  cbn [negb];
  repeat match goal with |- context [?x =? ?y] => destruct (Z.eqb_spec x y) end;
  repeat match goal with |- context [?x <? ?y] => destruct (Z.ltb_spec x y) end; try lia.
Qed.

Lemma genesis_preferred_max cs m : genesis_preferred cs = Some m ->
  In m cs /\ forall c, In c cs -> genesis_compare m c >= 0.
Proof.
  destruct cs as [|c0 r]; [discriminate|]. cbn [genesis_preferred]. intros E. injection E as <-.
  assert (AS : forall a b : frag, True -> True -> genesis_compare a b = - genesis_compare b a).
  { intros a b _ _. rewrite !genesis_compare_lex. apply lex_antisym. }
  assert (TR : forall a b c : frag, True -> True -> True ->
               genesis_compare a b >= 0 -> genesis_compare b c >= 0 -> genesis_compare a c >= 0).
  { intros a b c _ _ _. rewrite !genesis_compare_lex. intros H1 H2.
    apply (lex_trans_gen (gkey a) (gkey b) (gkey c)); auto. }
  destruct (fold_max frag genesis_compare (fun _ => True) AS TR r c0) as (Hin & _ & H0 & Hr); auto.
  - apply Forall_forall; auto.
  - change (fun best c => if 0 <? genesis_compare c best then c else best) with (stepsel genesis_compare).
    split.
    + destruct Hin as [->|I]; [left; reflexivity|right; exact I].
    + intros c [<-|I]; auto.
Qed.

(* ComputeGenesisWindow is the ceiling of 3k/f when it fits *)
Lemma compute_genesis_window_spec k fn fd : 0 < fn -> 0 < fd ->
  let w := Z.of_N (compute_genesis_window k fn fd) in
  (3 * Z.of_N k * fd <= 18446744073709551615 * fn ->
     (w - 1) * fn < 3 * Z.of_N k * fd <= w * fn)
  /\ (18446744073709551615 * fn < 3 * Z.of_N k * fd -> w = 18446744073709551615).
Proof.
  intros Hn Hd. unfold compute_genesis_window.
  destruct (Z.leb_spec fn 0); [lia|]. destruct (Z.leb_spec fd 0); [lia|]. cbn [orb].
  set (num := 3 * Z.of_N k * fd).
  assert (0 <= num) by (unfold num; lia).
  pose proof (Z.div_mod num fn ltac:(lia)) as DM.
  pose proof (Z.mod_pos_bound num fn Hn) as MB.
  assert (0 <= num / fn) by (apply Z.div_pos; lia).
  destruct (Z.eqb_spec (num mod fn) 0) as [E|E];
    match goal with |- context [18446744073709551615 <? ?q] => destruct (Z.ltb_spec 18446744073709551615 q) end;
    split; intros; try rewrite Z2N.id by lia; try nia; try reflexivity.
Qed.

(* ---- facts used by Props.v -------------------------------------------------- *)
Lemma cmpN_antisym x y : cmpN x y = - cmpN y x.
Proof. unfold cmpN. destruct (N.ltb_spec y x), (N.ltb_spec x y); lia. Qed.

Lemma compare_density_antisym p a b f : compare_density p a b f = - compare_density p b a f.
Proof.
  unfold compare_density. destruct (0 <? s_window p)%N, (t_win a), (t_win b); apply cmpN_antisym.
Qed.

Lemma compare_antisym a b : compare a b = - compare b a.
Proof. rewrite !compare_lex. apply lex_antisym. Qed.

(* antisymmetry of CompareWithDensity needs no homogeneity: a pair always uses
   the same metric in both directions *)
Lemma cwd_antisym p f tb a b :
  compare_with_density p f tb a b = - compare_with_density p f tb b a.
Proof.
  destruct a as [a|], b as [b|]; cbn [compare_with_density]; try lia.
  destruct (is_deep_fork p f tb); cbn [negb]; [|apply compare_antisym].
  rewrite (compare_density_antisym p b a f), (compare_antisym b a).
  destruct (Z.eqb_spec (compare_density p a b f) 0) as [E|E];
    destruct (Z.eqb_spec (- compare_density p a b f) 0); cbn [negb]; lia.
Qed.

Lemma compare_o_preorder a b c :
  compare_o a b = - compare_o b a /\ compare_o a a = 0
  /\ (compare_o a b = 1 \/ compare_o a b = -1 \/ compare_o a b = 0)
  /\ (compare_o a b >= 0 -> compare_o b c >= 0 ->
      compare_o a c >= 0 /\ (compare_o a b > 0 \/ compare_o b c > 0 -> compare_o a c > 0)).
Proof.
  rewrite !compare_o_lex. split; [|split; [|split]].
  - apply lex_antisym.
  - apply lex_refl.
  - apply lex_range.
  - intros H1 H2. apply (lex_trans_gen (okey a) (okey b) (okey c)); auto; rewrite !okey_len; reflexivity.
Qed.

Lemma cwd_preorder p f tb cs a b c :
  homogeneous p cs = true -> In a cs -> In b cs -> In c cs ->
  let cmp := compare_with_density p f tb in
  cmp a b = - cmp b a /\ cmp a a = 0
  /\ (cmp a b = 1 \/ cmp a b = -1 \/ cmp a b = 0)
  /\ (cmp a b >= 0 -> cmp b c >= 0 ->
      cmp a c >= 0 /\ (cmp a b > 0 \/ cmp b c > 0 -> cmp a c > 0)).
Proof.
  intros H Ia Ib Ic cmp. subst cmp.
  rewrite !(cwd_lex p f tb cs) by assumption. split; [|split; [|split]].
  - apply lex_antisym.
  - apply lex_refl.
  - apply lex_range.
  - intros H1 H2. apply lex_trans_gen with (b := wkey (mode p cs) p f tb b); auto; rewrite !wkey_len; reflexivity.
Qed.

(* equality of the comparison = equality of the key *)
Lemma compare_eq0 a b : compare a b = 0 <->
  t_bn a = t_bn b /\ is_nil (t_vrf a) = is_nil (t_vrf b) /\ be (t_vrf a) = be (t_vrf b).
Proof.
  rewrite compare_lex. split.
  - intros H. apply lex_eq0 in H; [|reflexivity]. unfold ckey, hv in H. injection H as H1 H2 H3.
    repeat split; try lia. destruct (is_nil (t_vrf a)), (is_nil (t_vrf b)); try reflexivity; lia.
  - intros (H1 & H2 & H3). unfold ckey, hv. rewrite H1, H2, H3. apply lex_refl.
Qed.

(* rule clauses of Compare *)
Lemma rule_longer a b : (t_bn b < t_bn a)%N -> compare a b = 1.
Proof.
  intros L. unfold compare. destruct (N.eqb_spec (t_bn a) (t_bn b)); [lia|]. cbn [negb].
  destruct (N.ltb_spec (t_bn b) (t_bn a)); [reflexivity|lia].
Qed.

Lemma rule_vrf a b : t_bn a = t_bn b -> t_vrf a <> [] -> t_vrf b <> [] ->
  compare a b = cmpN (be (t_vrf b)) (be (t_vrf a)).
Proof.
  intros E Na Nb. unfold compare. rewrite E, N.eqb_refl. cbn [negb].
  destruct (t_vrf a) as [|xa ra]; [congruence|]. destruct (t_vrf b) as [|xb rb]; [congruence|].
  cbn [is_nil andb]. unfold cmpN.
  destruct (N.ltb_spec (be (xb :: rb)) (be (xa :: ra))), (N.ltb_spec (be (xa :: ra)) (be (xb :: rb)));
    cbn; try reflexivity; lia.
Qed.

Lemma rule_missing_vrf a b : t_bn a = t_bn b -> t_vrf a <> [] -> t_vrf b = [] -> compare a b = 1.
Proof.
  intros E Na Nb. unfold compare. rewrite E, N.eqb_refl, Nb. cbn [negb].
  destruct (t_vrf a); [congruence|]. reflexivity.
Qed.

(* rule clauses of CompareWithDensity *)
Lemma rule_shallow p f tb a b : is_deep_fork p f tb = false ->
  compare_with_density p f tb a b = compare_o a b.
Proof. intros D. destruct a, b; cbn [compare_with_density compare_o]; try reflexivity. rewrite D. reflexivity. Qed.

Definition window_count (p : selector) (f : forkpt) (slots : list N) : N :=
  N.of_nat (length (filter (in_window (f_slot f) (s_window p)) slots)).

Lemma rule_deep_counts p f tb a b sa sb :
  is_deep_fork p f tb = true -> (0 < s_window p)%N -> t_win a = Some sa -> t_win b = Some sb ->
  compare_with_density p f tb (Some a) (Some b) =
    if (window_count p f sb <? window_count p f sa)%N then 1
    else if (window_count p f sa <? window_count p f sb)%N then -1
    else compare a b.
Proof.
  intros D W A B. cbn [compare_with_density]. rewrite D. cbn [negb].
  unfold compare_density. rewrite A, B. apply N.ltb_lt in W. rewrite W.
  rewrite !blocks_in_window_spec. fold (window_count p f sa) (window_count p f sb). unfold cmpN.
  destruct (N.ltb_spec (window_count p f sb) (window_count p f sa)); [reflexivity|].
  destruct (N.ltb_spec (window_count p f sa) (window_count p f sb)); reflexivity.
Qed.

Lemma rule_deep_legacy p f tb a b :
  is_deep_fork p f tb = true -> (s_window p = 0%N \/ t_win a = None \/ t_win b = None) ->
  compare_with_density p f tb (Some a) (Some b) =
    if (t_dens b <? t_dens a)%N then 1 else if (t_dens a <? t_dens b)%N then -1 else compare a b.
Proof.
  intros D H. cbn [compare_with_density]. rewrite D. cbn [negb].
  assert (E : compare_density p a b f = cmpN (t_dens a) (t_dens b)).
  { unfold compare_density. destruct H as [W|[A|B]].
    - rewrite W. reflexivity.
    - rewrite A. destruct (0 <? s_window p)%N; reflexivity.
    - rewrite B. destruct (0 <? s_window p)%N, (t_win a); reflexivity. }
  rewrite E. unfold cmpN.
  destruct (N.ltb_spec (t_dens b) (t_dens a)); [reflexivity|].
  destruct (N.ltb_spec (t_dens a) (t_dens b)); reflexivity.
Qed.

(* maximality / order independence, instantiated *)
Lemma preferred_max cs : (cs = [] -> preferred cs = None) /\ (cs <> [] -> In (preferred cs) cs)
  /\ forall c, In c cs -> compare_o (preferred cs) c >= 0.
Proof.
  assert (AS : forall a b, In a cs -> In b cs -> compare_o a b = - compare_o b a)
    by (intros a b _ _; apply (compare_o_preorder a b a)).
  assert (TR : forall a b c, In a cs -> In b cs -> In c cs -> compare_o a b >= 0 -> compare_o b c >= 0 -> compare_o a c >= 0)
    by (intros a b c _ _ _ H1 H2; apply (compare_o_preorder a b c); assumption).
  split; [intros ->; reflexivity|]. split.
  - apply select_in; assumption.
  - apply select_max; assumption.
Qed.

Lemma preferred_perm cs cs' : Permutation cs cs' -> compare_o (preferred cs) (preferred cs') = 0.
Proof.
  intros Pm. destruct cs as [|c0 r].
  - apply Permutation_nil in Pm. subst. reflexivity.
  - apply select_perm; try discriminate; auto.
    + intros a b _ _; apply (compare_o_preorder a b a).
    + intros a b c _ _ _ H1 H2; apply (compare_o_preorder a b c); assumption.
Qed.

Lemma pwd_max p f tb cs : homogeneous p cs = true ->
  (cs <> [] -> In (preferred_with_density p f tb cs) cs)
  /\ forall c, In c cs -> compare_with_density p f tb (preferred_with_density p f tb cs) c >= 0.
Proof.
  intros H.
  assert (AS : forall a b, In a cs -> In b cs -> compare_with_density p f tb a b = - compare_with_density p f tb b a)
    by (intros; apply cwd_antisym).
  assert (TR : forall a b c, In a cs -> In b cs -> In c cs ->
     compare_with_density p f tb a b >= 0 -> compare_with_density p f tb b c >= 0 -> compare_with_density p f tb a c >= 0).
  { intros a b c Ia Ib Ic H1 H2. apply (cwd_preorder p f tb cs a b c); assumption. }
  split.
  - apply select_in; assumption.
  - apply select_max; assumption.
Qed.

Lemma pwd_perm p f tb cs cs' : homogeneous p cs = true -> Permutation cs cs' ->
  compare_with_density p f tb (preferred_with_density p f tb cs) (preferred_with_density p f tb cs') = 0.
Proof.
  intros H Pm. destruct cs as [|c0 r].
  - apply Permutation_nil in Pm. subst. reflexivity.
  - apply select_perm; try discriminate; auto.
    + intros; apply cwd_antisym.
    + intros a b c Ia Ib Ic H1 H2. apply (cwd_preorder p f tb (c0 :: r) a b c); assumption.
Qed.

Lemma genesis_preorder a b c :
  genesis_compare a b = - genesis_compare b a /\ genesis_compare a a = 0
  /\ (genesis_compare a b >= 0 -> genesis_compare b c >= 0 -> genesis_compare a c >= 0)
  /\ (genesis_compare a b = 0 <-> g_inwin a = g_inwin b /\ g_total a = g_total b).
Proof.
  rewrite !genesis_compare_lex. split; [|split; [|split; [|split]]].
  - apply lex_antisym.
  - apply lex_refl.
  - intros H1 H2. apply (lex_trans_gen (gkey a) (gkey b) (gkey c)); auto.
  - intros H. apply lex_eq0 in H; [|reflexivity]. unfold gkey in H. injection H as H1 H2. lia.
  - intros [H1 H2]. unfold gkey. rewrite H1, H2. apply lex_refl.
Qed.
