(* C41 - chain selection.  Function-by-function model of
   consensus/selection.go (PraosChainSelector) and of the comparison in
   consensus/genesis/genesis.go (GenesisSelector).  No proofs here.

   Conventions: uint64 values are N (no arithmetic in this file can wrap: the
   only subtractions are guarded exactly as in the Go code); comparison results
   are Z in {-1,0,1}.  The float64 of the legacy path (ChainTip.Density) is an
   ORACLE: each tip carries t_dens, an integer that is order-isomorphic to the
   float the implementation returned for the fork slot of the case
   (math.Float64bits of a non-negative, non-NaN float64). *)
From V Require Import Lib.Base.
Local Open Scope Z_scope.

(* A non-nil ChainTip.  t_win = Some slots: the tip implements
   WindowBlockCounter (WindowedChainTip, slots = blockSlots);  None: it does
   not (SimpleChainTip). *)
Record tip := mkTip {
  t_bn : N;                     (* BlockNumber() *)
  t_vrf : bytes;                (* VRFOutput() *)
  t_win : option (list N);      (* blockSlots, if windowed *)
  t_dens : N                    (* oracle: Density(fork.Slot) as ordered bits *)
}.
(* a ChainTip interface value; None = nil *)
Definition otip := option tip.

Record selector := mkSel { s_k : N; s_window : N }.       (* SecurityParam, GenesisWindowSlots *)
Record forkpt := mkFork { f_slot : N; f_bn : N }.         (* ForkPoint *)

(* new(big.Int).SetBytes: big-endian, leading zeros irrelevant, [] = 0 *)
Definition be (bs : bytes) : N := fold_left (fun acc b => (acc * 256 + b)%N) bs 0%N.

Definition is_nil {A} (l : list A) : bool := match l with [] => true | _ => false end.

(* three-way comparison of two uint64 / big.Int.Cmp *)
Definition cmpN (x y : N) : Z := if (y <? x)%N then 1 else if (x <? y)%N then -1 else 0.

(* PraosChainSelector.Compare on two non-nil tips *)
Definition compare (a b : tip) : Z :=
  if negb (t_bn a =? t_bn b)%N then
    (if (t_bn b <? t_bn a)%N then 1 else -1)
  else
    let va := t_vrf a in let vb := t_vrf b in
    if is_nil va && is_nil vb then 0
    else if is_nil va then -1
    else if is_nil vb then 1
    else
      let c := cmpN (be va) (be vb) in
      if c <? 0 then 1 else if 0 <? c then -1 else 0.

(* PraosChainSelector.Compare including the nil checks *)
Definition compare_o (a b : otip) : Z :=
  match a, b with
  | None, None => 0
  | None, _ => -1
  | _, None => 1
  | Some x, Some y => compare x y
  end.

(* PraosChainSelector.IsDeepFork *)
Definition is_deep_fork (p : selector) (f : forkpt) (tipbn : N) : bool :=
  if (tipbn <=? f_bn f)%N then false else (s_k p <? tipbn - f_bn f)%N.

(* WindowedChainTip.BlocksInWindow *)
Definition blocks_in_window (slots : list N) (fork_slot w : N) : N :=
  if (w =? 0)%N then 0%N
  else fold_left (fun count s =>
         if (fork_slot <? s)%N && (s - fork_slot <=? w)%N then (count + 1)%N else count)
       slots 0%N.

(* PraosChainSelector.compareDensity *)
Definition compare_density (p : selector) (a b : tip) (f : forkpt) : Z :=
  match (0 <? s_window p)%N, t_win a, t_win b with
  | true, Some sa, Some sb =>
      cmpN (blocks_in_window sa (f_slot f) (s_window p))
           (blocks_in_window sb (f_slot f) (s_window p))
  | _, _, _ => cmpN (t_dens a) (t_dens b)       (* legacy float ratio: oracle *)
  end.

(* PraosChainSelector.CompareWithDensity *)
Definition compare_with_density (p : selector) (f : forkpt) (tipbn : N) (a b : otip) : Z :=
  match a, b with
  | None, None => 0
  | None, _ => -1
  | _, None => 1
  | Some x, Some y =>
      if negb (is_deep_fork p f tipbn) then compare x y
      else let r := compare_density p x y f in
           if negb (r =? 0) then r else compare x y
  end.

(* PraosChainSelector.selectPreferred *)
Definition select_preferred (cmp : otip -> otip -> Z) (cs : list otip) : otip :=
  match cs with
  | [] => None
  | c0 :: r => fold_left (fun pref c => if 0 <? cmp c pref then c else pref) r c0
  end.

Definition preferred (cs : list otip) : otip := select_preferred compare_o cs.
Definition preferred_with_density (p : selector) (f : forkpt) (tipbn : N) (cs : list otip) : otip :=
  select_preferred (compare_with_density p f tipbn) cs.

(* the same fold, but returning the position (what the harness observes) *)
Definition select_index (cmp : otip -> otip -> Z) (cs : list otip) : option nat :=
  match cs with
  | [] => None
  | c0 :: r =>
      Some (fst (fst (fold_left (fun st c =>
              let '(best, i, pref) := st in
              if 0 <? cmp c pref then (i, S i, c) else (best, S i, pref)) r (O, 1%nat, c0))))
  end.

(* ---- consensus/genesis/genesis.go ---------------------------------------- *)
(* a ChainFragment as seen by GenesisSelector.Compare: BlockCountInWindow(window)
   (float-estimated for SimpleChainFragment: oracle data) and BlockCount() *)
Record frag := mkFrag { g_inwin : N; g_total : N }.
Definition genesis_compare (a b : frag) : Z :=
  if negb (g_inwin a =? g_inwin b)%N then (if (g_inwin b <? g_inwin a)%N then 1 else -1)
  else if negb (g_total a =? g_total b)%N then (if (g_total b <? g_total a)%N then 1 else -1)
  else 0.
Definition genesis_preferred (cs : list frag) : option frag :=
  match cs with
  | [] => None
  | c0 :: r => Some (fold_left (fun best c => if 0 <? genesis_compare c best then c else best) r c0)
  end.

(* ComputeGenesisWindow: ceil(3k/f), f = fn/fd; 0 for f <= 0 (or nil), clamped *)
Definition compute_genesis_window (k : N) (fnum fden : Z) : N :=
  if (fnum <=? 0) || (fden <=? 0) then 0%N
  else
    let num := 3 * Z.of_N k * fden in
    let q := num / fnum in
    let q' := if num mod fnum =? 0 then q else q + 1 in
    if 18446744073709551615 <? q' then 18446744073709551615%N else Z.to_N q'.

(* ---- correspondence ------------------------------------------------------ *)
(* One case: a selector, a fork point, the current tip height, candidates
   (possibly nil), and what the implementation returned:
   cmp_obs  = Compare(ci,cj) for all i,j (row-major);
   cwd_obs  = CompareWithDensity(ci,cj,fork,tip) for all i,j;
   orders   = list of (permutation of candidate indices,
                       index into the permuted list returned by Preferred,
                       same for PreferredWithDensity); None = nil returned
                       for an empty list.  *)
Record case := mkCase {
  c_sel : selector; c_fork : forkpt; c_tipbn : N;
  c_tips : list otip;
  c_cmp_obs : list Z; c_cwd_obs : list Z;
  c_deep_obs : bool;
  c_orders : list (list nat * option nat * option nat)
}.

Definition all_pairs {A} (f : otip -> otip -> A) (l : list otip) : list A :=
  flat_map (fun a => map (fun b => f a b) l) l.

Definition permute (l : list otip) (perm : list nat) : list otip :=
  map (fun i => nth i l None) perm.

Definition onat_eqb := opt_eqb Nat.eqb.

Definition check_case (c : case) : bool :=
  list_eqb Z.eqb (all_pairs compare_o (c_tips c)) (c_cmp_obs c)
  && list_eqb Z.eqb (all_pairs (compare_with_density (c_sel c) (c_fork c) (c_tipbn c)) (c_tips c)) (c_cwd_obs c)
  && Bool.eqb (is_deep_fork (c_sel c) (c_fork c) (c_tipbn c)) (c_deep_obs c)
  && forallb (fun o =>
       let '(perm, i1, i2) := o in
       let cs := permute (c_tips c) perm in
       onat_eqb (select_index compare_o cs) i1
       && onat_eqb (select_index (compare_with_density (c_sel c) (c_fork c) (c_tipbn c)) cs) i2)
     (c_orders c).

Definition mismatches : list case -> list nat := failing check_case.

(* genesis.go cases: fragments with the observed Compare matrix and Preferred index *)
Record gcase := mkGCase {
  gc_frags : list frag; gc_cmp_obs : list Z; gc_pref : option nat;
  gc_k : N; gc_fnum : Z; gc_fden : Z; gc_window_obs : N }.
Definition gindex (cs : list frag) : option nat :=
  match cs with
  | [] => None
  | c0 :: r =>
      Some (fst (fst (fold_left (fun st c =>
              let '(best, i, pref) := st in
              if 0 <? genesis_compare c pref then (i, S i, c) else (best, S i, pref)) r (O, 1%nat, c0))))
  end.
Definition check_gcase (c : gcase) : bool :=
  list_eqb Z.eqb (flat_map (fun a => map (genesis_compare a) (gc_frags c)) (gc_frags c)) (gc_cmp_obs c)
  && onat_eqb (gindex (gc_frags c)) (gc_pref c)
  && (compute_genesis_window (gc_k c) (gc_fnum c) (gc_fden c) =? gc_window_obs c)%N.
Definition gmismatches : list gcase -> list nat := failing check_gcase.
