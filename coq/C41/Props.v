(* C41 - property theorems only (proofs are in C41/Proofs.v). *)
From Coq Require Import Permutation String.
From V Require Import Lib.Base Lib.Hex C41.Model C41.Proofs.
Local Open Scope Z_scope.

(* 1. Compare (nil candidates included) is a total preorder: antisymmetric in
   the sense compare a b = - compare b a (hence total), reflexive, transitive
   (with the strict variants), values in {-1,0,1}. *)
Theorem C41_compare_total_preorder : forall a b c : otip,
  compare_o a b = - compare_o b a
  /\ compare_o a a = 0
  /\ (compare_o a b = 1 \/ compare_o a b = -1 \/ compare_o a b = 0)
  /\ (compare_o a b >= 0 -> compare_o b c >= 0 ->
      compare_o a c >= 0 /\ (compare_o a b > 0 \/ compare_o b c > 0 -> compare_o a c > 0)).
Proof. exact compare_o_preorder. Qed.
Print Assumptions C41_compare_total_preorder.

(* equivalence = same block number, same VRF presence, same VRF value as a
   big-endian natural (leading zeros / different lengths do not matter) *)
Theorem C41_compare_equal : forall a b : tip, compare a b = 0 <->
  t_bn a = t_bn b /\ is_nil (t_vrf a) = is_nil (t_vrf b) /\ be (t_vrf a) = be (t_vrf b).
Proof. exact compare_eq0. Qed.

(* 2. rule clauses: longer chain wins; tie -> lower VRF output; missing VRF loses *)
Theorem C41_rule_longer_wins : forall a b : tip, (t_bn b < t_bn a)%N -> compare a b = 1.
Proof. exact rule_longer. Qed.
Theorem C41_rule_tie_lower_vrf : forall a b : tip,
  t_bn a = t_bn b -> t_vrf a <> [] -> t_vrf b <> [] ->
  compare a b = cmpN (be (t_vrf b)) (be (t_vrf a)).
Proof. exact rule_vrf. Qed.
Theorem C41_rule_missing_vrf_loses : forall a b : tip,
  t_bn a = t_bn b -> t_vrf a <> [] -> t_vrf b = [] -> compare a b = 1.
Proof. exact rule_missing_vrf. Qed.

(* 3. routing: deep <-> rollback of more than k blocks (unbounded arithmetic) *)
Theorem C41_deep_fork_spec : forall p f tb,
  is_deep_fork p f tb = true <-> Z.of_N tb - Z.of_N (f_bn f) > Z.of_N (s_k p).
Proof. exact is_deep_fork_spec. Qed.

(* shallow fork: the ordinary rule, density never consulted *)
Theorem C41_rule_shallow_ordinary : forall p f tb a b,
  is_deep_fork p f tb = false -> compare_with_density p f tb a b = compare_o a b.
Proof. exact rule_shallow. Qed.

(* deep fork, both tips windowed, window configured: the number of blocks with
   fork.slot < s <= fork.slot + window (no wrap-around) decides first, the
   ordinary rule only breaks exact ties *)
Theorem C41_rule_deep_window_density_first : forall p f tb a b sa sb,
  is_deep_fork p f tb = true -> (0 < s_window p)%N -> t_win a = Some sa -> t_win b = Some sb ->
  compare_with_density p f tb (Some a) (Some b) =
    if (window_count p f sb <? window_count p f sa)%N then 1
    else if (window_count p f sa <? window_count p f sb)%N then -1
    else compare a b.
Proof. exact rule_deep_counts. Qed.

(* deep fork, legacy metric (no window or a tip that cannot count): the
   ratio (oracle value) decides first *)
Theorem C41_rule_deep_legacy_density_first : forall p f tb a b,
  is_deep_fork p f tb = true -> (s_window p = 0%N \/ t_win a = None \/ t_win b = None) ->
  compare_with_density p f tb (Some a) (Some b) =
    if (t_dens b <? t_dens a)%N then 1 else if (t_dens a <? t_dens b)%N then -1 else compare a b.
Proof. exact rule_deep_legacy. Qed.

(* BlocksInWindow computes that count, including near 2^64 *)
Theorem C41_blocks_in_window_spec : forall slots fs w,
  blocks_in_window slots fs w = N.of_nat (length (filter (in_window fs w) slots)).
Proof. exact blocks_in_window_spec. Qed.

(* 4. CompareWithDensity: antisymmetric for ALL candidates ... *)
Theorem C41_density_antisymmetric : forall p f tb a b,
  compare_with_density p f tb a b = - compare_with_density p f tb b a.
Proof. exact cwd_antisym. Qed.

(* ... and a total preorder on every candidate set on which compareDensity uses
   one metric for all pairs.  PARTIAL: excluded are sets that mix windowed and
   plain tips while a window is configured (see C41_mixed_refuted). *)
Theorem C41_density_total_preorder_partial : forall p f tb cs a b c,
  homogeneous p cs = true -> In a cs -> In b cs -> In c cs ->
  let cmp := compare_with_density p f tb in
  cmp a b = - cmp b a /\ cmp a a = 0
  /\ (cmp a b = 1 \/ cmp a b = -1 \/ cmp a b = 0)
  /\ (cmp a b >= 0 -> cmp b c >= 0 ->
      cmp a c >= 0 /\ (cmp a b > 0 \/ cmp b c > 0 -> cmp a c > 0)).
Proof. exact cwd_preorder. Qed.
Print Assumptions C41_density_total_preorder_partial.

(* 5. the preferred candidate is a maximal member, in whatever order *)
Theorem C41_maximal : forall cs,
  (cs = [] -> preferred cs = None) /\ (cs <> [] -> In (preferred cs) cs)
  /\ forall c, In c cs -> compare_o (preferred cs) c >= 0.
Proof. exact preferred_max. Qed.
Theorem C41_order_independent : forall cs cs',
  Permutation cs cs' -> compare_o (preferred cs) (preferred cs') = 0.
Proof. exact preferred_perm. Qed.
Print Assumptions C41_order_independent.

Theorem C41_maximal_density_partial : forall p f tb cs, homogeneous p cs = true ->
  (cs <> [] -> In (preferred_with_density p f tb cs) cs)
  /\ forall c, In c cs -> compare_with_density p f tb (preferred_with_density p f tb cs) c >= 0.
Proof. exact pwd_max. Qed.
Theorem C41_order_independent_density_partial : forall p f tb cs cs',
  homogeneous p cs = true -> Permutation cs cs' ->
  compare_with_density p f tb (preferred_with_density p f tb cs) (preferred_with_density p f tb cs') = 0.
Proof. exact pwd_perm. Qed.
Print Assumptions C41_order_independent_density_partial.

(* the index the harness observes is the position of select_preferred's result *)
Theorem C41_select_index : forall cmp cs i,
  select_index cmp cs = Some i -> nth_error cs i = Some (select_preferred cmp cs).
Proof. exact select_index_correct. Qed.

(* 6. REFUTED for mixed candidate kinds (known finding mixed-tip-kinds-intransitive):
   k = 1, window = 10, fork (slot 0, block 0), current tip height 5;
   a = windowed, slots [1;2]          (2 in window, legacy ratio 2/2 = 1.0)
   b = plain SimpleChainTip, ratio 1/2 (0.5)
   c = windowed, slots [1;2;3;1000]   (3 in window, legacy ratio 4/1000)
   a > b and b > c by the legacy ratio, but c > a by the window count.
   The t_dens values are the IEEE bits of the floats the real code returned. *)
Definition w_sel := mkSel 1 10.
Definition w_fork := mkFork 0 0.
Definition w_a := Some (mkTip 5 (hx "01"%string) (Some [1; 2]%N) 4607182418800017408).
Definition w_b := Some (mkTip 5 (hx "01"%string) None 4602678819172646912).
Definition w_c := Some (mkTip 5 (hx "01"%string) (Some [1; 2; 3; 1000]%N) 4571261708172110332).

Theorem C41_mixed_refuted :
  exists p f tb a b c,
    homogeneous p [a; b; c] = false
    /\ compare_with_density p f tb a b > 0
    /\ compare_with_density p f tb b c > 0
    /\ compare_with_density p f tb a c < 0
    (* ... and then the preferred candidate depends on the order and is not maximal *)
    /\ compare_with_density p f tb (preferred_with_density p f tb [a; b; c])
                                   (preferred_with_density p f tb [b; c; a]) <> 0
    /\ compare_with_density p f tb (preferred_with_density p f tb [a; b; c]) b < 0.
Proof.
  exists w_sel, w_fork, 5%N, w_a, w_b, w_c. vm_compute. repeat split; congruence.
Qed.
Print Assumptions C41_mixed_refuted.

(* 7. consensus/genesis/genesis.go *)
Theorem C41_genesis_compare_preorder : forall a b c : frag,
  genesis_compare a b = - genesis_compare b a /\ genesis_compare a a = 0
  /\ (genesis_compare a b >= 0 -> genesis_compare b c >= 0 -> genesis_compare a c >= 0)
  /\ (genesis_compare a b = 0 <-> g_inwin a = g_inwin b /\ g_total a = g_total b).
Proof. exact genesis_preorder. Qed.
Theorem C41_genesis_preferred_maximal : forall cs m, genesis_preferred cs = Some m ->
  In m cs /\ forall c, In c cs -> genesis_compare m c >= 0.
Proof. exact genesis_preferred_max. Qed.
Theorem C41_genesis_window_ceiling : forall k fn fd, 0 < fn -> 0 < fd ->
  let w := Z.of_N (compute_genesis_window k fn fd) in
  (3 * Z.of_N k * fd <= 18446744073709551615 * fn -> (w - 1) * fn < 3 * Z.of_N k * fd <= w * fn)
  /\ (18446744073709551615 * fn < 3 * Z.of_N k * fd -> w = 18446744073709551615).
Proof. exact compute_genesis_window_spec. Qed.
Print Assumptions C41_genesis_window_ceiling.

(* non-vacuity *)
Example C41_nonvacuous_homogeneous : homogeneous w_sel [w_a; w_c; None] = true.
Proof. reflexivity. Qed.
Example C41_nonvacuous_deep : is_deep_fork w_sel w_fork 5 = true /\ is_deep_fork w_sel w_fork 1 = false.
Proof. split; reflexivity. Qed.
Example C41_nonvacuous_density_beats_length :
  (* deep fork: the denser but SHORTER windowed chain wins *)
  compare_with_density w_sel w_fork 5
    (Some (mkTip 4 (hx "09"%string) (Some [1; 2; 3]%N) 0)) (Some (mkTip 9 (hx "01"%string) (Some [1; 50]%N) 0)) = 1
  /\ compare_with_density w_sel w_fork 1
    (Some (mkTip 4 (hx "09"%string) (Some [1; 2; 3]%N) 0)) (Some (mkTip 9 (hx "01"%string) (Some [1; 50]%N) 0)) = -1.
Proof. split; reflexivity. Qed.
Example C41_nonvacuous_vrf : compare (mkTip 7 (hx "0001"%string) None 0) (mkTip 7 (hx "02"%string) None 0) = 1
  /\ compare (mkTip 7 (hx "0002"%string) None 0) (mkTip 7 (hx "02"%string) None 0) = 0
  /\ compare (mkTip 7 (hx ""%string) None 0) (mkTip 7 (hx "ff"%string) None 0) = -1.
Proof. repeat split; reflexivity. Qed.
