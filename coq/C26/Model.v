(* C26 - validity interval.  Model of
     ledger/shelley/rules.go  UtxoValidateTimeToLive            (with fixes/C26-*.patch)
     ledger/allegra/rules.go  UtxoValidateOutsideValidityIntervalUtxo  (with the fix; Mary..Dijkstra delegate to it)
     ledger/common/rules.go   VerifyTransaction (every rule of the list must return nil)
   The era rule lists come from the translator (Gen.v). *)
From Coq Require Import String.
From V Require Import Lib.Base C26.Gen.
Local Open Scope N_scope.

(* the decoders: body keys 3 (ttl) and 8 (validity start) are `uint64 ...,omitempty`
   (Mary: *uint64 mapped to 0 by ValidityIntervalStart()): absent reads as 0 *)
Definition of_opt (o : option N) : N := match o with Some v => v | None => 0 end.

(* what the validity rules read *)
Record ctx := mk_ctx { c_slot : N; c_start : N; c_ttl : N }.

(* shelley.UtxoValidateTimeToLive:  if ttl >= slot { return nil }; return ExpiredUtxoError *)
Definition shelley_ttl_rule (c : ctx) : bool := c_slot c <=? c_ttl c.

(* allegra.UtxoValidateOutsideValidityIntervalUtxo:
     if start != 0 && slot < start { return error }
     if ttl != 0 && slot >= ttl   { return error }
     return nil *)
Definition allegra_interval_rule (c : ctx) : bool :=
  if negb (c_start c =? 0) && (c_slot c <? c_start c) then false
  else if negb (c_ttl c =? 0) && (c_ttl c <=? c_slot c) then false
  else true.

Definition n_ttl : string := "shelley.UtxoValidateTimeToLive".
Definition n_interval : string := "allegra.UtxoValidateOutsideValidityIntervalUtxo".

(* meaning of one list entry; every rule that is not a validity rule is `other` *)
Definition rule_sem (other : string -> ctx -> bool) (name : string) (c : ctx) : bool :=
  if String.eqb name n_ttl then shelley_ttl_rule c
  else if String.eqb name n_interval then allegra_interval_rule c
  else other name c.

(* common.VerifyTransaction: nil iff every rule returns nil *)
Definition verify (other : string -> ctx -> bool) (rules : list string) (c : ctx) : bool :=
  forallb (fun r => rule_sem other r c) rules.

Fixpoint assoc (k : string) (l : list (string * list string)) : option (list string) :=
  match l with
  | [] => None
  | (k', v) :: r => if String.eqb k k' then Some v else assoc k r
  end.
Definition rules_of (era : string) : option (list string) := assoc era era_rules.

(* the validity verdict of a rule list: all other rules taken to accept *)
Definition validity_accept (rules : list string) (c : ctx) : bool := verify (fun _ _ => true) rules c.

Definition is_validity_rule (n : string) : bool := String.eqb n n_ttl || String.eqb n n_interval.
Definition validity_kinds (rules : list string) : list string := filter is_validity_rule rules.

Definition decode (slot : N) (start ttl : option N) : ctx := mk_ctx slot (of_opt start) (of_opt ttl).

(* correspondence: (era, slot, start, ttl, observed "no validity rejection" when the
   validity rule is called directly, the same observed through common.VerifyTransaction
   over the whole era list with the other rules' verdicts discarded) *)
Definition case := (string * N * option N * option N * bool * bool)%type.
Definition check_case (x : case) : bool :=
  match x with
  | (era, slot, start, ttl, accepted_direct, accepted_verify) =>
    match rules_of era with
    | None => false
    | Some rs =>
      let c := decode slot start ttl in
      Bool.eqb (forallb (fun r => rule_sem (fun _ _ => true) r c) (validity_kinds rs)) accepted_direct &&
      Bool.eqb (validity_accept rs c) accepted_verify
    end
  end.
Definition mismatches : list case -> list nat := failing check_case.

Definition allegra_plus : list string :=
  ["allegra"; "mary"; "alonzo"; "babbage"; "conway"; "dijkstra"]%string.

(* table checker: returns the first era whose list does not contain exactly the expected validity rule *)
Definition era_ok (e : string * list string) : bool :=
  let '(era, rs) := e in
  if String.eqb era "shelley" then list_eqb String.eqb (validity_kinds rs) [n_ttl]
  else existsb (String.eqb era) allegra_plus && list_eqb String.eqb (validity_kinds rs) [n_interval].
Definition bad_eras : list string := map fst (filter (fun e => negb (era_ok e)) era_rules).
