(* C26 - property theorems only. *)
From Coq Require Import String.
From V Require Import Lib.Base C26.Gen C26.Model C26.Proofs.
Local Open Scope N_scope.

(* Allegra..Dijkstra, rule level: with the era's real rule list (translator),
   for every slot and bounds (unbounded N), the validity verdict is exactly
   the interval of the property text.  Excluded input class (known finding):
   invalid-hereafter present and equal to 0, which the decoder cannot tell
   from absent. *)
Theorem C26_allegra_plus_partial : forall era rs, In era allegra_plus -> rules_of era = Some rs ->
  forall slot start ttl, ttl <> Some 0 ->
  (validity_accept rs (decode slot start ttl) = true <-> allegra_spec slot start ttl).
Proof. intros era rs He H slot start ttl Hz. rewrite (allegra_plus_accept _ _ _ He H). now apply allegra_rule_spec. Qed.
Print Assumptions C26_allegra_plus_partial.

(* the property as stated ("accepts only if"), for VerifyTransaction over the
   whole list and arbitrary behaviour of all the other rules *)
Theorem C26_allegra_plus_only_if_partial : forall other era rs, In era allegra_plus -> rules_of era = Some rs ->
  forall slot start ttl, ttl <> Some 0 ->
  verify other rs (decode slot start ttl) = true -> allegra_spec slot start ttl.
Proof.
  intros other era rs He H slot start ttl Hz V. apply verify_validity in V.
  now apply (C26_allegra_plus_partial era rs He H slot start ttl Hz).
Qed.
Print Assumptions C26_allegra_plus_only_if_partial.

(* the excluded class really fails: bound present and 0 is accepted at every slot in all six eras *)
Theorem C26_ttl_present_zero_refuted : exists slot start ttl, ttl = Some 0 /\
  (forall era rs, In era allegra_plus -> rules_of era = Some rs -> validity_accept rs (decode slot start ttl) = true)
  /\ ~ allegra_spec slot start ttl.
Proof.
  exists 7, None, (Some 0). split; [reflexivity|]. split.
  - intros era rs He H. rewrite (allegra_plus_accept _ _ _ He H). reflexivity.
  - unfold allegra_spec, upper_ok. lia.
Qed.
Print Assumptions C26_ttl_present_zero_refuted.

(* ... and it is the only thing lost there: the lower bound is still enforced *)
Theorem C26_ttl_present_zero_lower : forall era rs, In era allegra_plus -> rules_of era = Some rs ->
  forall slot start, validity_accept rs (decode slot start (Some 0)) = true <-> lower_ok slot start.
Proof. intros era rs He H slot start. rewrite (allegra_plus_accept _ _ _ He H). apply allegra_rule_ttl_zero. Qed.

(* Shelley: accepted exactly when the slot does not exceed the time-to-live
   (ttl is mandatory in Shelley; `ttl` is the decoded value) *)
Theorem C26_shelley : forall rs, rules_of "shelley" = Some rs ->
  forall slot start ttl, validity_accept rs (mk_ctx slot start ttl) = true <-> shelley_spec slot ttl.
Proof. intros rs H slot start ttl. rewrite (shelley_accept _ _ H). apply shelley_rule_spec. Qed.
Print Assumptions C26_shelley.

Theorem C26_shelley_only_if : forall other rs, rules_of "shelley" = Some rs ->
  forall slot start ttl, verify other rs (mk_ctx slot start ttl) = true -> shelley_spec slot ttl.
Proof. intros other rs H slot start ttl V. apply verify_validity in V. now apply (C26_shelley rs H slot start ttl). Qed.
Print Assumptions C26_shelley_only_if.

(* the generated table has exactly the seven eras, each with a rule list, and
   every one falls under one of the two theorems above *)
Theorem C26_all_eras : forall era rs, In (era, rs) era_rules ->
  (era = "shelley"%string \/ In era allegra_plus) /\ exists rs', rules_of era = Some rs'.
Proof.
  intros era rs H. pose proof (every_era_covered _ _ H) as C. split; [exact C|].
  destruct C as [->|C]; [eexists; vm_compute; reflexivity|now apply allegra_plus_has_rules].
Qed.
Print Assumptions C26_all_eras.

(* non-vacuity *)
Example C26_nonvacuous_rules : exists rs, rules_of "mary" = Some rs /\ In n_interval rs.
Proof. eexists. split; [vm_compute; reflexivity|]. vm_compute. tauto. Qed.
Example C26_nonvacuous_in : allegra_spec 100 (Some 100) (Some 101).
Proof. unfold allegra_spec, lower_ok, upper_ok. lia. Qed.
Example C26_nonvacuous_out : ~ allegra_spec 100 None (Some 100).
Proof. unfold allegra_spec, lower_ok, upper_ok. lia. Qed.
Example C26_witness_mary_ttl50_slot100 : forall rs, rules_of "mary" = Some rs ->
  validity_accept rs (decode 100 None (Some 50)) = false.
Proof. intros rs H. vm_compute in H. inversion H; subst. vm_compute. reflexivity. Qed.
