From Coq Require Import String.
From V Require Import Lib.Base C26.Gen C26.Model.
Local Open Scope N_scope.

(* ---- specification, written from the property text ---- *)
Definition lower_ok (slot : N) (start : option N) : Prop :=
  match start with Some s => s <= slot | None => True end.
Definition upper_ok (slot : N) (ttl : option N) : Prop :=
  match ttl with Some t => slot < t | None => True end.
Definition allegra_spec (slot : N) (start ttl : option N) : Prop := lower_ok slot start /\ upper_ok slot ttl.
Definition shelley_spec (slot ttl : N) : Prop := slot <= ttl.

(* ---- the two rule bodies ---- *)
Lemma shelley_rule_spec c : shelley_ttl_rule c = true <-> shelley_spec (c_slot c) (c_ttl c).
Proof. unfold shelley_ttl_rule, shelley_spec. apply N.leb_le. Qed.

Lemma allegra_rule_spec slot start ttl : ttl <> Some 0 ->
  allegra_interval_rule (decode slot start ttl) = true <-> allegra_spec slot start ttl.
Proof.
  intros Hz. unfold allegra_interval_rule, allegra_spec, lower_ok, upper_ok, decode, of_opt; cbn [c_slot c_start c_ttl].
  destruct start as [s|], ttl as [t|]; try (assert (t <> 0) by congruence);
  repeat match goal with |- context [if ?b then _ else _] => destruct b eqn:? end; lia.
Qed.

(* start = Some 0 needs no exclusion; ttl = Some 0 does *)
Lemma allegra_rule_ttl_zero slot start : allegra_interval_rule (decode slot start (Some 0)) = true <-> lower_ok slot start.
Proof.
  unfold allegra_interval_rule, lower_ok, decode, of_opt; cbn [c_slot c_start c_ttl].
  destruct start as [s|];
  repeat match goal with |- context [if ?b then _ else _] => destruct b eqn:? end; lia.
Qed.

(* ---- VerifyTransaction ---- *)
Lemma verify_in other rs c r : verify other rs c = true -> In r rs -> rule_sem other r c = true.
Proof. unfold verify. intros H Hin. rewrite forallb_forall in H. auto. Qed.

Lemma kinds_in rs r : In r (validity_kinds rs) -> In r rs.
Proof. unfold validity_kinds. intros H. apply filter_In in H. tauto. Qed.

Lemma rule_sem_validity other r c : is_validity_rule r = true -> rule_sem other r c = rule_sem (fun _ _ => true) r c.
Proof.
  unfold is_validity_rule, rule_sem. intros H.
  destruct (String.eqb r n_ttl); [reflexivity|]. destruct (String.eqb r n_interval); [reflexivity|discriminate].
Qed.

Lemma validity_accept_kinds rs c :
  validity_accept rs c = forallb (fun r => rule_sem (fun _ _ => true) r c) (validity_kinds rs).
Proof.
  unfold validity_accept, verify, validity_kinds. induction rs as [|r rs IH]; [reflexivity|].
  cbn [forallb filter]. destruct (is_validity_rule r) eqn:E.
  - cbn [forallb]. now rewrite IH.
  - rewrite IH. unfold rule_sem, is_validity_rule in *.
    destruct (String.eqb r n_ttl); [discriminate|]. destruct (String.eqb r n_interval); [discriminate|]. reflexivity.
Qed.

(* acceptance by the whole list implies acceptance by its validity rules, whatever the other rules do *)
Lemma verify_validity other rs c : verify other rs c = true -> validity_accept rs c = true.
Proof.
  intros H. rewrite validity_accept_kinds. apply forallb_forall. intros r Hr.
  pose proof (kinds_in _ _ Hr) as Hin. apply filter_In in Hr. destruct Hr as [_ Hv].
  rewrite <- (rule_sem_validity other) by exact Hv. eapply verify_in; eauto.
Qed.

(* ---- the translator's table ---- *)
Lemma table_ok : bad_eras = [].
Proof. vm_compute. reflexivity. Qed.

Lemma table_eras : map fst era_rules = ("shelley" :: allegra_plus)%string.
Proof. vm_compute. reflexivity. Qed.

Lemma assoc_in k l v : assoc k l = Some v -> In (k, v) l.
Proof.
  induction l as [|[k' v'] l IH]; cbn [assoc]; [discriminate|].
  destruct (String.eqb k k') eqn:E; intros H.
  - apply String.eqb_eq in E. inversion H; subst. now left.
  - right; auto.
Qed.

Lemma era_entry_ok era rs : In (era, rs) era_rules -> era_ok (era, rs) = true.
Proof.
  intros Hin. pose proof table_ok as T. unfold bad_eras in T.
  destruct (era_ok (era, rs)) eqn:E; [reflexivity|].
  assert (In (era, rs) (filter (fun e => negb (era_ok e)) era_rules)) as F.
  { apply filter_In. split; [exact Hin|]. now rewrite E. }
  apply (in_map fst) in F. rewrite T in F. destruct F.
Qed.

Lemma list_eqb_string_eq (l1 l2 : list string) : list_eqb String.eqb l1 l2 = true -> l1 = l2.
Proof. apply list_eqb_eq. intros; apply String.eqb_eq. Qed.

Lemma shelley_kinds rs : rules_of "shelley" = Some rs -> validity_kinds rs = [n_ttl].
Proof.
  intros H. apply assoc_in, era_entry_ok in H. unfold era_ok in H.
  rewrite String.eqb_refl in H. now apply list_eqb_string_eq.
Qed.

Lemma allegra_plus_not_shelley era : In era allegra_plus -> String.eqb era "shelley" = false.
Proof. intros H. cbn in H. repeat destruct H as [<-|H]; try reflexivity. destruct H. Qed.

Lemma allegra_plus_kinds era rs : In era allegra_plus -> rules_of era = Some rs -> validity_kinds rs = [n_interval].
Proof.
  intros He H. apply assoc_in, era_entry_ok in H. unfold era_ok in H.
  rewrite (allegra_plus_not_shelley _ He) in H. apply andb_true_iff in H. destruct H as [_ H].
  now apply list_eqb_string_eq.
Qed.

Lemma allegra_plus_has_rules era : In era allegra_plus -> exists rs, rules_of era = Some rs.
Proof. intros H. cbn in H. repeat destruct H as [<-|H]; try (eexists; vm_compute; reflexivity). destruct H. Qed.

Lemma sem_ttl c : rule_sem (fun _ _ => true) n_ttl c = shelley_ttl_rule c.
Proof. reflexivity. Qed.
Lemma sem_interval c : rule_sem (fun _ _ => true) n_interval c = allegra_interval_rule c.
Proof. reflexivity. Qed.

Lemma shelley_accept rs c : rules_of "shelley" = Some rs -> validity_accept rs c = shelley_ttl_rule c.
Proof. intros H. rewrite validity_accept_kinds, (shelley_kinds _ H). cbn [forallb]. rewrite sem_ttl. apply andb_true_r. Qed.

Lemma allegra_plus_accept era rs c : In era allegra_plus -> rules_of era = Some rs ->
  validity_accept rs c = allegra_interval_rule c.
Proof. intros He H. rewrite validity_accept_kinds, (allegra_plus_kinds _ _ He H). cbn [forallb]. rewrite sem_interval. apply andb_true_r. Qed.

(* every era of the generated table is covered by one of the two families *)
Lemma every_era_covered era rs : In (era, rs) era_rules -> era = "shelley"%string \/ In era allegra_plus.
Proof.
  intros H. apply (in_map fst) in H. rewrite table_eras in H. cbn [fst] in H.
  destruct H as [<-|H]; [now left|now right].
Qed.
