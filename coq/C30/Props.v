(* C30 - property theorems only.  `tx_size_for_fee` is the repository code
   with fixes/C30-indefinite-envelope.patch; `tx_size_for_fee_pinned` is the
   pinned code (kept for the refutation and for the partial theorem). *)
From Coq Require Import String.
From V Require Import Lib.Base Lib.Hex Lib.Cbor C30.Model C30.Gen C30.Proofs.
Local Open Scope N_scope.

(* CalculateMinFee: the exact value when it fits 64 bits, an error otherwise;
   never a wrapped value.  For all sizes and parameters. *)
Theorem C30_minfee : forall size a b,
  (forall f, calculate_min_fee size a b = Some f <-> a * size + b < 2 ^ 64 /\ f = a * size + b)
  /\ (calculate_min_fee size a b = None <-> 2 ^ 64 <= a * size + b).
Proof. intros. split; [intros f; apply calculate_min_fee_ok|apply calculate_min_fee_err]. Qed.
Print Assumptions C30_minfee.

(* TxSizeForFee on the original encoding of ANY well-formed array, whatever
   its header form (immediate, 1/2/4/8-byte count, indefinite) and whatever
   its element count: the length, minus one exactly for a four-element
   envelope from Alonzo on. *)
Theorem C30_size : forall era f xs, wf (Arr f xs) ->
  tx_size_for_fee era (enc (Arr f xs)) =
    N.of_nat (length (enc (Arr f xs))) - (if (4 <=? era) && (N.of_nat (length xs) =? 4) then 1 else 0).
Proof. exact tx_size_for_fee_spec. Qed.
Print Assumptions C30_size.

(* The pinned code satisfies the same equation on every definite header ... *)
Theorem C30_size_pinned_partial : forall era f xs, wf (Arr (Some f) xs) ->
  tx_size_for_fee_pinned era (enc (Arr (Some f) xs)) = size_spec era (Some f) xs.
Proof. exact tx_size_for_fee_pinned_definite. Qed.
Print Assumptions C30_size_pinned_partial.

(* ... and violates it on the indefinite four-element envelope
   9f a3 00 80 01 80 02 00 a0 f5 f6 ff (12 bytes: 12 instead of 11). *)
Definition witness_tx : list item :=
  [Map (Some Fimm) [(UInt Fimm 0, Arr (Some Fimm) []); (UInt Fimm 1, Arr (Some Fimm) []); (UInt Fimm 2, UInt Fimm 0)];
   Map (Some Fimm) []; Simple Fimm 21; Simple Fimm 22].
Theorem C30_size_pinned_refuted : exists era xs, wf (Arr None xs) /\
  enc (Arr None xs) = hx "9fa3008001800200a0f5f6ff" /\
  tx_size_for_fee_pinned era (enc (Arr None xs)) = 12 /\ size_spec era None xs = 11
  /\ tx_size_for_fee era (enc (Arr None xs)) = 11.
Proof.
  exists 4, witness_tx. split; [|vm_compute; repeat split].
  cbn. repeat split; lia.
Qed.
Print Assumptions C30_size_pinned_refuted.

(* the pinned code never subtracts on an indefinite header: the defect class
   is exactly "indefinite outer header, four elements, Alonzo or later" *)
Theorem C30_size_pinned_indefinite : forall era xs,
  tx_size_for_fee_pinned era (enc (Arr None xs)) = N.of_nat (length (enc (Arr None xs))).
Proof. exact tx_size_for_fee_pinned_indefinite. Qed.

(* Fee rule of every era (0 accepted, 1 FeeTooSmall, 2 overflow error):
   accepted iff the fee is at least a*size+b (and that value exists in 64
   bits); overflow is the error outcome, not an acceptance or a comparison
   with a wrapped value. *)
Theorem C30_rule : forall era f xs fee a b, wf (Arr f xs) ->
  let m := a * size_spec era f xs + b in
  (fee_rule era (enc (Arr f xs)) fee a b = 0 <-> m < 2 ^ 64 /\ m <= fee) /\
  (fee_rule era (enc (Arr f xs)) fee a b = 1 <-> m < 2 ^ 64 /\ fee < m) /\
  (fee_rule era (enc (Arr f xs)) fee a b = 2 <-> 2 ^ 64 <= m).
Proof.
  intros era f xs fee a b W m. rewrite (fee_rule_spec era f xs fee a b W).
  fold (min_fee_spec era f xs a b). unfold min_fee_spec. fold m. change two64 with (2 ^ 64).
  destruct (m <? 2 ^ 64) eqn:E1; [apply N.ltb_lt in E1|apply N.ltb_ge in E1].
  - destruct (m <=? fee) eqn:E2; [apply N.leb_le in E2|apply N.leb_gt in E2];
      repeat split; intros; try lia; try tauto; try discriminate.
  - repeat split; intros; try lia; try discriminate.
Qed.
Print Assumptions C30_rule.

(* a fee that is itself a uint64 (the body field): plain `fee >= a*size+b` *)
Theorem C30_rule_uint64_fee : forall era f xs fee a b, wf (Arr f xs) -> fee < 2 ^ 64 ->
  (fee_rule era (enc (Arr f xs)) fee a b = 0 <-> a * size_spec era f xs + b <= fee).
Proof.
  intros era f xs fee a b W Hf. destruct (C30_rule era f xs fee a b W) as (H0 & _ & _).
  rewrite H0. split; [tauto|lia].
Qed.

(* The fee verdict is a function of (fee, fee-relevant size, a, b) and of nothing
   else in the transaction: not of is_valid, total collateral, collateral
   return, donation, treasury value or any other body field. *)
Theorem C30_fee_rule_function_of_fee_and_size : forall t a b,
  fee_rule_tx t a b = fee_verdict (t_fee t) (tx_size_for_fee (t_era t) (t_stored t)) a b.
Proof. reflexivity. Qed.

Theorem C30_fee_rule_ignores_other_fields : forall t t' a b,
  t_era t = t_era t' -> t_stored t = t_stored t' -> t_fee t = t_fee t' ->
  fee_rule_tx t a b = fee_rule_tx t' a b /\ (forall m, max_size_rule_tx t m = max_size_rule_tx t' m).
Proof.
  intros t t' a b He Hs Hf. unfold fee_rule_tx, max_size_rule_tx. rewrite He, Hs, Hf. split; [reflexivity|intros; reflexivity].
Qed.
Print Assumptions C30_fee_rule_ignores_other_fields.

(* two transactions of the same fee-relevant size and fee get the same verdict,
   whatever else differs (also their bytes) *)
Theorem C30_fee_rule_same_size_same_verdict : forall t t' a b,
  tx_size_for_fee (t_era t) (t_stored t) = tx_size_for_fee (t_era t') (t_stored t') -> t_fee t = t_fee t' ->
  fee_rule_tx t a b = fee_rule_tx t' a b.
Proof. intros t t' a b Hs Hf. rewrite !C30_fee_rule_function_of_fee_and_size, Hs, Hf. reflexivity. Qed.

(* Max-size rule: compares the full original length - the same length the
   fee size is derived from - with the limit. *)
Theorem C30_maxsize : forall era f xs maxsz, wf (Arr f xs) ->
  (max_size_rule (enc (Arr f xs)) maxsz = true <-> N.of_nat (length (enc (Arr f xs))) <= maxsz) /\
  N.of_nat (length (enc (Arr f xs))) = tx_size_for_fee era (enc (Arr f xs)) + (if envelope4 era xs then 1 else 0).
Proof.
  intros era f xs maxsz W. split; [unfold max_size_rule, blen; apply N.leb_le|].
  rewrite (tx_size_for_fee_spec era f xs W). unfold size_spec, blen.
  destruct (envelope4 era xs); [|lia].
  assert (1 <= length (enc (Arr f xs)))%nat by (apply Lib.CborLemmas.enc_nonempty; exact W). lia.
Qed.
Print Assumptions C30_maxsize.

(* every era's UtxoValidationRules (as generated from the current tree)
   contains the fee and the max-size rule, its parameters carry MinFeeA,
   MinFeeB, MaxTxSize as uint, the transaction type numbers are 1..7 with
   Alonzo = 4, and uint/int are 64 bits wide *)
Theorem C30_eras : bad_eras = [] /\
  era_ids = [(1, "shelley"); (2, "allegra"); (3, "mary"); (4, "alonzo"); (5, "babbage"); (6, "conway"); (7, "dijkstra")]%string
  /\ uint_bits = 64 /\ int_bits = 64.
Proof. exact era_table_ok. Qed.

(* non-vacuity: both rule outcomes and the error are reachable on the witness *)
Example C30_nonvacuous :
  fee_rule 4 (hx "9fa3008001800200a0f5f6ff") 11 1 0 = 0 /\ fee_rule 4 (hx "9fa3008001800200a0f5f6ff") 10 1 0 = 1 /\
  fee_rule 4 (hx "9fa3008001800200a0f5f6ff") 11 (2 ^ 63) 0 = 2 /\ fee_rule_pinned 4 (hx "9fa3008001800200a0f5f6ff") 11 1 0 = 1.
Proof. vm_compute. repeat split. Qed.
