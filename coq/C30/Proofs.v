(* C30 - specification and lemmas. *)
From Coq Require Import String.
From V Require Import Lib.Base Lib.Hex Lib.Cbor Lib.CborParse Lib.CborLemmas Lib.CborProofs.
From V Require Import C30.Model C30.Gen.
Local Open Scope N_scope.

(* ---- specification (from the property text) -------------------------------
   The fee-relevant size of a transaction whose original encoding is the byte
   string `enc tx` is its length, minus one byte when the transaction is a
   four-element [body, witnesses, is_valid, auxiliary] envelope of an era that
   has the is_valid flag (Alonzo = 4 onwards; Dijkstra accepts that envelope
   too).  How the array header is written plays no role. *)
Definition envelope4 (era : N) (xs : list item) : bool := (4 <=? era) && (N.of_nat (length xs) =? 4).
Definition size_spec (era : N) (f : option form) (xs : list item) : N :=
  blen (enc (Arr f xs)) - (if envelope4 era xs then 1 else 0).
Definition min_fee_spec (era : N) (f : option form) (xs : list item) (a b : N) : N :=
  a * size_spec era f xs + b.

(* ---- CalculateMinFee --------------------------------------------------------*)
Lemma calculate_min_fee_eq size a b :
  calculate_min_fee size a b = if a * size + b <? two64 then Some (a * size + b) else None.
Proof.
  unfold calculate_min_fee, mul64, add64. set (p := a * size).
  change two64 with 18446744073709551616.
  destruct (p / 18446744073709551616 =? 0) eqn:Ehi; cbn [negb].
  - rewrite N.add_0_r.
    destruct ((p mod 18446744073709551616 + b) / 18446744073709551616 =? 0) eqn:Ec; cbn [negb];
      destruct (p + b <? 18446744073709551616) eqn:El; try reflexivity; try (f_equal; lia); exfalso; lia.
  - destruct (p + b <? 18446744073709551616) eqn:El; [exfalso; lia|reflexivity].
Qed.

Lemma calculate_min_fee_ok size a b f :
  calculate_min_fee size a b = Some f <-> a * size + b < two64 /\ f = a * size + b.
Proof.
  rewrite calculate_min_fee_eq. destruct (a * size + b <? two64) eqn:E.
  - apply N.ltb_lt in E. split; [intros [= <-]; auto|intros [_ ->]; reflexivity].
  - apply N.ltb_ge in E. split; [discriminate|intros [L _]; lia].
Qed.

Lemma calculate_min_fee_err size a b :
  calculate_min_fee size a b = None <-> two64 <= a * size + b.
Proof.
  rewrite calculate_min_fee_eq. destruct (a * size + b <? two64) eqn:E.
  - apply N.ltb_lt in E. split; [discriminate|lia].
  - apply N.ltb_ge in E. split; auto.
Qed.

(* the result is never a wrapped value *)
Lemma calculate_min_fee_no_wrap size a b f :
  calculate_min_fee size a b = Some f -> f = a * size + b.
Proof. intros H. apply calculate_min_fee_ok in H. tauto. Qed.

(* ---- element count of an encoded array -------------------------------------*)
Lemma enc_arr_first f xs : wf (Arr f xs) ->
  exists fb tl, enc (Arr f xs) = fb :: tl /\
    match f with
    | Some Fimm => fb = 128 + N.of_nat (length xs) /\ N.of_nat (length xs) < 24
    | Some F1 => fb = 152 | Some F2 => fb = 153 | Some F4 => fb = 154 | Some F8 => fb = 155
    | None => fb = 159
    end.
Proof.
  intros W. apply wf_arr in W. destruct W as [H _].
  destruct f as [[| | | |]|]; cbn [enc enc_head ai_of app]; eexists; eexists; (split; [reflexivity|]);
    try reflexivity.
  cbn in H. split; [lia|exact H].
Qed.

Lemma list_length_enc f xs : wf (Arr f xs) ->
  list_length (enc (Arr f xs)) = Some (N.of_nat (length xs)).
Proof.
  intros W. destruct (enc_arr_first f xs W) as (fb & tl & E & Hfb).
  unfold list_length. rewrite E.
  destruct f as [[| | | |]|].
  - destruct Hfb as [-> Hl].
    replace ((128 <=? 128 + N.of_nat (length xs)) && (128 + N.of_nat (length xs) <=? 151)) with true
      by (symmetry; apply andb_true_iff; split; apply N.leb_le; lia).
    f_equal. lia.
  - subst fb. cbn [N.leb andb]. rewrite <- E, <- (app_nil_r (enc _)), parse_full_enc by exact W. reflexivity.
  - subst fb. cbn [N.leb andb]. rewrite <- E, <- (app_nil_r (enc _)), parse_full_enc by exact W. reflexivity.
  - subst fb. cbn [N.leb andb]. rewrite <- E, <- (app_nil_r (enc _)), parse_full_enc by exact W. reflexivity.
  - subst fb. cbn [N.leb andb]. rewrite <- E, <- (app_nil_r (enc _)), parse_full_enc by exact W. reflexivity.
  - subst fb. cbn [N.leb andb]. rewrite <- E, <- (app_nil_r (enc _)), parse_full_enc by exact W. reflexivity.
Qed.

(* the fixed TxSizeForFee computes the specified size for every header form *)
Lemma tx_size_for_fee_spec era f xs : wf (Arr f xs) ->
  tx_size_for_fee era (enc (Arr f xs)) = size_spec era f xs.
Proof.
  intros W. unfold tx_size_for_fee, tx_size_for_fee_with, size_spec, envelope4.
  rewrite (list_length_enc f xs W).
  destruct (4 <=? era); cbn [andb]; [|lia].
  destruct (N.of_nat (length xs) =? 4); lia.
Qed.

(* ---- the pinned scanner ---------------------------------------------------*)
Lemma rd_arg_be k n rest : n < 256 ^ N.of_nat k -> rd_arg k (be k n ++ rest) = Some n.
Proof. intros H. unfold rd_arg. rewrite rd_be by exact H. reflexivity. Qed.

Lemma decode_array_header_definite f xs : wf (Arr (Some f) xs) ->
  decode_array_header (enc (Arr (Some f) xs)) =
    if (match f with F4 | F8 => true | _ => false end) && (max_int32 <? N.of_nat (length xs))
    then None else Some (N.of_nat (length xs)).
Proof.
  intros W. apply wf_arr in W. destruct W as [H _]. unfold hdr_ok, len_ok in H.
  set (n := N.of_nat (length xs)) in *.
  rewrite enc_arr_def. fold n. unfold enc_head. cbn [app].
  unfold decode_array_header.
  destruct f; cbn [ai_of nbytes andb]; cbn [fits] in H.
  - replace ((4 * 32 + n) / 32) with 4 by lia. cbn [N.eqb Pos.eqb negb].
    replace ((4 * 32 + n) mod 32) with n by lia.
    replace (n <? 24) with true by (symmetry; apply N.ltb_lt; exact H). reflexivity.
  - change ((4 * 32 + 24) / 32 =? 4) with true. change ((4 * 32 + 24) mod 32) with 24. cbn [negb N.ltb N.eqb N.compare Pos.compare Pos.compare_cont Pos.eqb].
    apply rd_arg_be. exact H.
  - change ((4 * 32 + 25) / 32 =? 4) with true. change ((4 * 32 + 25) mod 32) with 25. cbn [negb N.ltb N.eqb N.compare Pos.compare Pos.compare_cont Pos.eqb].
    apply rd_arg_be. exact H.
  - change ((4 * 32 + 26) / 32 =? 4) with true. change ((4 * 32 + 26) mod 32) with 26. cbn [negb N.ltb N.eqb N.compare Pos.compare Pos.compare_cont Pos.eqb].
    rewrite rd_arg_be by exact H. reflexivity.
  - change ((4 * 32 + 27) / 32 =? 4) with true. change ((4 * 32 + 27) mod 32) with 27. cbn [negb N.ltb N.eqb N.compare Pos.compare Pos.compare_cont Pos.eqb].
    rewrite rd_arg_be by exact H. reflexivity.
Qed.

Lemma decode_array_header_indefinite xs : decode_array_header (enc (Arr None xs)) = None.
Proof. reflexivity. Qed.

(* on definite headers the pinned TxSizeForFee agrees with the specification
   (a count above MaxInt32 is an error there, hence "not 4") *)
Lemma tx_size_for_fee_pinned_definite era f xs : wf (Arr (Some f) xs) ->
  tx_size_for_fee_pinned era (enc (Arr (Some f) xs)) = size_spec era (Some f) xs.
Proof.
  intros W. unfold tx_size_for_fee_pinned, tx_size_for_fee_with, size_spec, envelope4.
  rewrite (decode_array_header_definite f xs W).
  destruct (4 <=? era); cbn [andb]; [|lia].
  destruct ((match f with F4 | F8 => true | _ => false end) && (max_int32 <? N.of_nat (length xs))) eqn:E.
  - apply andb_true_iff in E. destruct E as [_ E]. apply N.ltb_lt in E. unfold max_int32 in E.
    replace (N.of_nat (length xs) =? 4) with false by (symmetry; apply N.eqb_neq; lia). lia.
  - destruct (N.of_nat (length xs) =? 4); lia.
Qed.

(* on an indefinite header the pinned code never subtracts *)
Lemma tx_size_for_fee_pinned_indefinite era xs :
  tx_size_for_fee_pinned era (enc (Arr None xs)) = blen (enc (Arr None xs)).
Proof.
  unfold tx_size_for_fee_pinned, tx_size_for_fee_with. rewrite decode_array_header_indefinite.
  destruct (4 <=? era); reflexivity.
Qed.

(* ---- fee rule ----------------------------------------------------------------*)
Lemma fee_rule_spec era f xs fee a b : wf (Arr f xs) ->
  let m := min_fee_spec era f xs a b in
  fee_rule era (enc (Arr f xs)) fee a b =
    if m <? two64 then (if m <=? fee then 0 else 1) else 2.
Proof.
  intros W m. unfold fee_rule, fee_rule_with, min_fee_tx_with. fold tx_size_for_fee.
  rewrite (tx_size_for_fee_spec era f xs W), calculate_min_fee_eq.
  fold (min_fee_spec era f xs a b). fold m. destruct (m <? two64); reflexivity.
Qed.

(* ---- per-era tables (translator output) -------------------------------------*)
Local Open Scope string_scope.
Definition has_rule (name : string) (rules : list string) : bool :=
  existsb (String.eqb name) rules.
Definition era_ok (e : N * string * list string * list string) : bool :=
  let '(_, _, rules, fields) := e in
  has_rule "UtxoValidateFeeTooSmallUtxo" rules && has_rule "UtxoValidateMaxTxSizeUtxo" rules
  && has_rule "MinFeeA" fields && has_rule "MinFeeB" fields && has_rule "MaxTxSize" fields.
(* the first era entry that lacks a rule or a parameter, if any *)
Definition bad_eras : list string :=
  map (fun e => snd (fst (fst e))) (filter (fun e => negb (era_ok e)) era_table).
Definition era_ids : list (N * string) := map (fun e => fst (fst e)) era_table.

Lemma era_table_ok : bad_eras = [] /\
  era_ids = [(1%N, "shelley"); (2%N, "allegra"); (3%N, "mary"); (4%N, "alonzo"); (5%N, "babbage"); (6%N, "conway"); (7%N, "dijkstra")]
  /\ uint_bits = 64%N /\ int_bits = 64%N.
Proof. vm_compute. repeat split. Qed.
