(* C30 - the minimum fee and the size limits use the transaction's real size.
   Model of ledger/common/rules.go (TxSizeForFee, CalculateMinFee), of
   cbor/decode.go (StreamDecoder.DecodeArrayHeader, ListLength) and of the
   per-era rules UtxoValidateFeeTooSmallUtxo / UtxoValidateMaxTxSizeUtxo /
   MinFeeTx (ledger/<era>/rules.go; the seven eras share one body, the only
   era dependence is `tx.Type() >= txTypeAlonzo`).

   Two transcriptions of TxSizeForFee are kept:
     tx_size_for_fee_pinned : the pinned tree (DecodeArrayHeader, which does
                              not understand an indefinite-length header)
     tx_size_for_fee        : the tree with fixes/C30-indefinite-envelope.patch
                              (cbor.ListLength)
   NO proofs in this file. *)
From V Require Import Lib.Base Lib.Hex Lib.Cbor Lib.CborParse.
Local Open Scope N_scope.

Definition two64 : N := 2 ^ 64.
Definition max_int32 : N := 2147483647.

(* ---- cbor.StreamDecoder.DecodeArrayHeader on a fresh decoder -------------
   Some n = (n, 0, headerLen, nil); None = any of its errors:
     "unexpected end of data" (empty), "expected array" (major type <> 4),
     "unexpected end of data reading array length" (argument cut short),
     "array length exceeds maximum int32 value" (4/8-byte argument > MaxInt32),
     "indefinite length arrays not supported in header-only decode" (ai 31),
     "invalid array additional info" (ai 28..30).
   `rd k r 0` (Lib/CborParse) reads k big-endian bytes or fails when fewer
   are left: the Go code's `absStart+k+1 > len(d.data)` test followed by the
   shift-or expression.  The trailing d.Advance(headerLen) cannot fail after
   those length tests. *)
Definition rd_arg (k : nat) (r : bytes) : option N :=
  match rd k r 0 with Some (n, _) => Some n | None => None end.

Definition decode_array_header (d : bytes) : option N :=
  match d with
  | [] => None
  | fb :: r =>
    if negb (fb / 32 =? 4) then None
    else
      let ai := fb mod 32 in
      if ai <? 24 then Some ai
      else if ai =? 24 then rd_arg 1 r
      else if ai =? 25 then rd_arg 2 r
      else if ai =? 26 then
        match rd_arg 4 r with Some n => if max_int32 <? n then None else Some n | None => None end
      else if ai =? 27 then
        match rd_arg 8 r with Some n => if max_int32 <? n then None else Some n | None => None end
      else None
  end.

(* ---- cbor.ListLength ------------------------------------------------------
   fast path: initial byte 0x80..0x97; otherwise Decode(data, &[]RawMessage):
   the third-party decoder reads ONE well-formed item from the front (trailing
   bytes are ignored) and succeeds with the element count when it is an array
   of either length form.  MODELLED: the third-party decoder = Lib/CborParse
   `parse_full` (RFC 8949 well-formedness).  Where the library is stricter
   (nesting depth, invalid UTF-8, ...) or laxer (null decodes into a nil slice
   of length 0) the count is never 4 vs not-4 on an input the transaction
   decoders accept, because they run the same Decode first. *)
Definition list_length (d : bytes) : option N :=
  match d with
  | [] => None
  | fb :: _ =>
    if (128 <=? fb) && (fb <=? 151) then Some (fb - 128)
    else match parse_full d with
         | Ok (Arr _ xs) _ => Some (N.of_nat (length xs))
         | _ => None
         end
  end.

(* ---- common.TxSizeForFee --------------------------------------------------
   era = tx.Type(): 1 Shelley 2 Allegra 3 Mary 4 Alonzo 5 Babbage 6 Conway
   7 Dijkstra (txTypeAlonzo = 4).  stored = tx.Cbor(), non-empty for every
   decoded transaction (the re-encoding fallback for programmatically built
   transactions is out of scope: there is no original encoding then). *)
Definition blen (b : bytes) : N := N.of_nat (length b).

Definition tx_size_for_fee_with (count : bytes -> option N) (era : N) (stored : bytes) : N :=
  let full := blen stored in
  if 4 <=? era then
    match count stored with
    | Some n => if n =? 4 then full - 1 else full
    | None => full
    end
  else full.

Definition tx_size_for_fee_pinned := tx_size_for_fee_with decode_array_header.
Definition tx_size_for_fee := tx_size_for_fee_with list_length.

(* ---- common.CalculateMinFee ----------------------------------------------
   bits.Mul64 / bits.Add64 written out; arguments are uint64 (Go `uint` on
   the 64-bit targets, `int` size >= 0 converted).  None = the error return. *)
Definition mul64 (x y : N) : N * N := ((x * y) / two64, (x * y) mod two64).
Definition add64 (x y carry : N) : N * N := ((x + y + carry) mod two64, (x + y + carry) / two64).

Definition calculate_min_fee (size a b : N) : option N :=
  let '(hi, lo) := mul64 a size in
  if negb (hi =? 0) then None
  else let '(sum, carry) := add64 lo b 0 in
       if negb (carry =? 0) then None else Some sum.

(* <era>.MinFeeTx *)
Definition min_fee_tx_with (count : bytes -> option N) (era : N) (stored : bytes) (a b : N) : option N :=
  calculate_min_fee (tx_size_for_fee_with count era stored) a b.
Definition min_fee_tx := min_fee_tx_with list_length.

(* <era>.UtxoValidateFeeTooSmallUtxo: 0 = nil (accepted), 1 = FeeTooSmallUtxoError,
   2 = the overflow error of CalculateMinFee passed through *)
Definition fee_rule_with (count : bytes -> option N) (era : N) (stored : bytes) (fee a b : N) : N :=
  match min_fee_tx_with count era stored a b with
  | None => 2
  | Some m => if m <=? fee then 0 else 1
  end.
Definition fee_rule := fee_rule_with list_length.
Definition fee_rule_pinned := fee_rule_with decode_array_header.

(* <era>.UtxoValidateMaxTxSizeUtxo: uint(len(txBytes)) <= MaxTxSize *)
Definition max_size_rule (stored : bytes) (maxsz : N) : bool := blen stored <=? maxsz.

(* ---- the transaction as the rules see it -----------------------------------
   Everything the harness can read off a decoded transaction besides the
   stored bytes and the fee is recorded too; the rules of this property do not
   look at any of it (C30_fee_rule_ignores_other_fields). *)
Record txrec := {
  t_era : N;
  t_stored : bytes;                 (* tx.Cbor() *)
  t_fee : N;                        (* tx.Fee() *)
  t_is_valid : bool;                (* tx.IsValid() *)
  t_total_collateral : option N;    (* tx.TotalCollateral(), None = nil *)
  t_has_collateral_return : bool;   (* tx.CollateralReturn() != nil *)
  t_donation : option N;            (* tx.Donation() *)
  t_treasury : option N;            (* tx.CurrentTreasuryValue() *)
  t_body_keys : list N              (* the keys of the body map, as written *)
}.

(* what a fee verdict may depend on *)
Definition fee_verdict (fee size a b : N) : N :=
  match calculate_min_fee size a b with
  | None => 2
  | Some m => if m <=? fee then 0 else 1
  end.

Definition fee_rule_tx (t : txrec) (a b : N) : N := fee_rule (t_era t) (t_stored t) (t_fee t) a b.
Definition max_size_rule_tx (t : txrec) (maxsz : N) : bool := max_size_rule (t_stored t) maxsz.

(* ---- correspondence -------------------------------------------------------*)
Inductive case :=
| CTx (t : txrec) (a b maxsz : N)
      (o_size : N) (o_minfee : option N) (o_fee_rule : N) (o_max_ok : bool)
| CFee (size a b : N) (o : option N)
| CHdr (d : bytes) (o : option N)        (* StreamDecoder.DecodeArrayHeader *)
| CLen (d : bytes) (o : option N).       (* cbor.ListLength, array inputs *)

Definition optN_eqb := opt_eqb N.eqb.

Definition check_case (c : case) : bool :=
  match c with
  | CTx t a b maxsz o_size o_minfee o_fee o_max =>
      (tx_size_for_fee (t_era t) (t_stored t) =? o_size)
      && optN_eqb (min_fee_tx (t_era t) (t_stored t) a b) o_minfee
      && (fee_rule_tx t a b =? o_fee)
      && Bool.eqb (max_size_rule_tx t maxsz) o_max
  | CFee size a b o => optN_eqb (calculate_min_fee size a b) o
  | CHdr d o => optN_eqb (decode_array_header d) o
  | CLen d o => optN_eqb (list_length d) o
  end.

Definition mismatches := failing check_case.
