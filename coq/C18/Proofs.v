(* C18 / C19 - proofs about the handshake model, for every decoder table,
   every server table and every client table. *)
From V Require Import Lib.Base Lib.Hex Lib.Cbor C20.Model C20.Codec C18.Model.
Local Open Scope N_scope.

(* ---- association lists ----------------------------------------------------- *)
Lemma mem_In v l : mem v l = true <-> In v l.
Proof.
  unfold mem. rewrite existsb_exists. split.
  - intros (x & Hin & E). apply N.eqb_eq in E. subst. exact Hin.
  - intros Hin. exists v. split; [exact Hin|apply N.eqb_refl].
Qed.

Lemma assoc_Some_In {A} (l : list (N * A)) v x : assoc l v = Some x -> In (v, x) l.
Proof.
  induction l as [|[k y] r IH]; cbn [assoc]; [discriminate|].
  destruct (k =? v) eqn:E; intros H.
  - inversion H; subst. apply N.eqb_eq in E. subst. left. reflexivity.
  - right. auto.
Qed.

Lemma assoc_key_In {A} (l : list (N * A)) v : In v (keys l) -> exists x, assoc l v = Some x.
Proof.
  induction l as [|[k y] r IH]; cbn [assoc keys map fst]; [intros []|].
  destruct (k =? v) eqn:E; [eauto|]. intros [H|H]; [lia|]. apply IH. exact H.
Qed.

Lemma assoc_Some_key {A} (l : list (N * A)) v x : assoc l v = Some x -> In v (keys l).
Proof. intros H. apply assoc_Some_In in H. unfold keys. apply in_map_iff. exists (v, x). auto. Qed.

Lemma keys_propose t : keys (propose t) = keys t.
Proof. unfold keys, propose. rewrite map_map. reflexivity. Qed.

Lemma assoc_propose t v : assoc (propose t) v = option_map vd_enc (assoc t v).
Proof.
  induction t as [|[k d] r IH]; [reflexivity|]. cbn [propose map assoc fst snd].
  destruct (k =? v); [reflexivity|]. exact IH.
Qed.

(* ---- intersection and maximum --------------------------------------------- *)
Lemma intersect_In S P v : In v (intersect S P) <-> In v (keys P) /\ In v (keys S).
Proof. unfold intersect. rewrite filter_In, mem_In. tauto. Qed.

Lemma highest_from l : forall acc,
  let r := fold_left (fun a v => if a <? v then v else a) l acc in
  acc <= r /\ (forall w, In w l -> w <= r) /\ (r = acc \/ In r l).
Proof.
  induction l as [|x l IH]; intros acc; cbn [fold_left].
  - split; [lia|]. split; [intros w []|left; reflexivity].
  - specialize (IH (if acc <? x then x else acc)). cbv zeta in IH. destruct IH as (H1 & H2 & H3).
    set (r := fold_left _ l _) in *. destruct (acc <? x) eqn:E.
    + split; [lia|]. split.
      * intros w [<-|Hw]; [exact H1|auto].
      * right. destruct H3 as [->|H3]; [left; reflexivity|right; exact H3].
    + split; [exact H1|]. split.
      * intros w [<-|Hw]; [lia|auto].
      * destruct H3 as [H3|H3]; [left; exact H3|right; right; exact H3].
Qed.

Lemma highest_spec l : l <> [] -> In (highest l) l /\ forall w, In w l -> w <= highest l.
Proof.
  intros Hne. unfold highest. pose proof (highest_from l 0) as H. cbv zeta in H.
  destruct H as (_ & H2 & H3). split; [|exact H2].
  destruct H3 as [E|H3]; [|exact H3].
  destruct l as [|x l]; [congruence|]. rewrite E in *.
  assert (x <= 0) by (apply H2; left; reflexivity). replace x with 0 by lia. left. reflexivity.
Qed.

Lemma highest_is_max_common S C : intersect S (propose C) <> [] ->
  is_max_common (highest (intersect S (propose C))) S C.
Proof.
  intros Hne. destruct (highest_spec _ Hne) as [Hin Hmax].
  apply intersect_In in Hin. rewrite keys_propose in Hin. destruct Hin as [HC HS].
  split; [exact HS|]. split; [exact HC|]. intros w HwS HwC. apply Hmax.
  apply intersect_In. rewrite keys_propose. auto.
Qed.

Lemma intersect_nil S C : intersect S (propose C) = [] -> no_common S C.
Proof.
  intros E w HS HC. assert (In w (intersect S (propose C))) as H.
  { apply intersect_In. rewrite keys_propose. auto. }
  rewrite E in H. destruct H.
Qed.

Lemma is_max_common_unique v v' S C : is_max_common v S C -> is_max_common v' S C -> v = v'.
Proof. intros (a & b & c) (a' & b' & c'). specialize (c v' a' b'). specialize (c' v a b). lia. Qed.

(* ---- insertion sort --------------------------------------------------------- *)
Lemma insert_In x l y : In y (insert x l) <-> y = x \/ In y l.
Proof.
  induction l as [|z r IH]; cbn [insert].
  - cbn. intuition.
  - destruct (x <=? z); cbn [In]; [intuition|]. rewrite IH. intuition.
Qed.
Lemma sort_In l y : In y (sort l) <-> In y l.
Proof.
  induction l as [|x r IH]; cbn [sort fold_right]; [tauto|].
  fold (sort r). rewrite insert_In, IH. cbn. intuition.
Qed.

Lemma insert_ascending x l : ascending l -> ~ In x l -> ascending (insert x l).
Proof.
  induction l as [|y r IH]; intros Ha Hn; cbn [insert]; [constructor|].
  destruct (x <=? y) eqn:E.
  - constructor; [|exact Ha]. assert (x <> y) by (intros ->; apply Hn; left; reflexivity). lia.
  - assert (ascending r) as Hr by (inversion Ha; subst; [constructor|assumption]).
    assert (~ In x r) as Hnr by (intros H; apply Hn; right; exact H).
    specialize (IH Hr Hnr).
    destruct r as [|z r']; cbn [insert] in *.
    + constructor; [lia|constructor].
    + destruct (x <=? z) eqn:E2.
      * constructor; [lia|exact IH].
      * constructor; [inversion Ha; subst; assumption|exact IH].
Qed.

Lemma sort_ascending l : NoDup l -> ascending (sort l).
Proof.
  induction l as [|x r IH]; intros Hnd; cbn [sort fold_right]; [constructor|]. fold (sort r).
  inversion Hnd; subst. apply insert_ascending; [auto|]. rewrite sort_In. assumption.
Qed.

(* ---- query ------------------------------------------------------------------ *)
Lemma wants_query_spec known P : wants_query known P = true <->
  exists v b sh d, In (v, b) P /\ known_shape known v = Some sh /\ decode sh b = Some d /\ vd_query d = true.
Proof.
  unfold wants_query. rewrite existsb_exists. split.
  - intros ([v b] & Hin & E). unfold entry_query in E. cbn [fst snd] in E.
    destruct (known_shape known v) as [sh|] eqn:K; [|discriminate].
    destruct (decode sh b) as [d|] eqn:D; [|discriminate]. exists v, b, sh, d. auto.
  - intros (v & b & sh & d & Hin & K & D & Q). exists (v, b). split; [exact Hin|].
    unfold entry_query. cbn [fst snd]. rewrite K, D. exact Q.
Qed.

(* the client recovers a consistent server table from the query reply *)
Lemma client_query_propose known S : consistent known S -> client_query known (propose S) = S.
Proof.
  induction S as [|[v d] r IH]; intros Hc; [reflexivity|].
  cbn [propose map client_query fst snd].
  destruct (Hc v d (or_introl eq_refl)) as [K V]. rewrite K.
  rewrite <- (app_nil_r (vd_enc d)). rewrite decode_enc by exact V.
  f_equal. apply IH. intros v' d' Hin. apply Hc. right. exact Hin.
Qed.

(* ---- the server, case by case ------------------------------------------------ *)
(* the four possible situations, each with the reply and both outcomes *)
Inductive situation (known : list ventry) (S C : table) : couts * souts -> Prop :=
| sit_query :
    wants_query known (propose C) = true ->
    situation known S C (CQuery (client_query known (propose S)), SFailed)
| sit_mismatch :
    wants_query known (propose C) = false -> no_common S C ->
    situation known S C (CMismatch (sort (keys S)), SFailed)
| sit_accept v sd cd pd sh :
    wants_query known (propose C) = false -> is_max_common v S C ->
    assoc S v = Some sd -> assoc C v = Some cd -> known_shape known v = Some sh ->
    decode sh (vd_enc cd) = Some pd -> vd_magic pd = vd_magic sd ->
    situation known S C (client_accept known C v (vd_enc sd), SFinished v pd)
| sit_refused v sd cd pd sh :
    wants_query known (propose C) = false -> is_max_common v S C ->
    assoc S v = Some sd -> assoc C v = Some cd -> known_shape known v = Some sh ->
    decode sh (vd_enc cd) = Some pd -> vd_magic pd <> vd_magic sd ->
    situation known S C (CRefused v, SFailed)
| sit_decode v cd sh :
    wants_query known (propose C) = false -> is_max_common v S C ->
    assoc C v = Some cd -> known_shape known v = Some sh -> decode sh (vd_enc cd) = None ->
    situation known S C (CDecodeError v, SFailed)
| sit_panic v :
    wants_query known (propose C) = false -> is_max_common v S C ->
    known_shape known v = None ->
    situation known S C (CDecodeError v, SPanic).

Theorem handshake_situation known S C : situation known S C (handshake known S C).
Proof.
  unfold handshake, server_reply.
  destruct (wants_query known (propose C)) eqn:Q.
  { cbn [fst snd client_result]. apply sit_query. exact Q. }
  destruct (intersect S (propose C)) as [|x l] eqn:I.
  { cbn [fst snd client_result]. apply sit_mismatch; [exact Q|apply intersect_nil; exact I]. }
  assert (Hne : intersect S (propose C) <> []) by (rewrite I; discriminate).
  pose proof (highest_is_max_common S C Hne) as M. rewrite I in M.
  set (v := highest (x :: l)) in *.
  destruct M as (HS & HC & Hmax).
  destruct (assoc_key_In S v HS) as [sd Es]. destruct (assoc_key_In C v HC) as [cd Ec].
  rewrite Es. rewrite assoc_propose, Ec. cbn [option_map].
  destruct (known_shape known v) as [sh|] eqn:K.
  2:{ cbn [fst snd client_result]. apply sit_panic; [exact Q|repeat split; assumption|exact K]. }
  destruct (decode sh (vd_enc cd)) as [pd|] eqn:D.
  2:{ cbn [fst snd client_result]. eapply sit_decode; eauto. repeat split; assumption. }
  destruct (vd_magic pd =? vd_magic sd) eqn:E; cbn [fst snd client_result].
  - eapply sit_accept; eauto; [repeat split; assumption|lia].
  - eapply sit_refused; eauto; [repeat split; assumption|lia].
Qed.

(* ---- the fixed client ------------------------------------------------------- *)
Theorem client_accept_sound known C v data d :
  client_accept known C v data = CFinished v d ->
  exists own sh, assoc C v = Some own /\ known_shape known v = Some sh /\
                 decode sh data = Some d /\ vd_magic d = vd_magic own.
Proof.
  unfold client_accept. destruct (assoc C v) as [own|] eqn:A; [|discriminate].
  destruct (known_shape known v) as [sh|] eqn:K; [|discriminate].
  destruct (decode sh data) as [d'|] eqn:D; [|discriminate].
  destruct (vd_magic d' =? vd_magic own) eqn:E; [|discriminate].
  intros H. inversion H; subst. exists own, sh.
  split; [reflexivity|]. split; [reflexivity|]. split; [exact D|]. apply N.eqb_eq. exact E.
Qed.

Lemma client_accept_class known C v data :
  (exists d, client_accept known C v data = CFinished v d) \/ client_accept known C v data = CError.
Proof.
  unfold client_accept. destruct (assoc C v); [|auto]. destruct (known_shape known v); [|auto].
  destruct (decode s data); [|auto]. destruct (_ =? _); eauto.
Qed.

(* an honest responder with a consistent table is accepted *)
Lemma client_accept_honest known S C v sd cd pd sh :
  consistent known S -> all_valid C ->
  assoc S v = Some sd -> assoc C v = Some cd -> known_shape known v = Some sh ->
  decode sh (vd_enc cd) = Some pd -> vd_magic pd = vd_magic sd ->
  client_accept known C v (vd_enc sd) = CFinished v sd.
Proof.
  intros HcS HvC Es Ec K D Em. unfold client_accept. rewrite Ec, K.
  destruct (HcS v sd (assoc_Some_In _ _ _ Es)) as [K' V]. rewrite K in K'. inversion K'; subst sh.
  rewrite <- (app_nil_r (vd_enc sd)). rewrite decode_enc by exact V.
  pose proof (decode_any_magic _ _ _ (HvC v cd (assoc_Some_In _ _ _ Ec)) D) as Em'.
  replace (vd_magic sd =? vd_magic cd) with true by lia. reflexivity.
Qed.

(* ---- consequences used by the property theorems ------------------------------ *)
Lemma propose_In C v b : In (v, b) (propose C) -> exists d, In (v, d) C /\ b = vd_enc d.
Proof.
  unfold propose. rewrite in_map_iff. intros ([v' d] & E & Hin). cbn [fst snd] in E.
  inversion E; subst. eauto.
Qed.

Lemma wants_query_consistent known C : consistent known C ->
  (wants_query known (propose C) = true <-> exists v d, In (v, d) C /\ vd_query d = true).
Proof.
  intros Hc. rewrite wants_query_spec. split.
  - intros (v & b & sh & d & Hin & K & D & Q). destruct (propose_In _ _ _ Hin) as (d0 & Hin0 & ->).
    destruct (Hc v d0 Hin0) as [K0 V0]. rewrite K in K0. inversion K0; subst sh.
    rewrite <- (app_nil_r (vd_enc d0)) in D. rewrite decode_enc in D by exact V0. inversion D; subst.
    eauto.
  - intros (v & d & Hin & Q). destruct (Hc v d Hin) as [K V].
    exists v, (vd_enc d), (shape_of d), d. repeat split; auto.
    + unfold propose. apply in_map_iff. exists (v, d). auto.
    + rewrite <- (app_nil_r (vd_enc d)). apply decode_enc. exact V.
Qed.

Lemma no_common_not_max S C v : no_common S C -> is_max_common v S C -> False.
Proof. intros H (a & b & _). exact (H v a b). Qed.
