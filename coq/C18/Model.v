(* C18 / C19 - handshake version negotiation.
   Transcription of protocol/handshake/server.go (handleProposeVersions),
   protocol/handshake/client.go (handleAcceptVersion, handleRefuse,
   handleQueryReply), the message constructors of messages.go and the
   FinishedFunc / QueryReplyFunc of connection.go.  Version-data codecs come
   from C20.Model.  The global decoder table (protocol.GetProtocolVersion) is
   the parameter [known]; Gen.v holds its current value.  NO proofs here.

   The model describes the tree WITH fixes/C18-deliver-refusal.patch and
   fixes/C19-accept-version-checks.patch; the pinned client is kept as
   [client_accept_pinned]. *)
From V Require Import Lib.Base Lib.Hex Lib.Cbor C20.Model.
Local Open Scope N_scope.

(* protocol.ProtocolVersionMap: version -> VersionData.  Go maps have distinct
   keys; lookups take the first match.  nil entries are not modelled (no
   generator produces them). *)
Definition table := list (N * vd).
(* map[uint16]cbor.RawMessage of MsgProposeVersions / MsgQueryReply *)
Definition wire_map := list (N * bytes).

Fixpoint assoc {A} (l : list (N * A)) (v : N) : option A :=
  match l with
  | [] => None
  | (k, x) :: r => if k =? v then Some x else assoc r v
  end.
Definition keys {A} (l : list (N * A)) : list N := map fst l.
Definition mem (v : N) (l : list N) : bool := existsb (N.eqb v) l.

(* NewMsgProposeVersions / NewMsgQueryReply: cbor.Encode(&versionData) per entry *)
Definition propose (t : table) : wire_map := map (fun e => (fst e, vd_enc (snd e))) t.

(* slices.Sort on the key list *)
Fixpoint insert (x : N) (l : list N) : list N :=
  match l with
  | [] => [x]
  | y :: r => if x <=? y then x :: l else y :: insert x r
  end.
Definition sort (l : list N) : list N := fold_right insert [] l.

(* what the responder puts on the wire *)
Inductive reply :=
| RAccept (v : N) (data : bytes)          (* MsgAcceptVersion: version, the responder's own version data *)
| RRefuseMismatch (vs : list N)           (* MsgRefuse [0, versions] *)
| RRefuseDecode (v : N)                   (* MsgRefuse [1, version, text] *)
| RRefuseRefused (v : N)                  (* MsgRefuse [2, version, "network magic mismatch"] *)
| RQueryReply (m : wire_map).             (* MsgQueryReply *)

(* what the responder's FinishedFunc sees; every other exit of the handler is an error *)
Inductive souts :=
| SFinished (v : N) (d : vd)              (* FinishedFunc(version, the PROPOSED data) *)
| SFailed
| SPanic.                                 (* nil decoder function called: selected version unknown to GetProtocolVersion *)

(* first loop of handleProposeVersions: any proposed entry whose version has a
   decoder, decodes, and has the query flag (map order does not matter: the
   loop returns at the first such entry, and the reply is the same for all) *)
Definition entry_query (known : list ventry) (e : N * bytes) : bool :=
  match known_shape known (fst e) with
  | Some sh => match decode sh (snd e) with Some d => vd_query d | None => false end
  | None => false
  end.
Definition wants_query (known : list ventry) (P : wire_map) : bool := existsb (entry_query known) P.

(* "Compute intersection of supported and proposed protocol versions" *)
Definition intersect (S : table) (P : wire_map) : list N := filter (fun v => mem v (keys S)) (keys P).
(* "Compute highest version from intersection": var proposedVersion uint16 (= 0) *)
Definition highest (l : list N) : N := fold_left (fun acc v => if acc <? v then v else acc) l 0.

Definition server_reply (known : list ventry) (S : table) (P : wire_map) : reply * souts :=
  if wants_query known P then (RQueryReply (propose S), SFailed)
  else
    match intersect S P with
    | [] => (RRefuseMismatch (sort (keys S)), SFailed)
    | vs =>
      let v := highest vs in
      match assoc S v with
      | None => (RRefuseDecode v, SFailed)     (* versionData == nil; unreachable for v from the intersection *)
      | Some sd =>
        match known_shape known v with
        | None => (RRefuseDecode v, SPanic)
        | Some sh =>
          match decode sh (match assoc P v with Some b => b | None => [] end) with
          | None => (RRefuseDecode v, SFailed)
          | Some pd =>
            if vd_magic pd =? vd_magic sd then (RAccept v (vd_enc sd), SFinished v pd)
            else (RRefuseRefused v, SFailed)
          end
        end
      end
    end.

(* what the initiator's callbacks / error channel see *)
Inductive couts :=
| CFinished (v : N) (d : vd)              (* FinishedFunc(version, the responder's data) *)
| CQuery (m : table)                      (* QueryReplyFunc(decoded map); FinishedFunc(0, nil): no version *)
| CMismatch (vs : list N)                 (* *VersionMismatchError *)
| CDecodeError (v : N)                    (* *DecodeError *)
| CRefused (v : N)                        (* *RefusedError *)
| CError.                                 (* any other error: the handshake failed *)

(* handleAcceptVersion, FIXED (fixes/C19-accept-version-checks.patch) *)
Definition client_accept (known : list ventry) (C : table) (v : N) (data : bytes) : couts :=
  match assoc C v with
  | None => CError                                    (* not proposed *)
  | Some own =>
    match known_shape known v with
    | None => CError                                  (* "unsupported protocol version accepted by peer" *)
    | Some sh =>
      match decode sh data with
      | None => CError
      | Some d => if vd_magic d =? vd_magic own then CFinished v d else CError
      end
    end
  end.

(* handleAcceptVersion as pinned: only the global decoder table is consulted *)
Definition client_accept_pinned (known : list ventry) (C : table) (v : N) (data : bytes) : couts :=
  match known_shape known v with
  | None => CError
  | Some sh => match decode sh data with None => CError | Some d => CFinished v d end
  end.

(* handleQueryReply: entries with a decoder that decode *)
Fixpoint client_query (known : list ventry) (m : wire_map) : table :=
  match m with
  | [] => []
  | (v, b) :: r =>
    match known_shape known v with
    | Some sh => match decode sh b with
                 | Some d => (v, d) :: client_query known r
                 | None => client_query known r
                 end
    | None => client_query known r
    end
  end.

Definition client_result (known : list ventry) (C : table) (r : reply) : couts :=
  match r with
  | RAccept v d => client_accept known C v d
  | RRefuseMismatch vs => CMismatch vs
  | RRefuseDecode v => CDecodeError v
  | RRefuseRefused v => CRefused v
  | RQueryReply m => CQuery (client_query known m)
  end.

(* both ends *)
Definition handshake (known : list ventry) (S C : table) : couts * souts :=
  let rs := server_reply known S (propose C) in
  (client_result known C (fst rs), snd rs).

(* ---- specification vocabulary -------------------------------------------- *)
Definition is_max_common (v : N) (S C : table) : Prop :=
  In v (keys S) /\ In v (keys C) /\ forall w, In w (keys S) -> In w (keys C) -> w <= v.
Definition no_common (S C : table) : Prop := forall w, In w (keys S) -> In w (keys C) -> False.

(* a table whose entries have the Go type that GetProtocolVersion's decoder
   for that version produces (what C20 proves of every generated table) *)
Definition consistent (known : list ventry) (t : table) : Prop :=
  forall v d, In (v, d) t -> known_shape known v = Some (shape_of d) /\ vd_valid d.
Definition all_valid (t : table) : Prop := forall v d, In (v, d) t -> vd_valid d.

(* ---- correspondence ---------------------------------------------------- *)
Definition table_eqb (a b : table) : bool :=
  list_eqb (fun x y => (fst x =? fst y) && vd_eqb (snd x) (snd y)) a b.
Definition nlist_eqb : list N -> list N -> bool := list_eqb N.eqb.
Definition couts_eqb (a b : couts) : bool :=
  match a, b with
  | CFinished v d, CFinished v' d' => (v =? v') && vd_eqb d d'
  | CQuery m, CQuery m' => table_eqb m m'
  | CMismatch l, CMismatch l' => nlist_eqb l l'
  | CDecodeError v, CDecodeError v' => v =? v'
  | CRefused v, CRefused v' => v =? v'
  | CError, CError => true
  | _, _ => false
  end.
Definition souts_eqb (a b : souts) : bool :=
  match a, b with
  | SFinished v d, SFinished v' d' => (v =? v') && vd_eqb d d'
  | SFailed, SFailed => true
  | SPanic, SPanic => true
  | _, _ => false
  end.

(* C18: server table, client table, observed client outcome, observed server outcome *)
Definition case := (table * table * couts * souts)%type.
Definition check_case (known : list ventry) (c : case) : bool :=
  match c with (st, ct, co, so) =>
    let r := handshake known st ct in couts_eqb (fst r) co && souts_eqb (snd r) so
  end.

(* C19: client table, accepted version, accepted raw data, observed client outcome *)
Definition acase := (table * N * bytes * couts)%type.
Definition check_acase (known : list ventry) (c : acase) : bool :=
  match c with (ct, v, data, co) => couts_eqb (client_accept known ct v data) co end.
