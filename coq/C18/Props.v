(* C18 - property theorems only.  [known] (the decoder table of
   protocol.GetProtocolVersion), the responder's table S and the initiator's
   table C are universally quantified. *)
From V Require Import Lib.Base Lib.Hex Lib.Cbor C20.Model C20.Codec C18.Model C18.Proofs.
Local Open Scope N_scope.

(* Every handshake is in exactly one of these situations (the outcome pair is
   a function of the tables): query / no common version / highest common
   version v with matching magic / with different magic / whose proposed data
   the responder cannot decode / unknown to the responder's decoder table. *)
Theorem C18_cases : forall known S C, situation known S C (handshake known S C).
Proof. exact handshake_situation. Qed.
Print Assumptions C18_cases.

(* Both finish with the same version, which is the highest version both
   offered, and the magics agree.  The responder's table is type-consistent
   with the decoder table (C20 proves this of every generated table), the
   initiator's table is arbitrary (values in the Go ranges). *)
Theorem C18_agree : forall known S C, consistent known S -> all_valid C ->
  forall co v pd, handshake known S C = (co, SFinished v pd) ->
  exists sd cd, co = CFinished v sd /\ assoc S v = Some sd /\ assoc C v = Some cd /\
                is_max_common v S C /\
                vd_magic sd = vd_magic cd /\ vd_magic pd = vd_magic cd.
Proof.
  intros known S C HS HC co v pd H. pose proof (handshake_situation known S C) as Sit.
  rewrite H in Sit. inversion Sit; subst.
  match goal with
  | Es : assoc S v = Some ?sd, Ec : assoc C v = Some ?cd, D : decode ?sh (vd_enc ?cd) = Some pd,
    Em : vd_magic pd = vd_magic ?sd, M : is_max_common v S C, K : known_shape known v = Some ?sh |- _ =>
    exists sd, cd;
    pose proof (decode_any_magic _ _ _ (HC v cd (assoc_Some_In _ _ _ Ec)) D) as Em';
    split; [eapply client_accept_honest; eauto|];
    split; [exact Es|]; split; [exact Ec|]; split; [exact M|]; split; congruence
  end.
Qed.
Print Assumptions C18_agree.

(* The initiator finishes only if the responder finished, with the same version. *)
Theorem C18_client_finished : forall known S C v d,
  fst (handshake known S C) = CFinished v d -> exists pd, snd (handshake known S C) = SFinished v pd.
Proof.
  intros known S C v d H. pose proof (handshake_situation known S C) as Sit.
  destruct (handshake known S C) as [co so]. cbn [fst snd] in *. subst co.
  inversion Sit; subst; try discriminate.
  match goal with E : client_accept _ _ ?w _ = CFinished v d |- _ =>
    destruct (client_accept_class known C w (vd_enc sd)) as [[d' E']|E']; rewrite E' in E; [inversion E; subst; eauto|discriminate] end.
Qed.
Print Assumptions C18_client_finished.

(* Otherwise the responder refuses and the initiator reports that refusal:
   no common version -> version mismatch listing the responder's versions,
   strictly ascending; common version v (the highest) -> Refused v when the
   magics differ, DecodeError v when the proposed data does not decode. *)
Theorem C18_refusal : forall known S C, wants_query known (propose C) = false ->
  (no_common S C ->
     handshake known S C = (CMismatch (sort (keys S)), SFailed)) /\
  (forall v sd cd sh, is_max_common v S C -> assoc S v = Some sd -> assoc C v = Some cd ->
     known_shape known v = Some sh ->
     match decode sh (vd_enc cd) with
     | Some pd => vd_magic pd <> vd_magic sd -> handshake known S C = (CRefused v, SFailed)
     | None => handshake known S C = (CDecodeError v, SFailed)
     end).
Proof.
  intros known S C Q. pose proof (handshake_situation known S C) as Sit.
  destruct (handshake known S C) as [co so]. split.
  - intros Hn. inversion Sit; subst; try congruence; try (exfalso; eapply no_common_not_max; eauto; fail).
  - intros v sd cd sh M Es Ec K.
    inversion Sit; subst; try congruence;
      try (exfalso; eapply no_common_not_max; eauto; fail);
      match goal with M' : is_max_common ?w S C |- _ =>
        assert (w = v) by (eapply is_max_common_unique; eauto); subst w end;
      repeat match goal with
             | A : assoc ?t v = Some _, B : assoc ?t v = Some _ |- _ => rewrite A in B; inversion B; subst; clear B
             | A : known_shape known v = _, B : known_shape known v = _ |- _ => rewrite A in B; inversion B; subst; clear B
             end;
      match goal with D : decode _ _ = _ |- _ => rewrite D end; try reflexivity; try congruence.
Qed.
Print Assumptions C18_refusal.

Theorem C18_refuse_sorted : forall known S C l, NoDup (keys S) ->
  fst (handshake known S C) = CMismatch l ->
  ascending l /\ (forall x, In x l <-> In x (keys S)) /\ no_common S C /\ snd (handshake known S C) = SFailed.
Proof.
  intros known S C l Hnd H. pose proof (handshake_situation known S C) as Sit.
  destruct (handshake known S C) as [co so]. cbn [fst snd] in *. subst co.
  inversion Sit; subst; try discriminate.
  - split; [apply sort_ascending; exact Hnd|]. split; [intros x; apply sort_In|]. auto.
  - match goal with E : client_accept _ _ ?w _ = CMismatch l |- _ =>
      destruct (client_accept_class known C w (vd_enc sd)) as [[d' E']|E']; rewrite E' in E; discriminate end.
Qed.
Print Assumptions C18_refuse_sorted.

(* Query mode: as soon as one proposed entry that the responder can decode
   carries the query flag, the reply is the responder's table, the initiator
   gets exactly that table (no version: FinishedFunc(0, nil)), and the
   responder does not finish. *)
Theorem C18_query : forall known S C,
  (wants_query known (propose C) = true <->
     exists v b sh d, In (v, b) (propose C) /\ known_shape known v = Some sh /\ decode sh b = Some d /\ vd_query d = true) /\
  (consistent known C ->
     (wants_query known (propose C) = true <-> exists v d, In (v, d) C /\ vd_query d = true)) /\
  (wants_query known (propose C) = true -> consistent known S ->
     server_reply known S (propose C) = (RQueryReply (propose S), SFailed) /\
     handshake known S C = (CQuery S, SFailed)).
Proof.
  intros known S C. split; [apply wants_query_spec|]. split; [apply wants_query_consistent|].
  intros Q HS. unfold handshake, server_reply. rewrite Q. cbn [fst snd client_result].
  rewrite client_query_propose by exact HS. auto.
Qed.
Print Assumptions C18_query.

(* ---- non-vacuity -------------------------------------------------------------- *)
Definition ex_known : list ventry :=
  [mkV 11 SNtN11 [] []; mkV 13 SNtN13 [] []; mkV 14 SNtN13 [] []; mkV 32784 SNtC15 [] []].
Definition ex_S : table := [(11, VNtN11 764824073 false 0 false); (13, VNtN13 764824073 false 0 false); (14, VNtN13 764824073 false 1 false)].
Definition ex_C : table := [(11, VNtN11 764824073 true 2 false); (13, VNtN13 764824073 true 1 false); (32784, VNtC15 764824073 false)].

Example C18_ex_agree :
  handshake ex_known ex_S ex_C = (CFinished 13 (VNtN13 764824073 false 0 false), SFinished 13 (VNtN13 764824073 true 1 false)).
Proof. vm_compute. reflexivity. Qed.
Example C18_ex_magic :
  handshake ex_known ex_S [(13, VNtN13 1 true 1 false)] = (CRefused 13, SFailed).
Proof. vm_compute. reflexivity. Qed.
Example C18_ex_mismatch :
  handshake ex_known [(14, VNtN13 5 false 0 false); (11, VNtN11 5 false 0 false)] [(13, VNtN13 5 true 1 false)] = (CMismatch [11; 14], SFailed).
Proof. vm_compute. reflexivity. Qed.
Example C18_ex_decode :
  handshake ex_known ex_S [(13, VNtC15 764824073 false)] = (CDecodeError 13, SFailed).
Proof. vm_compute. reflexivity. Qed.
Example C18_ex_query :
  handshake ex_known ex_S [(13, VNtN13 764824073 true 1 true)] = (CQuery ex_S, SFailed).
Proof. vm_compute. reflexivity. Qed.
Example C18_ex_consistent : consistent ex_known ex_S /\ all_valid ex_C.
Proof.
  split; intros v d H; cbn in H;
    repeat (destruct H as [H|H]; [inversion H; subst; vm_compute; repeat split; congruence|]); destruct H.
Qed.
