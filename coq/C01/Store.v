(* C01 - histories: what cbor.DecodeStoreCbor.SetCbor / SetCborReference do to the
   bytes EARLIER decodes handed out.

   SetCbor(data) (cbor/cbor.go) always allocates a fresh buffer and copies data
   into it; SetCborReference(sub) stores a sub-slice of the receiver's current
   buffer (ExtractAndSetTransactionCbor: bodies / witness sets of a block).
   Objects and slices handed out by a decode alias the buffer of THAT decode.
   Store model: a heap of buffers addressed by index; `reuse = false` is the
   code as it is (allocate only), `reuse = true` is the variant that overwrites
   the receiver's own buffer in place when the new encoding fits (the change of
   seeded/C01-b-setcbor-buffer-reuse) - kept for the refutation witness. *)
From V Require Import Lib.Base Lib.CborSpan.
Local Open Scope nat_scope.

Definition heap := list bytes.
Definition ref := (nat * nat * nat)%type.                 (* buffer, offset, length *)

Definition read (h : heap) (r : ref) : option bytes :=
  let '(b, o, l) := r in match nth_error h b with Some buf => Some (slice o l buf) | None => None end.

Fixpoint upd (h : heap) (b : nat) (v : bytes) : heap :=
  match h, b with
  | [], _ => []
  | _ :: t, O => v :: t
  | x :: t, S b' => x :: upd t b' v
  end.

(* SetCbor on a receiver that currently owns buffer `own`: new heap, the buffer now owned *)
Definition set_cbor (reuse : bool) (h : heap) (own : option nat) (data : bytes) : heap * nat :=
  match (if reuse then own else None) with
  | Some b =>
      match nth_error h b with
      | Some old => if Nat.leb (length data) (length old)
                    then (upd h b (data ++ skipn (length data) old), b)     (* copy into the existing backing array *)
                    else (h ++ [data], length h)
      | None => (h ++ [data], length h)
      end
  | None => (h ++ [data], length h)
  end.

(* one decode into the receiver: SetCbor(data), then SetCborReference for the child spans;
   returns the references handed out: the whole object first, then the children *)
Definition decode_into (reuse : bool) (st : heap * option nat) (data : bytes) (spans : list (nat * nat))
    : (heap * option nat) * list ref :=
  let '(h, own) := st in
  let '(h', b) := set_cbor reuse h own data in
  ((h', Some b), (b, 0, length data) :: map (fun s => (b, fst s, snd s)) spans).

(* a history: successive decodes into the same receiver *)
Fixpoint run (reuse : bool) (st : heap * option nat) (ops : list (bytes * list (nat * nat))) : heap * option nat :=
  match ops with
  | [] => st
  | (d, sp) :: r => run reuse (fst (decode_into reuse st d sp)) r
  end.

(* ---- the code as it is: nothing handed out is ever written again ---- *)
Lemma read_app h x r : fst (fst r) < length h -> read (h ++ [x]) r = read h r.
Proof. destruct r as [[b o] l]. cbn [fst]. intros H. unfold read. rewrite nth_error_app1 by exact H. reflexivity. Qed.

Lemma run_stable : forall ops h own r, fst (fst r) < length h ->
  read (fst (run false (h, own) ops)) r = read h r /\ length h <= length (fst (run false (h, own) ops)).
Proof.
  induction ops as [|[d sp] ops IH]; intros h own r Hr; cbn [run]; [split; [reflexivity|apply le_n]|].
  cbn [decode_into set_cbor fst].
  destruct (IH (h ++ [d]) (Some (length h)) r) as [E L]; [rewrite app_length; cbn [length]; lia|].
  split; [etransitivity; [exact E|apply read_app; exact Hr]|]. eapply Nat.le_trans; [|exact L]. rewrite app_length. cbn [length]. lia.
Qed.

(* what a decode hands out reads as the input and its slices at the spans *)
Lemma decode_reads h own d sp : let '(st', refs) := decode_into false (h, own) d sp in
  Forall2 (fun r want => read (fst st') r = Some want /\ fst (fst r) < length (fst st'))
          refs (d :: map (fun s => slice (fst s) (snd s) d) sp).
Proof.
  cbn [decode_into set_cbor fst].
  assert (N : nth_error (h ++ [d]) (length h) = Some d) by (rewrite nth_error_app2, Nat.sub_diag by lia; reflexivity).
  assert (Lt : length h < length (h ++ [d])) by (rewrite app_length; cbn [length]; lia).
  constructor.
  - cbn [read fst]. unfold read. rewrite N. split; [|exact Lt]. unfold slice. cbn [skipn]. rewrite firstn_all. reflexivity.
  - induction sp as [|s sp IH]; cbn [map]; constructor; [|exact IH]. unfold read. rewrite N. split; [reflexivity|exact Lt].
Qed.

(* ---- the in-place variant: a retained reference changes its bytes ---- *)
Definition reuse_witness : (bytes * list (nat * nat)) * (bytes * list (nat * nat)) :=
  (([130; 1; 2]%N, [(1, 1)]), ([130; 9; 2]%N, [(1, 1)])).
