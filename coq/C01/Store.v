(* C01 - histories: what cbor.DecodeStoreCbor.SetCbor / SetCborReference do to the
   bytes EARLIER decodes handed out.

   SetCbor(data) (cbor/cbor.go) always allocates a fresh buffer and copies data
   into it; SetCborReference(sub) stores a sub-slice of the receiver's current
   buffer (ExtractAndSetTransactionCbor: bodies / witness sets of a block).
   Objects and slices handed out by a decode alias the buffer of THAT decode.
   Store model: a heap of buffers addressed by index; `reuse = false` is the
   code as it is (allocate only), `reuse = true` is the variant that overwrites
   the receiver's own buffer in place when the new encoding fits (the change of
   seeded/C01-b-setcbor-buffer-reuse) - kept for the refutation witness. *)
From V Require Import Lib.Base Lib.CborSpan.
Local Open Scope nat_scope.

Definition heap := list bytes.
Definition ref := (nat * nat * nat)%type.                 (* buffer, offset, length *)

Definition read (h : heap) (r : ref) : option bytes :=
  let '(b, o, l) := r in match nth_error h b with Some buf => Some (slice o l buf) | None => None end.

Fixpoint upd (h : heap) (b : nat) (v : bytes) : heap :=
  match h, b with
  | [], _ => []
  | _ :: t, O => v :: t
  | x :: t, S b' => x :: upd t b' v
  end.

(* SetCbor on a receiver that currently owns buffer `own`: new heap, the buffer now owned *)
Definition set_cbor (reuse : bool) (h : heap) (own : option nat) (data : bytes) : heap * nat :=
  match (if reuse then own else None) with
  | Some b =>
      match nth_error h b with
      | Some old => if Nat.leb (length data) (length old)
                    then (upd h b (data ++ skipn (length data) old), b)     (* copy into the existing backing array *)
                    else (h ++ [data], length h)
      | None => (h ++ [data], length h)
      end
  | None => (h ++ [data], length h)
  end.

(* one decode into the receiver: SetCbor(data), then SetCborReference for the child spans;
   returns the references handed out: the whole object first, then the children *)
Definition decode_into (reuse : bool) (st : heap * option nat) (data : bytes) (spans : list (nat * nat))
    : (heap * option nat) * list ref :=
  let '(h, own) := st in
  let '(h', b) := set_cbor reuse h own data in
  ((h', Some b), (b, 0, length data) :: map (fun s => (b, fst s, snd s)) spans).

(* a history: successive decodes into the same receiver *)
Fixpoint run (reuse : bool) (st : heap * option nat) (ops : list (bytes * list (nat * nat))) : heap * option nat :=
  match ops with
  | [] => st
  | (d, sp) :: r => run reuse (fst (decode_into reuse st d sp)) r
  end.

(* ---- the code as it is: nothing handed out is ever written again ---- *)
Lemma read_app h x r : fst (fst r) < length h -> read (h ++ [x]) r = read h r.
Proof. destruct r as [[b o] l]. cbn [fst]. intros H. unfold read. rewrite nth_error_app1 by exact H. reflexivity. Qed.

Lemma run_stable : forall ops h own r, fst (fst r) < length h ->
  read (fst (run false (h, own) ops)) r = read h r /\ length h <= length (fst (run false (h, own) ops)).
Proof.
  induction ops as [|[d sp] ops IH]; intros h own r Hr; cbn [run]; [split; [reflexivity|apply le_n]|].
  cbn [decode_into set_cbor fst].
  destruct (IH (h ++ [d]) (Some (length h)) r) as [E L]; [rewrite app_length; cbn [length]; lia|].
  split; [etransitivity; [exact E|apply read_app; exact Hr]|]. eapply Nat.le_trans; [|exact L]. rewrite app_length. cbn [length]. lia.
Qed.

(* what a decode hands out reads as the input and its slices at the spans *)
Lemma decode_reads h own d sp : let '(st', refs) := decode_into false (h, own) d sp in
  Forall2 (fun r want => read (fst st') r = Some want /\ fst (fst r) < length (fst st'))
          refs (d :: map (fun s => slice (fst s) (snd s) d) sp).
Proof.
  cbn [decode_into set_cbor fst].
  assert (N : nth_error (h ++ [d]) (length h) = Some d) by (rewrite nth_error_app2, Nat.sub_diag by lia; reflexivity).
  assert (Lt : length h < length (h ++ [d])) by (rewrite app_length; cbn [length]; lia).
  constructor.
  - cbn [read fst]. unfold read. rewrite N. split; [|exact Lt]. unfold slice. cbn [skipn]. rewrite firstn_all. reflexivity.
  - induction sp as [|s sp IH]; cbn [map]; constructor; [|exact IH]. unfold read. rewrite N. split; [reflexivity|exact Lt].
Qed.

(* ---- the in-place variant: a retained reference changes its bytes ---- *)
Definition reuse_witness : (bytes * list (nat * nat)) * (bytes * list (nat * nat)) :=
  (([130; 1; 2]%N, [(1, 1)]), ([130; 9; 2]%N, [(1, 1)])).

(* ---- the CALLER's input buffer ------------------------------------------------
   cbor.Decode(dataBytes, dest) streams the input through the decoder's private
   buffer, so what UnmarshalCBOR is handed - and what SetCbor copies or
   SetCborReference keeps - never aliases the caller's slice.  Model: the
   caller's buffer is a heap cell c; `decode_from inplace = false` is the code
   as it is (the input is read out of c, everything handed out lives in a
   fresh buffer); `inplace = true` is decoding in place (UnmarshalFirst on the
   caller's slice: seeded/C01-c-decode-in-place-aliases-input), where the
   references kept with SetCborReference point into c itself. *)
Definition decode_from (inplace : bool) (h : heap) (c : nat) (spans : list (nat * nat)) : heap * list ref :=
  match nth_error h c with
  | None => (h, [])
  | Some data =>
      if inplace then (h, (c, 0, length data) :: map (fun s => (c, fst s, snd s)) spans)
      else let '(st, refs) := decode_into false (h, None) data spans in (fst st, refs)
  end.

Lemma nth_error_upd_other : forall h b c (v : bytes), b <> c -> nth_error (upd h c v) b = nth_error h b.
Proof.
  induction h as [|x t IH]; intros b c v Hne; [destruct c; reflexivity|].
  destruct c as [|c]; destruct b as [|b]; cbn [upd nth_error]; try reflexivity; try congruence.
  apply IH. congruence.
Qed.

Lemma read_upd_other h c v r : fst (fst r) <> c -> read (upd h c v) r = read h r.
Proof. destruct r as [[b o] l]. cbn [fst]. intros H. unfold read. rewrite nth_error_upd_other by exact H. reflexivity. Qed.

Lemma upd_length : forall h c (v : bytes), length (upd h c v) = length h.
Proof. induction h as [|x t IH]; intros [|c] v; cbn [upd length]; auto. Qed.

(* the caller overwrites its buffer (any number of times, with anything): nothing handed out changes *)
Fixpoint scribble (h : heap) (c : nat) (vs : list bytes) : heap :=
  match vs with [] => h | v :: r => scribble (upd h c v) c r end.

Lemma read_scribble_other : forall vs h c r, fst (fst r) <> c -> read (scribble h c vs) r = read h r.
Proof.
  induction vs as [|v vs IH]; intros h c r H; [reflexivity|]. cbn [scribble].
  rewrite IH by exact H. apply read_upd_other. exact H.
Qed.

Lemma decode_from_reads h c data sp : nth_error h c = Some data ->
  let '(h', refs) := decode_from false h c sp in
  Forall2 (fun r want => read h' r = Some want /\ fst (fst r) <> c)
          refs (data :: map (fun s => slice (fst s) (snd s) data) sp).
Proof.
  intros Hc. unfold decode_from. rewrite Hc. pose proof (decode_reads h None data sp) as H.
  assert (Hlt : c < length h) by (apply nth_error_Some; congruence).
  cbn [decode_into set_cbor fst] in *.
  assert (G : forall refs wants,
    Forall2 (fun r want => read (h ++ [data]) r = Some want /\ fst (fst r) < length (h ++ [data])) refs wants ->
    Forall (fun r => fst (fst r) = length h) refs ->
    Forall2 (fun r want => read (h ++ [data]) r = Some want /\ fst (fst r) <> c) refs wants).
  { induction 1 as [|r w rs ws [Hr _] _ IH]; intros Hall; constructor.
    - inversion Hall; subst. split; [exact Hr|lia].
    - apply IH. inversion Hall; assumption. }
  apply G; [exact H|]. constructor; [reflexivity|]. apply Forall_forall. intros r Hin.
  apply in_map_iff in Hin. destruct Hin as (s & <- & _). reflexivity.
Qed.

Definition inplace_witness : bytes * list (nat * nat) * bytes := ([130; 1; 2]%N, [(1, 1)], [130; 9; 2]%N).
