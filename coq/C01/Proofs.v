(* C01 - proofs about the model of ExtractAndSetTransactionCbor. *)
From Coq Require Import String.
From V Require Import Lib.Base Lib.Cbor Lib.CborParse Lib.CborLemmas Lib.CborSpan Lib.CborProofs
  C07.Model C07.Basics C07.Scan C07.Walkers C07.Top C01.Model.
Local Open Scope nat_scope.

Lemma firstn_enc (x : bytes) r : firstn (length x) (x ++ r) = x.
Proof. rewrite firstn_app, Nat.sub_diag, firstn_all. cbn [firstn]. apply app_nil_r. Qed.

Lemma item_step_enc hs p x more : wf x -> item_step hs p (enc x ++ more) = Next [enc x] (length (enc x)) more.
Proof. intros Hw. unfold item_step. rewrite sd_skip_enc by exact Hw. rewrite firstn_enc. reflexivity. Qed.

Lemma spec_run_items xs : forall p, spec_run enc (fun (_ : nat) (x : item) => [enc x]) p xs = map enc xs.
Proof. induction xs as [|x r IH]; intros p; [reflexivity|]. cbn [spec_run map app]. f_equal. apply IH. Qed.

(* setArrayItemCbor hands setItemCbor(i, .) exactly the encoding of element i, for every header form *)
Lemma set_array_items_enc f xs : wf (Arr f xs) -> count_ok xs ->
  set_array_items (enc (Arr f xs)) (length xs) = Some (map enc xs).
Proof.
  intros Hw Hc. unfold set_array_items, cbor_array_info.
  assert (E1 : cbor_info 4 (enc (Arr f xs)) = (Some (cnt_of f xs), hdr_size f, is_indef f))
    by (rewrite <- (app_nil_r (enc _)); apply cbor_info_arr; assumption).
  assert (E2 : skipn (hdr_size f) (enc (Arr f xs)) = flat_map enc xs ++ trailer_bytes f ++ [])
    by (rewrite <- (app_nil_r (enc _)) at 1; apply arr_after_header; assumption).
  rewrite E1, E2.
  assert (ES : scan (item_step (hdr_size f)) (S (length (enc (Arr f xs)))) (is_indef f) (cnt_of f xs) 0
                 (flat_map enc xs ++ trailer_bytes f ++ []) = map enc xs).
  { rewrite (scan_all enc _ (fun _ x => [enc x])).
    - apply spec_run_items.
    - intros x p more Hin. apply item_step_enc. apply wf_arr in Hw. destruct Hw as [_ Hall].
      rewrite Forall_forall in Hall. apply Hall. exact Hin.
    - intros x Hin. apply wf_arr in Hw. destruct Hw as [_ Hall]. rewrite Forall_forall in Hall.
      destruct (enc_first x (Hall x Hin)) as (b & t & E & Hb). exists b, t. auto.
    - apply end_break.
    - apply end_count.
    - pose proof (arr_count_le f xs Hw). lia. }
  assert (EC : negb (is_indef f) && negb (cnt_of f xs =? N.of_nat (length xs))%N = false).
  { destruct f; cbn [is_indef cnt_of negb andb]; [rewrite N.eqb_refl|]; reflexivity. }
  destruct f as [fm|]; cbn [is_indef cnt_of] in *.
  - rewrite EC. rewrite ES, map_length, Nat.eqb_refl. reflexivity.
  - cbn [negb andb]. rewrite ES, map_length, Nat.eqb_refl. reflexivity.
Qed.

(* a wrong expected count is an error for every header form (never a silent shift) *)
Lemma set_array_items_mismatch f xs n : wf (Arr f xs) -> count_ok xs -> n <> length xs ->
  set_array_items (enc (Arr f xs)) n = None.
Proof.
  intros Hw Hc Hn. unfold set_array_items, cbor_array_info.
  assert (E1 : cbor_info 4 (enc (Arr f xs)) = (Some (cnt_of f xs), hdr_size f, is_indef f))
    by (rewrite <- (app_nil_r (enc _)); apply cbor_info_arr; assumption).
  assert (E2 : skipn (hdr_size f) (enc (Arr f xs)) = flat_map enc xs ++ trailer_bytes f ++ [])
    by (rewrite <- (app_nil_r (enc _)) at 1; apply arr_after_header; assumption).
  rewrite E1, E2.
  assert (ES : scan (item_step (hdr_size f)) (S (length (enc (Arr f xs)))) (is_indef f) (cnt_of f xs) 0
                 (flat_map enc xs ++ trailer_bytes f ++ []) = map enc xs).
  { rewrite (scan_all enc _ (fun _ x => [enc x])).
    - apply spec_run_items.
    - intros x p more Hin. apply item_step_enc. apply wf_arr in Hw. destruct Hw as [_ Hall].
      rewrite Forall_forall in Hall. apply Hall. exact Hin.
    - intros x Hin. apply wf_arr in Hw. destruct Hw as [_ Hall]. rewrite Forall_forall in Hall.
      destruct (enc_first x (Hall x Hin)) as (b & t & E & Hb). exists b, t. auto.
    - apply end_break.
    - apply end_count.
    - pose proof (arr_count_le f xs Hw). lia. }
  destruct f as [fm|]; cbn [is_indef cnt_of negb andb] in *.
  - destruct (N.eqb_spec (N.of_nat (length xs)) (N.of_nat n)); [lia|reflexivity].
  - rewrite ES, map_length. destruct (Nat.eqb_spec (length xs) n); [congruence|reflexivity].
Qed.

(* the Shelley..Conway block layout *)
Theorem extract_tx_cbor_enc f0 h f1 bodies f2 wits aux rest :
  let b := Arr f0 (h :: Arr f1 bodies :: Arr f2 wits :: aux :: rest) in
  wf b -> size_ok b ->
  extract_tx_cbor (enc b) (length bodies) (length wits) = Some (Some (map enc bodies, map enc wits, Some (enc aux))).
Proof.
  intros b Hw Hsz. set (xs := h :: Arr f1 bodies :: Arr f2 wits :: aux :: rest) in *.
  assert (Hall : Forall wf xs) by (apply wf_arr in Hw; apply Hw).
  assert (Hwh : wf h) by (inversion Hall; assumption).
  assert (HwB1 : wf (Arr f1 bodies)) by (apply (wf_children f0 xs 1 _ Hw); reflexivity).
  assert (HwB2 : wf (Arr f2 wits)) by (apply (wf_children f0 xs 2 _ Hw); reflexivity).
  assert (Hwa : wf aux) by (apply (wf_children f0 xs 3 _ Hw); reflexivity).
  assert (C0 : count_ok xs) by (apply (size_ok_arr f0 xs Hw Hsz)).
  assert (L1 : located (enc b) (child_off f0 xs 1) (Arr f1 bodies)) by (apply (located_arr_child _ 0 f0 xs 1); [apply located_self|reflexivity]).
  assert (L2 : located (enc b) (child_off f0 xs 2) (Arr f2 wits)) by (apply (located_arr_child _ 0 f0 xs 2); [apply located_self|reflexivity]).
  assert (C1 : count_ok bodies) by (apply (size_ok_arr f1 bodies HwB1); eapply size_ok_located; eauto).
  assert (C2 : count_ok wits) by (apply (size_ok_arr f2 wits HwB2); eapply size_ok_located; eauto).
  unfold extract_tx_cbor, cbor_array_info.
  assert (E1 : cbor_info 4 (enc b) = (Some (cnt_of f0 xs), hdr_size f0, is_indef f0))
    by (rewrite <- (app_nil_r (enc _)); apply cbor_info_arr; assumption).
  assert (E2 : skipn (hdr_size f0) (enc b) = flat_map enc xs ++ trailer_bytes f0 ++ [])
    by (rewrite <- (app_nil_r (enc _)) at 1; apply arr_after_header; assumption).
  rewrite E1, E2.
  change (flat_map enc xs) with (enc h ++ enc (Arr f1 bodies) ++ enc (Arr f2 wits) ++ enc aux ++ flat_map enc rest).
  rewrite <- !app_assoc.
  rewrite sd_skip_enc by exact Hwh. rewrite sd_skip_enc by exact HwB1. rewrite sd_skip_enc by exact HwB2.
  rewrite sd_skip_enc by exact Hwa. rewrite !firstn_enc.
  rewrite (set_array_items_enc f1 bodies HwB1 C1), (set_array_items_enc f2 wits HwB2 C2).
  destruct f0 as [fm|]; cbn [is_indef cnt_of negb andb orb].
  - unfold xs. cbn [length]. 
    destruct (N.ltb_spec (N.of_nat (S (S (S (S (length rest)))))) 3); [lia|].
    destruct (N.ltb_spec 3 (N.of_nat (S (S (S (S (length rest))))))); [reflexivity|lia].
  - reflexivity.
Qed.

(* wrong expected counts: ExtractAndSetTransactionCbor returns an error *)
Theorem extract_tx_cbor_mismatch f0 h f1 bodies f2 wits aux rest nb nw :
  let b := Arr f0 (h :: Arr f1 bodies :: Arr f2 wits :: aux :: rest) in
  wf b -> size_ok b -> nb <> length bodies \/ nw <> length wits ->
  extract_tx_cbor (enc b) nb nw = None.
Proof.
  intros b Hw Hsz Hne. set (xs := h :: Arr f1 bodies :: Arr f2 wits :: aux :: rest) in *.
  assert (Hall : Forall wf xs) by (apply wf_arr in Hw; apply Hw).
  assert (Hwh : wf h) by (inversion Hall; assumption).
  assert (HwB1 : wf (Arr f1 bodies)) by (apply (wf_children f0 xs 1 _ Hw); reflexivity).
  assert (HwB2 : wf (Arr f2 wits)) by (apply (wf_children f0 xs 2 _ Hw); reflexivity).
  assert (Hwa : wf aux) by (apply (wf_children f0 xs 3 _ Hw); reflexivity).
  assert (C0 : count_ok xs) by (apply (size_ok_arr f0 xs Hw Hsz)).
  assert (L1 : located (enc b) (child_off f0 xs 1) (Arr f1 bodies)) by (apply (located_arr_child _ 0 f0 xs 1); [apply located_self|reflexivity]).
  assert (L2 : located (enc b) (child_off f0 xs 2) (Arr f2 wits)) by (apply (located_arr_child _ 0 f0 xs 2); [apply located_self|reflexivity]).
  assert (C1 : count_ok bodies) by (apply (size_ok_arr f1 bodies HwB1); eapply size_ok_located; eauto).
  assert (C2 : count_ok wits) by (apply (size_ok_arr f2 wits HwB2); eapply size_ok_located; eauto).
  unfold extract_tx_cbor, cbor_array_info.
  assert (E1 : cbor_info 4 (enc b) = (Some (cnt_of f0 xs), hdr_size f0, is_indef f0))
    by (rewrite <- (app_nil_r (enc _)); apply cbor_info_arr; assumption).
  assert (E2 : skipn (hdr_size f0) (enc b) = flat_map enc xs ++ trailer_bytes f0 ++ [])
    by (rewrite <- (app_nil_r (enc _)) at 1; apply arr_after_header; assumption).
  rewrite E1, E2.
  change (flat_map enc xs) with (enc h ++ enc (Arr f1 bodies) ++ enc (Arr f2 wits) ++ enc aux ++ flat_map enc rest).
  rewrite <- !app_assoc.
  rewrite sd_skip_enc by exact Hwh. rewrite sd_skip_enc by exact HwB1. rewrite sd_skip_enc by exact HwB2.
  rewrite !firstn_enc.
  assert (EN : (negb (is_indef f0) && (cnt_of f0 xs <? 3)%N) = false).
  { destruct f0; cbn [is_indef cnt_of negb andb]; [|reflexivity]. unfold xs. cbn [length].
    destruct (N.ltb_spec (N.of_nat (S (S (S (S (length rest)))))) 3); [lia|reflexivity]. }
  rewrite EN.
  destruct (Nat.eq_dec nb (length bodies)) as [->|Hb].
  - rewrite (set_array_items_enc f1 bodies HwB1 C1).
    destruct Hne as [Hne|Hne]; [congruence|]. rewrite (set_array_items_mismatch f2 wits nw HwB2 C2 Hne). reflexivity.
  - rewrite (set_array_items_mismatch f1 bodies nb HwB1 C1 Hb). reflexivity.
Qed.

(* standalone transaction: stored bytes are the input item and its first two children *)
Theorem decode_tx_enc exact n f body w rest trail :
  let t := Arr f (body :: w :: rest) in
  wf t -> (exact = true -> n = S (S (length rest))) -> (exact = false -> n <= S (S (length rest))) ->
  decode_tx exact n (enc t ++ trail) = Some (enc t, enc body, enc w).
Proof.
  intros t Hw Hn Hn'. subst t. unfold decode_tx. rewrite parse_full_enc by exact Hw. rewrite consumed_app, firstn_enc.
  rewrite dec_raw_list_enc0 by exact Hw. cbn [map]. rewrite map_length.
  destruct exact.
  - rewrite (Hn eq_refl), Nat.eqb_refl. reflexivity.
  - specialize (Hn' eq_refl). destruct (Nat.leb_spec n (S (S (length rest)))); [reflexivity|lia].
Qed.
