(* C01 - property theorems only. *)
From Coq Require Import String.
From V Require Import Lib.Base Lib.Cbor Lib.CborParse Lib.CborSpan Lib.CborProofs
  C07.Model C07.Basics C07.Walkers C01.Model C01.Gen C01.Proofs C01.Store.
Local Open Scope nat_scope.

(* C01_stored_bytes: for a Shelley..Conway block
   b = [header, [body_0 ..], [witness_set_0 ..], aux, ...] with ANY header
   form (1/2/3/5/9-byte length or indefinite) on the block array, the two
   inner arrays and everything nested inside, ExtractAndSetTransactionCbor
   hands the setters, for every i, byte for byte the encoding of body_i /
   witness_set_i / the auxiliary-data element as it occurs in the input ... *)
Theorem C01_stored_bytes : forall f0 h f1 bodies f2 wits aux rest,
  let b := Arr f0 (h :: Arr f1 bodies :: Arr f2 wits :: aux :: rest) in
  wf b -> size_ok b ->
  extract_tx_cbor (enc b) (length bodies) (length wits) =
    Some (Some (map enc bodies, map enc wits, Some (enc aux))).
Proof. exact extract_tx_cbor_enc. Qed.
Print Assumptions C01_stored_bytes.

(* ... which is the slice of the input at the component's true span *)
Theorem C01_stored_at_span : forall f0 h f1 bodies f2 wits aux rest i body,
  let xs := h :: Arr f1 bodies :: Arr f2 wits :: aux :: rest in
  nth_error bodies i = Some body ->
  slice (child_off f0 xs 1 + child_off f1 bodies i) (length (enc body)) (enc (Arr f0 xs)) = enc body.
Proof.
  intros f0 h f1 bodies f2 wits aux rest i body xs H. apply located_slice.
  apply (located_arr_child _ _ f1 bodies i body); [|exact H].
  apply (located_arr_child _ 0 f0 xs 1); [apply located_self|reflexivity].
Qed.

(* wrong expected counts (a block whose body / witness arrays do not have the
   lengths the struct decoder found) are an error for every header form, never
   a silent shift of which bytes go to which transaction *)
Theorem C01_count_mismatch : forall f0 h f1 bodies f2 wits aux rest nb nw,
  let b := Arr f0 (h :: Arr f1 bodies :: Arr f2 wits :: aux :: rest) in
  wf b -> size_ok b -> nb <> length bodies \/ nw <> length wits ->
  extract_tx_cbor (enc b) nb nw = None.
Proof. exact extract_tx_cbor_mismatch. Qed.
Print Assumptions C01_count_mismatch.

(* C01_tx_stored: a standalone transaction [body, witness_set, ...] of n
   components in ANY header form, followed by anything: the stored encodings of
   the transaction, its body and its witness set are the input item and the
   slices at the true spans of its first two children *)
Theorem C01_tx_stored : forall exact n f body w rest (trail : bytes),
  let t := Arr f (body :: w :: rest) in
  wf t -> (exact = true -> n = S (S (length rest))) -> (exact = false -> n <= S (S (length rest))) ->
  decode_tx exact n (enc t ++ trail)%list = Some (enc t, enc body, enc w) /\
  slice 0 (length (enc t)) (enc t ++ trail)%list = enc t /\
  slice (child_off f (body :: w :: rest) 0) (length (enc body)) (enc t) = enc body /\
  slice (child_off f (body :: w :: rest) 1) (length (enc w)) (enc t) = enc w.
Proof.
  intros exact n f body w rest trail t Hw Hn Hn'. split; [apply decode_tx_enc; assumption|]. split.
  - apply (slice_app [] (enc t) trail).
  - split; apply located_slice; apply (located_arr_child _ 0 f _ _ _ (located_self _)); reflexivity.
Qed.
Print Assumptions C01_tx_stored.

(* C01_hash_binds: identifiers are the hash of exactly those bytes, for every hash function *)
Section hash.
  Variable H : bytes -> bytes.
  (* TransactionBodyBase.Id = Blake2b256Hash(Cbor()); <Era>BlockHeader.Hash = Blake2b256Hash(Cbor()) *)
  Definition tx_id (stored_body : bytes) : bytes := H stored_body.
  Definition header_hash (stored_header : bytes) : bytes := H stored_header.

  Theorem C01_hash_binds : forall f0 h f1 bodies f2 wits aux rest bs ws m i sb body,
    let xs := h :: Arr f1 bodies :: Arr f2 wits :: aux :: rest in
    let b := Arr f0 xs in
    wf b -> size_ok b ->
    extract_tx_cbor (enc b) (length bodies) (length wits) = Some (Some (bs, ws, m)) ->
    nth_error bs i = Some sb -> nth_error bodies i = Some body ->
    tx_id sb = H (slice (child_off f0 xs 1 + child_off f1 bodies i) (length (enc body)) (enc b)) /\
    header_hash (enc h) = H (slice (child_off f0 xs 0) (length (enc h)) (enc b)).
  Proof.
    intros f0 h f1 bodies f2 wits aux rest bs ws m i sb body xs b Hw Hs E Hsb Hb.
    unfold b, xs in E. rewrite (extract_tx_cbor_enc f0 h f1 bodies f2 wits aux rest Hw Hs) in E.
    injection E as <- <- <-. rewrite nth_error_map, Hb in Hsb. injection Hsb as <-.
    split; unfold tx_id, header_hash; f_equal; symmetry.
    - apply C01_stored_at_span. exact Hb.
    - apply located_slice. apply (located_arr_child _ 0 f0 xs 0); [apply located_self|reflexivity].
  Qed.
End hash.
Print Assumptions C01_hash_binds.

(* C01_reserialise over the generated table of all types that embed
   DecodeStoreCbor: every wire type (block, header, transaction, body, witness
   set, output) has a MarshalCBOR that returns the stored bytes first - except
   the listed types that have no MarshalCBOR at all (known finding); a listed
   type that grows a re-encoding MarshalCBOR, or any other wire type that does
   not return the stored bytes, makes this fail and names the type. *)
Theorem C01_reserialise_partial : offending entry_ok store_types = [].
Proof. vm_compute. reflexivity. Qed.

Theorem C01_reserialise_partial_forall : forall e, In e store_types -> entry_ok e = true.
Proof.
  intros e Hin. assert (H : forallb entry_ok store_types = true) by (vm_compute; reflexivity).
  rewrite forallb_forall in H. apply H. exact Hin.
Qed.

(* the strict statement (no exceptions): its offenders are exactly types of the
   explicit list; after fixes/C01-marshalcbor-wire-types.patch there are none
   (the list can then be emptied and the known finding dropped) *)
Theorem C01_reserialise_strict_offenders_listed : forall e, In e store_types -> entry_strict e = false -> is_known e = true.
Proof.
  intros e Hin Hs. assert (H : forallb (fun e => entry_strict e || is_known e) store_types = true) by (vm_compute; reflexivity).
  rewrite forallb_forall in H. specialize (H e Hin). rewrite Hs in H. exact H.
Qed.

(* the four output types repaired by fixes/C01-output-marshal-stored-bytes.patch are in the strict part *)
Theorem C01_outputs_return_stored : forall t, In t ["ShelleyTransactionOutput"; "MaryTransactionOutput"; "AlonzoTransactionOutput"; "BabbageTransactionOutput"]%string ->
  exists p, In (p, t, 1%N, true) store_types.
Proof.
  intros t H. cbn [In] in H. destruct H as [<-|[<-|[<-|[<-|[]]]]]; eexists; vm_compute; tauto.
Qed.
Print Assumptions C01_reserialise_partial.

(* non-vacuity: a block with a 2-byte outer header and indefinite inner arrays *)
Example C01_nonvacuous :
  let b := Arr (Some F1) [UInt Fimm 0; Arr None [Map (Some F1) [(UInt F2 2, UInt F4 5)]]; Arr (Some F2) [Map None []]; Map (Some Fimm) []; Arr None []] in
  wf b /\ size_ok b /\
  extract_tx_cbor (enc b) 1 1 = Some (Some ([enc (Map (Some F1) [(UInt F2 2, UInt F4 5)])], [enc (Map None [])], Some (enc (Map (Some Fimm) [])))).
Proof. split; [vm_compute; repeat split; repeat constructor|]. split; [vm_compute; discriminate|vm_compute; reflexivity]. Qed.

(* C01_retained_stable: HISTORIES.  In the allocate-only store model of
   SetCbor / SetCborReference (C01.Store, reuse = false = the code as it is),
   whatever a decode into a receiver hands out - the reference to the whole
   object and the references to its children at their spans - reads as the
   input of THAT decode and its slices at those spans, immediately and after
   ANY further sequence of decodes (of anything, of any size) into the same
   receiver: earlier objects keep their wire bytes. *)
Theorem C01_retained_stable : forall h own d spans later,
  let '(st, refs) := decode_into false (h, own) d spans in
  Forall2 (fun r want => read (fst (run false st later)) r = Some want)
          refs (d :: map (fun s => slice (fst s) (snd s) d) spans).
Proof.
  intros h own d spans later. pose proof (decode_reads h own d spans) as H.
  destruct (decode_into false (h, own) d spans) as [[h' own'] refs]. cbn [fst] in *.
  induction H as [|r want refs wants [Hr Hlt] _ IH]; constructor; [|exact IH].
  destruct (run_stable later h' own' r Hlt) as [E _]. etransitivity; [exact E|exact Hr].
Qed.
Print Assumptions C01_retained_stable.

(* ... and this is what an in-place SetCbor (reuse the receiver's buffer when the next
   encoding fits: seeded/C01-b-setcbor-buffer-reuse) breaks: the body reference kept
   from the first decode reads a byte of the second input *)
Theorem C01_retained_reuse_refuted :
  let '(op1, op2) := reuse_witness in
  let '(st, refs) := decode_into true ([], None) (fst op1) (snd op1) in
  exists r, nth_error refs 1 = Some r /\
    read (fst st) r = Some [1%N] /\ read (fst (run true st [op2])) r = Some [9%N] /\
    (* the code as it is, same history *)
    let '(st', refs') := decode_into false ([], None) (fst op1) (snd op1) in
    exists r', nth_error refs' 1 = Some r' /\ read (fst (run false st' [op2])) r' = Some [1%N].
Proof. vm_compute. eexists. repeat split. eexists. split; reflexivity. Qed.

(* C01_input_overwrite_stable: the CALLER's buffer.  A decode reads its input out
   of the caller's buffer c; whatever it hands out (the object and its children
   at their spans) reads as that input and its slices, and keeps doing so after
   the caller overwrites or re-uses c any number of times with anything
   (the code as it is: cbor.Decode streams the input through a private buffer) *)
Theorem C01_input_overwrite_stable : forall h c data spans vs, nth_error h c = Some data ->
  let '(h', refs) := decode_from false h c spans in
  Forall2 (fun r want => read (scribble h' c vs) r = Some want)
          refs (data :: map (fun s => slice (fst s) (snd s) data) spans).
Proof.
  intros h c data spans vs Hc. pose proof (decode_from_reads h c data spans Hc) as H.
  destruct (decode_from false h c spans) as [h' refs].
  induction H as [|r want refs wants [Hr Hne] _ IH]; constructor; [|exact IH].
  rewrite read_scribble_other by exact Hne. exact Hr.
Qed.
Print Assumptions C01_input_overwrite_stable.

(* ... and decoding in place (seeded/C01-c-decode-in-place-aliases-input) breaks it: the body
   reference reads a byte the caller wrote afterwards *)
Theorem C01_input_inplace_refuted :
  let '(data, spans, next) := inplace_witness in
  let '(h1, refs1) := decode_from true [data] 0 spans in
  exists r, nth_error refs1 1 = Some r /\ read h1 r = Some [1%N] /\ read (scribble h1 0 [next]) r = Some [9%N] /\
    let '(h2, refs2) := decode_from false [data] 0 spans in
    exists r', nth_error refs2 1 = Some r' /\ read (scribble h2 0 [next]) r' = Some [1%N].
Proof. vm_compute. eexists. repeat split. eexists. split; reflexivity. Qed.
