(* C01 - decoded blocks and transactions keep their exact wire bytes.
   Model of ledger/common/common.go ExtractAndSetTransactionCbor /
   setArrayItemCbor / cborArrayInfo over bytes (the header helper, the stream
   decoder and the loop skeleton are the ones of C07/Model.v), and of the
   DecodeStoreCbor contract.  NO proofs in this file.

   fxamacker hands `UnmarshalCBOR(data)` exactly the bytes of the item being
   decoded; SetCbor / SetCborReference store them; Cbor() returns them.  For
   the model parser this is Lib.parse_full_sound; for fxamacker it is what
   the correspondence run checks (stored bytes = slice at the span found by
   an independent walker). *)
From Coq Require Import String.
From V Require Import Lib.Base Lib.Cbor Lib.CborParse C07.Model.
Local Open Scope N_scope.

(* setArrayItemCbor: the byte strings handed to setItemCbor(i, .), or None
   for an error return.  `rest` is arrayData[headerSize+pos:], so
   arrayData[itemStart:itemStart+itemLen] is its first itemLen bytes.
   (A failing Skip cannot be told from a short array here: both are errors
   unless exactly expectedCount items were read before; the block has been
   decoded as a whole before this runs, so Skip does not fail.) *)
Definition item_step (hs pos : nat) (rest : bytes) : step_res bytes :=
  match sd_skip rest with
  | Some (len, r) => Next [firstn len rest] len r
  | None => Abort
  end.

Definition set_array_items (arr : bytes) (expected : nat) : option (list bytes) :=
  match cbor_array_info arr with
  | (None, _, false) => None                                       (* invalid CBOR array *)
  | (oc, hs, indef) =>
      let cnt := match oc with Some c => c | None => 0 end in
      if negb indef && negb (cnt =? N.of_nat expected) then None   (* item count mismatch *)
      else
        let l := scan (item_step hs) (S (length arr)) indef cnt 0%nat (skipn hs arr) in
        if Nat.eqb (length l) expected then Some l else None       (* itemIndex != expectedCount / >= expectedCount *)
  end.

(* ExtractAndSetTransactionCbor(cborData, setBody, setWitness, setMetadata, expectedBodies, expectedWitnesses):
   None = error; Some None = "block doesn't have separated components";
   Some (Some (bodies, witness sets, metadata)) = what the setters receive *)
Definition extract_tx_cbor (data : bytes) (nb nw : nat) : option (option (list bytes * list bytes * option bytes)) :=
  match cbor_array_info data with
  | (None, _, false) => None
  | (oc, hs, indef) =>
      let cnt := match oc with Some c => c | None => 0 end in
      if negb indef && (cnt <? 3) then Some None
      else
        match sd_skip (skipn hs data) with                          (* Skip(): block header *)
        | None => None
        | Some (_, r1) =>
          match sd_skip r1 with                                     (* DecodeRaw: tx bodies *)
          | None => None
          | Some (lb, r2) =>
            match sd_skip r2 with                                   (* DecodeRaw: witness sets *)
            | None => None
            | Some (lw, r3) =>
                let meta := if indef || (3 <? cnt)
                            then match sd_skip r3 with Some (lm, _) => Some (firstn lm r3) | None => None end
                            else None in
                match set_array_items (firstn lb r1) nb with
                | None => None
                | Some bs =>
                    match set_array_items (firstn lw r2) nw with
                    | None => None
                    | Some ws => Some (Some (bs, ws, meta))
                    end
                end
            end
          end
        end
  end.

(* ---- standalone transactions: New<Era>TransactionFromCbor ------------------
   cbor.Decode(data, &tx) hands <Era>Transaction.UnmarshalCBOR the bytes of
   the first item; UnmarshalCBOR decodes []RawMessage, checks the number of
   components (`exact` = true: len != n is an error, as Alonzo..Conway with
   n = 4; false: len < n is an error, as Shelley..Mary with n = 3), decodes
   txArray[0] into the body and txArray[1] into the witness set (each of
   which stores the bytes it is handed) and finally SetCbor(cborData).
   Result: stored transaction / body / witness-set bytes (the era-specific
   field decoding is abstracted: this is the accept case). *)
Definition decode_tx (exact : bool) (n : nat) (data : bytes) : option (bytes * bytes * bytes) :=
  match parse_full data with
  | Ok _ rest =>
      let item := firstn (consumed data rest) data in
      match dec_raw_list item with
      | Some (b :: w :: r, _) =>
          let len := S (S (length r)) in
          if (if exact then Nat.eqb len n else Nat.leb n len) then Some (item, b, w) else None
      | _ => None
      end
  | _ => None
  end.

(* ---- re-serialisation table (C01/Gen.v is generated from the Go source) ---- *)
(* wire types known to re-encode because they have no MarshalCBOR method at
   all (proposed known finding "reencode-no-marshalcbor:" + type) *)
Local Open Scope string_scope.
(* empty since fix commit bc9dc7f added the stored-bytes-first MarshalCBOR to the 19 types that were listed here *)
Definition known_reencoders : list (string * string) := [].

Definition entry := (string * string * N * bool)%type.
Definition is_known (e : entry) : bool :=
  let '(p, t, _, _) := e in existsb (fun k => String.eqb (fst k) p && String.eqb (snd k) t) known_reencoders.
(* a wire type is fine when its MarshalCBOR returns the stored bytes first;
   a listed type must be of class 0 (no method), never "has a method that re-encodes" *)
Definition entry_ok (e : entry) : bool :=
  let '(_, _, cls, wire) := e in
  negb wire || (cls =? 1)%N || (is_known e && (cls =? 0)%N).
Definition entry_strict (e : entry) : bool := let '(_, _, cls, wire) := e in negb wire || (cls =? 1)%N.
Definition offending (chk : entry -> bool) (t : list entry) : list (string * string) :=
  map (fun e => let '(p, ty, _, _) := e in (p, ty)) (filter (fun e => negb (chk e)) t).

(* ---- correspondence: block bytes, expected counts, what the setters received ---- *)
Definition case := (bytes * N * N * option (option (list bytes * list bytes * option bytes)))%type.
Definition obs_eqb (a b : option (option (list bytes * list bytes * option bytes))) : bool :=
  match a, b with
  | None, None => true
  | Some None, Some None => true
  | Some (Some (b1, w1, m1)), Some (Some (b2, w2, m2)) =>
      list_eqb bytes_eqb b1 b2 && list_eqb bytes_eqb w1 w2 && opt_eqb bytes_eqb m1 m2
  | _, _ => false
  end.
Definition check_case (c : case) : bool :=
  let '(data, nb, nw, obs) := c in obs_eqb (extract_tx_cbor data (N.to_nat nb) (N.to_nat nw)) obs.
Definition mismatches := failing check_case.

(* standalone transactions: exact, n, input, observed stored (tx, body, witness set) bytes *)
Definition txcase := (bool * N * bytes * option (bytes * bytes * bytes))%type.
Definition check_txcase (c : txcase) : bool :=
  let '(exact, n, data, obs) := c in
  match decode_tx exact (N.to_nat n) data, obs with
  | Some (t, b, w), Some (t', b', w') => bytes_eqb t t' && bytes_eqb b b' && bytes_eqb w w'
  | None, None => true
  | _, _ => false
  end.
Definition tx_mismatches := failing check_txcase.
