(* C35 - property theorems only. *)
From V Require Import Lib.Base Lib.HTerm C35.Model C35.Proofs.

(* The Go function is total on every list and returns the reference tree;
   the reference tree is unique (leaves tagged 0, branches tagged 1, split at
   the power of two p with p < n <= 2p, i.e. the largest one strictly below
   n; empty list = hash of the empty string). *)
Theorem C35_merkle_root_reference :
  forall items, exists t, merkle_root items = Some t /\ RefRoot items t
                          /\ forall t', RefRoot items t' -> t' = t.
Proof.
  intros items. destruct (merkle_root_ref items) as (t & E & R).
  exists t. repeat split; auto. intros t' R'. eapply RefRoot_fun; eauto.
Qed.
Print Assumptions C35_merkle_root_reference.

Theorem C35_split : forall n, 2 <= n ->
  is_pow2 (largest_pow2_below n) /\ largest_pow2_below n < n <= 2 * largest_pow2_below n.
Proof. exact largest_pow2_below_spec. Qed.
Print Assumptions C35_split.

Theorem C35_digest_empty : forall H, root_digest H [] = Some (H 0%N []).
Proof. exact root_empty. Qed.
Theorem C35_digest_leaf : forall H x, root_digest H [x] = Some (H 0%N (0%N :: x)).
Proof. exact root_single. Qed.
Print Assumptions C35_digest_leaf.

(* non-vacuity: a 5-item list (split 4+1) has a reference tree *)
Example C35_nonvacuous : exists t, RefRoot [[1%N];[2%N];[3%N];[4%N];[5%N]] t.
Proof. destruct (merkle_root_ref [[1%N];[2%N];[3%N];[4%N];[5%N]]) as (t & _ & R). eauto. Qed.
