From Coq Require Import String.
From V Require Import Lib.Base Lib.Hex Lib.HTerm C35.Model.

(* ---- reference construction (Cardano.Chain.Common.Merkle), as a relation ---- *)
Definition is_pow2 (p : nat) : Prop := exists k, p = 2 ^ k.

Inductive RefNode : list bytes -> hterm -> Prop :=
| RefLeaf x : RefNode [x] (leaf x)
| RefBranch xs p l r :
    2 <= length xs -> is_pow2 p -> p < length xs <= 2 * p ->
    RefNode (firstn p xs) l -> RefNode (skipn p xs) r ->
    RefNode xs (branch l r).

Inductive RefRoot : list bytes -> hterm -> Prop :=
| RefEmpty : RefRoot [] (HH 0 [])
| RefNonEmpty xs t : xs <> [] -> RefNode xs t -> RefRoot xs t.

(* ---- the split point ---- *)
Lemma lp2b_loop_spec fuel : forall power n k,
  power = 2 ^ k -> power < n -> n <= power + fuel ->
  let p := lp2b_loop fuel power n in is_pow2 p /\ p < n <= 2 * p.
Proof.
  induction fuel as [|f IH]; intros power n k Hp Hlt Hfuel; cbn [lp2b_loop].
  - lia.
  - destruct (Nat.ltb_spec (power * 2) n) as [Hlt2|Hge].
    + apply (IH (power * 2) n (S k)).
      * rewrite Hp. cbn [Nat.pow]. lia.
      * exact Hlt2.
      * lia.
    + split; [exists k; exact Hp|lia].
Qed.

Lemma largest_pow2_below_spec n : 2 <= n ->
  let p := largest_pow2_below n in is_pow2 p /\ p < n <= 2 * p.
Proof.
  intros Hn. unfold largest_pow2_below.
  apply (lp2b_loop_spec n 1 n 0); cbn; lia.
Qed.

Lemma pow2_split_unique n p q :
  is_pow2 p -> is_pow2 q -> p < n <= 2 * p -> q < n <= 2 * q -> p = q.
Proof.
  intros [a ->] [b ->] Ha Hb.
  destruct (Nat.lt_trichotomy a b) as [Hab|[->|Hab]]; [|reflexivity|].
  - assert (2 ^ (S a) <= 2 ^ b) by (apply Nat.pow_le_mono_r; lia).
    cbn [Nat.pow] in *. lia.
  - assert (2 ^ (S b) <= 2 ^ a) by (apply Nat.pow_le_mono_r; lia).
    cbn [Nat.pow] in *. lia.
Qed.

(* ---- the Go function computes the reference tree ---- *)
Lemma merkle_node_ref fuel : forall items,
  items <> [] -> length items <= fuel ->
  exists t, merkle_node fuel items = Some t /\ RefNode items t.
Proof.
  induction fuel as [|f IH]; intros items Hne Hlen.
  - destruct items; [congruence|cbn in Hlen; lia].
  - destruct items as [|x [|y r]]; [congruence| |].
    + eexists; split; [reflexivity|constructor].
    + set (xs := x :: y :: r) in *.
      assert (Hn : 2 <= length xs) by (cbn; lia).
      destruct (largest_pow2_below_spec (length xs) Hn) as [Hp2 Hrange].
      set (p := largest_pow2_below (length xs)) in *.
      assert (Hp1 : 1 <= p) by (destruct Hp2 as [k ->]; clear; induction k; cbn; lia).
      destruct (IH (firstn p xs)) as (l & El & Rl).
      { intros E. apply (f_equal (@length _)) in E. rewrite firstn_length in E. cbn [length] in E. lia. }
      { rewrite firstn_length. lia. }
      destruct (IH (skipn p xs)) as (rr & Er & Rr).
      { intros E. apply (f_equal (@length _)) in E. rewrite skipn_length in E. cbn [length] in E. lia. }
      { rewrite skipn_length. lia. }
      exists (branch l rr). split.
      * change (merkle_node (S f) xs) with
          (match merkle_node f (firstn p xs), merkle_node f (skipn p xs) with
           | Some l, Some r => Some (branch l r) | _, _ => None end).
        rewrite El, Er. reflexivity.
      * eapply RefBranch; eauto.
Qed.

Lemma merkle_root_ref items : exists t, merkle_root items = Some t /\ RefRoot items t.
Proof.
  destruct items as [|x r].
  - eexists; split; [reflexivity|constructor].
  - destruct (merkle_node_ref (length (x :: r)) (x :: r)) as (t & E & R); [congruence|lia|].
    exists t. split; [exact E|]. constructor; [congruence|exact R].
Qed.

(* the reference relation is functional: there is exactly one reference tree *)
Lemma RefNode_fun xs t : RefNode xs t -> forall t', RefNode xs t' -> t = t'.
Proof.
  induction 1 as [x|xs p l r Hn Hp Hr H1 IH1 H2 IH2]; intros t' H'.
  - inversion H' as [|? ? ? ? Hn' ? ? ? ?]; subst; [reflexivity|cbn in Hn'; lia].
  - inversion H' as [x' E|xs' q l' r' Hn' Hq Hr' H1' H2']; subst.
    + cbn in Hn. lia.
    + assert (p = q) by (eapply pow2_split_unique; eauto). subst q.
      rewrite (IH1 _ H1'), (IH2 _ H2'). reflexivity.
Qed.

Lemma RefRoot_fun xs t t' : RefRoot xs t -> RefRoot xs t' -> t = t'.
Proof.
  intros H H'. destruct H; inversion H'; subst; try congruence.
  eapply RefNode_fun; eauto.
Qed.

Theorem merkle_root_is_reference items t :
  RefRoot items t -> merkle_root items = Some t.
Proof.
  intros R. destruct (merkle_root_ref items) as (t' & E & R').
  rewrite (RefRoot_fun _ _ _ R R'). exact E.
Qed.

(* leaves are tagged 0, branches 1, the empty list hashes the empty string:
   stated on evaluated digests for an arbitrary hash function *)
Section digests.
  Variable H : N -> bytes -> bytes.
  Definition root_digest (items : list bytes) : option bytes :=
    option_map (heval H) (merkle_root items).
  Lemma root_empty : root_digest [] = Some (H 0 []).
  Proof. reflexivity. Qed.
  Lemma root_single x : root_digest [x] = Some (H 0 (0%N :: x)).
  Proof. unfold root_digest. cbn. rewrite app_nil_r. reflexivity. Qed.
End digests.
