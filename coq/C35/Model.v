(* C35 - Byron merkle root.  Line-by-line model of ledger/byron/merkle.go.
   Digests stay symbolic (Lib/HTerm): alg 0 = Blake2b-256. *)
From Coq Require Import String.
From V Require Import Lib.Base Lib.Hex Lib.HTerm.

(* func largestPowerOfTwoBelow(n int) int { power := 1; for power*2 < n { power *= 2 }; return power } *)
Fixpoint lp2b_loop (fuel power n : nat) : nat :=
  match fuel with
  | O => power
  | S f => if Nat.ltb (power * 2) n then lp2b_loop f (power * 2) n else power
  end.
Definition largest_pow2_below (n : nat) : nat := lp2b_loop n 1 n.

Definition leaf (x : bytes) : hterm := HH 0 [HB (0%N :: x)].
Definition branch (l r : hterm) : hterm := HH 0 [HB [1%N]; l; r].

(* merkleNode; None = the Go code would index out of range (empty slice) or
   the fuel ran out - excluded by the theorems *)
Fixpoint merkle_node (fuel : nat) (items : list bytes) : option hterm :=
  match fuel with
  | O => None
  | S f =>
    match items with
    | [] => None
    | [x] => Some (leaf x)
    | _ =>
      let split := largest_pow2_below (length items) in
      match merkle_node f (firstn split items), merkle_node f (skipn split items) with
      | Some l, Some r => Some (branch l r)
      | _, _ => None
      end
    end
  end.

Definition merkle_root (items : list bytes) : option hterm :=
  match items with
  | [] => Some (HH 0 [])
  | _ => merkle_node (length items) items
  end.

(* correspondence: one case = an item list; the output is the serialised
   hash term, evaluated and compared by the harness *)
Definition case := list bytes.
Definition out_of (c : case) : string :=
  match merkle_root c with Some t => hser t | None => "PANIC"%string end.
Definition model_outs (cs : list case) : list string := map out_of cs.
