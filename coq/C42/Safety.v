(* C42/C43 - the safety theorems, assembled from the invariants. *)
From V Require Import Lib.Base C42.Model C42.Tac C42.InvB C42.InvO C42.InvS.
From Coq Require Import Sorted.

Definition good (c : cfg) (i : nat) : bool := dec_ok c i && (negb (von c) || val_ok c i).

(* C42: order, once, only good *)
Lemma applied_sorted c s : reach c s -> StronglySorted lt (applied s).
Proof. intros R. apply (reach_InvO c s R). Qed.

Lemma applied_good c s j : reach c s -> In j (applied s) -> good c j = true.
Proof.
  intros R H. destruct (reach_InvG c s R) as (_ & _ & _ & _ & _ & G6). destruct (G6 j H) as (A & B).
  unfold good. rewrite A. cbn [andb]. destruct (von c); cbn [negb orb]; [apply B; reflexivity|reflexivity].
Qed.

Lemma applied_submitted c s j : reach c s -> In j (applied s) -> j < nseq s.
Proof.
  (* applied items are below nexta; nexta <= nseq is shown in Prog.v; here directly *)
  intros R. revert j. induction R as [|s l s' R IH H]; cbn; [contradiction|].
  pose proof (reach_InvB c s R) as HB.
  intros j. destr_step H; bprop; use_lt HB;
  try (match goal with R : rst _ = RFwdDec ?e |- _ => destruct e end; cbn [set_rst set_outst set_sub fwd_next]);
  cbn; intros Hin; try (apply IH in Hin; lia).
  apply in_app_or in Hin. destruct Hin as [Hin|[<-|[]]]; [apply IH; exact Hin|assumption].
Qed.

Lemma fwd_once c s : reach c s -> NoDup (fwdlog s).
Proof. intros R. apply (reach_InvR c s R). Qed.

Lemma never_panics c s : reach c s -> panicked s = false.
Proof. intros R. apply (reach_InvS c s R). Qed.

(* Stop has returned -> all pipeline goroutines have returned *)
Lemma stop_done c s : reach c s -> sphase s = 5 ->
  wexit s 0 = nw c 0 /\ (von c = true -> wexit s 1 = nw c 1) /\ rst s = RExit.
Proof.
  intros R H. destruct (reach_InvS c s R) as (_ & _ & S3 & S4 & S5 & _).
  repeat split; [apply S3; lia|intros; apply S4; [lia|assumption]|apply S5; lia].
Qed.

(* C43 *)
Definition finished (s : state) (i : nat) : Prop := loc s i = LCh 3 \/ loc s i = LDone.

Lemma drained c s : reach c s -> outst s = 0 ->
  (forall i, i < nseq s -> finished s i) /\ tok s = false.
Proof.
  intros R H. pose proof (reach_InvD c s R) as D. pose proof (reach_InvB c s R) as (B1 & B2 & B3 & B4).
  unfold InvD in D. assert (Z : cnt unfinished s = 0) by lia.
  pose proof (cnt_zero_all _ _ Z) as A. split.
  - intros i Hi. specialize (A i ltac:(lia)). destruct (B4 i Hi) as (N1 & N2).
    unfold finished. destruct (loc s i) as [| |[|[|[|[|k]]]]| | | | | | |]; try discriminate; try contradiction; auto.
  - destruct (tok s) eqn:T; [|reflexivity]. specialize (A (nseq s) ltac:(lia)). rewrite B2 in A by reflexivity. discriminate.
Qed.

Lemma finished_step c s l s' i : InvB s -> finished s i -> step c s l = Some s' ->
  finished s' i /\ (applied s' = applied s \/ exists j, applied s' = applied s ++ [j] /\ j <> i).
Proof.
  intros HB F H. pose proof HB as (B1 & B2 & B3 & B4). unfold finished in *.
  assert (Hi : i < nseq s) by (apply (InvB_lt s i HB); destruct F as [F|F]; rewrite F; discriminate).
  destr_step H; bprop; use_lt HB;
  try (match goal with R : rst _ = RFwdDec ?e |- _ => destruct e end; cbn [set_rst set_outst set_sub fwd_next]);
  cbn; (split; [|try (left; reflexivity)]);
  try solve [ assumption | upd_cases; try lia; try assumption; try (destruct F; congruence); try (right; reflexivity) ].
  all: try (upd_cases; [exfalso|assumption]; destruct F as [F|F];
            match goal with L : loc _ _ = LCh ?x |- _ => lazymatch x with 3 => fail | _ => rewrite L in F end end; try discriminate F;
            first [ injection F as ->; unfold stage_ok in *; cbn in *; discriminate
                  | unfold ain in F; destruct (von c); discriminate F ]).
  right. eexists. split; [reflexivity|]. intros ->. destruct F; congruence.
Qed.

Lemma finished_run c : forall ls s s' i, reach c s -> finished s i -> run c s ls = Some s' ->
  finished s' i /\ exists ext, applied s' = applied s ++ ext /\ ~ In i ext.
Proof.
  induction ls as [|l ls IH]; intros s s' i R F H; cbn in H.
  - injection H as <-. split; [exact F|]. exists []. rewrite app_nil_r. auto.
  - destruct (step c s l) as [s1|] eqn:E; [|discriminate].
    destruct (finished_step c s l s1 i (reach_InvB c s R) F E) as (F1 & A).
    destruct (IH s1 s' i (reach_step c s l s1 R E) F1 H) as (F2 & ext & A2 & N). split; [exact F2|].
    destruct A as [A|(j & A & Nj)]; rewrite A in A2.
    + exists ext. auto.
    + exists (j :: ext). rewrite <- app_assoc in A2. split; [exact A2|]. intros [->|X]; [congruence|contradiction].
Qed.

(* whatever sits in resultsChan or was read from it has been sent there *)
Definition InvR2 (s : state) : Prop := forall i, finished s i -> In i (fwdlog s).

Lemma InvR2_step c s l s' : InvB s -> InvS c s -> InvR2 s -> step c s l = Some s' -> InvR2 s'.
Proof.
  intros HB HS P H. unfold InvR2, finished in *. pose proof HB as (B1 & B2 & B3 & B4).
  destr_step H; bprop; use_lt HB;
  try (match goal with R : rst _ = RFwdDec ?e |- _ => destruct e end; cbn [set_rst set_outst set_sub fwd_next]);
  cbn; intros k F; try (apply in_or_app);
  try solve [ auto | upd_cases; try (destruct F; discriminate); auto
            | upd_cases; [right; left; reflexivity|left; auto]
            | upd_cases; [apply P; left; assumption|auto] ].
  upd_cases; [exfalso|auto]. destruct HS as (_ & _ & _ & _ & _ & _ & S7).
  pose proof (S7 _ _ _ H) as K. destruct (stage_ok_cases _ _ K) as [->|(-> & _)]; destruct F; discriminate.
Qed.

Lemma reach_InvR2 c s : reach c s -> InvR2 s.
Proof.
  induction 1; [intros i [F|F]; discriminate F|eapply InvR2_step; eauto using reach_InvB, reach_InvS].
Qed.

Lemma applied_step c s l s' : step c s l = Some s' ->
  applied s' = applied s \/ exists j, applied s' = applied s ++ [j] /\ loc s j = LRCur.
Proof.
  intros H. destr_step H; bprop;
  try (match goal with R : rst _ = RFwdDec ?e |- _ => destruct e end; cbn [set_rst set_outst set_sub fwd_next]);
  cbn; try (left; reflexivity). right. eexists. split; [reflexivity|assumption].
Qed.

Lemma finished_below_run c n : forall ls s s', reach c s -> (forall i, i < n -> finished s i) ->
  run c s ls = Some s' ->
  (forall i, i < n -> finished s' i) /\ exists later, applied s' = applied s ++ later /\ forall j, In j later -> n <= j.
Proof.
  induction ls as [|l ls IH]; intros s s' R F H; cbn in H.
  - injection H as <-. split; [exact F|]. exists []. rewrite app_nil_r. split; [reflexivity|contradiction].
  - destruct (step c s l) as [s1|] eqn:E; [|discriminate].
    assert (F1 : forall i, i < n -> finished s1 i).
    { intros i Hi. apply (finished_step c s l s1 i (reach_InvB c s R) (F i Hi) E). }
    destruct (IH s1 s' (reach_step c s l s1 R E) F1 H) as (F2 & later & A2 & N). split; [exact F2|].
    destruct (applied_step c s l s1 E) as [A|(j & A & Lj)]; rewrite A in A2.
    + exists later. auto.
    + exists (j :: later). rewrite <- app_assoc in A2. split; [exact A2|].
      intros k [<-|X]; [|apply N; exact X].
      destruct (Nat.le_gt_cases n j) as [G|G]; [exact G|exfalso].
      destruct (F j G) as [X|X]; congruence.
Qed.
