(* C42/C43 - invariants that count items: Stop never closes a channel that can
   still be sent on; the outstanding counter equals the number of unfinished items. *)
From V Require Import Lib.Base C42.Model C42.Tac C42.InvB C42.InvO.

(* cnt ignores every field except loc and nseq *)
Lemma cnt_set_rst p s r : cnt p (set_rst s r) = cnt p s. Proof. reflexivity. Qed.
Lemma cnt_set_errs p s r : cnt p (set_errs s r) = cnt p s. Proof. reflexivity. Qed.
Lemma cnt_panic_if p s r : cnt p (panic_if r s) = cnt p s. Proof. reflexivity. Qed.
Lemma cnt_inc_wexit p s r : cnt p (inc_wexit s r) = cnt p s. Proof. reflexivity. Qed.
Lemma cnt_set_cancel p s r : cnt p (set_cancel s r) = cnt p s. Proof. reflexivity. Qed.
Lemma cnt_set_sphase p s r : cnt p (set_sphase s r) = cnt p s. Proof. reflexivity. Qed.
Lemma cnt_set_dst p s i r : cnt p (set_dst s i r) = cnt p s. Proof. reflexivity. Qed.
Lemma cnt_set_vst p s i r : cnt p (set_vst s i r) = cnt p s. Proof. reflexivity. Qed.
Lemma cnt_set_aerr p s i r : cnt p (set_aerr s i r) = cnt p s. Proof. reflexivity. Qed.
Lemma cnt_set_nexta p s r : cnt p (set_nexta s r) = cnt p s. Proof. reflexivity. Qed.
Lemma cnt_push_applied p s r : cnt p (push_applied s r) = cnt p s. Proof. reflexivity. Qed.
Lemma cnt_push_fwd p s r : cnt p (push_fwd s r) = cnt p s. Proof. reflexivity. Qed.
Lemma cnt_set_outst p s r : cnt p (set_outst s r) = cnt p s. Proof. reflexivity. Qed.
Lemma cnt_set_sub_same p s t o : cnt p (set_sub s (nseq s) t o) = cnt p s. Proof. reflexivity. Qed.
Lemma cnt_fwd_next p s : cnt p (fwd_next s) = cnt p s. Proof. reflexivity. Qed.
Lemma cnt_set_sub_loc p s i l t o : cnt p (set_sub (set_loc s i l) (nseq s) t o) = cnt p (set_loc s i l).
Proof. reflexivity. Qed.
Lemma cnt_set_loc_sub p s i l t o : cnt p (set_loc (set_sub s (nseq s) t o) i l) = cnt p (set_loc s i l).
Proof. reflexivity. Qed.
Lemma cnt_sub_ok_eq p s i l t o : i <= nseq s -> p (loc s (S (nseq s))) = false ->
  cnt p (set_sub (set_loc s i l) (S (nseq s)) t o) = cnt p (set_loc s i l).
Proof.
  intros Hi H. pose proof (cnt_grow p (set_loc s i l) t o) as G. cbn [nseq set_loc loc] in G.
  apply G. rewrite upd_other by lia. exact H.
Qed.
#[export] Hint Rewrite cnt_set_sub_loc cnt_set_loc_sub : cntdb.
#[export] Hint Rewrite cnt_set_rst cnt_set_errs cnt_panic_if cnt_inc_wexit cnt_set_cancel cnt_set_sphase
  cnt_set_dst cnt_set_vst cnt_set_aerr cnt_set_nexta cnt_push_applied cnt_push_fwd cnt_set_outst
  cnt_set_sub_same cnt_fwd_next : cntdb.

(* replace every  cnt p (set_loc s i L)  by its value relative to  cnt p s  *)
Ltac cnt_loc :=
  repeat match goal with
  | |- context[cnt ?p (set_loc ?s ?i ?L)] =>
      let E := fresh "E" in
      pose proof (cnt_set_loc p s i L ltac:(lia)) as E;
      generalize dependent (cnt p (set_loc s i L)); intros
  | H : context[cnt ?p (set_loc ?s ?i ?L)] |- _ =>
      let E := fresh "E" in
      pose proof (cnt_set_loc p s i L ltac:(lia)) as E;
      generalize dependent (cnt p (set_loc s i L)); intros
  end.

Lemma stage_ok_cases c st : stage_ok c st = true -> st = 0 \/ (st = 1 /\ von c = true).
Proof. unfold stage_ok. intros H. apply orb_true_iff in H. destruct H; bprop; auto. Qed.

Definition InvS (c : cfg) (s : state) : Prop :=
  panicked s = false
  /\ (tok s = true -> sphase s < 2)
  /\ (3 <= sphase s -> wexit s 0 = nw c 0)
  /\ (4 <= sphase s -> von c = true -> wexit s 1 = nw c 1)
  /\ (5 <= sphase s -> rst s = RExit)
  /\ (forall st, stage_ok c st = true -> cnt (is_held st) s + wexit s st <= nw c st)
  /\ (forall i st p, loc s i = LW st p -> stage_ok c st = true).

Lemma InvS_init c : InvS c init.
Proof.
  repeat split; cbn; intros; try discriminate; try lia.
  cbv. lia.
Qed.

Ltac sproj := cbn [loc dst vst aerr nseq tok outst cancel sphase wexit rst nexta errs applied fwdlog panicked
  set_loc set_dst set_vst set_aerr set_sub set_cancel set_sphase inc_wexit set_rst set_nexta set_errs
  push_applied push_fwd set_outst panic_if fwd_next].
Ltac sproj_in H := cbn [loc dst vst aerr nseq tok outst cancel sphase wexit rst nexta errs applied fwdlog panicked
  set_loc set_dst set_vst set_aerr set_sub set_cancel set_sphase inc_wexit set_rst set_nexta set_errs
  push_applied push_fwd set_outst panic_if fwd_next] in H.

Ltac step_prelude HB H :=
  destr_step H; bprop; use_lt HB;
  try (match goal with R : rst _ = RFwdDec ?e |- _ => destruct e end; cbn [set_rst set_outst set_sub fwd_next]).

Section S.
Variable c : cfg.
Variable s : state.
Hypothesis HB : InvB s.
Hypothesis HS : InvS c s.

Lemma held_lt i st p : loc s i = LW st p -> wexit s st < nw c st /\ stage_ok c st = true.
Proof.
  destruct HS as (S1 & S2 & S3 & S4 & S5 & S6 & S7). intros H.
  pose proof (S7 _ _ _ H) as K. split; [|exact K].
  assert (i < nseq s) by (apply (InvB_lt s i HB); rewrite H; discriminate).
  pose proof (cnt_ge1 (is_held st) s i ltac:(lia)) as G. rewrite H in G. cbn in G. rewrite Nat.eqb_refl in G.
  specialize (G eq_refl). specialize (S6 st K). lia.
Qed.

Lemma no_close_while_held i st p : loc s i = LW st p -> closed s (S st) = false /\ closedE s = false.
Proof.
  intros H. destruct (held_lt _ _ _ H) as (L & K).
  destruct HS as (S1 & S2 & S3 & S4 & S5 & S6 & S7).
  destruct (stage_ok_cases _ _ K) as [->|(-> & V)]; unfold closed, closedE; split; apply Nat.leb_gt.
  - destruct (Nat.le_gt_cases 3 (sphase s)) as [G|G]; [specialize (S3 G); lia|lia].
  - destruct (Nat.le_gt_cases 3 (sphase s)) as [G|G]; [specialize (S3 G); lia|lia].
  - destruct (Nat.le_gt_cases 4 (sphase s)) as [G|G]; [specialize (S4 G V); lia|lia].
  - destruct (Nat.le_gt_cases 4 (sphase s)) as [G|G]; [specialize (S4 G V); lia|lia].
Qed.

Lemma S_panic l s' : step c s l = Some s' -> panicked s' = false.
Proof.
  intros H. pose proof HS as (S1 & S2 & S3 & S4 & S5 & S6 & S7).
  step_prelude HB H; sproj; try assumption; rewrite S1; cbn [orb].
  all: try match goal with L : loc s _ = LW _ _ |- _ => destruct (no_close_while_held _ _ _ L); assumption end.
  all: try (unfold closed, closedE; apply Nat.leb_gt;
            destruct (Nat.le_gt_cases 5 (sphase s)) as [G|G]; [specialize (S5 G); congruence|lia]).
  all: try (unfold closed; apply Nat.leb_gt; specialize (S2 ltac:(assumption)); lia).
  - specialize (S2 H). destruct (sphase s) as [|[|?]]; [reflexivity|reflexivity|lia].
  - destruct (sphase s) as [|[|[|[|[|?]]]]] eqn:P; try reflexivity. specialize (S5 ltac:(lia)). congruence.
Qed.

Lemma S_tok l s' : step c s l = Some s' -> tok s' = true -> sphase s' < 2.
Proof.
  intros H. pose proof HS as (S1 & S2 & S3 & S4 & S5 & S6 & S7).
  step_prelude HB H; sproj; intros; try discriminate; try lia; auto; try congruence;
  try (specialize (S2 ltac:(assumption)); destruct (von c); lia).
Qed.

Lemma S_phase l s' : step c s l = Some s' ->
  (3 <= sphase s' -> wexit s' 0 = nw c 0) /\ (4 <= sphase s' -> von c = true -> wexit s' 1 = nw c 1)
  /\ (5 <= sphase s' -> rst s' = RExit).
Proof.
  intros H. pose proof HS as (S1 & S2 & S3 & S4 & S5 & S6 & S7).
  step_prelude HB H; sproj; (split; [|split]); intros; try lia; auto;
  try (specialize (S5 ltac:(assumption)); congruence);
  try solve [ destruct (von c); try discriminate; try lia; auto ].
  all: try match goal with L : loc s _ = LW ?st _ |- _ =>
         destruct (held_lt _ _ _ L) as (? & K); destruct (stage_ok_cases _ _ K) as [->|(-> & ?)]; upd_cases; try lia; auto;
         try (specialize (S3 ltac:(lia)); lia); try (specialize (S4 ltac:(lia) ltac:(assumption)); lia) end.
  all: destruct (stage_ok_cases _ _ H) as [->|(-> & ?)]; upd_cases; try lia; auto;
       try (specialize (S3 ltac:(lia)); lia); try (specialize (S4 ltac:(lia) ltac:(assumption)); lia).
Qed.

Lemma S_shape l s' : step c s l = Some s' -> forall i st p, loc s' i = LW st p -> stage_ok c st = true.
Proof.
  intros H. pose proof HS as (S1 & S2 & S3 & S4 & S5 & S6 & S7).
  step_prelude HB H; sproj; intros k st' p' L; upd_cases; try discriminate; eauto;
  try (injection L as <- <-); eauto;
  try match goal with L : loc s _ = LW ?st _ |- _ => apply (held_lt _ _ _ L) end.
Qed.

Lemma S_held l s' : step c s l = Some s' ->
  forall st, stage_ok c st = true -> cnt (is_held st) s' + wexit s' st <= nw c st.
Proof.
  intros H st0 K0. pose proof HS as (S1 & S2 & S3 & S4 & S5 & S6 & S7).
  pose proof HB as (B1 & B2 & B3 & B4). specialize (S6 st0 K0).
  step_prelude HB H; autorewrite with cntdb;
  try (rewrite cnt_sub_ok_eq by (try lia; rewrite B1 by lia; reflexivity));
  cnt_loc; sproj;
  repeat match goal with
  | L : loc s ?i = _, E : context[loc s ?i] |- _ => rewrite L in E
  end;
  try (subst; destruct (tok s) eqn:T; [rewrite B2 in * by reflexivity|rewrite B3 in * by reflexivity]);
  cbn [b2n is_held] in *; upd_cases;
  repeat match goal with E : context[?a =? ?b] |- _ => destruct (Nat.eqb_spec a b); try subst; cbn [b2n] in E end;
  try lia.
Qed.
End S.

Lemma InvS_step c s l s' : InvB s -> InvS c s -> step c s l = Some s' -> InvS c s'.
Proof.
  intros HB HS H. destruct (S_phase c s HB HS l s' H) as (A & B & C).
  repeat split; eauto using S_panic, S_tok, S_held, S_shape.
Qed.

Lemma reach_InvS c s : reach c s -> InvS c s.
Proof. induction 1; [apply InvS_init|eapply InvS_step; eauto using reach_InvB]. Qed.

(* ---------------------------------------------------------------------- *)
(* C43: the outstanding counter *)
Definition unfinished (l : location) : bool :=
  match l with LNone | LCh 3 | LDone => false | _ => true end.
Definition fwd_dec_pending (s : state) : nat := match rst s with RFwdDec _ => 1 | _ => 0 end.
Definition InvD (s : state) : Prop := outst s = cnt unfinished s + fwd_dec_pending s.

Lemma InvD_init : InvD init.
Proof. reflexivity. Qed.

Lemma InvD_step c s l s' : InvB s -> InvS c s -> InvD s -> step c s l = Some s' -> InvD s'.
Proof.
  intros HB HS HD H. pose proof HB as (B1 & B2 & B3 & B4). unfold InvD, fwd_dec_pending in *.
  assert (S7 : forall i st p, loc s i = LW st p -> stage_ok c st = true) by apply HS.
  step_prelude HB H;
  try match goal with L : loc s _ = LW ?st _ |- _ =>
        destruct (stage_ok_cases c st (S7 _ _ _ L)) as [->|(-> & ?)] end;
  try match goal with K : stage_ok c ?st = true |- _ =>
        destruct (stage_ok_cases c st K) as [->|(-> & ?)] end;
  unfold ain in *; try destruct (von c) eqn:VON;
  autorewrite with cntdb;
  try (rewrite cnt_sub_ok_eq by (try lia; rewrite B1 by lia; reflexivity));
  cnt_loc; sproj;
  repeat match goal with
  | L : loc s ?i = _, E : context[loc s ?i] |- _ => rewrite L in E
  | L : rst s = _ |- _ => rewrite L in *
  end;
  try (subst; destruct (tok s) eqn:T; [rewrite B2 in * by reflexivity|rewrite B3 in * by reflexivity]);
  cbn [b2n unfinished] in *;
  repeat match goal with |- context[if ?b then _ else _] => destruct b end;
  try lia.
Qed.

Lemma reach_InvD c s : reach c s -> InvD s.
Proof. induction 1; [apply InvD_init|eapply InvD_step; eauto using reach_InvB, reach_InvS]. Qed.
