(* C42/C44 - invariants for the completeness (quiescence) theorem. *)
Set Warnings "-unused-intro-pattern".
From V Require Import Lib.Base C42.Model C42.Tac C42.InvB C42.InvO C42.InvS.

(* without cancellation nothing exits, nothing is dropped, Stop has not begun *)
Definition InvP1 (s : state) : Prop :=
  cancel s = 0 -> sphase s = 0 /\ (forall st, wexit s st = 0) /\ rst s <> RExit /\ (forall i, loc s i <> LDropped).

Lemma InvP1_init : InvP1 init.
Proof. intros _. repeat split; cbn; intros; discriminate. Qed.

Lemma InvP1_step c s l s' : InvB s -> InvP1 s -> step c s l = Some s' -> InvP1 s'.
Proof.
  intros HB P H. unfold InvP1 in *.
  step_prelude HB H; sproj; intros C0; try lia;
  try (destruct (cancel s); discriminate);
  specialize (P ltac:(lia)); destruct P as (P1 & P2 & P3 & P4);
  try (repeat split; auto; try discriminate; try lia;
       try (intros k; upd_cases; try discriminate; auto);
       try (repeat match goal with |- context[if ?b then _ else _] => destruct b end; discriminate); fail).
  all: try congruence.
  all: try (exfalso; match goal with G : (1 <=? cancel _) || _ = true, C0 : cancel _ = 0, P1 : sphase _ = 0 |- _ =>
        rewrite C0 in G; unfold closed in G; rewrite P1 in G; unfold ain in G;
        try match goal with |- context[von ?c] => destruct (von c) end;
        try match type of G with context[von ?c] => destruct (von c) end;
        try match type of G with context[match ?s0 with _ => _ end] => destruct s0 as [|[|[|?]]] end; discriminate G end).
  all: repeat split; auto; try (intros k; upd_cases; try discriminate; auto);
       repeat match goal with |- context[if ?b then _ else _] => destruct b end; try discriminate.
  all: match goal with K : context[if ?b then _ else _] |- _ => destruct b; discriminate K end.
Qed.

Lemma reach_InvP1 c s : reach c s -> InvP1 s.
Proof. induction 1; [apply InvP1_init|eapply InvP1_step; eauto using reach_InvB]. Qed.

(* items the apply stage has passed are below nextSequence, the others at or above *)
Definition post (l : location) : bool :=
  match l with LRCur | LRDone | LDone => true | LCh k => k =? 3 | _ => false end.
Definition pre (l : location) : bool :=
  match l with LW _ _ | LRGot | LPend | LSubmitting => true | LCh k => k <? 3 | _ => false end.

Definition InvP2 (s : state) : Prop :=
  (forall i, post (loc s i) = true -> i < nexta s)
  /\ (forall i, pre (loc s i) = true -> nexta s <= i)
  /\ nexta s <= nseq s.

Lemma InvP2_init : InvP2 init.
Proof. repeat split; cbn; intros; try discriminate; lia. Qed.

Ltac concretize :=
  try match goal with S7 : (forall i st p, loc ?s i = LW st p -> stage_ok ?c st = true), L : loc ?s _ = LW ?st _ |- _ =>
        destruct (stage_ok_cases c st (S7 _ _ _ L)) as [->|(-> & ?)] end;
  try match goal with K : stage_ok ?c ?st = true |- _ =>
        destruct (stage_ok_cases c st K) as [->|(-> & ?)] end;
  unfold ain in *; try match goal with c : cfg |- _ => destruct (von c) eqn:VON end.

Lemma InvP2_step c s l s' : InvB s -> InvS c s -> InvP2 s -> step c s l = Some s' -> InvP2 s'.
Proof.
  intros HB HS (Pa & Pb & Pc) H. pose proof HB as (B1 & B2 & B3 & B4).
  assert (S7 : forall i st p, loc s i = LW st p -> stage_ok c st = true) by apply HS.
  step_prelude HB H; concretize; unfold InvP2; sproj;
  (split; [intros k Hk|split; [intros k Hk|]]); upd_cases; try discriminate; auto;
  try (match goal with L : loc _ ?i = _ |- _ =>
         first [ assert (nexta s <= i) by (apply Pb; rewrite L; reflexivity)
               | assert (i < nexta s) by (apply Pa; rewrite L; reflexivity) ] end);
  try (specialize (Pa _ Hk)); try (specialize (Pb _ Hk)); try lia.
Qed.

Lemma reach_InvP2 c s : reach c s -> InvP2 s.
Proof. induction 1; [apply InvP2_init|eapply InvP2_step; eauto using reach_InvB, reach_InvS]. Qed.

(* the runner never goes back to its receive loop while the next item is buffered *)
Definition InvP3 (s : state) : Prop :=
  rst s <> RApply -> rst s <> RInApply -> rst s <> RPend -> loc s (nexta s) = LPend -> 1 <= cancel s.

Lemma InvP3_init : InvP3 init.
Proof. intros _ _ _ H. discriminate H. Qed.

Lemma InvP3_step c s l s' : InvB s -> InvP3 s -> step c s l = Some s' -> InvP3 s'.
Proof.
  intros HB P H. unfold InvP3 in *.
  step_prelude HB H; sproj; intros N1 N2 N3 L; try congruence;
  repeat match goal with H : context[if ?b then _ else _] |- _ => destruct b end;
  try match goal with R : rst _ = _ |- _ => rewrite R in P end;
  upd_cases; try discriminate; try congruence; try lia;
  try (specialize (P ltac:(discriminate) ltac:(discriminate) ltac:(discriminate) ltac:(assumption)); lia).
  1,2: destruct (cancel s); lia.
  all: bprop; congruence.
Qed.

Lemma reach_InvP3 c s : reach c s -> InvP3 s.
Proof. induction 1; [apply InvP3_init|eapply InvP3_step; eauto using reach_InvB]. Qed.

(* the runner's state and the items it holds agree *)
Definition rdone_ok (r : rstate) : bool :=
  match r with RApply | RInApply | RPend | RFwd | RFwdDec _ | RFwdErr => true | _ => false end.
Definition InvP4 (s : state) : Prop :=
  (rst s = RGot -> exists i, loc s i = LRGot)
  /\ (rst s = RApply \/ rst s = RInApply -> exists j, loc s j = LRCur)
  /\ (rst s = RFwd -> exists i, loc s i = LRDone)
  /\ (forall i, loc s i = LRGot -> rst s = RGot)
  /\ (forall i, loc s i = LRDone -> rdone_ok (rst s) = true)
  /\ (forall i j, loc s i = LRGot -> loc s j = LRGot -> i = j).

Lemma InvP4_init : InvP4 init.
Proof. repeat split; cbn; intros; try discriminate. destruct H; discriminate. Qed.

Lemma fwd_next_rfwd s : rst (fwd_next s) = RFwd -> exists i, loc s i = LRDone.
Proof.
  cbn. destruct (Nat.eqb_spec (cnt is_rdone s) 0) as [E|E]; [discriminate|]. intros _.
  destruct (cnt_pos_ex is_rdone s ltac:(lia)) as (i & _ & Hi). exists i.
  destruct (loc s i); try discriminate. reflexivity.
Qed.

Lemma fwd_next_ok s i : i <= nseq s -> loc s i = LRDone -> rdone_ok (rst (fwd_next s)) = true.
Proof.
  intros HB L. cbn. destruct (Nat.eqb_spec (cnt is_rdone s) 0) as [E|E]; [|reflexivity].
  pose proof (cnt_zero_all _ _ E i ltac:(lia)) as Z. rewrite L in Z. discriminate.
Qed.

Ltac ex_keep :=
  match goal with
  | X : exists _, loc ?s _ = ?L |- exists _, upd (loc ?s) ?i _ _ = ?L =>
      let x := fresh in let Hx := fresh in destruct X as (x & Hx); exists x; rewrite upd_other; [exact Hx|intros ->; congruence]
  | X : exists _, loc ?s _ = ?L |- exists _, loc ?s _ = ?L => exact X
  end.

Lemma InvP4_step c s l s' : InvB s -> InvO s -> InvP4 s -> step c s l = Some s' -> InvP4 s'.
Proof.
  intros HB (_ & _ & O3) (P1 & P2 & P3 & P4 & P5 & P6) H. pose proof HB as (B1 & B2 & B3 & B4).
  step_prelude HB H; unfold InvP4; try subst;
  try match goal with R : rst s = _ |- _ => rewrite R in * end;
  (split; [|split; [|split; [|split; [|split]]]]).
  all: cbn [loc dst vst aerr nseq tok outst cancel sphase wexit rst nexta errs applied fwdlog panicked
    set_loc set_dst set_vst set_aerr set_sub set_cancel set_sphase inc_wexit set_rst set_nexta set_errs
    push_applied push_fwd set_outst panic_if].
  all: try solve
  [ assumption
  | intros R; try destruct R as [R|R]; discriminate R
  | intros R; cbn in R; repeat match type of R with context[if ?b then _ else _] => destruct b end; try destruct R as [R|R]; discriminate R
  | intros R; eexists; apply upd_same
  | intros R; first [specialize (P1 R) | specialize (P2 R) | specialize (P3 R)];
    match goal with
    | X : exists _, loc _ _ = ?L |- _ =>
      let x := fresh in let Hx := fresh in destruct X as (x & Hx); exists x; rewrite upd_other; [exact Hx|];
      intros ->; first [congruence | rewrite B3 in Hx by assumption; discriminate Hx]
    end
  | intros R; apply fwd_next_rfwd in R; exact R
  | intros _; apply P2; auto
  | intros R; congruence
  | intros [R|R]; congruence
  | intros k L; cbn [loc fwd_next set_rst set_loc] in L; upd_cases; try discriminate; eauto; try congruence;
    first [ specialize (P4 _ L) | specialize (P5 _ L) ]; try discriminate; try congruence
  | intros k L; cbn [loc fwd_next set_rst set_loc] in L; upd_cases; try discriminate; exfalso;
    match goal with L1: loc _ ?a = LRGot, L2: loc _ ?b = LRGot, N : ?a <> ?b |- _ => apply N; apply P6; assumption end
  | intros k L; apply (fwd_next_ok _ k); [|exact L]; cbn [loc fwd_next set_rst set_loc set_outst set_sub set_errs nseq] in *;
    upd_cases; try discriminate; match goal with HB : InvB ?s |- _ => assert (k < nseq s) by (apply (InvB_lt s k HB); rewrite L; discriminate) end; lia
  | intros k1 k2 L1 L2; cbn [loc fwd_next set_rst set_loc] in *; upd_cases; try discriminate; try reflexivity; try (apply P6; assumption);
    exfalso; first [ specialize (P4 _ L1) | specialize (P4 _ L2) ]; discriminate ].
Qed.

Lemma reach_InvP4 c s : reach c s -> InvP4 s.
Proof. induction 1; [apply InvP4_init|eapply InvP4_step; eauto using reach_InvB, reach_InvO]. Qed.

(* an item that left the validate stage unvalidated was not decoded (or the context was cancelled) *)
Definition past_val (l : location) : bool :=
  match l with LNone | LSubmitting | LCh 0 | LCh 1 | LW 0 _ | LW 1 PProc | LDropped => false | _ => true end.
Definition InvG2 (c : cfg) (s : state) : Prop :=
  forall i, past_val (loc s i) = true -> vst s i = VNone -> von c = true -> dst s i <> DOk \/ cancel s = 2.

Lemma InvG2_init c : InvG2 c init.
Proof. intros i H. discriminate H. Qed.

Lemma InvG2_step c s l s' : InvB s -> InvS c s -> InvG2 c s -> step c s l = Some s' -> InvG2 c s'.
Proof.
  intros HB HS G H. unfold InvG2 in *.
  assert (S7 : forall i st p, loc s i = LW st p -> stage_ok c st = true) by apply HS.
  step_prelude HB H; concretize; sproj; intros k Pk Vk VON'; try congruence;
  upd_cases; try discriminate; auto;
  try (match goal with L : loc _ ?i = _ |- _ => specialize (G i); rewrite L in G; cbn in G end);
  try (specialize (G _ Pk Vk VON')); try (specialize (G eq_refl Vk VON'));
  try (destruct G as [G|G]; [left; exact G|right; try lia; destruct (cancel s); lia]);
  try (left; unfold dst_ok in *; match goal with |- dst ?s ?i <> DOk => destruct (dst s i); congruence end).
Qed.

Lemma reach_InvG2 c s : reach c s -> InvG2 c s.
Proof. induction 1; [apply InvG2_init|eapply InvG2_step; eauto using reach_InvB, reach_InvS]. Qed.

(* only the four channels exist; validatedChan only with validation *)
Definition InvP6 (c : cfg) (s : state) : Prop :=
  forall i k, loc s i = LCh k -> k = 0 \/ k = 1 \/ (k = 2 /\ von c = true) \/ k = 3.

Lemma InvP6_init c : InvP6 c init.
Proof. intros i k H. discriminate H. Qed.

Lemma InvP6_step c s l s' : InvB s -> InvS c s -> InvP6 c s -> step c s l = Some s' -> InvP6 c s'.
Proof.
  intros HB HS P H. unfold InvP6 in *.
  assert (S7 : forall i st p, loc s i = LW st p -> stage_ok c st = true) by apply HS.
  step_prelude HB H; concretize; sproj; intros k1 k2 L; upd_cases; try discriminate; eauto;
  injection L as <-; auto.
Qed.

Lemma reach_InvP6 c s : reach c s -> InvP6 c s.
Proof. induction 1; [apply InvP6_init|eapply InvP6_step; eauto using reach_InvB, reach_InvS]. Qed.
