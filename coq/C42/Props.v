(* C42 - the block pipeline applies each good block once, in order: property theorems only.
   Every theorem quantifies over every configuration (worker counts, buffer
   size, pending limit, block verdicts) and over every label sequence the
   model accepts from the initial state, i.e. over every schedule, every
   Stop / cancellation point and every failed submission. *)
From V Require Import Lib.Base C42.Model C42.Tac C42.InvB C42.InvO C42.InvS C42.Safety C42.Prog C42.Complete C42.StopLive C42.Gen.
From Coq Require Import Sorted.

(* ApplyFunc is called in strictly increasing sequence order (hence at most
   once per block), only for submitted blocks that decode and, when validation
   is enabled, validate. *)
Theorem C42_order : forall c ls s, run c init ls = Some s ->
  StronglySorted lt (applied s) /\ NoDup (applied s)
  /\ forall j, In j (applied s) -> j < nseq s /\ dec_ok c j = true /\ (von c = true -> val_ok c j = true).
Proof.
  intros c ls s H. pose proof (reach_run c ls init s (reach_init c) H) as R.
  split; [apply (applied_sorted c s R)|split; [apply sorted_NoDup, (applied_sorted c s R)|]].
  intros j Hj. split; [apply (applied_submitted c s j R Hj)|].
  destruct (reach_InvG c s R) as (_ & _ & _ & _ & _ & G6). apply G6. exact Hj.
Qed.
Print Assumptions C42_order.

(* no item is sent to Results() twice, and only submitted items are *)
Theorem C42_once_results : forall c ls s, run c init ls = Some s ->
  NoDup (fwdlog s) /\ forall i, In i (fwdlog s) -> i < nseq s.
Proof.
  intros c ls s H. pose proof (reach_run c ls init s (reach_init c) H) as R.
  destruct (reach_InvR c s R) as (N & L). split; [exact N|]. intros i Hi.
  apply (InvB_lt s i (reach_InvB c s R)); destruct (L i Hi) as [E|E]; rewrite E; discriminate.
Qed.
Print Assumptions C42_once_results.

(* quiescent = nothing the pipeline, the consumers of Results()/Errors() or a
   Submit in progress could still do.  If that is reached without Stop or
   cancellation - whatever submissions failed on the way - every submitted
   block was read from Results() exactly once, and exactly the good ones were
   applied, in submission (= sequence) order. *)
Theorem C42_complete : forall c ls s, 1 <= nD c -> 1 <= cap c ->
  run c init ls = Some s -> cancel s = 0 -> quiescent c s ->
  (forall i, i < nseq s -> loc s i = LDone /\ In i (fwdlog s))
  /\ NoDup (fwdlog s)
  /\ applied s = filter (good c) (seq 0 (nseq s))
  /\ tok s = false /\ outst s = 0.
Proof.
  intros c ls s ND CAP H C0 Q. pose proof (reach_run c ls init s (reach_init c) H) as R.
  split; [|split; [apply (fwd_once c s R)|split; [eapply q_applied; eassumption|split;
    [eapply q_tok; eassumption|eapply q_outst; eassumption]]]].
  intros i Hi. assert (D : loc s i = LDone) by (eapply q_all_done; eassumption). split; [exact D|].
  apply (reach_InvR2 c s R). right. exact D.
Qed.
Print Assumptions C42_complete.

(* Stop never makes a goroutine send on a closed channel (the only way this
   code can panic), and when Stop has returned all workers and the apply
   runner have returned. *)
Theorem C42_stop_safe : forall c ls s, run c init ls = Some s ->
  panicked s = false
  /\ (sphase s = 5 -> wexit s 0 = nw c 0 /\ (von c = true -> wexit s 1 = nw c 1) /\ rst s = RExit).
Proof.
  intros c ls s H. pose proof (reach_run c ls init s (reach_init c) H) as R.
  split; [apply (never_panics c s R)|apply (stop_done c s R)].
Qed.
Print Assumptions C42_stop_safe.

(* Stop terminates and ends all pipeline goroutines: once Stop has been called
   (context cancelled), in every state where neither the pipeline nor a
   Submit in progress can do anything more, Stop has closed every channel and
   returned, all workers of both pools and the apply runner have returned.
   (No assumption on the consumers: Stop does not need Results()/Errors() to be read.) *)
Theorem C42_stop_terminates : forall c ls s, 1 <= nD c -> run c init ls = Some s ->
  1 <= sphase s -> quiescent c s ->
  sphase s = 5 /\ wexit s 0 = nw c 0 /\ (von c = true -> wexit s 1 = nw c 1) /\ rst s = RExit /\ panicked s = false.
Proof.
  intros c ls s ND H ST Q. pose proof (reach_run c ls init s (reach_init c) H) as R.
  assert (P : sphase s = 5) by (eapply sl_done; eassumption).
  destruct (stop_done c s R P) as (A & B & C). repeat split; auto. apply (never_panics c s R).
Qed.
Print Assumptions C42_stop_terminates.

(* the default configuration satisfies the side conditions of C42_complete *)
Theorem C42_defaults_ok : 1 <= default_decode_workers /\ 1 <= default_buffer.
Proof. vm_compute. split; repeat constructor. Qed.

(* non-vacuity: two decode workers, buffer 1; block 0 good, block 1 undecodable,
   block 2 overtakes block 1 and is buffered; all three delivered, 0 and 2 applied *)
Definition ex_cfg : cfg :=
  {| nD := 2; nV := 0; cap := 1; maxp := 0; dec_ok := fun i => negb (i =? 1); val_ok := fun _ => true |}.
Definition ex_trace : list label :=
  [SubBegin 0; SubOk 0; WTake 0 0; SubBegin 1; SubOk 1; WTake 0 1; SubBegin 2; SubOk 2;
   WProc 0 0 ROk; WPut 0 0; WTake 0 2; WProc 0 2 ROk; ATake 0; ANext 0; WPut 0 2; ABegin 0; AEnd 0 false;
   APendStop false; AFwdSend 0; AFwdDec 0; ATake 2; ABuffer 2; WProc 0 1 RErr; WErrSent 0 1; WPut 0 1;
   ATake 1; ANext 1; ASkip 1; APop 2; ABegin 2; AEnd 2 false; APendStop false;
   ResRead 0; AFwdSend 1; AFwdDec 1; ResRead 1; AFwdSend 2; AFwdDec 2; ResRead 2; ErrRead; PCRead 0].
Example C42_nonvacuous :
  exists s, run ex_cfg init ex_trace = Some s /\ cancel s = 0 /\ applied s = [0; 2]
            /\ fwdlog s = [0; 1; 2] /\ map (loc s) [0; 1; 2] = [LDone; LDone; LDone] /\ outst s = 0.
Proof. eexists. split; [vm_compute; reflexivity|]. vm_compute. repeat split. Qed.

(* ... and that state is quiescent: the hypotheses of C42_complete are satisfiable *)
Ltac small n := destruct n as [|[|[|[|n]]]].
Example C42_quiescent_reachable :
  exists s, run ex_cfg init ex_trace = Some s /\ cancel s = 0 /\ quiescent ex_cfg s.
Proof.
  eexists. split; [vm_compute; reflexivity|]. split; [reflexivity|].
  intros l I. destruct l; try discriminate I; try (vm_compute; reflexivity).
  all: try (small i; vm_compute; reflexivity).
  all: try (small j; vm_compute; reflexivity).
  all: try (small k; vm_compute; reflexivity).
  all: try (small s; try destruct r; vm_compute; reflexivity).
  all: try (small s; small i; try destruct r; vm_compute; reflexivity).
  all: try (small i; destruct stop; vm_compute; reflexivity).
Qed.
