(* C42/C44 - completeness: in a quiescent state without cancellation every
   submitted block has been delivered and exactly the good ones were applied. *)
From V Require Import Lib.Base C42.Model C42.Tac C42.InvB C42.InvO C42.InvS C42.Safety C42.Prog.

Definition kdone (s : state) : nat := match rst s with RApply => pred (nexta s) | _ => nexta s end.
Definition InvA (c : cfg) (s : state) : Prop :=
  cancel s = 0 -> applied s = filter (good c) (seq 0 (kdone s)).

Lemma InvA_init c : InvA c init.
Proof. intros _. reflexivity. Qed.

Lemma filter_seq_S f n : filter f (seq 0 (S n)) = filter f (seq 0 n) ++ (if f n then [n] else []).
Proof. rewrite seq_S, filter_app. cbn. destruct (f n); reflexivity. Qed.

Lemma InvA_step c s l s' : reach c s -> InvA c s -> step c s l = Some s' -> InvA c s'.
Proof.
  intros R A H. pose proof (reach_InvB c s R) as HB.
  assert (R' : reach c s') by (econstructor; eauto).
  pose proof (reach_InvO c s R) as (_ & _ & O3).
  pose proof (reach_InvG c s R) as (G1 & G2 & G3 & G4 & G5 & G6).
  pose proof (reach_InvG2 c s R) as GG.
  pose proof (fun j => applied_good c s' j R') as AG.
  unfold InvA, kdone in *.
  step_prelude HB H; sproj; sproj_in AG; intros C0; try lia;
  try (destruct (cancel s); discriminate);
  try (specialize (A ltac:(lia)));
  try match goal with Rr : rst s = _ |- _ => rewrite Rr in A end;
  try exact A;
  try (repeat match goal with |- context[if ?b then _ else _] => destruct b end; exact A).
  - rewrite H0. exact A.
  - (* ASkip: the item has a decode or validation error, hence is not good *)
    destruct (O3 j H1) as (E & _). rewrite <- E, filter_seq_S. rewrite <- E in A. cbn [pred] in A.
    assert (B : good c j = false).
    { unfold has_stage_err, dst_err, vst_err in H0. unfold good.
      destruct (dst s j) eqn:D; cbn in H0.
      - destruct (vst s j) eqn:V; try discriminate. destruct (G4 j V) as (X & Y). rewrite X, Y. cbn. apply andb_false_r.
      - destruct (vst s j) eqn:V; try discriminate. destruct (G4 j V) as (X & Y). rewrite X, Y. cbn. apply andb_false_r.
      - rewrite (G2 j D). reflexivity. }
    rewrite B, app_nil_r. exact A.
  - (* ANotVal cannot happen without cancellation *)
    exfalso. unfold not_validated, has_stage_err, dst_err, vst_err, vst_ok in *. bprop.
    destruct (vst s j) eqn:V; try discriminate; [|destruct (dst s j); discriminate].
    destruct (GG j) as [X|X]; [rewrite H2; reflexivity|exact V|assumption| |lia].
    destruct (dst s j) eqn:D; try congruence; [|discriminate].
    assert (cancel s = 2) by (apply (G5 j); [rewrite H2; reflexivity|exact D]). lia.
  - (* ABegin *)
    destruct (O3 j H3) as (E & _). rewrite <- E, filter_seq_S. rewrite <- E in A. cbn [pred] in A.
    rewrite (AG j) by (apply in_or_app; right; left; reflexivity). rewrite A. reflexivity.
Qed.

Lemma reach_InvA c s : reach c s -> InvA c s.
Proof. induction 1; [apply InvA_init|eapply InvA_step; eauto]. Qed.

(* ---------------------------------------------------------------------- *)
Definition quiescent (c : cfg) (s : state) : Prop := forall l, internal l = true -> step c s l = None.

Lemma is_rst_true s r : rst s = r -> (forall e, r <> RFwdDec e) -> is_rst s r = true.
Proof. unfold is_rst. intros -> N. destruct r; try reflexivity. exfalso. eapply N; eauto. Qed.

Lemma cnt_ch_zero s k : (forall i, loc s i <> LCh k) -> cnt (is_ch k) s = 0.
Proof.
  intros H. destruct (cnt (is_ch k) s) eqn:E; [reflexivity|].
  destruct (cnt_pos_ex (is_ch k) s ltac:(lia)) as (i & _ & Hi).
  destruct (loc s i) eqn:L; try discriminate. cbn in Hi. apply Nat.eqb_eq in Hi. subst. exfalso. eapply H; eauto.
Qed.
Lemma cnt_held_zero s st : (forall i p, loc s i <> LW st p) -> cnt (is_held st) s = 0.
Proof.
  intros H. destruct (cnt (is_held st) s) eqn:E; [reflexivity|].
  destruct (cnt_pos_ex (is_held st) s ltac:(lia)) as (i & _ & Hi).
  destruct (loc s i) eqn:L; try discriminate. cbn in Hi. apply Nat.eqb_eq in Hi. subst. exfalso. eapply H; eauto.
Qed.

Section Quiescent.
Variable c : cfg.
Variable s : state.
Hypothesis R : reach c s.
Hypothesis ND : 1 <= nD c.
Hypothesis CAP : 1 <= cap c.
Hypothesis C0 : cancel s = 0.
Hypothesis Q : quiescent c s.

(* "label l is enabled" contradicts quiescence *)
Ltac fire l :=
  let X := fresh "X" in
  pose proof (Q l eq_refl) as X; cbn [step] in X;
  match type of X with guard ?b _ = None =>
    let B := fresh "B" in
    assert (B : b = true);
    [ repeat match goal with |- _ && _ = true => apply andb_true_intro; split end;
      try (apply at_loc_eq; assumption); try (apply is_rst_true; [assumption|intros; discriminate]);
      try (apply Nat.eqb_eq; reflexivity); try (apply Nat.ltb_lt; lia); try (apply Nat.leb_le; lia); try assumption; try reflexivity
    | rewrite B in X; cbn [guard] in X; try discriminate X ] end.

Lemma q_errs : errs s = 0.
Proof. destruct (errs s) eqn:E; [reflexivity|]. exfalso. fire ErrRead. Qed.

Lemma q_res i : loc s i <> LCh 3.
Proof. intros L. fire (ResRead i). Qed.

Lemma q_cnt3 : cnt (is_ch 3) s = 0.
Proof. apply cnt_ch_zero. exact q_res. Qed.

Lemma q_runner : rst s = RIdle.
Proof.
  pose proof (reach_InvP1 c s R C0) as (_ & _ & NE & _).
  pose proof (reach_InvP4 c s R) as (P1 & P2 & P3 & _).
  pose proof q_errs as E0. pose proof q_cnt3 as C3.
  destruct (rst s) eqn:RS; try reflexivity; exfalso; try congruence.
  - destruct (P1 eq_refl) as (i & L). destruct (Nat.eqb_spec i (nexta s)) as [->|N].
    + fire (ANext (nexta s)).
    + fire (ABuffer i). apply negb_true_iff. apply Nat.eqb_neq. exact N.
  - destruct (P2 (or_introl eq_refl)) as (j & L).
    destruct (has_stage_err s j) eqn:HE; [fire (ASkip j)|].
    destruct (not_validated c s j) eqn:NV; [fire (ANotVal j); try (rewrite HE; reflexivity)|].
    fire (ABegin j); try (rewrite HE; reflexivity); try (rewrite NV; reflexivity); try (rewrite C0; reflexivity).
  - destruct (P2 (or_intror eq_refl)) as (j & L). fire (AEnd j false).
  - destruct (at_loc s (nexta s) LPend) eqn:AL.
    + apply at_loc_eq in AL. fire (APop (nexta s)).
    + fire (APendStop false). rewrite AL. reflexivity.
  - destruct (P3 eq_refl) as (i & L). fire (AFwdSend i).
  - pose proof (Q (AFwdDec 0) eq_refl) as X. cbn [step] in X. rewrite RS in X. discriminate X.
  - fire AFwdErr.
  - fire AErrSent.
Qed.

Lemma q_ain i : loc s i <> LCh (ain c).
Proof. intros L. pose proof q_runner as RI. fire (ATake i). Qed.

Lemma q_stage1 i p : von c = true -> loc s i <> LW 1 p.
Proof.
  intros V L. pose proof q_errs as E0.
  assert (SO : stage_ok c 1 = true) by (unfold stage_ok; rewrite V; reflexivity).
  destruct p.
  - destruct (dst_ok s i) eqn:D; [destruct (val_ok c i) eqn:VO|].
    + pose proof (Q (WProc 1 i ROk) eq_refl) as X. cbn [step] in X. rewrite SO in X.
      apply at_loc_eq in L. rewrite L in X. cbn in X. rewrite D, VO in X. discriminate X.
    + pose proof (Q (WProc 1 i RErr) eq_refl) as X. cbn [step] in X. rewrite SO in X.
      apply at_loc_eq in L. rewrite L in X. cbn in X. rewrite D, VO in X. discriminate X.
    + pose proof (Q (WProc 1 i RPass) eq_refl) as X. cbn [step] in X. rewrite SO in X.
      apply at_loc_eq in L. rewrite L in X. cbn in X. rewrite D in X. discriminate X.
  - fire (WErrSent 1 i).
  - assert (Z : cnt (is_ch 2) s = 0).
    { apply cnt_ch_zero. intros k. pose proof (q_ain k) as A. unfold ain in A. rewrite V in A. exact A. }
    fire (WPut 1 i).
Qed.

Lemma q_ch1 i : loc s i <> LCh 1.
Proof.
  intros L. destruct (von c) eqn:V.
  - pose proof (reach_InvP1 c s R C0) as (_ & W & _ & _).
    assert (Z : cnt (is_held 1) s = 0) by (apply cnt_held_zero; intros k p; apply q_stage1; exact V).
    assert (SO : stage_ok c 1 = true) by (unfold stage_ok; rewrite V; reflexivity).
    assert (NV : 1 <= nw c 1) by (unfold von in V; apply Nat.ltb_lt in V; exact V).
    fire (WTake 1 i). rewrite Z, W. apply Nat.ltb_lt. lia.
  - apply (q_ain i). unfold ain. rewrite V. exact L.
Qed.

Lemma q_stage0 i p : loc s i <> LW 0 p.
Proof.
  intros L. pose proof q_errs as E0.
  destruct p.
  - apply at_loc_eq in L. destruct (dec_ok c i) eqn:D.
    + pose proof (Q (WProc 0 i ROk) eq_refl) as X. cbn [step] in X. rewrite L in X. cbn in X. rewrite D in X. discriminate X.
    + pose proof (Q (WProc 0 i RErr) eq_refl) as X. cbn [step] in X. rewrite L in X. cbn in X. rewrite D in X. discriminate X.
  - fire (WErrSent 0 i).
  - assert (Z : cnt (is_ch 1) s = 0) by (apply cnt_ch_zero; exact q_ch1).
    fire (WPut 0 i).
Qed.

Lemma q_ch0 i : loc s i <> LCh 0.
Proof.
  intros L. pose proof (reach_InvP1 c s R C0) as (_ & W & _ & _).
  assert (Z : cnt (is_held 0) s = 0) by (apply cnt_held_zero; exact q_stage0).
  fire (WTake 0 i). rewrite Z, W. apply Nat.ltb_lt. cbn. lia.
Qed.

Lemma q_tok : tok s = false.
Proof.
  destruct (tok s) eqn:T; [exfalso|reflexivity].
  pose proof (reach_InvB c s R) as (_ & B2 & _ & _). specialize (B2 T).
  fire (SubFail (nseq s) false).
Qed.

Lemma q_loc i : i < nseq s -> loc s i = LDone \/ loc s i = LPend.
Proof.
  intros Hi. pose proof (reach_InvB c s R) as (_ & _ & _ & B4). destruct (B4 i Hi) as (N1 & N2).
  pose proof (reach_InvP1 c s R C0) as (_ & _ & _ & ND').
  pose proof (reach_InvP4 c s R) as (_ & _ & _ & P4 & P5 & _).
  pose proof (reach_InvO c s R) as (_ & _ & O3).
  pose proof (reach_InvP6 c s R) as P6.
  pose proof (reach_InvS c s R) as (_ & _ & _ & _ & _ & _ & S7).
  pose proof q_runner as RI.
  destruct (loc s i) eqn:L; try contradiction; auto; exfalso.
  - destruct (P6 i k L) as [-> | [-> | [[-> V] | ->]]].
    + eapply q_ch0; eauto.
    + eapply q_ch1; eauto.
    + apply (q_ain i). unfold ain. rewrite V. exact L.
    + eapply q_res; eauto.
  - destruct (stage_ok_cases c s0 (S7 _ _ _ L)) as [->|(-> & V)].
    + eapply q_stage0; eauto.
    + eapply q_stage1; eauto.
  - specialize (P4 i L). congruence.
  - destruct (O3 i L) as (_ & [X|X]); congruence.
  - specialize (P5 i L). rewrite RI in P5. discriminate.
  - eapply ND'; eauto.
Qed.

Lemma q_all_done i : i < nseq s -> loc s i = LDone.
Proof.
  intros Hi. destruct (q_loc i Hi) as [D|LP]; [exact D|exfalso].
  pose proof (reach_InvP2 c s R) as (Pa & Pb & Pc).
  pose proof (reach_InvP3 c s R) as P3. pose proof q_runner as RI.
  assert (N : nexta s <= i) by (apply Pb; rewrite LP; reflexivity).
  destruct (q_loc (nexta s) ltac:(lia)) as [D|LP'].
  - assert (nexta s < nexta s) by (apply Pa; rewrite D; reflexivity). lia.
  - assert (1 <= cancel s) by (apply P3; congruence). lia.
Qed.

Lemma q_nexta : nexta s = nseq s.
Proof.
  pose proof (reach_InvP2 c s R) as (Pa & Pb & Pc).
  destruct (Nat.eq_dec (nexta s) (nseq s)) as [E|N]; [exact E|exfalso].
  assert (nexta s < nexta s) by (apply Pa; rewrite (q_all_done (nexta s)) by lia; reflexivity). lia.
Qed.

Lemma q_applied : applied s = filter (good c) (seq 0 (nseq s)).
Proof.
  pose proof (reach_InvA c s R C0) as A. unfold kdone in A. rewrite q_runner, q_nexta in A. exact A.
Qed.

Lemma q_outst : outst s = 0.
Proof.
  pose proof (reach_InvD c s R) as D. unfold InvD, fwd_dec_pending in D. rewrite q_runner in D.
  destruct (cnt unfinished s) eqn:E; [lia|exfalso].
  destruct (cnt_pos_ex unfinished s ltac:(lia)) as (i & Hi & U).
  pose proof (reach_InvB c s R) as (_ & _ & B3 & _).
  destruct (Nat.eq_dec i (nseq s)) as [->|N].
  - rewrite (B3 q_tok) in U. discriminate.
  - rewrite (q_all_done i) in U by lia. discriminate.
Qed.
End Quiescent.
