(* C42 - Stop terminates: once Stop has cancelled the context, in every state where
   nothing more can happen Stop has closed all channels and returned. *)
From V Require Import Lib.Base C42.Model C42.Tac C42.InvB C42.InvO C42.InvS C42.Safety C42.Prog C42.Complete.

Definition InvC (c : cfg) (s : state) : Prop :=
  (1 <= sphase s -> 1 <= cancel s) /\ (sphase s = 4 -> von c = true) /\ sphase s <= 5.

Lemma InvC_step c s l s' : InvB s -> InvC c s -> step c s l = Some s' -> InvC c s'.
Proof.
  intros HB (P1 & P2 & P3) H. unfold InvC.
  step_prelude HB H; sproj; (split; [|split]); intros; try lia; auto;
  try (specialize (P1 ltac:(lia)); lia); try (destruct (cancel s); lia);
  try (destruct (von c); try reflexivity; lia).
Qed.
Lemma reach_InvC c s : reach c s -> InvC c s.
Proof. induction 1; [repeat split; cbn; intros; try lia; discriminate|eapply InvC_step; eauto using reach_InvB]. Qed.

Section StopLive.
Variable c : cfg.
Variable s : state.
Hypothesis R : reach c s.
Hypothesis STOP : 1 <= sphase s.
Hypothesis Q : quiescent c s.

Ltac fire l :=
  let X := fresh "X" in
  pose proof (Q l eq_refl) as X; cbn [step] in X;
  match type of X with guard ?b _ = None =>
    let B := fresh "B" in
    assert (B : b = true);
    [ repeat match goal with |- _ && _ = true => apply andb_true_intro; split end;
      try (apply at_loc_eq; assumption); try (apply is_rst_true; [assumption|intros; discriminate]);
      try (apply Nat.eqb_eq; reflexivity); try (apply Nat.ltb_lt; lia); try (apply Nat.leb_le; lia); try assumption; try reflexivity
    | rewrite B in X; cbn [guard] in X; try discriminate X ] end.

Lemma sl_cancel : 1 <= cancel s.
Proof. apply (reach_InvC c s R). exact STOP. Qed.

Lemma sl_tok : tok s = false.
Proof.
  destruct (tok s) eqn:T; [exfalso|reflexivity].
  pose proof (reach_InvB c s R) as (_ & B2 & _ & _). specialize (B2 T).
  fire (SubFail (nseq s) false).
Qed.

Lemma sl_pool st : stage_ok c st = true -> wexit s st = nw c st.
Proof.
  intros K. pose proof sl_cancel as C1.
  destruct (reach_InvS c s R) as (_ & _ & _ & _ & _ & S6 & _). specialize (S6 st K).
  destruct (Nat.eq_dec (wexit s st) (nw c st)) as [E|N]; [exact E|exfalso].
  destruct (cnt (is_held st) s) eqn:H.
  - fire (WExit st). apply orb_true_iff. left. apply Nat.leb_le. lia.
  - destruct (cnt_pos_ex (is_held st) s ltac:(lia)) as (i & _ & Hi).
    destruct (loc s i) eqn:L; try discriminate. cbn in Hi. apply Nat.eqb_eq in Hi. subst s0.
    destruct p.
    + pose proof (Q (WProc st i RSkip) eq_refl) as X. cbn [step] in X. rewrite K in X.
      apply at_loc_eq in L. rewrite L in X. cbn [andb guard] in X.
      assert (B : (1 <=? cancel s) = true) by (apply Nat.leb_le; lia).
      destruct (st =? 0); rewrite B in X; discriminate X.
    + fire (WErrAbort st i).
    + fire (WPutAbort st i).
Qed.

Lemma sl_runner : rst s = RExit.
Proof.
  pose proof sl_cancel as C1.
  pose proof (reach_InvP4 c s R) as (P1 & P2 & P3 & _).
  destruct (rst s) eqn:RS; try reflexivity; exfalso.
  - fire AExit. apply orb_true_iff. left. apply Nat.leb_le. lia.
  - destruct (P1 eq_refl) as (i & L). fire (ADropCancel i).
  - destruct (P2 (or_introl eq_refl)) as (j & L).
    destruct (has_stage_err s j) eqn:HE; [fire (ASkip j)|].
    destruct (not_validated c s j) eqn:NV; [fire (ANotVal j); try (rewrite HE; reflexivity)|].
    fire (ACancelled j); try (rewrite HE; reflexivity); try (rewrite NV; reflexivity).
  - destruct (P2 (or_intror eq_refl)) as (j & L). fire (AEnd j false).
  - fire (APendStop true).
  - destruct (P3 eq_refl) as (i & L). fire (AFwdDrop i).
  - pose proof (Q (AFwdDec 0) eq_refl) as X. cbn [step] in X. rewrite RS in X. discriminate X.
  - fire AFwdErrDrop.
  - fire AErrAbort.
Qed.

Lemma sl_done : 1 <= nD c -> sphase s = 5.
Proof.
  intros ND. pose proof sl_tok as T. pose proof sl_runner as RX.
  assert (K0 : stage_ok c 0 = true) by reflexivity. pose proof (sl_pool 0 K0) as W0.
  destruct (reach_InvC c s R) as (_ & V4 & LE).
  assert (W1 : von c = true -> wexit s 1 = nw c 1).
  { intros V. apply sl_pool. unfold stage_ok. rewrite V. reflexivity. }
  destruct (sphase s) as [|[|[|[|[|[|?]]]]]] eqn:P; try lia; exfalso.
  - fire (StopClose 0); try (rewrite P; reflexivity). rewrite T. reflexivity.
  - fire (StopClose 1); try (rewrite P; reflexivity). apply Nat.eqb_eq. exact W0.
  - destruct (von c) eqn:V.
    + fire (StopClose 2); try (rewrite P; reflexivity). apply Nat.eqb_eq. exact (W1 eq_refl).
    + fire (StopClose 3); try (rewrite P, V; reflexivity).
  - destruct (von c) eqn:V.
    + fire (StopClose 3); try (rewrite P, V; reflexivity).
    + specialize (V4 eq_refl). congruence.
Qed.
End StopLive.
