(* C42 - safety invariants without counting: apply order, only good blocks, results once. *)
From V Require Import Lib.Base C42.Model C42.Tac C42.InvB.
From Coq Require Import Sorted.

Lemma reach_InvB c s : reach c s -> InvB s.
Proof. induction 1; [apply InvB_init|eapply InvB_step; eauto]. Qed.

Lemma sorted_snoc l j : StronglySorted lt l -> (forall x, In x l -> x < j) -> StronglySorted lt (l ++ [j]).
Proof.
  induction 1 as [|a l S IH F]; intros H; cbn.
  - constructor; constructor.
  - constructor.
    + apply IH. intros x Hx. apply H. right. exact Hx.
    + apply Forall_app. split; [exact F|]. constructor; [|constructor]. apply H. left. reflexivity.
Qed.

Lemma sorted_NoDup l : StronglySorted lt l -> NoDup l.
Proof.
  induction 1 as [|a l S IH F]; constructor; [|exact IH].
  intros Hin. rewrite Forall_forall in F. specialize (F a Hin). lia.
Qed.

(* ---------------------------------------------------------------------- *)
Definition InvO (s : state) : Prop :=
  StronglySorted lt (applied s)
  /\ (forall x, In x (applied s) -> x < nexta s /\ (rst s = RApply -> S x < nexta s))
  /\ (forall j, loc s j = LRCur -> S j = nexta s /\ (rst s = RApply \/ rst s = RInApply)).

Lemma InvO_init : InvO init.
Proof. split; [constructor|split]; cbn; intros; [contradiction|discriminate]. Qed.

Ltac rcur_contra O3 :=
  first [ match goal with
  | H : loc ?s ?j = LRCur |- _ =>
      let A := fresh in destruct (O3 j H) as (_ & [A|A]); discriminate A
  end |
  match goal with
  | H : loc ?s ?j = LRCur, R : rst ?s = _ |- _ =>
      let A := fresh in destruct (O3 j H) as (_ & [A|A]); rewrite R in A; discriminate A
  end ].

Lemma InvO_step c s l s' : InvO s -> step c s l = Some s' -> InvO s'.
Proof.
  intros (O1 & O2 & O3) H.
  destr_step H; bprop;
  try (destruct e; cbn [set_rst set_outst set_sub fwd_next]);
  (split; [|split]); cbn; intros;
  try match goal with H : In _ (_ ++ [_]) |- _ => apply in_app_or in H; destruct H as [H|[H|[]]]; try subst end;
  try solve
    [ exact O1
    | apply sorted_snoc; [exact O1|]; intros x Hx; destruct (O2 x Hx) as (? & Hr); destruct (O3 _ ltac:(eassumption)) as (? & _); specialize (Hr ltac:(assumption)); lia
    | match goal with Hx : In ?x (applied _) |- _ => destruct (O2 x Hx) as (? & Hr); split; [lia|];
        repeat match goal with |- context[if ?b then _ else _] => destruct b end; intros; try discriminate;
        try (specialize (Hr ltac:(congruence))); lia end
    | split; [|intros; discriminate]; match goal with H : loc _ _ = LRCur |- _ => destruct (O3 _ H) as (? & _); lia end
    | upd_cases; try discriminate; try rcur_contra O3;
      try (match goal with H : loc _ ?j = LRCur |- _ => destruct (O3 j H) as (? & ?); split; [try lia|]; try (left; reflexivity); try (right; reflexivity); try assumption; try congruence end);
      try (split; [lia|left; reflexivity])
    | upd_cases; try discriminate; exfalso;
      match goal with H1 : loc ?s ?a = LRCur, H2 : loc ?s ?b = LRCur, N : ?b <> ?a |- _ => destruct (O3 a H1), (O3 b H2); lia end
    | exfalso; rcur_contra O3
    | repeat match goal with |- context[if ?b then _ else _] => destruct b end; exfalso; rcur_contra O3
    ].
Qed.

Lemma reach_InvO c s : reach c s -> InvO s.
Proof. induction 1; [apply InvO_init|eapply InvO_step; eauto]. Qed.

(* ---------------------------------------------------------------------- *)
(* only good blocks are applied *)
Definition past_dec (l : location) : bool :=
  match l with LNone | LSubmitting | LCh 0 | LW 0 PProc => false | _ => true end.

Definition InvG (c : cfg) (s : state) : Prop :=
  (forall i, dst s i = DOk -> dec_ok c i = true)
  /\ (forall i, dst s i = DErr -> dec_ok c i = false)
  /\ (forall i, vst s i = VOk -> val_ok c i = true)
  /\ (forall i, vst s i = VErr -> val_ok c i = false /\ von c = true)
  /\ (forall i, past_dec (loc s i) = true -> dst s i = DNone -> cancel s = 2)
  /\ (forall j, In j (applied s) -> dec_ok c j = true /\ (von c = true -> val_ok c j = true)).

Lemma InvG_init c : InvG c init.
Proof. repeat split; cbn in *; intros; try discriminate; try contradiction. Qed.

Lemma stage_ok_1 c st : stage_ok c st = true -> st <> 0 -> von c = true.
Proof. unfold stage_ok. intros H N. apply orb_true_iff in H. destruct H as [H|H]; bprop; [contradiction|assumption]. Qed.

Lemma InvG_step c s l s' : InvG c s -> step c s l = Some s' -> InvG c s'.
Proof.
  intros (G1 & G2 & G3 & G4 & G5 & G6) H.
  destr_step H; bprop;
  try (destruct e; cbn [set_rst set_outst set_sub fwd_next]);
  (split; [|split; [|split; [|split; [|split]]]]); cbn; intros;
  try match goal with H : In _ (_ ++ [_]) |- _ => apply in_app_or in H; destruct H as [H|[H|[]]]; try subst end;
  try solve
    [ eauto
    | upd_cases; eauto; try discriminate; try congruence
    | upd_cases; eauto; try discriminate; split; eauto using stage_ok_1; try congruence; eapply G4; eauto
    | upd_cases; try reflexivity; try discriminate; try lia;
      try (match goal with H : loc ?s ?i = _, P : past_dec _ = true |- _ => idtac end);
      match goal with D : dst _ ?k = DNone |- _ =>
        first [ specialize (G5 k); cbn in G5;
                repeat match goal with H : loc _ k = _ |- _ => rewrite H in G5 end;
                cbn in G5; try (destruct st; [discriminate|]); specialize (G5 ltac:(first [reflexivity|assumption]) D); lia
              | congruence ] end
    ].
  1,2: rewrite (G5 _ ltac:(eassumption) ltac:(eassumption)); reflexivity.
  1-7: upd_cases; [|eauto]; eapply G5; [|eassumption];
       match goal with H : loc _ _ = _ |- _ => rewrite H end; unfold ain; try destruct (von c);
       try (destruct s0; [congruence|]); try destruct s0; reflexivity.
  unfold has_stage_err, not_validated, dst_err, vst_err, vst_ok in *. split.
  - destruct (dst s j0) eqn:D; [|auto|discriminate].
    assert (cancel s = 2) by (apply (G5 j0); [rewrite H3; reflexivity|exact D]). lia.
  - intros V. change (von c = true) in V. rewrite V in H1. cbn in H1.
    destruct (vst s j0) eqn:D; try discriminate. auto.
Qed.

Lemma reach_InvG c s : reach c s -> InvG c s.
Proof. induction 1; [apply InvG_init|eapply InvG_step; eauto]. Qed.

(* ---------------------------------------------------------------------- *)
(* every item is sent to resultsChan at most once *)
Definition InvR (s : state) : Prop :=
  NoDup (fwdlog s) /\ (forall i, In i (fwdlog s) -> loc s i = LCh 3 \/ loc s i = LDone).

Lemma InvR_init : InvR init.
Proof. split; cbn; [constructor|contradiction]. Qed.

Lemma NoDup_snoc {A} (l : list A) x : NoDup l -> ~ In x l -> NoDup (l ++ [x]).
Proof.
  intros N H. apply NoDup_rev in N. rewrite <- (rev_involutive (l ++ [x])). apply NoDup_rev.
  rewrite rev_app_distr. cbn. constructor; [rewrite <- in_rev; exact H|exact N].
Qed.

Lemma InvR_step c s l s' : InvB s -> InvR s -> step c s l = Some s' -> InvR s'.
Proof.
  intros (B1 & B2 & B3 & B4) (R1 & R2) H.
  destr_step H; bprop;
  try (destruct e; cbn [set_rst set_outst set_sub fwd_next]);
  split; cbn; intros;
  try match goal with H : In _ (_ ++ [_]) |- _ => apply in_app_or in H; destruct H as [H|[H|[]]]; try subst end;
  try solve
    [ exact R1
    | apply NoDup_snoc; [exact R1|]; intros Hin; destruct (R2 _ Hin); congruence
    | upd_cases; auto;
      match goal with H : In ?k (fwdlog _) |- _ => destruct (R2 k H) as [E|E]; try congruence end;
      first [ rewrite B2 in E by assumption; discriminate | rewrite B3 in E by (destruct (tok s); [discriminate|reflexivity]); discriminate ] ].
  - upd_cases; [exfalso|auto].
    match goal with H : In ?k (fwdlog _), L : loc _ ?k = LCh ?s0, K : stage_ok _ ?s0 = true |- _ =>
      destruct (R2 k H) as [E|E]; rewrite L in E; [injection E as ->; unfold stage_ok in K; cbn in K; discriminate K|discriminate E] end.
  - upd_cases; [exfalso|auto].
    match goal with H : In ?k (fwdlog _), L : loc _ ?k = LCh _ |- _ =>
      destruct (R2 k H) as [E|E]; rewrite L in E; [unfold ain in E; destruct (von c); discriminate E|discriminate E] end.
  - left. apply upd_same.
Qed.

Lemma reach_InvR c s : reach c s -> InvR s.
Proof. induction 1; [apply InvR_init|eapply InvR_step; eauto using reach_InvB]. Qed.
