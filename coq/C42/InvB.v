(* C42 - first invariants: which sequence numbers are in use. *)
From V Require Import Lib.Base C42.Model C42.Tac.

Definition InvB (s : state) : Prop :=
  (forall i, nseq s < i -> loc s i = LNone)
  /\ (tok s = true -> loc s (nseq s) = LSubmitting)
  /\ (tok s = false -> loc s (nseq s) = LNone)
  /\ (forall i, i < nseq s -> loc s i <> LNone /\ loc s i <> LSubmitting).

Lemma InvB_lt s i : InvB s -> loc s i <> LNone -> loc s i <> LSubmitting -> i < nseq s.
Proof.
  intros (B1 & B2 & B3 & B4) H1 H2.
  destruct (Nat.lt_trichotomy i (nseq s)) as [H|[H|H]]; [exact H| |].
  - subst. destruct (tok s); [rewrite B2 in H2 by reflexivity; contradiction|rewrite B3 in H1 by reflexivity; contradiction].
  - rewrite B1 in H1 by lia. contradiction.
Qed.

Ltac upd_cases :=
  repeat match goal with
  | |- context[upd _ ?i _ ?k] => unfold upd; destruct (Nat.eqb_spec k i); try subst
  | H : context[upd _ ?i _ ?k] |- _ => unfold upd in H; destruct (Nat.eqb_spec k i); try subst
  end.

(* a moved item was at a location other than LNone/LSubmitting, hence below nseq *)
Ltac use_lt HB :=
  repeat match goal with
  | H : loc ?s ?i = ?X |- _ =>
      lazymatch X with LNone => fail | LSubmitting => fail | _ => idtac end;
      lazymatch goal with G : i < nseq s |- _ => fail | _ => idtac end;
      assert (i < nseq s) by (apply (InvB_lt s i HB); rewrite H; discriminate)
  end.

Lemma InvB_init : InvB init.
Proof. split; [|split; [|split]]; cbn; intros; try reflexivity; try discriminate; lia. Qed.

Lemma InvB_step c s l s' : InvB s -> step c s l = Some s' -> InvB s'.
Proof.
  intros HB H. pose proof HB as (B1 & B2 & B3 & B4).
  destr_step H; bprop; use_lt HB;
  try (destruct e; cbn [set_rst set_outst set_sub fwd_next]);
  (split; [|split; [|split]]); cbn; intros;
  try solve [ upd_cases; try lia; try congruence; try discriminate; auto; try (apply B1; lia); try (apply B4; lia)
            | upd_cases; try lia; try (split; congruence); try (split; discriminate); try (apply B4; lia) ].
Qed.
