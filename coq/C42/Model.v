(* C42/C43/C44 - the block pipeline as a labelled transition system.

   Transcribed from pipeline/{pipeline,worker_pool,apply_stage,decode_stage,
   validate_stage}.go of the tree WITH fixes/C44-submit-sequence-gap.patch and
   fixes/C43-drain-counts-held-items.patch applied (the model describes the
   fixed code).  One label = one hook event of hooks/C42-pipeline-trace.patch
   (pipeline/verif_on.go, constants evXxx), plus the environment's labels
   (ResRead, ErrRead, CancelExt).

   Items are identified by their sequence number.  Where an item currently is
   is a function [loc]; a channel is the set of items whose location is that
   channel (capacity = a bound on their number).  FIFO order inside a channel
   is deliberately NOT modelled: every theorem therefore also covers
   arbitrary reordering inside channels (the apply stage re-orders by sequence
   number anyway).  Workers of one pool are interchangeable, so a pool is
   "at most nw items held at once, wexit workers gone".

   Cancellation of the pipeline context is a three-valued flag: 0 not
   cancelled, 1 cancel() has begun (a check may see either value), 2 some
   goroutine has seen it cancelled (every later check sees it).  NO PROOFS in
   this file. *)
From Coq Require Import List Bool Arith Lia.
Import ListNotations.

Inductive phase := PProc | PErr | PPut.
(* PProc: taken from the input channel, stage.Process not finished
   PErr : Process returned an error, worker is in   select { errors <- err | ctx.Done }
   PPut : worker is in   select { output <- item | ctx.Done } *)

Inductive location :=
| LNone                 (* sequence number not in use *)
| LSubmitting           (* Submit holds the token, item built, blocked in the send select *)
| LCh (k : nat)         (* 0 submitChan, 1 decodedChan, 2 validatedChan, 3 resultsChan *)
| LW (s : nat) (p : phase)  (* held by a worker of stage s: 0 decode, 1 validate *)
| LRGot                 (* received by the apply runner, before ProcessWithStatus decided *)
| LRCur                 (* the item maybeApply is working on *)
| LRDone                (* in the runner's [processed] slice, waiting for forwardItem *)
| LPend                 (* in ApplyStage.pending *)
| LDone                 (* read from Results() by the consumer *)
| LDropped.             (* discarded on a ctx.Done branch *)

Inductive dstatus := DNone | DOk | DErr.   (* block / decodeError of the BlockItem *)
Inductive vstatus := VNone | VOk | VErr.   (* valid / validationError *)

Inductive rstate :=
| RIdle | RGot | RApply | RInApply | RPend | RFwd | RFwdDec (e : bool) | RFwdErr | RErrSend | RExit.

Inductive pres := ROk | RErr | RSkip | RPass.
(* result of stage.Process: ok / error / ctx error without touching the item /
   validate stage returning nil because the item is not decoded *)

Inductive label :=
(* BlockPipeline.Submit *)
| SubBegin (i : nat)              (* token acquired, item built with sequenceCounter.Load(), outstanding++ *)
| SubOk (i : nat)                 (* submitChan <- item ; sequenceCounter++ ; token released *)
| SubFail (i : nat) (stop : bool) (* caller ctx done (false) / pipeline ctx done (true); outstanding-- *)
(* context / BlockPipeline.Stop *)
| CancelExt                       (* the context given to Start is cancelled by its owner *)
| StopCancel                      (* Stop: p.cancel() *)
| StopClose (k : nat)             (* Stop: 0 stopped:=true, close(submitChan) under submitMu; 1 close(decodedChan)
                                     after decodePool.Stop(); 2 close(validatedChan) after validatePool.Stop();
                                     3 close(resultsChan), close(errorsChan) after applyRunner.Stop() *)
| PCRead (n : nat)                (* PendingCount() returned n; WaitForDrain returns nil exactly on PCRead 0 *)
(* StageWorkerPool.worker, s = 0 decode pool, s = 1 validate pool *)
| WTake (s i : nat) | WProc (s i : nat) (r : pres)
| WErrSent (s i : nat) | WErrAbort (s i : nat) | WPut (s i : nat) | WPutAbort (s i : nat) | WExit (s : nat)
(* ApplyStageRunner.run / ApplyStage *)
| ATake (i : nat) | ADropCancel (i : nat) | ANext (i : nat) | ABuffer (i : nat) | AErrSent | AErrAbort
| ASkip (j : nat) | ANotVal (j : nat) | ACancelled (j : nat) | ABegin (j : nat) | AEnd (j : nat) (err : bool)
| APop (j : nat) | APendStop (cancelled : bool)
| AFwdSend (i : nat) | AFwdDec (i : nat) | AFwdDrop (i : nat) | AFwdErr | AFwdErrDrop | AExit
(* consumers of Results() and Errors() *)
| ResRead (i : nat) | ErrRead.

Record cfg := {
  nD : nat;            (* decode workers (NewStageWorkerPool makes <=0 into 1; theorems assume >= 1) *)
  nV : nat;            (* validate workers; 0 = validation disabled *)
  cap : nat;           (* PrefetchBufferSize: capacity of all five channels *)
  maxp : nat;          (* MaxPendingBlocks; 0 = unlimited *)
  dec_ok : nat -> bool;  (* verdicts (input data): does block i decode / validate *)
  val_ok : nat -> bool }.

Definition von (c : cfg) : bool := 0 <? nV c.        (* validationEnabled *)
Definition nw (c : cfg) (s : nat) : nat := if s =? 0 then nD c else nV c.
Definition stage_ok (c : cfg) (s : nat) : bool := (s =? 0) || ((s =? 1) && von c).
Definition ain (c : cfg) : nat := if von c then 2 else 1.   (* applyInput *)

Record state := {
  loc : nat -> location;
  dst : nat -> dstatus;
  vst : nat -> vstatus;
  aerr : nat -> bool;     (* applyError != nil *)
  nseq : nat;             (* sequenceCounter *)
  tok : bool;             (* submitToken held *)
  outst : nat;            (* outstanding *)
  cancel : nat;
  sphase : nat;           (* progress of Stop: 0 not called, 1 cancelled, 2 submit closed (stopped),
                             3 decoded closed, 4 validated closed, 5 results+errors closed *)
  wexit : nat -> nat;     (* workers of pool s that have returned *)
  rst : rstate;
  nexta : nat;            (* ApplyStage.nextSequence *)
  errs : nat;             (* items in errorsChan *)
  applied : list nat;     (* ApplyFunc calls, in order *)
  fwdlog : list nat;      (* sends to resultsChan, in order *)
  panicked : bool }.      (* a send on a closed channel happened *)

Definition init : state :=
  {| loc := fun _ => LNone; dst := fun _ => DNone; vst := fun _ => VNone; aerr := fun _ => false;
     nseq := 0; tok := false; outst := 0; cancel := 0; sphase := 0; wexit := fun _ => 0;
     rst := RIdle; nexta := 0; errs := 0; applied := []; fwdlog := []; panicked := false |}.

Definition upd {A} (f : nat -> A) (i : nat) (v : A) : nat -> A := fun j => if j =? i then v else f j.

(* setters *)
Definition set_loc (s : state) (i : nat) (l : location) : state :=
  {| loc := upd (loc s) i l; dst := dst s; vst := vst s; aerr := aerr s; nseq := nseq s; tok := tok s;
     outst := outst s; cancel := cancel s; sphase := sphase s; wexit := wexit s; rst := rst s;
     nexta := nexta s; errs := errs s; applied := applied s; fwdlog := fwdlog s; panicked := panicked s |}.
Definition set_dst (s : state) (i : nat) (d : dstatus) : state :=
  {| loc := loc s; dst := upd (dst s) i d; vst := vst s; aerr := aerr s; nseq := nseq s; tok := tok s;
     outst := outst s; cancel := cancel s; sphase := sphase s; wexit := wexit s; rst := rst s;
     nexta := nexta s; errs := errs s; applied := applied s; fwdlog := fwdlog s; panicked := panicked s |}.
Definition set_vst (s : state) (i : nat) (d : vstatus) : state :=
  {| loc := loc s; dst := dst s; vst := upd (vst s) i d; aerr := aerr s; nseq := nseq s; tok := tok s;
     outst := outst s; cancel := cancel s; sphase := sphase s; wexit := wexit s; rst := rst s;
     nexta := nexta s; errs := errs s; applied := applied s; fwdlog := fwdlog s; panicked := panicked s |}.
Definition set_aerr (s : state) (i : nat) (e : bool) : state :=
  {| loc := loc s; dst := dst s; vst := vst s; aerr := upd (aerr s) i e; nseq := nseq s; tok := tok s;
     outst := outst s; cancel := cancel s; sphase := sphase s; wexit := wexit s; rst := rst s;
     nexta := nexta s; errs := errs s; applied := applied s; fwdlog := fwdlog s; panicked := panicked s |}.
Definition set_sub (s : state) (n : nat) (t : bool) (o : nat) : state :=
  {| loc := loc s; dst := dst s; vst := vst s; aerr := aerr s; nseq := n; tok := t;
     outst := o; cancel := cancel s; sphase := sphase s; wexit := wexit s; rst := rst s;
     nexta := nexta s; errs := errs s; applied := applied s; fwdlog := fwdlog s; panicked := panicked s |}.
Definition set_cancel (s : state) (k : nat) : state :=
  {| loc := loc s; dst := dst s; vst := vst s; aerr := aerr s; nseq := nseq s; tok := tok s;
     outst := outst s; cancel := k; sphase := sphase s; wexit := wexit s; rst := rst s;
     nexta := nexta s; errs := errs s; applied := applied s; fwdlog := fwdlog s; panicked := panicked s |}.
Definition set_sphase (s : state) (k : nat) : state :=
  {| loc := loc s; dst := dst s; vst := vst s; aerr := aerr s; nseq := nseq s; tok := tok s;
     outst := outst s; cancel := cancel s; sphase := k; wexit := wexit s; rst := rst s;
     nexta := nexta s; errs := errs s; applied := applied s; fwdlog := fwdlog s; panicked := panicked s |}.
Definition inc_wexit (s : state) (st : nat) : state :=
  {| loc := loc s; dst := dst s; vst := vst s; aerr := aerr s; nseq := nseq s; tok := tok s;
     outst := outst s; cancel := cancel s; sphase := sphase s; wexit := upd (wexit s) st (S (wexit s st)); rst := rst s;
     nexta := nexta s; errs := errs s; applied := applied s; fwdlog := fwdlog s; panicked := panicked s |}.
Definition set_rst (s : state) (r : rstate) : state :=
  {| loc := loc s; dst := dst s; vst := vst s; aerr := aerr s; nseq := nseq s; tok := tok s;
     outst := outst s; cancel := cancel s; sphase := sphase s; wexit := wexit s; rst := r;
     nexta := nexta s; errs := errs s; applied := applied s; fwdlog := fwdlog s; panicked := panicked s |}.
Definition set_nexta (s : state) (n : nat) : state :=
  {| loc := loc s; dst := dst s; vst := vst s; aerr := aerr s; nseq := nseq s; tok := tok s;
     outst := outst s; cancel := cancel s; sphase := sphase s; wexit := wexit s; rst := rst s;
     nexta := n; errs := errs s; applied := applied s; fwdlog := fwdlog s; panicked := panicked s |}.
Definition set_errs (s : state) (n : nat) : state :=
  {| loc := loc s; dst := dst s; vst := vst s; aerr := aerr s; nseq := nseq s; tok := tok s;
     outst := outst s; cancel := cancel s; sphase := sphase s; wexit := wexit s; rst := rst s;
     nexta := nexta s; errs := n; applied := applied s; fwdlog := fwdlog s; panicked := panicked s |}.
Definition push_applied (s : state) (j : nat) : state :=
  {| loc := loc s; dst := dst s; vst := vst s; aerr := aerr s; nseq := nseq s; tok := tok s;
     outst := outst s; cancel := cancel s; sphase := sphase s; wexit := wexit s; rst := rst s;
     nexta := nexta s; errs := errs s; applied := applied s ++ [j]; fwdlog := fwdlog s; panicked := panicked s |}.
Definition push_fwd (s : state) (j : nat) : state :=
  {| loc := loc s; dst := dst s; vst := vst s; aerr := aerr s; nseq := nseq s; tok := tok s;
     outst := outst s; cancel := cancel s; sphase := sphase s; wexit := wexit s; rst := rst s;
     nexta := nexta s; errs := errs s; applied := applied s; fwdlog := fwdlog s ++ [j]; panicked := panicked s |}.
Definition set_outst (s : state) (o : nat) : state := set_sub s (nseq s) (tok s) o.
(* Go: a send on a closed channel panics *)
Definition panic_if (b : bool) (s : state) : state :=
  {| loc := loc s; dst := dst s; vst := vst s; aerr := aerr s; nseq := nseq s; tok := tok s;
     outst := outst s; cancel := cancel s; sphase := sphase s; wexit := wexit s; rst := rst s;
     nexta := nexta s; errs := errs s; applied := applied s; fwdlog := fwdlog s; panicked := panicked s || b |}.

Definition phase_eqb (a b : phase) : bool :=
  match a, b with PProc, PProc | PErr, PErr | PPut, PPut => true | _, _ => false end.
Definition loc_eqb (a b : location) : bool :=
  match a, b with
  | LNone, LNone | LSubmitting, LSubmitting | LRGot, LRGot | LRCur, LRCur | LRDone, LRDone
  | LPend, LPend | LDone, LDone | LDropped, LDropped => true
  | LCh k, LCh k' => k =? k'
  | LW s p, LW s' p' => (s =? s') && phase_eqb p p'
  | _, _ => false
  end.
Definition is_ch (k : nat) (l : location) : bool := match l with LCh k' => k' =? k | _ => false end.
Definition is_held (s : nat) (l : location) : bool := match l with LW s' _ => s' =? s | _ => false end.
Definition is_pend (l : location) : bool := match l with LPend => true | _ => false end.
Definition is_rdone (l : location) : bool := match l with LRDone => true | _ => false end.

(* number of items (sequence numbers 0..nseq) whose location satisfies p *)
Definition cnt (p : location -> bool) (s : state) : nat :=
  length (filter (fun i => p (loc s i)) (seq 0 (S (nseq s)))).

(* which channels Stop has closed so far *)
Definition closed (s : state) (k : nat) : bool :=
  match k with 0 => 2 <=? sphase s | 1 => 3 <=? sphase s | 2 => 4 <=? sphase s | _ => 5 <=? sphase s end.
Definition closedE (s : state) : bool := 5 <=? sphase s.

Definition dst_err (s : state) (i : nat) : bool := match dst s i with DErr => true | _ => false end.
Definition dst_ok (s : state) (i : nat) : bool := match dst s i with DOk => true | _ => false end.
Definition vst_err (s : state) (i : nat) : bool := match vst s i with VErr => true | _ => false end.
Definition vst_ok (s : state) (i : nat) : bool := match vst s i with VOk => true | _ => false end.
Definition is_rst (s : state) (r : rstate) : bool :=
  match rst s, r with
  | RIdle, RIdle | RGot, RGot | RApply, RApply | RInApply, RInApply | RPend, RPend | RFwd, RFwd
  | RFwdErr, RFwdErr | RErrSend, RErrSend | RExit, RExit => true
  | _, _ => false end.
Definition at_loc (s : state) (i : nat) (l : location) : bool := loc_eqb (loc s i) l.

(* maybeApply's tests, in the order of the Go code *)
Definition has_stage_err (s : state) (j : nat) : bool := dst_err s j || vst_err s j.   (* DecodeError()!=nil || ValidationError()!=nil *)
Definition not_validated (c : cfg) (s : state) (j : nat) : bool := von c && negb (vst_ok s j).  (* requireValidation && !IsValid() *)

(* after forwardItem returns: next element of [processed], or back to the receive loop *)
Definition fwd_next (s : state) : state := set_rst s (if cnt is_rdone s =? 0 then RIdle else RFwd).

Definition guard (b : bool) (k : option state) : option state := if b then k else None.

Definition step (c : cfg) (s : state) (l : label) : option state :=
  match l with
  (* ---- Submit (pipeline.go).  RLock + stopped check + token + item + outstanding++ *)
  | SubBegin i =>
      guard (negb (tok s) && (sphase s <? 2) && (i =? nseq s))
        (Some (set_loc (set_sub s (nseq s) true (S (outst s))) i LSubmitting))
  | SubOk i =>
      guard (tok s && at_loc s i LSubmitting && (i =? nseq s) && (cnt (is_ch 0) s <? cap c))
        (Some (panic_if (closed s 0) (set_sub (set_loc s i (LCh 0)) (S (nseq s)) false (outst s))))
  | SubFail i stop =>
      guard (tok s && at_loc s i LSubmitting && (i =? nseq s) && (negb stop || (1 <=? cancel s)))
        (Some (set_sub (set_loc s i LNone) (nseq s) false (pred (outst s))))
  (* ---- context, Stop *)
  | CancelExt => Some (set_cancel s (Nat.max 1 (cancel s)))
  | StopCancel => guard (sphase s =? 0) (Some (set_sphase (set_cancel s (Nat.max 1 (cancel s))) 1))
  | StopClose 0 => guard ((sphase s =? 1) && negb (tok s)) (Some (set_sphase s 2))
  | StopClose 1 => guard ((sphase s =? 2) && (wexit s 0 =? nw c 0)) (Some (set_sphase s 3))
  | StopClose 2 => guard (von c && (sphase s =? 3) && (wexit s 1 =? nw c 1)) (Some (set_sphase s 4))
  | StopClose 3 => guard ((sphase s =? (if von c then 4 else 3)) && is_rst s RExit) (Some (set_sphase s 5))
  | StopClose _ => None
  | PCRead n => guard (n =? outst s) (Some s)
  (* ---- StageWorkerPool.worker *)
  | WTake st i =>
      guard (stage_ok c st && at_loc s i (LCh st) && (cnt (is_held st) s + wexit s st <? nw c st))
        (Some (set_loc s i (LW st PProc)))
  | WProc st i r =>
      guard (stage_ok c st && at_loc s i (LW st PProc))
        (if st =? 0 then
           (* DecodeStage.Process *)
           match r with
           | RSkip => guard (1 <=? cancel s) (Some (set_cancel (set_loc s i (LW st PErr)) 2))
           | ROk => guard (dec_ok c i) (Some (set_dst (set_loc s i (LW st PPut)) i DOk))
           | RErr => guard (negb (dec_ok c i)) (Some (set_dst (set_loc s i (LW st PErr)) i DErr))
           | RPass => None
           end
         else
           (* ValidateStage.Process: ctx check, then !IsDecoded -> nil, then the verdict *)
           match r with
           | RSkip => guard (1 <=? cancel s) (Some (set_cancel (set_loc s i (LW st PErr)) 2))
           | RPass => guard (negb (dst_ok s i)) (Some (set_loc s i (LW st PPut)))
           | ROk => guard (dst_ok s i && val_ok c i) (Some (set_vst (set_loc s i (LW st PPut)) i VOk))
           | RErr => guard (dst_ok s i && negb (val_ok c i)) (Some (set_vst (set_loc s i (LW st PErr)) i VErr))
           end)
  | WErrSent st i =>
      guard (at_loc s i (LW st PErr) && (errs s <? cap c))
        (Some (panic_if (closedE s) (set_errs (set_loc s i (LW st PPut)) (S (errs s)))))
  | WErrAbort st i =>
      guard (at_loc s i (LW st PErr) && (1 <=? cancel s)) (Some (inc_wexit (set_loc s i LDropped) st))
  | WPut st i =>
      guard (at_loc s i (LW st PPut) && (cnt (is_ch (S st)) s <? cap c))
        (Some (panic_if (closed s (S st)) (set_loc s i (LCh (S st)))))
  | WPutAbort st i =>
      guard (at_loc s i (LW st PPut) && (1 <=? cancel s)) (Some (inc_wexit (set_loc s i LDropped) st))
  | WExit st =>
      guard (stage_ok c st && (cnt (is_held st) s + wexit s st <? nw c st)
             && ((1 <=? cancel s) || (closed s st && (cnt (is_ch st) s =? 0))))
        (Some (inc_wexit s st))
  (* ---- ApplyStageRunner.run / ApplyStage.ProcessWithStatus *)
  | ATake i =>
      guard (is_rst s RIdle && at_loc s i (LCh (ain c))) (Some (set_rst (set_loc s i LRGot) RGot))
  | ADropCancel i =>
      guard (is_rst s RGot && at_loc s i LRGot && (1 <=? cancel s)) (Some (set_rst (set_loc s i LDropped) RErrSend))
  | ANext i =>
      guard (is_rst s RGot && at_loc s i LRGot && (i =? nexta s))
        (Some (set_rst (set_nexta (set_loc s i LRCur) (S (nexta s))) RApply))
  | ABuffer i =>
      guard (is_rst s RGot && at_loc s i LRGot && negb (i =? nexta s))
        (let s1 := set_loc s i LPend in
         Some (set_rst s1 (if (0 <? maxp c) && (maxp c <? cnt is_pend s1) then RErrSend else RIdle)))
  | AErrSent =>
      guard (is_rst s RErrSend && (errs s <? cap c)) (Some (panic_if (closedE s) (set_rst (set_errs s (S (errs s))) RIdle)))
  | AErrAbort => guard (is_rst s RErrSend && (1 <=? cancel s)) (Some (set_rst s RExit))
  (* ---- ApplyStage.maybeApply / applyItem *)
  | ASkip j =>
      guard (is_rst s RApply && at_loc s j LRCur && has_stage_err s j) (Some (set_rst (set_loc s j LRDone) RPend))
  | ANotVal j =>
      guard (is_rst s RApply && at_loc s j LRCur && negb (has_stage_err s j) && not_validated c s j)
        (Some (set_rst (set_aerr (set_loc s j LRDone) j true) RPend))
  | ACancelled j =>
      guard (is_rst s RApply && at_loc s j LRCur && negb (has_stage_err s j) && negb (not_validated c s j) && (1 <=? cancel s))
        (Some (set_rst (set_aerr (set_loc s j LRDone) j true) RPend))
  | ABegin j =>
      guard (is_rst s RApply && at_loc s j LRCur && negb (has_stage_err s j) && negb (not_validated c s j) && (cancel s <=? 1))
        (Some (set_rst (push_applied s j) RInApply))
  | AEnd j e =>
      guard (is_rst s RInApply && at_loc s j LRCur) (Some (set_rst (set_aerr (set_loc s j LRDone) j e) RPend))
  (* ---- ApplyStage.applyPending *)
  | APop j =>
      guard (is_rst s RPend && at_loc s j LPend && (j =? nexta s))
        (Some (set_rst (set_nexta (set_loc s j LRCur) (S (nexta s))) RApply))
  | APendStop cancelled =>
      guard (is_rst s RPend && (if cancelled then 1 <=? cancel s else negb (at_loc s (nexta s) LPend)))
        (Some (fwd_next s))
  (* ---- ApplyStageRunner.forwardItem *)
  | AFwdSend i =>
      guard (is_rst s RFwd && at_loc s i LRDone && (cnt (is_ch 3) s <? cap c))
        (Some (panic_if (closed s 3) (set_rst (push_fwd (set_loc s i (LCh 3)) i) (RFwdDec (aerr s i)))))
  | AFwdDec i =>
      match rst s with
      | RFwdDec e => Some (let s1 := set_outst s (pred (outst s)) in if e then set_rst s1 RFwdErr else fwd_next s1)
      | _ => None
      end
  | AFwdDrop i =>
      guard (is_rst s RFwd && at_loc s i LRDone && (1 <=? cancel s)) (Some (fwd_next (set_loc s i LDropped)))
  | AFwdErr =>
      guard (is_rst s RFwdErr && (errs s <? cap c)) (Some (panic_if (closedE s) (fwd_next (set_errs s (S (errs s))))))
  | AFwdErrDrop => guard (is_rst s RFwdErr && (1 <=? cancel s)) (Some (fwd_next s))
  | AExit =>
      guard (is_rst s RIdle && ((1 <=? cancel s) || (closed s (ain c) && (cnt (is_ch (ain c)) s =? 0))))
        (Some (set_rst s RExit))
  (* ---- consumers *)
  | ResRead i => guard (at_loc s i (LCh 3)) (Some (set_loc s i LDone))
  | ErrRead => guard (0 <? errs s) (Some (set_errs s (pred (errs s))))
  end.

Fixpoint run (c : cfg) (s : state) (ls : list label) : option state :=
  match ls with
  | [] => Some s
  | l :: r => match step c s l with Some s' => run c s' r | None => None end
  end.

(* labels the pipeline (or the consumers of its output channels, or a caller
   whose Submit is in progress) can perform on their own; the others are
   fresh calls by the environment: a new Submit, Stop, cancelling the parent
   context, reading PendingCount *)
Definition internal (l : label) : bool :=
  match l with SubBegin _ | CancelExt | StopCancel | PCRead _ => false | _ => true end.

(* ------------------------------------------------------------------------ *)
(* correspondence: a case is one recorded history of the real pipeline *)
Record case := {
  k_nd : nat; k_nv : nat; k_cap : nat; k_maxp : nat;
  k_dec : list bool; k_val : list bool;    (* verdict of the block that got sequence number i *)
  k_trace : list label;
  k_applied : list nat;                    (* ApplyFunc calls seen by the harness, in order *)
  k_results : list nat;                    (* sequence numbers read from Results(), sorted *)
  k_outst : nat }.                         (* PendingCount() after the run *)

Definition cfg_of (k : case) : cfg :=
  {| nD := k_nd k; nV := k_nv k; cap := k_cap k; maxp := k_maxp k;
     dec_ok := fun i => nth i (k_dec k) false; val_ok := fun i => nth i (k_val k) false |}.

Fixpoint nat_list_eqb (a b : list nat) : bool :=
  match a, b with [] , [] => true | x :: r, y :: r' => (x =? y) && nat_list_eqb r r' | _, _ => false end.

Definition done_items (s : state) : list nat :=
  filter (fun i => loc_eqb (loc s i) LDone) (seq 0 (S (nseq s))).

Definition check_case (k : case) : bool :=
  match run (cfg_of k) init (k_trace k) with
  | None => false
  | Some s => nat_list_eqb (applied s) (k_applied k) && nat_list_eqb (done_items s) (k_results k)
              && (outst s =? k_outst k) && negb (panicked s)
  end.

(* position of the first label the model refuses (diagnostics) *)
Fixpoint first_reject (c : cfg) (s : state) (ls : list label) (n : nat) : option nat :=
  match ls with
  | [] => None
  | l :: r => match step c s l with Some s' => first_reject c s' r (S n) | None => Some n end
  end.

Fixpoint failing_from (chk : case -> bool) (i : nat) (l : list case) : list nat :=
  match l with
  | [] => []
  | x :: r => if chk x then failing_from chk (S i) r else i :: failing_from chk (S i) r
  end.
Definition mismatches (l : list case) : list nat := failing_from check_case 0 l.
Definition diag (l : list case) : list (option nat) :=
  map (fun k => first_reject (cfg_of k) init (k_trace k) 0) l.
