(* C42 - proof infrastructure: reachability, reflection of the guards, counting lemmas. *)
From V Require Import Lib.Base C42.Model.

Inductive reach (c : cfg) : state -> Prop :=
| reach_init : reach c init
| reach_step s l s' : reach c s -> step c s l = Some s' -> reach c s'.

Lemma reach_run c : forall ls s s', reach c s -> run c s ls = Some s' -> reach c s'.
Proof.
  induction ls as [|l ls IH]; intros s s' R H; cbn in H.
  - injection H as <-. exact R.
  - destruct (step c s l) as [s1|] eqn:E; [|discriminate]. eapply IH; [|exact H]. econstructor; eauto.
Qed.

Lemma run_app c : forall l1 l2 s, run c s (l1 ++ l2) = match run c s l1 with Some s1 => run c s1 l2 | None => None end.
Proof. induction l1 as [|l l1 IH]; intros l2 s; cbn; [reflexivity|]. destruct (step c s l); auto. Qed.

Lemma guard_some b k s' : guard b k = Some s' -> b = true /\ k = Some s'.
Proof. unfold guard. destruct b; [auto|discriminate]. Qed.

Lemma phase_eqb_eq a b : phase_eqb a b = true <-> a = b.
Proof. destruct a, b; cbn; split; congruence. Qed.
Lemma loc_eqb_eq a b : loc_eqb a b = true <-> a = b.
Proof.
  destruct a, b; cbn; split; intros H; try congruence; try discriminate.
  - apply Nat.eqb_eq in H. congruence.
  - injection H as ->. apply Nat.eqb_refl.
  - apply andb_true_iff in H. destruct H as [H1 H2]. apply Nat.eqb_eq in H1. apply phase_eqb_eq in H2. congruence.
  - injection H as -> ->. rewrite Nat.eqb_refl. cbn. apply phase_eqb_eq. reflexivity.
Qed.
Lemma at_loc_eq s i l : at_loc s i l = true <-> loc s i = l.
Proof. apply loc_eqb_eq. Qed.
Lemma at_loc_neq s i l : at_loc s i l = false <-> loc s i <> l.
Proof. unfold at_loc. split; intros H. - intros E. apply loc_eqb_eq in E. congruence.
  - destruct (loc_eqb (loc s i) l) eqn:E; [apply loc_eqb_eq in E; contradiction|reflexivity]. Qed.
Lemma is_rst_eq s r : is_rst s r = true -> rst s = r.
Proof. unfold is_rst. destruct (rst s), r; congruence. Qed.

Ltac bprop :=
  repeat match goal with
  | H : _ && _ = true |- _ => apply andb_true_iff in H; destruct H
  | H : negb _ = true |- _ => apply negb_true_iff in H
  | H : negb _ = false |- _ => apply negb_false_iff in H
  | H : (_ =? _) = true |- _ => apply Nat.eqb_eq in H
  | H : (_ =? _) = false |- _ => apply Nat.eqb_neq in H
  | H : (_ <? _) = true |- _ => apply Nat.ltb_lt in H
  | H : (_ <=? _) = true |- _ => apply Nat.leb_le in H
  | H : (_ <? _) = false |- _ => apply Nat.ltb_ge in H
  | H : (_ <=? _) = false |- _ => apply Nat.leb_gt in H
  | H : at_loc _ _ _ = true |- _ => apply at_loc_eq in H
  | H : at_loc _ _ _ = false |- _ => apply at_loc_neq in H
  | H : is_rst _ _ = true |- _ => apply is_rst_eq in H
  end.

(* case analysis of one step: one goal per label (and per branch inside it),
   the guards as hypotheses, s' replaced by the explicit successor *)
Ltac destr_step H :=
  unfold step in H;
  repeat match type of H with
  | guard ?b ?k = Some _ => apply guard_some in H; let G := fresh "G" in destruct H as [G H]
  | match ?x with _ => _ end = Some _ => destruct x eqn:?; try discriminate H
  | None = Some _ => discriminate H
  end;
  try (injection H as H); try subst.

Lemma upd_same {A} (f : nat -> A) i v : upd f i v i = v.
Proof. unfold upd. rewrite Nat.eqb_refl. reflexivity. Qed.
Lemma upd_other {A} (f : nat -> A) i v j : j <> i -> upd f i v j = f j.
Proof. unfold upd. intros H. apply Nat.eqb_neq in H. rewrite H. reflexivity. Qed.

(* ---- counting ---- *)
Arguments cnt : simpl never.
Definition b2n (b : bool) : nat := if b then 1 else 0.

Definition cntf (p : location -> bool) (f : nat -> location) (n : nat) : nat :=
  length (filter (fun i => p (f i)) (seq 0 n)).
Lemma cnt_cntf p s : cnt p s = cntf p (loc s) (S (nseq s)).
Proof. reflexivity. Qed.

Lemma cntf_S p f n : cntf p f (S n) = cntf p f n + b2n (p (f n)).
Proof.
  unfold cntf. rewrite seq_S, filter_app, app_length. cbn. destruct (p (f n)); cbn; lia.
Qed.

Lemma cntf_upd_out p f i v n : n <= i -> cntf p (upd f i v) n = cntf p f n.
Proof.
  induction n as [|n IH]; intros H; [reflexivity|].
  rewrite !cntf_S, IH by lia. rewrite upd_other by lia. reflexivity.
Qed.

Lemma cntf_upd p f i v n : i < n -> cntf p (upd f i v) n + b2n (p (f i)) = cntf p f n + b2n (p v).
Proof.
  induction n as [|n IH]; intros H; [lia|].
  rewrite !cntf_S. destruct (Nat.eq_dec i n) as [->|Hne].
  - rewrite cntf_upd_out by lia. rewrite upd_same. lia.
  - rewrite upd_other by lia. specialize (IH ltac:(lia)). lia.
Qed.

Lemma cntf_pos_ex p f n : 0 < cntf p f n -> exists i, i < n /\ p (f i) = true.
Proof.
  induction n as [|n IH]; intros H; [cbv in H; lia|].
  rewrite cntf_S in H. destruct (p (f n)) eqn:E.
  - exists n. split; [lia|exact E].
  - cbn in H. destruct IH as (i & Hi & Hp); [lia|]. exists i. split; [lia|exact Hp].
Qed.

Lemma cntf_ge1 p f n i : i < n -> p (f i) = true -> 1 <= cntf p f n.
Proof.
  induction n as [|n IH]; intros H E; [lia|].
  rewrite cntf_S. destruct (Nat.eq_dec i n) as [->|Hne]; [rewrite E; cbn; lia|].
  specialize (IH ltac:(lia) E). lia.
Qed.

Lemma cntf_zero_all p f n : cntf p f n = 0 -> forall i, i < n -> p (f i) = false.
Proof.
  intros H i Hi. destruct (p (f i)) eqn:E; [|reflexivity].
  pose proof (cntf_ge1 p f n i Hi E) as G. rewrite H in G. inversion G.
Qed.

Lemma cnt_set_loc p s i l : i <= nseq s ->
  cnt p (set_loc s i l) + b2n (p (loc s i)) = cnt p s + b2n (p l).
Proof. intros H. rewrite !cnt_cntf. cbn [loc nseq set_loc]. apply cntf_upd. lia. Qed.

Lemma cnt_pos_ex p s : 0 < cnt p s -> exists i, i <= nseq s /\ p (loc s i) = true.
Proof. rewrite cnt_cntf. intros H. apply cntf_pos_ex in H. destruct H as (i & Hi & Hp). exists i. split; [lia|exact Hp]. Qed.
Lemma cnt_ge1 p s i : i <= nseq s -> p (loc s i) = true -> 1 <= cnt p s.
Proof. intros H E. rewrite cnt_cntf. apply (cntf_ge1 p (loc s) (S (nseq s)) i); [lia|exact E]. Qed.
Lemma cnt_zero_all p s : cnt p s = 0 -> forall i, i <= nseq s -> p (loc s i) = false.
Proof. rewrite cnt_cntf. intros H i Hi. apply (cntf_zero_all p (loc s) (S (nseq s)) H i). lia. Qed.

(* cnt depends on loc and nseq only *)
Lemma cnt_ext p s1 s2 : loc s1 = loc s2 -> nseq s1 = nseq s2 -> cnt p s1 = cnt p s2.
Proof. intros H1 H2. rewrite !cnt_cntf, H1, H2. reflexivity. Qed.

(* SubOk: the range grows by one index whose location is LNone *)
Lemma cnt_grow p s t o : p (loc s (S (nseq s))) = false ->
  cnt p (set_sub s (S (nseq s)) t o) = cnt p s.
Proof. intros H. rewrite !cnt_cntf. cbn [loc nseq set_sub]. rewrite cntf_S, H. cbn. lia. Qed.
