(* C22 - chain-sync wrapping preserves block and header identity.
   Model of protocol/chainsync/messages.go (NewMsgRollForwardNtC / NtN,
   MsgRollForwardNtC.UnmarshalCBOR, NewMsgFromCbor for message type 2),
   protocol/chainsync/wrappers.go (WrappedBlock, NewWrappedHeader,
   WrappedHeader.MarshalCBOR / UnmarshalCBOR incl. the Byron variant),
   protocol/chainsync/server.go (RollForward: choice of the era id) and
   protocol/chainsync/client.go (handleRollForward: choice of the block type
   handed to ledger.NewBlockFromCbor / NewBlockHeaderFromCbor).

   Encoder side: fxamacker encodes Go structs / []any with the shortest
   header forms; cbor.Tag{24, []byte} becomes d8 18 + a definite byte string;
   a cbor.RawMessage is copied verbatim (an empty one becomes null, f6).
   Decoder side: fxamacker = Lib.CborParse.parse_full (first item, trailing
   bytes ignored) + the shape checks written out below (struct-as-array needs
   the exact element count, uint fields take any width, cbor.Tag takes any tag
   number, a byte string may be chunked).
   The era tables are in C22/Gen.v (generated).  NO proofs here. *)
From V Require Import Lib.Base Lib.Cbor Lib.CborParse Lib.CborLemmas Lib.CborSpan.
Local Open Scope N_scope.

(* ---- what the fxamacker encoder emits ---- *)
Definition muint (n : N) : item := UInt (min_form n) n.
Definition mbstr (bs : bytes) : item := BStr (min_form (N.of_nat (length bs))) bs.
Definition tag24 (x : item) : item := Tag F1 24 x.
Definition arr2 (a b : item) : item := Arr (Some Fimm) [a; b].
Definition arr3 (a b c : item) : item := Arr (Some Fimm) [a; b; c].

(* cbor.RawMessage.MarshalCBOR: verbatim; empty -> null *)
Definition raw (bs : bytes) : bytes := match bs with [] => [246] | _ => bs end.

(* MessageTypeRollForward *)
Definition msg_roll_forward : N := 2.

(* the Tip as the decoder accepts it: [point, blockNo], point = [] or
   [slot, hash]  (protocol/common Tip / Point; C04 is about the point) *)
Definition point_ok (p : item) : bool :=
  match p with
  | Arr _ [] => true
  | Arr _ [UInt _ _; BStr _ _] => true
  | Arr _ [UInt _ _; BStrI _] => true
  | _ => false
  end.
Definition tip_ok (t : item) : bool :=
  match t with Arr _ [p; UInt _ _] => point_ok p | _ => false end.

(* ---- node-to-client ---- *)

(* cbor.Encode(NewWrappedBlock(t, bs)) : [t, raw block] *)
Definition wrapped_block_bytes (t : N) (bs : bytes) : bytes :=
  enc_head 4 Fimm 2 ++ enc (muint t) ++ raw bs.

(* fxamacker checks the output of every MarshalCBOR (RawMessage included):
   exactly one well-formed item *)
Definition one_item (bs : bytes) : bool :=
  match parse_full bs with Ok _ [] => true | _ => false end.

(* NewMsgRollForwardNtC + cbor.Encode(msg) *)
Definition wrap_ntc (t : N) (bs : bytes) (tip : item) : option item :=
  if one_item (raw bs) then
    Some (arr3 (muint msg_roll_forward) (tag24 (mbstr (wrapped_block_bytes t bs))) tip)
  else None.

(* content of a cbor.Tag decoded into `any`, asserted to be []byte *)
Definition bytes_of (c : item) : option bytes :=
  match c with
  | BStr _ bs => Some bs
  | BStrI cs => Some (flat_map snd cs)
  | _ => None
  end.

(* cbor.Decode(content, &WrappedBlock): [uint, RawMessage], trailing ignored *)
Definition unwrap_block (content : bytes) : option (N * bytes) :=
  match parse_full content with
  | Ok (Arr _ [UInt _ t; b]) _ => Some (t, enc b)
  | _ => None
  end.

(* NewMsgFromCbor(NtC, 2, data) then BlockType(), BlockCbor(), Tip *)
Definition unwrap_ntc (msg : bytes) : option (N * bytes * item) :=
  match parse_full msg with
  | Ok (Arr _ [UInt _ _; Tag _ _ c; tip]) _ =>
      if tip_ok tip then
        match bytes_of c with
        | Some content =>
            match unwrap_block content with
            | Some (t, b) => Some (t, b, tip)
            | None => None
            end
        | None => None
        end
      else None
  | _ => None
  end.

(* ---- node-to-node ---- *)

(* fxamacker skips tags when the destination is not a tag type *)
Fixpoint strip_tags (i : item) : item := match i with Tag _ _ x => strip_tags x | _ => i end.

(* NewWrappedHeader: cbor.Decode(blockCbor, &[]RawMessage); tmp[0].
   The header is the byte range of child 0 of the outer array: the parser
   keeps every header form, so `enc h` IS that range (Proofs.header_of_slice). *)
Definition header_of (block : bytes) : option bytes :=
  match parse_full block with
  | Ok i _ => match strip_tags i with Arr _ (h :: _) => Some (enc h) | _ => None end
  | _ => None
  end.

Definition header_era_byron : N := 0.

(* WrappedHeader.MarshalCBOR *)
Definition wrapped_header (era byron_type byron_size : N) (hdr : bytes) : item :=
  if era =? header_era_byron then
    arr2 (muint era) (arr2 (arr2 (muint byron_type) (muint byron_size)) (tag24 (mbstr hdr)))
  else
    arr2 (muint era) (tag24 (mbstr hdr)).

(* NewMsgRollForwardNtN + cbor.Encode(msg).  byronSize = len(blockCbor) + 2
   for era 0, and the zero value otherwise (not on the wire then) *)
Definition byron_size_of (era : N) (block : bytes) : N :=
  if era =? header_era_byron then N.of_nat (length block) + 2 else 0.

Definition wrap_ntn (era byron_type : N) (block : bytes) (tip : item) : option item :=
  match header_of block with
  | Some hdr =>
      Some (arr3 (muint msg_roll_forward)
                 (wrapped_header era byron_type (byron_size_of era block) hdr) tip)
  | None => None
  end.

Record ntn_out := { o_era : N; o_byron_type : N; o_byron_size : N; o_header : bytes; o_tip : item }.

Definition tag_bytes (x : item) : option bytes :=
  match x with Tag _ _ c => bytes_of c | _ => None end.

(* WrappedHeader.UnmarshalCBOR *)
Definition unwrap_header (w : item) : option (N * N * N * bytes) :=
  match w with
  | Arr _ [UInt _ era; hr] =>
      if era =? header_era_byron then
        match hr with
        | Arr _ [Arr _ [UInt _ ty; UInt _ sz]; tg] =>
            match tag_bytes tg with Some h => Some (era, ty, sz, h) | None => None end
        | _ => None
        end
      else
        match tag_bytes hr with Some h => Some (era, 0, 0, h) | None => None end
  | _ => None
  end.

(* NewMsgFromCbor(NtN, 2, data) *)
Definition unwrap_ntn (msg : bytes) : option ntn_out :=
  match parse_full msg with
  | Ok (Arr _ [UInt _ _; w; tip]) _ =>
      if tip_ok tip then
        match unwrap_header w with
        | Some (era, ty, sz, h) => Some {| o_era := era; o_byron_type := ty; o_byron_size := sz; o_header := h; o_tip := tip |}
        | None => None
        end
      else None
  | _ => None
  end.

(* ---- era tables (ledger/era.go), passed in from C22/Gen.v ---- *)
Fixpoint lookup (tbl : list (N * N)) (k : N) : option N :=
  match tbl with
  | [] => None
  | (a, b) :: r => if a =? k then Some b else lookup r k
  end.

Section eras.
  Variables block_to_header header_to_block : list (N * N).

  (* Server.RollForward in NtN mode: era id from BlockToBlockHeaderTypeMap,
     byronType 0 *)
  Definition server_ntn (t : N) (block : bytes) (tip : item) : option item :=
    match lookup block_to_header t with
    | Some era => wrap_ntn era 0 block tip
    | None => None
    end.

  (* Client.handleRollForward in NtN mode: the block type given to
     ledger.NewBlockHeaderFromCbor, and the header bytes *)
  Definition client_block_type (o : ntn_out) : option N :=
    if o_era o =? header_era_byron then Some (o_byron_type o)
    else lookup header_to_block (o_era o).

  Definition client_ntn (msg : bytes) : option (N * bytes * item) :=
    match unwrap_ntn msg with
    | Some o => match client_block_type o with
                | Some t => Some (t, o_header o, o_tip o)
                | None => None
                end
    | None => None
    end.

  (* finite check of the tables: first offending entry, if any.
     kinds: 1 = a Shelley+ block type without era id, 2 = era id does not map
     back to the block type, 3 = era id <> block type - 1 (hard-fork
     combinator numbering: NtC block tags are Byron EBB 0, Byron main 1,
     Shelley 2 ...; NtN era indices are Byron 0, Shelley 1 ...),
     4 = an entry of header_to_block that block_to_header does not invert,
     5 = duplicate key *)
  Definition check_type (t : N) : option (N * N * N) :=
    match lookup block_to_header t with
    | None => Some (1, t, 0)
    | Some e =>
        match lookup header_to_block e with
        | Some t' => if t' =? t then (if e + 1 =? t then None else Some (3, t, e)) else Some (2, t, e)
        | None => Some (2, t, e)
        end
    end.
  Definition check_back (p : N * N) : option (N * N * N) :=
    match lookup block_to_header (snd p) with
    | Some e => if e =? fst p then None else Some (4, fst p, snd p)
    | None => Some (4, fst p, snd p)
    end.
  Fixpoint first_some {A B} (f : A -> option B) (l : list A) : option B :=
    match l with [] => None | x :: r => match f x with Some y => Some y | None => first_some f r end end.
  Fixpoint dup_key (l : list (N * N)) : option (N * N * N) :=
    match l with
    | [] => None
    | (k, v) :: r => match lookup r k with Some _ => Some (5, k, v) | None => dup_key r end
    end.
  Definition era_check (types : list N) : option (N * N * N) :=
    match first_some check_type types with Some x => Some x | None =>
    match first_some check_back header_to_block with Some x => Some x | None =>
    match dup_key block_to_header with Some x => Some x | None => dup_key header_to_block end end end.
End eras.

(* ---- correspondence cases ---- *)
Definition opt_bytes_eqb := opt_eqb bytes_eqb.

(* observed wire bytes; WSplit pre suf stands for pre ++ block ++ suf (the
   harness has checked that split itself), so that a block is written once *)
Inductive wire := WFull (w : bytes) | WSplit (pre suf : bytes).
Definition wire_bytes (block : bytes) (w : wire) : bytes :=
  match w with WFull b => b | WSplit pre suf => pre ++ block ++ suf end.

Inductive case :=
(* one block through both constructors, cbor.Encode and NewMsgFromCbor *)
| CBlock (t era bty : N) (block : bytes) (tip : item)
         (ntc_wire : option wire)               (* None = constructor/encoder error *)
         (ntc_back : option (N * option bytes)) (* BlockType(), BlockCbor(); inner None = identical to `block` *)
         (ntn_wire : option bytes)
         (ntn_back : option (N * N * bytes))    (* Era, ByronType(), HeaderCbor() *)
(* hand-made wire messages through NewMsgFromCbor *)
| CWireNtc (w : bytes) (back : option (N * bytes))
| CWireNtn (w : bytes) (back : option (N * N * bytes))
(* what the real client's RollForward callback received for a wire message:
   ntn = true: block type + header bytes; false: block type + block bytes *)
| CClient (ntn : bool) (w : bytes) (back : option (N * bytes))
(* NtN, block type only (the header bytes were compared by the harness) *)
| CClientType (w : bytes) (t : option N)
(* history: message w was decoded, further messages were decoded after it,
   and only then its accessors were read: block type + block bytes (ntn =
   false) resp. era, byron type + header bytes (ntn = true); the bytes read
   are given as the range [off, off+len) of w where the harness found them *)
| CLate (ntn : bool) (w : bytes) (a b off len : N).

Definition ntc_view (r : option (N * bytes * item)) : option (N * bytes) :=
  match r with Some (t, b, _) => Some (t, b) | None => None end.
Definition ntn_view (r : option ntn_out) : option (N * N * bytes) :=
  match r with Some o => Some (o_era o, o_byron_type o, o_header o) | None => None end.
Definition nb_eqb (a b : N * bytes) : bool := (fst a =? fst b) && bytes_eqb (snd a) (snd b).
Definition nnb_eqb (a b : N * N * bytes) : bool :=
  (fst (fst a) =? fst (fst b)) && (snd (fst a) =? snd (fst b)) && bytes_eqb (snd a) (snd b).

Definition check_case (header_to_block : list (N * N)) (c : case) : bool :=
  match c with
  | CBlock t era bty block tip ntc_wire ntc_back ntn_wire ntn_back =>
      let m1 := option_map enc (wrap_ntc t block tip) in
      let m2 := option_map enc (wrap_ntn era bty block tip) in
      opt_bytes_eqb m1 (option_map (wire_bytes block) ntc_wire) &&
      match m1 with
      | Some wb => opt_eqb nb_eqb (ntc_view (unwrap_ntc wb))
                     (option_map (fun p => (fst p, match snd p with Some b => b | None => block end)) ntc_back)
      | None => true end &&
      opt_bytes_eqb m2 ntn_wire &&
      match m2 with
      | Some wb => opt_eqb nnb_eqb (ntn_view (unwrap_ntn wb)) ntn_back
      | None => true end
  | CWireNtc w back => opt_eqb nb_eqb (ntc_view (unwrap_ntc w)) back
  | CWireNtn w back => opt_eqb nnb_eqb (ntn_view (unwrap_ntn w)) back
  | CClient true w back =>
      opt_eqb nb_eqb (match client_ntn header_to_block w with Some (t, h, _) => Some (t, h) | None => None end) back
  | CClient false w back => opt_eqb nb_eqb (ntc_view (unwrap_ntc w)) back
  | CLate false w a _ off len =>
      opt_eqb nb_eqb (ntc_view (unwrap_ntc w)) (Some (a, slice (N.to_nat off) (N.to_nat len) w))
  | CLate true w a b off len =>
      opt_eqb nnb_eqb (ntn_view (unwrap_ntn w)) (Some (a, b, slice (N.to_nat off) (N.to_nat len) w))
  | CClientType w t =>
      opt_eqb N.eqb (match client_ntn header_to_block w with Some (t', _, _) => Some t' | None => None end) t
  end.
