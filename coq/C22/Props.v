(* C22 - property theorems only. *)
From V Require Import Lib.CborProofs C22.Model C22.Gen C22.Proofs C22.Run. (* Run: entry point of the correspondence, built with the cone *)
Local Open Scope N_scope.

(* every Shelley-or-later block type the ledger decodes (generated) *)
Definition shelley_plus : list N :=
  filter (fun t => negb (existsb (N.eqb t) Gen.byron_block_types)) Gen.block_types.

(* Node-to-client: for EVERY well-formed block item b (any header forms, any
   nesting, any size below 2^64), every block type and tip, the server's
   message decodes at the client to the same type, the byte-identical block
   and the same tip; trailing bytes after the message do not matter. *)
Theorem C22_ntc : forall t b tip trail,
  wf b -> wf tip -> tip_ok tip = true -> t < 2 ^ 64 ->
  N.of_nat (length (enc b)) + 10 < 2 ^ 64 ->
  exists m, wrap_ntc t (enc b) tip = Some m /\
            unwrap_ntc (enc m ++ trail) = Some (t, enc b, tip).
Proof.
  intros t b tip trail Hb Ht Hok Hlt Hlen.
  destruct (ntc_roundtrip t b tip trail Hb Ht Hok Hlt Hlen) as (m & E & _ & U). eauto.
Qed.
Print Assumptions C22_ntc.

(* Node-to-node: for every well-formed block whose outer item is an array
   with at least one element (any header form incl. indefinite; trailing
   bytes after the block allowed), the header bytes that arrive are the
   encoding of element 0, which is the byte range of the block right after
   the outer array header; hence for EVERY hash function H the hash of the
   arriving header is the hash of the block's header bytes. *)
Theorem C22_ntn : forall era bt f h rest tip trail btrail,
  let b := Arr f (h :: rest) in
  wf b -> wf tip -> tip_ok tip = true -> era < 2 ^ 64 -> bt < 2 ^ 64 ->
  N.of_nat (length (enc b ++ btrail)) + 2 < 2 ^ 64 ->
  exists m o, wrap_ntn era bt (enc b ++ btrail) tip = Some m /\
    unwrap_ntn (enc m ++ trail) = Some o /\
    o_era o = era /\ o_tip o = tip /\
    (era = header_era_byron -> o_byron_type o = bt /\ o_byron_size o = N.of_nat (length (enc b ++ btrail)) + 2) /\
    o_header o = enc h /\
    o_header o = slice (hdr_size f) (length (enc h)) (enc b ++ btrail) /\
    forall (H : bytes -> bytes),
      H (o_header o) = H (slice (hdr_size f) (length (enc h)) (enc b ++ btrail)).
Proof.
  intros era bt f h rest tip trail btrail b Hb Ht Hok He Hbt Hlen.
  destruct (ntn_roundtrip era bt f h rest tip trail btrail Hb Ht Hok He Hbt Hlen) as (m & E & _ & U).
  eexists m, _. split; [exact E|]. split; [exact U|]. cbn [o_era o_tip o_byron_type o_byron_size o_header].
  pose proof (header_slice f h rest btrail) as S. fold b in S.
  split; [reflexivity|]. split; [reflexivity|]. split.
  { intros ->. split; reflexivity. }
  split; [reflexivity|]. split; [symmetry; exact S|].
  intros H. rewrite S. reflexivity.
Qed.
Print Assumptions C22_ntn.

(* whatever block bytes the server is given: a header that goes out is a
   contiguous byte range of the block (never a re-encoding) *)
Theorem C22_ntn_no_reencoding : forall era bt block tip m,
  all_bytes block -> wrap_ntn era bt block tip = Some m ->
  exists hdr pre post, header_of block = Some hdr /\ block = pre ++ hdr ++ post.
Proof.
  intros era bt block tip m Hb W. unfold wrap_ntn in W.
  destruct (header_of block) as [hdr|] eqn:E; [|discriminate].
  destruct (header_of_sound block hdr Hb E) as (pre & post & Eq). eauto.
Qed.

(* The era tables: every Shelley+ block type has an era id that maps back to
   it and follows the hard-fork numbering; the two maps are mutually inverse. *)
Theorem C22_era_check : era_check Gen.block_to_header Gen.header_to_block shelley_plus = None.
Proof. vm_compute. reflexivity. Qed.

Theorem C22_era : forall t, In t shelley_plus ->
  exists e, lookup Gen.block_to_header t = Some e /\ lookup Gen.header_to_block e = Some t /\ e + 1 = t.
Proof. exact (era_check_types _ _ _ C22_era_check). Qed.

Theorem C22_era_inverse : forall e t,
  lookup Gen.header_to_block e = Some t -> lookup Gen.block_to_header t = Some e.
Proof. exact (era_check_back _ _ _ C22_era_check). Qed.
Print Assumptions C22_era.

(* the constants of the hand model are the ones of the code *)
Theorem C22_constants :
  header_era_byron = Gen.header_type_byron /\ msg_roll_forward = Gen.msg_type_roll_forward /\
  Gen.header_block_types = Gen.block_types /\ shelley_plus <> [].
Proof. repeat split; try reflexivity. discriminate. Qed.

(* End to end: Server.RollForward (NtN) followed by Client.handleRollForward:
   a Shelley+ block of type t arrives as (t, header bytes of the block, tip). *)
Theorem C22_ntn_end_to_end : forall t f h rest tip trail,
  let b := Arr f (h :: rest) in
  In t shelley_plus -> wf b -> wf tip -> tip_ok tip = true ->
  N.of_nat (length (enc b)) + 2 < 2 ^ 64 ->
  exists m, server_ntn Gen.block_to_header t (enc b) tip = Some m /\
    client_ntn Gen.header_to_block (enc m ++ trail) = Some (t, enc h, tip).
Proof.
  intros t f h rest tip trail b Hin Hb Ht Hok Hlen.
  destruct (C22_era t Hin) as (e & L1 & L2 & Ee).
  assert (Hlt : forall x, In x shelley_plus -> 2 <= x < 64).
  { assert (G : forallb (fun x => (2 <=? x) && (x <? 64)) shelley_plus = true) by (vm_compute; reflexivity).
    intros x Hx. rewrite forallb_forall in G. specialize (G x Hx). lia. }
  specialize (Hlt t Hin).
  assert (He : e < 2 ^ 64) by (change (2 ^ 64) with 18446744073709551616; lia).
  rewrite <- (app_nil_r (enc b)) in Hlen.
  destruct (ntn_roundtrip e 0 f h rest tip trail [] Hb Ht Hok He ltac:(cbv; reflexivity) Hlen) as (m & W & _ & U).
  rewrite app_nil_r in W, U. fold b in W, U.
  exists m. split.
  - unfold server_ntn. rewrite L1. exact W.
  - unfold client_ntn. rewrite U. unfold client_block_type. cbn [o_era o_header o_tip o_byron_type].
    assert (Ez : (e =? header_era_byron) = false) by (apply N.eqb_neq; unfold header_era_byron; lia).
    rewrite Ez, L2. reflexivity.
Qed.
Print Assumptions C22_ntn_end_to_end.

(* non-vacuity: a two-element indefinite-length block with a non-minimal header *)
Example C22_nonvacuous :
  let b := Arr None [Arr (Some F2) [UInt F8 7]; Map (Some Fimm) []] in
  let tip := Arr (Some Fimm) [Arr (Some Fimm) []; UInt Fimm 0] in
  wf b /\ wf tip /\ tip_ok tip = true /\ In 7 shelley_plus /\
  option_map enc (wrap_ntn 6 0 (enc b) tip) = Some [131; 2; 130; 6; 216; 24; 76; 153; 0; 1; 27; 0; 0; 0; 0; 0; 0; 0; 7; 130; 128; 0] /\
  client_ntn Gen.header_to_block [131; 2; 130; 6; 216; 24; 76; 153; 0; 1; 27; 0; 0; 0; 0; 0; 0; 0; 7; 130; 128; 0]
    = Some (7, [153; 0; 1; 27; 0; 0; 0; 0; 0; 0; 0; 7], tip).
Proof. vm_compute. repeat split; try lia; auto 20. Qed.
