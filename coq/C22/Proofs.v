(* C22 - lemmas. *)
From V Require Import Lib.CborProofs C22.Model.
Local Open Scope N_scope.

(* ---- well-formedness of what the encoder emits ---- *)
Lemma min_form_fits n : n < 2 ^ 64 -> fits (min_form n) n.
Proof.
  intros H. unfold min_form.
  destruct (n <? 24) eqn:E1; [cbn [fits]; lia|].
  destruct (n <? 2 ^ 8) eqn:E2; [cbn [fits]; lia|].
  destruct (n <? 2 ^ 16) eqn:E3; [cbn [fits]; lia|].
  destruct (n <? 2 ^ 32) eqn:E4; cbn [fits]; lia.
Qed.

Lemma wf_muint n : n < 2 ^ 64 -> wf (muint n).
Proof. intros H. cbn [muint wf]. apply min_form_fits, H. Qed.

Lemma wf_mbstr bs : all_bytes bs -> N.of_nat (length bs) < 2 ^ 64 -> wf (mbstr bs).
Proof. intros Hb Hl. cbn [mbstr wf]. split; [apply min_form_fits, Hl|exact Hb]. Qed.

Lemma wf_tag24 x : wf x -> wf (tag24 x).
Proof. intros H. cbn [tag24 wf fits]. split; [lia|exact H]. Qed.

Lemma wf_arr2 a b : wf a -> wf b -> wf (arr2 a b).
Proof. intros Ha Hb. cbn. repeat split; try assumption; lia. Qed.

Lemma wf_arr3 a b c : wf a -> wf b -> wf c -> wf (arr3 a b c).
Proof. intros Ha Hb Hc. cbn. repeat split; try assumption; lia. Qed.

Lemma raw_enc b : wf b -> raw (enc b) = enc b.
Proof. intros H. pose proof (enc_nonempty b H). destruct (enc b); [cbn in *; lia|reflexivity]. Qed.

Lemma parse_full_enc_nil i : wf i -> parse_full (enc i) = Ok i [].
Proof. intros H. rewrite <- (app_nil_r (enc i)). apply parse_full_enc, H. Qed.

Lemma one_item_enc b : wf b -> one_item (enc b) = true.
Proof. intros H. unfold one_item. rewrite parse_full_enc_nil by exact H. reflexivity. Qed.

(* the wrapped block is the encoding of [t, block] *)
Lemma wrapped_block_enc t b : wf b ->
  wrapped_block_bytes t (enc b) = enc (arr2 (muint t) b).
Proof.
  intros H. unfold wrapped_block_bytes, arr2. rewrite raw_enc by exact H.
  rewrite enc_arr_def. cbn [length flat_map]. rewrite app_nil_r. reflexivity.
Qed.

Lemma wrapped_block_length t b : wf b ->
  length (wrapped_block_bytes t (enc b)) = (1 + length (enc (muint t)) + length (enc b))%nat.
Proof.
  intros H. unfold wrapped_block_bytes. rewrite raw_enc by exact H.
  rewrite !app_length, enc_head_length. reflexivity.
Qed.

Lemma muint_length t : (length (enc (muint t)) <= 9)%nat.
Proof. unfold muint. rewrite enc_length_uint. destruct (min_form t); cbn; lia. Qed.

Lemma unwrap_block_enc t b trail : wf b -> t < 2 ^ 64 ->
  unwrap_block (wrapped_block_bytes t (enc b) ++ trail) = Some (t, enc b).
Proof.
  intros Hb Ht. rewrite wrapped_block_enc by exact Hb. unfold unwrap_block.
  rewrite parse_full_enc by (apply wf_arr2; [apply wf_muint, Ht|exact Hb]).
  reflexivity.
Qed.

(* ---- node-to-client round trip ---- *)
Lemma ntc_roundtrip t b tip trail :
  wf b -> wf tip -> tip_ok tip = true -> t < 2 ^ 64 ->
  N.of_nat (length (enc b)) + 10 < 2 ^ 64 ->
  exists m, wrap_ntc t (enc b) tip = Some m /\ wf m /\
            unwrap_ntc (enc m ++ trail) = Some (t, enc b, tip).
Proof.
  intros Hb Htip Hok Ht Hlen.
  assert (Hc : wf (mbstr (wrapped_block_bytes t (enc b)))).
  { apply wf_mbstr.
    - rewrite wrapped_block_enc by exact Hb. apply enc_bytes.
      apply wf_arr2; [apply wf_muint, Ht|exact Hb].
    - rewrite wrapped_block_length by exact Hb. pose proof (muint_length t). lia. }
  assert (Hm : wf (arr3 (muint msg_roll_forward) (tag24 (mbstr (wrapped_block_bytes t (enc b)))) tip)).
  { apply wf_arr3; [apply wf_muint; cbv; reflexivity|apply wf_tag24, Hc|exact Htip]. }
  eexists. split; [|split].
  - unfold wrap_ntc. rewrite raw_enc, one_item_enc by exact Hb. reflexivity.
  - exact Hm.
  - unfold unwrap_ntc. rewrite parse_full_enc by exact Hm.
    unfold arr3, muint at 1, tag24. rewrite Hok. cbn [mbstr bytes_of].
    rewrite <- (app_nil_r (wrapped_block_bytes t (enc b))).
    rewrite unwrap_block_enc by assumption. reflexivity.
Qed.

(* ---- the header of a block: child 0, at its true span ---- *)
Lemma header_of_enc f h rest trail : wf (Arr f (h :: rest)) ->
  header_of (enc (Arr f (h :: rest)) ++ trail) = Some (enc h).
Proof. intros H. unfold header_of. rewrite parse_full_enc by exact H. reflexivity. Qed.

Lemma header_slice f h rest trail :
  slice (hdr_size f) (length (enc h)) (enc (Arr f (h :: rest)) ++ trail) = enc h.
Proof.
  destruct (child_split_arr f (h :: rest) 0 h eq_refl) as (pre & post & E & L).
  rewrite E. unfold child_off in L. cbn [firstn flat_map length] in L. rewrite Nat.add_0_r in L.
  rewrite <- L, <- !app_assoc. apply slice_app.
Qed.

(* whatever bytes come in: if a header is extracted, it is the byte range
   right after the outer array header (tags skipped) *)
Lemma header_of_sound bs hb : all_bytes bs -> header_of bs = Some hb ->
  exists pre post, bs = pre ++ hb ++ post.
Proof.
  intros Hb H. unfold header_of in H. destruct (parse_full bs) as [i r| |] eqn:P; try discriminate.
  destruct (parse_full_sound _ _ _ Hb P) as [-> Hw].
  clear P Hb. revert Hw H.
  induction i as [? ?|? ?|? ?|?|? ?|?|f xs _|? ? _|f t x IHi|? ?|? ?] using item_ind'; intros Hw H; cbn [strip_tags] in H; try discriminate.
  - destruct xs as [|h rest]; [discriminate|]. injection H as <-.
    destruct (child_split_arr f (h :: rest) 0 h eq_refl) as (pre & post & E & _).
    exists pre, (post ++ r). rewrite E, <- !app_assoc. reflexivity.
  - destruct Hw as [_ Hw]. destruct (IHi Hw H) as (pre & post & E).
    rewrite enc_tag, <- app_assoc, E. exists (enc_head 6 f t ++ pre), post.
    rewrite <- !app_assoc. reflexivity.
Qed.

(* ---- node-to-node round trip ---- *)
Lemma unwrap_header_wrapped era bt sz hdr :
  unwrap_header (wrapped_header era bt sz hdr) =
  Some (if era =? header_era_byron then (era, bt, sz, hdr) else (era, 0, 0, hdr)).
Proof.
  unfold wrapped_header. destruct (era =? header_era_byron) eqn:E.
  - cbn [unwrap_header arr2 muint]. rewrite E. reflexivity.
  - cbn [unwrap_header arr2 muint]. rewrite E. reflexivity.
Qed.

Lemma wf_wrapped_header era bt sz hdr :
  era < 2 ^ 64 -> bt < 2 ^ 64 -> sz < 2 ^ 64 -> all_bytes hdr -> N.of_nat (length hdr) < 2 ^ 64 ->
  wf (wrapped_header era bt sz hdr).
Proof.
  intros He Hb Hs Hh Hl. unfold wrapped_header.
  assert (wf (tag24 (mbstr hdr))) by (apply wf_tag24, wf_mbstr; assumption).
  destruct (era =? header_era_byron); repeat apply wf_arr2; try apply wf_muint; assumption.
Qed.

Lemma ntn_roundtrip era bt f h rest tip trail btrail :
  let b := Arr f (h :: rest) in
  wf b -> wf tip -> tip_ok tip = true -> era < 2 ^ 64 -> bt < 2 ^ 64 ->
  N.of_nat (length (enc b ++ btrail)) + 2 < 2 ^ 64 ->
  exists m, wrap_ntn era bt (enc b ++ btrail) tip = Some m /\ wf m /\
    unwrap_ntn (enc m ++ trail) =
      Some {| o_era := era;
              o_byron_type := if era =? header_era_byron then bt else 0;
              o_byron_size := byron_size_of era (enc b ++ btrail);
              o_header := enc h; o_tip := tip |}.
Proof.
  intros b Hb Htip Hok He Hbt Hlen.
  assert (Hh : wf h) by (apply wf_arr in Hb; destruct Hb as [_ Hx]; inversion Hx; assumption).
  assert (Hhl : N.of_nat (length (enc h)) < 2 ^ 64).
  { destruct (child_split_arr f (h :: rest) 0 h eq_refl) as (pre & post & E & _).
    fold b in E. rewrite app_length, E, !app_length in Hlen. lia. }
  assert (Hsz : byron_size_of era (enc b ++ btrail) < 2 ^ 64).
  { unfold byron_size_of. destruct (era =? header_era_byron); [lia|cbv; reflexivity]. }
  assert (Hw : wf (wrapped_header era bt (byron_size_of era (enc b ++ btrail)) (enc h))).
  { apply wf_wrapped_header; try assumption. apply enc_bytes, Hh. }
  assert (Hm : wf (arr3 (muint msg_roll_forward)
                 (wrapped_header era bt (byron_size_of era (enc b ++ btrail)) (enc h)) tip)).
  { apply wf_arr3; [apply wf_muint; cbv; reflexivity|exact Hw|exact Htip]. }
  eexists. split; [|split].
  - unfold wrap_ntn, b. rewrite header_of_enc by exact Hb. reflexivity.
  - exact Hm.
  - unfold unwrap_ntn. rewrite parse_full_enc by exact Hm.
    unfold arr3, muint at 1. rewrite Hok, unwrap_header_wrapped.
    unfold byron_size_of. destruct (era =? header_era_byron); reflexivity.
Qed.

(* ---- finite check of the era tables ---- *)
Lemma first_some_none {A B} (f : A -> option B) l :
  first_some f l = None -> forall x, In x l -> f x = None.
Proof.
  induction l as [|a r IH]; intros H x Hin; [destruct Hin|].
  cbn [first_some] in H. destruct (f a) eqn:E; [discriminate|].
  destruct Hin as [->|Hin]; [exact E|apply IH; assumption].
Qed.

Lemma era_check_types b2h h2b types : era_check b2h h2b types = None ->
  forall t, In t types ->
  exists e, lookup b2h t = Some e /\ lookup h2b e = Some t /\ e + 1 = t.
Proof.
  intros H t Hin. unfold era_check in H.
  destruct (first_some (check_type b2h h2b) types) eqn:E1; [discriminate|].
  pose proof (first_some_none _ _ E1 t Hin) as C. unfold check_type in C.
  destruct (lookup b2h t) as [e|]; [|discriminate]. exists e.
  destruct (lookup h2b e) as [t'|]; [|discriminate].
  destruct (t' =? t) eqn:Et; [|discriminate]. apply N.eqb_eq in Et. subst t'.
  destruct (e + 1 =? t) eqn:Ee; [|discriminate]. apply N.eqb_eq in Ee. auto.
Qed.

Lemma lookup_in tbl k v : lookup tbl k = Some v -> In (k, v) tbl.
Proof.
  induction tbl as [|[a b] r IH]; cbn [lookup]; [discriminate|].
  destruct (a =? k) eqn:E; intros H.
  - apply N.eqb_eq in E. injection H as ->. subst. left. reflexivity.
  - right. apply IH, H.
Qed.

Lemma era_check_back b2h h2b types : era_check b2h h2b types = None ->
  forall e t, lookup h2b e = Some t -> lookup b2h t = Some e.
Proof.
  intros H e t L. unfold era_check in H.
  destruct (first_some (check_type b2h h2b) types); [discriminate|].
  destruct (first_some (check_back b2h) h2b) eqn:E2; [discriminate|].
  pose proof (first_some_none _ _ E2 (e, t) (lookup_in _ _ _ L)) as C.
  unfold check_back in C. cbn [fst snd] in C.
  destruct (lookup b2h t) as [e'|]; [|discriminate].
  destruct (e' =? e) eqn:Ee; [|discriminate]. apply N.eqb_eq in Ee. congruence.
Qed.
