(* C22 - entry point of the correspondence run: the model with the generated era tables. *)
From V Require Import Lib.Base C22.Model C22.Gen.
Definition mismatches : list case -> list nat := failing (check_case Gen.header_to_block).
