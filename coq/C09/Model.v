(* C09 - muxer.  Model of muxer/segment.go (NewSegment, IsResponse,
   GetProtocolId), muxer/muxer.go (Send, readLoop, RegisterProtocol,
   UnregisterProtocol).  Constants come from Gen.v (translator).  No proofs here. *)
From V Require Import Lib.Base Lib.Hex C09.Gen.
Local Open Scope N_scope.

Inductive role := Initiator | Responder.
Definition endpoint := (N * role)%type.

Definition role_eqb (a b : role) : bool :=
  match a, b with Initiator, Initiator | Responder, Responder => true | _, _ => false end.
Definition ep_eqb (a b : endpoint) : bool := (fst a =? fst b) && role_eqb (snd a) (snd b).
Definition opp (r : role) : role := match r with Initiator => Responder | Responder => Initiator end.
(* the endpoint of the peer that receives what endpoint e sends *)
Definition peer_ep (e : endpoint) : endpoint := (fst e, opp (snd e)).

(* ---- wire format: binary.Write(BigEndian, SegmentHeader) ++ Payload ---- *)
Definition be16 (n : N) : bytes := [n / 256 mod 256; n mod 256].
Definition be32 (n : N) : bytes :=
  [n / 16777216 mod 256; n / 65536 mod 256; n / 256 mod 256; n mod 256].
Definition rd16 (a b : N) : N := a * 256 + b.

(* a segment: timestamp, raw 16-bit protocol id field (response flag included), payload.
   The PayloadLength field is always len(payload) for segments made by NewSegment. *)
Record seg := mkseg { s_ts : N; s_raw : N; s_payload : bytes }.

Definition blen (b : bytes) : N := N.of_nat (length b).

(* Muxer.Send: header then payload, one conn.Write under sendMutex *)
Definition frame_header (ts raw len : N) : bytes := be32 ts ++ be16 raw ++ be16 len.
Definition frame (s : seg) : bytes :=
  frame_header (s_ts s) (s_raw s) (blen (s_payload s)) ++ s_payload s.

(* NewSegment: header.ProtocolId = protocolId (+ flag, uint16 wrap, if isResponse);
   nil if size > SegmentMaxPayloadLength || size > math.MaxUint16.  A zero-length
   payload IS accepted by NewSegment. *)
Definition mk_segment (ts pid : N) (payload : bytes) (is_resp : bool) : seg :=
  mkseg ts (if is_resp then (pid + resp_flag) mod 65536 else pid) payload.
Definition new_segment (ts pid : N) (payload : bytes) (is_resp : bool) : option seg :=
  if (seg_max_payload <? blen payload) || (max_uint16 <? blen payload) then None
  else Some (mk_segment ts pid payload is_resp).

(* SegmentHeader.IsResponse: (ProtocolId & flag) > 0 *)
Definition is_response (raw : N) : bool := 0 <? N.land raw resp_flag.
(* SegmentHeader.GetProtocolId *)
Definition get_pid (raw : N) : N := if resp_flag <=? raw then raw - resp_flag else raw.

(* ---- receiver registry: protocolReceivers map[uint16]map[ProtocolRole]chan ----
   pid |-> (initiator registered, responder registered); a key stays in the outer
   map after UnregisterProtocol removed its last role. *)
Definition reg := list (N * (bool * bool)).
Fixpoint reg_find (r : reg) (pid : N) : option (bool * bool) :=
  match r with
  | [] => None
  | (p, e) :: t => if p =? pid then Some e else reg_find t pid
  end.
Definition has_role (e : bool * bool) (ro : role) : bool :=
  match ro with Initiator => fst e | Responder => snd e end.
Definition set_role (e : bool * bool) (ro : role) (v : bool) : bool * bool :=
  match ro with Initiator => (v, snd e) | Responder => (fst e, v) end.
Fixpoint reg_update (r : reg) (pid : N) (ro : role) (v : bool) : reg :=
  match r with
  | [] => []
  | (p, e) :: t => if p =? pid then (p, set_role e ro v) :: t else (p, e) :: reg_update t pid ro v
  end.
(* RegisterProtocol *)
Definition register (r : reg) (pid : N) (ro : role) : reg :=
  match reg_find r pid with
  | Some _ => reg_update r pid ro true
  | None => r ++ [(pid, set_role (false, false) ro true)]
  end.
(* UnregisterProtocol *)
Definition unregister (r : reg) (pid : N) (ro : role) : reg := reg_update r pid ro false.

Inductive regop := Reg (pid : N) (ro : role) | Unreg (pid : N) (ro : role).
Definition apply_op (r : reg) (o : regop) : reg :=
  match o with Reg p ro => register r p ro | Unreg p ro => unregister r p ro end.
Definition build_reg (ops : list regop) : reg := fold_left apply_op ops [].

(* readLoop, "Send message payload to proper receiver": explicit entry for the
   protocol id, else the ProtocolUnknown entry (only when the id has no entry
   at all), then the role must be present. *)
Definition route (r : reg) (pid : N) (ro : role) : option endpoint :=
  match reg_find r pid with
  | Some e => if has_role e ro then Some (pid, ro) else None
  | None =>
    match reg_find r proto_unknown with
    | Some e => if has_role e ro then Some (proto_unknown, ro) else None
    | None => None
    end
  end.

(* why the read loop ended *)
Inductive status :=
| StEOF            (* EOF before the first header byte: ConnectionClosedError "reading header" *)
| StHdrShort       (* EOF inside a header: io.ErrUnexpectedEOF *)
| StZeroLen        (* "received zero-byte segment payload" *)
| StPayEOF         (* EOF before the first payload byte: ConnectionClosedError "reading payload" *)
| StPayShort       (* EOF inside a payload: io.ErrUnexpectedEOF *)
| StFromInitiator  (* request while diffusion mode = Initiator *)
| StFromResponder  (* response while diffusion mode = Responder *)
| StUnknown (pid : N) (* no receiver for (pid, role) *)
| StInternal       (* unreachable: a header read that is not 8 bytes *)
| StFuel.          (* unreachable with the fuel used below *)

(* readLoop, diffusion-mode guards then routing, on the raw protocol id field *)
Definition route_seg (r : reg) (mode : N) (raw : N) : status + endpoint :=
  if (mode =? dm_initiator) && negb (is_response raw) then inl StFromInitiator
  else if (mode =? dm_responder) && is_response raw then inl StFromResponder
  else
    let ro := if is_response raw then Initiator else Responder in
    match route r (get_pid raw) ro with
    | Some ep => inr ep
    | None => inl (StUnknown (get_pid raw))
    end.

(* ---- the read loop, generic in the connection ("reader") ----
   rd n c = inl (b, c')  : io.ReadFull got exactly n bytes b
          = inr k        : EOF after k < n bytes (k = 0: io.EOF, else ErrUnexpectedEOF) *)
Section Loop.
  Variable conn : Type.
  Variable rd : nat -> conn -> (bytes * conn) + nat.
  Variable rt : N -> status + endpoint.

  Inductive step_res := Deliver (ep : endpoint) (payload : bytes) (c : conn) | Stop (st : status).

  (* one iteration of readLoop: header, zero check, payload, guards, routing *)
  Definition step (c : conn) : step_res :=
    match rd 8 c with
    | inr O => Stop StEOF
    | inr (S _) => Stop StHdrShort
    | inl (h, c1) =>
      match h with
      | [_; _; _; _; p0; p1; l0; l1] =>
        let len := rd16 l0 l1 in
        if len =? 0 then Stop StZeroLen else
        match rd (N.to_nat len) c1 with
        | inr O => Stop StPayEOF
        | inr (S _) => Stop StPayShort
        | inl (pl, c2) =>
          match rt (rd16 p0 p1) with
          | inl st => Stop st
          | inr ep => Deliver ep pl c2
          end
        end
      | _ => Stop StInternal
      end
    end.

  (* deliveries in order, and why the loop ended; nothing is delivered after the stop *)
  Fixpoint loop (fuel : nat) (c : conn) : list (endpoint * bytes) * status :=
    match fuel with
    | O => ([], StFuel)
    | S f =>
      match step c with
      | Stop st => ([], st)
      | Deliver ep pl c' => let (ev, st) := loop f c' in ((ep, pl) :: ev, st)
      end
    end.
End Loop.
Arguments Deliver {conn}.
Arguments Stop {conn}.

(* flat byte stream *)
Definition take (n : nat) (w : bytes) : (bytes * bytes) + nat :=
  if (n <=? length w)%nat then inl (firstn n w, skipn n w) else inr (length w).

(* a connection that hands the stream out in arbitrary chunks: one Read returns
   at most the rest of the current chunk; io.ReadFull keeps reading *)
Fixpoint read_full (n : nat) (cs : list bytes) {struct cs} : (bytes * list bytes) + nat :=
  match n with
  | O => inl ([], cs)
  | _ =>
    match cs with
    | [] => inr O
    | c :: r =>
      if (length c <=? n)%nat then
        match read_full (n - length c) r with
        | inl (b, r') => inl (c ++ b, r')
        | inr k => inr (length c + k)%nat
        end
      else inl (firstn n c, skipn n c :: r)
    end
  end.

Definition demux_f (fuel : nat) (r : reg) (mode : N) (w : bytes) :=
  loop bytes take (route_seg r mode) fuel w.
Definition demux (r : reg) (mode : N) (w : bytes) := demux_f (S (length w)) r mode w.
Definition read_loop (r : reg) (mode : N) (cs : list bytes) :=
  loop (list bytes) read_full (route_seg r mode) (S (length (concat cs))) cs.

(* split a stream into segments without routing: "endpoint" = (raw id, Initiator) *)
Definition deframe (w : bytes) : list (N * bytes) * status :=
  let (ev, st) := loop bytes take (fun raw => inr (raw, Initiator)) (S (length w)) w in
  (map (fun e => (fst (fst e), snd e)) ev, st).

(* payloads delivered to one endpoint, in order *)
Definition delivered_to (e : endpoint) (ev : list (endpoint * bytes)) : list bytes :=
  map snd (filter (fun x => ep_eqb (fst x) e) ev).

(* raw id field used by a local endpoint when sending (protocol.sendLoop:
   isResponse := role = server/responder) *)
Definition is_resp_role (ro : role) : bool := match ro with Responder => true | Initiator => false end.

(* ---- correspondence cases ---- *)
Definition rep (n : N) (b : N) : bytes := N.iter n (cons b) [].

Definition status_class (st : status) : N :=
  match st with
  | StEOF => 1 | StPayEOF => 2          (* ConnectionClosedError, context header / payload *)
  | StHdrShort | StPayShort => 3         (* io.ErrUnexpectedEOF *)
  | StZeroLen | StFromInitiator | StFromResponder | StUnknown _ => 4  (* protocol error *)
  | StInternal | StFuel => 99
  end.

Fixpoint payloads_eqb (a b : list bytes) : bool :=
  match a, b with
  | [], [] => true
  | x :: a', y :: b' => bytes_eqb x y && payloads_eqb a' b'
  | _, _ => false
  end.

Inductive case :=
(* a real muxer with registrations ops and diffusion mode read these chunks;
   obs = payloads received per channel, cls = class of the error on ErrorChan
   (0 = not compared: the muxer was stopped locally) *)
| CRecv (ops : list regop) (mode : N) (chunks : list bytes)
        (obs : list (endpoint * list bytes)) (cls : N)
(* local endpoints sent these payload lists concurrently; wire = bytes written *)
| CSend (sends : list (endpoint * list bytes)) (wire : bytes)
(* NewSegment(pid, payload, isResp) = nil | header (ProtocolId, PayloadLength) *)
| CSeg (pid : N) (payload : bytes) (is_resp : bool) (res : option (N * N))
(* header accessors on a raw id: IsResponse, IsRequest, GetProtocolId *)
| CHdr (raw : N) (isresp isreq : bool) (pid : N).

Definition check_case (c : case) : bool :=
  match c with
  | CRecv ops mode chunks obs cls =>
    let (ev, st) := read_loop (build_reg ops) mode chunks in
    let (ev2, st2) := demux (build_reg ops) mode (concat chunks) in
    forallb (fun o => payloads_eqb (delivered_to (fst o) ev) (snd o)) obs
    && (length ev =? fold_right (fun o n => length (snd o) + n) 0 obs)%nat
    && ((cls =? 0) || (status_class st =? cls))
    && payloads_eqb (map snd ev) (map snd ev2) && (status_class st =? status_class st2)
  | CSend sends wire =>
    let (fs, st) := deframe wire in
    match st with StEOF => true | _ => false end
    && forallb (fun s =>
         let raw := s_raw (mk_segment 0 (fst (fst s)) [] (is_resp_role (snd (fst s)))) in
         payloads_eqb (map snd (filter (fun f => fst f =? raw) fs)) (snd s)) sends
    && (length fs =? fold_right (fun s n => length (snd s) + n) 0 sends)%nat
  | CSeg pid payload is_resp res =>
    match new_segment 0 pid payload is_resp, res with
    | None, None => true
    | Some s, Some (raw, len) =>
      (s_raw s =? raw) && (blen (s_payload s) =? len)
      && bytes_eqb (firstn 8 (frame s)) (frame_header 0 raw len)
    | _, _ => false
    end
  | CHdr raw isresp isreq pid =>
    Bool.eqb (is_response raw) isresp && Bool.eqb (negb (is_response raw)) isreq
    && (get_pid raw =? pid)
  end.

Definition mismatches := failing check_case.
