(* C09 - property theorems only. *)
From Coq Require Import String.
From V Require Import Lib.Base Lib.Hex C09.Gen C09.Model C09.Proofs.
Local Open Scope N_scope.

(* The header layout of the model is the one encoding/binary gives the real
   SegmentHeader (probe written by the translator from the running code). *)
Theorem C09_header_layout :
  frame_header 16909060 34054 1800 = probe_header /\ hdr_size = 8 /\
  N.of_nat (length (frame_header 16909060 34054 1800)) = hdr_size.
Proof. vm_compute. auto. Qed.
Print Assumptions C09_header_layout.

(* Round trip: a stream of frames splits back into exactly these segments. *)
Theorem C09_deframe_frame : forall segs, Forall seg_ok segs ->
  deframe (concat (map frame segs)) = (map (fun s => (s_raw s, s_payload s)) segs, StEOF).
Proof.
  intros segs Hok. unfold deframe.
  destruct (fuel_split segs []) as [f Hf]. rewrite app_nil_r in Hf. rewrite Hf.
  rewrite <- (app_nil_r (concat (map frame segs))).
  rewrite (loop_frames _ segs _ [] (map (fun s => ((s_raw s, Initiator), s_payload s)) segs) Hok).
  - rewrite loop_nil. cbn [fst snd]. rewrite app_nil_r, map_map. reflexivity.
  - clear. induction segs; constructor; auto.
Qed.
Print Assumptions C09_deframe_frame.

(* io.ReadFull abstraction: however the connection fragments the stream, the
   read loop does what it does on the unfragmented stream. *)
Theorem C09_chunking : forall r mode chunks,
  read_loop r mode chunks = demux r mode (concat chunks).
Proof. intros. unfold read_loop, demux, demux_f. apply loop_chunks. Qed.
Print Assumptions C09_chunking.

(* Delivery.  S: any number of local endpoints (distinct (protocol, role), ids below
   the response flag), each with its list of sends (payloads of 1..65535 bytes);
   out: ANY interleaving of these lists that keeps each list's order (Send is
   atomic under sendMutex); chunks: ANY fragmentation of the resulting wire.
   If the peer has a receiver registered for each sender's counterpart and its
   diffusion mode admits the direction, the read loop ends only at end of
   stream and each receiver gets exactly the payloads sent by its counterpart,
   unmodified and in send order; every other endpoint gets nothing. *)
Theorem C09_delivery : forall (S : sends) r mode out chunks,
  sends_ok S ->
  (forall e l, In (e, l) S -> registered r (peer_ep e) /\ mode_allows mode (snd e)) ->
  interleave S out ->
  concat chunks = wire_of out ->
  exists ev, read_loop r mode chunks = (ev, StEOF) /\
    (forall e l, In (e, l) S -> delivered_to (peer_ep e) ev = map snd l) /\
    (forall ep, (forall e, In e (map fst S) -> ep <> peer_ep e) -> delivered_to ep ev = []).
Proof. exact delivery. Qed.
Print Assumptions C09_delivery.

(* "merge" characterised: a tagged sequence is an order-preserving interleaving of the
   senders' lists exactly when all its elements come from the senders and its
   projection on each sender is that sender's list (what the correspondence checks on
   every recorded wire). *)
Theorem C09_merge_char : forall (S : sends) out, NoDup (map fst S) ->
  (interleave S out <->
   (forall e, In e out -> In (fst e) (map fst S)) /\
   (forall k l, In (k, l) S -> proj ep_eqb k out = l)).
Proof.
  intros S out Hnd. split.
  - intros H. split; [exact (interleave_keys S out H) | exact (interleave_proj ep_eqb ep_eqb_eq S out H Hnd)].
  - intros [H1 H2]. exact (proj_interleave ep_eqb ep_eqb_eq out S Hnd H1 H2).
Qed.
Print Assumptions C09_merge_char.

(* Length bound, sending side: NewSegment refuses exactly the payloads above
   65535 bytes and otherwise keeps the payload and its length. *)
Theorem C09_len : forall ts pid p isresp,
  (forall s, new_segment ts pid p isresp = Some s ->
     s_payload s = p /\ blen (s_payload s) <= 65535 /\
     frame s = frame_header ts (s_raw s) (blen p) ++ p) /\
  (new_segment ts pid p isresp = None <-> 65535 < blen p).
Proof.
  intros. split.
  - intros s H. apply new_segment_some in H. destruct H as [-> H]. unfold seg_max_payload in H.
    cbn. auto.
  - apply new_segment_none.
Qed.
Print Assumptions C09_len.

(* Length bound, receiving side: whatever bytes arrive, every delivered payload
   has 1..65535 bytes. *)
Theorem C09_len_recv : forall r mode chunks ev st, all_bytes (concat chunks) ->
  read_loop r mode chunks = (ev, st) -> Forall (fun e => 1 <= blen (snd e) <= 65535) ev.
Proof.
  intros r mode chunks ev st Hb H. unfold read_loop in H. rewrite loop_chunks in H.
  eapply loop_len; eauto.
Qed.
Print Assumptions C09_len_recv.

(* Errors.  After any correctly routed prefix: a header with length 0 ends the
   loop with the zero-length error, and a segment whose (protocol, role) has no
   receiver, or whose direction the diffusion mode forbids, ends it with the
   corresponding error; in both cases exactly the prefix was delivered -
   nothing after the offending segment, whatever follows on the wire. *)
Theorem C09_errors_zero : forall r mode segs evs ts raw rest chunks,
  routed r mode segs evs ->
  concat chunks = concat (map frame segs) ++ frame_header ts raw 0 ++ rest ->
  read_loop r mode chunks = (evs, StZeroLen).
Proof. exact error_zero. Qed.
Print Assumptions C09_errors_zero.

Theorem C09_errors_route : forall r mode segs evs bad rest chunks,
  routed r mode segs evs -> seg_ok bad ->
  concat chunks = concat (map frame segs) ++ frame bad ++ rest ->
  (route r (get_pid (s_raw bad)) (role_of_raw (s_raw bad)) = None \/
   (mode = dm_initiator /\ is_response (s_raw bad) = false) \/
   (mode = dm_responder /\ is_response (s_raw bad) = true)) ->
  exists st, read_loop r mode chunks = (evs, st) /\
    (st = StFromInitiator \/ st = StFromResponder \/ st = StUnknown (get_pid (s_raw bad))).
Proof.
  intros r mode segs evs bad rest chunks Hr Hbad Hw Hcause.
  assert (exists st, route_seg r mode (s_raw bad) = inl st) as [st Hst].
  { destruct Hcause as [H|[[-> H]|[-> H]]].
    - now apply route_seg_unregistered.
    - unfold route_seg. rewrite H, N.eqb_refl. cbn. eauto.
    - unfold route_seg. rewrite H. cbn. eauto. }
  exists st. split; [eapply error_route; eauto|].
  apply route_seg_err in Hst. intuition.
Qed.
Print Assumptions C09_errors_route.

(* Only a registered receiver of the role selected by the response flag ever
   gets a segment (the protocol's own entry, or the ProtocolUnknown catch-all
   when the protocol id has no entry at all). *)
Theorem C09_routing_sound : forall r mode raw ep, route_seg r mode raw = inr ep ->
  snd ep = role_of_raw raw /\ route r (get_pid raw) (role_of_raw raw) = Some ep /\
  (fst ep = get_pid raw \/ (fst ep = proto_unknown /\ reg_find r (get_pid raw) = None)).
Proof. exact route_seg_ok. Qed.
Print Assumptions C09_routing_sound.

(* UnregisterProtocol(pid, ro) is local: the sibling role of the same protocol and every
   receiver of every other protocol keep receiving exactly as before (the only other thing
   that may change is what the ProtocolUnknown catch-all of that same role catches). *)
Theorem C09_unregister_local : forall r mode pid ro raw,
  role_of_raw raw <> ro \/ (get_pid raw <> pid /\ pid <> proto_unknown) ->
  route_seg (unregister r pid ro) mode raw = route_seg r mode raw.
Proof. exact route_seg_unregister. Qed.
Print Assumptions C09_unregister_local.

(* ---- non-vacuity ---- *)
Definition ex_S : sends :=
  [((2, Initiator), [(7, hx "a1"); (8, hx "a2a3")]); ((2, Responder), [(9, hx "b1")]);
   ((5, Initiator), [(1, hx "c1c2c3")])].
Definition ex_out : list (endpoint * (N * bytes)) :=
  [((2, Responder), (9, hx "b1")); ((2, Initiator), (7, hx "a1")); ((5, Initiator), (1, hx "c1c2c3"));
   ((2, Initiator), (8, hx "a2a3"))].
Definition ex_reg : reg := build_reg [Reg 2 Responder; Reg 2 Initiator; Reg 5 Responder; Reg 6 Initiator].

Example C09_nonvacuous_interleave : interleave ex_S ex_out.
Proof.
  unfold ex_S, ex_out.
  apply (il_step [((2, Initiator), [(7, hx "a1"); (8, hx "a2a3")])] (2, Responder) (9, hx "b1") []
                 [((5, Initiator), [(1, hx "c1c2c3")])]).
  apply (il_step [] (2, Initiator) (7, hx "a1") [(8, hx "a2a3")]
                 [((2, Responder), []); ((5, Initiator), [(1, hx "c1c2c3")])]).
  apply (il_step [((2, Initiator), [(8, hx "a2a3")]); ((2, Responder), [])] (5, Initiator) (1, hx "c1c2c3") [] []).
  apply (il_step [] (2, Initiator) (8, hx "a2a3") [] [((2, Responder), []); ((5, Initiator), [])]).
  apply il_done. repeat constructor.
Qed.

Example C09_nonvacuous_hyps :
  sends_ok ex_S /\
  (forall e l, In (e, l) ex_S -> registered ex_reg (peer_ep e) /\ mode_allows dm_both (snd e)).
Proof.
  split.
  - split.
    + cbn. repeat constructor; cbn; intuition congruence.
    + unfold ex_S, resp_flag, seg_max_payload. repeat constructor; cbn; lia.
  - intros e l Hin. cbn in Hin.
    destruct Hin as [E|[E|[E|[]]]]; inversion E; subst; split; try reflexivity; cbn; unfold dm_both, dm_initiator, dm_responder; lia.
Qed.

(* the wire of the example, cut into awkward chunks, evaluated *)
Example C09_nonvacuous_run :
  let w := wire_of ex_out in
  read_loop ex_reg dm_both [firstn 3 w; firstn 9 (skipn 3 w); []; skipn 12 w]
  = ([((2, Initiator), hx "b1"); ((2, Responder), hx "a1"); ((5, Responder), hx "c1c2c3");
      ((2, Responder), hx "a2a3")], StEOF).
Proof. vm_compute. reflexivity. Qed.

(* error branch is reachable: zero-length header after one good segment; a request while initiator-only *)
Example C09_nonvacuous_zero :
  read_loop ex_reg dm_both [frame (mkseg 1 2 (hx "aa")) ++ frame_header 1 2 0 ++ frame (mkseg 1 2 (hx "bb"))]
  = ([((2, Responder), hx "aa")], StZeroLen).
Proof. vm_compute. reflexivity. Qed.
Example C09_nonvacuous_unknown :
  read_loop ex_reg dm_both [frame (mkseg 1 6 (hx "aa")) ++ frame (mkseg 1 2 (hx "bb"))]
  = ([], StUnknown 6).
Proof. vm_compute. reflexivity. Qed.
