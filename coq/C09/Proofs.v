(* C09 - lemmas. *)
From V Require Import Lib.Base Lib.Hex C09.Gen C09.Model.
Local Open Scope N_scope.

(* ---------- arithmetic of the header fields ---------- *)
Lemma rd16_be16 n : n < 65536 -> rd16 (n / 256 mod 256) (n mod 256) = n.
Proof. intros H. unfold rd16. lia. Qed.

Lemma land_pow2 a n : N.land a (2 ^ n) = if N.testbit a n then 2 ^ n else 0.
Proof.
  apply N.bits_inj. intros m. rewrite N.land_spec, N.pow2_bits_eqb.
  destruct (N.eqb_spec n m) as [->|Hne].
  - destruct (N.testbit a m); [now rewrite N.pow2_bits_true | now rewrite N.bits_0].
  - rewrite andb_false_r. destruct (N.testbit a n); [|now rewrite N.bits_0].
    symmetry. apply N.pow2_bits_false. exact Hne.
Qed.

Lemma testbit15_lt a : a < 32768 -> N.testbit a 15 = false.
Proof.
  intros H. destruct (N.eq_dec a 0) as [->|Hz]; [reflexivity|].
  apply N.bits_above_log2. apply N.log2_lt_pow2; [lia|]. exact H.
Qed.

Lemma testbit15_ge a : 32768 <= a < 65536 -> N.testbit a 15 = true.
Proof.
  intros H. apply N.testbit_true. change (2 ^ 15) with 32768.
  assert (a / 32768 = 1) by lia. lia.
Qed.

Lemma is_response_lo raw : raw < 32768 -> is_response raw = false.
Proof.
  intros H. unfold is_response, resp_flag. change 32768 with (2 ^ 15).
  rewrite land_pow2, testbit15_lt by exact H. reflexivity.
Qed.
Lemma is_response_hi raw : 32768 <= raw < 65536 -> is_response raw = true.
Proof.
  intros H. unfold is_response, resp_flag. change 32768 with (2 ^ 15).
  rewrite land_pow2, testbit15_ge by exact H. reflexivity.
Qed.
Lemma get_pid_lo raw : raw < 32768 -> get_pid raw = raw.
Proof. intros H. unfold get_pid, resp_flag. destruct (N.leb_spec 32768 raw); lia. Qed.
Lemma get_pid_hi raw : 32768 <= raw -> get_pid raw = raw - 32768.
Proof. intros H. unfold get_pid, resp_flag. destruct (N.leb_spec 32768 raw); lia. Qed.

(* the raw id written by an endpoint with protocol id below the flag *)
Definition raw_of (e : endpoint) : N := s_raw (mk_segment 0 (fst e) [] (is_resp_role (snd e))).

Lemma raw_of_init pid : raw_of (pid, Initiator) = pid.
Proof. reflexivity. Qed.
Lemma raw_of_resp pid : pid < 32768 -> raw_of (pid, Responder) = pid + 32768.
Proof. intros H. unfold raw_of, mk_segment, resp_flag. cbn. rewrite N.mod_small; lia. Qed.
Lemma raw_of_lt e : fst e < 32768 -> raw_of e < 65536.
Proof. destruct e as [p [|]]; cbn [fst]; intros H; [rewrite raw_of_init | rewrite raw_of_resp]; lia. Qed.

(* a segment sent by endpoint e is routed, at the peer, to role opp (snd e) of protocol fst e *)
Lemma sent_is_response e : fst e < 32768 -> is_response (raw_of e) = is_resp_role (snd e).
Proof.
  destruct e as [p [|]]; cbn [fst snd is_resp_role]; intros H.
  - rewrite raw_of_init. now apply is_response_lo.
  - rewrite raw_of_resp by exact H. apply is_response_hi. lia.
Qed.
Lemma sent_get_pid e : fst e < 32768 -> get_pid (raw_of e) = fst e.
Proof.
  destruct e as [p [|]]; cbn [fst snd]; intros H.
  - rewrite raw_of_init. now apply get_pid_lo.
  - rewrite raw_of_resp by exact H. rewrite get_pid_hi; lia.
Qed.

(* ---------- readers ---------- *)
Lemma take_app a b : take (length a) (a ++ b) = inl (a, b).
Proof.
  unfold take. rewrite app_length.
  destruct (Nat.leb_spec (length a) (length a + length b)); [|lia].
  rewrite firstn_app, Nat.sub_diag, firstn_all, skipn_app, Nat.sub_diag, skipn_all. cbn.
  now rewrite app_nil_r.
Qed.

Lemma take_short n w : (length w < n)%nat -> take n w = inr (length w).
Proof. intros H. unfold take. destruct (Nat.leb_spec n (length w)); [lia|reflexivity]. Qed.

Lemma take_app_le c w n : (length c <= n)%nat ->
  take n (c ++ w) = match take (n - length c) w with
                    | inl (b, w') => inl (c ++ b, w')
                    | inr k => inr (length c + k)%nat
                    end.
Proof.
  intros H. unfold take. rewrite app_length.
  destruct (Nat.leb_spec (n - length c) (length w)); destruct (Nat.leb_spec n (length c + length w)); try lia.
  - rewrite firstn_app, skipn_app, (firstn_all2 c), (skipn_all2 c) by lia. reflexivity.
  - reflexivity.
Qed.

Lemma take_app_gt c w n : (n < length c)%nat ->
  take n (c ++ w) = inl (firstn n c, skipn n c ++ w).
Proof.
  intros H. unfold take. rewrite app_length.
  destruct (Nat.leb_spec n (length c + length w)); [|lia].
  rewrite firstn_app, skipn_app. replace (n - length c)%nat with O by lia. cbn [firstn skipn].
  now rewrite app_nil_r.
Qed.

(* io.ReadFull over any chunking behaves like taking from the concatenation *)
Lemma read_full_take : forall cs n,
  match read_full n cs, take n (concat cs) with
  | inl (b, cs'), inl (b', w') => b = b' /\ concat cs' = w'
  | inr k, inr k' => k = k'
  | _, _ => False
  end.
Proof.
  induction cs as [|c r IH]; intros n.
  - destruct n; cbn; auto.
  - destruct n as [|n].
    + cbn [read_full]. unfold take. cbn. auto.
    + cbn [read_full concat]. destruct (Nat.leb_spec (length c) (S n)) as [Hle|Hgt].
      * specialize (IH (S n - length c)%nat). rewrite take_app_le by exact Hle.
        destruct (read_full (S n - length c) r) as [[b r']|k];
          destruct (take (S n - length c) (concat r)) as [[b' w']|k']; try contradiction.
        -- destruct IH as [-> <-]. auto.
        -- now subst.
      * rewrite take_app_gt by exact Hgt. auto.
Qed.

(* ReadFull abstraction: the loop over ANY chunking equals the loop over the flat stream *)
Lemma loop_chunks rt : forall f cs,
  loop (list bytes) read_full rt f cs = loop bytes take rt f (concat cs).
Proof.
  induction f as [|f IH]; intros cs; [reflexivity|].
  cbn [loop]. unfold step.
  pose proof (read_full_take cs 8) as H8.
  destruct (read_full 8 cs) as [[h c1]|k]; destruct (take 8 (concat cs)) as [[h' w1]|k'];
    try contradiction.
  - destruct H8 as [<- <-].
    destruct h as [|? [|? [|? [|? [|p0 [|p1 [|l0 [|l1 [|]]]]]]]]]; try reflexivity.
    destruct (rd16 l0 l1 =? 0); [reflexivity|].
    pose proof (read_full_take c1 (N.to_nat (rd16 l0 l1))) as HP.
    destruct (read_full (N.to_nat (rd16 l0 l1)) c1) as [[pl c2]|k];
      destruct (take (N.to_nat (rd16 l0 l1)) (concat c1)) as [[pl' w2]|k']; try contradiction.
    + destruct HP as [<- <-]. destruct (rt (rd16 p0 p1)); [reflexivity|]. now rewrite IH.
    + subst k'. now destruct k.
  - subst k'. now destruct k.
Qed.

(* ---------- one frame ---------- *)
Definition seg_ok (s : seg) : Prop :=
  s_raw s < 65536 /\ 1 <= blen (s_payload s) <= 65535.

Lemma step_frame rt s rest : seg_ok s ->
  step bytes take rt (frame s ++ rest) =
  match rt (s_raw s) with inl st => Stop st | inr ep => Deliver ep (s_payload s) rest end.
Proof.
  intros [Hraw Hlen]. unfold step, frame, frame_header. rewrite <- !app_assoc.
  change (be32 (s_ts s) ++ be16 (s_raw s) ++ be16 (blen (s_payload s)) ++ s_payload s ++ rest)
    with ((be32 (s_ts s) ++ be16 (s_raw s) ++ be16 (blen (s_payload s))) ++ s_payload s ++ rest).
  change 8%nat with (length (be32 (s_ts s) ++ be16 (s_raw s) ++ be16 (blen (s_payload s)))).
  rewrite take_app. cbn [be32 be16 app].
  rewrite !rd16_be16 by lia.
  destruct (N.eqb_spec (blen (s_payload s)) 0) as [E|_]; [lia|].
  unfold blen. rewrite Nat2N.id, take_app. reflexivity.
Qed.

(* a frame whose length field is zero stops the loop whatever follows *)
Lemma step_zero rt ts raw rest :
  step bytes take rt (frame_header ts raw 0 ++ rest) = Stop StZeroLen.
Proof.
  unfold step, frame_header. rewrite <- !app_assoc.
  change (be32 ts ++ be16 raw ++ be16 0 ++ rest) with ((be32 ts ++ be16 raw ++ be16 0) ++ rest).
  change 8%nat with (length (be32 ts ++ be16 raw ++ be16 0)).
  rewrite take_app. reflexivity.
Qed.

(* ---------- a run of good frames ---------- *)
Definition recv_of (rt : N -> status + endpoint) (s : seg) : option endpoint :=
  match rt (s_raw s) with inr ep => Some ep | inl _ => None end.

Lemma loop_frames rt : forall segs f tail evs,
  Forall seg_ok segs ->
  Forall2 (fun s e => rt (s_raw s) = inr (fst e) /\ snd e = s_payload s) segs evs ->
  loop bytes take rt (length segs + f) (concat (map frame segs) ++ tail) =
  (evs ++ fst (loop bytes take rt f tail), snd (loop bytes take rt f tail)).
Proof.
  induction segs as [|s segs IH]; intros f tail evs Hok H2.
  - inversion H2; subst. cbn. now destruct (loop bytes take rt f tail).
  - inversion H2 as [|? e ? evs' [Hrt Hpl] H2']; subst. inversion Hok as [|? ? Hs Hok']; subst.
    cbn [length Nat.add map concat loop]. rewrite <- app_assoc, step_frame by exact Hs.
    rewrite Hrt. rewrite (IH f tail evs' Hok' H2'). cbn.
    destruct e as [ep pl]. cbn in *. subst pl. reflexivity.
Qed.

Lemma frame_length s : (8 <= length (frame s))%nat.
Proof. unfold frame, frame_header. rewrite !app_length. cbn. lia. Qed.

Lemma frames_length segs : (length segs <= length (concat (map frame segs)))%nat.
Proof.
  induction segs as [|s r IH]; cbn; [lia|]. rewrite app_length. pose proof (frame_length s). lia.
Qed.

(* ---------- interleavings of tagged send lists ---------- *)
Section Interleave.
  Context {K A : Type}.
  (* ls: one list per sender key; out: a merge preserving each list's order *)
  Inductive interleave : list (K * list A) -> list (K * A) -> Prop :=
  | il_done : forall ls, Forall (fun l => snd l = []) ls -> interleave ls []
  | il_step : forall pre k x l post out,
      interleave (pre ++ (k, l) :: post) out ->
      interleave (pre ++ (k, x :: l) :: post) ((k, x) :: out).

  Variable keqb : K -> K -> bool.
  Hypothesis keqb_eq : forall a b, keqb a b = true <-> a = b.

  Definition proj (k : K) (out : list (K * A)) : list A :=
    map snd (filter (fun e => keqb (fst e) k) out).

  Lemma keqb_refl k : keqb k k = true.
  Proof. now apply keqb_eq. Qed.
  Lemma keqb_neq a b : a <> b -> keqb a b = false.
  Proof. intros H. destruct (keqb a b) eqn:E; [|reflexivity]. apply keqb_eq in E. contradiction. Qed.

  (* projecting a merge on a sender's key gives back exactly that sender's list *)
  Lemma interleave_proj ls out : interleave ls out ->
    NoDup (map fst ls) -> forall k l, In (k, l) ls -> proj k out = l.
  Proof.
    induction 1 as [ls Hall | pre k0 x l0 post out Hil IH]; intros Hnd k l Hin.
    - rewrite Forall_forall in Hall. specialize (Hall _ Hin). cbn in Hall. now subst.
    - assert (Hnd' : NoDup (map fst (pre ++ (k0, l0) :: post))).
      { rewrite map_app in *. exact Hnd. }
      unfold proj. cbn [filter fst].
      apply in_app_or in Hin. cbn [In] in Hin.
      rewrite map_app in Hnd. cbn [map fst] in Hnd.
      destruct Hin as [Hin | [Heq | Hin]].
      + assert (k <> k0).
        { intros ->. apply NoDup_remove_2 in Hnd. apply Hnd. apply in_or_app. left.
          change k0 with (fst (k0, l)). now apply in_map. }
        rewrite keqb_neq by congruence. apply IH; [exact Hnd'|]. apply in_or_app. now left.
      + inversion Heq; subst. rewrite keqb_refl. cbn [map snd]. f_equal.
        apply IH; [exact Hnd'|]. apply in_or_app. right. now left.
      + assert (k <> k0).
        { intros ->. apply NoDup_remove_2 in Hnd. apply Hnd. apply in_or_app. right.
          change k0 with (fst (k0, l)). now apply in_map. }
        rewrite keqb_neq by congruence. apply IH; [exact Hnd'|]. apply in_or_app. right. now right.
  Qed.

  (* every element of a merge comes from one of the senders *)
  Lemma interleave_keys ls out : interleave ls out ->
    forall e, In e out -> In (fst e) (map fst ls).
  Proof.
    induction 1 as [|pre k0 x l0 post out Hil IH]; intros e Hin; [destruct Hin|].
    rewrite map_app in *. cbn [map fst] in *.
    destruct Hin as [<-|Hin]; [apply in_or_app; right; now left|]. now apply IH.
  Qed.

  Lemma proj_none k out : (forall e, In e out -> fst e <> k) -> proj k out = [].
  Proof.
    induction out as [|e r IH]; intros H; [reflexivity|].
    unfold proj. cbn [filter]. rewrite keqb_neq by (apply H; now left).
    apply IH. intros e' Hin. apply H. now right.
  Qed.

  (* elements of the merge belong to their sender's list *)
  Lemma interleave_in ls out : interleave ls out ->
    forall k x, In (k, x) out -> exists l, In (k, l) ls /\ In x l.
  Proof.
    induction 1 as [|pre k0 x0 l0 post out Hil IH]; intros k x Hin; [destruct Hin|].
    destruct Hin as [E|Hin].
    - inversion E; subst. exists (x :: l0). split; [apply in_or_app; right; now left | now left].
    - destruct (IH _ _ Hin) as (l & Hl & Hx). apply in_app_or in Hl. destruct Hl as [Hl|[E|Hl]].
      + exists l. split; [apply in_or_app; now left | exact Hx].
      + inversion E; subst. eexists. split; [apply in_or_app; right; left; reflexivity|]. right. exact Hx.
      + exists l. split; [apply in_or_app; right; now right | exact Hx].
  Qed.
  (* conversely: a tagged sequence whose projections are the senders' lists IS a merge
     (this is what the correspondence checks on every recorded wire) *)
  Lemma proj_interleave : forall out ls,
    NoDup (map fst ls) ->
    (forall e, In e out -> In (fst e) (map fst ls)) ->
    (forall k l, In (k, l) ls -> proj k out = l) ->
    interleave ls out.
  Proof.
    induction out as [|[k x] out IH]; intros ls Hnd Hk Hp.
    - apply il_done. apply Forall_forall. intros [k l] Hin. cbn. symmetry. exact (Hp k l Hin).
    - assert (Hin : In k (map fst ls)) by (apply (Hk (k, x)); now left).
      apply in_map_iff in Hin. destruct Hin as ([k' l] & Hfst & Hin). cbn in Hfst. subst k'.
      apply in_split in Hin. destruct Hin as (pre & post & ->).
      assert (Hl : l = x :: proj k out).
      { rewrite <- (Hp k l) by (apply in_or_app; right; now left).
        unfold proj. cbn [filter fst]. rewrite keqb_refl. reflexivity. }
      subst l. apply il_step. rewrite map_app in Hnd. cbn [map fst] in Hnd. apply IH.
      + rewrite map_app. exact Hnd.
      + intros e He. rewrite map_app. cbn [map fst]. specialize (Hk e (or_intror He)).
        rewrite map_app in Hk. exact Hk.
      + intros k2 l2 Hin2. apply in_app_or in Hin2. destruct Hin2 as [Hin2|[E|Hin2]].
        * assert (k2 <> k).
          { intros ->. apply NoDup_remove_2 in Hnd. apply Hnd. apply in_or_app. left.
            change k with (fst (k, l2)). now apply in_map. }
          rewrite <- (Hp k2 l2) by (apply in_or_app; now left).
          unfold proj. cbn [filter fst]. rewrite keqb_neq by congruence. reflexivity.
        * inversion E; subst. reflexivity.
        * assert (k2 <> k).
          { intros ->. apply NoDup_remove_2 in Hnd. apply Hnd. apply in_or_app. right.
            change k with (fst (k, l2)). now apply in_map. }
          rewrite <- (Hp k2 l2) by (apply in_or_app; right; now right).
          unfold proj. cbn [filter fst]. rewrite keqb_neq by congruence. reflexivity.
  Qed.
End Interleave.

Lemma ep_eqb_eq a b : ep_eqb a b = true <-> a = b.
Proof.
  destruct a as [p r], b as [q s]. unfold ep_eqb. cbn [fst snd]. split.
  - intros H. apply andb_true_iff in H. destruct H as [H1 H2]. apply N.eqb_eq in H1. subst.
    destruct r, s; cbn in H2; congruence.
  - intros E. inversion E; subst. rewrite N.eqb_refl. now destruct s.
Qed.

Lemma peer_ep_inj a b : peer_ep a = peer_ep b -> a = b.
Proof. destruct a as [p [|]], b as [q [|]]; cbn; intros E; inversion E; congruence. Qed.

(* ---------- senders, receivers, the wire ---------- *)
(* per local endpoint: the (timestamp, payload) pairs it sends, in order *)
Definition sends := list (endpoint * list (N * bytes)).

Definition sends_ok (S : sends) : Prop :=
  NoDup (map fst S) /\
  Forall (fun s => fst (fst s) < resp_flag /\
                   Forall (fun tp => 1 <= blen (snd tp) <= seg_max_payload) (snd s)) S.

(* the segment protocol.sendLoop builds for one send of endpoint e: NewSegment(pid, payload, role = responder) *)
Definition seg_of (x : endpoint * (N * bytes)) : seg :=
  mk_segment (fst (snd x)) (fst (fst x)) (snd (snd x)) (is_resp_role (snd (fst x))).

Definition wire_of (out : list (endpoint * (N * bytes))) : bytes := concat (map frame (map seg_of out)).

(* the receiving muxer has a receiver registered for endpoint ep *)
Definition registered (r : reg) (ep : endpoint) : Prop := route r (fst ep) (snd ep) = Some ep.
(* diffusion mode lets segments sent by a peer endpoint of role ro through *)
Definition mode_allows (mode : N) (ro : role) : Prop :=
  match ro with Initiator => mode <> dm_initiator | Responder => mode <> dm_responder end.

Lemma s_raw_seg_of x : s_raw (seg_of x) = raw_of (fst x).
Proof. destruct x as [[p ro] [ts pl]]. reflexivity. Qed.

Lemma route_seg_sent r mode e : fst e < 32768 ->
  registered r (peer_ep e) -> mode_allows mode (snd e) ->
  route_seg r mode (raw_of e) = inr (peer_ep e).
Proof.
  intros Hp Hreg Hmode. unfold route_seg. rewrite sent_is_response, sent_get_pid by exact Hp.
  unfold registered in Hreg. destruct e as [p [|]]; cbn [fst snd is_resp_role negb peer_ep opp] in *.
  - destruct (N.eqb_spec mode dm_initiator); [contradiction|]. cbn [andb].
    rewrite andb_false_r. now rewrite Hreg.
  - rewrite andb_false_r. destruct (N.eqb_spec mode dm_responder); [contradiction|]. cbn [andb].
    now rewrite Hreg.
Qed.

Lemma loop_nil rt f : loop bytes take rt (S f) [] = ([], StEOF).
Proof. reflexivity. Qed.

Lemma delivered_to_peer (e : endpoint) (out : list (endpoint * (N * bytes))) :
  delivered_to (peer_ep e) (map (fun x => (peer_ep (fst x), snd (snd x))) out)
  = map snd (proj ep_eqb e out).
Proof.
  unfold delivered_to, proj. induction out as [|x r IH]; [reflexivity|].
  cbn [map filter fst].
  assert (E : ep_eqb (peer_ep (fst x)) (peer_ep e) = ep_eqb (fst x) e).
  { destruct (ep_eqb (fst x) e) eqn:E1.
    - apply ep_eqb_eq in E1. subst. now apply ep_eqb_eq.
    - destruct (ep_eqb (peer_ep (fst x)) (peer_ep e)) eqn:E2; [|reflexivity].
      apply ep_eqb_eq in E2. apply peer_ep_inj in E2. apply ep_eqb_eq in E2. congruence. }
  rewrite E. destruct (ep_eqb (fst x) e); cbn [map snd]; now rewrite IH.
Qed.

Lemma delivered_to_none ep ev : (forall x, In x ev -> fst x <> ep) -> delivered_to ep ev = [].
Proof.
  unfold delivered_to. induction ev as [|x r IH]; intros H; [reflexivity|].
  cbn [filter]. destruct (ep_eqb (fst x) ep) eqn:E.
  - apply ep_eqb_eq in E. exfalso. apply (H x); [now left|exact E].
  - apply IH. intros y Hy. apply H. now right.
Qed.

(* delivery: all senders, all interleavings, all chunkings *)
Lemma delivery (S : sends) r mode out chunks :
  sends_ok S ->
  (forall e l, In (e, l) S -> registered r (peer_ep e) /\ mode_allows mode (snd e)) ->
  interleave S out ->
  concat chunks = wire_of out ->
  exists ev, read_loop r mode chunks = (ev, StEOF) /\
    (forall e l, In (e, l) S -> delivered_to (peer_ep e) ev = map snd l) /\
    (forall ep, (forall e, In e (map fst S) -> ep <> peer_ep e) -> delivered_to ep ev = []).
Proof.
  intros [Hnd Hok] Hacc Hil Hw.
  set (ev := map (fun x : endpoint * (N * bytes) => (peer_ep (fst x), snd (snd x))) out).
  exists ev. split; [|split].
  - unfold read_loop. rewrite loop_chunks, Hw. unfold wire_of.
    set (segs := map seg_of out).
    pose proof (frames_length segs) as Hlen.
    replace (Datatypes.S (length (concat (map frame segs))))
      with (length segs + Datatypes.S (length (concat (map frame segs)) - length segs))%nat by lia.
    rewrite <- (app_nil_r (concat (map frame segs))).
    rewrite (loop_frames _ segs _ [] ev).
    + rewrite loop_nil. cbn. now rewrite app_nil_r.
    + subst segs. apply Forall_forall. intros s Hs. apply in_map_iff in Hs.
      destruct Hs as ([e [ts pl]] & <- & Hin).
      destruct (interleave_in _ _ Hil _ _ Hin) as (l & Hl & Hx).
      rewrite Forall_forall in Hok. destruct (Hok _ Hl) as [Hp Hpl]. cbn [fst snd] in *.
      rewrite Forall_forall in Hpl. specialize (Hpl _ Hx). cbn [snd] in Hpl.
      unfold seg_ok. rewrite s_raw_seg_of. cbn [fst]. split.
      * apply raw_of_lt. exact Hp.
      * unfold seg_max_payload in Hpl. exact Hpl.
    + subst segs ev. clear Hlen Hw. assert (Hall : forall x, In x out -> In x out) by auto.
      revert Hall. generalize out at 1 3 4. intros o. induction o as [|x o IH]; intros Hall; [constructor|].
      cbn [map]. constructor.
      * cbn [fst snd]. split; [|now destruct x as [? [? ?]]].
        rewrite s_raw_seg_of. destruct x as [e [ts pl]]. cbn [fst].
        destruct (interleave_in _ _ Hil e (ts, pl) (Hall _ (or_introl eq_refl))) as (l & Hl & Hx).
        rewrite Forall_forall in Hok. destruct (Hok _ Hl) as [Hp _]. cbn [fst] in Hp.
        destruct (Hacc _ _ Hl). now apply route_seg_sent.
      * apply IH. intros y Hy. apply Hall. now right.
  - intros e l Hin. subst ev. rewrite delivered_to_peer. f_equal.
    apply (interleave_proj ep_eqb ep_eqb_eq S out Hil Hnd e l Hin).
  - intros ep Hep. apply delivered_to_none. intros x Hx. subst ev. apply in_map_iff in Hx.
    destruct Hx as (y & <- & Hy). cbn [fst]. intros E. apply (Hep (fst y)); [|now symmetry].
    apply (interleave_keys S out Hil y Hy).
Qed.

(* ---------- errors ---------- *)
Definition routed (r : reg) (mode : N) (segs : list seg) (evs : list (endpoint * bytes)) : Prop :=
  Forall seg_ok segs /\
  Forall2 (fun s e => route_seg r mode (s_raw s) = inr (fst e) /\ snd e = s_payload s) segs evs.

Lemma fuel_split segs tail :
  exists f, Datatypes.S (length (concat (map frame segs) ++ tail)) = (length segs + Datatypes.S f)%nat.
Proof.
  pose proof (frames_length segs). rewrite app_length.
  exists (length (concat (map frame segs)) + length tail - length segs)%nat. lia.
Qed.

Lemma error_zero r mode segs evs ts raw rest chunks :
  routed r mode segs evs ->
  concat chunks = concat (map frame segs) ++ frame_header ts raw 0 ++ rest ->
  read_loop r mode chunks = (evs, StZeroLen).
Proof.
  intros [Hok H2] Hw. unfold read_loop. rewrite loop_chunks, Hw.
  destruct (fuel_split segs (frame_header ts raw 0 ++ rest)) as [f ->].
  rewrite (loop_frames _ segs _ _ evs Hok H2). cbn [loop]. rewrite step_zero. cbn.
  now rewrite app_nil_r.
Qed.

Lemma error_route r mode segs evs bad st rest chunks :
  routed r mode segs evs -> seg_ok bad ->
  route_seg r mode (s_raw bad) = inl st ->
  concat chunks = concat (map frame segs) ++ frame bad ++ rest ->
  read_loop r mode chunks = (evs, st).
Proof.
  intros [Hok H2] Hbad Hrt Hw. unfold read_loop. rewrite loop_chunks, Hw.
  destruct (fuel_split segs (frame bad ++ rest)) as [f ->].
  rewrite (loop_frames _ segs _ _ evs Hok H2). cbn [loop]. rewrite step_frame by exact Hbad.
  rewrite Hrt. cbn. now rewrite app_nil_r.
Qed.

(* when routing fails, and that it does fail for an unregistered endpoint *)
Definition role_of_raw (raw : N) : role := if is_response raw then Initiator else Responder.

Lemma route_seg_err r mode raw st : route_seg r mode raw = inl st ->
  (st = StFromInitiator /\ mode = dm_initiator /\ is_response raw = false) \/
  (st = StFromResponder /\ mode = dm_responder /\ is_response raw = true) \/
  (st = StUnknown (get_pid raw) /\ route r (get_pid raw) (role_of_raw raw) = None).
Proof.
  unfold route_seg, role_of_raw. destruct (N.eqb_spec mode dm_initiator) as [E1|E1];
    destruct (is_response raw) eqn:Er; cbn [andb negb].
  - destruct (N.eqb_spec mode dm_responder) as [E2|E2]; cbn [andb].
    + intros H. inversion H. right. left. auto.
    + destruct (route r (get_pid raw) Initiator); [discriminate|]. intros H. inversion H. auto.
  - intros H. inversion H. left. auto.
  - destruct (N.eqb_spec mode dm_responder) as [E2|E2]; cbn [andb].
    + intros H. inversion H. right. left. auto.
    + destruct (route r (get_pid raw) Initiator); [discriminate|]. intros H. inversion H. auto.
  - rewrite andb_false_r. destruct (route r (get_pid raw) Responder); [discriminate|].
    intros H. inversion H. auto.
Qed.

Lemma route_seg_unregistered r mode raw :
  route r (get_pid raw) (role_of_raw raw) = None -> exists st, route_seg r mode raw = inl st.
Proof.
  unfold route_seg, role_of_raw. intros H.
  destruct ((mode =? dm_initiator) && negb (is_response raw)); [eauto|].
  destruct ((mode =? dm_responder) && is_response raw); [eauto|].
  rewrite H. eauto.
Qed.

(* a delivery always goes to a registered receiver of the role the flag selects *)
Lemma route_seg_ok r mode raw ep : route_seg r mode raw = inr ep ->
  snd ep = role_of_raw raw /\ route r (get_pid raw) (role_of_raw raw) = Some ep /\
  (fst ep = get_pid raw \/ (fst ep = proto_unknown /\ reg_find r (get_pid raw) = None)).
Proof.
  unfold route_seg, role_of_raw.
  destruct ((mode =? dm_initiator) && negb (is_response raw)); [discriminate|].
  destruct ((mode =? dm_responder) && is_response raw); [discriminate|].
  destruct (route r (get_pid raw) (if is_response raw then Initiator else Responder)) as [e|] eqn:E;
    [|discriminate].
  intros H. inversion H; subst. unfold route in E.
  destruct (reg_find r (get_pid raw)) as [b|].
  - destruct (has_role b _); inversion E; subst. cbn. auto.
  - destruct (reg_find r proto_unknown) as [b|]; [|discriminate].
    destruct (has_role b _); inversion E; subst. cbn. auto.
Qed.

(* ---------- lengths ---------- *)
Lemma new_segment_some ts pid p isresp s : new_segment ts pid p isresp = Some s ->
  s = mk_segment ts pid p isresp /\ blen p <= seg_max_payload.
Proof.
  unfold new_segment. destruct (N.ltb_spec seg_max_payload (blen p)); cbn [orb]; [discriminate|].
  destruct (max_uint16 <? blen p); [discriminate|]. intros E. inversion E. auto.
Qed.

Lemma new_segment_none ts pid p isresp : new_segment ts pid p isresp = None <-> seg_max_payload < blen p.
Proof.
  unfold new_segment, max_uint16, seg_max_payload.
  destruct (N.ltb_spec 65535 (blen p)); cbn [orb]; split; intros; try discriminate; auto; lia.
Qed.

(* every payload the read loop delivers has between 1 and 65535 bytes, whatever the wire *)
Lemma take_len n w b w' : take n w = inl (b, w') -> length b = n /\ w = b ++ w'.
Proof.
  unfold take. destruct (Nat.leb_spec n (length w)); [|discriminate]. intros E. inversion E; subst.
  split; [apply firstn_length_le; exact H | symmetry; apply firstn_skipn].
Qed.

Lemma loop_len rt : forall f w ev st, all_bytes w ->
  loop bytes take rt f w = (ev, st) ->
  Forall (fun e => 1 <= blen (snd e) <= 65535) ev.
Proof.
  induction f as [|f IH]; intros w ev st Hb; cbn [loop]; [intros E; inversion E; constructor|].
  unfold step. destruct (take 8 w) as [[h w1]|k] eqn:E8.
  2:{ destruct k; intros E; inversion E; constructor. }
  apply take_len in E8. destruct E8 as [Hh ->].
  destruct h as [|? [|? [|? [|? [|p0 [|p1 [|l0 [|l1 [|]]]]]]]]]; try (intros E; inversion E; constructor).
  unfold all_bytes in Hb. rewrite Forall_app in Hb. destruct Hb as [Hhb Hw1].
  assert (Hl0 : l0 < 256). { rewrite Forall_forall in Hhb. apply Hhb. cbn. auto 10. }
  assert (Hl1 : l1 < 256). { rewrite Forall_forall in Hhb. apply Hhb. cbn. auto 10. }
  destruct (N.eqb_spec (rd16 l0 l1) 0) as [Ez|Ez]; [intros E; inversion E; constructor|].
  destruct (take (N.to_nat (rd16 l0 l1)) w1) as [[pl w2]|k] eqn:EP.
  2:{ destruct k; intros E; inversion E; constructor. }
  apply take_len in EP. destruct EP as [Hpl ->].
  destruct (rt (rd16 p0 p1)) as [s|ep]; [intros E; inversion E; constructor|].
  rewrite Forall_app in Hw1. destruct Hw1 as [_ Hw2].
  destruct (loop bytes take rt f w2) as [ev' st'] eqn:EL. intros E. inversion E; subst.
  constructor; [|eapply IH; eauto].
  cbn [snd]. unfold blen. rewrite Hpl, N2Nat.id. unfold rd16 in *. lia.
Qed.

(* ---------- UnregisterProtocol is local to one (protocol, role) ---------- *)
Lemma reg_find_update r pid ro v pid' :
  reg_find (reg_update r pid ro v) pid' =
  if pid' =? pid then option_map (fun e => set_role e ro v) (reg_find r pid') else reg_find r pid'.
Proof.
  induction r as [|[p e] t IH]; cbn [reg_update reg_find]; [now destruct (pid' =? pid)|].
  destruct (N.eqb_spec p pid) as [->|Hne]; cbn [reg_find].
  - destruct (N.eqb_spec pid pid') as [->|Hne']; [now rewrite N.eqb_refl|].
    destruct (N.eqb_spec pid' pid); [congruence|reflexivity].
  - destruct (N.eqb_spec p pid') as [->|Hne'].
    + destruct (N.eqb_spec pid' pid); [congruence|reflexivity].
    + exact IH.
Qed.

Lemma has_role_set_other e ro v ro' : ro' <> ro -> has_role (set_role e ro v) ro' = has_role e ro'.
Proof. destruct e, ro, ro'; cbn; congruence. Qed.

(* stopping one role of a protocol leaves every other receiver where it was: the sibling
   role of the same protocol, and all roles of all other protocols *)
Lemma unregister_other_role_unchanged r pid ro pid' ro' :
  ro' <> ro \/ (pid' <> pid /\ pid <> proto_unknown) ->
  route (unregister r pid ro) pid' ro' = route r pid' ro'.
Proof.
  intros H. unfold route, unregister. rewrite !reg_find_update.
  destruct (N.eqb_spec pid' pid) as [->|Hp].
  - destruct H as [H|[H _]]; [|congruence].
    destruct (reg_find r pid) as [e|] eqn:Ef; cbn [option_map]; [now rewrite has_role_set_other|].
    destruct (N.eqb_spec proto_unknown pid) as [E|_]; [|reflexivity].
    rewrite E, Ef. reflexivity.
  - destruct (reg_find r pid') as [e|]; [reflexivity|].
    destruct (N.eqb_spec proto_unknown pid) as [E|_]; [|reflexivity].
    destruct H as [H|[_ H]]; [|congruence].
    destruct (reg_find r proto_unknown) as [e|]; cbn [option_map]; [now rewrite has_role_set_other|reflexivity].
Qed.

Lemma route_seg_unregister r mode pid ro raw :
  role_of_raw raw <> ro \/ (get_pid raw <> pid /\ pid <> proto_unknown) ->
  route_seg (unregister r pid ro) mode raw = route_seg r mode raw.
Proof.
  intros H. unfold route_seg.
  destruct ((mode =? dm_initiator) && negb (is_response raw)); [reflexivity|].
  destruct ((mode =? dm_responder) && is_response raw); [reflexivity|].
  change (if is_response raw then Initiator else Responder) with (role_of_raw raw).
  now rewrite unregister_other_role_unchanged.
Qed.
