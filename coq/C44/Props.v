(* C44 - a failed submission does not stall later blocks: property theorems only.
   Model: coq/C42/Model.v (the tree with fixes/C44-submit-sequence-gap.patch:
   Submit consumes a sequence number only when its send succeeded). *)
From V Require Import Lib.Base C42.Model C42.Tac C42.InvB C42.InvO C42.InvS C42.Safety C42.Prog C42.Complete.

(* A Submit that fails - caller's context done, or pipeline stopping - leaves
   no trace: sequence counter, apply stage, outstanding counter and every
   item are exactly as before the call. *)
Theorem C44_failed_submit_leaves_no_gap : forall c ls s i b s1 s2, run c init ls = Some s ->
  step c s (SubBegin i) = Some s1 -> step c s1 (SubFail i b) = Some s2 ->
  nseq s2 = nseq s /\ nexta s2 = nexta s /\ outst s2 = outst s /\ tok s2 = tok s /\ rst s2 = rst s
  /\ (forall k, loc s2 k = loc s k) /\ applied s2 = applied s /\ fwdlog s2 = fwdlog s.
Proof.
  intros c ls s i b s1 s2 H H1 H2. pose proof (reach_run c ls init s (reach_init c) H) as R.
  destruct (reach_InvB c s R) as (_ & _ & B3 & _).
  cbn [step] in H1. apply guard_some in H1. destruct H1 as (G1 & H1). injection H1 as <-. bprop. subst i.
  cbn [step] in H2. apply guard_some in H2. destruct H2 as (G2 & H2). injection H2 as <-.
  cbn. repeat split; auto. intros k. unfold upd. destruct (Nat.eqb_spec k (nseq s)); [subst; symmetry; apply B3; assumption|reflexivity].
Qed.
Print Assumptions C44_failed_submit_leaves_no_gap.

(* Liveness in invariant form ("every fair maximal run"): take ANY history -
   with any number of failed submissions anywhere - that has reached a state
   where neither the pipeline nor the consumers of its output can do anything
   more, without Stop or cancellation.  Then every successfully submitted
   block (they are exactly the sequence numbers below nseq) has been read
   from Results(), and ApplyFunc was called for exactly the good ones, in
   order.  In particular blocks submitted after a failed Submit are applied. *)
Theorem C44_later_blocks_are_applied : forall c ls s, 1 <= nD c -> 1 <= cap c ->
  run c init ls = Some s -> cancel s = 0 -> quiescent c s ->
  (forall i, i < nseq s -> loc s i = LDone)
  /\ (forall i, i < nseq s -> good c i = true -> In i (applied s))
  /\ applied s = filter (good c) (seq 0 (nseq s)) /\ outst s = 0.
Proof.
  intros c ls s ND CAP H C0 Q. pose proof (reach_run c ls init s (reach_init c) H) as R.
  assert (A : applied s = filter (good c) (seq 0 (nseq s))) by (eapply q_applied; eassumption).
  split; [intros i Hi; eapply q_all_done; eassumption|split; [|split; [exact A|eapply q_outst; eassumption]]].
  intros i Hi G. rewrite A. apply filter_In. split; [apply in_seq; lia|exact G].
Qed.
Print Assumptions C44_later_blocks_are_applied.

(* non-vacuity: buffer 1; two Submits fail (caller's context done), their
   numbers 0 and 1 are reused by the next successful Submits; everything is
   delivered and applied *)
Definition c1 : cfg := {| nD := 1; nV := 0; cap := 1; maxp := 0; dec_ok := fun _ => true; val_ok := fun _ => true |}.
Example C44_nonvacuous : exists s,
  run c1 init [SubBegin 0; SubFail 0 false; SubBegin 0; SubOk 0; WTake 0 0; SubBegin 1; SubFail 1 false; SubBegin 1; SubOk 1;
               WProc 0 0 ROk; WPut 0 0; WTake 0 1; ATake 0; ANext 0; ABegin 0; AEnd 0 false; APendStop false;
               AFwdSend 0; AFwdDec 0; ResRead 0; WProc 0 1 ROk; WPut 0 1; ATake 1; ANext 1; ABegin 1; AEnd 1 false;
               APendStop false; AFwdSend 1; AFwdDec 1; ResRead 1] = Some s
  /\ applied s = [0; 1] /\ nseq s = 2 /\ outst s = 0 /\ cancel s = 0.
Proof. eexists. split; [vm_compute; reflexivity|]. vm_compute. repeat split. Qed.
