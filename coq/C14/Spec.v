(* C14 - which states must declare a timeout.  HAND-WRITTEN from the
   specifications, independent of the Go tables:
   * Cardano node-to-node protocols: Ouroboros network specification, section
     "Timeouts per state" of each mini-protocol (handshake: StPropose, StConfirm;
     chain-sync: StIdle, StNext CanAwait, StNext MustReply (a randomly drawn
     value, hence a TimeoutFunc), StIntersect; block-fetch: StBusy, StStreaming;
     tx-submission: StTxIds non-blocking, StTxs (StIdle and StTxIds blocking
     wait for ever); keep-alive: StClient, StServer; peer-sharing: StBusy).
   * node-to-client protocols: the specification gives no timeouts; the
     implementation's CLIENTS declare their own (README / config defaults:
     local-tx-submission Busy; local-state-query Acquiring, Querying;
     local-tx-monitor Acquiring and the three Busy states), the servers none;
     chain-sync and handshake in node-to-client mode: none.
   * DMQ (CIP-0137) and Leios protocols: the packages' READMEs / doc comments.
     leios-fetch deliberately has no timeout in Block / BlockTxs (client.go).
   A state listed here that loses its timeout in Go (or a state not listed that
   gains one) breaks C14_declared with the offending entry. *)
From Coq Require Import String.
From V Require Import Lib.Base.
Local Open Scope string_scope.

Definition cs_ntn := ["Idle"; "CanAwait"; "MustReply"; "Intersect"].
Definition expected_timeouts : list (string * list string) := [
  ("handshake_ntn_client", ["Propose"; "Confirm"]);
  ("handshake_ntn_server", ["Propose"; "Confirm"]);
  ("handshake_ntc_client", []);
  ("handshake_ntc_server", []);
  (* ProtocolOptions.Mode omitted (zero value): the table that the constructor's base state map
     selection implies - handshake falls back to the node-to-node map, chain-sync to the
     node-to-client map ("callers who omit Mode get consistent NtC behaviour": no timeouts) *)
  ("handshake_mode0_client", ["Propose"; "Confirm"]);
  ("handshake_mode0_server", ["Propose"; "Confirm"]);
  ("chainsync_mode0_client", []);
  ("chainsync_mode0_server", []);
  ("chainsync_ntn_client", cs_ntn);
  ("chainsync_ntn_server", cs_ntn);
  ("chainsync_ntc_client", []);
  ("chainsync_ntc_server", []);
  ("blockfetch_client", ["Busy"; "Streaming"]);
  ("blockfetch_server", ["Busy"; "Streaming"]);
  ("txsubmission_client", ["TxIdsNonBlocking"; "Txs"]);
  ("txsubmission_server", ["TxIdsNonBlocking"; "Txs"]);
  ("keepalive_client", ["Client"; "Server"]);
  ("keepalive_server", ["Client"; "Server"]);
  ("peersharing_client", ["Busy"]);
  ("peersharing_server", ["Busy"]);
  ("localtxsubmission_client", ["Busy"]);
  ("localtxsubmission_server", []);
  ("localstatequery_client", ["Acquiring"; "Querying"]);
  ("localstatequery_server", []);
  ("localstatequery_v9_client", ["Acquiring"; "Querying"]);
  ("localstatequery_v9_server", []);
  ("localtxmonitor_client", ["Acquiring"; "BusyNextTx"; "BusyHasTx"; "BusyGetSizes"]);
  ("localtxmonitor_server", []);
  ("messagesubmission_v1_client", ["init"; "idle"; "messageIdsBlocking"; "messages"]);
  ("messagesubmission_v1_server", ["init"; "idle"; "messageIdsBlocking"; "messages"]);
  ("messagesubmission_v2_client", ["idle"; "messageIdsBlocking"; "messages"]);
  ("messagesubmission_v2_server", ["idle"; "messageIdsBlocking"; "messages"]);
  ("localmessagesubmission_client", ["idle"; "busy"]);
  ("localmessagesubmission_server", ["idle"; "busy"]);
  ("localmessagenotification_client", ["idle"]);
  ("localmessagenotification_server", ["idle"]);
  ("leiosfetch_client", ["Votes"; "BlockRange"]);
  ("leiosfetch_server", []);
  ("leiosnotify_client", ["Busy"]);
  ("leiosnotify_server", []);
  ("leiosvotes_client", ["Busy"]);
  ("leiosvotes_server", ["Busy"])].
(* the randomly drawn timeout of the specification is a TimeoutFunc *)
Definition expected_func : list (string * list string) := [
  ("chainsync_ntn_client", ["MustReply"]); ("chainsync_ntn_server", ["MustReply"])].

Definition tabrow := (N * (N * bool * bool))%type.
Definition gentry := (string * N * list (N * string) * list tabrow)%type.

Fixpoint name_of (ns : list (N * string)) (s : N) : string :=
  match ns with [] => "?" | (k, n) :: r => if N.eqb k s then n else name_of r s end.
Definition mem (x : string) (l : list string) : bool := existsb (String.eqb x) l.
Fixpoint assoc (k : string) (l : list (string * list string)) : option (list string) :=
  match l with [] => None | (a, v) :: r => if String.eqb a k then Some v else assoc k r end.

(* a state of the generated table declares a timer that can be armed *)
Definition declares (row : tabrow) : bool :=
  let '(_, (d, f, ag)) := row in ag && ((0 <? d)%N || f).
Definition is_func (row : tabrow) : bool := let '(_, (_, f, _)) := row in f.

(* offending entries: (automaton, state, declared in Go, expected) *)
Definition bad_rows (g : gentry) : list (string * string * bool * bool) :=
  let '(nm, _, names, tab) := g in
  match assoc nm expected_timeouts with
  | None => [(nm, "<automaton not in the specification table>", true, false)]
  | Some ex =>
      let exf := match assoc nm expected_func with Some l => l | None => [] end in
      app (flat_map (fun row =>
        let n := name_of names (fst row) in
        app (if Bool.eqb (declares row) (mem n ex) then [] else [(nm, n, declares row, mem n ex)])
            (if Bool.eqb (is_func row) (mem n exf) then [] else [(nm, String.append n "/TimeoutFunc", is_func row, mem n exf)])) tab)
      (* an expected state that is not in the table at all *)
      (flat_map (fun n => if existsb (fun row => String.eqb (name_of names (fst row)) n) tab then []
                          else [(nm, n, false, true)]) ex)
  end.
Definition offending (gs : list gentry) : list (string * string * bool * bool) :=
  app (flat_map bad_rows gs)
  (flat_map (fun e => if existsb (fun g => String.eqb (fst (fst (fst g))) (fst e)) gs then []
                        else [(fst e, "<automaton missing from the generated table>", false, true)]) expected_timeouts).

(* every package whose constructors branch on ProtocolOptions.Mode (list generated by go/ast) has the
   three columns NtN, NtC, Mode-omitted in the generated table, for both roles *)
Definition has_table (gs : list gentry) (nm : string) : bool :=
  existsb (fun g => String.eqb (fst (fst (fst g))) nm) gs.
Definition missing_columns (gs : list gentry) (pkgs : list string) : list string :=
  flat_map (fun p => filter (fun nm => negb (has_table gs nm))
     (map (fun suf => String.append p suf)
          ["_ntn_client"; "_ntn_server"; "_ntc_client"; "_ntc_server"; "_mode0_client"; "_mode0_server"])) pkgs.
