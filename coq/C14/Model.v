(* C14 - the state-transition timer of protocol/protocol.go (stateLoop) as a
   timed refinement of the C11 engine LTS.  NO proofs here.

   Go (protocol.go, stateLoop):
     var transitionTimer *time.Timer ; var initialStateSet bool
     setState(s):  stop+drain the previous timer, transitionTimer = nil
                   store s ; put the ready token
                   Agency None (or ProtocolRoleNone)  -> return      (before the timer code)
                   !initialStateSet                   -> return      ("Don't activate timeouts on initial protocol state")
                   timeout := entry.Timeout ; if entry.TimeoutFunc != nil { timeout = entry.TimeoutFunc() }
                   if timeout > 0 { transitionTimer = time.NewTimer(timeout) }
     setState(InitialState) ; initialStateSet = true
     loop select:  <-stopChan / <-doneChan : stop the timer, return
                   t := <-ch : nextState fails -> reply error, `continue` (timer untouched)
                               else setState(next) ; reply nil
                   <-timer.C : transitionTimer = nil ; p.SendError("... timeout waiting on transition ...")

   The timer component `tmr` has its own functions (tm_tick, tm_set_state,
   tm_fire, tm_exit); the timed engine `tstep` is C11.Engine.step plus these.
   The correspondence run replays the observed timed history of the real
   stateLoop through the very same tm_* functions (`replay`). *)
From V Require Import Lib.Base C11.Engine.
Local Open Scope N_scope.

(* ------------------------------------------------------- timeout tables *)
(* StateMapEntry.Timeout (any unit; ns in Gen.v) and TimeoutFunc != nil *)
Record tentry := { te_timeout : N; te_func : bool }.
Definition ttable := list (N * tentry).
(* Go: StateMap[s] of a missing key is the zero entry: Timeout 0, TimeoutFunc nil *)
Definition zero_tentry : tentry := {| te_timeout := 0; te_func := false |}.
Fixpoint tlookup (tt : ttable) (s : N) : tentry :=
  match tt with
  | [] => zero_tentry
  | (k, e) :: r => if N.eqb k s then e else tlookup r s
  end.
(* `tf` is what TimeoutFunc() returns when it is called (an arbitrary value
   chosen by the environment; a non-positive Duration is 0 here) *)
Definition eff_timeout (tt : ttable) (s : N) (tf : N) : N :=
  if te_func (tlookup tt s) then tf else te_timeout (tlookup tt s).

(* ------------------------------------------------------- observable history *)
(* newest event first; every event carries the clock value *)
Inductive hev :=
| HEnter (s : N) (initial : bool) (hasag : bool) (d : N)
    (* setState stored s; initial = this is setState(InitialState) before
       initialStateSet; hasag = the state has an agency (timer code reached);
       d = the effective timeout of s (Timeout, or the TimeoutFunc value) *)
| HFire (s : N)   (* the timer channel fired: SendError(timeout ... state s) called *)
| HErr (s : N)    (* ... and the error was delivered to ErrorChan, protocol stopped *)
| HExit.          (* stateLoop returned *)
Definition hist := list (N * hev).

(* the latest state entry and whether the timer fired since *)
Fixpoint last_enter (h : hist) : option (N * N * bool * bool * N) :=
  match h with
  | [] => None
  | (t, HEnter s i a d) :: _ => Some (t, s, i, a, d)
  | _ :: r => last_enter r
  end.
Fixpoint fired_since (h : hist) : bool :=
  match h with
  | [] => false
  | (_, HEnter _ _ _ _) :: _ => false
  | (_, HFire _) :: _ => true
  | _ :: r => fired_since r
  end.

(* ------------------------------------------------------- the timer component *)
Record tmr := {
  now : N;                (* the clock *)
  deadline : option N;    (* transitionTimer: Some dl = armed, fires at dl *)
  alive : bool;           (* stateLoop has not returned *)
  init_set : bool;        (* initialStateSet *)
  tcur : N;               (* the state stateLoop stored last *)
  hst : hist }.

Definition tm_tick (t : tmr) (d : N) : tmr :=
  {| now := now t + d; deadline := deadline t; alive := alive t; init_set := init_set t;
     tcur := tcur t; hst := hst t |}.

(* the setState closure; hasag = Agency of s is not None *)
Definition tm_set_state (tt : ttable) (t : tmr) (s : N) (hasag : bool) (tf : N) : tmr :=
  let d := eff_timeout tt s tf in
  {| now := now t;
     deadline := if hasag && init_set t && (0 <? d) then Some (now t + d) else None;
     alive := alive t; init_set := init_set t; tcur := s;
     hst := (now t, HEnter s (negb (init_set t)) hasag d) :: hst t |}.

(* case <-getTimerChan(): enabled iff armed and the deadline has passed *)
Definition tm_fire (t : tmr) : option tmr :=
  if alive t then
    match deadline t with
    | Some dl => if dl <=? now t
                 then Some {| now := now t; deadline := None; alive := alive t; init_set := init_set t;
                              tcur := tcur t; hst := (now t, HFire (tcur t)) :: hst t |}
                 else None
    | None => None
    end
  else None.
Definition tm_log_err (t : tmr) : tmr :=
  {| now := now t; deadline := deadline t; alive := alive t; init_set := init_set t;
     tcur := tcur t; hst := (now t, HErr (tcur t)) :: hst t |}.
(* case <-stopChan / <-doneChan: stop the timer and return *)
Definition tm_exit (t : tmr) : option tmr :=
  if alive t then Some {| now := now t; deadline := None; alive := false; init_set := init_set t;
                          tcur := tcur t; hst := (now t, HExit) :: hst t |}
  else None.

Definition tm_init (tt : ttable) (s0 : N) (hasag : bool) : tmr :=
  let t := tm_set_state tt {| now := 0; deadline := None; alive := true; init_set := false; tcur := s0; hst := [] |}
                        s0 hasag 0 in
  {| now := now t; deadline := deadline t; alive := true; init_set := true; tcur := tcur t; hst := hst t |}.

(* ------------------------------------------------------- the timed engine *)
Inductive tlabel :=
| L (l : label) (tf : N)   (* an engine action; tf = TimeoutFunc's value should setState call it *)
| Tick (d : N)             (* time passes *)
| TimerFire (full : bool)  (* the timer case of stateLoop; full = ErrorChan is full *)
| LoopExit.                (* stateLoop takes the stopChan / doneChan case *)

Record tst := { eng : st; tm : tmr }.

Definition is_timeout (l : label) : bool := match l with Timeout _ => true | _ => false end.
(* a state transition was performed by this engine step (tlog grows exactly there) *)
Definition transitioned (e e' : st) : bool := negb (Nat.eqb (length (tlog (lg e'))) (length (tlog (lg e)))).
(* doneChan is closed: recvLoop and sendLoop have both returned *)
Definition pdone (e : st) : bool := sdead (sph (sn e)) && ldead (lph (rc e)).
Definition has_agency (sm : statemap) (s : N) : bool :=
  match agency_of sm s with ANone => false | _ => true end.

Section Timed.
Variable sm : statemap.
Variable r : role.
Variable s0 : N.
Variable rqcap : N.
Variable k : consts.
Variable tt : ttable.

Definition tstep (s : tst) (l : tlabel) : option tst :=
  match l with
  | Tick d => Some {| eng := eng s; tm := tm_tick (tm s) d |}
  | L l tf =>
      if is_timeout l then None
      else match step sm r s0 rqcap k (eng s) l with
           | None => None
           | Some e' =>
               if transitioned (eng s) e'
               then (* the requester got its reply from stateLoop: setState ran *)
                    if alive (tm s)
                    then Some {| eng := e'; tm := tm_set_state tt (tm s) (cur (c e')) (has_agency sm (cur (c e'))) tf |}
                    else None
               else Some {| eng := e'; tm := tm s |}
           end
  | TimerFire full =>
      match tm_fire (tm s) with
      | None => None
      | Some t' =>
          let delivered := negb (stopped (fl (eng s))) && negb full in
          Some {| eng := with_fl (eng s) (send_error (fl (eng s)) full);   (* = step (Timeout full) *)
                  tm := if delivered then tm_log_err t' else t' |}
      end
  | LoopExit =>
      if stopped (fl (eng s)) || pdone (eng s)
      then match tm_exit (tm s) with Some t' => Some {| eng := eng s; tm := t' |} | None => None end
      else None
  end.

Definition tinit : tst := {| eng := init sm r s0; tm := tm_init tt s0 (has_agency sm s0) |}.

Fixpoint trun (s : tst) (ls : list tlabel) : option tst :=
  match ls with
  | [] => Some s
  | l :: ls' => match tstep s l with Some s' => trun s' ls' | None => None end
  end.

(* projection to the untimed engine: TimerFire is the engine's Timeout label *)
Fixpoint erase (ls : list tlabel) : list label :=
  match ls with
  | [] => []
  | L l _ :: r => l :: erase r
  | TimerFire full :: r => Timeout full :: erase r
  | _ :: r => erase r
  end.
End Timed.

(* ------------------------------------------------------- specification *)
(* The property, as a checker over an observable timed history (newest
   first).  Every timer fire at time t must be justified: the latest state
   entry before it was a non-initial entry at t0 into a state with an agency
   and effective timeout d > 0, no fire since, and t0 + d <= t. *)
Definition justified (h1 : hist) (t : N) (sx : N) : bool :=
  match last_enter h1 with
  | Some (t0, s, ini, ag, d) =>
      N.eqb s sx && negb ini && ag && (0 <? d) && (t0 + d <=? t) && negb (fired_since h1)
  | None => false
  end.
Fixpoint fires_ok (h : hist) : bool :=
  match h with
  | [] => true
  | (t, HFire sx) :: h1 => justified h1 t sx && fires_ok h1
  | _ :: h1 => fires_ok h1
  end.
(* an error report is always immediately preceded by its fire *)
Fixpoint errs_ok (h : hist) : bool :=
  match h with
  | [] => true
  | (t, HErr sx) :: h1 =>
      match h1 with (t', HFire sy) :: _ => N.eqb t t' && N.eqb sx sy | _ => false end && errs_ok h1
  | _ :: h1 => errs_ok h1
  end.
(* every recorded entry uses the table: d is Timeout unless the state has a TimeoutFunc *)
Fixpoint enters_ok (tt : ttable) (h : hist) : bool :=
  match h with
  | [] => true
  | (_, HEnter s _ _ d) :: h1 =>
      (te_func (tlookup tt s) || N.eqb d (te_timeout (tlookup tt s))) && enters_ok tt h1
  | _ :: h1 => enters_ok tt h1
  end.

(* ------------------------------------------------------- correspondence *)
(* One observed stateLoop history of the real engine.  Times are absolute
   (same unit as the table of the run); events in emission order. *)
Inductive oev :=
| OEnter (s : N) (tf : N)              (* trace event State (A = s); tf = value our TimeoutFunc wrapper returned (0 if not called) *)
| OFire (stopped_before full delivered : bool).
        (* SendError called on the stateLoop goroutine; was the protocol already
           stopping; was ErrorChan full; did the SendErrStop event follow *)
Record orun := {
  o_table : list (N * (N * bool * bool));  (* state -> (timeout used in the run, TimeoutFunc set, has agency) *)
  o_init : N;
  o_events : list (N * oev);
  o_end : N;          (* time at which the observation ended (protocol still not stopped by the harness) *)
  o_margin : N;       (* judging margin: an armed timer overdue by more than this at o_end must have fired *)
  o_judge_end : bool  (* the end-of-run overdue check applies (no external stop before o_end) *) }.

Definition o_tt (o : orun) : ttable :=
  map (fun e => (fst e, {| te_timeout := fst (fst (snd e)); te_func := snd (fst (snd e)) |})) (o_table o).
Fixpoint o_hasag (tb : list (N * (N * bool * bool))) (s : N) : bool :=
  match tb with
  | [] => false
  | (k, (_, _, a)) :: r => if N.eqb k s then a else o_hasag r s
  end.

(* replay codes: 0 = accepted; 1+i = event i refused by the model; 1000 =
   overdue timer at the end; 2000+i = delivery flag of fire i differs *)
Fixpoint replay (tt : ttable) (tb : list (N * (N * bool * bool))) (i : N) (t : tmr) (evs : list (N * oev)) : N + tmr :=
  match evs with
  | [] => inr t
  | (at_, e) :: rest =>
      if at_ <? now t then inl (1 + i)
      else let t1 := tm_tick t (at_ - now t) in
        match e with
        | OEnter s tf =>
            if alive t1 then replay tt tb (i + 1) (tm_set_state tt t1 s (o_hasag tb s) tf) rest else inl (1 + i)
        | OFire sb full dl =>
            match tm_fire t1 with
            | None => inl (1 + i)
            | Some t2 => if Bool.eqb dl (negb sb && negb full)
                         then replay tt tb (i + 1) (if dl then tm_log_err t2 else t2) rest
                         else inl (2000 + i)
            end
        end
  end.
Definition overdue (t : tmr) (end_ margin : N) : bool :=
  match deadline t with Some dl => alive t && (dl + margin <? end_) | None => false end.

Definition run_code (o : orun) : N :=
  match o_events o with
  | (t0, OEnter s _) :: rest =>
      if N.eqb s (o_init o) then
        let t := tm_tick {| now := 0; deadline := None; alive := true; init_set := false; tcur := s; hst := [] |} t0 in
        let t := tm_set_state (o_tt o) t s (o_hasag (o_table o) s) 0 in
        let t := {| now := now t; deadline := deadline t; alive := true; init_set := true; tcur := tcur t; hst := hst t |} in
        match replay (o_tt o) (o_table o) 1 t rest with
        | inl c => c
        | inr t' => if o_judge_end o && overdue t' (o_end o) (o_margin o) then 1000
                    else if fires_ok (hst t') && errs_ok (hst t') then 0 else 3000
        end
      else 1
  | _ => 1
  end.

(* a case = an observed run + the structure of the REAL table it was scaled
   from (index into Gen.all_tables is resolved by the harness through
   `case_of`, see Props/Gen) *)
Record case := { k_real : list (N * (N * bool * bool)); k_run : orun }.

(* the scaled table keeps the structure of the real one: same states, same
   TimeoutFunc flags and agencies, zero iff zero, and the order of the
   (static) timeouts is preserved *)
Fixpoint same_shape (real run : list (N * (N * bool * bool))) : bool :=
  match real, run with
  | [], [] => true
  | (s, (d, f, a)) :: r1, (s', (d', f', a')) :: r2 =>
      N.eqb s s' && Bool.eqb f f' && Bool.eqb a a' && Bool.eqb (0 <? d) (0 <? d') && same_shape r1 r2
  | _, _ => false
  end.
Definition order_kept (real run : list (N * (N * bool * bool))) : bool :=
  forallb (fun p => forallb (fun q =>
      let '(_, (d1, f1, _)) := fst p in let '(_, (d2, f2, _)) := fst q in
      let '(_, (e1, _, _)) := snd p in let '(_, (e2, _, _)) := snd q in
      f1 || f2 || (Bool.eqb (d1 <? d2) (e1 <? e2) && Bool.eqb (N.eqb d1 d2) (N.eqb e1 e2)))
    (combine real run)) (combine real run).

Definition check_case (c : case) : bool :=
  same_shape (k_real c) (o_table (k_run c)) && order_kept (k_real c) (o_table (k_run c))
  && N.eqb (run_code (k_run c)) 0.
Definition mismatches := failing check_case.
(* diagnostic: the replay code of every case *)
Definition codes (cs : list case) : list N := map (fun c => run_code (k_run c)) cs.
