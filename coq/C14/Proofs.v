(* C14 - invariants of the timed engine, for every state map, role, initial
   state, constants, timeout table and every label list (= every schedule,
   every peer behaviour, every passage of time, every TimeoutFunc value). *)
From V Require Import Lib.Base C11.Engine C11.EngineProofs C14.Model.
Local Open Scope N_scope.

(* ---------------------------------------------------------------- lists *)
Lemma fires_ok_suffix : forall h2 h1, fires_ok (h2 ++ h1) = true -> fires_ok h1 = true.
Proof.
  induction h2 as [|[t e] h2 IH]; intros h1 H; [exact H|].
  cbn [app fires_ok] in H. destruct e; try (apply IH; exact H).
  apply andb_true_iff in H. apply IH. apply H.
Qed.
Lemma errs_ok_suffix : forall h2 h1, errs_ok (h2 ++ h1) = true -> errs_ok h1 = true.
Proof.
  induction h2 as [|[t e] h2 IH]; intros h1 H; [exact H|].
  cbn [app errs_ok] in H. destruct e; try (apply IH; exact H).
  apply andb_true_iff in H. apply IH. apply H.
Qed.
Lemma enters_ok_suffix tt : forall h2 h1, enters_ok tt (h2 ++ h1) = true -> enters_ok tt h1 = true.
Proof.
  induction h2 as [|[t e] h2 IH]; intros h1 H; [exact H|].
  cbn [app enters_ok] in H. destruct e; try (apply IH; exact H).
  apply andb_true_iff in H. apply IH. apply H.
Qed.

Lemma justified_spec h1 t sx : justified h1 t sx = true ->
  exists t0 d, last_enter h1 = Some (t0, sx, false, true, d) /\ fired_since h1 = false /\ 0 < d /\ t0 + d <= t.
Proof.
  unfold justified. destruct (last_enter h1) as [[[[[t0 s] ini] ag] d]|]; [|discriminate].
  intros H. repeat (apply andb_true_iff in H; destruct H as [H ?]).
  apply N.eqb_eq in H. subst s. destruct ini; [discriminate|]. destruct ag; [|discriminate].
  exists t0, d. repeat split; auto; try lia. destruct (fired_since h1); [discriminate|reflexivity].
Qed.

(* the deadline the history calls for *)
Definition armed_spec (h : hist) : option N :=
  match last_enter h with
  | Some (t0, _, ini, ag, d) => if negb ini && ag && (0 <? d) && negb (fired_since h) then Some (t0 + d) else None
  | None => None
  end.
Fixpoint exited (h : hist) : bool :=
  match h with [] => false | (_, HExit) :: _ => true | _ :: r => exited r end.

(* ---------------------------------------------------------------- engine facts *)
Section EngineFacts.
Variable sm : statemap.
Variable r : role.
Variable s0 : N.
Variable rqcap : N.
Variable k : consts.
Notation step := (step sm r s0 rqcap k).

Lemma send_error_stopped f full : stopped f = true -> stopped (send_error f full) = true.
Proof. unfold send_error. intros H. rewrite H. exact H. Qed.
Lemma send_error_mono f full : stopped f = true -> send_error f full = f.
Proof. unfold send_error. intros ->. reflexivity. Qed.

Lemma stopped_mono s l s' : step s l = Some s' -> stopped (fl s) = true -> stopped (fl s') = true.
Proof.
  intros H S. destr_st s. cbn in S. subst stopped.
  destruct l; cbn in H;
    unfold do_enq, do_enq_over, do_take_send, do_send_queued, do_send_deq, do_batch_end, do_send_seg,
      do_seg_in, do_dec_incomplete, do_dec_bad, do_dec_empty, do_dec_msg, do_admit, do_put,
      do_take_recv, do_handle, do_handler_call, do_handler_ret, do_send_error, do_exit, send_error in H;
    cbn in H; crush H; reflexivity.
Qed.

Lemma pdone_mono s l s' : step s l = Some s' -> pdone s = true -> pdone s' = true.
Proof.
  intros H S. destr_st s. unfold pdone in *. cbn in S. apply andb_true_iff in S. destruct S as [S1 S2].
  destruct sph; try discriminate. destruct lph; try discriminate.
  destruct l; cbn in H;
    unfold do_enq, do_enq_over, do_take_send, do_send_queued, do_send_deq, do_batch_end, do_send_seg,
      do_seg_in, do_dec_incomplete, do_dec_bad, do_dec_empty, do_dec_msg, do_admit, do_put,
      do_take_recv, do_handle, do_handler_call, do_handler_ret, do_send_error, do_exit, send_error in H;
    cbn in H; crush H; reflexivity.
Qed.
End EngineFacts.

(* ---------------------------------------------------------------- the invariant *)
Section Proofs.
Variable sm : statemap.
Variable r : role.
Variable s0 : N.
Variable rqcap : N.
Variable k : consts.
Variable tt : ttable.
Notation tstep := (tstep sm r s0 rqcap k tt).
Notation trun := (trun sm r s0 rqcap k tt).
Notation tinit := (tinit sm r s0 tt).

Record TInv (s : tst) : Prop := {
  i_fires : fires_ok (hst (tm s)) = true;
  i_errs : errs_ok (hst (tm s)) = true;
  i_enters : enters_ok tt (hst (tm s)) = true;
  i_dl : deadline (tm s) = if alive (tm s) then armed_spec (hst (tm s)) else None;
  i_cur : exists t0 ini ag d, last_enter (hst (tm s)) = Some (t0, tcur (tm s), ini, ag, d);
  i_alive : alive (tm s) = negb (exited (hst (tm s)));
  i_dead : alive (tm s) = false -> stopped (fl (eng s)) = true \/ pdone (eng s) = true;
  i_init : init_set (tm s) = true }.

Lemma tinv_init : TInv tinit.
Proof.
  unfold tinit, tm_init, tm_set_state. split; cbn [tm eng hst deadline alive tcur init_set now].
  - reflexivity.
  - reflexivity.
  - cbn [enters_ok]. unfold eff_timeout. destruct (te_func (tlookup tt s0)); cbn; rewrite ?N.eqb_refl; reflexivity.
  - unfold armed_spec; cbn [last_enter fired_since negb andb]. rewrite andb_false_r. reflexivity.
  - do 4 eexists. reflexivity.
  - reflexivity.
  - discriminate.
  - reflexivity.
Qed.

Lemma eff_enter_ok s tf : te_func (tlookup tt s) || N.eqb (eff_timeout tt s tf) (te_timeout (tlookup tt s)) = true.
Proof. unfold eff_timeout. destruct (te_func (tlookup tt s)); [reflexivity|]. rewrite N.eqb_refl. reflexivity. Qed.

Lemma tinv_step s l s' : TInv s -> tstep s l = Some s' -> TInv s'.
Proof.
  intros I H. destruct I as [If Ie In Id Ic Ia Idd Ii].
  destruct l as [l tf|d|full|]; cbn [Model.tstep] in H.
  - (* engine action *)
    destruct (is_timeout l); [discriminate|].
    destruct (step sm r s0 rqcap k (eng s) l) as [e'|] eqn:E; [|discriminate].
    destruct (transitioned (eng s) e').
    + destruct (alive (tm s)) eqn:A; [|discriminate]. injection H as <-.
      split; cbn [tm eng tm_set_state hst deadline alive tcur init_set fires_ok errs_ok enters_ok]; auto.
      * rewrite eff_enter_ok. exact In.
      * rewrite A, Ii. unfold armed_spec. cbn [last_enter fired_since]. rewrite andb_true_r, andb_true_r.
        cbn [negb andb]. destruct (has_agency sm (cur (c e'))); reflexivity.
      * do 4 eexists. reflexivity.
      * cbn [exited]. rewrite A. exact Ia.
      * rewrite A. discriminate.
    + injection H as <-. split; cbn [tm eng]; auto.
      intros A. destruct (Idd A) as [S|S]; [left; eapply stopped_mono; eauto|right; eapply pdone_mono; eauto].
  - (* tick *)
    injection H as <-. split; cbn [tm eng tm_tick hst deadline alive tcur init_set]; auto.
  - (* timer fire *)
    destruct (tm_fire (tm s)) as [t'|] eqn:F; [|discriminate]. injection H as <-.
    unfold tm_fire in F. destruct (alive (tm s)) eqn:A; [|discriminate].
    destruct (deadline (tm s)) as [dl|] eqn:D; [|discriminate].
    destruct (dl <=? now (tm s)) eqn:LE; [|discriminate]. injection F as <-.
    unfold armed_spec in Id. destruct Ic as (t0 & ini & ag & d & LEn). rewrite LEn in Id.
    destruct (negb ini && ag && (0 <? d) && negb (fired_since (hst (tm s)))) eqn:G; [|discriminate].
    injection Id as ->.
    assert (J : justified (hst (tm s)) (now (tm s)) (tcur (tm s)) = true).
    { unfold justified. rewrite LEn, N.eqb_refl.
      repeat (apply andb_true_iff in G; destruct G as [G ?]).
      rewrite G. cbn [andb]. repeat (apply andb_true_iff; split); auto. }
    destruct (negb (stopped (fl (eng s))) && negb full);
      split; cbn [tm eng tm_log_err hst deadline alive tcur init_set fires_ok errs_ok enters_ok exited]; auto;
      try (rewrite J, If; reflexivity);
      try (rewrite !N.eqb_refl, Ie; reflexivity);
      try (unfold armed_spec; cbn [last_enter fired_since]; rewrite LEn;
           cbn [negb]; rewrite andb_false_r; reflexivity);
      try (do 4 eexists; cbn [last_enter]; exact LEn);
      try discriminate.
  - (* loop exit *)
    destruct (stopped (fl (eng s)) || pdone (eng s)) eqn:G; [|discriminate].
    unfold tm_exit in H. destruct (alive (tm s)) eqn:A; [|discriminate]. injection H as <-.
    split; cbn [tm eng hst deadline alive tcur init_set fires_ok errs_ok enters_ok exited last_enter]; auto.
    intros _. apply orb_true_iff in G. exact G.
Qed.

Lemma trun_inv (P : tst -> Prop) :
  (forall s l s', P s -> tstep s l = Some s' -> P s') ->
  forall ls s s', P s -> trun s ls = Some s' -> P s'.
Proof.
  intros HS. induction ls as [|l ls IH]; intros s s' HP Hr; cbn in Hr.
  - injection Hr as <-. exact HP.
  - destruct (tstep s l) as [s1|] eqn:E; [|discriminate]. eapply IH; [eapply HS; eauto|exact Hr].
Qed.

Theorem tinv : forall ls s, trun tinit ls = Some s -> TInv s.
Proof. intros ls s H. eapply trun_inv; eauto using tinv_step, tinv_init. Qed.

Lemma trun_app : forall l1 l2 s, trun s (l1 ++ l2) = match trun s l1 with Some s1 => trun s1 l2 | None => None end.
Proof. induction l1 as [|l l1 IH]; intros; cbn; [reflexivity|]. destruct (tstep s l); auto. Qed.

(* ---------------------------------------------------------------- refinement *)
Theorem refines_engine : forall ls s s', trun s ls = Some s' ->
  run sm r s0 rqcap k (eng s) (erase ls) = Some (eng s').
Proof.
  induction ls as [|l ls IH]; intros s s' H; cbn in H.
  - injection H as <-. reflexivity.
  - destruct (Model.tstep sm r s0 rqcap k tt s l) as [s1|] eqn:E; [|discriminate].
    specialize (IH _ _ H). destruct l as [l tf|d|full|]; cbn [erase run]; cbn [Model.tstep] in E.
    + destruct (is_timeout l); [discriminate|].
      destruct (step sm r s0 rqcap k (eng s) l) as [e'|] eqn:E2; [|discriminate].
      destruct (transitioned (eng s) e').
      * destruct (alive (tm s)); [|discriminate]. injection E as <-. exact IH.
      * injection E as <-. exact IH.
    + injection E as <-. exact IH.
    + destruct (tm_fire (tm s)); [|discriminate]. injection E as <-. cbn [step]. exact IH.
    + destruct (stopped (fl (eng s)) || pdone (eng s)); [|discriminate].
      destruct (tm_exit (tm s)); [|discriminate]. injection E as <-. exact IH.
Qed.

(* ---------------------------------------------------------------- no spurious timeout *)
Theorem no_spurious : forall ls s, trun tinit ls = Some s ->
  forall h2 t sx h1, hst (tm s) = h2 ++ (t, HFire sx) :: h1 ->
  exists t0 d, last_enter h1 = Some (t0, sx, false, true, d) /\ fired_since h1 = false
               /\ 0 < d /\ t0 + d <= t
               /\ (te_func (tlookup tt sx) = false -> d = te_timeout (tlookup tt sx)).
Proof.
  intros ls s R h2 t sx h1 E. pose proof (tinv _ _ R) as I.
  pose proof (i_fires _ I) as F. rewrite E in F. apply fires_ok_suffix in F. cbn [fires_ok] in F.
  apply andb_true_iff in F. destruct F as [J _]. apply justified_spec in J.
  destruct J as (t0 & d & LEn & FS & D & T). exists t0, d. repeat split; auto.
  intros NF. pose proof (i_enters _ I) as En. rewrite E in En. apply enters_ok_suffix in En.
  cbn [enters_ok] in En. clear -LEn En NF.
  induction h1 as [|[t' e] h1 IH]; [discriminate|]. cbn [last_enter enters_ok] in *.
  destruct e; try (apply IH; assumption).
  injection LEn as -> -> -> -> ->. apply andb_true_iff in En. destruct En as [En _].
  rewrite NF in En. cbn in En. apply N.eqb_eq in En. exact En.
Qed.

(* an error report is the fire that immediately precedes it *)
Theorem err_is_fire : forall ls s, trun tinit ls = Some s ->
  forall h2 t sx h1, hst (tm s) = h2 ++ (t, HErr sx) :: h1 ->
  exists h0, h1 = (t, HFire sx) :: h0.
Proof.
  intros ls s R h2 t sx h1 E. pose proof (i_errs _ (tinv _ _ R)) as F. rewrite E in F.
  apply errs_ok_suffix in F. cbn [errs_ok] in F. apply andb_true_iff in F. destruct F as [F _].
  destruct h1 as [|[t' [| sy | |]] h0]; try discriminate.
  apply andb_true_iff in F. destruct F as [F1 F2]. apply N.eqb_eq in F1, F2. subst. eauto.
Qed.

(* ---------------------------------------------------------------- exempt states *)
(* while the latest entry is exempt (initial entry / no agency / timeout 0)
   the timer case of stateLoop is not enabled, whatever time it is *)
Theorem none_exempt : forall ls s, trun tinit ls = Some s ->
  forall t0 sx ini ag d, last_enter (hst (tm s)) = Some (t0, sx, ini, ag, d) ->
  ini = true \/ ag = false \/ d = 0 ->
  forall full, tstep s (TimerFire full) = None.
Proof.
  intros ls s R t0 sx ini ag d LEn X full. pose proof (i_dl _ (tinv _ _ R)) as D.
  cbn [Model.tstep]. unfold tm_fire. destruct (alive (tm s)); [|reflexivity].
  unfold armed_spec in D. rewrite LEn in D.
  replace (negb ini && ag && (0 <? d) && negb (fired_since (hst (tm s)))) with false in D.
  - rewrite D. reflexivity.
  - destruct X as [->|[->| ->]]; cbn; rewrite ?andb_false_r; reflexivity.
Qed.

(* ---------------------------------------------------------------- the timeout fires *)
Theorem fires_enabled : forall ls s, trun tinit ls = Some s ->
  forall t0 sx d, last_enter (hst (tm s)) = Some (t0, sx, false, true, d) -> 0 < d ->
  fired_since (hst (tm s)) = false ->
  stopped (fl (eng s)) = false -> pdone (eng s) = false ->
  t0 + d <= now (tm s) ->
  forall full, exists s', tstep s (TimerFire full) = Some s'
    /\ (full = false -> err (fl (eng s')) = true /\ stopped (fl (eng s')) = true
        /\ hst (tm s') = (now (tm s), HErr sx) :: (now (tm s), HFire sx) :: hst (tm s)).
Proof.
  intros ls s R t0 sx d LEn D FS NS ND T full. pose proof (tinv _ _ R) as I.
  assert (A : alive (tm s) = true).
  { destruct (alive (tm s)) eqn:A; [reflexivity|]. destruct (i_dead _ I A); congruence. }
  pose proof (i_dl _ I) as Dl. rewrite A in Dl. unfold armed_spec in Dl. rewrite LEn, FS in Dl.
  replace (0 <? d) with true in Dl by (symmetry; apply N.ltb_lt; exact D). cbn in Dl.
  destruct (i_cur _ I) as (t0' & ini' & ag' & d' & LEn'). rewrite LEn in LEn'. injection LEn' as _ C _ _ _.
  cbn [Model.tstep]. unfold tm_fire. rewrite A, Dl.
  replace (t0 + d <=? now (tm s)) with true by (symmetry; apply N.leb_le; exact T).
  eexists. split; [reflexivity|]. intros ->. rewrite NS. cbn. unfold send_error. rewrite NS. cbn.
  rewrite <- C. auto.
Qed.

(* no reachable state has an armed, expired timer and the timer case disabled *)
Theorem armed_expired_enabled : forall ls s, trun tinit ls = Some s ->
  forall dl, deadline (tm s) = Some dl -> dl <= now (tm s) ->
  forall full, tstep s (TimerFire full) <> None.
Proof.
  intros ls s R dl D T full. pose proof (i_dl _ (tinv _ _ R)) as Dl.
  cbn [Model.tstep]. unfold tm_fire. destruct (alive (tm s)); [|rewrite D in Dl; discriminate].
  rewrite D. replace (dl <=? now (tm s)) with true by (symmetry; apply N.leb_le; exact T).
  discriminate.
Qed.

(* the timer is armed exactly when the history calls for it *)
Theorem armed_iff : forall ls s, trun tinit ls = Some s ->
  stopped (fl (eng s)) = false -> pdone (eng s) = false ->
  deadline (tm s) = armed_spec (hst (tm s)).
Proof.
  intros ls s R NS ND. pose proof (tinv _ _ R) as I. rewrite (i_dl _ I).
  destruct (alive (tm s)) eqn:A; [reflexivity|]. destruct (i_dead _ I A); congruence.
Qed.

(* the clock never runs backwards, and as long as stateLoop does nothing
   visible the armed timer stays armed with the same deadline *)
Lemma now_mono_step s l s' : tstep s l = Some s' -> now (tm s) <= now (tm s').
Proof.
  intros H. destruct l as [l tf|d|full|]; cbn [Model.tstep] in H.
  - destruct (is_timeout l); [discriminate|]. destruct (step sm r s0 rqcap k (eng s) l); [|discriminate].
    destruct (transitioned (eng s) s1).
    + destruct (alive (tm s)); [|discriminate]. injection H as <-. cbn. lia.
    + injection H as <-. cbn. lia.
  - injection H as <-. cbn. lia.
  - unfold tm_fire in H. destruct (alive (tm s)); [|discriminate]. destruct (deadline (tm s)); [|discriminate].
    destruct (n <=? now (tm s)); [|discriminate]. injection H as <-.
    destruct (negb (stopped (fl (eng s))) && negb full); cbn; lia.
  - destruct (stopped (fl (eng s)) || pdone (eng s)); [|discriminate]. unfold tm_exit in H.
    destruct (alive (tm s)); [|discriminate]. injection H as <-. cbn. lia.
Qed.
Lemma now_mono : forall ls s s', trun s ls = Some s' -> now (tm s) <= now (tm s').
Proof.
  induction ls as [|l ls IH]; intros s s' H; cbn in H.
  - injection H as <-. lia.
  - destruct (tstep s l) as [s1|] eqn:E; [|discriminate]. apply now_mono_step in E. apply IH in H. lia.
Qed.

Theorem armed_persists : forall ls s ls' s', trun tinit ls = Some s -> trun s ls' = Some s' ->
  hst (tm s') = hst (tm s) ->
  deadline (tm s') = deadline (tm s) /\ now (tm s) <= now (tm s').
Proof.
  intros ls s ls' s' R R' E. split; [|eapply now_mono; eauto].
  assert (R2 : trun tinit (ls ++ ls') = Some s') by (rewrite trun_app, R; exact R').
  pose proof (tinv _ _ R) as I. pose proof (tinv _ _ R2) as I'.
  rewrite (i_dl _ I), (i_dl _ I'), (i_alive _ I), (i_alive _ I'), E. reflexivity.
Qed.

(* a delivered timeout error stops the protocol *)
Theorem reported_stops : forall s full s', tstep s (TimerFire full) = Some s' ->
  stopped (fl (eng s)) = false -> full = false ->
  err (fl (eng s')) = true /\ stopped (fl (eng s')) = true.
Proof.
  intros s full s' H NS ->. cbn [Model.tstep] in H. destruct (tm_fire (tm s)); [|discriminate].
  injection H as <-. cbn. unfold send_error. rewrite NS. cbn. auto.
Qed.
End Proofs.
