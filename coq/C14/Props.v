(* C14 - property theorems only.  All are closed (no axioms); the first group
   holds for EVERY state map, role, initial state, constants and timeout table
   and EVERY label list (= every schedule, peer behaviour, passage of time and
   TimeoutFunc value). *)
From Coq Require Import String.
From V Require Import Lib.Base C11.Engine C11.EngineProofs C14.Model C14.Proofs C14.Spec C14.Gen.
Local Open Scope N_scope.

(* The timed engine is a refinement of the C11 engine: dropping Tick/LoopExit
   and reading TimerFire as the engine's (so far unconstrained) Timeout label
   gives a run of C11.Engine; every C11/C12/C13 invariant therefore holds of it. *)
Theorem C14_refines_engine : forall sm r s0 rqcap k tt ls s,
  trun sm r s0 rqcap k tt (tinit sm r s0 tt) ls = Some s ->
  run sm r s0 rqcap k (init sm r s0) (erase ls) = Some (eng s).
Proof. intros. eapply (refines_engine sm r s0 rqcap k tt ls (tinit sm r s0 tt) s); eauto. Qed.
Print Assumptions C14_refines_engine.

(* No spurious timeout: a timer fire at time t in the history is preceded by
   a state entry at t0 that is the LATEST entry (no transition in [t0,t)), is
   not the initial entry, is into the state sx the error names, a state with
   an agency, with effective timeout d > 0, no fire since, and t - t0 >= d;
   d is the table's Timeout unless the state has a TimeoutFunc. *)
Theorem C14_no_spurious : forall sm r s0 rqcap k tt ls s,
  trun sm r s0 rqcap k tt (tinit sm r s0 tt) ls = Some s ->
  forall h2 t sx h1, hst (tm s) = h2 ++ (t, HFire sx) :: h1 ->
  exists t0 d, last_enter h1 = Some (t0, sx, false, true, d) /\ fired_since h1 = false
               /\ 0 < d /\ t0 + d <= t
               /\ (te_func (tlookup tt sx) = false -> d = te_timeout (tlookup tt sx)).
Proof. exact no_spurious. Qed.
Print Assumptions C14_no_spurious.

(* ... and a reported timeout error is exactly such a fire *)
Theorem C14_error_is_fire : forall sm r s0 rqcap k tt ls s,
  trun sm r s0 rqcap k tt (tinit sm r s0 tt) ls = Some s ->
  forall h2 t sx h1, hst (tm s) = h2 ++ (t, HErr sx) :: h1 -> exists h0, h1 = (t, HFire sx) :: h0.
Proof. exact err_is_fire. Qed.

(* No timeout in exempt situations: while the latest state entry is the
   initial one, or into a state without agency, or with (effective) timeout 0,
   the timer case of stateLoop is disabled - whatever the time. *)
Theorem C14_none : forall sm r s0 rqcap k tt ls s,
  trun sm r s0 rqcap k tt (tinit sm r s0 tt) ls = Some s ->
  forall t0 sx ini ag d, last_enter (hst (tm s)) = Some (t0, sx, ini, ag, d) ->
  ini = true \/ ag = false \/ d = 0 ->
  forall full, tstep sm r s0 rqcap k tt s (TimerFire full) = None.
Proof. exact none_exempt. Qed.
Print Assumptions C14_none.

(* The timeout fires: entered sx at t0 (not the initial entry, agency, d > 0),
   nothing fired since, protocol neither stopped nor done, and now >= t0 + d:
   TimerFire is enabled, and (ErrorChan not full) it reports the error for sx
   and stops the protocol. *)
Theorem C14_fires : forall sm r s0 rqcap k tt ls s,
  trun sm r s0 rqcap k tt (tinit sm r s0 tt) ls = Some s ->
  forall t0 sx d, last_enter (hst (tm s)) = Some (t0, sx, false, true, d) -> 0 < d ->
  fired_since (hst (tm s)) = false ->
  stopped (fl (eng s)) = false -> pdone (eng s) = false ->
  t0 + d <= now (tm s) ->
  forall full, exists s', tstep sm r s0 rqcap k tt s (TimerFire full) = Some s'
    /\ (full = false -> err (fl (eng s')) = true /\ stopped (fl (eng s')) = true
        /\ hst (tm s') = (now (tm s), HErr sx) :: (now (tm s), HFire sx) :: hst (tm s)).
Proof. exact fires_enabled. Qed.
Print Assumptions C14_fires.

(* no reachable state has an armed, expired timer and TimerFire disabled *)
Theorem C14_fires_enabled : forall sm r s0 rqcap k tt ls s,
  trun sm r s0 rqcap k tt (tinit sm r s0 tt) ls = Some s ->
  forall dl, deadline (tm s) = Some dl -> dl <= now (tm s) ->
  forall full, tstep sm r s0 rqcap k tt s (TimerFire full) <> None.
Proof. exact armed_expired_enabled. Qed.

(* the timer variable is exactly what the history calls for (both directions:
   armed with deadline t0+d iff the latest entry is non-initial, has agency,
   d > 0 and nothing fired since) *)
Theorem C14_armed_iff : forall sm r s0 rqcap k tt ls s,
  trun sm r s0 rqcap k tt (tinit sm r s0 tt) ls = Some s ->
  stopped (fl (eng s)) = false -> pdone (eng s) = false ->
  deadline (tm s) = armed_spec (hst (tm s)).
Proof. exact armed_iff. Qed.

(* however the run continues (any labels, any ticking): as long as stateLoop
   has done nothing visible (no entry, fire, exit) the timer keeps its
   deadline and time does not go back - so past t0+d the fire stays enabled
   until it is taken or another stateLoop step happens *)
Theorem C14_fires_persist : forall sm r s0 rqcap k tt ls s ls' s',
  trun sm r s0 rqcap k tt (tinit sm r s0 tt) ls = Some s -> trun sm r s0 rqcap k tt s ls' = Some s' ->
  hst (tm s') = hst (tm s) ->
  deadline (tm s') = deadline (tm s) /\ now (tm s) <= now (tm s').
Proof. exact armed_persists. Qed.
Print Assumptions C14_fires_persist.

(* ------------------------------------------------------------ instances *)
(* every state of every generated table declares a timeout iff the
   specification table says so (finite check; `offending` lists the entries) *)
Theorem C14_declared : offending all_tables = [].
Proof. vm_compute. reflexivity. Qed.
Print Assumptions C14_declared.

(* ... and that table has, for every package whose constructors branch on ProtocolOptions.Mode, all
   three mode columns (NtN, NtC, omitted) in both roles, so C14_declared ranges over the three values *)
Theorem C14_mode_columns : missing_columns all_tables mode_branching = [].
Proof. vm_compute. reflexivity. Qed.

(* per-instance reading of C14_fires/C14_none on the generated tables: for
   every automaton and state, the timer armed by a non-initial entry has
   exactly the generated Timeout as its duration (TimeoutFunc states: the
   function's value), and is not armed at all iff the state declares none *)
Definition tt_of (tab : list tabrow) : ttable :=
  map (fun e => (fst e, {| te_timeout := fst (fst (snd e)); te_func := snd (fst (snd e)) |})) tab.
Definition inst_ok (g : gentry) : bool :=
  let '(_, _, _, tab) := g in
  forallb (fun row =>
    let '(s, (d, f, ag)) := row in
    let t := tm_set_state (tt_of tab) {| now := 7; deadline := None; alive := true; init_set := true; tcur := s; hst := [] |} s ag 5 in
    match deadline t with
    | Some dl => declares row && N.eqb dl (7 + (if f then 5 else d))
    | None => negb (declares row) || (f && false)
    end) tab.
Theorem C14_instances : forall g, In g all_tables -> inst_ok g = true.
Proof. apply forallb_forall. vm_compute. reflexivity. Qed.

(* ------------------------------------------------------------ non-vacuity *)
Definition ex_sm : statemap := {| sm_entries := [
  (1, {| e_agency := AClient; e_trans := [{| t_type := 0; t_guard := None; t_next := 2 |}]; e_limit := 0 |});
  (2, {| e_agency := AServer; e_trans := [{| t_type := 1; t_guard := None; t_next := 1 |}]; e_limit := 0 |})] |}.
Definition ex_k : consts := {| c_maxmsgs := 20; c_segmax := 65535; c_maxrbuf := 16777216; c_sendqcap := 80 |}.
Definition ex_tt : ttable := [(1, {| te_timeout := 0; te_func := false |}); (2, {| te_timeout := 10; te_func := false |})].
Definition ex_m : msg := {| m_id := 1; m_type := 0; m_len := 3; m_guards := [] |}.
(* client sends the request, the server stalls for 10 units: the timeout fires and is reported *)
Definition ex_run : list tlabel :=
  [L (Enq ex_m) 0; L TakeSendToken 0; Tick 4; L SendDeq 0; Tick 9; Tick 1; TimerFire false].
Example C14_nonvacuous_fire :
  option_map (fun s => (hst (tm s), err (fl (eng s)), stopped (fl (eng s))))
    (trun ex_sm RClient 1 55 ex_k ex_tt (tinit ex_sm RClient 1 ex_tt) ex_run)
  = Some ([(14, HErr 2); (14, HFire 2); (4, HEnter 2 false true 10); (0, HEnter 1 true true 0)], true, true).
Proof. vm_compute. reflexivity. Qed.
(* one unit earlier the fire is refused *)
Example C14_nonvacuous_early :
  trun ex_sm RClient 1 55 ex_k ex_tt (tinit ex_sm RClient 1 ex_tt)
    [L (Enq ex_m) 0; L TakeSendToken 0; Tick 4; L SendDeq 0; Tick 9; TimerFire false] = None.
Proof. vm_compute. reflexivity. Qed.
(* in the initial state nothing fires however long one waits, even with a timeout declared *)
Example C14_nonvacuous_initial :
  trun ex_sm RClient 1 55 ex_k [(1, {| te_timeout := 3; te_func := false |})]
    (tinit ex_sm RClient 1 [(1, {| te_timeout := 3; te_func := false |})]) [Tick 1000; TimerFire false] = None.
Proof. vm_compute. reflexivity. Qed.
