(* C03 - specification tables for EVERY tagged-sum dispatch of the repository
   (second round).  Hand-maintained.  Unlike C03.Model.spec_tables (written from
   the CDDL), these tables were transcribed from the pinned Go source and its
   constant names (ledger/error.go failure constructors follow the cardano-ledger
   constructor order quoted in the Go comments): they pin the dispatch, so that any
   later change of a case label, of a target type or of an idMap entry breaks
   C03_tables_all and names the family and id.  NO proofs here. *)
From Coq Require Import String.
From V Require Import Lib.Base.
Local Open Scope string_scope.
Local Open Scope N_scope.

Definition spec_tables_all : list (string * list (N * string)) := [
  ("ledger.AlonzoUtxowFailure.UnmarshalCBOR", [(0, "ShelleyUtxowFailure"); (1, "MissingRedeemers"); (2, "MissingRequiredDatums"); (3, "NotAllowedSupplementalDatums"); (4, "PPViewHashesDontMatch"); (6, "UnspendableUTxONoDatumHash"); (7, "ExtraRedeemers")]);
  ("ledger.ApplyTxError.UnmarshalCBOR", [(0, "UtxowFailure")]);
  ("ledger.BabbageUtxoFailure.UnmarshalCBOR", [(1, "UtxoFailure"); (2, "IncorrectTotalCollateralField"); (3, "BabbageOutputTooSmallUTxO"); (4, "BabbageNonDisjointRefInputs")]);
  ("ledger.ConwayUtxowFailure.UnmarshalCBOR", [(0, "UtxoFailure"); (1, "InvalidWitnessesUTXOW"); (2, "MissingVKeyWitnessesUTXOW"); (3, "MissingScriptWitnessesUTXOW"); (4, "ScriptWitnessNotValidatingUTXOW"); (5, "MissingTxBodyMetadataHash"); (6, "MissingTxMetadata"); (7, "ConflictingMetadataHash"); (8, "InvalidMetadata"); (9, "ExtraneousScriptWitnessesUTXOW"); (10, "MissingRedeemers"); (11, "MissingRequiredDatums"); (12, "NotAllowedSupplementalDatums"); (13, "PPViewHashesDontMatch"); (14, "UnspendableUTxONoDatumHash"); (15, "ExtraRedeemers"); (16, "MalformedScriptWitnesses"); (17, "MalformedReferenceScripts"); (18, "ConwayUtxowScriptIntegrityHashMismatch")]);
  ("ledger.ShelleyUtxowFailure.UnmarshalCBOR", [(0, "InvalidWitnessesUTXOW"); (1, "MissingVKeyWitnessesUTXOW"); (2, "MissingScriptWitnessesUTXOW"); (3, "ScriptWitnessNotValidatingUTXOW"); (4, "UtxoFailure"); (5, "MissingTxBodyMetadataHash"); (6, "MissingTxMetadata"); (7, "ConflictingMetadataHash"); (8, "InvalidMetadata"); (9, "ExtraneousScriptWitnessesUTXOW")]);
  ("ledger.UtxowFailure.unmarshalAlonzo", [(0, "ShelleyUtxowFailure"); (1, "MissingRedeemers"); (2, "MissingRequiredDatums"); (3, "NotAllowedSupplementalDatums"); (4, "PPViewHashesDontMatch"); (6, "UnspendableUTxONoDatumHash"); (7, "ExtraRedeemers")]);
  ("ledger.UtxowFailure.unmarshalBabbage", [(1, "AlonzoUtxowFailure"); (2, "BabbageUtxoFailure"); (3, "MalformedScriptWitnesses"); (4, "MalformedReferenceScripts"); (5, "BabbageUtxowScriptIntegrityHashMismatch")]);
  ("ledger.UtxowFailure.unmarshalConway", [(0, "UtxoFailure"); (1, "InvalidWitnessesUTXOW"); (2, "MissingVKeyWitnessesUTXOW"); (3, "MissingScriptWitnessesUTXOW"); (4, "ScriptWitnessNotValidatingUTXOW"); (5, "MissingTxBodyMetadataHash"); (6, "MissingTxMetadata"); (7, "ConflictingMetadataHash"); (8, "InvalidMetadata"); (9, "ExtraneousScriptWitnessesUTXOW"); (10, "MissingRedeemers"); (11, "MissingRequiredDatums"); (12, "NotAllowedSupplementalDatums"); (13, "PPViewHashesDontMatch"); (14, "UnspendableUTxONoDatumHash"); (15, "ExtraRedeemers"); (16, "MalformedScriptWitnesses"); (17, "MalformedReferenceScripts"); (18, "ConwayUtxowScriptIntegrityHashMismatch")]);
  ("ledger.UtxowFailure.unmarshalDijkstra", [(19, "MissingRequiredGuards"); (20, "MalformedGuardDatums")]);
  ("ledger.UtxowFailure.unmarshalShelley", [(0, "InvalidWitnessesUTXOW"); (1, "MissingVKeyWitnessesUTXOW"); (2, "MissingScriptWitnessesUTXOW"); (3, "ScriptWitnessNotValidatingUTXOW"); (4, "UtxoFailure"); (5, "MissingTxBodyMetadataHash"); (6, "MissingTxMetadata"); (7, "ConflictingMetadataHash"); (8, "InvalidMetadata"); (9, "ExtraneousScriptWitnessesUTXOW")]);
  ("ledger.getEraSpecificUtxoFailureConstants#allegraMaryMap", [(0, "BadInputsUtxo"); (1, "OutsideValidityIntervalUtxo"); (2, "MaxTxSizeUtxo"); (3, "InputSetEmptyUtxo"); (4, "FeeTooSmallUtxo"); (5, "ValueNotConservedUtxo"); (6, "OutputTooSmallUtxo"); (7, "UtxosFailure"); (8, "WrongNetwork"); (9, "WrongNetworkWithdrawal"); (10, "OutputBootAddrAttrsTooBig"); (12, "OutputTooBigUtxo")]);
  ("ledger.getEraSpecificUtxoFailureConstants#baseMap", [(0, "BadInputsUtxo"); (1, "OutsideValidityIntervalUtxo"); (2, "MaxTxSizeUtxo"); (3, "InputSetEmptyUtxo"); (4, "FeeTooSmallUtxo"); (5, "ValueNotConservedUtxo"); (6, "OutputTooSmallUtxo"); (7, "UtxosFailure"); (8, "WrongNetwork"); (9, "WrongNetworkWithdrawal"); (10, "OutputBootAddrAttrsTooBig"); (11, "TriesToForgeADA"); (12, "InsufficientCollateral"); (17, "WrongNetworkInTxBody"); (18, "OutsideForecast"); (19, "TooManyCollateralInputs"); (20, "NoCollateralInputs")]);
  ("ledger.getEraSpecificUtxoFailureConstants#baseMap+EraIdAlonzo", [(12, "OutputTooBigUtxo"); (14, "ScriptsNotPaidUtxo"); (15, "ExUnitsTooBigUtxo"); (16, "CollateralContainsNonADA")]);
  ("ledger.getEraSpecificUtxoFailureConstants#baseMap+EraIdBabbage", [(12, "OutputTooBigUtxo"); (14, "ScriptsNotPaidUtxo"); (15, "ExUnitsTooBigUtxo"); (16, "CollateralContainsNonADA")]);
  ("ledger.getEraSpecificUtxoFailureConstants#conwayMap", [(0, "UtxosFailure"); (1, "BadInputsUtxo"); (2, "OutsideValidityIntervalUtxo"); (3, "MaxTxSizeUtxo"); (4, "InputSetEmptyUtxo"); (5, "FeeTooSmallUtxo"); (6, "ValueNotConservedUtxo"); (7, "WrongNetwork"); (8, "WrongNetworkWithdrawal"); (9, "OutputTooSmallUtxo"); (10, "OutputBootAddrAttrsTooBig"); (11, "OutputTooBigUtxo"); (12, "InsufficientCollateral"); (13, "ScriptsNotPaidUtxo"); (14, "ExUnitsTooBigUtxo"); (15, "CollateralContainsNonADA"); (16, "WrongNetworkInTxBody"); (17, "OutsideForecast"); (18, "TooManyCollateralInputs"); (19, "NoCollateralInputs"); (20, "IncorrectTotalCollateralField"); (21, "BabbageOutputTooSmallUTxO"); (22, "BabbageNonDisjointRefInputs")]);
  ("ledger.getEraSpecificUtxoFailureConstants#dijkstraMap", [(0, "UtxosFailure"); (1, "BadInputsUtxo"); (2, "OutsideValidityIntervalUtxo"); (3, "MaxTxSizeUtxo"); (4, "InputSetEmptyUtxo"); (5, "FeeTooSmallUtxo"); (6, "ValueNotConservedUtxo"); (7, "WrongNetwork"); (9, "OutputBootAddrAttrsTooBig"); (10, "OutputTooBigUtxo"); (11, "InsufficientCollateral"); (12, "ScriptsNotPaidUtxo"); (13, "ExUnitsTooBigUtxo"); (14, "CollateralContainsNonADA"); (15, "WrongNetworkInTxBody"); (16, "OutsideForecast"); (17, "TooManyCollateralInputs"); (18, "NoCollateralInputs"); (19, "IncorrectTotalCollateralField"); (20, "BabbageOutputTooSmallUTxO"); (21, "BabbageNonDisjointRefInputs"); (22, "PtrPresentInCollateralReturn"); (24, "WithdrawalsExceedAccountBalance")]);
  ("ledger.getEraSpecificUtxoFailureConstants#shelleyMap", [(0, "BadInputsUtxo"); (1, "OutsideValidityIntervalUtxo"); (2, "MaxTxSizeUtxo"); (3, "InputSetEmptyUtxo"); (4, "FeeTooSmallUtxo"); (5, "ValueNotConservedUtxo"); (6, "OutputTooSmallUtxo"); (7, "UtxosFailure"); (8, "WrongNetwork"); (9, "WrongNetworkWithdrawal"); (10, "OutputBootAddrAttrsTooBig")]);
  ("ledger/babbage.BabbageTransactionOutputDatumOption.UnmarshalCBOR", [(0, "DatumOptionTypeHash"); (1, "DatumOptionTypeData")]);
  ("ledger/byron.ByronTransactionInput.UnmarshalCBOR", [(0, "0")]);
  ("ledger/common.CertificateWrapper.UnmarshalCBOR", [(0, "StakeRegistrationCertificate"); (1, "StakeDeregistrationCertificate"); (2, "StakeDelegationCertificate"); (3, "PoolRegistrationCertificate"); (4, "PoolRetirementCertificate"); (5, "GenesisKeyDelegationCertificate"); (6, "MoveInstantaneousRewardsCertificate"); (7, "RegistrationCertificate"); (8, "DeregistrationCertificate"); (9, "VoteDelegationCertificate"); (10, "StakeVoteDelegationCertificate"); (11, "StakeRegistrationDelegationCertificate"); (12, "VoteRegistrationDelegationCertificate"); (13, "StakeVoteRegistrationDelegationCertificate"); (14, "AuthCommitteeHotCertificate"); (15, "ResignCommitteeColdCertificate"); (16, "RegistrationDrepCertificate"); (17, "DeregistrationDrepCertificate"); (18, "UpdateDrepCertificate")]);
  ("ledger/common.Drep.UnmarshalCBOR", [(0, "DrepTypeAddrKeyHash"); (1, "DrepTypeScriptHash"); (2, "DrepTypeAbstain"); (3, "DrepTypeNoConfidence")]);
  ("ledger/common.NativeScript.UnmarshalCBOR", [(0, "NativeScriptPubkey"); (1, "NativeScriptAll"); (2, "NativeScriptAny"); (3, "NativeScriptNofK"); (4, "NativeScriptInvalidBefore"); (5, "NativeScriptInvalidHereafter"); (6, "NativeScriptRequireGuard")]);
  ("ledger/common.Nonce.UnmarshalCBOR", [(0, "NonceTypeNeutral"); (1, "NonceTypeNonce")]);
  ("ledger/common.PoolRelay.UnmarshalCBOR", [(0, "PoolRelayTypeSingleHostAddress"); (1, "PoolRelayTypeSingleHostName"); (2, "PoolRelayTypeMultiHostName")]);
  ("ledger/conway.ConwayGovAction.UnmarshalCBOR", [(0, "ConwayParameterChangeGovAction"); (1, "HardForkInitiationGovAction"); (2, "TreasuryWithdrawalGovAction"); (3, "NoConfidenceGovAction"); (4, "UpdateCommitteeGovAction"); (5, "NewConstitutionGovAction"); (6, "InfoGovAction")]);
  ("ledger/dijkstra.DijkstraGovAction.UnmarshalCBOR", [(0, "DijkstraParameterChangeGovAction"); (1, "HardForkInitiationGovAction"); (2, "TreasuryWithdrawalGovAction"); (3, "NoConfidenceGovAction"); (4, "UpdateCommitteeGovAction"); (5, "NewConstitutionGovAction"); (6, "InfoGovAction")]);
  ("protocol/localstatequery.BlockQuery.UnmarshalCBOR#0", [(0, "ShelleyQuery"); (2, "HardForkQuery")]);
  ("protocol/localstatequery.HardForkQuery.UnmarshalCBOR#0", [(0, "HardForkEraHistoryQuery"); (1, "HardForkCurrentEraQuery")]);
  ("protocol/localstatequery.HotCredAuthStatusValue.UnmarshalCBOR", [(0, "listLen == 1 && tag == 0"); (1, "listLen == 2 && tag == 1"); (2, "listLen == 2 && tag == 2")]);
  ("protocol/localstatequery.QueryWrapper.UnmarshalCBOR#0", [(0, "BlockQuery"); (1, "SystemStartQuery"); (2, "ChainBlockNoQuery"); (3, "ChainPointQuery")]);
  ("protocol/localstatequery.RelayAccessPoint.UnmarshalCBOR", [(0, "RelayKindIPv4"); (1, "RelayKindIPv6"); (2, "RelayKindDomain"); (3, "RelayKindSRV")]);
  ("protocol/localstatequery.WithOriginSlot.UnmarshalCBOR", [(0, "listLen == 1 && tag == 0"); (1, "listLen == 2 && tag == 1")]);
  ("protocol/localstatequery.shelleyQueryTypes#0", [(0, "ShelleyLedgerTipQuery"); (1, "ShelleyEpochNoQuery"); (2, "ShelleyNonMyopicMemberRewardsQuery"); (3, "ShelleyCurrentProtocolParamsQuery"); (4, "ShelleyProposedProtocolParamsUpdatesQuery"); (5, "ShelleyStakeDistributionQuery"); (6, "ShelleyUtxoByAddressQuery"); (7, "ShelleyUtxoWholeQuery"); (8, "ShelleyDebugEpochStateQuery"); (9, "ShelleyCborQuery"); (10, "ShelleyFilteredDelegationAndRewardAccountsQuery"); (11, "ShelleyGenesisConfigQuery"); (12, "ShelleyDebugNewEpochStateQuery"); (13, "ShelleyDebugChainDepStateQuery"); (14, "ShelleyRewardProvenanceQuery"); (15, "ShelleyUtxoByTxinQuery"); (16, "ShelleyStakePoolsQuery"); (17, "ShelleyStakePoolParamsQuery"); (18, "ShelleyRewardInfoPoolsQuery"); (19, "ShelleyPoolStateQuery"); (20, "ShelleyStakeSnapshotsQuery"); (21, "ShelleyPoolDistrQuery"); (22, "ShelleyStakeDelegDepositsQuery"); (23, "ShelleyConstitutionQuery"); (24, "ShelleyGovStateQuery"); (25, "ShelleyDRepStateQuery"); (26, "ShelleyDRepStakeDistrQuery"); (27, "ShelleyCommitteeMembersStateQuery"); (28, "ShelleyFilteredVoteDelegateesQuery"); (29, "ShelleyAccountStateQuery"); (30, "ShelleySPOStakeDistrQuery"); (31, "ShelleyGetProposalsQuery"); (32, "ShelleyGetRatifyStateQuery"); (34, "ShelleyGetLedgerPeerSnapshotQuery"); (36, "ShelleyPoolDistr2Query")]);
  ("protocol/peersharing.PeerAddress.UnmarshalCBOR", [(0, "0"); (1, "1")])
].

(* every function that may call cbor.DecodeIdFromList / cbor.DecodeById; a call
   from any other function makes C03_sites fail until it is reviewed and listed *)
Definition known_sites : list string := [
  "ledger.AlonzoUtxowFailure.UnmarshalCBOR";
  "ledger.ApplyTxError.UnmarshalCBOR";
  "ledger.BabbageUtxoFailure.UnmarshalCBOR";
  "ledger.ConwayUtxowFailure.UnmarshalCBOR";
  "ledger.ShelleyUtxowFailure.UnmarshalCBOR";
  "ledger.UtxoFailure.UnmarshalCBOR";
  "ledger.UtxowFailure.UnmarshalCBOR";
  "ledger/babbage.BabbageTransactionOutputDatumOption.UnmarshalCBOR";
  "ledger/byron.ByronTransactionInput.UnmarshalCBOR";
  "ledger/common.CertificateWrapper.UnmarshalCBOR";
  "ledger/common.Drep.UnmarshalCBOR";
  "ledger/common.NativeScript.UnmarshalCBOR";
  "ledger/common.Nonce.UnmarshalCBOR";
  "ledger/common.PoolRelay.UnmarshalCBOR";
  "ledger/conway.ConwayGovAction.UnmarshalCBOR";
  "ledger/dijkstra.DijkstraGovAction.UnmarshalCBOR";
  "protocol/localstatequery.HotCredAuthStatusValue.UnmarshalCBOR";
  "protocol/localstatequery.RelayAccessPoint.UnmarshalCBOR";
  "protocol/localstatequery.WithOriginSlot.UnmarshalCBOR";
  "protocol/localstatequery.decodeQuery";
  "protocol/peersharing.PeerAddress.UnmarshalCBOR"
].

(* sites whose dispatch table is not in the function itself, and where it is *)
Definition indirect_sites : list (string * string) := [
  ("ledger.UtxoFailure.UnmarshalCBOR",
   "DecodeById over the idMap of ledger.getEraSpecificUtxoFailureConstants: tables #baseMap, #baseMap+EraIdAlonzo, #baseMap+EraIdBabbage, #conwayMap, #dijkstraMap, #shelleyMap, #allegraMaryMap");
  ("protocol/localstatequery.decodeQuery",
   "loop over the idMap passed by the caller: QueryWrapper/BlockQuery/HardForkQuery.UnmarshalCBOR#0 and shelleyQueryTypes#0")
].
