(* C03 - property theorems only. *)
From Coq Require Import String.
From V Require Import Lib.Base Lib.Cbor Lib.CborParse Lib.CborLemmas C03.Model C03.Gen C03.Proofs.
Local Open Scope N_scope.

Section C03.
  (* fxamacker's decode-time acceptance of an item when decoding into
     []RawMessage (ListLength) resp. into cbor.Value (DecodeIdFromList) *)
  Variables raw_ok val_ok : item -> bool.

  (* The id DecodeIdFromList returns is the first element of the list, for
     EVERY header form of the outer array (one byte, 1/2/4/8-byte length,
     indefinite) and every integer form of the id, with any payload and any
     trailing bytes. *)
  Theorem C03_id_is_first : forall form f n xs trail,
    let i := Arr form (UInt f n :: xs) in
    wf i -> n <= max_int -> raw_ok i = true -> val_ok i = true ->
    decode_id_from_list raw_ok val_ok (enc i ++ trail) = Some n.
  Proof. exact (id_is_first raw_ok val_ok). Qed.

  (* the decoded variant is the one the first element names ... *)
  Theorem C03_variant : forall t form f n xs trail,
    let i := Arr form (UInt f n :: xs) in
    wf i -> n <= max_int -> raw_ok i = true -> val_ok i = true ->
    dispatch raw_ok val_ok t (enc i ++ trail) = lookup t n.
  Proof. exact (dispatch_follows_id raw_ok val_ok). Qed.

  (* ... and does not depend on the header form *)
  Theorem C03_form_independent : forall t form1 form2 f n xs tr1 tr2,
    wf (Arr form1 (UInt f n :: xs)) -> wf (Arr form2 (UInt f n :: xs)) -> n <= max_int ->
    raw_ok (Arr form1 (UInt f n :: xs)) = true -> val_ok (Arr form1 (UInt f n :: xs)) = true ->
    raw_ok (Arr form2 (UInt f n :: xs)) = true -> val_ok (Arr form2 (UInt f n :: xs)) = true ->
    dispatch raw_ok val_ok t (enc (Arr form1 (UInt f n :: xs)) ++ tr1) =
    dispatch raw_ok val_ok t (enc (Arr form2 (UInt f n :: xs)) ++ tr2).
  Proof. exact (dispatch_form_independent raw_ok val_ok). Qed.

  (* error behaviour, for every header form *)
  Theorem C03_empty_list : forall form trail,
    decode_id_from_list raw_ok val_ok (enc (Arr form []) ++ trail) = None.
  Proof. exact (id_empty_list raw_ok val_ok). Qed.

  Theorem C03_first_not_uint : forall form x xs trail,
    wf (Arr form (x :: xs)) -> (forall f n, x <> UInt f n) ->
    decode_id_from_list raw_ok val_ok (enc (Arr form (x :: xs)) ++ trail) = None.
  Proof. exact (id_first_not_uint raw_ok val_ok). Qed.

  Theorem C03_id_too_large : forall form f n xs trail,
    wf (Arr form (UInt f n :: xs)) -> max_int < n ->
    decode_id_from_list raw_ok val_ok (enc (Arr form (UInt f n :: xs)) ++ trail) = None.
  Proof. exact (id_too_large raw_ok val_ok). Qed.
End C03.
Print Assumptions C03_id_is_first.
Print Assumptions C03_variant.
Print Assumptions C03_first_not_uint.

(* the one-byte-header fast path does not consult the library at all *)
Theorem C03_fast_path : forall raw_ok val_ok n xs trail,
  n < 24 -> N.of_nat (S (length xs)) < 23 ->
  decode_id_from_list raw_ok val_ok (enc (Arr (Some Fimm) (UInt Fimm n :: xs)) ++ trail) = Some n.
Proof. exact id_fast_path. Qed.

(* the switch statements of the real decoders (C03/Gen.v, regenerated from the
   Go source on every run) are the specification tables, and no id is listed twice *)
Theorem C03_tables : tables_diff gen_tables spec_tables = None /\
  forall fam, dup_key (table_of gen_tables fam) = None.
Proof.
  split; [vm_compute; reflexivity|].
  intros fam. unfold table_of.
  destruct (find (fun nt => String.eqb (fst nt) fam) gen_tables) as [nt|] eqn:E; [|reflexivity].
  apply find_some in E. destruct E as [Hin _].
  assert (H : forallb (fun nt => match dup_key (snd nt) with None => true | Some _ => false end) gen_tables = true)
    by (vm_compute; reflexivity).
  rewrite forallb_forall in H. specialize (H nt Hin). destruct (dup_key (snd nt)); [discriminate|reflexivity].
Qed.
Print Assumptions C03_tables.

(* the pinned tree (fast path without the header check) is refuted by an "all"
   native script whose list header uses a one-byte length: id 2 (= the length
   byte, "any") instead of 1 ("all") *)
Theorem C03_pinned_refuted : exists bs form xs,
  bs = enc (Arr form (UInt Fimm 1 :: xs)) /\ wf (Arr form (UInt Fimm 1 :: xs)) /\
  decode_id_from_list_pinned all_ok all_ok bs = Some 2 /\
  lookup (table_of gen_tables "native-script") 2 = Some "NativeScriptAny"%string /\
  decode_id_from_list all_ok all_ok bs = Some 1.
Proof.
  exists witness, (Some F1), [Arr (Some Fimm) [Arr (Some Fimm) [UInt Fimm 0; BStr F1 (repeat 0 28)]]].
  split; [exact witness_is_all_script|]. split.
  - vm_compute. repeat split; try reflexivity; repeat constructor.
  - destruct pinned_refuted_witness as [H1 H2]. repeat split; try assumption.
Qed.
Print Assumptions C03_pinned_refuted.

(* non-vacuity: the hypotheses of C03_id_is_first are satisfiable for a header of every form *)
Example C03_nonvacuous : forall form, In form [Some Fimm; Some F1; Some F2; Some F4; Some F8; None] ->
  decode_id_from_list all_ok all_ok (enc (Arr form [UInt F2 1; Arr (Some Fimm) []])) = Some 1.
Proof. intros form H. cbn [In] in H. repeat (destruct H as [<-|H]; [vm_compute; reflexivity|]). destruct H. Qed.
