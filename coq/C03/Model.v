(* C03 - tagged-sum decoding follows the tag, whatever the length encoding.
   Model of cbor/decode.go: ListLength, DecodeIdFromList (with the repair of
   fixes/C03-decode-id-fast-path.patch), DecodeById, and the id -> variant
   dispatch of the tagged-sum decoders (tables in C03/Gen.v, generated from
   the Go switch statements).

   fxamacker's decoder is the Lib parser (CborParse.parse_full: first item,
   trailing bytes ignored, as Decoder.Decode does) restricted by two
   acceptance predicates that stand for the library's extra decode-time
   rules (UTF-8, nesting depth <= 256, duplicate map keys, element limits,
   built-in tag content rules):
     raw_ok i : cbor.Decode(data, &[]RawMessage) accepts the item i
     val_ok i : cbor.Decode(data, &cbor.Value)   accepts the item i
   They are parameters of the model (Section variables in the theorems, the
   observed outcome in the correspondence run).  NO proofs here. *)
From Coq Require Import String.
From V Require Import Lib.Base Lib.Cbor Lib.CborParse.
Local Open Scope N_scope.

(* math.MaxInt on the 64-bit targets the library supports *)
Definition max_int : N := 2 ^ 63 - 1.

(* cborData[0] >= CborTypeArray && cborData[0] <= CborTypeArray+CborMaxUintSimple *)
Definition short_array_head (b : N) : bool := (128 <=? b) && (b <=? 151).

(* fxamacker skips tag numbers when the destination is not a tag type *)
Fixpoint strip_tags (i : item) : item := match i with Tag _ _ x => strip_tags x | _ => i end.

Section lib.
  Variables raw_ok val_ok : item -> bool.

  (* var tmp []RawMessage; Decode(cborData, &tmp); len(tmp)
     (CBOR null/undefined decode to a nil slice without error) *)
  Definition decode_raw_list (bs : bytes) : option N :=
    match parse_full bs with
    | Ok i _ =>
        if raw_ok i then
          match strip_tags i with
          | Arr _ xs => Some (N.of_nat (length xs))
          | Simple Fimm 22 | Simple Fimm 23 => Some 0
          | _ => None
          end
        else None
    | _ => None
    end.

  (* func ListLength(cborData []byte) (int, error) *)
  Definition list_length (bs : bytes) : option N :=
    match bs with
    | [] => None
    | b0 :: _ => if short_array_head b0 then Some (b0 - 128) else decode_raw_list bs
    end.

  (* the slow path of DecodeIdFromList: decode into cbor.Value, require a
     []any whose first element is a uint64 not above MaxInt *)
  Definition first_id (i : item) : option N :=
    match i with
    | Arr _ (UInt _ n :: _) => if n <=? max_int then Some n else None
    | _ => None
    end.
  Definition decode_value_id (bs : bytes) : option N :=
    match parse_full bs with
    | Ok i _ => if val_ok i then first_id i else None
    | _ => None
    end.

  (* func DecodeIdFromList(cborData []byte) (int, error); `guard` says whether
     the fast path checks that the header is a single byte (the repair) *)
  Definition decode_id_gen (guard : bool) (bs : bytes) : option N :=
    match bs with
    | b0 :: b1 :: _ =>
        match list_length bs with
        | None => None
        | Some len =>
            if len =? 0 then None
            else if (negb guard || short_array_head b0) && (len <? 23) && (b1 <=? 23) then Some b1
            else decode_value_id bs
        end
    | _ => None   (* len(cborData) < 2 *)
    end.

  (* the code after fixes/C03-decode-id-fast-path.patch *)
  Definition decode_id_from_list : bytes -> option N := decode_id_gen true.
  (* the pinned tree: fast path whenever listLen < 23 and data[1] <= 0x17 *)
  Definition decode_id_from_list_pinned : bytes -> option N := decode_id_gen false.

  (* DecodeById / the switch statements: the variant is looked up by the id *)
  Definition lookup (t : list (N * string)) (id : N) : option string :=
    match find (fun kv => fst kv =? id) t with Some kv => Some (snd kv) | None => None end.
  Definition dispatch (t : list (N * string)) (bs : bytes) : option string :=
    match decode_id_from_list bs with Some id => lookup t id | None => None end.
End lib.

(* table sanity: every id names one variant *)
Fixpoint dup_key (t : list (N * string)) : option N :=
  match t with
  | [] => None
  | (k, _) :: r => if existsb (fun kv => fst kv =? k) r then Some k else dup_key r
  end.

(* ---- correspondence ---- *)
(* one case: input bytes, observed library acceptance (raw, val), observed
   ListLength and DecodeIdFromList results (None = error) *)
Definition case := (bytes * (bool * bool) * (option N * option N))%type.
Definition optN_eqb := opt_eqb N.eqb.
Definition check_case (c : case) : bool :=
  let '(bs, (r, v), (olen, oid)) := c in
  optN_eqb (list_length (fun _ => r) bs) olen &&
  optN_eqb (decode_id_from_list (fun _ => r) (fun _ => v) bs) oid.
Definition mismatches := failing check_case.

(* parser validation: input, outcome class of the Go mirror (0 Ok, 1 NeedMore,
   2 Bad), bytes consumed, and the parsed tree when Ok *)
Definition pcase := (bytes * N * N * option item)%type.
Definition check_pcase (c : pcase) : bool :=
  let '(bs, cls, used, oi) := c in
  match parse_full bs, oi with
  | Ok i rest, Some j => (cls =? 0) && item_eqb i j && (N.of_nat (length bs - length rest) =? used)
  | NeedMore, None => cls =? 1
  | Bad, None => cls =? 2
  | _, _ => false
  end.
Definition pmismatches := failing check_pcase.

(* ---- the specification tables (written by hand from the Cardano CDDL /
   the documented numbering; compared with the generated C03/Gen.v) ---- *)
Local Open Scope string_scope.
Definition spec_tables : list (string * list (N * string)) := [
  ("native-script", [(0, "NativeScriptPubkey"); (1, "NativeScriptAll"); (2, "NativeScriptAny"); (3, "NativeScriptNofK");
                     (4, "NativeScriptInvalidBefore"); (5, "NativeScriptInvalidHereafter"); (6, "NativeScriptRequireGuard")]);
  ("certificate", [(0, "StakeRegistrationCertificate"); (1, "StakeDeregistrationCertificate"); (2, "StakeDelegationCertificate");
                   (3, "PoolRegistrationCertificate"); (4, "PoolRetirementCertificate"); (5, "GenesisKeyDelegationCertificate");
                   (6, "MoveInstantaneousRewardsCertificate"); (7, "RegistrationCertificate"); (8, "DeregistrationCertificate");
                   (9, "VoteDelegationCertificate"); (10, "StakeVoteDelegationCertificate");
                   (11, "StakeRegistrationDelegationCertificate"); (12, "VoteRegistrationDelegationCertificate");
                   (13, "StakeVoteRegistrationDelegationCertificate"); (14, "AuthCommitteeHotCertificate");
                   (15, "ResignCommitteeColdCertificate"); (16, "RegistrationDrepCertificate");
                   (17, "DeregistrationDrepCertificate"); (18, "UpdateDrepCertificate")]);
  ("nonce", [(0, "NonceTypeNeutral"); (1, "NonceTypeNonce")]);
  ("drep", [(0, "DrepTypeAddrKeyHash"); (1, "DrepTypeScriptHash"); (2, "DrepTypeAbstain"); (3, "DrepTypeNoConfidence")]);
  ("gov-action", [(0, "ConwayParameterChangeGovAction"); (1, "HardForkInitiationGovAction"); (2, "TreasuryWithdrawalGovAction");
                  (3, "NoConfidenceGovAction"); (4, "UpdateCommitteeGovAction"); (5, "NewConstitutionGovAction"); (6, "InfoGovAction")]);
  ("peer-address", [(0, "0"); (1, "1")]);
  ("datum-option", [(0, "DatumOptionTypeHash"); (1, "DatumOptionTypeData")])
].

(* first (family, id) on which the generated tables differ from the specification (None = equal) *)
Definition entry_eqb (a b : N * string) : bool := (fst a =? fst b)%N && String.eqb (snd a) (snd b).
Fixpoint first_diff (fam : string) (g s : list (N * string)) : option (string * N) :=
  match g, s with
  | [], [] => None
  | a :: g', b :: s' => if entry_eqb a b then first_diff fam g' s' else Some (fam, fst b)
  | a :: _, [] => Some (fam, fst a)
  | [], b :: _ => Some (fam, fst b)
  end.
Fixpoint tables_diff (g s : list (string * list (N * string))) : option (string * N) :=
  match g, s with
  | [], [] => None
  | (n1, t1) :: g', (n2, t2) :: s' =>
      if String.eqb n1 n2 then match first_diff n1 t1 t2 with Some d => Some d | None => tables_diff g' s' end
      else Some (n2, 0%N)
  | (n, _) :: _, [] | [], (n, _) :: _ => Some (n, 0%N)
  end.
Definition table_of (ts : list (string * list (N * string))) (fam : string) : list (N * string) :=
  match find (fun nt => String.eqb (fst nt) fam) ts with Some nt => snd nt | None => [] end.

(* ---- second round: every dispatch site of the repository ---- *)
(* first site that is not a known one, or that has no table and no recorded indirection *)
Definition site_problem (known : list string) (indirect : list (string * string)) (sites : list (string * N)) : option string :=
  match find (fun s => negb (existsb (String.eqb (fst s)) known)
                       || ((snd s =? 0)%N && negb (existsb (fun i => String.eqb (fst i) (fst s)) indirect))) sites with
  | Some s => Some (fst s)
  | None => None
  end.
(* first table with a repeated id *)
Definition dup_problem (ts : list (string * list (N * string))) : option (string * N) :=
  match find (fun nt => match dup_key (snd nt) with Some _ => true | None => false end) ts with
  | Some nt => match dup_key (snd nt) with Some k => Some (fst nt, k) | None => None end
  | None => None
  end.

(* ---- third round: tables recorded by running the decoder ("probe") ---- *)
(* A table whose source is "ast" must EQUAL the specification table.  A table
   whose source is "probe" (the translator found no dispatch pattern and ran the
   real decoder on known minimal payloads instead) must be INCLUDED in it: every
   probed id has the specified variant; the ids it does not cover are
   `unprobed` (reported, not silently dropped). *)
Definition source_of (srcs : list (string * string)) (name : string) : string :=
  match find (fun ns => String.eqb (fst ns) name) srcs with Some ns => snd ns | None => "ast"%string end.
Fixpoint subset_diff (fam : string) (g s : list (N * string)) : option (string * N) :=
  match g with
  | [] => None
  | (k, v) :: g' =>
      match find (fun kv => (fst kv =? k)%N) s with
      | Some kv => if String.eqb (snd kv) v then subset_diff fam g' s else Some (fam, k)
      | None => Some (fam, k)
      end
  end.
Fixpoint tables_diff_src (srcs : list (string * string)) (g s : list (string * list (N * string))) : option (string * N) :=
  match g, s with
  | [], [] => None
  | (n1, t1) :: g', (n2, t2) :: s' =>
      if String.eqb n1 n2 then
        match (if String.eqb (source_of srcs n1) "probe" then subset_diff n1 t1 t2 else first_diff n1 t1 t2) with
        | Some d => Some d
        | None => tables_diff_src srcs g' s'
        end
      else Some (n2, 0%N)
  | (n, _) :: _, [] | [], (n, _) :: _ => Some (n, 0%N)
  end.
Definition unprobed (srcs : list (string * string)) (g s : list (string * list (N * string))) : list (string * list N) :=
  flat_map (fun nt => if String.eqb (source_of srcs (fst nt)) "probe"
                      then [(fst nt, map fst (filter (fun kv => negb (existsb (fun e => (fst e =? fst kv)%N) (snd nt)))
                                                         (table_of s (fst nt))))]
                      else []) g.
