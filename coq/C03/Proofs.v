(* C03 - proofs about the model of DecodeIdFromList / ListLength. *)
From Coq Require Import String.
From V Require Import Lib.Base Lib.Cbor Lib.CborParse Lib.CborProofs C03.Model.
Local Open Scope N_scope.

Lemma two_bytes (bs : bytes) : (2 <= length bs)%nat -> exists b0 b1 r, bs = b0 :: b1 :: r.
Proof. destruct bs as [|b0 [|b1 r]]; cbn [length]; intros; try lia. eauto. Qed.

(* first byte of an array *)
Definition arr_b0 (form : option form) (L : N) : N :=
  128 + match form with Some g => ai_of g L | None => 31 end.

Lemma enc_arr_b0 form l : exists t, enc (Arr form l) = arr_b0 form (N.of_nat (length l)) :: t.
Proof.
  destruct form as [g|].
  - rewrite enc_arr_def. unfold enc_head, arr_b0. cbn [app]. eexists. f_equal.
  - rewrite enc_arr_indef. unfold arr_b0. eexists. reflexivity.
Qed.

Lemma option_form_dec (form : option form) : {form = Some Fimm} + {form <> Some Fimm}.
Proof. destruct form as [[| | | |]|]; (left; reflexivity) || (right; discriminate). Defined.

Definition fits_opt (form : option form) (L : N) : Prop := match form with Some g => fits g L | None => True end.

Lemma short_head_fimm L : L < 24 -> short_array_head (arr_b0 (Some Fimm) L) = true /\ arr_b0 (Some Fimm) L - 128 = L.
Proof. intros H. unfold short_array_head, arr_b0. cbn [ai_of]. split; lia. Qed.

Lemma short_head_other form L : form <> Some Fimm -> short_array_head (arr_b0 form L) = false.
Proof. intros H. unfold short_array_head, arr_b0. destruct form as [[| | | |]|]; cbn [ai_of]; try congruence; lia. Qed.

Lemma enc_arr_fimm_uint f n xs trail : enc (Arr (Some Fimm) (UInt f n :: xs)) ++ trail =
  (128 + N.of_nat (S (length xs))) :: ai_of f n :: (be (nbytes f) n ++ flat_map enc xs) ++ trail.
Proof.
  rewrite enc_arr_def. cbn [flat_map enc length]. unfold enc_head. cbn [nbytes be app ai_of].
  replace (4 * 32 + N.of_nat (S (length xs))) with (128 + N.of_nat (S (length xs))) by lia.
  replace (0 * 32 + ai_of f n) with (ai_of f n) by lia. reflexivity.
Qed.

Section lib.
  Variables raw_ok val_ok : item -> bool.
  Notation list_length := (list_length raw_ok).
  Notation decode_raw_list := (decode_raw_list raw_ok).
  Notation decode_value_id := (decode_value_id val_ok).
  Notation decode_id_from_list := (decode_id_from_list raw_ok val_ok).

  Lemma decode_raw_list_enc i trail : wf i -> raw_ok i = true ->
    decode_raw_list (enc i ++ trail) =
      match strip_tags i with
      | Arr _ xs => Some (N.of_nat (length xs))
      | Simple Fimm 22 | Simple Fimm 23 => Some 0
      | _ => None
      end.
  Proof. intros Hw Hr. unfold Model.decode_raw_list. rewrite parse_full_enc by exact Hw. rewrite Hr. reflexivity. Qed.

  Lemma decode_raw_list_rej i trail : wf i -> raw_ok i = false -> decode_raw_list (enc i ++ trail) = None.
  Proof. intros Hw Hr. unfold Model.decode_raw_list. rewrite parse_full_enc by exact Hw. rewrite Hr. reflexivity. Qed.

  Lemma decode_value_id_enc i trail : wf i -> decode_value_id (enc i ++ trail) = if val_ok i then first_id i else None.
  Proof. intros Hw. unfold Model.decode_value_id. rewrite parse_full_enc by exact Hw. reflexivity. Qed.

  (* whenever the header is not a single byte the (repaired) function takes the slow path *)
  Lemma decode_id_slow b0 b1 r : short_array_head b0 = false ->
    decode_id_from_list (b0 :: b1 :: r) =
      match decode_raw_list (b0 :: b1 :: r) with
      | None => None
      | Some len => if len =? 0 then None else decode_value_id (b0 :: b1 :: r)
      end.
  Proof.
    intros Hs. unfold Model.decode_id_from_list, decode_id_gen, Model.list_length. rewrite Hs.
    destruct (Model.decode_raw_list raw_ok (b0 :: b1 :: r)) as [len|]; [|reflexivity].
    destruct (len =? 0); reflexivity.
  Qed.

  Lemma decode_id_fast b0 b1 r : short_array_head b0 = true ->
    decode_id_from_list (b0 :: b1 :: r) =
      if b0 - 128 =? 0 then None
      else if (b0 - 128 <? 23) && (b1 <=? 23) then Some b1 else decode_value_id (b0 :: b1 :: r).
  Proof.
    intros Hs. unfold Model.decode_id_from_list, decode_id_gen, Model.list_length. rewrite Hs. cbn [negb orb andb]. reflexivity.
  Qed.

  (* ---- the main theorem: the id is the first element, for every header form ---- *)
  Theorem id_is_first : forall form f n xs trail,
    let i := Arr form (UInt f n :: xs) in
    wf i -> n <= max_int -> raw_ok i = true -> val_ok i = true ->
    decode_id_from_list (enc i ++ trail) = Some n.
  Proof.
    intros form f n xs trail i Hw Hn Hr Hv.
    assert (Hslow : decode_value_id (enc i ++ trail) = Some n).
    { rewrite decode_value_id_enc by exact Hw. rewrite Hv. unfold i. cbn [first_id].
      destruct (N.leb_spec n max_int); [reflexivity|lia]. }
    pose proof Hw as Hw'. apply wf_arr in Hw'. destruct Hw' as [Hf Hxs].
    inversion Hxs as [|? ? Hu Hxs']; subst. cbn [wf] in Hu.
    destruct (option_form_dec form) as [->|Hne].
    - (* minimal one-byte header: the fast path may fire *)
      unfold hdr_ok, len_ok in Hf. cbn [fits length] in Hf.
      pose proof (enc_arr_fimm_uint f n xs trail) as E. fold i in E.
      remember (N.of_nat (S (length xs))) as L eqn:EL.
      destruct (short_head_fimm L Hf) as [Hs HL]. unfold arr_b0 in Hs, HL. cbn [ai_of] in Hs, HL.
      rewrite E. rewrite decode_id_fast by exact Hs. rewrite HL.
      destruct (N.eqb_spec L 0) as [E0|_]; [lia|].
      destruct ((L <? 23) && (ai_of f n <=? 23)) eqn:Efast.
      + apply andb_true_iff in Efast. destruct Efast as [_ Eb]. apply N.leb_le in Eb.
        destruct f; cbn [ai_of] in *; try lia. reflexivity.
      + rewrite <- E. exact Hslow.
    - (* wider or indefinite header: always the slow path *)
      destruct (enc_arr_b0 form (UInt f n :: xs)) as (t & Et).
      assert (Hlen : (2 <= length (enc i ++ trail))%nat).
      { rewrite app_length. unfold i. rewrite enc_length_arr. cbn [flat_map]. rewrite app_length, enc_length_uint.
        destruct form; cbn [hdr_size]; lia. }
      destruct (two_bytes _ Hlen) as (b0 & b1 & r & E).
      assert (Hb0 : b0 = arr_b0 form (N.of_nat (length (UInt f n :: xs)))).
      { unfold i in E. rewrite Et in E. cbn [app] in E. congruence. }
      rewrite E. rewrite decode_id_slow by (rewrite Hb0; apply short_head_other; exact Hne).
      rewrite <- E. rewrite decode_raw_list_enc by assumption. unfold i at 1. cbn [strip_tags length].
      destruct (N.eqb_spec (N.of_nat (S (length xs))) 0) as [E0|_]; [lia|]. exact Hslow.
  Qed.
End lib.

(* ---- the one-byte-header fast path needs nothing from the library ---- *)
Theorem id_fast_path : forall raw_ok val_ok n xs trail,
  n < 24 -> N.of_nat (S (length xs)) < 23 ->
  decode_id_from_list raw_ok val_ok (enc (Arr (Some Fimm) (UInt Fimm n :: xs)) ++ trail) = Some n.
Proof.
  intros raw_ok val_ok n xs trail Hn HL. rewrite enc_arr_fimm_uint.
  destruct (short_head_fimm (N.of_nat (S (length xs))) ltac:(lia)) as [Hs HL'].
  unfold arr_b0 in Hs, HL'. cbn [ai_of] in *.
  rewrite decode_id_fast by exact Hs. rewrite HL'.
  destruct (N.eqb_spec (N.of_nat (S (length xs))) 0) as [E|_]; [lia|].
  destruct (N.ltb_spec (N.of_nat (S (length xs))) 23); [|lia].
  destruct (N.leb_spec n 23); [reflexivity|lia].
Qed.

(* ---- errors ---- *)
Section errors.
  Variables raw_ok val_ok : item -> bool.

  (* an empty list has no id, whatever its header *)
  Theorem id_empty_list : forall form trail,
    decode_id_from_list raw_ok val_ok (enc (Arr form []) ++ trail) = None.
  Proof.
    intros form trail.
    destruct (Nat.ltb_spec (length (enc (Arr form []) ++ trail)) 2) as [Hlt|Hge].
    { destruct (enc (Arr form []) ++ trail) as [|b0 [|b1 r]]; cbn [length] in Hlt; try lia; reflexivity. }
    destruct (two_bytes _ Hge) as (b0 & b1 & r & E).
    destruct (enc_arr_b0 form []) as (t & Et). change (N.of_nat (length (@nil item))) with 0 in Et.
    assert (Hb0 : b0 = arr_b0 form 0) by (rewrite Et in E; cbn [app] in E; congruence).
    destruct (option_form_dec form) as [->|Hne].
    - rewrite E. rewrite decode_id_fast by (subst b0; reflexivity). subst b0. reflexivity.
    - rewrite E. rewrite decode_id_slow by (rewrite Hb0; apply short_head_other; exact Hne). rewrite <- E.
      assert (Hw : wf (Arr form [])).
      { apply wf_arr. split; [|constructor]. destruct form as [g|]; [|exact I]. destruct g; cbn; lia. }
      destruct (raw_ok (Arr form [])) eqn:Hr.
      + rewrite decode_raw_list_enc by assumption. reflexivity.
      + rewrite decode_raw_list_rej by assumption. reflexivity.
  Qed.

  (* the first byte of an item is <= 0x17 only for an immediate unsigned integer *)
  Lemma first_byte_small x : wf x -> forall b t, enc x = b :: t -> b <= 23 -> exists n, x = UInt Fimm n.
  Proof.
    assert (G : forall mt f n tail b t, 1 <= mt -> enc_head mt f n ++ tail = b :: t -> b <= 23 -> False).
    { intros mt f n tail b t Hm E Hb. unfold enc_head in E. cbn [app] in E. injection E as <- _. lia. }
    destruct x as [f n|f n|f bs|cs|f bs|cs|[f|] xs|[f|] kvs|f t x|f v|f v]; intros Hw b t0 E Hb.
    - unfold enc, enc_head in E. injection E as <- _. destruct f; cbn [ai_of] in Hb; try lia. eauto.
    - exfalso. rewrite <- (app_nil_r (enc _)) in E. eapply (G 1); eauto; lia.
    - exfalso. cbn [enc] in E. eapply (G 2); eauto; lia.
    - exfalso. cbn [enc app] in E. injection E as <- _. lia.
    - exfalso. cbn [enc] in E. eapply (G 3); eauto; lia.
    - exfalso. cbn [enc app] in E. injection E as <- _. lia.
    - exfalso. rewrite enc_arr_def in E. eapply (G 4); eauto; lia.
    - exfalso. rewrite enc_arr_indef in E. injection E as <- _. lia.
    - exfalso. rewrite enc_map_def in E. eapply (G 5); eauto; lia.
    - exfalso. rewrite enc_map_indef in E. injection E as <- _. lia.
    - exfalso. rewrite enc_tag in E. eapply (G 6); eauto; lia.
    - exfalso. rewrite <- (app_nil_r (enc _)) in E. eapply (G 7); eauto; lia.
    - exfalso. rewrite <- (app_nil_r (enc _)) in E. eapply (G 7); eauto; lia.
  Qed.

  (* a first element that is not an unsigned integer is an error, for every header form *)
  Theorem id_first_not_uint : forall form x xs trail,
    wf (Arr form (x :: xs)) -> (forall f n, x <> UInt f n) ->
    decode_id_from_list raw_ok val_ok (enc (Arr form (x :: xs)) ++ trail) = None.
  Proof.
    intros form x xs trail Hw Hx.
    assert (Hslow : decode_value_id val_ok (enc (Arr form (x :: xs)) ++ trail) = None).
    { rewrite decode_value_id_enc by exact Hw. destruct (val_ok _); [|reflexivity].
      cbn [first_id]. destruct x; try reflexivity. exfalso. eapply Hx. reflexivity. }
    pose proof Hw as Hw'. apply wf_arr in Hw'. destruct Hw' as [Hf Hxs]. inversion Hxs as [|? ? Wx Wxs]; subst.
    destruct (enc_first x Wx) as (bx & tx & Ex & _).
    assert (Hlen : (2 <= length (enc (Arr form (x :: xs)) ++ trail))%nat).
    { rewrite app_length, enc_length_arr. cbn [flat_map]. rewrite app_length, Ex. cbn [length].
      destruct form; cbn [hdr_size]; lia. }
    destruct (two_bytes _ Hlen) as (b0 & b1 & r & E).
    destruct (enc_arr_b0 form (x :: xs)) as (t & Et).
    assert (Hb0 : b0 = arr_b0 form (N.of_nat (length (x :: xs)))) by (rewrite Et in E; cbn [app] in E; congruence).
    destruct (option_form_dec form) as [->|Hne].
    - unfold hdr_ok, len_ok in Hf. cbn [fits] in Hf.
      destruct (short_head_fimm _ Hf) as [Hs HL]. rewrite <- Hb0 in Hs, HL.
      assert (Hb1 : b1 = bx).
      { rewrite enc_arr_def in E. cbn [flat_map] in E. rewrite Ex in E. unfold enc_head in E.
        cbn [nbytes be app] in E. congruence. }
      rewrite E. rewrite decode_id_fast by exact Hs. rewrite HL.
      destruct (N.of_nat (length (x :: xs)) =? 0); [reflexivity|].
      destruct (N.leb_spec b1 23) as [Hb|Hb].
      + exfalso. subst b1. destruct (first_byte_small x Wx _ _ Ex Hb) as (n & ->). eapply Hx. reflexivity.
      + rewrite andb_false_r. rewrite <- E. exact Hslow.
    - rewrite E. rewrite decode_id_slow by (rewrite Hb0; apply short_head_other; exact Hne). rewrite <- E.
      destruct (decode_raw_list raw_ok _) as [len|]; [|reflexivity].
      destruct (len =? 0); [reflexivity|exact Hslow].
  Qed.

  (* an id above MaxInt is an error *)
  Theorem id_too_large : forall form f n xs trail,
    wf (Arr form (UInt f n :: xs)) -> max_int < n ->
    decode_id_from_list raw_ok val_ok (enc (Arr form (UInt f n :: xs)) ++ trail) = None.
  Proof.
    intros form f n xs trail Hw Hn.
    assert (Hslow : decode_value_id val_ok (enc (Arr form (UInt f n :: xs)) ++ trail) = None).
    { rewrite decode_value_id_enc by exact Hw. destruct (val_ok _); [|reflexivity].
      cbn [first_id]. destruct (N.leb_spec n max_int); [lia|reflexivity]. }
    pose proof Hw as Hw'. apply wf_arr in Hw'. destruct Hw' as [Hf Hxs]. inversion Hxs as [|? ? Wx Wxs]; subst. cbn [wf] in Wx.
    assert (Hlen : (2 <= length (enc (Arr form (UInt f n :: xs)) ++ trail))%nat).
    { rewrite app_length, enc_length_arr. cbn [flat_map]. rewrite app_length, enc_length_uint.
      destruct form; cbn [hdr_size]; lia. }
    destruct (option_form_dec form) as [->|Hne].
    - unfold hdr_ok, len_ok in Hf. cbn [fits length] in Hf.
      pose proof (enc_arr_fimm_uint f n xs trail) as E.
      destruct (short_head_fimm _ Hf) as [Hs HL]. unfold arr_b0 in Hs, HL. cbn [ai_of] in Hs, HL.
      rewrite E. rewrite decode_id_fast by exact Hs. rewrite HL.
      destruct (N.of_nat (S (length xs)) =? 0); [reflexivity|].
      destruct (N.leb_spec (ai_of f n) 23) as [Hb|Hb].
      + exfalso. unfold max_int in Hn. destruct f; cbn [ai_of fits] in *; lia.
      + rewrite andb_false_r. rewrite <- E. exact Hslow.
    - destruct (two_bytes _ Hlen) as (b0 & b1 & r & E).
      destruct (enc_arr_b0 form (UInt f n :: xs)) as (t & Et).
      assert (Hb0 : b0 = arr_b0 form (N.of_nat (length (UInt f n :: xs)))) by (rewrite Et in E; cbn [app] in E; congruence).
      rewrite E. rewrite decode_id_slow by (rewrite Hb0; apply short_head_other; exact Hne). rewrite <- E.
      destruct (decode_raw_list raw_ok _) as [len|]; [|reflexivity].
      destruct (len =? 0); [reflexivity|exact Hslow].
  Qed.

  (* the variant follows the id *)
  Theorem dispatch_follows_id : forall t form f n xs trail,
    let i := Arr form (UInt f n :: xs) in
    wf i -> n <= max_int -> raw_ok i = true -> val_ok i = true ->
    dispatch raw_ok val_ok t (enc i ++ trail) = lookup t n.
  Proof. intros t form f n xs trail i Hw Hn Hr Hv. subst i. unfold dispatch. rewrite (id_is_first raw_ok val_ok); auto. Qed.
End errors.

(* the same list under two header forms selects the same variant *)
Theorem dispatch_form_independent : forall raw_ok val_ok t form1 form2 f n xs tr1 tr2,
  wf (Arr form1 (UInt f n :: xs)) -> wf (Arr form2 (UInt f n :: xs)) -> n <= max_int ->
  raw_ok (Arr form1 (UInt f n :: xs)) = true -> val_ok (Arr form1 (UInt f n :: xs)) = true ->
  raw_ok (Arr form2 (UInt f n :: xs)) = true -> val_ok (Arr form2 (UInt f n :: xs)) = true ->
  dispatch raw_ok val_ok t (enc (Arr form1 (UInt f n :: xs)) ++ tr1) =
  dispatch raw_ok val_ok t (enc (Arr form2 (UInt f n :: xs)) ++ tr2).
Proof. intros. rewrite !dispatch_follows_id; auto. Qed.

(* ---- the pinned tree ---- *)
(* 98 02 01 81 82 00 58 1c <28 bytes>: an "all" script [1, [[0, keyhash]]] with a one-byte-length header *)
Definition witness : bytes :=
  [152; 2; 1; 129; 130; 0; 88; 28] ++ repeat 0 28.
Definition all_ok (_ : item) : bool := true.

Lemma witness_is_all_script :
  witness = enc (Arr (Some F1) [UInt Fimm 1; Arr (Some Fimm) [Arr (Some Fimm) [UInt Fimm 0; BStr F1 (repeat 0 28)]]]).
Proof. vm_compute. reflexivity. Qed.

Lemma pinned_refuted_witness : decode_id_from_list_pinned all_ok all_ok witness = Some 2 /\
  decode_id_from_list all_ok all_ok witness = Some 1.
Proof. vm_compute. split; reflexivity. Qed.
