(* C36 - era dispatch.  Model of ledger.DetermineBlockType
   (ledger/verify_block.go) as an interpreter of the generated tables
   (Gen.layouts is read off the function's source by the translator), of the
   two maps of ledger/era.go, and boolean checkers for the finite facts.
   NO proofs here. *)
From Coq Require Import String.
From V Require Import Lib.Base C36.Types C36.Gen.
Local Open Scope N_scope.

(* inProtocolRange(protoMajor, min, max) = protoMajor >= min && protoMajor <= max *)
Definition in_rng (pv : N) (c : N * N * N) : bool :=
  let '(mn, mx, _) := c in (mn <=? pv) && (pv <=? mx).
Definition ret_of (c : N * N * N) : N := let '(_, _, t) := c in t.

(* the inner `switch { case inProtocolRange(...): return T ... default: error }`:
   first matching case wins *)
Definition first_match (pv : N) (cases : list (N * N * N)) : option N :=
  option_map ret_of (find (in_rng pv) cases).

(* the outer `switch lenBody` *)
Definition find_layout (len : N) : option layout := find (fun l => l_len l =? len) layouts.

(* DetermineBlockType on a header whose body has `len` fields and whose
   protocol-version field holds `pv` (None: the field is not an unsigned
   integer / not a non-empty array starting with one -> error) *)
Definition determine_hdr (len : N) (pv : option N) : option N :=
  match find_layout len with
  | None => None                       (* unknown header body length *)
  | Some l => match pv with
              | None => None           (* invalid proto major / version *)
              | Some pv => first_match pv (l_cases l)
              end
  end.
Definition determine (len pv : N) : option N := determine_hdr len (Some pv).

Definition era_in_range (pv : N) (e : era) : bool :=
  match e_pv e with Some (mn, mx) => (mn <=? pv) && (pv <=? mx) | None => false end.

(* map lookups: Go `m[k]` with the ok flag *)
Fixpoint lookup (k : N) (l : list (N * N)) : option N :=
  match l with [] => None | (a, b) :: r => if a =? k then Some b else lookup k r end.

Definition era_of_block_type (t : N) : option era :=
  find (fun e => existsb (N.eqb t) (e_block_types e)) eras.

(* ---- finite checkers; each returns the offending entries ---- *)
Definition bad {A} (chk : A -> bool) (l : list A) : list A := filter (fun x => negb (chk x)) l.

(* ranges of two eras are disjoint unless it is the same era *)
Definition pair_ok (p : era * era) : bool :=
  let '(a, b) := p in
  (e_id a =? e_id b) ||
  match e_pv a, e_pv b with
  | Some (mn1, mx1), Some (mn2, mx2) => (mx1 <? mn2) || (mx2 <? mn1)
  | _, _ => true
  end.
Definition overlapping_eras := bad pair_ok (list_prod eras eras).

(* era ids identify eras *)
Definition id_pair_ok (p : era * era) : bool :=
  let '(a, b) := p in negb (e_id a =? e_id b) || String.eqb (e_name a) (e_name b).
Definition duplicate_era_ids := bad id_pair_ok (list_prod eras eras).

(* a declared range is non-empty *)
Definition range_ok (e : era) : bool :=
  match e_pv e with Some (mn, mx) => mn <=? mx | None => true end.
Definition empty_ranges := bad range_ok eras.

(* every inner case tests exactly the declared range of the era owning the returned type *)
Definition case_ok (c : N * N * N) : bool :=
  let '(mn, mx, t) := c in
  match era_of_block_type t with
  | Some e => match e_pv e with Some (a, b) => (a =? mn) && (b =? mx) | None => false end
  | None => false
  end.
Definition bad_cases := flat_map (fun l => bad case_ok (l_cases l)) layouts.

(* a block type belongs to one era *)
Definition bt_pair_ok (p : era * era) : bool :=
  let '(a, b) := p in
  (e_id a =? e_id b) || negb (existsb (fun t => existsb (N.eqb t) (e_block_types b)) (e_block_types a)).
Definition shared_block_types := bad bt_pair_ok (list_prod eras eras).

(* the arms are selected by distinct lengths *)
Definition layout_pair_ok (p : layout * layout) : bool :=
  let '(a, b) := p in negb (l_len a =? l_len b) || ((l_pv_index a =? l_pv_index b) && Bool.eqb (l_pv_nested a) (l_pv_nested b)
                                                   && list_eqb (fun x y => (fst (fst x) =? fst (fst y)) && (snd (fst x) =? snd (fst y)) && (snd x =? snd y)) (l_cases a) (l_cases b)).
Definition duplicate_layouts := bad layout_pair_ok (list_prod layouts layouts).

(* the two maps *)
Definition h2b_entry_ok (p : N * N) : bool := opt_eqb N.eqb (lookup (snd p) block_to_header) (Some (fst p)).
Definition b2h_entry_ok (p : N * N) : bool := opt_eqb N.eqb (lookup (snd p) header_to_block) (Some (fst p)).
Definition bad_h2b := bad h2b_entry_ok header_to_block.
Definition bad_b2h := bad b2h_entry_ok block_to_header.

(* a map entry (header type h -> block type b) is some era's (header type, block type), and h is its era id *)
Definition h2b_era_ok (p : N * N) : bool :=
  existsb (fun e => (e_header_type e =? fst p) && (e_id e =? fst p) && existsb (N.eqb (snd p)) (e_block_types e)) eras.
Definition bad_h2b_era := bad h2b_era_ok header_to_block.
(* every era with a declared version range (Shelley on) is in the map *)
Definition era_mapped (e : era) : bool :=
  match e_pv e with
  | None => true
  | Some _ => match lookup (e_header_type e) header_to_block with
              | Some b => existsb (N.eqb b) (e_block_types e)
              | None => false
              end
  end.
Definition unmapped_eras := bad era_mapped eras.

(* observed dispatch *)
Definition block_obs_ok (x : N * string * option obs_block) : bool :=
  let '(t, _, o) := x in
  match o with
  | None => true
  | Some ob =>
      (ob_type ob =? t) &&
      match era_of_block_type t with
      | Some e => (ob_era ob =? e_id e) && (ob_hdr_era ob =? e_id e)
      | None => false
      end
  end.
Definition bad_block_dispatch := bad block_obs_ok block_dispatch.

(* NewBlockFromCborWithOffsets: same requirement, and the same answer as NewBlockFromCbor cell by cell *)
Definition bad_offsets_dispatch := bad block_obs_ok offsets_dispatch.
Definition find_obs {A} (t : N) (name : string) (l : list (N * string * A)) : option A :=
  option_map snd (find (fun x => (fst (fst x) =? t) && String.eqb (snd (fst x)) name) l).
Definition ob_eqb (a b : obs_block) : bool :=
  (ob_type a =? ob_type b) && (ob_era a =? ob_era b).
Definition offsets_cell_agrees (x : N * string * option obs_block) : bool :=
  let '(t, name, o) := x in
  match find_obs t name block_dispatch with
  | Some o' => opt_eqb ob_eqb o o'
  | None => false
  end.
Definition offsets_disagree := bad offsets_cell_agrees offsets_dispatch.

Definition header_obs_ok (x : N * string * option N) : bool :=
  let '(t, _, o) := x in
  match o with
  | None => true
  | Some era => match era_of_block_type t with Some e => era =? e_id e | None => false end
  end.
Definition bad_header_dispatch := bad header_obs_ok header_dispatch.

Definition tx_obs_ok (x : N * string * option N) : bool :=
  let '(t, _, o) := x in match o with None => true | Some ty => ty =? t end.
Definition bad_tx_dispatch := bad tx_obs_ok tx_dispatch.

(* each fixture decodes at its own era's type(s) through both block entry points *)
Definition fixture_decodes (f : string * N) : bool :=
  existsb (fun x => let '(t, name, o) := x in
                    String.eqb name (fst f) &&
                    match o, era_of_block_type t with
                    | Some ob, Some e => (e_id e =? snd f) && (ob_era ob =? snd f)
                    | _, _ => false
                    end) block_dispatch
  && existsb (fun x => let '(t, name, o) := x in
                    String.eqb name (fst f) &&
                    match o with Some era => era =? snd f | None => false end) header_dispatch.
Definition undecoded_fixtures := bad fixture_decodes fixtures.

(* type ids no era owns are refused everywhere *)
Definition unknown_refused_b (x : N * string * option obs_block) : bool :=
  let '(t, _, o) := x in
  match era_of_block_type t, o with None, Some _ => false | _, _ => true end.
Definition unknown_refused_h (x : N * string * option N) : bool :=
  let '(t, _, o) := x in
  match era_of_block_type t, o with None, Some _ => false | _, _ => true end.
Definition accepted_unknown_ids :=
  (map (fun x => fst (fst x)) (bad unknown_refused_b block_dispatch)) ++
  (map (fun x => fst (fst x)) (bad unknown_refused_h header_dispatch)).

(* GetEraById *)
Definition era_by_id_ok (x : N * (N * string)) : bool :=
  let '(q, (i, name)) := x in
  match find (fun e => e_id e =? q) eras with
  | Some e => (i =? q) && String.eqb name (e_name e)
  | None => String.eqb name "invalid"
  end.
Definition bad_era_by_id := bad era_by_id_ok era_by_id.

(* ---- correspondence: DetermineBlockType on synthetic headers ---- *)
Record case := mkcase {
  c_len : N;              (* number of header body fields *)
  c_pv : option N;        (* protocol major at the layout's position; None: not an unsigned integer there *)
  c_got : option N }.     (* DetermineBlockType: Some block type / None = error *)
Definition check_case (c : case) : bool := opt_eqb N.eqb (determine_hdr (c_len c) (c_pv c)) (c_got c).
Definition mismatches := failing check_case.

(* two cases of one arm either return the same type or test disjoint ranges *)
Definition case_pair_ok (p : (N * N * N) * (N * N * N)) : bool :=
  let '((mn1, mx1, t1), (mn2, mx2, t2)) := p in (t1 =? t2) || (mx1 <? mn2) || (mx2 <? mn1).
Definition ambiguous_cases := flat_map (fun l => bad case_pair_ok (list_prod (l_cases l) (l_cases l))) layouts.

(* every era that declares a version range is returned by some arm *)
Definition era_dispatched (e : era) : bool :=
  match e_pv e with
  | None => true
  | Some (mn, mx) =>
      existsb (fun l => existsb (fun c => let '(a, b, t) := c in (a =? mn) && (b =? mx) && existsb (N.eqb t) (e_block_types e)) (l_cases l)) layouts
  end.
Definition undispatched_eras := bad era_dispatched eras.

(* a determined block type maps to its era id as header type, and back *)
Definition case_mapped (c : N * N * N) : bool :=
  match era_of_block_type (ret_of c) with
  | Some e => opt_eqb N.eqb (lookup (ret_of c) block_to_header) (Some (e_id e))
              && opt_eqb N.eqb (lookup (e_id e) header_to_block) (Some (ret_of c))
  | None => false
  end.
Definition unmapped_cases := flat_map (fun l => bad case_mapped (l_cases l)) layouts.

(* ---- correspondence: histories ------------------------------------------
   An entry point was called with type id h_prev and then with h_t on the same
   bytes in one process; (h_type, h_era) is what the SECOND call reported
   (None, None = error).  Model: dispatch is a function of (type id, bytes)
   only, i.e. the cell of the (history-free) table. *)
Record hcase := mkh {
  h_entry : N;          (* 0 NewBlockFromCbor, 1 NewBlockFromCborWithOffsets, 2 NewBlockHeaderFromCbor, 3 NewTransactionFromCbor *)
  h_prev : N;
  h_t : N;
  h_fix : string;
  h_type : option N;
  h_era : option N }.
Definition h_expect (c : hcase) : option (option N * option N) :=
  match h_entry c with
  | 0 => match find_obs (h_t c) (h_fix c) block_dispatch with
         | Some (Some ob) => Some (Some (ob_type ob), Some (ob_era ob)) | Some None => Some (None, None) | None => None end
  | 1 => match find_obs (h_t c) (h_fix c) offsets_dispatch with
         | Some (Some ob) => Some (Some (ob_type ob), Some (ob_era ob)) | Some None => Some (None, None) | None => None end
  | 2 => match find_obs (h_t c) (h_fix c) header_dispatch with
         | Some (Some e) => Some (None, Some e) | Some None => Some (None, None) | None => None end
  | _ => match find_obs (h_t c) (h_fix c) tx_dispatch with
         | Some (Some ty) => Some (Some ty, None) | Some None => Some (None, None) | None => None end
  end.
Definition h_check (c : hcase) : bool :=
  match h_expect c with
  | Some (ty, era) => opt_eqb N.eqb ty (h_type c) && opt_eqb N.eqb era (h_era c)
  | None => false
  end.
Definition hist_mismatches := failing h_check.
