(* C36 - property theorems only.  Tables (eras, layouts, maps, observed
   dispatch) are C36/Gen.v, regenerated from the code on every run. *)
From Coq Require Import String.
From V Require Import Lib.Base C36.Types C36.Gen C36.Model C36.Proofs.
Local Open Scope N_scope.

(* For EVERY protocol major pv (unbounded) and every header body length:
   if DetermineBlockType answers block type t, then t belongs to an era whose
   declared range contains pv, and no other era's declared range (of ANY era,
   not just those of the same header layout) contains pv. *)
Theorem C36_unique : forall (len pv t : N),
  determine len pv = Some t ->
  exists e, In e eras /\ In t (e_block_types e) /\ era_in_range pv e = true /\
            forall e', In e' eras -> era_in_range pv e' = true -> e_id e' = e_id e.
Proof.
  intros len pv t H. destruct (determine_sound len pv t H) as (e & H1 & H2 & H3 & _ & H5). eauto.
Qed.
Print Assumptions C36_unique.

(* When the translator could not read DetermineBlockType's source
   (Gen.arms_source = "probe"), Gen.layouts is the OBSERVED step function:
   the real function swept over versions 0..probe_limit and header body
   lengths 0..probe_max_len.  What that establishes about the implementation
   `impl` is premise Hobs; that it answers nothing outside the probed box is
   NOT observed and is the explicit extra premise Hout.  (With
   arms_source = "syntax", determine itself is the reading of the source and
   C36_unique above needs no such premise.) *)
Section probe.
  Variable impl : N -> N -> option N.   (* DetermineBlockType on (body length, protocol major) *)
  Hypothesis Hobs : forall len pv, len <= probe_max_len -> pv <= probe_limit -> impl len pv = determine len pv.
  Hypothesis Hout : forall len pv, probe_max_len < len \/ probe_limit < pv -> impl len pv = None.

  Theorem C36_unique_probe : forall (len pv t : N),
    impl len pv = Some t ->
    exists e, In e eras /\ In t (e_block_types e) /\ era_in_range pv e = true /\
              forall e', In e' eras -> era_in_range pv e' = true -> e_id e' = e_id e.
  Proof.
    intros len pv t H.
    destruct (N.le_gt_cases len probe_max_len) as [Hl|Hl];
      [destruct (N.le_gt_cases pv probe_limit) as [Hp|Hp]|].
    - rewrite (Hobs len pv Hl Hp) in H. now apply C36_unique with (len := len).
    - rewrite (Hout len pv (or_intror Hp)) in H. discriminate.
    - rewrite (Hout len pv (or_introl Hl)) in H. discriminate.
  Qed.

  (* every declared version inside the probed box is dispatched to its era by the implementation *)
  Theorem C36_total_on_known_probe : forall l c pv,
    In l layouts -> In c (l_cases l) -> in_rng pv c = true ->
    l_len l <= probe_max_len -> pv <= probe_limit ->
    impl (l_len l) pv = Some (ret_of c).
  Proof.
    intros l c pv Hl Hc Hr Hlen Hp. rewrite (Hobs _ _ Hlen Hp). now apply determine_complete.
  Qed.
End probe.

(* era ids identify eras (so "e_id e' = e_id e" above means the same era) *)
Theorem C36_era_ids_unique : forall e e', In e eras -> In e' eras -> e_id e = e_id e' -> e_name e = e_name e'.
Proof.
  intros e e' He He' Hid.
  assert (In (e, e') (list_prod eras eras)) as Hp by (apply in_prod; assumption).
  pose proof (bad_nil _ _ no_duplicate_era_ids _ Hp) as Hok. unfold id_pair_ok in Hok.
  rewrite Hid, N.eqb_refl in Hok. cbn in Hok. now apply String.eqb_eq.
Qed.

(* every case of every arm is live: a version inside the tested range is
   dispatched to that case's type, whatever cases precede it *)
Theorem C36_total_on_known : forall l c pv,
  In l layouts -> In c (l_cases l) -> in_rng pv c = true ->
  determine (l_len l) pv = Some (ret_of c).
Proof. exact determine_complete. Qed.

(* every version an era declares is dispatched to that era by some header layout *)
Theorem C36_every_declared_version_dispatched : forall e pv,
  In e eras -> era_in_range pv e = true ->
  exists len t, determine len pv = Some t /\ In t (e_block_types e).
Proof. exact every_version_dispatchable. Qed.

(* errors: only for an unknown body length or a version no case of the arm contains *)
Theorem C36_error_only_when_unknown : forall len pv,
  determine len pv = None ->
  find_layout len = None \/
  exists l, find_layout len = Some l /\ forall c, In c (l_cases l) -> in_rng pv c = false.
Proof. exact determine_none. Qed.

(* the node-to-node header-era map and the node-to-client block-type map are
   mutually inverse (for every pair of numbers, in and out of the maps) *)
Theorem C36_inverse : forall h b,
  lookup h header_to_block = Some b <-> lookup b block_to_header = Some h.
Proof. exact maps_inverse. Qed.

(* a map entry joins an era's own header type (= its era id) and block type *)
Theorem C36_map_entries_are_eras : forall h b,
  lookup h header_to_block = Some b ->
  exists e, In e eras /\ e_header_type e = h /\ e_id e = h /\ In b (e_block_types e).
Proof. exact map_entry_era. Qed.

(* the inferred block type is consistent with both maps *)
Theorem C36_determined_type_mapped : forall len pv t,
  determine len pv = Some t ->
  exists e, era_of_block_type t = Some e /\
            lookup t block_to_header = Some (e_id e) /\ lookup (e_id e) header_to_block = Some t.
Proof. exact determine_mapped. Qed.

(* decoding as block type T (NewBlockFromCbor) yielded, on every fixture of
   every era and every probed id, either an error or a block that reports type
   T, the era T belongs to, and a header of that era *)
Theorem C36_type : forall t name ob,
  In (t, name, Some ob) block_dispatch ->
  ob_type ob = t /\
  exists e, era_of_block_type t = Some e /\ ob_era ob = e_id e /\ ob_hdr_era ob = e_id e.
Proof. exact block_dispatch_type. Qed.

(* the same for NewBlockFromCborWithOffsets (each row observed in a fresh
   process), and it answers cell by cell like NewBlockFromCbor *)
Theorem C36_type_offsets : forall t name ob,
  In (t, name, Some ob) offsets_dispatch ->
  ob_type ob = t /\
  exists e, era_of_block_type t = Some e /\ ob_era ob = e_id e /\ ob_hdr_era ob = e_id e.
Proof. exact offsets_dispatch_type. Qed.

Theorem C36_offsets_agrees_with_block : offsets_disagree = [].
Proof. exact no_offsets_disagree. Qed.

Theorem C36_header_type : forall t name era,
  In (t, name, Some era) header_dispatch -> exists e, era_of_block_type t = Some e /\ era = e_id e.
Proof. exact header_dispatch_era. Qed.

Theorem C36_tx_type : forall t name ty, In (t, name, Some ty) tx_dispatch -> ty = t.
Proof. exact tx_dispatch_type. Qed.

(* the dispatch facts are not vacuous: every fixture decodes at a block type
   of its own era through both entry points; ids no era owns are refused;
   GetEraById returns the era with that id, "invalid" otherwise *)
Theorem C36_dispatch_nonvacuous :
  undecoded_fixtures = [] /\ accepted_unknown_ids = [] /\ bad_era_by_id = [] /\ unmapped_eras = [] /\ empty_ranges = [].
Proof.
  split; [exact no_undecoded_fixtures|]. split; [exact no_accepted_unknown_ids|].
  split; [exact no_bad_era_by_id|]. split; [exact no_unmapped_eras|exact no_empty_ranges].
Qed.
Print Assumptions C36_type.

(* non-vacuity of the version theorems: both arms answer *)
Example C36_nonvacuous :
  determine 15 6 = Some 5 /\ determine 10 6 = Some 5 /\ determine 10 9 = Some 7 /\
  determine 15 9 = None /\ determine 10 2 = None /\ determine 12 9 = None /\
  determine 10 18446744073709551615 = None.
Proof. vm_compute. repeat split. Qed.
