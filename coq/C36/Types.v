(* C36 - record types shared by the generated tables (Gen.v) and the model. *)
From Coq Require Import String.
From V Require Import Lib.Base.

(* one era as its package declares it (ledger/<era>/<era>.go constants) *)
Record era := mkera {
  e_name : string;
  e_id : N;                       (* EraId<Era> *)
  e_block_types : list N;         (* BlockType<Era>  (Byron: EBB and main) *)
  e_header_type : N;              (* BlockHeaderType<Era> *)
  e_tx_type : N;                  (* TxType<Era> *)
  e_pv : option (N * N) }.        (* Min/MaxProtocolVersion<Era>; Byron declares none *)

(* one `case HeaderBodyLength...:` arm of DetermineBlockType, read off the source *)
Record layout := mklayout {
  l_len : N;                      (* header body length selecting the arm *)
  l_pv_index : N;                 (* which body field carries the protocol version *)
  l_pv_nested : bool;             (* true: the field is [major, minor]; false: the major itself *)
  l_cases : list (N * N * N) }.   (* the inner switch, in source order: (min, max, returned block type) *)

(* what an entry point did on one fixture *)
Record obs_block := mkob {
  ob_type : N;                    (* Block.Type() *)
  ob_era : N;                     (* Block.Era().Id *)
  ob_hdr_era : N }.               (* Block.Header().Era().Id *)
