(* C36 - lemmas.  Finite facts are decided on the generated tables by
   vm_compute (the checker returns the offending entries, so a failure names
   them); everything quantified over protocol versions is then proved for
   every pv : N by lia. *)
From Coq Require Import String.
From V Require Import Lib.Base C36.Types C36.Gen C36.Model.
Local Open Scope N_scope.

Lemma bad_nil {A} (chk : A -> bool) l : bad chk l = [] -> forall x, In x l -> chk x = true.
Proof.
  unfold bad. intros H x Hin. destruct (chk x) eqn:E; [reflexivity|].
  assert (In x (filter (fun x => negb (chk x)) l)) as Hf by (apply filter_In; split; [exact Hin|now rewrite E]).
  rewrite H in Hf. destruct Hf.
Qed.

Lemma flat_map_nil {A B} (f : A -> list B) l : flat_map f l = [] -> forall x, In x l -> f x = [].
Proof.
  induction l as [|a r IH]; cbn; intros H x Hin; [destruct Hin|].
  apply app_eq_nil in H. destruct H as [Ha Hr]. destruct Hin as [->|Hin]; auto.
Qed.

(* ---- the finite facts (re-checked against Gen.v on every run) ---- *)
Lemma no_overlapping_eras : overlapping_eras = []. Proof. vm_compute. reflexivity. Qed.
Lemma no_duplicate_era_ids : duplicate_era_ids = []. Proof. vm_compute. reflexivity. Qed.
Lemma no_empty_ranges : empty_ranges = []. Proof. vm_compute. reflexivity. Qed.
Lemma no_bad_cases : bad_cases = []. Proof. vm_compute. reflexivity. Qed.
Lemma no_shared_block_types : shared_block_types = []. Proof. vm_compute. reflexivity. Qed.
Lemma no_duplicate_layouts : duplicate_layouts = []. Proof. vm_compute. reflexivity. Qed.
Lemma no_ambiguous_cases : ambiguous_cases = []. Proof. vm_compute. reflexivity. Qed.
Lemma no_undispatched_eras : undispatched_eras = []. Proof. vm_compute. reflexivity. Qed.
Lemma no_unmapped_cases : unmapped_cases = []. Proof. vm_compute. reflexivity. Qed.
Lemma no_bad_h2b : bad_h2b = []. Proof. vm_compute. reflexivity. Qed.
Lemma no_bad_b2h : bad_b2h = []. Proof. vm_compute. reflexivity. Qed.
Lemma no_bad_h2b_era : bad_h2b_era = []. Proof. vm_compute. reflexivity. Qed.
Lemma no_unmapped_eras : unmapped_eras = []. Proof. vm_compute. reflexivity. Qed.
Lemma no_bad_block_dispatch : bad_block_dispatch = []. Proof. vm_compute. reflexivity. Qed.
Lemma no_bad_offsets_dispatch : bad_offsets_dispatch = []. Proof. vm_compute. reflexivity. Qed.
Lemma no_offsets_disagree : offsets_disagree = []. Proof. vm_compute. reflexivity. Qed.
Lemma no_bad_header_dispatch : bad_header_dispatch = []. Proof. vm_compute. reflexivity. Qed.
Lemma no_bad_tx_dispatch : bad_tx_dispatch = []. Proof. vm_compute. reflexivity. Qed.
Lemma no_undecoded_fixtures : undecoded_fixtures = []. Proof. vm_compute. reflexivity. Qed.
Lemma no_accepted_unknown_ids : accepted_unknown_ids = []. Proof. vm_compute. reflexivity. Qed.
Lemma no_bad_era_by_id : bad_era_by_id = []. Proof. vm_compute. reflexivity. Qed.

(* ---- helpers ---- *)
Lemma existsb_eqb_In t l : existsb (N.eqb t) l = true <-> In t l.
Proof.
  rewrite existsb_exists. split.
  - intros (x & Hin & E). apply N.eqb_eq in E. now subst.
  - intros Hin. exists t. split; [exact Hin|apply N.eqb_refl].
Qed.

Lemma era_of_block_type_spec t e : era_of_block_type t = Some e -> In e eras /\ In t (e_block_types e).
Proof.
  unfold era_of_block_type. intros H. apply find_some in H. destruct H as [Hin Hb].
  split; [exact Hin|now apply existsb_eqb_In].
Qed.

Lemma find_layout_spec len l : find_layout len = Some l -> In l layouts /\ l_len l = len.
Proof.
  unfold find_layout. intros H. apply find_some in H. destruct H as [Hin Hb].
  split; [exact Hin|now apply N.eqb_eq].
Qed.

Lemma find_exists {A} (f : A -> bool) l x : In x l -> f x = true -> exists y, find f l = Some y.
Proof.
  induction l as [|a r IH]; cbn; intros Hin Hx; [destruct Hin|].
  destruct (f a) eqn:E; [eauto|]. destruct Hin as [->|Hin]; [congruence|auto].
Qed.

Lemma first_match_spec pv cases t : first_match pv cases = Some t ->
  exists c, In c cases /\ in_rng pv c = true /\ ret_of c = t.
Proof.
  unfold first_match. destruct (find (in_rng pv) cases) as [c|] eqn:E; [|discriminate].
  cbn [option_map]. intros H. injection H as H. apply find_some in E. destruct E. eauto.
Qed.

Lemma case_ok_spec l c : In l layouts -> In c (l_cases l) ->
  exists e, era_of_block_type (ret_of c) = Some e /\ e_pv e = Some (fst (fst c), snd (fst c)).
Proof.
  intros Hl Hc. pose proof (flat_map_nil _ _ no_bad_cases l Hl) as Hb. cbn beta in Hb.
  pose proof (bad_nil _ _ Hb c Hc) as Hok. destruct c as [[mn mx] t].
  unfold case_ok in Hok. cbn [ret_of fst snd].
  destruct (era_of_block_type t) as [e|]; [|discriminate].
  destruct (e_pv e) as [[a b]|] eqn:Epv; [|discriminate].
  apply andb_true_iff in Hok. destruct Hok as [Ha Hb']. apply N.eqb_eq in Ha, Hb'. subst.
  exists e. split; [reflexivity|exact Epv].
Qed.

Lemma eras_disjoint pv e e' : In e eras -> In e' eras ->
  era_in_range pv e = true -> era_in_range pv e' = true -> e_id e' = e_id e.
Proof.
  intros He He' Hr Hr'.
  assert (In (e, e') (list_prod eras eras)) as Hp by (apply in_prod; assumption).
  pose proof (bad_nil _ _ no_overlapping_eras _ Hp) as Hok. unfold pair_ok in Hok.
  unfold era_in_range in Hr, Hr'.
  destruct (e_pv e) as [[mn1 mx1]|]; [|discriminate].
  destruct (e_pv e') as [[mn2 mx2]|]; [|discriminate].
  lia.
Qed.

Lemma lookup_In k v l : lookup k l = Some v -> In (k, v) l.
Proof.
  induction l as [|[a b] r IH]; cbn; [discriminate|].
  destruct (a =? k) eqn:E.
  - intros H. injection H as <-. apply N.eqb_eq in E. subst. now left.
  - intros H. right. auto.
Qed.

Lemma opt_eqb_N_eq a b : opt_eqb N.eqb a (Some b) = true -> a = Some b.
Proof. destruct a; cbn; [|discriminate]. intros H. apply N.eqb_eq in H. now subst. Qed.

(* ---- determine ---- *)
Lemma determine_sound len pv t : determine len pv = Some t ->
  exists e, In e eras /\ In t (e_block_types e) /\ era_in_range pv e = true /\
            era_of_block_type t = Some e /\
            forall e', In e' eras -> era_in_range pv e' = true -> e_id e' = e_id e.
Proof.
  unfold determine, determine_hdr. destruct (find_layout len) as [l|] eqn:El; [|discriminate].
  apply find_layout_spec in El. destruct El as [Hl _]. intros Hm.
  apply first_match_spec in Hm. destruct Hm as (c & Hc & Hr & <-).
  destruct (case_ok_spec l c Hl Hc) as (e & He & Hpv).
  destruct (era_of_block_type_spec _ _ He) as [Hin Hbt].
  assert (era_in_range pv e = true) as Hre.
  { unfold era_in_range. rewrite Hpv. destruct c as [[mn mx] t]. exact Hr. }
  exists e. repeat split; auto. intros e' He' Hr'. eapply eras_disjoint; eauto.
Qed.

Lemma determine_complete l c pv : In l layouts -> In c (l_cases l) -> in_rng pv c = true ->
  determine (l_len l) pv = Some (ret_of c).
Proof.
  intros Hl Hc Hr. unfold determine, determine_hdr.
  destruct (find_exists (fun l' => l_len l' =? l_len l) layouts l Hl (N.eqb_refl _)) as (l' & El').
  unfold find_layout. rewrite El'. apply find_some in El'. destruct El' as [Hl' Hlen].
  (* same length: same arm *)
  assert (In (l', l) (list_prod layouts layouts)) as Hp by (apply in_prod; assumption).
  pose proof (bad_nil _ _ no_duplicate_layouts _ Hp) as Hdup. unfold layout_pair_ok in Hdup.
  rewrite Hlen in Hdup. cbn [negb orb] in Hdup.
  apply andb_true_iff in Hdup. destruct Hdup as [_ Hcases].
  assert (l_cases l' = l_cases l) as Ecs.
  { apply (list_eqb_eq _) in Hcases; [exact Hcases|].
    intros [[a b] t1] [[a' b'] t2]. cbn. rewrite !andb_true_iff, !N.eqb_eq. split.
    - intros [[-> ->] ->]. reflexivity.
    - intros Heq. injection Heq as -> -> ->. auto. }
  rewrite Ecs. unfold first_match.
  destruct (find_exists (in_rng pv) (l_cases l) c Hc Hr) as (c' & Ec'). rewrite Ec'. cbn.
  apply find_some in Ec'. destruct Ec' as [Hc' Hr'].
  pose proof (flat_map_nil _ _ no_ambiguous_cases l Hl) as Hamb. cbn beta in Hamb.
  assert (In (c', c) (list_prod (l_cases l) (l_cases l))) as Hpc by (apply in_prod; assumption).
  pose proof (bad_nil _ _ Hamb _ Hpc) as Hok.
  destruct c as [[mn mx] t], c' as [[mn' mx'] t']. cbn in *. f_equal. lia.
Qed.

Lemma determine_none len pv : determine len pv = None ->
  find_layout len = None \/
  exists l, find_layout len = Some l /\ forall c, In c (l_cases l) -> in_rng pv c = false.
Proof.
  unfold determine, determine_hdr. destruct (find_layout len) as [l|]; [|auto].
  intros H. right. exists l. split; [reflexivity|]. intros c Hc.
  unfold first_match in H. destruct (find (in_rng pv) (l_cases l)) eqn:E; [discriminate|].
  eapply find_none in E; eauto.
Qed.

Lemma every_version_dispatchable e pv : In e eras -> era_in_range pv e = true ->
  exists len t, determine len pv = Some t /\ In t (e_block_types e).
Proof.
  intros He Hr. pose proof (bad_nil _ _ no_undispatched_eras e He) as Hd.
  unfold era_dispatched in Hd. unfold era_in_range in Hr.
  destruct (e_pv e) as [[mn mx]|]; [|discriminate].
  apply existsb_exists in Hd. destruct Hd as (l & Hl & Hc).
  apply existsb_exists in Hc. destruct Hc as ([[a b] t] & Hc & Hok).
  rewrite !andb_true_iff, !N.eqb_eq in Hok. destruct Hok as [[-> ->] Ht].
  apply existsb_eqb_In in Ht.
  exists (l_len l), t. split; [|exact Ht].
  apply (determine_complete l (mn, mx, t) pv Hl Hc). exact Hr.
Qed.

Lemma determine_mapped len pv t : determine len pv = Some t ->
  exists e, era_of_block_type t = Some e /\
            lookup t block_to_header = Some (e_id e) /\ lookup (e_id e) header_to_block = Some t.
Proof.
  unfold determine, determine_hdr. destruct (find_layout len) as [l|] eqn:El; [|discriminate].
  apply find_layout_spec in El. destruct El as [Hl _]. intros Hm.
  apply first_match_spec in Hm. destruct Hm as (c & Hc & _ & <-).
  pose proof (flat_map_nil _ _ no_unmapped_cases l Hl) as Hb. cbn beta in Hb.
  pose proof (bad_nil _ _ Hb c Hc) as Hok. unfold case_mapped in Hok.
  destruct (era_of_block_type (ret_of c)) as [e|]; [|discriminate].
  apply andb_true_iff in Hok. destruct Hok as [H1 H2].
  exists e. split; [reflexivity|]. split; now apply opt_eqb_N_eq.
Qed.

(* ---- the maps ---- *)
Lemma maps_inverse h b : lookup h header_to_block = Some b <-> lookup b block_to_header = Some h.
Proof.
  split; intros H; apply lookup_In in H.
  - pose proof (bad_nil _ _ no_bad_h2b _ H) as Hok. now apply opt_eqb_N_eq in Hok.
  - pose proof (bad_nil _ _ no_bad_b2h _ H) as Hok. now apply opt_eqb_N_eq in Hok.
Qed.

Lemma map_entry_era h b : lookup h header_to_block = Some b ->
  exists e, In e eras /\ e_header_type e = h /\ e_id e = h /\ In b (e_block_types e).
Proof.
  intros H. apply lookup_In in H. pose proof (bad_nil _ _ no_bad_h2b_era _ H) as Hok.
  unfold h2b_era_ok in Hok. apply existsb_exists in Hok. destruct Hok as (e & He & Hok).
  cbn [fst snd] in Hok. rewrite !andb_true_iff, !N.eqb_eq in Hok. destruct Hok as [[E1 E2] E3].
  apply existsb_eqb_In in E3. eauto.
Qed.

(* ---- observed dispatch ---- *)
Lemma block_dispatch_type t name ob : In (t, name, Some ob) block_dispatch ->
  ob_type ob = t /\ exists e, era_of_block_type t = Some e /\ ob_era ob = e_id e /\ ob_hdr_era ob = e_id e.
Proof.
  intros H. pose proof (bad_nil _ _ no_bad_block_dispatch _ H) as Hok. unfold block_obs_ok in Hok.
  apply andb_true_iff in Hok. destruct Hok as [Ht He]. apply N.eqb_eq in Ht.
  destruct (era_of_block_type t) as [e|]; [|discriminate].
  apply andb_true_iff in He. destruct He as [E1 E2]. apply N.eqb_eq in E1, E2. eauto.
Qed.

Lemma offsets_dispatch_type t name ob : In (t, name, Some ob) offsets_dispatch ->
  ob_type ob = t /\ exists e, era_of_block_type t = Some e /\ ob_era ob = e_id e /\ ob_hdr_era ob = e_id e.
Proof.
  intros H. pose proof (bad_nil _ _ no_bad_offsets_dispatch _ H) as Hok. unfold block_obs_ok in Hok.
  apply andb_true_iff in Hok. destruct Hok as [Ht He]. apply N.eqb_eq in Ht.
  destruct (era_of_block_type t) as [e|]; [|discriminate].
  apply andb_true_iff in He. destruct He as [E1 E2]. apply N.eqb_eq in E1, E2. eauto.
Qed.

Lemma header_dispatch_era t name era : In (t, name, Some era) header_dispatch ->
  exists e, era_of_block_type t = Some e /\ era = e_id e.
Proof.
  intros H. pose proof (bad_nil _ _ no_bad_header_dispatch _ H) as Hok. unfold header_obs_ok in Hok.
  destruct (era_of_block_type t) as [e|]; [|discriminate]. apply N.eqb_eq in Hok. eauto.
Qed.

Lemma tx_dispatch_type t name ty : In (t, name, Some ty) tx_dispatch -> ty = t.
Proof.
  intros H. pose proof (bad_nil _ _ no_bad_tx_dispatch _ H) as Hok. unfold tx_obs_ok in Hok. now apply N.eqb_eq in Hok.
Qed.
