(* C43 - draining the pipeline really waits for in-flight blocks: property theorems only.
   Model: coq/C42/Model.v (the tree with fixes/C43-drain-counts-held-items.patch).
   WaitForDrain returns nil exactly when one of its PendingCount() reads
   returns 0, i.e. on the label PCRead 0. *)
From V Require Import Lib.Base C42.Model C42.Tac C42.InvB C42.InvO C42.InvS C42.Safety.

(* At the moment WaitForDrain's read returns 0, every block whose Submit has
   begun has been sent to Results() (so its ApplyFunc call, if any, is over
   and its result is delivered), and no Submit is in progress.  "Submitted
   before the wait began" is a subset of these. *)
Theorem C43_drain_means_finished : forall c ls s s', run c init ls = Some s ->
  step c s (PCRead 0) = Some s' ->
  (forall i, i < nseq s -> finished s i /\ In i (fwdlog s)) /\ tok s = false.
Proof.
  intros c ls s s' H P. pose proof (reach_run c ls init s (reach_init c) H) as R.
  cbn [step] in P. apply guard_some in P. destruct P as (P & _). apply Nat.eqb_eq in P.
  destruct (drained c s R (eq_sym P)) as (F & T). split; [|exact T].
  intros i Hi. split; [apply F; exact Hi|apply (reach_InvR2 c s R), F; exact Hi].
Qed.
Print Assumptions C43_drain_means_finished.

(* ... and whatever happens afterwards, ApplyFunc is never called again for
   any of those blocks: all later calls are for blocks submitted later. *)
Theorem C43_no_apply_after_drain : forall c ls1 ls2 s1 s1' s2, run c init ls1 = Some s1 ->
  step c s1 (PCRead 0) = Some s1' -> run c s1' ls2 = Some s2 ->
  (forall i, i < nseq s1 -> finished s2 i)
  /\ exists later, applied s2 = applied s1 ++ later /\ forall j, In j later -> nseq s1 <= j.
Proof.
  intros c ls1 ls2 s1 s1' s2 H P H2. pose proof (reach_run c ls1 init s1 (reach_init c) H) as R.
  destruct (C43_drain_means_finished c ls1 s1 s1' H P) as (F & _).
  cbn [step] in P. apply guard_some in P. destruct P as (_ & P). injection P as <-.
  apply (finished_below_run c (nseq s1) ls2 s1 s2 R); [|exact H2]. intros i Hi. apply F. exact Hi.
Qed.
Print Assumptions C43_no_apply_after_drain.

(* the clause the unfixed code violated: while a worker of any stage (or the
   apply runner) holds an item, or an item is buffered in the apply stage,
   WaitForDrain cannot return nil *)
Theorem C43_held_items_are_counted : forall c ls s i, run c init ls = Some s ->
  i <= nseq s -> unfinished (loc s i) = true -> step c s (PCRead 0) = None.
Proof.
  intros c ls s i H Hi U. destruct (step c s (PCRead 0)) as [s'|] eqn:P; [exfalso|reflexivity].
  destruct (C43_drain_means_finished c ls s s' H P) as (F & T).
  pose proof (reach_run c ls init s (reach_init c) H) as R.
  destruct (Nat.eq_dec i (nseq s)) as [->|N].
  - destruct (reach_InvB c s R) as (_ & _ & B3 & _). rewrite (B3 T) in U. discriminate.
  - destruct (F i ltac:(lia)) as ([X|X] & _); rewrite X in U; discriminate.
Qed.
Print Assumptions C43_held_items_are_counted.

(* The pinned tree computed PendingCount as
     len(submitChan)+len(decodedChan)+len(validatedChan)+len(pending)+inFlight.
   That formula is refuted by a three-label history: the item sits in a
   decode worker, the legacy count is 0 (WaitForDrain would return nil). *)
Definition legacy_pending (s : state) : nat :=
  cnt (is_ch 0) s + cnt (is_ch 1) s + cnt (is_ch 2) s + cnt is_pend s
  + match rst s with RInApply => 1 | _ => 0 end.
Definition c1 : cfg := {| nD := 1; nV := 0; cap := 4; maxp := 0; dec_ok := fun _ => true; val_ok := fun _ => true |}.
Theorem C43_legacy_count_refuted : exists s,
  run c1 init [SubBegin 0; SubOk 0; WTake 0 0] = Some s
  /\ legacy_pending s = 0 /\ loc s 0 = LW 0 PProc /\ applied s = [] /\ outst s = 1
  /\ run c1 s [WProc 0 0 ROk; WPut 0 0; ATake 0; ANext 0; ABegin 0] <> None.
Proof. eexists. split; [vm_compute; reflexivity|]. vm_compute. repeat split. discriminate. Qed.

(* non-vacuity: a history in which WaitForDrain does return nil, after which a
   later block is applied *)
Example C43_nonvacuous : exists s1 s2,
  run c1 init [SubBegin 0; SubOk 0; WTake 0 0; WProc 0 0 ROk; WPut 0 0; ATake 0; ANext 0; ABegin 0; AEnd 0 false;
               APendStop false; PCRead 1; AFwdSend 0; PCRead 1; AFwdDec 0] = Some s1
  /\ step c1 s1 (PCRead 0) = Some s1
  /\ run c1 s1 [SubBegin 1; SubOk 1; WTake 0 1; WProc 0 1 ROk; WPut 0 1; ATake 1; ANext 1; ABegin 1] = Some s2
  /\ applied s2 = [0; 1].
Proof. eexists. eexists. split; [vm_compute; reflexivity|]. split; [vm_compute; reflexivity|]. split; vm_compute; reflexivity. Qed.
