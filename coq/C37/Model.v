(* C37 - executable model of consensus/threshold.go (and the eligibility test
   used by consensus/leader.go).  Stdlib Z only, so that it runs under
   vm_compute.  big.Int = Z; big.Rat = a pair (num, den) in lowest terms with
   den > 0; big.Float values enter only as observed dyadic rationals.
   NO proofs in this file. *)
From V Require Import Lib.Base.
Local Open Scope Z_scope.

(* ------------------------------------------------------------------ *)
(* Go `for { ... }` loops.  `run body p a` executes at most p iterations of
   body (inl = next state, inr = break with result) and stops as soon as the
   body breaks; it is structural on the binary fuel p, so a fuel of 2^2000
   costs 2000 steps of overhead.  Proofs.v shows that the fuels below are
   never exhausted (result `inl` impossible). *)
Section Loop.
  Context {A R : Type} (body : A -> A + R).
  Fixpoint run (p : positive) (a : A) : A + R :=
    match p with
    | xH => body a
    | xO q => match run q a with inl a' => run q a' | inr r => inr r end
    | xI q => match body a with
              | inl a' => match run q a' with inl a'' => run q a'' | inr r => inr r end
              | inr r => inr r
              end
    end.
End Loop.

(* big.Rat normal form (lowest terms, positive denominator); d <> 0 *)
Definition rnorm (n d : Z) : Z * Z :=
  let g := Z.gcd n d in
  if d <? 0 then (Z.quot (- n) g, Z.quot (- d) g) else (Z.quot n g, Z.quot d g).

(* big.Int.BitLen for n >= 0 *)
Definition bitlen (n : Z) : Z := if n <=? 0 then 0 else Z.log2 n + 1.

(* ------------------------------------------------------------------ *)
(* exactIntegerNthRoot *)
Inductive root_res := Root (r : Z) | NoRoot | RootFuel.

(* Newton step of the first loop: break (inr) when next >= x *)
Definition newton_body (n k x : Z) : Z + Z :=
  let xpow := x ^ (k - 1) in
  let t := Z.quot n xpow in
  let next := Z.quot ((k - 1) * x + t) k in
  if next >=? x then inr x else inl next.
(* for x^k > n { x-- } *)
Definition down_body (n k x : Z) : Z + Z := if x ^ k >? n then inl (x - 1) else inr x.
(* for { next := x+1; if next^k > n break; x = next } *)
Definition up_body (n k x : Z) : Z + Z := if (x + 1) ^ k >? n then inr x else inl (x + 1).

Definition exact_nth_root (n k : Z) : root_res :=
  if n <? 0 then NoRoot
  else if n =? 0 then Root 0
  else if k <=? 0 then NoRoot
  else if k =? 1 then Root n
  else if n =? 1 then Root 1
  else if k >=? bitlen n then NoRoot
  else
    let guess := Z.quot (bitlen n) k + 1 in
    let x0 := 2 ^ guess in
    match run (newton_body n k) (Z.to_pos x0) x0 with
    | inl _ => RootFuel
    | inr x1 =>
      match run (down_body n k) (Z.to_pos (x1 + 1)) x1 with
      | inl _ => RootFuel
      | inr x2 =>
        match run (up_body n k) (Z.to_pos (n + 1)) x2 with
        | inl _ => RootFuel
        | inr x3 => if x3 ^ k =? n then Root x3 else NoRoot
        end
      end
    end.

(* ------------------------------------------------------------------ *)
(* exactOneMinusFPowerSigma: (a, b) = Num, Denom of 1-f *)
Inductive exact_res := Exact (num den : Z) | NotExact | ExactFuel.

Definition exact_pow_sigma (a b pool total : Z) : exact_res :=
  let g := Z.gcd pool total in
  let n := Z.quot pool g in
  let m := Z.quot total g in
  match exact_nth_root a m with
  | Root ra =>
    match exact_nth_root b m with
    | Root rb => let '(pn, pd) := rnorm (ra ^ n) (rb ^ n) in Exact pn pd   (* SetFrac *)
    | NoRoot => NotExact
    | RootFuel => ExactFuel
    end
  | NoRoot => NotExact
  | RootFuel => ExactFuel
  end.

(* exactOneMinusFPowerSigmaThreshold: Some (Some t) = (t, true); Some None = (nil, false) *)
Definition exact_threshold (U a b pool total : Z) : option (option Z) :=
  match exact_pow_sigma a b pool total with
  | Exact pn pd =>
      let '(qn, qd) := rnorm (pd - pn) pd in          (* 1 - power, big.Rat.Sub *)
      Some (Some (Z.quot (U * qn) qd))
  | NotExact => Some None
  | ExactFuel => None
  end.

(* ------------------------------------------------------------------ *)
(* big.Float pieces of thresholdFromBoundedProbability.  A finite big.Float
   is a dyadic rational; here a rational is a pair (n, d), d > 0. *)
Definition scale (n d s : Z) : Z * Z :=
  if s >=? 0 then (n * 2 ^ s, d) else (n, d * 2 ^ (- s)).

(* value of a big.Float given as integer mantissa and exponent: m * 2^e *)
Definition dyadic (m e : Z) : Z * Z := scale m 1 e.

(* big.Float rounding of n/d to a p-bit mantissa.  RNE = ToNearestEven (the
   default), RDN = ToNegativeInf, RUP = ToPositiveInf. *)
Inductive rmode := RNE | RDN | RUP.

Definition rnd (md : rmode) (p : Z) (q : Z * Z) : Z * Z :=
  let '(n, d) := q in
  if n =? 0 then (0, 1) else
  let s := Z.sgn n in
  let an := Z.abs n in
  let e0 := Z.log2 an - Z.log2 d in
  let '(n1, d1) := scale an d (- e0) in
  let e := if n1 >=? d1 then e0 + 1 else e0 in       (* 2^(e-1) <= an/d < 2^e *)
  let '(n2, d2) := scale an d (p - e) in
  let '(m, r) := Z.div_eucl n2 d2 in
  let m' := match md with
            | RNE => if 2 * r <? d2 then m
                     else if 2 * r >? d2 then m + 1
                     else if Z.even m then m else m + 1
            | RDN => if r =? 0 then m else if s <? 0 then m + 1 else m
            | RUP => if r =? 0 then m else if s >? 0 then m + 1 else m
            end in
  scale (s * m') 1 (e - p).

Definition rne := rnd RNE.

Definition qsub (x y : Z * Z) : Z * Z := (fst x * snd y - fst y * snd x, snd x * snd y).
Definition qmul (x y : Z * Z) : Z * Z := (fst x * fst y, snd x * snd y).
Definition qone : Z * Z := (1, 1).
(* big.Float.Int: truncation toward zero *)
Definition qtrunc (x : Z * Z) : Z := Z.quot (fst x) (snd x).

Definition interval_guard_bits := 128.

(* probLo = 1 - hi rounded down, probHi = 1 - lo rounded up (outward; this is
   the code with fixes/C37-outward-rounding.patch; the pinned tree rounds both
   to nearest, which loses the enclosure when hi < 2^-wp) *)
Definition prob_lo (wp : Z) (hi : Z * Z) : Z * Z := rnd RDN wp (qsub qone hi).
Definition prob_hi (wp : Z) (lo : Z * Z) : Z * Z := rnd RUP wp (qsub qone lo).

(* thresholdFromBoundedProbability, given the pair (lo, hi) returned by
   oneMinusFPowerSigmaBounds at this targetBits.  bounded_core returns the two
   truncated ends and whether the three roundings that are exact in the Go
   code when upperBound is a power of two (SetInt and the two Mul by it)
   were exact; that flag is evaluated on every correspondence case and is a
   premise of the decision theorem. *)
Definition qeqb (x y : Z * Z) : bool := fst x * snd y =? fst y * snd x.

Definition bounded_core (U : Z) (lo hi : Z * Z) (target_bits : Z) : (Z * Z) * bool :=
  let wp := target_bits + interval_guard_bits in
  let ub := rne wp (U, 1) in
  let xl := qmul (prob_lo wp hi) ub in
  let xh := qmul (prob_hi wp lo) ub in
  let fl := rne wp xl in
  let fh := rne wp xh in
  ((qtrunc fl, qtrunc fh), qeqb ub (U, 1) && qeqb fl xl && qeqb fh xh).

Definition from_bounded (U : Z) (lo hi : Z * Z) (target_bits : Z) : Z * bool :=
  let c := bounded_core U lo hi target_bits in
  (fst (fst c), fst (fst c) =? snd (fst c)).

Definition mul_exact (U : Z) (lo hi : Z * Z) (target_bits : Z) : bool :=
  snd (bounded_core U lo hi target_bits).

(* ------------------------------------------------------------------ *)
(* escalateThreshold.  oracle tb = the (lo, hi) the big.Float kernel returns
   at targetBits = tb; None = the harness recorded nothing for that level.
   The loop doubles targetBits until it reaches cap: at most
   bitlen(cap)+1 iterations when start >= 1. *)
Inductive outcome :=
  | Ret (t : Z)            (* (t, nil) *)
  | ErrMode                (* unknown consensus mode *)
  | ErrDomain              (* activeSlotCoeff > 1 *)
  | ErrUnresolved          (* escalation cap reached *)
  | NoOracle               (* model needs a kernel result that was not recorded *)
  | OutOfFuel.             (* impossible, see Proofs.v *)

Definition oracle_t := Z -> option ((Z * Z) * (Z * Z)).

Fixpoint escalate_loop (fuel : nat) (oracle : oracle_t) (U tb cap : Z) : outcome :=
  match fuel with
  | O => OutOfFuel
  | S fuel' =>
    match oracle tb with
    | None => NoOracle
    | Some (lo, hi) =>
      let '(t, resolved) := from_bounded U lo hi tb in
      if resolved then Ret t
      else if tb >=? cap then ErrUnresolved
      else escalate_loop fuel' oracle U (tb * 2) cap
    end
  end.

Definition escalate_fuel (start cap : Z) : nat := Z.to_nat (bitlen cap) + 2.

Definition escalate (oracle : oracle_t) (U start cap : Z) : outcome :=
  escalate_loop (escalate_fuel start cap) oracle U start cap.

(* ------------------------------------------------------------------ *)
(* CertifiedNatThresholdWithMode.  f = None is a nil *big.Rat, otherwise
   (num, den) in lowest terms, den > 0.  pool, total are uint64. *)
Definition upper_bound (mode : Z) : option Z :=
  if mode =? 0 then Some (2 ^ 256) else if mode =? 1 then Some (2 ^ 512) else None.

Definition series_target_bits := 576.          (* vrfOutputBitsTPraos + guardBits *)
Definition max_escalation_bits := 16384.       (* 1 << 14 *)

Definition threshold (oracle : oracle_t) (pool total : Z) (f : option (Z * Z)) (mode : Z) : outcome :=
  match upper_bound mode with
  | None => ErrMode
  | Some U =>
    match f with
    | None => Ret 0
    | Some (fn, fd) =>
      if fn <=? 0 then Ret 0                       (* Sign() <= 0 *)
      else if fn >? fd then ErrDomain              (* Cmp(1) > 0 *)
      else if total =? 0 then Ret 0
      else if pool =? 0 then Ret 0
      else
        let pool := if pool >? total then total else pool in
        if fn =? fd then Ret U                     (* f == 1 *)
        else
          let '(a, b) := rnorm (fd - fn) fd in     (* 1 - f *)
          match exact_threshold U a b pool total with
          | None => OutOfFuel
          | Some (Some t) => Ret t
          | Some None => escalate oracle U series_target_bits max_escalation_bits
          end
    end
  end.

(* ------------------------------------------------------------------ *)
(* Eligibility: VRFOutputToInt, IsVRFOutputBelowThresholdWithMode,
   IsSlotLeaderFromComponentsWithMode.  H = Blake2b-256. *)
Definition nat_of_bytes (bs : bytes) : Z :=
  fold_left (fun acc b => acc * 256 + Z.of_N b) bs 0.

Section Eligibility.
  Variable H : bytes -> bytes.

  (* VrfLeaderValue for Praos ("L" = 0x4c prefix), raw output for TPraos *)
  Definition leader_value (mode : Z) (out : bytes) : bytes :=
    if mode =? 0 then H (76%N :: out) else out.

  (* None = error (unknown mode); t = None is a nil threshold *)
  Definition below (out : bytes) (t : option Z) (mode : Z) : option bool :=
    if negb ((mode =? 0) || (mode =? 1)) then None
    else match t with
         | None => Some false
         | Some t =>
           match out with
           | [] => Some false
           | _ => Some (nat_of_bytes (leader_value mode out) <? t)
           end
         end.

  (* IsSlotLeaderFromComponentsWithMode: inl b = (b, nil); inr o = (false, err)
     with the error outcome of the threshold computation *)
  Definition leader_from_components (oracle : oracle_t) (out : bytes)
             (pool total : Z) (f : option (Z * Z)) (mode : Z) : bool + outcome :=
    if negb ((mode =? 0) || (mode =? 1)) then inr ErrMode
    else match f with
    | None => inl false
    | Some _ =>
      if (total =? 0) || (pool =? 0) then inl false
      else if negb (Z.of_nat (length out) =? 64) then inl false
      else match threshold oracle pool total f mode with
           | Ret t => match below out (Some t) mode with
                      | Some b => inl b
                      | None => inr ErrMode
                      end
           | o => inr o
           end
    end.
End Eligibility.

(* ------------------------------------------------------------------ *)
(* Correspondence cases: inputs and the outputs the implementation produced *)
Definition table := list (Z * ((Z * Z) * (Z * Z))).   (* targetBits -> (lo, hi) as (mantissa, exponent) pairs *)
Definition oracle_of (tbl : table) : oracle_t :=
  fun tb => match find (fun e => fst e =? tb) tbl with
            | Some (_, ((lm, le), (hm, he))) => Some (dyadic lm le, dyadic hm he)
            | None => None
            end.

(* observable projection of an outcome: 0 ok (with value), 1 mode, 2 domain,
   3 unresolved; the model-only outcomes map to 8/9 and never match *)
Definition obs (o : outcome) : Z * Z :=
  match o with
  | Ret t => (0, t) | ErrMode => (1, 0) | ErrDomain => (2, 0) | ErrUnresolved => (3, 0)
  | NoOracle => (8, 0) | OutOfFuel => (9, 0)
  end.

Definition pair_eqb (x y : Z * Z) : bool := (fst x =? fst y) && (snd x =? snd y).
Definition optZ_eqb := opt_eqb Z.eqb.

Inductive case :=
  (* exactIntegerNthRoot n k = res *)
  | CRoot (n k : Z) (res : option Z)
  (* exactOneMinusFPowerSigma a/b pool total = Some (num, den) | None *)
  | CPow (a b pool total : Z) (res : option (Z * Z))
  (* exactOneMinusFPowerSigmaThreshold *)
  | CExact (U a b pool total : Z) (res : option Z)
  (* thresholdFromBoundedProbability with the observed kernel interval *)
  | CBounded (U : Z) (lo hi : Z * Z) (tb : Z) (tlo : Z) (resolved : bool)
  (* escalateThreshold with the observed kernel intervals per level *)
  | CEscalate (U : Z) (tbl : table) (start cap : Z) (res : Z * Z)
  (* CertifiedNatThresholdWithMode *)
  | CThreshold (mode : Z) (f : option (Z * Z)) (pool total : Z) (tbl : table) (res : Z * Z)
  (* IsVRFOutputBelowThresholdWithMode; hv = Blake2b-256("L"||out) computed by the harness *)
  | CBelow (mode : Z) (out hv : bytes) (t : option Z) (res : option bool)
  (* IsSlotLeaderFromComponentsWithMode; res: (0,b) = (b,nil), (1,class) = error *)
  | CLeader (mode : Z) (out hv : bytes) (f : option (Z * Z)) (pool total : Z) (tbl : table) (res : Z * Z).

Definition check_case (c : case) : bool :=
  match c with
  | CRoot n k res =>
      match exact_nth_root n k with
      | Root r => optZ_eqb (Some r) res
      | NoRoot => optZ_eqb None res
      | RootFuel => false
      end
  | CPow a b pool total res =>
      match exact_pow_sigma a b pool total with
      | Exact pn pd => opt_eqb pair_eqb (Some (pn, pd)) res
      | NotExact => opt_eqb pair_eqb None res
      | ExactFuel => false
      end
  | CExact U a b pool total res =>
      match exact_threshold U a b pool total with
      | Some r => optZ_eqb r res
      | None => false
      end
  | CBounded U (lm, le) (hm, he) tb tlo resolved =>
      let c := bounded_core U (dyadic lm le) (dyadic hm he) tb in
      (fst (fst c) =? tlo) && Bool.eqb (fst (fst c) =? snd (fst c)) resolved && snd c
  | CEscalate U tbl start cap res =>
      pair_eqb (obs (escalate (oracle_of tbl) U start cap)) res
  | CThreshold mode f pool total tbl res =>
      pair_eqb (obs (threshold (oracle_of tbl) pool total f mode)) res
  | CBelow mode out hv t res =>
      opt_eqb Bool.eqb (below (fun _ => hv) out t mode) res
  | CLeader mode out hv f pool total tbl res =>
      match leader_from_components (fun _ => hv) (oracle_of tbl) out pool total f mode with
      | inl b => pair_eqb (0, if b then 1 else 0) res
      | inr o => pair_eqb (1, fst (obs o)) res
      end
  end.

Definition mismatches := failing check_case.
