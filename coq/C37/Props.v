(* C37 - property theorems only.  Spec.v: thr k f sigma = floor (2^k * (1 - (1-f)^sigma))
   over the reals; Model.v: transcription of consensus/threshold.go. *)
From Coq Require Import Reals.
From Flocq Require Import Core.Raux.
From V Require Import Lib.Base C37.Model C37.Proofs C37.Spec C37.RealProofs C37.Link.
Local Open Scope Z_scope.

(* Main statement.  For every mode, stakes (any naturals, in particular the
   whole uint64 range) and coefficient fn/fd (fd > 0), and every behaviour
   of the big.Float kernel (oracle) whose interval [lo,hi] contains
   (1-f)^sigma at the levels consulted (kernel_sound):
   a returned threshold is the exact floor of the Praos formula (0 for a
   negative coefficient, which is outside the property's domain [0,1]);
   the domain error is returned exactly for f > 1; the only other error
   (escalation cap) can occur only for 0 < f < 1 on the general path; the
   model never runs out of fuel. *)
Theorem C37_threshold : forall oracle pool total fn fd mode k,
  mode_bits mode = Some k -> 0 <= pool -> 0 <= total -> 0 < fd ->
  kernel_sound (2 ^ k) oracle (rpow (1 - ratR fn fd) (sigma_of pool total)) ->
  match threshold oracle pool total (Some (fn, fd)) mode with
  | Ret t => if fn <? 0 then t = 0 else t = thr k (ratR fn fd) (sigma_of pool total)
  | ErrDomain => fd < fn
  | ErrUnresolved => 0 < fn < fd /\ 0 < pool /\ 0 < total
  | NoOracle => 0 < fn < fd /\ 0 < pool /\ 0 < total
  | ErrMode => False
  | OutOfFuel => False
  end.
Proof. exact threshold_correct_kernel. Qed.
Print Assumptions C37_threshold.

(* Guards: these branches never consult the kernel (any oracle). *)
Theorem C37_guards : forall oracle pool total fn fd mode k,
  mode_bits mode = Some k -> 0 <= pool -> 0 <= total -> 0 < fd ->
  (fn <= 0 -> threshold oracle pool total (Some (fn, fd)) mode = Ret 0) /\
  (fd < fn -> threshold oracle pool total (Some (fn, fd)) mode = ErrDomain) /\
  (0 < fn <= fd -> (total = 0 \/ pool = 0) ->
     threshold oracle pool total (Some (fn, fd)) mode = Ret 0) /\
  (fn = fd -> 0 < pool -> 0 < total ->
     threshold oracle pool total (Some (fn, fd)) mode = Ret (2 ^ k) /\
     thr k (ratR fn fd) (sigma_of pool total) = 2 ^ k) /\
  (0 < total < pool ->
     threshold oracle pool total (Some (fn, fd)) mode =
     threshold oracle total total (Some (fn, fd)) mode) /\
  threshold oracle pool total None mode = Ret 0.
Proof.
  intros oracle pool total fn fd mode k Hm Hp Ht Hfd.
  destruct (upper_of_bits mode k Hm) as [HU _].
  repeat split.
  - intros H. unfold threshold. rewrite HU. destruct (Z.leb_spec fn 0); [reflexivity|lia].
  - intros H. unfold threshold. rewrite HU. destruct (Z.leb_spec fn 0); [lia|].
    destruct (Z.gtb_spec fn fd); [reflexivity|lia].
  - intros H H0. unfold threshold. rewrite HU. destruct (Z.leb_spec fn 0); [lia|].
    destruct (Z.gtb_spec fn fd); [lia|].
    destruct (Z.eqb_spec total 0); [reflexivity|]. destruct (Z.eqb_spec pool 0); [reflexivity|lia].
  - subst fn. unfold threshold. rewrite HU. destruct (Z.leb_spec fd 0); [lia|].
    destruct (Z.gtb_spec fd fd); [lia|].
    destruct (Z.eqb_spec total 0); [lia|]. destruct (Z.eqb_spec pool 0); [lia|].
    rewrite Z.eqb_refl. reflexivity.
  - subst fn.
    assert (E1 : ratR fd fd = 1%R) by (unfold ratR; field; apply IZR_neq; lia).
    rewrite E1. apply thr_f1.
    pose proof (sigma_of_pos pool total ltac:(lia) ltac:(lia)). intros E. rewrite E in *.
    exact (Rlt_irrefl 0 ltac:(assumption)).
  - intros H. unfold threshold. rewrite HU.
    destruct (fn <=? 0); [reflexivity|]. destruct (fn >? fd); [reflexivity|].
    destruct (Z.eqb_spec total 0); [lia|]. destruct (Z.eqb_spec pool 0); [lia|].
    destruct (Z.gtb_spec pool total); [|lia]. destruct (Z.gtb_spec total total); [lia|]. reflexivity.
  - apply (threshold_nil oracle pool total mode k Hm).
Qed.
Print Assumptions C37_guards.

Theorem C37_bad_mode : forall oracle pool total f mode,
  mode_bits mode = None -> threshold oracle pool total f mode = ErrMode.
Proof. exact threshold_badmode. Qed.

(* exactIntegerNthRoot decides perfect k-th powers, for every n >= 0, k > 0,
   and its three unbounded Go loops terminate (fuel never exhausted). *)
Theorem C37_nth_root : forall n k r, 0 <= n -> 0 < k ->
  (exact_nth_root n k = Root r <-> 0 <= r /\ r ^ k = n).
Proof. exact exact_nth_root_correct. Qed.
Print Assumptions C37_nth_root.

Theorem C37_nth_root_terminates : forall n k, exact_nth_root n k <> RootFuel.
Proof. exact exact_nth_root_fuel. Qed.

(* The exact-rational fast path: whatever it returns is the exact floor. *)
Theorem C37_exact : forall U a b pool total t,
  0 <= U -> 0 < a -> a <= b -> 0 < pool -> pool <= total ->
  exact_threshold U a b pool total = Some (Some t) ->
  t = Zfloor (IZR U * (1 - rpow (IZR a / IZR b) (IZR pool / IZR total))).
Proof. exact exact_sound. Qed.
Print Assumptions C37_exact.

(* The decision step of thresholdFromBoundedProbability (with outward
   rounding of 1-hi and 1-lo): if the kernel interval contains w = (1-f)^sigma
   and the two truncated ends agree, the value is the exact floor. *)
Theorem C37_decide : forall U lo hi tb t (w : R),
  0 < snd lo -> 0 < snd hi ->
  mul_exact U lo hi tb = true ->
  from_bounded U lo hi tb = (t, true) ->
  0 <= U -> (w <= 1)%R ->
  (qval lo <= w <= qval hi)%R ->
  t = Zfloor (IZR U * (1 - w)).
Proof. exact decide_sound_kernel. Qed.
(* outward rounding: probLo <= 1 - hi and 1 - lo <= probHi at every precision *)
Theorem C37_outward : forall wp lo hi, 0 < snd lo -> 0 < snd hi ->
  (qval (prob_lo wp hi) <= 1 - qval hi)%R /\ (1 - qval lo <= qval (prob_hi wp lo))%R.
Proof. exact prob_bounds. Qed.
Print Assumptions C37_decide.

(* Monotonicity of the specified threshold. *)
Theorem C37_monotone_sigma : forall k f s1 s2,
  (0 <= f <= 1)%R -> (0 <= s1 <= s2)%R -> thr k f s1 <= thr k f s2.
Proof. exact thr_monotone_sigma. Qed.
Theorem C37_monotone_stake : forall k f pool1 pool2 total,
  (0 <= f <= 1)%R -> 0 <= pool1 <= pool2 -> 0 < total ->
  thr k f (sigma_of pool1 total) <= thr k f (sigma_of pool2 total).
Proof.
  intros k f p1 p2 total Hf Hp Ht. apply thr_monotone_sigma; [exact Hf|]. split.
  - apply sigma_of_range; lia.
  - apply sigma_of_mono; assumption.
Qed.
Theorem C37_monotone_f : forall k f1 f2 s,
  (0 <= f1 <= f2)%R -> (f2 <= 1)%R -> (0 <= s)%R -> thr k f1 s <= thr k f2 s.
Proof. exact thr_monotone_f. Qed.
Print Assumptions C37_monotone_f.
Theorem C37_range : forall k f s, (0 <= f <= 1)%R -> (0 <= s)%R -> 0 <= thr k f s <= 2 ^ k.
Proof. exact thr_range. Qed.

(* Eligibility: the verdict is "leader value < exact threshold", for every
   hash function H in the place of Blake2b-256. *)
Theorem C37_eligible : forall (H : bytes -> bytes) out t mode k b,
  mode_bits mode = Some k -> out <> [] ->
  below H out (Some t) mode = Some b ->
  (b = true <-> nat_of_bytes (leader_value H mode out) < t).
Proof. exact below_spec. Qed.
Theorem C37_leader : forall (H : bytes -> bytes) oracle out pool total fn fd mode k b,
  mode_bits mode = Some k -> 0 < pool -> 0 < total -> 0 < fd -> 0 <= fn ->
  length out = 64%nat ->
  kernel_sound (2 ^ k) oracle (rpow (1 - ratR fn fd) (sigma_of pool total)) ->
  leader_from_components H oracle out pool total (Some (fn, fd)) mode = inl b ->
  (b = true <-> nat_of_bytes (leader_value H mode out) < thr k (ratR fn fd) (sigma_of pool total)).
Proof. exact leader_correct. Qed.
Print Assumptions C37_leader.

(* What one per-sample certificate (checked by `interval`) establishes. *)
Theorem C37_certificate : forall (k U fn fd a pool total p T : Z),
  U = 2 ^ k -> 0 < fn < fd -> a = fd - fn ->
  0 < pool -> 0 < total -> p = Z.min pool total ->
  (IZR T <= IZR U * (1 - exp (IZR p / IZR total * ln (IZR a / IZR fd))) < IZR T + 1)%R ->
  thr k (ratR fn fd) (sigma_of pool total) = T.
Proof. exact thr_certificate. Qed.
Print Assumptions C37_certificate.

(* ------------------------------------------------------------------ *)
(* non-vacuity *)
(* the exact path fires: f = 3/4, sigma = 1/2 gives exactly 2^255 *)
Example C37_exact_fires : exact_threshold (2 ^ 256) 1 4 1 2 = Some (Some (2 ^ 255)).
Proof. vm_compute. reflexivity. Qed.
(* a root is found and a non-root is refused *)
Example C37_root_ex : exact_nth_root (3 ^ 40) 20 = Root 9 /\ exact_nth_root (3 ^ 40 + 1) 20 = NoRoot.
Proof. split; vm_compute; reflexivity. Qed.
(* a sound oracle exists for a resolved decision: lo = hi = 1/2 (v = 1/2) *)
Example C37_decide_ex :
  mul_exact (2 ^ 256) (1, 2) (1, 2) 576 = true /\
  from_bounded (2 ^ 256) (1, 2) (1, 2) 576 = (2 ^ 255, true).
Proof. split; vm_compute; reflexivity. Qed.
(* and an unresolved one: the interval [1/2 - 2^-300, 1/2 + 2^-300] straddles 2^255 *)
Example C37_unresolved_ex :
  snd (from_bounded (2 ^ 256) (2 ^ 299 - 1, 2 ^ 300) (2 ^ 299 + 1, 2 ^ 300) 576) = false.
Proof. vm_compute. reflexivity. Qed.
(* why the fix is needed: with round-to-nearest (the pinned tree) an interval
   around w = 2^-800 at 576 bits rounds both 1-hi and 1-lo to exactly 1 and
   "resolves" to 2^256, although floor (2^256 * (1 - w)) = 2^256 - 1; with
   outward rounding the same interval is unresolved (and escalates) *)
Example C37_nearest_rounding_refuted :
  let lo := (2 ^ 100 - 1, 2 ^ 900) in let hi := (2 ^ 100 + 1, 2 ^ 900) in
  qtrunc (qmul (rne 704 (qsub qone hi)) (2 ^ 256, 1)) = 2 ^ 256 /\
  qtrunc (qmul (rne 704 (qsub qone lo)) (2 ^ 256, 1)) = 2 ^ 256 /\
  from_bounded (2 ^ 256) lo hi 576 = (2 ^ 256 - 1, false).
Proof. vm_compute. repeat split; reflexivity. Qed.
(* the main theorem's hypotheses are satisfiable on a guard path and the
   conclusion is not trivial there: f = 1 gives 2^256 *)
Example C37_threshold_ex :
  threshold (fun _ => None) 5 7 (Some (1, 1)) 0 = Ret (2 ^ 256).
Proof. vm_compute. reflexivity. Qed.
