(* C37 - the model (Model.v, integers) meets the specification (Spec.v, reals):
   exact fast path, floor decision on the kernel interval, the whole of
   CertifiedNatThresholdWithMode, eligibility. *)
From Coq Require Import Reals Lra.
From Flocq Require Import Core.Raux.
From V Require Import Lib.Base C37.Model C37.Proofs C37.Spec C37.RealProofs.
Local Open Scope Z_scope.

(* value of a rational given as a pair *)
Definition qval (x : Z * Z) : R := (IZR (fst x) / IZR (snd x))%R.

Lemma scale_den_pos n d s : 0 < d -> 0 < snd (scale n d s).
Proof.
  intros Hd. unfold scale. destruct (Z.geb_spec s 0); cbn [snd]; [exact Hd|].
  assert (0 < 2 ^ (- s)) by (apply pow_pos_base; lia). nia.
Qed.

Lemma rnd_den_pos md p q : 0 < snd (rnd md p q).
Proof.
  unfold rnd. destruct q as [n d]. destruct (n =? 0); [cbn; lia|].
  destruct (scale (Z.abs n) d (- (Z.log2 (Z.abs n) - Z.log2 d))) as [n1 d1].
  destruct (scale (Z.abs n) d _) as [n2 d2]. destruct (Z.div_eucl n2 d2) as [m r].
  apply scale_den_pos. lia.
Qed.

Lemma rne_den_pos p q : 0 < snd (rne p q).
Proof. apply rnd_den_pos. Qed.

Lemma qeqb_val x y : 0 < snd x -> 0 < snd y -> qeqb x y = true -> qval x = qval y.
Proof.
  intros Hx Hy E. unfold qeqb in E. apply Z.eqb_eq in E. unfold qval.
  destruct x as [a b], y as [c d]. cbn [fst snd] in *.
  assert (Pb : (0 < IZR b)%R) by (apply IZR_lt; assumption).
  assert (Pd : (0 < IZR d)%R) by (apply IZR_lt; assumption).
  assert (H : (IZR a * IZR d = IZR c * IZR b)%R) by (rewrite <- !mult_IZR; f_equal; exact E).
  replace (IZR a / IZR b)%R with ((IZR a * IZR d) / (IZR b * IZR d))%R by (field; split; lra).
  rewrite H. field. split; lra.
Qed.

Lemma qmul_val x y : 0 < snd x -> 0 < snd y -> qval (qmul x y) = (qval x * qval y)%R.
Proof.
  intros Hx Hy. unfold qval, qmul. cbn [fst snd]. rewrite !mult_IZR.
  apply IZR_lt in Hx, Hy. field. split; lra.
Qed.

(* ------------------------------------------------------------------ *)
(* thresholdFromBoundedProbability: if the two truncations agree, the value
   is the floor of U*v for every v >= 0 enclosed by [probLo, probHi] *)
Theorem decide_sound U lo hi tb t (v : R) :
  mul_exact U lo hi tb = true ->
  from_bounded U lo hi tb = (t, true) ->
  0 <= U -> (0 <= v)%R ->
  (qval (prob_lo (tb + 128) hi) <= v <= qval (prob_hi (tb + 128) lo))%R ->
  t = Zfloor (IZR U * v).
Proof.
  intros Hex Hfb HU Hv [Hlo Hhi].
  unfold mul_exact, from_bounded, bounded_core, interval_guard_bits in *. cbv zeta in *. cbn [fst snd] in *.
  set (wp := tb + 128) in *.
  set (ub := rne wp (U, 1)) in *.
  set (pl := prob_lo wp hi) in *. set (ph := prob_hi wp lo) in *.
  set (L := rne wp (qmul pl ub)) in *. set (Hh := rne wp (qmul ph ub)) in *.
  apply andb_true_iff in Hex. destruct Hex as [Hex E3]. apply andb_true_iff in Hex. destruct Hex as [E1 E2].
  assert (Dub : 0 < snd ub) by apply rne_den_pos.
  assert (Dpl : 0 < snd pl) by apply rnd_den_pos.
  assert (Dph : 0 < snd ph) by apply rnd_den_pos.
  assert (DL : 0 < snd L) by apply rne_den_pos.
  assert (DH : 0 < snd Hh) by apply rne_den_pos.
  assert (Vub : qval ub = IZR U).
  { rewrite (qeqb_val ub (U, 1) Dub ltac:(cbn; lia) E1). unfold qval. cbn [fst snd]. field. }
  assert (VL : qval L = (qval pl * IZR U)%R).
  { rewrite (qeqb_val L (qmul pl ub) DL ltac:(cbn [qmul snd]; nia) E2).
    rewrite qmul_val by assumption. rewrite Vub. reflexivity. }
  assert (VH : qval Hh = (qval ph * IZR U)%R).
  { rewrite (qeqb_val Hh (qmul ph ub) DH ltac:(cbn [qmul snd]; nia) E3).
    rewrite qmul_val by assumption. rewrite Vub. reflexivity. }
  injection Hfb as Et Eeq. apply Z.eqb_eq in Eeq. unfold qtrunc in *.
  rewrite <- Et.
  assert (PU : (0 <= IZR U)%R) by (apply IZR_le; assumption).
  apply decide_floor with (nh := fst Hh) (dh := snd Hh); try assumption.
  - apply Rmult_le_pos; assumption.
  - fold (qval L). fold (qval Hh). rewrite VL, VH. split.
    + rewrite Rmult_comm. apply Rmult_le_compat_l; assumption.
    + rewrite (Rmult_comm (qval ph)). apply Rmult_le_compat_l; assumption.
Qed.

(* ------------------------------------------------------------------ *)
(* outward rounding keeps the enclosure: RDN never exceeds, RUP never
   undercuts the exact value (this is what the fix relies on) *)
Lemma qle_val x y : 0 < snd x -> 0 < snd y -> fst x * snd y <= fst y * snd x -> (qval x <= qval y)%R.
Proof.
  intros Hx Hy E. unfold qval. destruct x as [a b], y as [c d]. cbn [fst snd] in *.
  assert (Pb : (0 < IZR b)%R) by (apply IZR_lt; assumption).
  assert (Pd : (0 < IZR d)%R) by (apply IZR_lt; assumption).
  assert (H : (IZR a * IZR d <= IZR c * IZR b)%R) by (rewrite <- !mult_IZR; apply IZR_le; exact E).
  apply (Rmult_le_reg_r (IZR b * IZR d)); [apply Rmult_lt_0_compat; assumption|].
  replace (IZR a / IZR b * (IZR b * IZR d))%R with (IZR a * IZR d)%R by (field; lra).
  replace (IZR c / IZR d * (IZR b * IZR d))%R with (IZR c * IZR b)%R by (field; lra).
  exact H.
Qed.

Lemma rnd_directed p n d : 0 < d ->
  fst (rnd RDN p (n, d)) * d <= n * snd (rnd RDN p (n, d)) /\
  n * snd (rnd RUP p (n, d)) <= fst (rnd RUP p (n, d)) * d.
Proof.
  intros Hd. unfold rnd. destruct (Z.eqb_spec n 0) as [->|Hn]; [cbn; lia|].
  destruct (scale (Z.abs n) d (- (Z.log2 (Z.abs n) - Z.log2 d))) as [n1 d1].
  set (e := if n1 >=? d1 then Z.log2 (Z.abs n) - Z.log2 d + 1 else Z.log2 (Z.abs n) - Z.log2 d).
  clearbody e. clear n1 d1.
  unfold scale.
  destruct (Z.geb_spec (p - e) 0) as [G1|G1]; destruct (Z.geb_spec (e - p) 0) as [G2|G2]; try lia.
  - (* p = e *)
    replace (p - e) with 0 by lia. replace (e - p) with 0 by lia. rewrite Z.pow_0_r, !Z.mul_1_r.
    pose proof (Z_div_mod (Z.abs n) d ltac:(lia)) as DM.
    destruct (Z.div_eucl (Z.abs n) d) as [m r]. destruct DM as [DM MB]. cbn [fst snd].
    destruct (Z.eqb_spec r 0); destruct (Z.ltb_spec (Z.sgn n) 0); destruct (Z.gtb_spec (Z.sgn n) 0);
      split; nia.
  - (* p > e: scaled up *)
    replace (- (e - p)) with (p - e) by lia.
    assert (HW : 0 < 2 ^ (p - e)) by (apply pow_pos_base; lia).
    set (W := 2 ^ (p - e)) in *.
    pose proof (Z_div_mod (Z.abs n * W) d ltac:(lia)) as DM.
    destruct (Z.div_eucl (Z.abs n * W) d) as [m r]. destruct DM as [DM MB]. cbn [fst snd].
    destruct (Z.eqb_spec r 0); destruct (Z.ltb_spec (Z.sgn n) 0); destruct (Z.gtb_spec (Z.sgn n) 0);
      split; nia.
  - (* p < e: scaled down *)
    replace (- (p - e)) with (e - p) by lia.
    assert (HW : 0 < 2 ^ (e - p)) by (apply pow_pos_base; lia).
    set (W := 2 ^ (e - p)) in *.
    assert (HdW : 0 < d * W) by nia.
    pose proof (Z_div_mod (Z.abs n) (d * W) ltac:(lia)) as DM.
    destruct (Z.div_eucl (Z.abs n) (d * W)) as [m r]. destruct DM as [DM MB]. cbn [fst snd].
    destruct (Z.eqb_spec r 0); destruct (Z.ltb_spec (Z.sgn n) 0); destruct (Z.gtb_spec (Z.sgn n) 0);
      split; nia.
Qed.

Lemma qsub_one_val y : 0 < snd y -> qval (qsub qone y) = (1 - qval y)%R.
Proof.
  intros Hy. unfold qval, qsub, qone. cbn [fst snd]. apply IZR_lt in Hy.
  rewrite minus_IZR, !mult_IZR. field. lra.
Qed.

(* probLo <= 1 - hi and 1 - lo <= probHi, for every precision *)
Lemma prob_bounds wp lo hi : 0 < snd lo -> 0 < snd hi ->
  (qval (prob_lo wp hi) <= 1 - qval hi)%R /\ (1 - qval lo <= qval (prob_hi wp lo))%R.
Proof.
  intros Hlo Hhi. unfold prob_lo, prob_hi.
  rewrite <- (qsub_one_val hi Hhi), <- (qsub_one_val lo Hlo).
  assert (Dh : 0 < snd (qsub qone hi)) by (unfold qsub, qone; cbn [fst snd]; lia).
  assert (Dl : 0 < snd (qsub qone lo)) by (unfold qsub, qone; cbn [fst snd]; lia).
  destruct (qsub qone hi) as [nh dh] eqn:Eh. destruct (qsub qone lo) as [nl dl] eqn:El.
  cbn [snd] in Dh, Dl.
  destruct (rnd_directed wp nh dh Dh) as [A _]. destruct (rnd_directed wp nl dl Dl) as [_ B].
  split; apply qle_val; cbn [fst snd]; try apply rnd_den_pos; try assumption; lia.
Qed.

(* the decision step, with the enclosure hypothesis on the kernel's own
   interval [lo, hi] around w = (1-f)^sigma *)
Theorem decide_sound_kernel U lo hi tb t (w : R) :
  0 < snd lo -> 0 < snd hi ->
  mul_exact U lo hi tb = true ->
  from_bounded U lo hi tb = (t, true) ->
  0 <= U -> (w <= 1)%R ->
  (qval lo <= w <= qval hi)%R ->
  t = Zfloor (IZR U * (1 - w)).
Proof.
  intros Dlo Dhi Hex Hfb HU Hw [Hl Hh].
  destruct (prob_bounds (tb + 128) lo hi Dlo Dhi) as [B1 B2].
  eapply decide_sound; eauto; lra.
Qed.

(* soundness of the kernel at the levels the model consults, stated on the
   interval returned by oneMinusFPowerSigmaBounds *)
Definition kernel_sound (U : Z) (oracle : oracle_t) (w : R) : Prop :=
  forall tb lo hi, oracle tb = Some (lo, hi) ->
    0 < snd lo /\ 0 < snd hi /\ mul_exact U lo hi tb = true /\ (qval lo <= w <= qval hi)%R.

(* the kernel results the model consults are sound for the real value v *)
Definition oracle_sound (U : Z) (oracle : oracle_t) (v : R) : Prop :=
  forall tb lo hi, oracle tb = Some (lo, hi) ->
    mul_exact U lo hi tb = true /\
    (qval (prob_lo (tb + 128) hi) <= v <= qval (prob_hi (tb + 128) lo))%R.

Lemma escalate_sound oracle U start cap t (v : R) :
  escalate oracle U start cap = Ret t ->
  oracle_sound U oracle v -> 0 <= U -> (0 <= v)%R ->
  t = Zfloor (IZR U * v).
Proof.
  intros E Hs HU Hv. unfold escalate in E.
  apply escalate_loop_ret in E. destruct E as (tb & lo & hi & Eo & Ef).
  destruct (Hs tb lo hi Eo) as [Hex Henc].
  eapply decide_sound; eauto.
Qed.

Lemma escalate_loop_cases oracle U cap : forall f tb,
  (exists t, escalate_loop f oracle U tb cap = Ret t) \/
  escalate_loop f oracle U tb cap = ErrUnresolved \/
  escalate_loop f oracle U tb cap = NoOracle \/
  escalate_loop f oracle U tb cap = OutOfFuel.
Proof.
  induction f as [|f IH]; intros tb; cbn [escalate_loop]; [auto|].
  destruct (oracle tb) as [[lo hi]|]; [|auto].
  destruct (from_bounded U lo hi tb) as [t [|]]; [left; eauto|].
  destruct (tb >=? cap); [auto|apply IH].
Qed.

Lemma kernel_oracle_sound U oracle w : kernel_sound U oracle w -> oracle_sound U oracle (1 - w).
Proof.
  intros K tb lo hi E. destruct (K tb lo hi E) as (Dlo & Dhi & Hex & Hl & Hh).
  split; [exact Hex|]. destruct (prob_bounds (tb + 128) lo hi Dlo Dhi) as [B1 B2]. lra.
Qed.

(* ------------------------------------------------------------------ *)
(* the exact fast path *)
Lemma ratio_eq (n m pool total : Z) : 0 < m -> 0 < total -> n * total = m * pool ->
  (IZR pool / IZR total = IZR n / IZR m)%R.
Proof.
  intros Hm Ht E. apply IZR_lt in Hm, Ht.
  assert (H : (IZR n * IZR total = IZR m * IZR pool)%R) by (rewrite <- !mult_IZR; f_equal; exact E).
  replace (IZR pool / IZR total)%R with ((IZR m * IZR pool) / (IZR m * IZR total))%R by (field; split; lra).
  rewrite <- H. field. split; lra.
Qed.

Theorem exact_sound U a b pool total t :
  0 <= U -> 0 < a -> a <= b -> 0 < pool -> pool <= total ->
  exact_threshold U a b pool total = Some (Some t) ->
  t = Zfloor (IZR U * (1 - rpow (IZR a / IZR b) (IZR pool / IZR total))).
Proof.
  intros HU Ha Hab Hp Hpt E.
  apply exact_threshold_spec in E; try assumption.
  destruct E as (ra & rb & n & m & Hra & Hrb & Hn & Hm & <- & <- & Enm & ->).
  rewrite (ratio_eq n m pool total) by lia.
  rewrite rpow_exact by lia.
  symmetry. apply floor_scaled. apply pow_pos_base; lia.
Qed.

(* ------------------------------------------------------------------ *)
(* CertifiedNatThresholdWithMode *)
Lemma upper_of_bits mode k : mode_bits mode = Some k -> upper_bound mode = Some (2 ^ k) /\ (k = 256 \/ k = 512).
Proof.
  unfold mode_bits, upper_bound. destruct (mode =? 0); [intros [= <-]; auto|].
  destruct (mode =? 1); [intros [= <-]; auto|discriminate].
Qed.

Lemma ratR_0 d : ratR 0 d = 0%R.
Proof. unfold ratR, Rdiv. apply Rmult_0_l. Qed.

Lemma ratR_range fn fd : 0 <= fn <= fd -> 0 < fd -> (0 <= ratR fn fd <= 1)%R.
Proof.
  intros [H0 H1] Hd. unfold ratR. apply IZR_le in H0, H1. apply IZR_lt in Hd.
  assert (P : (0 < / IZR fd)%R) by (apply Rinv_0_lt_compat; assumption).
  unfold Rdiv. split; [nra|].
  apply (Rmult_le_reg_r (IZR fd)); [assumption|]. rewrite Rmult_assoc, Rinv_l by lra. lra.
Qed.

Theorem threshold_correct oracle pool total fn fd mode k :
  mode_bits mode = Some k -> 0 <= pool -> 0 <= total -> 0 < fd ->
  oracle_sound (2 ^ k) oracle (prob (ratR fn fd) (sigma_of pool total)) ->
  match threshold oracle pool total (Some (fn, fd)) mode with
  | Ret t => if fn <? 0 then t = 0 else t = thr k (ratR fn fd) (sigma_of pool total)
  | ErrDomain => fd < fn
  | ErrUnresolved => 0 < fn < fd /\ 0 < pool /\ 0 < total
  | NoOracle => 0 < fn < fd /\ 0 < pool /\ 0 < total
  | ErrMode => False
  | OutOfFuel => False
  end.
Proof.
  intros Hmode Hp Ht Hfd Hor.
  destruct (upper_of_bits mode k Hmode) as [HU Hk].
  unfold threshold. rewrite HU.
  assert (HU0 : 0 <= 2 ^ k) by (apply Z.pow_nonneg; lia).
  destruct (Z.leb_spec fn 0) as [Hf0|Hf0].
  { destruct (Z.ltb_spec fn 0); [reflexivity|].
    assert (fn = 0) by lia. subst fn. rewrite ratR_0. symmetry. apply thr_f0. }
  destruct (Z.gtb_spec fn fd) as [Hf1|Hf1]; [lia|].
  assert (Hfr : (0 <= ratR fn fd <= 1)%R) by (apply ratR_range; lia).
  destruct (Z.ltb_spec fn 0) as [?|_]; [lia|].
  destruct (Z.eqb_spec total 0) as [->|Ht0].
  { rewrite sigma_of_total0. symmetry. apply thr_sigma0. lra. }
  destruct (Z.eqb_spec pool 0) as [->|Hp0].
  { rewrite sigma_of_0. symmetry. apply thr_sigma0. lra. }
  set (pool' := if pool >? total then total else pool).
  assert (Hp' : 0 < pool' <= total /\ sigma_of pool total = (IZR pool' / IZR total)%R).
  { unfold pool'. destruct (Z.gtb_spec pool total).
    - split; [lia|]. rewrite sigma_of_cap by lia. apply sigma_of_frac; lia.
    - split; [lia|]. apply sigma_of_frac; lia. }
  destruct Hp' as [Hp' Es].
  destruct (Z.eqb_spec fn fd) as [->|Hne].
  { assert (E1 : ratR fd fd = 1%R).
    { unfold ratR. field. apply IZR_neq. lia. }
    rewrite E1. symmetry. apply thr_f1.
    pose proof (sigma_of_pos pool total ltac:(lia) ltac:(lia)). lra. }
  destruct (rnorm (fd - fn) fd) as [a b] eqn:Er.
  destruct (rnorm_spec (fd - fn) fd Hfd) as (g & Hg & Ea & Eb & Hb). rewrite Er in *. cbn [fst snd] in *.
  assert (Ha : 0 < a) by nia. assert (Hab : a <= b) by nia.
  (* a/b = 1 - f *)
  assert (E1f : (1 - ratR fn fd = IZR a / IZR b)%R).
  { unfold ratR. assert (Pb : (0 < IZR b)%R) by (apply IZR_lt; assumption).
    assert (Pg : (0 < IZR g)%R) by (apply IZR_lt; assumption).
    assert (Efd : IZR fd = (IZR g * IZR b)%R) by (rewrite <- mult_IZR; f_equal; exact Eb).
    assert (Efn : IZR fn = (IZR g * IZR b - IZR g * IZR a)%R).
    { rewrite <- !mult_IZR, <- minus_IZR. f_equal. lia. }
    rewrite Efd, Efn. field. split; lra. }
  pose proof (exact_threshold_fuel (2 ^ k) a b pool' total) as Hfuel.
  destruct (exact_threshold (2 ^ k) a b pool' total) as [[t|]|] eqn:Eex; [| |congruence].
  - (* exact fast path *)
    apply exact_sound in Eex; try lia.
    unfold thr, prob. rewrite E1f, Es. exact Eex.
  - (* general path *)
    pose proof (escalate_fuel_ok oracle (2 ^ k) series_target_bits max_escalation_bits
                  ltac:(unfold series_target_bits; lia) ltac:(unfold max_escalation_bits; lia)) as Hnf.
    unfold escalate in *.
    destruct (escalate_loop_cases oracle (2 ^ k) max_escalation_bits
                (escalate_fuel series_target_bits max_escalation_bits) series_target_bits)
      as [[t Et]|[Et|[Et|Et]]]; rewrite Et in *.
    + unfold thr. eapply escalate_sound with (start := series_target_bits); try exact Hor; try assumption.
      * unfold escalate. exact Et.
      * apply prob_range; [assumption|]. apply sigma_of_range; assumption.
    + lia.
    + lia.
    + congruence.
Qed.

(* the same with the soundness hypothesis on the kernel's own interval
   around (1-f)^sigma *)
Theorem threshold_correct_kernel oracle pool total fn fd mode k :
  mode_bits mode = Some k -> 0 <= pool -> 0 <= total -> 0 < fd ->
  kernel_sound (2 ^ k) oracle (rpow (1 - ratR fn fd) (sigma_of pool total)) ->
  match threshold oracle pool total (Some (fn, fd)) mode with
  | Ret t => if fn <? 0 then t = 0 else t = thr k (ratR fn fd) (sigma_of pool total)
  | ErrDomain => fd < fn
  | ErrUnresolved => 0 < fn < fd /\ 0 < pool /\ 0 < total
  | NoOracle => 0 < fn < fd /\ 0 < pool /\ 0 < total
  | ErrMode => False
  | OutOfFuel => False
  end.
Proof.
  intros Hm Hp Ht Hfd K. apply threshold_correct; try assumption.
  apply kernel_oracle_sound in K. exact K.
Qed.

(* nil coefficient and unknown mode *)
Lemma threshold_nil oracle pool total mode k :
  mode_bits mode = Some k -> threshold oracle pool total None mode = Ret 0.
Proof. intros H. destruct (upper_of_bits _ _ H) as [HU _]. unfold threshold. rewrite HU. reflexivity. Qed.

Lemma threshold_badmode oracle pool total f mode :
  mode_bits mode = None -> threshold oracle pool total f mode = ErrMode.
Proof.
  unfold mode_bits, threshold, upper_bound. destruct (mode =? 0); [discriminate|].
  destruct (mode =? 1); [discriminate|reflexivity].
Qed.

(* ------------------------------------------------------------------ *)
(* eligibility *)
Section Elig.
  Variable H : bytes -> bytes.

  Lemma below_spec out t mode k b : mode_bits mode = Some k -> out <> [] ->
    below H out (Some t) mode = Some b ->
    (b = true <-> eligible (nat_of_bytes (leader_value H mode out)) t).
  Proof.
    intros Hm Hne. unfold below, mode_bits, eligible in *.
    assert (E : negb ((mode =? 0) || (mode =? 1)) = false).
    { destruct (mode =? 0); [reflexivity|]. destruct (mode =? 1); [reflexivity|discriminate]. }
    rewrite E. destruct out as [|x r]; [contradiction|].
    intros [= <-]. apply Z.ltb_lt.
  Qed.

  Lemma below_errors out t mode : mode_bits mode = None -> below H out t mode = None.
  Proof.
    unfold below, mode_bits. destruct (mode =? 0); [discriminate|].
    destruct (mode =? 1); [discriminate|reflexivity].
  Qed.

  (* IsSlotLeaderFromComponentsWithMode: for in-domain inputs a verdict is
     "leader value < exact threshold" *)
  Theorem leader_correct oracle out pool total fn fd mode k b :
    mode_bits mode = Some k -> 0 < pool -> 0 < total -> 0 < fd -> 0 <= fn ->
    length out = 64%nat ->
    kernel_sound (2 ^ k) oracle (rpow (1 - ratR fn fd) (sigma_of pool total)) ->
    leader_from_components H oracle out pool total (Some (fn, fd)) mode = inl b ->
    (b = true <-> eligible (nat_of_bytes (leader_value H mode out))
                           (thr k (ratR fn fd) (sigma_of pool total))).
  Proof.
    intros Hm Hp Ht Hfd Hfn Hlen Hor. unfold leader_from_components.
    assert (E : negb ((mode =? 0) || (mode =? 1)) = false).
    { unfold mode_bits in Hm. destruct (mode =? 0); [reflexivity|]. destruct (mode =? 1); [reflexivity|discriminate]. }
    rewrite E.
    destruct (Z.eqb_spec total 0); [lia|]. destruct (Z.eqb_spec pool 0); [lia|]. cbn [orb].
    rewrite Hlen. cbn [Z.of_nat Pos.of_succ_nat]. change (Z.of_nat 64 =? 64) with true. cbn [negb].
    pose proof (threshold_correct_kernel oracle pool total fn fd mode k Hm ltac:(lia) ltac:(lia) Hfd Hor) as Hthr.
    destruct (threshold oracle pool total (Some (fn, fd)) mode) as [t| | | | |]; try discriminate.
    destruct (Z.ltb_spec fn 0); [lia|]. subst t.
    destruct (below H out _ mode) as [b'|] eqn:Eb; [|discriminate].
    intros [= <-]. eapply below_spec; eauto.
    intros ->. discriminate.
  Qed.
End Elig.
