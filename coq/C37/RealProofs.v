(* C37 - facts about the real-number specification (Spec.v): guards,
   monotonicity, exact rational powers, the floor-interval decision and the
   certificate lemma used by the per-sample `interval` proofs. *)
From Coq Require Import Reals ZArith Lra Lia.
From Flocq Require Import Core.Raux.
From V Require Import C37.Spec.
Local Open Scope R_scope.

(* ------------------------------------------------------------------ *)
(* rpow *)
Lemma rpow_pos x s : 0 < x -> rpow x s = exp (s * ln x).
Proof. intros H. unfold rpow. destruct (Rlt_dec 0 x); [reflexivity|contradiction]. Qed.

Lemma rpow_0 s : s <> 0 -> rpow 0 s = 0.
Proof.
  intros H. unfold rpow. destruct (Rlt_dec 0 0); [lra|].
  destruct (Req_EM_T s 0); [contradiction|reflexivity].
Qed.

Lemma rpow_s0 x : 0 <= x -> rpow x 0 = 1.
Proof.
  intros H. unfold rpow. destruct (Rlt_dec 0 x).
  - rewrite Rmult_0_l. apply exp_0.
  - destruct (Req_EM_T 0 0); [reflexivity|lra].
Qed.

Lemma rpow_1 s : rpow 1 s = 1.
Proof. rewrite rpow_pos by lra. rewrite ln_1, Rmult_0_r. apply exp_0. Qed.

Lemma ln_le_mono x y : 0 < x -> x <= y -> ln x <= ln y.
Proof.
  intros Hx [L|E]; [left; apply ln_increasing; assumption|subst; right; reflexivity].
Qed.

Lemma ln_nonpos x : 0 < x -> x <= 1 -> ln x <= 0.
Proof. intros H1 H2. rewrite <- ln_1. apply ln_le_mono; assumption. Qed.

Lemma rpow_range x s : 0 <= x <= 1 -> 0 <= s -> 0 <= rpow x s <= 1.
Proof.
  intros [H0 H1] Hs. unfold rpow. destruct (Rlt_dec 0 x) as [P|P].
  - split; [left; apply exp_pos|].
    rewrite <- exp_0. apply exp_le. pose proof (ln_nonpos x P H1). nra.
  - destruct (Req_EM_T s 0); lra.
Qed.

(* antitone in the exponent (base in [0,1]) *)
Lemma rpow_antitone_s x s1 s2 : 0 <= x <= 1 -> 0 <= s1 <= s2 -> rpow x s2 <= rpow x s1.
Proof.
  intros [H0 H1] [Hs1 Hs]. unfold rpow. destruct (Rlt_dec 0 x) as [P|P].
  - apply exp_le. pose proof (ln_nonpos x P H1). nra.
  - destruct (Req_EM_T s2 0); destruct (Req_EM_T s1 0); lra.
Qed.

(* monotone in the base (exponent >= 0) *)
Lemma rpow_monotone_x x1 x2 s : 0 <= x1 <= x2 -> 0 <= s -> rpow x1 s <= rpow x2 s.
Proof.
  intros [H0 H12] Hs. unfold rpow.
  destruct (Rlt_dec 0 x1) as [P1|P1]; destruct (Rlt_dec 0 x2) as [P2|P2]; try lra.
  - apply exp_le. pose proof (ln_le_mono x1 x2 P1 H12). nra.
  - destruct (Req_EM_T s 0) as [->|N].
    + rewrite Rmult_0_l, exp_0. lra.
    + left. apply exp_pos.
Qed.

(* ------------------------------------------------------------------ *)
(* sigma *)
Lemma sigma_of_range pool total : (0 <= pool)%Z -> (0 <= total)%Z -> 0 <= sigma_of pool total <= 1.
Proof.
  intros Hp Ht. unfold sigma_of. apply IZR_le in Hp, Ht.
  assert (0 <= IZR pool / IZR total).
  { destruct (Req_dec (IZR total) 0) as [->|N].
    - unfold Rdiv. rewrite Rinv_0. lra.
    - apply Rmult_le_pos; [lra|]. left. apply Rinv_0_lt_compat. lra. }
  split.
  - apply Rmin_glb; lra.
  - apply Rmin_l.
Qed.

Lemma sigma_of_frac pool total : (0 <= pool <= total)%Z -> (0 < total)%Z ->
  sigma_of pool total = IZR pool / IZR total.
Proof.
  intros [Hp Hpt] Ht. unfold sigma_of. apply IZR_le in Hp, Hpt. apply IZR_lt in Ht.
  apply Rmin_right. apply (Rmult_le_reg_r (IZR total)); [lra|].
  unfold Rdiv. rewrite Rmult_assoc, Rinv_l by lra. lra.
Qed.

(* the cap: a pool above the total counts as the total *)
Lemma sigma_of_cap pool total : (0 < total)%Z -> (total <= pool)%Z ->
  sigma_of pool total = sigma_of total total.
Proof.
  intros Ht Hpt. unfold sigma_of. apply IZR_le in Hpt. apply IZR_lt in Ht.
  replace (IZR total / IZR total) with 1 by (field; lra).
  rewrite (Rmin_left 1 1) by lra. apply Rmin_left.
  apply (Rmult_le_reg_r (IZR total)); [lra|].
  unfold Rdiv. rewrite Rmult_assoc, Rinv_l by lra. lra.
Qed.

Lemma sigma_of_0 total : sigma_of 0 total = 0.
Proof. unfold sigma_of, Rdiv. rewrite Rmult_0_l. apply Rmin_right. lra. Qed.

Lemma sigma_of_total0 pool : sigma_of pool 0 = 0.
Proof. unfold sigma_of, Rdiv. rewrite Rinv_0, Rmult_0_r. apply Rmin_right. lra. Qed.

Lemma sigma_of_pos pool total : (0 < pool)%Z -> (0 < total)%Z -> 0 < sigma_of pool total.
Proof.
  intros Hp Ht. unfold sigma_of. apply IZR_lt in Hp, Ht. apply Rmin_glb_lt; [lra|].
  apply Rmult_lt_0_compat; [lra|]. apply Rinv_0_lt_compat. lra.
Qed.

Lemma sigma_of_mono pool1 pool2 total : (0 <= pool1 <= pool2)%Z -> (0 < total)%Z ->
  sigma_of pool1 total <= sigma_of pool2 total.
Proof.
  intros [H0 H12] Ht. unfold sigma_of. apply IZR_le in H0, H12. apply IZR_lt in Ht.
  apply Rle_min_compat_l. apply Rmult_le_compat_r; [|lra].
  left. apply Rinv_0_lt_compat. lra.
Qed.

(* ------------------------------------------------------------------ *)
(* prob and thr *)
Lemma pow2_nonneg k : 0 <= IZR (2 ^ k).
Proof. apply IZR_le. apply Z.pow_nonneg. lia. Qed.

Lemma prob_range f s : 0 <= f <= 1 -> 0 <= s -> 0 <= prob f s <= 1.
Proof. intros Hf Hs. unfold prob. pose proof (rpow_range (1 - f) s ltac:(lra) Hs). lra. Qed.

Lemma prob_monotone_sigma f s1 s2 : 0 <= f <= 1 -> 0 <= s1 <= s2 -> prob f s1 <= prob f s2.
Proof. intros Hf Hs. unfold prob. pose proof (rpow_antitone_s (1 - f) s1 s2 ltac:(lra) Hs). lra. Qed.

Lemma prob_monotone_f f1 f2 s : 0 <= f1 <= f2 -> f2 <= 1 -> 0 <= s -> prob f1 s <= prob f2 s.
Proof.
  intros Hf H1 Hs. unfold prob.
  pose proof (rpow_monotone_x (1 - f2) (1 - f1) s ltac:(lra) Hs). lra.
Qed.

Theorem thr_monotone_sigma k f s1 s2 : 0 <= f <= 1 -> 0 <= s1 <= s2 -> (thr k f s1 <= thr k f s2)%Z.
Proof.
  intros Hf Hs. unfold thr. apply Zfloor_le. apply Rmult_le_compat_l; [apply pow2_nonneg|].
  apply prob_monotone_sigma; assumption.
Qed.

Theorem thr_monotone_f k f1 f2 s : 0 <= f1 <= f2 -> f2 <= 1 -> 0 <= s -> (thr k f1 s <= thr k f2 s)%Z.
Proof.
  intros Hf H1 Hs. unfold thr. apply Zfloor_le. apply Rmult_le_compat_l; [apply pow2_nonneg|].
  apply prob_monotone_f; assumption.
Qed.

(* the threshold is a k-bit-scale natural: 0 <= thr <= 2^k *)
Theorem thr_range k f s : 0 <= f <= 1 -> 0 <= s -> (0 <= thr k f s <= 2 ^ k)%Z.
Proof.
  intros Hf Hs. unfold thr. pose proof (prob_range f s Hf Hs) as [P0 P1].
  pose proof (pow2_nonneg k) as HU. split.
  - rewrite <- (Zfloor_IZR 0). apply Zfloor_le. apply Rmult_le_pos; assumption.
  - apply Z.le_trans with (Zfloor (IZR (2 ^ k))); [apply Zfloor_le|rewrite Zfloor_IZR; lia].
    rewrite <- (Rmult_1_r (IZR (2 ^ k))) at 2. apply Rmult_le_compat_l; assumption.
Qed.

(* guards *)
Lemma thr_f0 k s : thr k 0 s = 0%Z.
Proof.
  unfold thr, prob. rewrite Rminus_0_r, rpow_1. replace (1 - 1) with 0 by lra.
  rewrite Rmult_0_r. apply (Zfloor_IZR 0).
Qed.

Lemma thr_sigma0 k f : f <= 1 -> thr k f 0 = 0%Z.
Proof.
  intros Hf. unfold thr, prob. rewrite rpow_s0 by lra. replace (1 - 1) with 0 by lra.
  rewrite Rmult_0_r. apply (Zfloor_IZR 0).
Qed.

Lemma thr_f1 k s : s <> 0 -> thr k 1 s = (2 ^ k)%Z.
Proof.
  intros Hs. unfold thr, prob. replace (1 - 1) with 0 by lra. rewrite rpow_0 by assumption.
  rewrite Rminus_0_r, Rmult_1_r. apply Zfloor_IZR.
Qed.

(* ------------------------------------------------------------------ *)
(* exact rational powers: if a = ra^m and b = rb^m then
   (a/b)^(n/m) = ra^n / rb^n *)
Lemma pow_div x y n : y <> 0 -> (x / y) ^ n = x ^ n / y ^ n.
Proof. intros Hy. unfold Rdiv. rewrite Rpow_mult_distr, pow_inv. reflexivity. Qed.

Lemma rpow_exact (ra rb n m : Z) :
  (0 < ra)%Z -> (0 < rb)%Z -> (0 <= n)%Z -> (0 < m)%Z ->
  rpow (IZR (ra ^ m) / IZR (rb ^ m)) (IZR n / IZR m) = IZR (ra ^ n) / IZR (rb ^ n).
Proof.
  intros Hra Hrb Hn Hm.
  assert (Pa : 0 < IZR ra) by (apply IZR_lt; assumption).
  assert (Pb : 0 < IZR rb) by (apply IZR_lt; assumption).
  assert (Pm : 0 < IZR m) by (apply IZR_lt; assumption).
  set (r := IZR ra / IZR rb).
  assert (Pr : 0 < r) by (apply Rdiv_lt_0_compat; assumption).
  assert (E : forall j, (0 <= j)%Z -> IZR (ra ^ j) / IZR (rb ^ j) = r ^ Z.to_nat j).
  { intros j Hj. unfold r. rewrite pow_div by lra. rewrite !pow_IZR, Z2Nat.id by assumption. reflexivity. }
  rewrite (E m) by lia. rewrite (E n) by assumption.
  rewrite rpow_pos by (apply pow_lt; assumption).
  rewrite ln_pow by assumption. rewrite INR_IZR_INZ, Z2Nat.id by lia.
  replace (IZR n / IZR m * (IZR m * ln r)) with (IZR n * ln r) by (field; lra).
  rewrite <- (Z2Nat.id n) at 1 by assumption. rewrite <- INR_IZR_INZ.
  change (exp (INR (Z.to_nat n) * ln r)) with (Rpower r (INR (Z.to_nat n))).
  apply Rpower_pow. assumption.
Qed.

(* floor of a quotient of integers *)
Lemma floor_scaled (U A B : Z) : (0 < B)%Z ->
  Zfloor (IZR U * (1 - IZR A / IZR B)) = ((U * (B - A)) / B)%Z.
Proof.
  intros HB. rewrite <- Zfloor_div by lia. f_equal.
  rewrite mult_IZR, minus_IZR. field. apply IZR_neq. lia.
Qed.

(* ------------------------------------------------------------------ *)
(* the floor decision: if both truncated interval ends agree, the common
   value is the floor of the enclosed (non-negative) quantity.
   qt n d = big.Float.Int of n/d = truncation toward zero. *)
Lemma quot_floor_nonneg n d : (0 <= n)%Z -> (0 < d)%Z -> Z.quot n d = Zfloor (IZR n / IZR d).
Proof. intros Hn Hd. rewrite Zfloor_div by lia. apply Z.quot_div_nonneg; assumption. Qed.

Lemma quot_neg_le0 n d : (n < 0)%Z -> (0 < d)%Z -> (Z.quot n d <= 0)%Z.
Proof.
  intros Hn Hd. rewrite <- (Z.opp_involutive n). rewrite Z.quot_opp_l by lia.
  assert (0 <= Z.quot (- n) d)%Z by (apply Z.quot_pos; lia). lia.
Qed.

Lemma decide_floor (nl dl nh dh : Z) (v : R) :
  (0 < dl)%Z -> (0 < dh)%Z -> 0 <= v ->
  IZR nl / IZR dl <= v <= IZR nh / IZR dh ->
  Z.quot nl dl = Z.quot nh dh ->
  Z.quot nl dl = Zfloor v.
Proof.
  intros Hdl Hdh Hv [Hlo Hhi] E.
  assert (Pl : 0 < IZR dl) by (apply IZR_lt; assumption).
  assert (Ph : 0 < IZR dh) by (apply IZR_lt; assumption).
  assert (Hnh : (0 <= nh)%Z).
  { apply le_IZR. apply (Rmult_le_reg_r (/ IZR dh)); [apply Rinv_0_lt_compat; assumption|].
    rewrite Rmult_0_l. fold (IZR nh / IZR dh). lra. }
  assert (Hup : (Zfloor v <= Z.quot nh dh)%Z).
  { rewrite quot_floor_nonneg by assumption. apply Zfloor_le. assumption. }
  assert (Hdn : (Z.quot nl dl <= Zfloor v)%Z).
  { destruct (Z_lt_le_dec nl 0) as [N|N].
    - pose proof (quot_neg_le0 nl dl N Hdl).
      assert (0 <= Zfloor v)%Z; [|lia].
      rewrite <- (Zfloor_IZR 0). apply Zfloor_le. assumption.
    - rewrite quot_floor_nonneg by assumption. apply Zfloor_le. assumption. }
  lia.
Qed.

(* ------------------------------------------------------------------ *)
(* certificate lemma: what each per-sample `interval` proof establishes.
   a/fd = 1 - f exactly, p = min pool total, U = 2^k as a numeral. *)
Theorem thr_certificate (k U fn fd a pool total p T : Z) :
  U = (2 ^ k)%Z -> (0 < fn < fd)%Z -> a = (fd - fn)%Z ->
  (0 < pool)%Z -> (0 < total)%Z -> p = Z.min pool total ->
  IZR T <= IZR U * (1 - exp (IZR p / IZR total * ln (IZR a / IZR fd))) < IZR T + 1 ->
  thr k (ratR fn fd) (sigma_of pool total) = T.
Proof.
  intros -> [Hfn Hfd] -> Hp Ht -> Hcert.
  assert (Pfd : 0 < IZR fd) by (apply IZR_lt; lia).
  assert (Es : sigma_of pool total = IZR (Z.min pool total) / IZR total).
  { destruct (Z.min_spec pool total) as [[L ->]|[L ->]].
    - apply sigma_of_frac; lia.
    - rewrite sigma_of_cap by lia. apply sigma_of_frac; lia. }
  unfold thr, prob, ratR. rewrite Es.
  assert (Ef : 1 - IZR fn / IZR fd = IZR (fd - fn) / IZR fd).
  { rewrite minus_IZR. field. lra. }
  rewrite Ef. rewrite rpow_pos.
  - apply Zfloor_imp. rewrite plus_IZR. exact Hcert.
  - apply Rdiv_lt_0_compat; [apply IZR_lt; lia|assumption].
Qed.
