(* C37 - specification over the reals of the Praos leadership threshold.
   Independent of the code: written from the property text / the Praos paper
   (phi_f(sigma) = 1 - (1-f)^sigma) and the ledger's checkLeaderNatValue.
   Uses Coq.Reals (classical axioms, listed in meta/C37.json) and Flocq's
   Zfloor; nothing here is executable. *)
From Coq Require Import Reals ZArith.
From Flocq Require Import Core.Raux.
Local Open Scope R_scope.

(* x^s for real x >= 0, s >= 0:  exp (s ln x) for x > 0;  0^0 = 1;  0^s = 0 *)
Definition rpow (x s : R) : R :=
  if Rlt_dec 0 x then exp (s * ln x)
  else if Req_EM_T s 0 then 1 else 0.

(* relative stake, capped at 1 *)
Definition sigma_of (pool total : Z) : R := Rmin 1 (IZR pool / IZR total).

(* probability of leading one slot *)
Definition prob (f sigma : R) : R := 1 - rpow (1 - f) sigma.

(* the threshold: a leader value v (a k-bit natural) wins iff v < thr *)
Definition thr (k : Z) (f sigma : R) : Z := Zfloor (IZR (2 ^ k) * prob f sigma).

(* bits of the leader value per consensus mode: 0 = Praos (Blake2b-256 of
   "L"||output), 1 = TPraos (raw 64-byte output) *)
Definition mode_bits (mode : Z) : option Z :=
  if Z.eqb mode 0 then Some 256%Z else if Z.eqb mode 1 then Some 512%Z else None.

(* the coefficient as a real *)
Definition ratR (n d : Z) : R := IZR n / IZR d.

(* eligibility *)
Definition eligible (v t : Z) : Prop := (v < t)%Z.
