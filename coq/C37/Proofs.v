(* C37 - integer-level lemmas about the model: the loops terminate within
   their fuel, exactIntegerNthRoot decides perfect powers, the exact fast
   path computes floor(U * (1 - (ra/rb)^n)) for the reduced sigma = n/m. *)
From V Require Import Lib.Base C37.Model.
Local Open Scope Z_scope.

(* ------------------------------------------------------------------ *)
(* run = bounded iteration with early exit *)
Section RunFacts.
  Context {A R : Type} (body : A -> A + R).

  Fixpoint run_nat (n : nat) (a : A) : A + R :=
    match n with
    | O => inl a
    | S n' => match body a with inl a' => run_nat n' a' | inr r => inr r end
    end.

  Lemma run_nat_add n m a :
    run_nat (n + m) a = match run_nat n a with inl a' => run_nat m a' | inr r => inr r end.
  Proof.
    revert a. induction n as [|n IH]; intros a; cbn [run_nat Nat.add]; [reflexivity|].
    destruct (body a) as [a'|r]; [apply IH|reflexivity].
  Qed.

  Lemma run_run_nat p : forall a, run body p a = run_nat (Pos.to_nat p) a.
  Proof.
    induction p as [q IH|q IH|]; intros a; cbn [run].
    - rewrite Pos2Nat.inj_xI. cbn [run_nat].
      destruct (body a) as [a'|r]; [|reflexivity].
      replace (2 * Pos.to_nat q)%nat with (Pos.to_nat q + Pos.to_nat q)%nat by lia.
      rewrite run_nat_add, <- IH. destruct (run body q a') as [a''|r]; [apply IH|reflexivity].
    - rewrite Pos2Nat.inj_xO.
      replace (2 * Pos.to_nat q)%nat with (Pos.to_nat q + Pos.to_nat q)%nat by lia.
      rewrite run_nat_add, <- IH. destruct (run body q a) as [a''|r]; [apply IH|reflexivity].
    - cbn [Pos.to_nat Pos.iter_op run_nat]. change (Pos.to_nat 1) with 1%nat. cbn [run_nat].
      destruct (body a); reflexivity.
  Qed.

  (* loop rule: invariant I, variant mu, postcondition Post *)
  Lemma run_nat_inv (I : A -> Prop) (Post : R -> Prop) (mu : A -> nat) :
    (forall a, I a -> match body a with
                      | inl a' => I a' /\ (mu a' < mu a)%nat
                      | inr r => Post r
                      end) ->
    forall n a, I a -> (mu a < n)%nat -> exists r, run_nat n a = inr r /\ Post r.
  Proof.
    intros Hstep. induction n as [|n IH]; intros a Ia Hmu; [lia|].
    cbn [run_nat]. specialize (Hstep a Ia). destruct (body a) as [a'|r].
    - destruct Hstep as [Ia' Hlt]. apply IH; [exact Ia'|lia].
    - exists r. split; [reflexivity|exact Hstep].
  Qed.

  Lemma run_inv (I : A -> Prop) (Post : R -> Prop) (mu : A -> nat) :
    (forall a, I a -> match body a with
                      | inl a' => I a' /\ (mu a' < mu a)%nat
                      | inr r => Post r
                      end) ->
    forall p a, I a -> (mu a < Pos.to_nat p)%nat -> exists r, run body p a = inr r /\ Post r.
  Proof. intros Hstep p a Ia Hmu. rewrite run_run_nat. eapply run_nat_inv; eauto. Qed.
End RunFacts.

(* ------------------------------------------------------------------ *)
(* small arithmetic facts *)
Lemma pow_pos_base x k : 0 < x -> 0 <= k -> 0 < x ^ k.
Proof. intros. apply Z.pow_pos_nonneg; assumption. Qed.

Lemma pow_ge_base x k : 0 <= x -> 1 <= k -> x <= x ^ k.
Proof.
  intros Hx Hk. destruct (Z.eq_dec x 0) as [->|Hn].
  - rewrite Z.pow_0_l by lia. lia.
  - replace k with (1 + (k - 1)) by lia. rewrite Z.pow_add_r by lia. rewrite Z.pow_1_r.
    assert (0 < x ^ (k - 1)) by (apply pow_pos_base; lia). nia.
Qed.

Lemma pow_inj_nonneg x y k : 0 <= x -> 0 <= y -> 0 < k -> x ^ k = y ^ k -> x = y.
Proof.
  intros Hx Hy Hk E.
  destruct (Z.lt_trichotomy x y) as [L|[L|L]]; [|exact L|].
  - assert (x ^ k < y ^ k) by (apply Z.pow_lt_mono_l; lia). lia.
  - assert (y ^ k < x ^ k) by (apply Z.pow_lt_mono_l; lia). lia.
Qed.

Lemma quot_nonneg a b : 0 <= a -> 0 <= b -> 0 <= Z.quot a b.
Proof.
  intros Ha Hb. destruct (Z.eq_dec b 0) as [->|Hn].
  - rewrite Z.quot_0_r_ext by reflexivity. lia.
  - apply Z.quot_pos; lia.
Qed.

Lemma quot_div a b : 0 <= a -> 0 < b -> Z.quot a b = a / b.
Proof. intros. apply Z.quot_div_nonneg; assumption. Qed.

Lemma bitlen_spec n : 0 < n -> 2 ^ (bitlen n - 1) <= n < 2 ^ bitlen n.
Proof.
  intros Hn. unfold bitlen. destruct (Z.leb_spec n 0) as [L|L]; [lia|].
  replace (Z.log2 n + 1 - 1) with (Z.log2 n) by lia.
  replace (Z.log2 n + 1) with (Z.succ (Z.log2 n)) by lia.
  apply Z.log2_spec. exact Hn.
Qed.

(* ------------------------------------------------------------------ *)
(* exactIntegerNthRoot *)
Section Root.
  Variables n k : Z.
  Hypothesis Hn : 2 <= n.
  Hypothesis Hk : 2 <= k.

  (* Newton loop: x stays >= 1 (so the divisor x^(k-1) is never 0: no
     division panic), strictly decreases, hence breaks within x0 steps *)
  Lemma newton_step x : 1 <= x ->
    match newton_body n k x with
    | inl x' => 1 <= x' /\ (Z.to_nat (x' - 1) < Z.to_nat (x - 1))%nat
    | inr r => 1 <= r
    end.
  Proof.
    intros Hx. unfold newton_body.
    assert (Hp : 0 < x ^ (k - 1)) by (apply pow_pos_base; lia).
    assert (Ht : 0 <= Z.quot n (x ^ (k - 1))) by (apply quot_nonneg; lia).
    set (t := Z.quot n (x ^ (k - 1))) in *.
    destruct (Z.geb_spec (Z.quot ((k - 1) * x + t) k) x) as [G|G]; [exact Hx|].
    rewrite quot_div in * by nia.
    assert (Hx2 : 2 <= x).
    { destruct (Z.eq_dec x 1) as [->|]; [|lia]. exfalso.
      assert (E : t = n).
      { unfold t. rewrite Z.pow_1_l by lia. apply Z.quot_1_r. }
      assert (1 <= ((k - 1) * 1 + t) / k); [|lia].
      apply Z.div_le_lower_bound; lia. }
    assert (1 <= ((k - 1) * x + t) / k).
    { apply Z.div_le_lower_bound; [lia|]. nia. }
    split; [lia|]. lia.
  Qed.

  Lemma newton_terminates x0 : 1 <= x0 ->
    exists x1, run (newton_body n k) (Z.to_pos x0) x0 = inr x1 /\ 1 <= x1.
  Proof.
    intros H0.
    apply (run_inv (newton_body n k) (fun x => 1 <= x) (fun r => 1 <= r) (fun x => Z.to_nat (x - 1))).
    - intros a Ha. apply newton_step. exact Ha.
    - exact H0.
    - rewrite <- (Z2Nat.inj_pos (Z.to_pos x0)). rewrite Z2Pos.id by lia. lia.
  Qed.

  Lemma down_terminates x1 : 0 <= x1 ->
    exists x2, run (down_body n k) (Z.to_pos (x1 + 1)) x1 = inr x2 /\ (0 <= x2 /\ x2 ^ k <= n).
  Proof.
    intros H1.
    apply (run_inv (down_body n k) (fun x => 0 <= x) (fun r => 0 <= r /\ r ^ k <= n) (fun x => Z.to_nat x)).
    - intros a Ha. unfold down_body. destruct (Z.gtb_spec (a ^ k) n) as [G|G].
      + assert (a <> 0). { intros ->. rewrite Z.pow_0_l in G by lia. lia. }
        split; lia.
      + split; lia.
    - exact H1.
    - rewrite <- (Z2Nat.inj_pos (Z.to_pos (x1 + 1))). rewrite Z2Pos.id by lia. lia.
  Qed.

  Lemma up_terminates x2 : 0 <= x2 -> x2 ^ k <= n ->
    exists x3, run (up_body n k) (Z.to_pos (n + 1)) x2 = inr x3 /\
               (0 <= x3 /\ x3 ^ k <= n < (x3 + 1) ^ k).
  Proof.
    intros H2 H2k.
    apply (run_inv (up_body n k) (fun x => 0 <= x /\ x ^ k <= n)
                   (fun r => 0 <= r /\ r ^ k <= n < (r + 1) ^ k) (fun x => Z.to_nat (n - x))).
    - intros a [Ha Hak]. unfold up_body. destruct (Z.gtb_spec ((a + 1) ^ k) n) as [G|G].
      + lia.
      + assert (a + 1 <= (a + 1) ^ k) by (apply pow_ge_base; lia).
        split; [split; lia|lia].
    - split; assumption.
    - rewrite <- (Z2Nat.inj_pos (Z.to_pos (n + 1))). rewrite Z2Pos.id by lia.
      assert (x2 <= x2 ^ k) by (apply pow_ge_base; lia). lia.
  Qed.

  (* the main branch (2 <= n, 2 <= k < bitlen n) *)
  Lemma root_main : k < bitlen n ->
    (exists r, exact_nth_root n k = Root r /\ 0 <= r /\ r ^ k = n) \/
    (exact_nth_root n k = NoRoot /\ forall r, 0 <= r -> r ^ k <> n).
  Proof.
    intros Hb. unfold exact_nth_root.
    destruct (Z.ltb_spec n 0); [lia|].
    destruct (Z.eqb_spec n 0); [lia|].
    destruct (Z.leb_spec k 0); [lia|].
    destruct (Z.eqb_spec k 1); [lia|].
    destruct (Z.eqb_spec n 1); [lia|].
    destruct (Z.geb_spec k (bitlen n)); [lia|].
    cbv zeta.
    assert (Hg : 0 <= Z.quot (bitlen n) k) by (apply quot_nonneg; lia).
    assert (Hx0 : 1 <= 2 ^ (Z.quot (bitlen n) k + 1)).
    { assert (0 < 2 ^ (Z.quot (bitlen n) k + 1)) by (apply pow_pos_base; lia). lia. }
    destruct (newton_terminates _ Hx0) as (x1 & -> & Hx1).
    destruct (down_terminates x1 ltac:(lia)) as (x2 & -> & Hx2 & Hx2k).
    destruct (up_terminates x2 Hx2 Hx2k) as (x3 & -> & Hx3 & Hx3k).
    destruct (Z.eqb_spec (x3 ^ k) n) as [E|E].
    - left. exists x3. auto.
    - right. split; [reflexivity|]. intros r Hr Er. apply E.
      assert (x3 = r); [|subst; reflexivity].
      assert (x3 <= r).
      { apply (Z.pow_le_mono_l_iff x3 r k); lia. }
      assert (r < x3 + 1).
      { apply (Z.pow_lt_mono_l_iff r (x3 + 1) k); lia. }
      lia.
  Qed.

  (* the guard k >= bitlen n proves that no root exists *)
  Lemma root_guard r : bitlen n <= k -> 0 <= r -> r ^ k <> n.
  Proof.
    intros Hb Hr E.
    assert (2 <= r).
    { destruct (Z.eq_dec r 0) as [->|]. { rewrite Z.pow_0_l in E by lia. lia. }
      destruct (Z.eq_dec r 1) as [->|]. { rewrite Z.pow_1_l in E by lia. lia. }
      lia. }
    assert (2 ^ k <= r ^ k) by (apply Z.pow_le_mono_l; lia).
    pose proof (bitlen_spec n ltac:(lia)) as [_ Hu].
    assert (2 ^ bitlen n <= 2 ^ k) by (apply Z.pow_le_mono_r; lia).
    lia.
  Qed.
End Root.

(* Soundness and completeness, all branches.  Precondition of the Go
   function: n >= 0, k > 0. *)
Theorem exact_nth_root_correct n k r : 0 <= n -> 0 < k ->
  (exact_nth_root n k = Root r <-> 0 <= r /\ r ^ k = n).
Proof.
  intros Hn Hk.
  destruct (Z.eq_dec n 0) as [->|Hn0].
  { unfold exact_nth_root. cbn. split.
    - intros [= <-]. split; [lia|]. apply Z.pow_0_l. lia.
    - intros [Hr E]. f_equal. symmetry.
      destruct (Z.eq_dec r 0) as [->|]; [reflexivity|].
      exfalso. assert (0 < r ^ k) by (apply pow_pos_base; lia). lia. }
  destruct (Z.eq_dec k 1) as [->|Hk1].
  { unfold exact_nth_root.
    destruct (Z.ltb_spec n 0); [lia|]. destruct (Z.eqb_spec n 0); [lia|]. cbn.
    rewrite Z.pow_1_r. split; [intros [= <-]; lia|intros [_ ->]; reflexivity]. }
  destruct (Z.eq_dec n 1) as [->|Hn1].
  { unfold exact_nth_root. cbn.
    destruct (Z.leb_spec k 0); [lia|]. destruct (Z.eqb_spec k 1); [lia|].
    split.
    - intros [= <-]. split; [lia|]. apply Z.pow_1_l. lia.
    - intros [Hr E]. f_equal. symmetry. apply (pow_inj_nonneg r 1 k); try lia.
      rewrite Z.pow_1_l by lia. exact E. }
  destruct (Z.lt_ge_cases k (bitlen n)) as [Hb|Hb].
  - destruct (root_main n k ltac:(lia) ltac:(lia) Hb) as [(r' & E & Hr' & Er')|[E Hno]].
    + rewrite E. split.
      * intros [= <-]. auto.
      * intros [Hr Er]. f_equal. apply (pow_inj_nonneg r' r k); lia.
    + rewrite E. split; [discriminate|]. intros [Hr Er]. exfalso. exact (Hno r Hr Er).
  - assert (E : exact_nth_root n k = NoRoot).
    { unfold exact_nth_root.
      destruct (Z.ltb_spec n 0); [lia|]. destruct (Z.eqb_spec n 0); [lia|].
      destruct (Z.leb_spec k 0); [lia|]. destruct (Z.eqb_spec k 1); [lia|].
      destruct (Z.eqb_spec n 1); [lia|]. destruct (Z.geb_spec k (bitlen n)); [reflexivity|lia]. }
    rewrite E. split; [discriminate|]. intros [Hr Er]. exfalso.
    exact (root_guard n k ltac:(lia) ltac:(lia) r Hb Hr Er).
Qed.

(* the fuel is never exhausted, for any input *)
Theorem exact_nth_root_fuel n k : exact_nth_root n k <> RootFuel.
Proof.
  destruct (Z.lt_ge_cases n 2) as [Hn|Hn]; [|destruct (Z.lt_ge_cases k 2) as [Hk|Hk];
    [|destruct (Z.lt_ge_cases k (bitlen n)) as [Hb|Hb]]].
  - unfold exact_nth_root.
    destruct (Z.ltb_spec n 0); [discriminate|]. destruct (Z.eqb_spec n 0); [discriminate|].
    destruct (Z.leb_spec k 0); [discriminate|]. destruct (Z.eqb_spec k 1); [discriminate|].
    destruct (Z.eqb_spec n 1); [discriminate|]. lia.
  - unfold exact_nth_root.
    destruct (Z.ltb_spec n 0); [discriminate|]. destruct (Z.eqb_spec n 0); [discriminate|].
    destruct (Z.leb_spec k 0); [discriminate|]. destruct (Z.eqb_spec k 1); [discriminate|]. lia.
  - destruct (root_main n k Hn Hk Hb) as [(r' & E & _)|[E _]]; rewrite E; discriminate.
  - unfold exact_nth_root.
    destruct (Z.ltb_spec n 0); [discriminate|]. destruct (Z.eqb_spec n 0); [discriminate|].
    destruct (Z.leb_spec k 0); [discriminate|]. destruct (Z.eqb_spec k 1); [discriminate|].
    destruct (Z.eqb_spec n 1); [discriminate|]. destruct (Z.geb_spec k (bitlen n)); [discriminate|lia].
Qed.

(* the guards of the Go function *)
Lemma exact_nth_root_neg n k : n < 0 -> exact_nth_root n k = NoRoot.
Proof. intros H. unfold exact_nth_root. destruct (Z.ltb_spec n 0); [reflexivity|lia]. Qed.
Lemma exact_nth_root_badk n k : 0 < n -> k <= 0 -> exact_nth_root n k = NoRoot.
Proof.
  intros H H'. unfold exact_nth_root. destruct (Z.ltb_spec n 0); [reflexivity|].
  destruct (Z.eqb_spec n 0); [lia|]. destruct (Z.leb_spec k 0); [reflexivity|lia].
Qed.

(* ------------------------------------------------------------------ *)
(* big.Rat normalisation *)
Lemma rnorm_spec n d : 0 < d ->
  exists g, 0 < g /\ n = g * fst (rnorm n d) /\ d = g * snd (rnorm n d) /\ 0 < snd (rnorm n d).
Proof.
  intros Hd. unfold rnorm. destruct (Z.ltb_spec d 0) as [L|L]; [lia|]. cbn [fst snd].
  pose proof (Z.gcd_nonneg n d) as Hg0.
  assert (Hg : 0 < Z.gcd n d).
  { destruct (Z.eq_dec (Z.gcd n d) 0) as [E|]; [|lia]. apply Z.gcd_eq_0_r in E. lia. }
  destruct (Z.gcd_divide_l n d) as [qn En]. destruct (Z.gcd_divide_r n d) as [qd Ed].
  exists (Z.gcd n d).
  assert (Z.quot n (Z.gcd n d) = qn).
  { rewrite En at 1. apply Z.quot_mul. lia. }
  assert (Z.quot d (Z.gcd n d) = qd).
  { rewrite Ed at 1. apply Z.quot_mul. lia. }
  repeat split; try lia; nia.
Qed.

(* equal rationals have equal floors *)
Lemma div_cross n1 d1 n2 d2 : 0 < d1 -> 0 < d2 -> n1 * d2 = n2 * d1 -> n1 / d1 = n2 / d2.
Proof.
  intros H1 H2 E. rewrite <- (Z.div_mul_cancel_r n1 d1 d2) by lia. rewrite E.
  rewrite (Z.mul_comm d1 d2). apply Z.div_mul_cancel_r; lia.
Qed.

(* floor of U*n/d does not depend on the representation *)
Lemma floor_rnorm U n d : 0 <= U -> 0 <= n -> 0 < d ->
  Z.quot (U * fst (rnorm n d)) (snd (rnorm n d)) = (U * n) / d.
Proof.
  intros HU Hn Hd. destruct (rnorm_spec n d Hd) as (g & Hg & En & Ed & Hs).
  set (qn := fst (rnorm n d)) in *. set (qd := snd (rnorm n d)) in *.
  assert (0 <= qn) by nia.
  rewrite quot_div by nia.
  rewrite En, Ed at 1. replace (U * (g * qn)) with (g * (U * qn)) by ring.
  rewrite Z.div_mul_cancel_l by lia. reflexivity.
Qed.

(* ------------------------------------------------------------------ *)
(* exactOneMinusFPowerSigma / ...Threshold *)
Lemma exact_pow_sigma_spec a b pool total pn pd :
  0 < a -> 0 < b -> 0 < pool -> 0 < total ->
  exact_pow_sigma a b pool total = Exact pn pd ->
  exists ra rb n m,
    0 < ra /\ 0 < rb /\ 0 < n /\ 0 < m /\ ra ^ m = a /\ rb ^ m = b /\
    n * total = m * pool /\ 0 < pd /\ 0 <= pn /\ pn * rb ^ n = ra ^ n * pd.
Proof.
  intros Ha Hb Hp Ht. unfold exact_pow_sigma. cbv zeta.
  pose proof (Z.gcd_nonneg pool total) as Hg0.
  assert (Hg : 0 < Z.gcd pool total).
  { destruct (Z.eq_dec (Z.gcd pool total) 0) as [E|]; [|lia]. apply Z.gcd_eq_0_r in E. lia. }
  destruct (Z.gcd_divide_l pool total) as [n En]. destruct (Z.gcd_divide_r pool total) as [m Em].
  assert (Hqn : Z.quot pool (Z.gcd pool total) = n) by (rewrite En at 1; apply Z.quot_mul; lia).
  assert (Hqm : Z.quot total (Z.gcd pool total) = m) by (rewrite Em at 1; apply Z.quot_mul; lia).
  rewrite Hqn, Hqm.
  assert (Hn : 0 < n) by nia. assert (Hm : 0 < m) by nia.
  destruct (exact_nth_root a m) as [ra| |] eqn:Ea; try discriminate.
  destruct (exact_nth_root b m) as [rb| |] eqn:Eb; try discriminate.
  apply exact_nth_root_correct in Ea; [|lia|lia]. apply exact_nth_root_correct in Eb; [|lia|lia].
  destruct Ea as [Hra Ea]. destruct Eb as [Hrb Eb].
  assert (0 < ra). { destruct (Z.eq_dec ra 0) as [->|]; [|lia]. rewrite Z.pow_0_l in Ea by lia. lia. }
  assert (0 < rb). { destruct (Z.eq_dec rb 0) as [->|]; [|lia]. rewrite Z.pow_0_l in Eb by lia. lia. }
  assert (Hrbn : 0 < rb ^ n) by (apply pow_pos_base; lia).
  assert (Hran : 0 < ra ^ n) by (apply pow_pos_base; lia).
  destruct (rnorm (ra ^ n) (rb ^ n)) as [pn' pd'] eqn:Er.
  intros [= <- <-].
  destruct (rnorm_spec (ra ^ n) (rb ^ n) Hrbn) as (g & Hg' & E1 & E2 & Hs).
  rewrite Er in *. cbn [fst snd] in *.
  exists ra, rb, n, m. repeat split; try lia; try nia.
Qed.

(* exact_threshold returns floor (U * (pd - pn) / pd) for the exact power pn/pd *)
Lemma exact_threshold_spec U a b pool total t :
  0 <= U -> 0 < a -> a <= b -> 0 < pool -> pool <= total ->
  exact_threshold U a b pool total = Some (Some t) ->
  exists ra rb n m,
    0 < ra /\ 0 < rb /\ 0 < n /\ 0 < m /\ ra ^ m = a /\ rb ^ m = b /\
    n * total = m * pool /\
    t = (U * (rb ^ n - ra ^ n)) / rb ^ n.
Proof.
  intros HU Ha Hab Hp Hpt. unfold exact_threshold.
  destruct (exact_pow_sigma a b pool total) as [pn pd| |] eqn:E; try discriminate.
  apply exact_pow_sigma_spec in E; try lia.
  destruct E as (ra & rb & n & m & Hra & Hrb & Hn & Hm & Ea & Eb & Enm & Hpd & Hpn & Ecross).
  destruct (rnorm (pd - pn) pd) as [qn qd] eqn:Er. intros [= <-].
  exists ra, rb, n, m. repeat split; try assumption.
  (* ra <= rb because a <= b *)
  assert (Hle : ra <= rb).
  { apply (Z.pow_le_mono_l_iff ra rb m); lia. }
  assert (Hlen : ra ^ n <= rb ^ n) by (apply Z.pow_le_mono_l; lia).
  assert (Hrbn : 0 < rb ^ n) by (apply pow_pos_base; lia).
  assert (Hran : 0 < ra ^ n) by (apply pow_pos_base; lia).
  assert (Hpnpd : pn <= pd) by nia.
  pose proof (floor_rnorm U (pd - pn) pd HU ltac:(lia) Hpd) as F. rewrite Er in F. cbn [fst snd] in F.
  rewrite F.
  (* (U*(pd-pn))/pd = (U*(rb^n - ra^n))/rb^n : same rational *)
  set (A := ra ^ n) in *. set (B := rb ^ n) in *.
  apply div_cross; [lia|lia|].
  transitivity (U * (pd * B - pn * B)); [ring|]. rewrite Ecross. ring.
Qed.

Lemma exact_threshold_fuel U a b pool total : exact_threshold U a b pool total <> None.
Proof.
  unfold exact_threshold, exact_pow_sigma. cbv zeta.
  destruct (exact_nth_root a _) eqn:Ea; try discriminate.
  - destruct (exact_nth_root b _) eqn:Eb; try discriminate.
    + destruct (rnorm _ _). destruct (rnorm _ _). discriminate.
    + exfalso. exact (exact_nth_root_fuel _ _ Eb).
  - exfalso. exact (exact_nth_root_fuel _ _ Ea).
Qed.

(* ------------------------------------------------------------------ *)
(* escalation loop: terminates within its fuel *)
Lemma escalate_loop_fuel oracle U cap : forall f tb,
  1 <= tb -> cap < tb * 2 ^ Z.of_nat f ->
  escalate_loop (S f) oracle U tb cap <> OutOfFuel.
Proof.
  induction f as [|f IH]; intros tb Htb Hcap; cbn [escalate_loop].
  - destruct (oracle tb) as [[lo hi]|]; [|discriminate].
    destruct (from_bounded U lo hi tb) as [t [|]]; [discriminate|].
    destruct (Z.geb_spec tb cap); [discriminate|]. cbn in Hcap. lia.
  - destruct (oracle tb) as [[lo hi]|]; [|discriminate].
    destruct (from_bounded U lo hi tb) as [t [|]]; [discriminate|].
    destruct (Z.geb_spec tb cap); [discriminate|].
    apply IH; [lia|]. rewrite Nat2Z.inj_succ, Z.pow_succ_r in Hcap by lia. lia.
Qed.

Lemma escalate_fuel_ok oracle U start cap : 1 <= start -> 0 <= cap ->
  escalate oracle U start cap <> OutOfFuel.
Proof.
  intros Hs Hc. unfold escalate, escalate_fuel.
  replace (Z.to_nat (bitlen cap) + 2)%nat with (S (Z.to_nat (bitlen cap) + 1)) by lia.
  apply escalate_loop_fuel; [exact Hs|].
  assert (Hb : 0 <= bitlen cap).
  { unfold bitlen. destruct (Z.leb_spec cap 0); [lia|]. pose proof (Z.log2_nonneg cap). lia. }
  rewrite Nat2Z.inj_add, Z2Nat.id by lia. change (Z.of_nat 1) with 1.
  rewrite Z.pow_add_r by lia. rewrite Z.pow_1_r.
  destruct (Z.eq_dec cap 0) as [->|].
  - assert (0 < 2 ^ bitlen 0) by (apply pow_pos_base; lia). nia.
  - pose proof (bitlen_spec cap ltac:(lia)) as [_ Hu]. nia.
Qed.

(* the escalation returns a value only through a resolved level *)
Lemma escalate_loop_ret oracle U cap t : forall f tb,
  escalate_loop f oracle U tb cap = Ret t ->
  exists tb' lo hi, oracle tb' = Some (lo, hi) /\ from_bounded U lo hi tb' = (t, true).
Proof.
  induction f as [|f IH]; intros tb; cbn [escalate_loop]; [discriminate|].
  destruct (oracle tb) as [[lo hi]|] eqn:Eo; [|discriminate].
  destruct (from_bounded U lo hi tb) as [t' [|]] eqn:Ef.
  - intros [= <-]. exists tb, lo, hi. auto.
  - destruct (Z.geb_spec tb cap); [discriminate|]. apply IH.
Qed.
