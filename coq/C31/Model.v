(* C31 - the script data hash binds redeemers, datums and cost models.
   Model of ledger/common/rules.go (EncodeLangViews, ShortLex) and of
   UtxoValidateScriptDataHash in ledger/{alonzo,babbage,conway,dijkstra}/rules.go.
   The model describes the tree with fixes/C31-nil-costmodel.patch (a nil
   cost-model slice is encoded like an empty one).  NO proofs in this file. *)
From V Require Import Lib.Base Lib.Hex Lib.Cbor.
Local Open Scope N_scope.

Definition blen {A} (l : list A) : N := N.of_nat (length l).

(* ---- the third-party encoder on the three shapes EncodeLangViews feeds it --
   (shortest-form head; Go int64 -> major 0 / major 1) *)
Definition head_min (mt n : N) : bytes :=
  if n <? 24 then [mt * 32 + n]
  else if n <? 256 then (mt * 32 + 24) :: be 1 n
  else if n <? 65536 then (mt * 32 + 25) :: be 2 n
  else if n <? 4294967296 then (mt * 32 + 26) :: be 4 n
  else (mt * 32 + 27) :: be 8 n.

Definition enc_int64 (z : Z) : bytes :=
  if (0 <=? z)%Z then head_min 0 (Z.to_N z) else head_min 1 (Z.to_N (-1 - z)).

(* cbor.Encode(IndefLengthList of int64) *)
Definition enc_indef_list (cm : list Z) : bytes := [159] ++ flat_map enc_int64 cm ++ [255].
(* cbor.Encode([]byte) *)
Definition enc_bytes (b : bytes) : bytes := head_min 2 (blen b) ++ b.
(* cbor.Encode([]int64), non-nil (after the fix also for nil) *)
Definition enc_def_list (cm : list Z) : bytes := head_min 4 (blen cm) ++ flat_map enc_int64 cm.

(* ---- common.ShortLex ---------------------------------------------------------*)
Fixpoint lex_cmp (a b : bytes) : Z :=
  match a, b with
  | x :: a', y :: b' => if x <? y then (-1)%Z else if y <? x then 1%Z else lex_cmp a' b'
  | _, _ => 0%Z
  end.
Definition short_lex (a b : bytes) : Z :=
  if blen a <? blen b then (-1)%Z else if blen b <? blen a then 1%Z else lex_cmp a b.

(* ---- common.EncodeLangViews ----------------------------------------------------
   used = the keys of usedVersions in the (arbitrary) order the Go map
   iteration yields them; cms = costModels.  None = any error return
   (unsupported version, missing cost model).  Versions: 0 = PlutusV1 ...
   3 = PlutusV4. *)
Definition view := (bytes * bytes)%type.          (* langView{tag, params} *)

Definition tag_of (v : N) : bytes := if v =? 0 then [65; 0] else [v].
Definition params_of (v : N) (cm : list Z) : bytes :=
  if v =? 0 then enc_bytes (enc_indef_list cm) else enc_def_list cm.

Definition view_of (cms : N -> option (list Z)) (v : N) : option view :=
  if 3 <? v then None
  else match cms v with
       | None => None
       | Some cm => Some (tag_of v, params_of v cm)
       end.

Fixpoint views_of (cms : N -> option (list Z)) (used : list N) : option (list view) :=
  match used with
  | [] => Some []
  | v :: r => match view_of cms v, views_of cms r with
              | Some x, Some xs => Some (x :: xs)
              | _, _ => None
              end
  end.

(* sort.Slice(views, ShortLex(tag_i, tag_j) < 0): the Go sort is unstable, the
   tags are pairwise distinct, so every correct sort gives the same list;
   written as an insertion sort *)
Fixpoint insert_view (x : view) (l : list view) : list view :=
  match l with
  | [] => [x]
  | y :: r => if (short_lex (fst x) (fst y) <? 0)%Z then x :: y :: r else y :: insert_view x r
  end.
Definition sort_views (l : list view) : list view := fold_right insert_view [] l.

Definition map_header (n : N) : bytes := if n <? 24 then [160 + n] else [184; n].

Definition encode_lang_views (used : list N) (cms : N -> option (list Z)) : option bytes :=
  match views_of cms used with
  | None => None
  | Some views =>
      let sorted := sort_views views in
      Some (map_header (blen sorted) ++ flat_map (fun x => fst x ++ snd x) sorted)
  end.

(* ---- UtxoValidateScriptDataHash -------------------------------------------------
   What the rule reads from a decoded transaction and the ledger state: *)
Record txview := {
  era : N;                      (* 4 Alonzo 5 Babbage 6 Conway 7 Dijkstra *)
  red_count : N;                (* number of redeemers (list entries / distinct map keys) *)
  red_raw : bytes;              (* stored bytes of witness-set key 5; [] = key absent *)
  dat_count : N;                (* number of witness datums *)
  dat_raw : bytes;              (* stored bytes of witness-set key 4; [] = key absent *)
  wit_v1 : bool; wit_v2 : bool; wit_v3 : bool; wit_v4 : bool;  (* non-empty script lists in the witness set *)
  (* per reference input / regular input: None = UtxoById failed; Some None =
     no output or no script reference; Some (Some k) = reference script of
     kind k (0..3 = PlutusV1..V4, anything else = native) *)
  ref_inputs : list (option (option N));
  inputs : list (option (option N));
  declared : option bytes       (* tx.ScriptDataHash() *)
}.

Definition add_ver (v : N) (l : list N) : list N := if existsb (N.eqb v) l then l else l ++ [v].

(* which reference-script kinds an era's rule looks at *)
Definition ref_counts (e k : N) : bool :=
  if e =? 4 then false else if e =? 5 then k <? 2 else k <? 4.

Definition add_refs (e : N) (rs : list (option (option N))) (l : list N) : list N :=
  fold_left (fun acc r => match r with
                          | Some (Some k) => if ref_counts e k then add_ver k acc else acc
                          | _ => acc
                          end) rs l.

Definition wit_versions (t : txview) : list N :=
  let e := era t in
  let l := if wit_v1 t then [0] else [] in
  let l := if (5 <=? e) && wit_v2 t then add_ver 1 l else l in
  let l := if (6 <=? e) && wit_v3 t then add_ver 2 l else l in
  if (6 <=? e) && wit_v4 t then add_ver 3 l else l.

Definition used_versions (t : txview) : list N :=
  add_refs (era t) (inputs t) (add_refs (era t) (ref_inputs t) (wit_versions t)).

(* redeemersCbor: the stored bytes, or - when the key is absent - the empty
   container of the era's redeemer form (0x80 list / 0xa0 map).  For a decoded
   transaction "no stored bytes" implies "no redeemers", the re-encoding
   branches are not reachable. *)
Definition redeemer_bytes (t : txview) : bytes :=
  match red_raw t with
  | [] => if era t <=? 5 then [128] else [160]
  | _ => red_raw t
  end.
Definition datum_bytes (t : txview) : bytes := if 0 <? dat_count t then dat_raw t else [].

(* result classes: 0 nil, 1 ExtraneousScriptDataHashError, 2 MissingScriptDataHashError,
   3 MissingCostModelError, 4 ScriptDataHashMismatchError, 5 ReferenceInputResolutionError,
   6 any other error *)
Section rule.
  Variable H256 : bytes -> bytes.

  Definition preimage (t : txview) (lv : bytes) : bytes := redeemer_bytes t ++ datum_bytes t ++ lv.

  (* (class, computed hash when the rule got as far as computing one) *)
  Definition script_data_hash_rule (cms : N -> option (list Z)) (t : txview) : N * option bytes :=
    if (5 <=? era t) && existsb (fun r => match r with None => true | _ => false end) (ref_inputs t) then (5, None)
    else if negb (0 <? red_count t) && negb (0 <? dat_count t) then
      match declared t with Some _ => (1, None) | None => (0, None) end
    else match declared t with
    | None => (2, None)
    | Some d =>
      let used := used_versions t in
      if existsb (fun v => match cms v with None => true | Some _ => false end) used then (3, None)
      else match encode_lang_views used cms with
      | None => (6, None)
      | Some lv =>
          let h := H256 (preimage t lv) in
          if bytes_eqb d h then (0, Some h) else (4, Some h)
      end
    end.
End rule.

(* ---- correspondence ------------------------------------------------------------*)
(* blake2b-256 restricted to the finite table the harness computed *)
Fixpoint h_tbl (tbl : list (bytes * bytes)) (x : bytes) : bytes :=
  match tbl with
  | [] => []
  | (p, d) :: r => if bytes_eqb p x then d else h_tbl r x
  end.

Definition cms_of (l : list (N * list Z)) (v : N) : option (list Z) :=
  match find (fun e => fst e =? v) l with Some e => Some (snd e) | None => None end.

Inductive case :=
| CLang (used : list N) (cms : list (N * list Z)) (o : option bytes)          (* EncodeLangViews *)
(* EncodeLangViews where the cost model of language v is `n` copies of `z` (built here, so that
   very long tables need no long literal); the observed output is given as pre ++ k copies of byte b ++ suf *)
| CLangRep (used : list N) (cms : list (N * list Z)) (v n : N) (z : Z) (o : option (bytes * N * N * bytes))
| CLex (a b : bytes) (o : Z)                                                   (* ShortLex *)
| CRule (t : txview) (cms : list (N * list Z)) (tbl : list (bytes * bytes))
        (o_class : N) (o_computed : option bytes).                             (* the era's rule *)

Definition optb_eqb := opt_eqb bytes_eqb.

Definition check_case (c : case) : bool :=
  match c with
  | CLang used cms o => optb_eqb (encode_lang_views used (cms_of cms)) o
  | CLangRep used cms v n z o =>
      let cms' := fun w => if w =? v then Some (repeat z (N.to_nat n)) else cms_of cms w in
      match encode_lang_views used cms', o with
      | Some out, Some (pre, b, k, suf) => bytes_eqb out (pre ++ repeat b (N.to_nat k) ++ suf)
      | None, None => true
      | _, _ => false
      end
  | CLex a b o => (short_lex a b =? o)%Z
  | CRule t cms tbl oc oh =>
      let '(mc, mh) := script_data_hash_rule (h_tbl tbl) (cms_of cms) t in
      (mc =? oc) && (if oc =? 4 then optb_eqb mh oh else true)
  end.

Definition mismatches := failing check_case.
