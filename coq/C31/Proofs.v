(* C31 - specification and lemmas. *)
From V Require Import Lib.Base Lib.Hex Lib.Cbor C31.Model.
Local Open Scope N_scope.

(* ---- specification of the language views (Alonzo ledger spec / alonzo.cddl
   `language_views`): a definite CBOR map with one entry per language used,
   in canonical key order (shorter encoded key first, then bytewise);
     PlutusV1 : key = the byte string containing the encoding of 0  (41 00),
                value = the byte string containing the INDEFINITE-length list
                of the cost model's integers
     PlutusV2+: key = the unsigned integer 1 / 2 / 3, value = the
                DEFINITE-length list of the integers
   all integers and all lengths in shortest form.  Written with the syntax
   tree of Lib/Cbor (independent of the byte-level functions of the model). *)
Definition int_item (z : Z) : item :=
  if (0 <=? z)%Z then UInt (min_form (Z.to_N z)) (Z.to_N z)
  else NInt (min_form (Z.to_N (-1 - z))) (Z.to_N (-1 - z)).

Definition view_kv (v : N) (cm : list Z) : item * item :=
  if v =? 0 then
    (BStr Fimm (enc (UInt Fimm 0)),
     let inner := enc (Arr None (map int_item cm)) in BStr (min_form (blen inner)) inner)
  else (UInt Fimm v, Arr (Some (min_form (blen cm))) (map int_item cm)).

(* the four possible keys in canonical order: 01 < 02 < 03 < 41 00 *)
Definition canon_order : list N := [1; 2; 3; 0].
Definition mem (l : list N) (v : N) : bool := existsb (N.eqb v) l.
Definition cm_get (cms : N -> option (list Z)) (v : N) : list Z :=
  match cms v with Some cm => cm | None => [] end.

Definition views_spec (used : list N) (cms : N -> option (list Z)) : list (item * item) :=
  map (fun v => view_kv v (cm_get cms v)) (filter (mem used) canon_order).

Definition lang_views_spec (used : list N) (cms : N -> option (list Z)) : option bytes :=
  if forallb (fun v => (v <=? 3) && match cms v with Some _ => true | None => false end) used
  then Some (enc (Map (Some Fimm) (views_spec used cms)))
  else None.

(* independent statement of the key order *)
Fixpoint lex_lt (a b : bytes) : Prop :=
  match a, b with
  | x :: a', y :: b' => x < y \/ (x = y /\ lex_lt a' b')
  | _, _ => False
  end.
Definition shortlex_lt (a b : bytes) : Prop :=
  (length a < length b)%nat \/ (length a = length b /\ lex_lt a b).
Fixpoint ascending (l : list bytes) : Prop :=
  match l with
  | a :: ((b :: _) as r) => shortlex_lt a b /\ ascending r
  | _ => True
  end.

(* ---- byte-level encoder = shortest-form heads of Lib/Cbor ------------------*)
Lemma head_min_eq mt n : head_min mt n = enc_head mt (min_form n) n.
Proof.
  unfold head_min, min_form, enc_head.
  change (2 ^ 8) with 256. change (2 ^ 16) with 65536. change (2 ^ 32) with 4294967296.
  destruct (n <? 24); [reflexivity|]. destruct (n <? 256); [reflexivity|].
  destruct (n <? 65536); [reflexivity|]. destruct (n <? 4294967296); reflexivity.
Qed.

Lemma enc_int64_eq z : enc_int64 z = enc (int_item z).
Proof. unfold enc_int64, int_item. destruct (0 <=? z)%Z; cbn [enc]; apply head_min_eq. Qed.

Lemma flat_enc_int64 cm : flat_map enc_int64 cm = flat_map enc (map int_item cm).
Proof. induction cm as [|z r IH]; cbn [flat_map map]; [reflexivity|]. rewrite enc_int64_eq, IH. reflexivity. Qed.

Lemma blen_map {A B} (f : A -> B) l : blen (map f l) = blen l.
Proof. unfold blen. rewrite map_length. reflexivity. Qed.

(* one key/value pair: the bytes the code appends = the encoding of the specified pair *)
Lemma view_bytes v cm : v <= 3 ->
  tag_of v ++ params_of v cm = enc (fst (view_kv v cm)) ++ enc (snd (view_kv v cm)).
Proof.
  intros Hv. unfold tag_of, params_of, view_kv. destruct (v =? 0) eqn:E; cbn [fst snd].
  - cbn [enc]. unfold enc_bytes, enc_indef_list. rewrite head_min_eq, flat_enc_int64. reflexivity.
  - apply N.eqb_neq in E. cbn [enc]. unfold enc_def_list. rewrite head_min_eq, flat_enc_int64.
    rewrite map_length. fold (blen cm). reflexivity.
Qed.

(* ---- the sort puts the views in canonical order -----------------------------*)
Section sorting.
  Variable P : N -> bytes.
  Definition mk (v : N) : view := (tag_of v, P v).

  Lemma insert_filter v r : v <= 3 -> mem r v = false ->
    insert_view (mk v) (map mk (filter (mem r) canon_order)) = map mk (filter (mem (v :: r)) canon_order).
  Proof.
    intros Hv Hm. assert (Hc : v = 0 \/ v = 1 \/ v = 2 \/ v = 3) by lia.
    unfold canon_order, mem in *.
    destruct Hc as [-> | [-> | [-> | ->]]]; cbn [existsb filter]; rewrite ?Hm;
      destruct (existsb (N.eqb 1) r), (existsb (N.eqb 2) r), (existsb (N.eqb 3) r), (existsb (N.eqb 0) r);
      try discriminate Hm; vm_compute; reflexivity.
  Qed.

  Lemma sort_used used : NoDup used -> Forall (fun v => v <= 3) used ->
    sort_views (map mk used) = map mk (filter (mem used) canon_order).
  Proof.
    induction used as [|v r IH]; intros Hnd Hall; [reflexivity|].
    inversion Hnd as [|? ? Hnin Hnd']; subst. inversion Hall as [|? ? Hv Hall']; subst.
    cbn [map sort_views fold_right]. fold (sort_views (map mk r)). rewrite IH by assumption.
    apply insert_filter; [exact Hv|].
    unfold mem. destruct (existsb (N.eqb v) r) eqn:E; [|reflexivity].
    apply existsb_exists in E. destruct E as (x & Hin & Hx). apply N.eqb_eq in Hx. subst x. contradiction.
  Qed.
End sorting.

Definition used_ok (cms : N -> option (list Z)) (used : list N) : bool :=
  forallb (fun v => (v <=? 3) && match cms v with Some _ => true | None => false end) used.

Lemma views_of_ok cms used : used_ok cms used = true ->
  views_of cms used = Some (map (mk (fun v => params_of v (cm_get cms v))) used).
Proof.
  unfold used_ok. induction used as [|v r IH]; cbn [forallb views_of map]; [reflexivity|].
  intros H. apply andb_true_iff in H. destruct H as [Hv Hr]. apply andb_true_iff in Hv. destruct Hv as [H3 Hc].
  rewrite (IH Hr). unfold view_of, mk, cm_get. apply N.leb_le in H3.
  replace (3 <? v) with false by (symmetry; apply N.ltb_ge; exact H3).
  destruct (cms v); [reflexivity|discriminate].
Qed.

Lemma views_of_err cms used : used_ok cms used = false -> views_of cms used = None.
Proof.
  unfold used_ok. induction used as [|v r IH]; cbn [forallb views_of]; [discriminate|].
  intros H. apply andb_false_iff in H. destruct H as [Hv|Hr].
  - unfold view_of. destruct (3 <? v) eqn:E3; [reflexivity|]. apply N.ltb_ge in E3.
    replace (v <=? 3) with true in Hv by (symmetry; apply N.leb_le; exact E3). cbn [andb] in Hv.
    destruct (cms v); [discriminate|reflexivity].
  - rewrite (IH Hr). destruct (view_of cms v); reflexivity.
Qed.

Lemma used_ok_forall cms used : used_ok cms used = true -> Forall (fun v => v <= 3) used.
Proof.
  unfold used_ok. intros H. rewrite forallb_forall in H. apply Forall_forall. intros v Hin.
  specialize (H v Hin). apply andb_true_iff in H. destruct H as [H _]. apply N.leb_le. exact H.
Qed.

Lemma filter_canon_len f : (length (filter f canon_order) <= 4)%nat.
Proof. unfold canon_order. cbn [filter]. destruct (f 1), (f 2), (f 3), (f 0); cbn [length]; lia. Qed.

Lemma filter_canon_le3 f : Forall (fun v => v <= 3) (filter f canon_order).
Proof.
  apply Forall_forall. intros v Hin. apply filter_In in Hin. destruct Hin as [Hin _].
  unfold canon_order in Hin. cbn [In] in Hin. lia.
Qed.

Lemma flat_views cms l : Forall (fun v => v <= 3) l ->
  flat_map (fun x : view => fst x ++ snd x) (map (mk (fun v => params_of v (cm_get cms v))) l) =
  flat_map (fun kv : item * item => enc (fst kv) ++ enc (snd kv)) (map (fun v => view_kv v (cm_get cms v)) l).
Proof.
  induction 1 as [|v r Hv _ IH]; cbn [map flat_map]; [reflexivity|].
  rewrite IH. unfold mk at 1. cbn [fst snd]. rewrite <- (view_bytes v _ Hv). reflexivity.
Qed.

(* EncodeLangViews = the specified encoding, for every set of languages (in
   any iteration order) and all cost models *)
Lemma encode_lang_views_spec used cms : NoDup used ->
  encode_lang_views used cms = lang_views_spec used cms.
Proof.
  intros Hnd. unfold encode_lang_views, lang_views_spec. fold (used_ok cms used).
  destruct (used_ok cms used) eqn:Hok.
  - rewrite (views_of_ok _ _ Hok). rewrite (sort_used _ used Hnd (used_ok_forall _ _ Hok)).
    f_equal. unfold views_spec. cbn [enc]. rewrite !map_length.
    pose proof (filter_canon_len (mem used)) as Hl.
    unfold blen. rewrite map_length.
    set (n := N.of_nat (length (filter (mem used) canon_order))).
    assert (Hn : n < 24) by (unfold n; lia).
    unfold map_header. replace (n <? 24) with true by (symmetry; apply N.ltb_lt; exact Hn).
    unfold enc_head. cbn [ai_of nbytes be app]. change (5 * 32) with 160.
    rewrite (flat_views cms _ (filter_canon_le3 _)). reflexivity.
  - rewrite (views_of_err _ _ Hok). reflexivity.
Qed.

(* the keys of the specified map, as encoded, are strictly ascending in the
   length-then-bytewise order *)
Lemma keys_ascending used cms :
  ascending (map (fun kv => enc (fst kv)) (views_spec used cms)).
Proof.
  unfold views_spec, canon_order. cbn [filter].
  destruct (mem used 1), (mem used 2), (mem used 3), (mem used 0); cbn [map ascending];
    unfold shortlex_lt; cbn; repeat split; auto; try (right; split; [reflexivity|left; lia]); try (left; lia).
Qed.

(* every language used has exactly one entry and no other language has one *)
Lemma views_spec_keys used cms v : v <= 3 ->
  (In (view_kv v (cm_get cms v)) (views_spec used cms) <-> mem used v = true).
Proof.
  intros Hv. unfold views_spec. split.
  - intros Hin. apply in_map_iff in Hin. destruct Hin as (w & E & Hw). apply filter_In in Hw. destruct Hw as [Hc Hm].
    assert (w = v); [|subst; exact Hm].
    unfold canon_order in Hc. cbn [In] in Hc. unfold view_kv in E.
    assert (Hcv : v = 0 \/ v = 1 \/ v = 2 \/ v = 3) by lia.
    destruct Hc as [<- | [<- | [<- | [<- | []]]]]; destruct Hcv as [-> | [-> | [-> | ->]]]; cbn in E; try reflexivity; try discriminate E;
      inversion E.
  - intros Hm. apply in_map_iff. exists v. split; [reflexivity|]. apply filter_In. split; [|exact Hm].
    unfold canon_order. cbn [In]. lia.
Qed.

(* ---- the set of languages is duplicate-free (a Go map's key set) ------------*)

Lemma nodup_snoc (v : N) l : NoDup l -> ~ In v l -> NoDup (l ++ [v]).
Proof.
  induction l as [|x r IH]; intros Hnd Hnin; cbn [app].
  - constructor; [intros []|constructor].
  - inversion Hnd as [|? ? Hx Hr]; subst. constructor.
    + intros Hin. apply in_app_or in Hin. destruct Hin as [Hin|[<-|[]]]; [contradiction|]. apply Hnin. left. reflexivity.
    + apply IH; [exact Hr|]. intros Hin. apply Hnin. right. exact Hin.
Qed.

Lemma add_ver_nodup v l : NoDup l -> NoDup (add_ver v l).
Proof.
  intros H. unfold add_ver. destruct (existsb (N.eqb v) l) eqn:E; [exact H|].
  apply nodup_snoc; [exact H|]. intros Hin.
  assert (existsb (N.eqb v) l = true); [|congruence].
  apply existsb_exists. exists v. split; [exact Hin|apply N.eqb_refl].
Qed.

Lemma add_refs_nodup e rs : forall l, NoDup l -> NoDup (add_refs e rs l).
Proof.
  unfold add_refs. induction rs as [|r rs IH]; intros l H; cbn [fold_left]; [exact H|].
  apply IH. destruct r as [[k|]|]; try exact H. destruct (ref_counts e k); [apply add_ver_nodup|]; exact H.
Qed.

Lemma used_versions_nodup t : NoDup (used_versions t).
Proof.
  unfold used_versions. apply add_refs_nodup, add_refs_nodup. unfold wit_versions.
  assert (H0 : NoDup (if wit_v1 t then [0] else [])).
  { destruct (wit_v1 t); [constructor; [intros []|constructor]|constructor]. }
  destruct ((5 <=? era t) && wit_v2 t), ((6 <=? era t) && wit_v3 t), ((6 <=? era t) && wit_v4 t);
    repeat apply add_ver_nodup; exact H0.
Qed.

(* ---- the rule -----------------------------------------------------------------*)
Definition required (t : txview) : Prop := 0 < red_count t \/ 0 < dat_count t.
Definition refs_resolved (t : txview) : Prop := era t < 5 \/ Forall (fun r => r <> None) (ref_inputs t).

Lemma refs_resolved_dec t :
  ((5 <=? era t) && existsb (fun r : option (option N) => match r with None => true | _ => false end) (ref_inputs t)) = false
  <-> refs_resolved t.
Proof.
  unfold refs_resolved. split.
  - intros H. apply andb_false_iff in H. destruct H as [H|H]; [left; apply N.leb_gt; exact H|right].
    apply Forall_forall. intros r Hin ->.
    assert (existsb (fun r : option (option N) => match r with None => true | _ => false end) (ref_inputs t) = true); [|congruence].
    apply existsb_exists. exists None. split; [exact Hin|reflexivity].
  - intros [H|H]; apply andb_false_iff; [left; apply N.leb_gt; exact H|right].
    destruct (existsb _ (ref_inputs t)) eqn:E; [|reflexivity].
    apply existsb_exists in E. destruct E as ([|] & Hin & Hx); [discriminate|].
    rewrite Forall_forall in H. exfalso. exact (H None Hin eq_refl).
Qed.

Lemma required_dec t : (negb (0 <? red_count t) && negb (0 <? dat_count t)) = false <-> required t.
Proof.
  unfold required. destruct (0 <? red_count t) eqn:E1; destruct (0 <? dat_count t) eqn:E2; cbn [negb andb];
    try apply N.ltb_lt in E1; try apply N.ltb_lt in E2; try apply N.ltb_ge in E1; try apply N.ltb_ge in E2;
    split; intros; try reflexivity; try discriminate; try tauto; lia.
Qed.

Lemma missing_cm_spec cms used :
  existsb (fun v => match cms v with None => true | Some _ => false end) used = true -> lang_views_spec used cms = None.
Proof.
  intros H. apply existsb_exists in H. destruct H as (v & Hin & Hv).
  unfold lang_views_spec. replace (forallb _ used) with false; [reflexivity|].
  symmetry. apply not_true_is_false. intros Hf. rewrite forallb_forall in Hf. specialize (Hf v Hin).
  destruct (cms v); [discriminate|]. rewrite andb_false_r in Hf. discriminate.
Qed.

Section rule_spec.
  Variable H256 : bytes -> bytes.

  Definition accepts cms t : Prop := fst (script_data_hash_rule H256 cms t) = 0.

  Definition rule_spec cms t : Prop :=
    refs_resolved t /\
    ((~ required t /\ declared t = None) \/
     (required t /\ exists d lv, declared t = Some d /\ lang_views_spec (used_versions t) cms = Some lv
                               /\ d = H256 (redeemer_bytes t ++ datum_bytes t ++ lv))).

  Lemma rule_accepts_iff cms t : accepts cms t <-> rule_spec cms t.
  Proof.
    unfold accepts, rule_spec, script_data_hash_rule.
    pose proof (refs_resolved_dec t) as HR. pose proof (required_dec t) as HQ.
    destruct ((5 <=? era t) && existsb _ (ref_inputs t)) eqn:E5.
    { cbn [fst]. split; [discriminate|]. intros [Hr _]. apply HR in Hr. discriminate. }
    assert (Hres : refs_resolved t) by (apply HR; reflexivity).
    destruct (negb (0 <? red_count t) && negb (0 <? dat_count t)) eqn:EQ.
    { assert (Hnr : ~ required t) by (intros Hq; apply HQ in Hq; discriminate).
      destruct (declared t) as [d|]; cbn [fst]; split; try discriminate; try tauto.
      all: try (intros [_ [[_ Hd]|[Hq _]]]; [discriminate|contradiction]).
      all: try (intros _; split; [exact Hres|left; split; [exact Hnr|reflexivity]]). }
    assert (Hreq : required t) by (apply HQ; reflexivity).
    destruct (declared t) as [d|]; cbn [fst].
    2:{ split; [discriminate|]. intros [_ [[Hn _]|[_ (d & lv & Hd & _)]]]; [contradiction|discriminate]. }
    destruct (existsb _ (used_versions t)) eqn:Ecm.
    { cbn [fst]. split; [discriminate|]. intros [_ [[Hn _]|[_ (d' & lv & _ & Hlv & _)]]]; [contradiction|].
      rewrite (missing_cm_spec _ _ Ecm) in Hlv. discriminate. }
    rewrite (encode_lang_views_spec _ cms (used_versions_nodup t)).
    destruct (lang_views_spec (used_versions t) cms) as [lv|] eqn:Elv.
    2:{ cbn [fst]. split; [discriminate|]. intros [_ [[Hn _]|[_ (d' & lv & _ & Hlv & _)]]]; [contradiction|discriminate]. }
    unfold preimage. destruct (bytes_eqb d (H256 _)) eqn:Eh; cbn [fst].
    - apply bytes_eqb_eq in Eh. split; [|reflexivity]. intros _. split; [exact Hres|right; split; [exact Hreq|]].
      exists d, lv. repeat split; [exact Eh].
    - split; [discriminate|]. intros [_ [[Hn _]|[_ (d' & lv' & Hd & Hlv & Hh)]]]; [contradiction|].
      injection Hd as <-. injection Hlv as <-. apply bytes_eqb_eq in Hh. congruence.
  Qed.

  (* the two rejection clauses of the property *)
  Lemma rule_extraneous cms t d : refs_resolved t -> ~ required t -> declared t = Some d ->
    fst (script_data_hash_rule H256 cms t) = 1.
  Proof.
    intros Hr Hn Hd. unfold script_data_hash_rule. apply refs_resolved_dec in Hr. rewrite Hr.
    destruct (negb (0 <? red_count t) && negb (0 <? dat_count t)) eqn:EQ.
    - rewrite Hd. reflexivity.
    - exfalso. apply Hn. apply required_dec. exact EQ.
  Qed.

  Lemma rule_missing cms t : refs_resolved t -> required t -> declared t = None ->
    fst (script_data_hash_rule H256 cms t) = 2.
  Proof.
    intros Hr Hq Hd. unfold script_data_hash_rule. apply refs_resolved_dec in Hr. rewrite Hr.
    apply required_dec in Hq. rewrite Hq, Hd. reflexivity.
  Qed.

  (* ---- binding, under an explicit injectivity hypothesis on the hash ---------*)
  Hypothesis H256_inj : forall x y, H256 x = H256 y -> x = y.

  Lemma binding cms1 cms2 t1 t2 : accepts cms1 t1 -> accepts cms2 t2 -> required t1 -> required t2 ->
    declared t1 = declared t2 ->
    exists lv1 lv2, lang_views_spec (used_versions t1) cms1 = Some lv1 /\ lang_views_spec (used_versions t2) cms2 = Some lv2 /\
      redeemer_bytes t1 ++ datum_bytes t1 ++ lv1 = redeemer_bytes t2 ++ datum_bytes t2 ++ lv2.
  Proof.
    intros A1 A2 Q1 Q2 Hd. apply rule_accepts_iff in A1. apply rule_accepts_iff in A2.
    destruct A1 as [_ [[N1 _]|[_ (d1 & lv1 & D1 & L1 & E1)]]]; [contradiction|].
    destruct A2 as [_ [[N2 _]|[_ (d2 & lv2 & D2 & L2 & E2)]]]; [contradiction|].
    exists lv1, lv2. repeat split; [exact L1|exact L2|]. apply H256_inj. congruence.
  Qed.
End rule_spec.

(* ---- the rule is a function of the CURRENT cost models of the languages used:
   nothing else about the protocol parameters (their identity, their past
   contents) can influence the verdict.  An implementation that is handed a
   mutable parameter object may violate this by caching; that is checked by
   the correspondence run on validation histories. *)
Lemma views_of_ext cms cms' used : (forall v, In v used -> cms v = cms' v) ->
  views_of cms used = views_of cms' used.
Proof.
  induction used as [|v r IH]; intros H; cbn [views_of]; [reflexivity|].
  rewrite IH by (intros w Hw; apply H; right; exact Hw).
  unfold view_of. rewrite (H v (or_introl eq_refl)). reflexivity.
Qed.

Lemma existsb_ext_in {A} (f g : A -> bool) l : (forall x, In x l -> f x = g x) -> existsb f l = existsb g l.
Proof.
  induction l as [|a r IH]; intros H; cbn [existsb]; [reflexivity|].
  rewrite (H a (or_introl eq_refl)), IH; [reflexivity|]. intros x Hx. apply H. right. exact Hx.
Qed.

Lemma rule_current_cost_models H256 cms cms' t :
  (forall v, In v (used_versions t) -> cms v = cms' v) ->
  script_data_hash_rule H256 cms t = script_data_hash_rule H256 cms' t.
Proof.
  intros H. unfold script_data_hash_rule, encode_lang_views.
  rewrite (views_of_ext cms cms' _ H).
  rewrite (existsb_ext_in (fun v => match cms v with None => true | Some _ => false end)
                          (fun v => match cms' v with None => true | Some _ => false end) (used_versions t))
    by (intros v Hv; rewrite (H v Hv); reflexivity).
  reflexivity.
Qed.
