(* C31 - property theorems only.  The model describes the repository code
   with fixes/C31-nil-costmodel.patch. *)
From Coq Require Import String.
From V Require Import Lib.Base Lib.Hex Lib.Cbor C31.Model C31.Gen C31.Proofs.
Local Open Scope N_scope.

(* EncodeLangViews, for every duplicate-free list of languages (= every Go map
   key set in every iteration order) and every cost-model table (any lengths,
   any integers): an error iff some used language is not PlutusV1..V4 or has
   no cost model; otherwise exactly the specified canonical map (V1
   double-wrapped with an indefinite list, V2+ definite lists, shortest-form
   integers).  In particular the output does not depend on the order of
   `used`. *)
Theorem C31_langviews : forall used cms, NoDup used ->
  encode_lang_views used cms = lang_views_spec used cms.
Proof. exact encode_lang_views_spec. Qed.
Print Assumptions C31_langviews.

Theorem C31_langviews_order_independent : forall used used' cms, NoDup used -> NoDup used' ->
  (forall v, In v used <-> In v used') -> encode_lang_views used cms = encode_lang_views used' cms.
Proof.
  intros used used' cms H H' Hiff. rewrite !encode_lang_views_spec by assumption.
  assert (Hm : forall v, mem used v = mem used' v).
  { intros v. unfold mem. destruct (existsb (N.eqb v) used) eqn:E; destruct (existsb (N.eqb v) used') eqn:E'; try reflexivity.
    - apply existsb_exists in E. destruct E as (x & Hin & Hx). apply N.eqb_eq in Hx. subst x.
      apply Hiff in Hin. assert (existsb (N.eqb v) used' = true) by (apply existsb_exists; exists v; split; [exact Hin|apply N.eqb_refl]). congruence.
    - apply existsb_exists in E'. destruct E' as (x & Hin & Hx). apply N.eqb_eq in Hx. subst x.
      apply Hiff in Hin. assert (existsb (N.eqb v) used = true) by (apply existsb_exists; exists v; split; [exact Hin|apply N.eqb_refl]). congruence. }
  unfold lang_views_spec, views_spec.
  replace (filter (mem used') canon_order) with (filter (mem used) canon_order) by (apply filter_ext; exact Hm).
  replace (forallb _ used') with (forallb (fun v => (v <=? 3) && match cms v with Some _ => true | None => false end) used); [reflexivity|].
  destruct (forallb _ used) eqn:E; destruct (forallb _ used') eqn:E'; try reflexivity.
  - rewrite forallb_forall in E. assert (forallb (fun v => (v <=? 3) && match cms v with Some _ => true | None => false end) used' = true); [|congruence].
    apply forallb_forall. intros v Hin. apply E, Hiff, Hin.
  - rewrite forallb_forall in E'. assert (forallb (fun v => (v <=? 3) && match cms v with Some _ => true | None => false end) used = true); [|congruence].
    apply forallb_forall. intros v Hin. apply E', Hiff, Hin.
Qed.

(* the keys of the specified map are strictly ascending in length-then-bytewise
   order, and its entries are exactly the languages used *)
Theorem C31_keys_shortlex : forall used cms,
  ascending (map (fun kv => enc (fst kv)) (views_spec used cms)).
Proof. exact keys_ascending. Qed.

Theorem C31_entries : forall used cms v, v <= 3 ->
  (In (view_kv v (cm_get cms v)) (views_spec used cms) <-> mem used v = true).
Proof. exact views_spec_keys. Qed.

Section hash.
  Variable H256 : bytes -> bytes.

  (* the rule accepts iff: reference inputs resolve, and either nothing needs
     hashing and no hash is declared, or redeemers/datums are present and the
     declared hash is H256 (original redeemer bytes ++ original datum bytes
     when there are datums ++ language views of the languages used) *)
  Theorem C31_rule : forall cms t,
    fst (script_data_hash_rule H256 cms t) = 0 <->
    refs_resolved t /\
    ((~ required t /\ declared t = None) \/
     (required t /\ exists d lv, declared t = Some d /\ lang_views_spec (used_versions t) cms = Some lv
                               /\ d = H256 (redeemer_bytes t ++ datum_bytes t ++ lv))).
  Proof. exact (rule_accepts_iff H256). Qed.

  Theorem C31_extraneous_rejected : forall cms t d, refs_resolved t -> ~ required t -> declared t = Some d ->
    fst (script_data_hash_rule H256 cms t) = 1.
  Proof. exact (rule_extraneous H256). Qed.

  Theorem C31_missing_rejected : forall cms t, refs_resolved t -> required t -> declared t = None ->
    fst (script_data_hash_rule H256 cms t) = 2.
  Proof. exact (rule_missing H256). Qed.

  (* binding: IF the hash is injective (explicit hypothesis; true of no real
     hash, a stand-in for collision resistance), two accepted transactions
     that need a hash and declare the same one hash the same byte string *)
  Hypothesis H256_inj : forall x y, H256 x = H256 y -> x = y.

  Theorem C31_binding : forall cms1 cms2 t1 t2,
    fst (script_data_hash_rule H256 cms1 t1) = 0 -> fst (script_data_hash_rule H256 cms2 t2) = 0 ->
    required t1 -> required t2 -> declared t1 = declared t2 ->
    exists lv1 lv2, lang_views_spec (used_versions t1) cms1 = Some lv1 /\ lang_views_spec (used_versions t2) cms2 = Some lv2 /\
      redeemer_bytes t1 ++ datum_bytes t1 ++ lv1 = redeemer_bytes t2 ++ datum_bytes t2 ++ lv2.
  Proof. exact (binding H256 H256_inj). Qed.

  (* changing only the redeemer bytes / only the datum bytes / only the
     language views changes the hash that must be declared *)
  Corollary C31_binding_redeemers : forall cms1 cms2 t1 t2,
    fst (script_data_hash_rule H256 cms1 t1) = 0 -> fst (script_data_hash_rule H256 cms2 t2) = 0 ->
    required t1 -> required t2 -> datum_bytes t1 = datum_bytes t2 ->
    lang_views_spec (used_versions t1) cms1 = lang_views_spec (used_versions t2) cms2 ->
    redeemer_bytes t1 <> redeemer_bytes t2 -> declared t1 <> declared t2.
  Proof.
    intros cms1 cms2 t1 t2 A1 A2 Q1 Q2 Hd Hl Hr Hdecl.
    destruct (C31_binding _ _ _ _ A1 A2 Q1 Q2 Hdecl) as (lv1 & lv2 & L1 & L2 & E).
    rewrite L1, L2 in Hl. injection Hl as <-. rewrite Hd in E. apply app_inv_tail in E. contradiction.
  Qed.

  Corollary C31_binding_datums : forall cms1 cms2 t1 t2,
    fst (script_data_hash_rule H256 cms1 t1) = 0 -> fst (script_data_hash_rule H256 cms2 t2) = 0 ->
    required t1 -> required t2 -> redeemer_bytes t1 = redeemer_bytes t2 ->
    lang_views_spec (used_versions t1) cms1 = lang_views_spec (used_versions t2) cms2 ->
    datum_bytes t1 <> datum_bytes t2 -> declared t1 <> declared t2.
  Proof.
    intros cms1 cms2 t1 t2 A1 A2 Q1 Q2 Hr Hl Hd Hdecl.
    destruct (C31_binding _ _ _ _ A1 A2 Q1 Q2 Hdecl) as (lv1 & lv2 & L1 & L2 & E).
    rewrite L1, L2 in Hl. injection Hl as <-. rewrite Hr in E. apply app_inv_head in E. apply app_inv_tail in E. contradiction.
  Qed.

  Corollary C31_binding_langviews : forall cms1 cms2 t1 t2,
    fst (script_data_hash_rule H256 cms1 t1) = 0 -> fst (script_data_hash_rule H256 cms2 t2) = 0 ->
    required t1 -> required t2 -> redeemer_bytes t1 = redeemer_bytes t2 -> datum_bytes t1 = datum_bytes t2 ->
    lang_views_spec (used_versions t1) cms1 <> lang_views_spec (used_versions t2) cms2 -> declared t1 <> declared t2.
  Proof.
    intros cms1 cms2 t1 t2 A1 A2 Q1 Q2 Hr Hd Hl Hdecl.
    destruct (C31_binding _ _ _ _ A1 A2 Q1 Q2 Hdecl) as (lv1 & lv2 & L1 & L2 & E).
    rewrite Hr, Hd in E. apply app_inv_head in E. apply app_inv_head in E. apply Hl. congruence.
  Qed.
End hash.
Print Assumptions C31_rule.
Print Assumptions C31_binding_langviews.

(* the verdict (and the computed hash) depends on the protocol parameters only
   through the current cost models of the languages used *)
Theorem C31_rule_current_cost_models : forall H256 cms cms' t,
  (forall v, In v (used_versions t) -> cms v = cms' v) ->
  script_data_hash_rule H256 cms t = script_data_hash_rule H256 cms' t.
Proof. exact rule_current_cost_models. Qed.

(* every era from Alonzo on lists the rule (generated from the current tree) *)
Local Open Scope string_scope.
Definition missing_rule : list string :=
  map (fun e => snd (fst e))
      (filter (fun e => negb (existsb (String.eqb "UtxoValidateScriptDataHash") (snd e))) era_table).
Theorem C31_eras : missing_rule = [] /\
  map (fun e => fst e) era_table = [(4%N, "alonzo"); (5%N, "babbage"); (6%N, "conway"); (7%N, "dijkstra")].
Proof. vm_compute. split; reflexivity. Qed.

(* non-vacuity: the specified views of {V1, V2} with cost models [-1] and [24],
   given in both orders; a transaction view that is accepted, one per rejection *)
Example C31_example_views2 :
  encode_lang_views [0%N; 1%N] (cms_of [(0%N, [(-1)%Z]); (1%N, [24%Z])]) = encode_lang_views [1%N; 0%N] (cms_of [(0%N, [(-1)%Z]); (1%N, [24%Z])])
  /\ encode_lang_views [0%N; 1%N] (cms_of [(0%N, [(-1)%Z]); (1%N, [24%Z])]) = Some (hx "a2018118184100439f20ff").
Proof. vm_compute. split; reflexivity. Qed.
Example C31_example_rule :
  let t := {| era := 6; red_count := 1; red_raw := hx "a1820000820182"; dat_count := 0; dat_raw := []; wit_v1 := false; wit_v2 := true;
              wit_v3 := false; wit_v4 := false; ref_inputs := []; inputs := []; declared := Some [7%N] |} in
  fst (script_data_hash_rule (fun _ => [7%N]) (cms_of [(1%N, [1%Z])]) t) = 0%N /\
  fst (script_data_hash_rule (fun _ => [8%N]) (cms_of [(1%N, [1%Z])]) t) = 4%N /\
  fst (script_data_hash_rule (fun _ => [7%N]) (cms_of []) t) = 3%N.
Proof. vm_compute. repeat split. Qed.
