From Coq Require Import String.
From V Require Import Lib.Base C32.Gen C32.Model.
Local Open Scope Z_scope.

(* ---------- specification (from the property text) ---------- *)
Definition runs_scripts (t : tx) : Prop := t_nred t <> 0%N.
Definition resolved (t : tx) (os : list output) : Prop := t_inputs t = map Some os.
(* collateral balance: what the inputs hold minus what is returned *)
Definition balance (os : list output) (ret : option output) : Z := sum_amounts os - ret_amount ret.
Definition share_covered (t : tx) (os : list output) : Prop := balance os (t_ret t) * 100 >= t_fee t * t_pct t.
Definition tokens_returned (os : list output) (ret : option output) : Prop :=
  exists r, ret = Some r /\ forall k, qty (all_entries os) k = qty (o_entries r) k.
Definition count_ok (t : tx) : Prop := Z.of_nat (length (t_inputs t)) <= t_max t.

(* "ada-only" as the code decides it (structural) and semantically *)
Definition ada_only_struct (later : bool) (o : output) : Prop :=
  if later then o_has_assets o = false \/ o_npol o = 0%N else o_has_assets o = false.
Definition wf_output (o : output) : Prop :=   (* entries only under a policy of a present asset bundle *)
  (o_has_assets o = false \/ o_npol o = 0%N) -> o_entries o = [].
Definition no_tokens (os : list output) : Prop := forall k, qty (all_entries os) k = 0.

(* ---------- small facts ---------- *)
Lemma resolve_all_map os : resolve_all (map Some os) = Some os.
Proof. induction os as [|o os IH]; cbn; [reflexivity|]. now rewrite IH. Qed.

Lemma resolve_all_none l : In None l -> resolve_all l = None.
Proof.
  induction l as [|[o|] l IH]; cbn; intros H; [tauto| |reflexivity].
  destruct H as [H|H]; [discriminate|]. now rewrite IH.
Qed.

Lemma qty_notin l k : ~ In k (map fst l) -> qty l k = 0.
Proof.
  induction l as [|[k' q] l IH]; cbn [qty map fst In]; intros H; [reflexivity|].
  destruct (N.eqb_spec k' k) as [->|Hne]; [exfalso; apply H; now left|].
  rewrite IH; [lia|]. intros Hin. apply H. now right.
Qed.

Lemma assets_eqb_spec a b : assets_eqb a b = true <-> forall k, qty a k = qty b k.
Proof.
  unfold assets_eqb. rewrite forallb_forall. split.
  - intros H k. destruct (in_dec N.eq_dec k (map fst a ++ map fst b)) as [Hin|Hn].
    + apply H in Hin. now apply Z.eqb_eq.
    + rewrite !qty_notin; [reflexivity| |]; intros Hin; apply Hn; apply in_or_app; tauto.
  - intros H k _. apply Z.eqb_eq, H.
Qed.

Lemma qty_app a b k : qty (a ++ b) k = qty a k + qty b k.
Proof. induction a as [|[k' q] a IH]; cbn [qty app]; [lia|]. rewrite IH. lia. Qed.

Lemma existsb_false_forall {A} (f : A -> bool) l : existsb f l = false <-> forall x, In x l -> f x = false.
Proof.
  induction l as [|a l IH]; cbn [existsb In]; [split; [intros _ x []|reflexivity]|].
  rewrite orb_false_iff, IH. split.
  - intros [Ha Hl] x [<-|Hx]; auto.
  - intros H. split; [apply H; now left|intros x Hx; apply H; now right].
Qed.

(* ---------- the four rule bodies against the specification ---------- *)
Lemma nocoll_spec t : runs_scripts t -> (nocoll t = ROk <-> t_inputs t <> []).
Proof.
  unfold runs_scripts, nocoll. intros H. destruct (N.eqb_spec (t_nred t) 0) as [E|_]; [contradiction|].
  destruct (t_inputs t); split; intros; congruence.
Qed.

Lemma toomany_spec t : toomany t = ROk <-> count_ok t.
Proof.
  unfold toomany, count_ok. destruct (Z.leb_spec (Z.of_nat (length (t_inputs t))) (t_max t)); split; intros; try reflexivity; try lia; discriminate.
Qed.

Lemma insufficient_spec later t os : runs_scripts t -> resolved t os -> (later = false -> t_ret t = None) ->
  (insufficient later t = ROk <-> share_covered t os).
Proof.
  unfold runs_scripts, resolved, insufficient, share_covered, balance. intros Hr Hres Hret.
  destruct (N.eqb_spec (t_nred t) 0) as [E|_]; [contradiction|].
  rewrite Hres, resolve_all_map.
  assert ((if later then sum_amounts os - ret_amount (t_ret t) else sum_amounts os) = sum_amounts os - ret_amount (t_ret t)) as ->.
  { destruct later; [reflexivity|]. rewrite Hret by reflexivity. cbn [ret_amount]. lia. }
  destruct (Z.leb_spec (t_fee t * t_pct t) ((sum_amounts os - ret_amount (t_ret t)) * 100)); split; intros; try reflexivity; try lia; discriminate.
Qed.

Lemma insufficient_unresolved later t : runs_scripts t -> In None (t_inputs t) -> insufficient later t = RErr.
Proof.
  unfold runs_scripts, insufficient. intros Hr Hin. destruct (N.eqb_spec (t_nred t) 0) as [E|_]; [contradiction|].
  now rewrite resolve_all_none.
Qed.

Lemma nonada_unresolved later t : runs_scripts t -> In None (t_inputs t) -> nonada later t = RErr.
Proof.
  unfold runs_scripts, nonada. intros Hr Hin. destruct (N.eqb_spec (t_nred t) 0) as [E|_]; [contradiction|].
  now rewrite resolve_all_none.
Qed.

Lemma no_scripts_no_requirement later t : t_nred t = 0%N ->
  nocoll t = ROk /\ insufficient later t = ROk /\ nonada later t = ROk.
Proof. unfold nocoll, insufficient, nonada. intros ->. cbn. auto. Qed.

Lemma nonada_spec later t os : runs_scripts t -> resolved t os ->
  (nonada later t = ROk <->
   (forall o, In o os -> ada_only_struct later o) \/ (later = true /\ tokens_returned os (t_ret t))).
Proof.
  unfold runs_scripts, resolved, nonada, tokens_returned. intros Hr Hres.
  destruct (N.eqb_spec (t_nred t) 0) as [E|_]; [contradiction|].
  rewrite Hres, resolve_all_map. destruct later.
  - destruct (existsb (fun o => o_has_assets o && negb (o_npol o =? 0)%N) os) eqn:Ex.
    + assert (~ forall o, In o os -> ada_only_struct true o) as Hn.
      { intros Hall. apply existsb_exists in Ex. destruct Ex as (o & Hin & Ho). specialize (Hall o Hin). cbn in Hall.
        apply andb_true_iff in Ho. destruct Ho as [H1 H2]. apply negb_true_iff, N.eqb_neq in H2. destruct Hall; congruence. }
      destruct (t_ret t) as [r|].
      * destruct (assets_eqb (all_entries os) (o_entries r)) eqn:Eq.
        -- split; [|reflexivity]. intros _. right. split; [reflexivity|]. exists r. split; [reflexivity|]. now apply assets_eqb_spec.
        -- split; [discriminate|]. intros [H|[_ (r' & Hr' & Hq)]]; [contradiction|].
           inversion Hr'; subst r'. apply assets_eqb_spec in Hq. congruence.
      * split; [discriminate|]. intros [H|[_ (r' & Hr' & _)]]; [contradiction|discriminate].
    + split; [|reflexivity]. intros _. left. intros o Hin. cbn.
      rewrite existsb_false_forall in Ex. specialize (Ex o Hin). apply andb_false_iff in Ex.
      destruct Ex as [H|H]; [now left|right]. apply negb_false_iff in H. now apply N.eqb_eq.
  - destruct (existsb o_has_assets os) eqn:Ex.
    + split; [discriminate|]. intros [H|[H _]]; [|discriminate].
      apply existsb_exists in Ex. destruct Ex as (o & Hin & Ho). specialize (H o Hin). cbn in H. congruence.
    + split; [|reflexivity]. intros _. left. intros o Hin. cbn. rewrite existsb_false_forall in Ex. auto.
Qed.

Lemma ada_only_no_tokens later os : (forall o, In o os -> wf_output o) ->
  (forall o, In o os -> ada_only_struct later o) -> no_tokens os.
Proof.
  unfold no_tokens, all_entries. intros Hwf Hall k. induction os as [|o os IH]; [reflexivity|].
  cbn [flat_map]. rewrite qty_app. rewrite IH; [|intros; apply Hwf; now right|intros; apply Hall; now right].
  assert (o_entries o = []) as ->; [|reflexivity].
  apply Hwf; [now left|]. specialize (Hall o (or_introl eq_refl)). destruct later; cbn in Hall; tauto.
Qed.

(* ---------- VerifyTransaction ---------- *)
Lemma verify_ok_in other rs t r : verify other rs t = ROk -> In r rs -> rule_sem other r t = ROk.
Proof.
  induction rs as [|a rs IH]; cbn [verify In]; [tauto|]. intros H [<-|Hin].
  - destruct (rule_sem other a t); [reflexivity|discriminate|discriminate].
  - destruct (rule_sem other a t); [auto|discriminate|discriminate].
Qed.

Lemma verify_single t r : verify (fun _ _ => ROk) [r] t = rule_sem (fun _ _ => ROk) r t.
Proof. cbn [verify]. now destruct (rule_sem _ r t). Qed.

(* ---------- translator table ---------- *)
Lemma table_ok : bad_entries = [].
Proof. vm_compute. reflexivity. Qed.

Lemma in_eras4 era : In era eras4 -> era = "alonzo"%string \/ era = "babbage"%string \/ era = "conway"%string \/ era = "dijkstra"%string.
Proof. cbn. intros H. repeat destruct H as [<-|H]; tauto. Qed.

Lemma era_kind_holds era k : In era eras4 -> era_kind_ok era k = true.
Proof.
  intros He. pose proof table_ok as T. unfold bad_entries in T.
  destruct (era_kind_ok era k) eqn:E; [reflexivity|exfalso].
  assert (In (era, k) (filter (fun p => negb (era_kind_ok (fst p) (snd p))) (flat_map (fun era => map (fun k => (era, k)) kinds) eras4))) as F.
  { apply filter_In. split; [|cbn [fst snd]; now rewrite E].
    apply in_flat_map. exists era. split; [exact He|]. apply in_map. destruct k; cbn; tauto. }
  rewrite T in F. destruct F.
Qed.

Lemma kind_names_of era rs k : In era eras4 -> rules_of era = Some rs -> kind_names rs k = [expected era k].
Proof.
  intros He H. pose proof (era_kind_holds era k He) as E. unfold era_kind_ok in E. rewrite H in E.
  apply (list_eqb_eq String.eqb); [intros; apply String.eqb_eq|exact E].
Qed.

Lemma assoc_expected era k : In era eras4 -> assoc (expected era k) rule_table = Some (k, is_later era).
Proof. intros He. apply in_eras4 in He. destruct He as [->|[->|[->| ->]]]; destruct k; vm_compute; reflexivity. Qed.

Lemma sem_expected other era k t : In era eras4 -> rule_sem other (expected era k) t = rule_fn k (is_later era) t.
Proof. intros He. unfold rule_sem. now rewrite assoc_expected. Qed.

Lemma run_kind_fn era rs k t : In era eras4 -> rules_of era = Some rs -> run_kind rs k t = rule_fn k (is_later era) t.
Proof. intros He H. unfold run_kind. rewrite (kind_names_of era rs k He H), verify_single. now apply sem_expected. Qed.

Lemma has_kind_expected era k : In era eras4 -> has_kind k (expected era k) = true.
Proof. intros He. unfold has_kind. rewrite assoc_expected by exact He. now destruct k. Qed.

Lemma expected_in_list era rs k : In era eras4 -> rules_of era = Some rs -> In (expected era k) rs.
Proof.
  intros He H. pose proof (kind_names_of era rs k He H) as E. unfold kind_names in E.
  assert (In (expected era k) (filter (has_kind k) rs)) as F by (rewrite E; now left).
  apply filter_In in F. tauto.
Qed.

Lemma verify_rule_fn other era rs k t : In era eras4 -> rules_of era = Some rs ->
  verify other rs t = ROk -> rule_fn k (is_later era) t = ROk.
Proof.
  intros He H V. rewrite <- (sem_expected other era k t He).
  eapply verify_ok_in; [exact V|]. now apply expected_in_list.
Qed.

Lemma every_era_has_rules era : In era eras4 -> exists rs, rules_of era = Some rs.
Proof. intros He. apply in_eras4 in He. destruct He as [->|[->|[->| ->]]]; eexists; vm_compute; reflexivity. Qed.

Lemma is_later_alonzo era : is_later era = false -> era = "alonzo"%string.
Proof. unfold is_later. intros H. apply negb_false_iff in H. now apply String.eqb_eq. Qed.

(* the precomputed table used by the correspondence check is the definition *)
Lemma kind_table_ok : kind_table = kind_table_def.
Proof. vm_compute. reflexivity. Qed.

Lemma check_case_run_kind c rs : In (k_era c) eras4 -> rules_of (k_era c) = Some rs ->
  check_case c =
    (list_eqb result_eqb
      (map (fun k => run_kind rs k (mk_tx (k_nred c) (k_inputs c) (k_fee c) (k_ret c) (k_pct c) (k_max c))) kinds) (k_obs c) &&
     list_eqb result_eqb
      (map (fun k => run_kind rs k (mk_tx (k_nred c) (k_inputs c) (k_fee c) (k_ret c) (k_pct c) (k_max c))) kinds) (k_obs2 c))%bool.
Proof.
  intros He H. unfold check_case. rewrite kind_table_ok. unfold kind_table_def.
  assert (forall l, In (k_era c) l ->
    (forall era, In era l -> In era eras4) ->
    NoDup l ->
    assoc (k_era c) (map (fun era => (era, map (fun k => (k, match rules_of era with Some rs => kind_names rs k | None => [] end)) kinds)) l)
    = Some (map (fun k => (k, kind_names rs k)) kinds)) as A.
  { induction l as [|e l IH]; intros Hin Hall Hnd; [destruct Hin|]. cbn [map assoc].
    destruct (String.eqb_spec (k_era c) e) as [<-|Hne].
    - now rewrite H.
    - destruct Hin as [->|Hin]; [contradiction|]. inversion Hnd; subst. apply IH; auto. intros; apply Hall; now right. }
  rewrite A; [|exact He|auto|].
  - rewrite map_map. reflexivity.
  - repeat constructor; cbn; intuition discriminate.
Qed.

(* ---- the script gate ---- *)
Lemma nred_of_tags_zero tags : (nred_of_tags tags =? 0)%N = match tags with [] => true | _ => false end.
Proof. destruct tags; reflexivity. Qed.

(* every rule body reads the redeemers only through "count == 0" *)
Lemma rule_fn_gate k later n n' ins fee ret pct mx : (n =? 0)%N = (n' =? 0)%N ->
  rule_fn k later (mk_tx n ins fee ret pct mx) = rule_fn k later (mk_tx n' ins fee ret pct mx).
Proof.
  intros H. destruct k; unfold rule_fn, nocoll, insufficient, nonada, toomany;
    cbn [t_nred t_inputs t_fee t_ret t_pct t_max]; rewrite ?H; reflexivity.
Qed.
