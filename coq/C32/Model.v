(* C32 - collateral rules.  Model (with fixes/C32-*.patch applied) of
     ledger/{alonzo,babbage,conway,dijkstra}/rules.go
       UtxoValidateNoCollateralInputs, UtxoValidateInsufficientCollateral,
       UtxoValidateCollateralContainsNonAda, UtxoValidateTooManyCollateralInputs
     ledger/common/common.go  MultiAsset.Add / Compare (as per-asset quantities)
     ledger/common/rules.go   VerifyTransaction
   The era rule lists come from the translator (Gen.v).  Amounts are *big.Int in
   the code: Z, no wrap anywhere. *)
From Coq Require Import String.
From V Require Import Lib.Base C32.Gen.
Local Open Scope Z_scope.

(* what the rules read of a resolved collateral UTxO / the collateral return:
   Amount(), Assets() != nil, len(Assets().Policies()), every (asset id, quantity) *)
Record output := mk_output { o_amount : Z; o_has_assets : bool; o_npol : N; o_entries : list (N * Z) }.

Inductive result := ROk | RReject | RErr.   (* nil / the rule's own error / UtxoById error *)
Definition result_eqb (a b : result) : bool :=
  match a, b with ROk, ROk | RReject, RReject | RErr, RErr => true | _, _ => false end.

Record tx := mk_tx {
  t_nred : N;                        (* number of redeemers *)
  t_inputs : list (option output);   (* tx.Collateral() resolved by ls.UtxoById; None = lookup error *)
  t_fee : Z;
  t_ret : option output;             (* tx.CollateralReturn() *)
  t_pct : Z;                         (* pparams CollateralPercentage *)
  t_max : Z                          (* pparams MaxCollateralInputs *)
}.

Inductive kind := KNoColl | KInsufficient | KNonAda | KTooMany.
Definition kind_eqb (a b : kind) : bool :=
  match a, b with KNoColl, KNoColl | KInsufficient, KInsufficient | KNonAda, KNonAda | KTooMany, KTooMany => true | _, _ => false end.

(* the loop `for _, in := range tx.Collateral() { utxo, err := ls.UtxoById(in); if err != nil { return err } ... }` *)
Fixpoint resolve_all (l : list (option output)) : option (list output) :=
  match l with
  | [] => Some []
  | None :: _ => None
  | Some o :: r => match resolve_all r with Some os => Some (o :: os) | None => None end
  end.

Definition sum_amounts (os : list output) : Z := fold_right (fun o a => o_amount o + a) 0 os.
Definition ret_amount (r : option output) : Z := match r with Some o => o_amount o | None => 0 end.

(* UtxoValidateInsufficientCollateral; babbage+ subtract the collateral return (sub_ret) *)
Definition insufficient (sub_ret : bool) (t : tx) : result :=
  if (t_nred t =? 0)%N then ROk else
  match resolve_all (t_inputs t) with
  | None => RErr
  | Some os =>
    let total := sum_amounts os in
    let bal := if sub_ret then total - ret_amount (t_ret t) else total in
    if t_fee t * t_pct t <=? bal * 100 then ROk else RReject
  end.

(* MultiAsset: quantity of one asset in a bag of entries (Add sums, absent = 0) *)
Fixpoint qty (l : list (N * Z)) (k : N) : Z :=
  match l with
  | [] => 0
  | (k', q) :: r => (if (k' =? k)%N then q else 0) + qty r k
  end.
(* MultiAsset.Compare on normalised maps = all quantities agree *)
Definition assets_eqb (a b : list (N * Z)) : bool :=
  forallb (fun k => qty a k =? qty b k) (map fst a ++ map fst b).
Definition all_entries (os : list output) : list (N * Z) := flat_map o_entries os.

(* UtxoValidateCollateralContainsNonAda.
   alonzo:   bad output = Assets() != nil; any bad output rejects
   babbage+: bad output = Assets() != nil && len(Policies()) != 0; bad outputs are
             allowed when the return carries exactly the summed assets of all inputs *)
Definition nonada (with_ret : bool) (t : tx) : result :=
  if (t_nred t =? 0)%N then ROk else
  match resolve_all (t_inputs t) with
  | None => RErr
  | Some os =>
    if with_ret then
      if existsb (fun o => o_has_assets o && negb (o_npol o =? 0)%N) os then
        match t_ret t with
        | Some r => if assets_eqb (all_entries os) (o_entries r) then ROk else RReject
        | None => RReject
        end
      else ROk
    else
      if existsb o_has_assets os then RReject else ROk
  end.

(* UtxoValidateNoCollateralInputs *)
Definition nocoll (t : tx) : result :=
  if (t_nred t =? 0)%N then ROk else
  match t_inputs t with [] => RReject | _ => ROk end.

(* UtxoValidateTooManyCollateralInputs (not conditional on redeemers) *)
Definition toomany (t : tx) : result :=
  if Z.of_nat (length (t_inputs t)) <=? t_max t then ROk else RReject.

Definition rule_fn (k : kind) (later : bool) (t : tx) : result :=
  match k with
  | KNoColl => nocoll t
  | KInsufficient => insufficient later t
  | KNonAda => nonada later t
  | KTooMany => toomany t
  end.

Definition eras4 : list string := ["alonzo"; "babbage"; "conway"; "dijkstra"]%string.
Definition kinds : list kind := [KNoColl; KInsufficient; KNonAda; KTooMany].
Definition suffix (k : kind) : string :=
  match k with
  | KNoColl => "NoCollateralInputs" | KInsufficient => "InsufficientCollateral"
  | KNonAda => "CollateralContainsNonAda" | KTooMany => "TooManyCollateralInputs" end.
Definition is_later (era : string) : bool := negb (String.eqb era "alonzo").
(* every era has its own copy of the four functions *)
Definition expected (era : string) (k : kind) : string := (era ++ ".UtxoValidate" ++ suffix k)%string.
Definition rule_table : list (string * (kind * bool)) := Eval vm_compute in
  flat_map (fun era => map (fun k => (expected era k, (k, is_later era))) kinds) eras4.

Fixpoint assoc {A} (k : string) (l : list (string * A)) : option A :=
  match l with
  | [] => None
  | (k', v) :: r => if String.eqb k k' then Some v else assoc k r
  end.
Definition rules_of (era : string) : option (list string) := assoc era era_rules.

Definition rule_sem (other : string -> tx -> result) (name : string) (t : tx) : result :=
  match assoc name rule_table with
  | Some (k, later) => rule_fn k later t
  | None => other name t
  end.

(* common.VerifyTransaction: the first non-nil error, else nil *)
Fixpoint verify (other : string -> tx -> result) (rules : list string) (t : tx) : result :=
  match rules with
  | [] => ROk
  | r :: rest => match rule_sem other r t with ROk => verify other rest t | e => e end
  end.

Definition has_kind (k : kind) (name : string) : bool :=
  match assoc name rule_table with Some (k', _) => kind_eqb k k' | None => false end.
Definition kind_names (rules : list string) (k : kind) : list string := filter (has_kind k) rules.
(* one clause: VerifyTransaction over the entries of the list that implement it *)
Definition run_kind (rules : list string) (k : kind) (t : tx) : result :=
  verify (fun _ _ => ROk) (kind_names rules k) t.

Record case := mk_case {
  k_era : string;
  k_tags : list N;   (* purposes (RedeemerTag) of the redeemers of the decoded witness set, one entry per redeemer *)
  k_inputs : list (option output); k_fee : Z; k_ret : option output;
  k_pct : Z; k_max : Z;
  k_obs : list result;     (* per clause, rule function(s) called directly *)
  k_obs2 : list result }.  (* per clause, through common.VerifyTransaction over the whole era list *)
(* per era and clause, the entries of the real list that implement the clause
   (computed once; Proofs.kind_table_ok ties it to kind_names/rules_of) *)
Definition kind_table_def : list (string * list (kind * list string)) :=
  map (fun era => (era, map (fun k => (k, match rules_of era with Some rs => kind_names rs k | None => [] end)) kinds)) eras4.
Definition kind_table : list (string * list (kind * list string)) := Eval vm_compute in kind_table_def.
(* "runs scripts": the rules count the redeemers, whatever their purposes *)
Definition nred_of_tags (tags : list N) : N := N.of_nat (length tags).
Definition k_nred (c : case) : N := nred_of_tags (k_tags c).
Definition check_case (c : case) : bool :=
  match assoc (k_era c) kind_table with
  | None => false
  | Some kt =>
    let t := mk_tx (k_nred c) (k_inputs c) (k_fee c) (k_ret c) (k_pct c) (k_max c) in
    let model := map (fun kn => verify (fun _ _ => ROk) (snd kn) t) kt in
    list_eqb result_eqb model (k_obs c) && list_eqb result_eqb model (k_obs2 c)
  end.
Definition mismatches : list case -> list nat := failing check_case.

(* table checker: per era and clause, the list holds exactly the era's own function *)
Definition era_kind_ok (era : string) (k : kind) : bool :=
  match rules_of era with
  | Some rs => list_eqb String.eqb (kind_names rs k) [expected era k]
  | None => false
  end.
Definition bad_entries : list (string * kind) :=
  filter (fun p => negb (era_kind_ok (fst p) (snd p))) (flat_map (fun era => map (fun k => (era, k)) kinds) eras4).
