(* C32 - property theorems only. *)
From Coq Require Import String.
From V Require Import Lib.Base C32.Gen C32.Model C32.Proofs.
Local Open Scope Z_scope.

(* Throughout: era ranges over Alonzo..Dijkstra, rs is the era's real rule
   list (translator), t is any transaction view (all numbers in unbounded Z),
   "runs scripts" = has a redeemer, os = the resolved collateral UTxOs. *)

(* exact fee share: balance x 100 >= fee x percentage, no rounding; the
   balance is inputs minus collateral return (Alonzo has no return) *)
Theorem C32_sufficient : forall era rs t os, In era eras4 -> rules_of era = Some rs ->
  runs_scripts t -> resolved t os -> (era = "alonzo"%string -> t_ret t = None) ->
  (run_kind rs KInsufficient t = ROk <-> share_covered t os).
Proof.
  intros era rs t os He H Hr Hres Hret. rewrite (run_kind_fn era rs _ t He H). cbn [rule_fn].
  apply insufficient_spec; auto. intros L. apply Hret. now apply is_later_alonzo.
Qed.
Print Assumptions C32_sufficient.

(* an unresolvable collateral input is never accepted *)
Theorem C32_unresolved : forall era rs t, In era eras4 -> rules_of era = Some rs ->
  runs_scripts t -> In None (t_inputs t) -> run_kind rs KInsufficient t = RErr /\ run_kind rs KNonAda t = RErr.
Proof.
  intros era rs t He H Hr Hin. rewrite !(run_kind_fn era rs _ t He H). cbn [rule_fn].
  split; [now apply insufficient_unresolved|now apply nonada_unresolved].
Qed.

Theorem C32_some_input : forall era rs t, In era eras4 -> rules_of era = Some rs ->
  runs_scripts t -> (run_kind rs KNoColl t = ROk <-> t_inputs t <> []).
Proof. intros era rs t He H Hr. rewrite (run_kind_fn era rs _ t He H). now apply nocoll_spec. Qed.
Print Assumptions C32_some_input.

Theorem C32_count : forall era rs t, In era eras4 -> rules_of era = Some rs ->
  (run_kind rs KTooMany t = ROk <-> count_ok t).
Proof. intros era rs t He H. rewrite (run_kind_fn era rs _ t He H). apply toomany_spec. Qed.
Print Assumptions C32_count.

(* ada-only (as the code decides it: no asset bundle; from Babbage on also a
   bundle without policies) unless, from Babbage on, the return carries exactly
   the tokens of all collateral inputs *)
Theorem C32_nonada : forall era rs t os, In era eras4 -> rules_of era = Some rs ->
  runs_scripts t -> resolved t os ->
  (run_kind rs KNonAda t = ROk <->
   (forall o, In o os -> ada_only_struct (is_later era) o) \/ (era <> "alonzo"%string /\ tokens_returned os (t_ret t))).
Proof.
  intros era rs t os He H Hr Hres. rewrite (run_kind_fn era rs _ t He H). cbn [rule_fn].
  rewrite (nonada_spec (is_later era) t os Hr Hres).
  assert (is_later era = true <-> era <> "alonzo"%string) as E.
  { unfold is_later. rewrite negb_true_iff. split; intros A.
    - intros ->. discriminate.
    - destruct (String.eqb_spec era "alonzo"); [contradiction|reflexivity]. }
  now rewrite E.
Qed.
Print Assumptions C32_nonada.

(* semantic reading for well-formed outputs: an accepted script transaction
   either holds no tokens in its collateral or gets every token back *)
Theorem C32_nonada_sound : forall era rs t os, In era eras4 -> rules_of era = Some rs ->
  runs_scripts t -> resolved t os -> (forall o, In o os -> wf_output o) ->
  run_kind rs KNonAda t = ROk -> no_tokens os \/ tokens_returned os (t_ret t).
Proof.
  intros era rs t os He H Hr Hres Hwf A. apply (C32_nonada era rs t os He H Hr Hres) in A.
  destruct A as [A|[_ A]]; [left; eapply ada_only_no_tokens; eauto|now right].
Qed.

(* no scripts, no collateral requirement *)
Theorem C32_no_scripts : forall era rs t, In era eras4 -> rules_of era = Some rs -> t_nred t = 0%N ->
  run_kind rs KNoColl t = ROk /\ run_kind rs KInsufficient t = ROk /\ run_kind rs KNonAda t = ROk.
Proof.
  intros era rs t He H Hz. rewrite !(run_kind_fn era rs _ t He H). cbn [rule_fn].
  now apply no_scripts_no_requirement.
Qed.

(* the script gate of every clause depends only on whether the redeemer set is
   empty - not on how many redeemers there are nor on their purposes (spend,
   mint, ..., guarding, or any tag added later) *)
Theorem C32_gate_is_nonempty : forall era rs k tags tags' ins fee ret pct mx, In era eras4 -> rules_of era = Some rs ->
  (tags = [] <-> tags' = []) ->
  run_kind rs k (mk_tx (nred_of_tags tags) ins fee ret pct mx) = run_kind rs k (mk_tx (nred_of_tags tags') ins fee ret pct mx).
Proof.
  intros era rs k tags tags' ins fee ret pct mx He H E. rewrite !(run_kind_fn era rs _ _ He H).
  apply rule_fn_gate. rewrite !nred_of_tags_zero. destruct tags, tags'; try reflexivity.
  - destruct E as [E _]. specialize (E eq_refl). discriminate.
  - destruct E as [_ E]. specialize (E eq_refl). discriminate.
Qed.
Print Assumptions C32_gate_is_nonempty.

Theorem C32_any_redeemer_runs_scripts : forall tags, tags <> [] -> forall ins fee ret pct mx,
  runs_scripts (mk_tx (nred_of_tags tags) ins fee ret pct mx).
Proof. intros tags Hne ins fee ret pct mx. unfold runs_scripts, nred_of_tags. cbn [t_nred]. destruct tags; [contradiction|]. cbn [length]. lia. Qed.

(* the property as stated: whatever the other rules of the list do, a script
   transaction that VerifyTransaction accepts satisfies all four clauses *)
Theorem C32_accepted_only_if : forall other era rs t, In era eras4 -> rules_of era = Some rs ->
  runs_scripts t -> (era = "alonzo"%string -> t_ret t = None) ->
  verify other rs t = ROk ->
  exists os, resolved t os /\ os <> [] /\ share_covered t os /\ count_ok t /\
    ((forall o, In o os -> ada_only_struct (is_later era) o) \/ (era <> "alonzo"%string /\ tokens_returned os (t_ret t))).
Proof.
  intros other era rs t He H Hr Hret V.
  pose proof (verify_rule_fn other era rs KInsufficient t He H V) as A2. cbn [rule_fn] in A2.
  assert (exists os, resolved t os) as [os Hres].
  { unfold insufficient in A2. destruct (N.eqb_spec (t_nred t) 0) as [E|_]; [contradiction|].
    destruct (resolve_all (t_inputs t)) as [os|] eqn:R; [|discriminate]. exists os. unfold resolved.
    clear - R. revert os R. induction (t_inputs t) as [|[o|] l IH]; cbn; intros os R; [now inversion R| |discriminate].
    destruct (resolve_all l); [|discriminate]. inversion R; subst. cbn. now rewrite (IH l0 eq_refl). }
  exists os. split; [exact Hres|].
  pose proof (verify_rule_fn other era rs KNoColl t He H V) as A1.
  pose proof (verify_rule_fn other era rs KNonAda t He H V) as A3.
  pose proof (verify_rule_fn other era rs KTooMany t He H V) as A4.
  cbn [rule_fn] in A1, A3, A4.
  change (nocoll t) with (rule_fn KNoColl (is_later era) t) in A1.
  change (insufficient (is_later era) t) with (rule_fn KInsufficient (is_later era) t) in A2.
  change (nonada (is_later era) t) with (rule_fn KNonAda (is_later era) t) in A3.
  change (toomany t) with (rule_fn KTooMany (is_later era) t) in A4.
  rewrite <- (run_kind_fn era rs _ t He H) in A1; rewrite <- (run_kind_fn era rs _ t He H) in A2;
  rewrite <- (run_kind_fn era rs _ t He H) in A3; rewrite <- (run_kind_fn era rs _ t He H) in A4.
  apply (C32_some_input era rs t He H Hr) in A1.
  apply (C32_sufficient era rs t os He H Hr Hres Hret) in A2.
  apply (C32_nonada era rs t os He H Hr Hres) in A3.
  apply (C32_count era rs t He H) in A4.
  repeat split; auto. intros ->. apply A1. unfold resolved in Hres. now rewrite Hres.
Qed.
Print Assumptions C32_accepted_only_if.

Theorem C32_all_eras : forall era, In era eras4 -> exists rs, rules_of era = Some rs.
Proof. exact every_era_has_rules. Qed.

(* non-vacuity: the earlier witness fee 1, 150 %, collateral 1 is rejected by the
   modelled (fixed) rule in every era, and collateral 2 is accepted *)
Example C32_witness : forall era rs, In era eras4 -> rules_of era = Some rs ->
  run_kind rs KInsufficient (mk_tx 1 [Some (mk_output 1 false 0 [])] 1 None 150 3) = RReject /\
  run_kind rs KInsufficient (mk_tx 1 [Some (mk_output 2 false 0 [])] 1 None 150 3) = ROk.
Proof. intros era rs He H. rewrite !(run_kind_fn era rs _ _ He H). destruct (is_later era); vm_compute; auto. Qed.
Example C32_nonvacuous_return : tokens_returned [mk_output 5 true 1 [(1%N, 4)]; mk_output 5 true 1 [(1%N, 3)]] (Some (mk_output 1 true 1 [(1%N, 7)])).
Proof. eexists. split; [reflexivity|]. intros k. unfold all_entries. cbn [flat_map o_entries app qty]. destruct (1 =? k)%N; reflexivity. Qed.
