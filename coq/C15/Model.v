(* C15 - shutdown / rendezvous model.  NO proofs here.

   Part 1: the table types the translator fills (coq/C15/Gen.v, go/ast).
   Part 2: a generic LTS of threads that block at points; a blocked thread is
           released by a raised SIGNAL of one of the alternatives of its point
           (closing of a channel: connection done, muxer done, protocol
           recvDone/sendDone/done, "channel X closed by goroutine g") or by a
           data event (finitely many are left once the connection is closed).
   Part 3: how the table is turned into a system of threads (which function
           runs on which goroutine, which signal a goroutine raises when it
           returns), and the checker `unguarded`. *)
From Coq Require Import String Ascii.
From V Require Import Lib.Base.
Local Open Scope string_scope.
Local Open Scope list_scope.
Infix "^^" := String.append (at level 60, right associativity).

(* ------------------------------------------------------------ 1. table *)
Record alt := mkAlt { a_op : string; a_chan : string; a_class : string }.
Record point := mkP {
  p_file : string; p_func : string; p_ctx : string;   (* api | handler | go | internal | engine | muxer | conn *)
  p_op : string;                                      (* send | recv | range | wait *)
  p_chan : string; p_class : string;
  p_select : bool; p_alts : list alt;                 (* the OTHER cases of the select *)
  p_buf : string }.                                   (* send: unbuffered | buffered | unknown *)
(* lock-release table: on the exit `l_exit` of function `l_func`, is `l_mutex` (locked somewhere in the
   function, not covered by a deferred unlock) released on every path that reaches the exit? *)
Record lockrec := mkL { l_file : string; l_func : string; l_mutex : string; l_exit : string; l_released : bool }.
Definition unreleased (ls : list lockrec) : list (string * string * string * string) :=
  map (fun l => (l_file l, l_func l, l_mutex l, l_exit l)) (filter (fun l => negb (l_released l)) ls).
Record closer := mkC { c_file : string; c_func : string; c_ctx : string; c_chan : string; c_after : string }.

(* ------------------------------------------------------------ 2. LTS *)
Definition signal := string.
(* a blocking point: alternatives in disjunctive normal form; one
   alternative = the signals that must ALL be raised to release it *)
Record bpoint := { bp_id : string * string (* function, channel *); bp_alts : list (list signal) }.
Record thread := { th_name : string; th_points : list bpoint; th_raises : list signal }.
Definition system := list thread.

Inductive tstat := Blocked (i : nat) | Term.
Record state := { raised : list signal; stat : list tstat; data : nat }.

Definition mem (x : string) (l : list string) : bool := existsb (String.eqb x) l.
Definition alt_ready (rs : list signal) (a : list signal) : bool := forallb (fun s => mem s rs) a.
Definition pt_ready (rs : list signal) (p : bpoint) : bool := existsb (alt_ready rs) (bp_alts p).

Inductive label :=
| RelShut (t : nat)          (* thread t takes a shutdown alternative of the point it is blocked at and returns *)
| Move (t : nat) (j : nat)   (* a data event releases t; it blocks again at its point j *)
| Finish (t : nat).          (* a data event releases t; it returns normally *)

Fixpoint set_nth {A} (l : list A) (n : nat) (x : A) : list A :=
  match l, n with
  | [], _ => []
  | _ :: r, O => x :: r
  | a :: r, S n' => a :: set_nth r n' x
  end.

Definition terminate (sys : system) (s : state) (t : nat) (th : thread) (d : nat) : state :=
  {| raised := raised s ++ th_raises th; stat := set_nth (stat s) t Term; data := d |}.

Definition step (sys : system) (s : state) (l : label) : option state :=
  match l with
  | RelShut t =>
      match nth_error sys t, nth_error (stat s) t with
      | Some th, Some (Blocked i) =>
          match nth_error (th_points th) i with
          | Some p => if pt_ready (raised s) p then Some (terminate sys s t th (data s)) else None
          | None => None
          end
      | _, _ => None
      end
  | Move t j =>
      match nth_error sys t, nth_error (stat s) t, data s with
      | Some th, Some (Blocked _), S d =>
          if Nat.ltb j (length (th_points th))
          then Some {| raised := raised s; stat := set_nth (stat s) t (Blocked j); data := d |}
          else None
      | _, _, _ => None
      end
  | Finish t =>
      match nth_error sys t, nth_error (stat s) t, data s with
      | Some th, Some (Blocked _), S d => Some (terminate sys s t th d)
      | _, _, _ => None
      end
  end.

Fixpoint run (sys : system) (s : state) (ls : list label) : option state :=
  match ls with
  | [] => Some s
  | l :: r => match step sys s l with Some s' => run sys s' r | None => None end
  end.

Definition alive (s : state) : nat := length (filter (fun x => match x with Term => false | _ => true end) (stat s)).
Definition all_term (s : state) : Prop := forall t x, nth_error (stat s) t = Some x -> x = Term.
(* nothing can move any more *)
Definition stuck (sys : system) (s : state) : Prop := forall l, step sys s l = None.

(* which signals become available: round by round, a thread all of whose
   points are releasable by what is available will return and raise its own *)
Definition th_ok (av : list signal) (th : thread) : bool := forallb (pt_ready av) (th_points th).
Definition round (sys : system) (av : list signal) : list signal :=
  av ++ flat_map (fun th => if th_ok av th then th_raises th else []) sys.
Fixpoint iter (n : nat) (sys : system) (av : list signal) : list signal :=
  match n with O => av | S n' => iter n' sys (round sys av) end.
Definition final (sys : system) (init : list signal) : list signal := iter (length sys) sys init.
(* the offending (thread, function, channel) triples *)
Definition unguarded_in (fin : list signal) (sys : system) : list (string * (string * string)) :=
  flat_map (fun th => flat_map (fun p => if pt_ready fin p then [] else [(th_name th, bp_id p)])
                               (th_points th)) sys.
Definition unguarded (sys : system) (init : list signal) : list (string * (string * string)) :=
  let fin := final sys init in unguarded_in fin sys.
(* root causes: points that no signal whatsoever could release (not even
   those that are only raised if everything else goes well) *)
Definition all_signals (sys : system) (init : list signal) : list signal := init ++ flat_map th_raises sys.
Definition roots (sys : system) (init : list signal) : list (string * (string * string)) :=
  let fin := all_signals sys init in unguarded_in fin sys.
Definition guarded (sys : system) (init : list signal) : bool :=
  match unguarded sys init with [] => true | _ => false end.

(* ------------------------------------------------------------ 3. table -> system *)
Definition suffix_of (s : string) : string :=   (* text after the last '.' *)
  let fix go (s acc : string) : string :=
    match s with
    | EmptyString => acc
    | String c r => if Ascii.eqb c "."%char then go r "" else go r (acc ^^ String c "")
    end in go s "".

Definition is_shutdown_class (cl : string) : bool :=
  mem cl ["protoDone"; "muxDone"; "recvDone"; "sendDone"; "protoStop"; "connDone"; "connClosed"].

Definition closer_live (after : string) : bool :=
  (is_shutdown_class after && negb (String.eqb after "protoStop")) || String.eqb after "deferred".

(* the signal an alternative (op, channel, class) stands for, in context ctx of file f.
   None = this alternative can never release the point at shutdown. *)
Definition alt_signal (cls : list closer) (sol : string -> string -> string -> string -> string -> bool)
  (f ctx : string) (op ch cl : string) : option signal :=
  if sol f ctx op ch cl then Some "solicited"
  else if String.eqb cl "default" then Some "nonblocking"
  else if String.eqb cl "timer" then Some "timer"
  else if String.eqb cl "ctx" then None                       (* the caller's own context: not a shutdown signal *)
  else if String.eqb cl "protoStop" then None                 (* closed only by Stop(), which connection close does not call *)
  else if is_shutdown_class cl then
    (* doneChan is closed only AFTER recvLoop has returned: inside a message
       handler (which runs ON recvLoop) it can never fire - a dead guard.  Same for recvDone. *)
    if String.eqb ctx "handler" && (String.eqb cl "protoDone" || String.eqb cl "recvDone" || String.eqb cl "sendDone")
    then None else Some cl
  else (* a data channel: a RECEIVE is released when a goroutine closes the channel after a shutdown signal *)
    (* a sync.Cond.Wait is released when a goroutine Signals/Broadcasts the condition on its way out:
       in a deferred call, or after a plain receive of a live shutdown signal.  A waker that runs
       only on the data path (after each handled message) or only inside Protocol.Stop is no guard. *)
    if String.eqb op "recv" || String.eqb op "range" || String.eqb op "condwait" then
      match find (fun c => String.eqb (c_file c) f && String.eqb (suffix_of (c_chan c)) (suffix_of ch)
                           && closer_live (c_after c)) cls with
      | Some c => Some ("closed:" ^^ f ^^ ":" ^^ suffix_of ch)
      | None => None
      end
    else None.

Definition opt_list {A} (o : option A) : list A := match o with Some x => [x] | None => [] end.
Definition solf := string -> string -> string -> string -> string -> bool.
Definition bp_of (cls : list closer) (sol : solf) (extra : point -> list signal) (p : point) : bpoint :=
  {| bp_id := (p_func p, p_chan p);
     bp_alts := map (fun s => [s])
       (opt_list (alt_signal cls sol (p_file p) (p_ctx p) (p_op p) (p_chan p) (p_class p))
        ++ flat_map (fun a => opt_list (alt_signal cls sol (p_file p) (p_ctx p) (a_op a) (a_chan a) (a_class a))) (p_alts p)
        ++ extra p) |}.

Definition funcs_of (ps : list point) : list string :=
  fold_right (fun p acc => if mem (p_func p) acc then acc else p_func p :: acc) [] ps.
Definition files_of (ps : list point) : list string :=
  fold_right (fun p acc => if mem (p_file p) acc then acc else p_file p :: acc) [] ps.

(* signals a `go` function raises when it returns: the channels it closes *)
Definition go_raises (cls : list closer) (f fn : string) : list signal :=
  map (fun c => "closed:" ^^ f ^^ ":" ^^ suffix_of (c_chan c))
      (filter (fun c => String.eqb (c_file c) f && String.eqb (c_func c) fn) cls).

(* protocol.go: which loop a function's points belong to and what the loop
   raises when it returns (HAND-WRITTEN from protocol.go: recvLoop closes
   recvDoneChan, sendLoop closes sendDoneChan, Start$go1 closes doneChan) *)
Definition engine_threads : list (string * list string * list signal) := [
  ("engine:recvLoop", ["(*Protocol).recvLoop"; "(*Protocol).handleMessage"], ["recvDone"]);
  ("engine:readLoop", ["(*Protocol).readLoop"], []);
  ("engine:sendLoop", ["(*Protocol).sendLoop"], ["sendDone"]);
  ("engine:doneCloser", ["(*Protocol).Start$go1"], ["protoDone"]);
  ("engine:stateLoop", ["(*Protocol).stateLoop"], []);
  ("engine:callers", ["(*Protocol).transitionState"; "(*Protocol).enqueueMessage"; "(*Protocol).waitForMessageDelivery";
                      "(*Protocol).SendError"; "(*Protocol).WaitSendQueueDrained"; "(*Protocol).IsDone";
                      "(*Protocol).IsInTerminalOrIdleState"; "deliveryResultOrShutdown"], [])].
(* muxer.go / connection.go (HAND-WRITTEN): readLoop's deferred code closes
   every protocol's receive channel; the cleanup goroutine closes ErrorChan
   after doneChan; Connection.Close closes c.doneChan; the shutdown goroutine
   stops the muxer and closes connClosedChan, then waits for the forwarders *)
Definition infra_threads : list (string * list string * list signal) := [
  ("muxer:readLoop", ["(*Muxer).readLoop"], ["muxRecvClosed"; "T:muxer:readLoop"]);
  ("muxer:sender", ["(*Muxer).RegisterProtocol$go1"], ["T:muxer:sender"]);
  ("muxer:cleanup", ["New$go1"], ["closed:muxer/muxer.go:errorChan"]);
  ("muxer:api", ["(*Muxer).sendError"; "(*Muxer).Start"; "(*Muxer).StartOnce"; "(*Muxer).Send"; "(*Muxer).RegisterProtocol"], []);
  ("conn:shutdown1", ["(*Connection).setupConnection$go1"], ["muxDone"; "connClosed"]);
  ("conn:shutdown2", ["(*Connection).shutdown"], ["closed:connection.go:errorChan"]);
  ("conn:fwdMuxer", ["(*Connection).setupConnection$go2"], ["T:conn:fwdMuxer"]);
  ("conn:fwdProto", ["(*Connection).setupConnection$go3"], ["T:conn:fwdProto"]);
  ("conn:Close", ["(*Connection).Close"], []);
  ("conn:setup", ["(*Connection).setupConnection"], [])].

(* extra alternatives that are not select cases (HAND-WRITTEN, each with its
   reason):
   - WaitGroup.Wait in muxer cleanup: released when readLoop and the senders returned
   - WaitGroup.Wait in Connection.shutdown: released when both forwarders returned
   - sends on the consumer-facing error channels (capacity 10, at most one send per forwarder)
   - stateLoop's reply `t.errorChan <- ...`: capacity 1, one reply per request
   - transitionState's request: stateLoop answers every request before it looks at stop/done again,
     and stateLoop leaves only on stop/done which are alternatives of the request too *)
Definition extra_alts (p : point) : list signal :=
  if String.eqb (p_chan p) "c.errorChan" || String.eqb (p_chan p) "m.errorChan" then ["nonblocking"]
  else if String.eqb (p_chan p) "t.errorChan" then ["nonblocking"]
  else if String.eqb (p_func p) "(*Protocol).transitionState" then ["nonblocking"]
  (* one-shot result channels of capacity 1 with a single send *)
  else if String.eqb (p_func p) "(*Client).GetCurrentTip$go1" && String.eqb (p_op p) "send" then ["nonblocking"]
  else if String.eqb (p_func p) "(*Client).handleRollBackward$go1" && String.eqb (p_op p) "send" then ["nonblocking"]
  else if String.eqb (p_func p) "(*requestSlot).deliver" && String.eqb (p_op p) "send" then ["nonblocking"]
  (* chain-sync rollback waits for the pipeline drain, which runs under context.WithTimeout(drainTimeout) *)
  else if String.eqb (p_func p) "(*Client).handleRollBackward"
          && (String.eqb (p_chan p) "drainDone" || existsb (fun a => String.eqb (a_chan a) "drainDone") (p_alts p)) then ["timer"]
  (* Client.Start waiting for a concurrent Start (`<-ch`, ch = startingDone): that other call's only
     blocking point is `<-oldDone` (done channel of the stopped previous instance), after which it closes ch *)
  else if String.eqb (p_func p) "(*Client).Start" && String.eqb (p_chan p) "ch" then ["protoDone"]
  else [].
Definition bp_of' (cls : list closer) (sol : solf) (p : point) : bpoint :=
  if String.eqb (p_op p) "wait" then
    {| bp_id := (p_func p, p_chan p);
       bp_alts := if String.eqb (p_file p) "muxer/muxer.go" then [["T:muxer:readLoop"; "T:muxer:sender"]]
                  else [["T:conn:fwdMuxer"; "T:conn:fwdProto"]] |}
  else bp_of cls sol extra_alts p.

Definition mk_threads (cls : list closer) (sol : solf) (ps : list point)
  (spec : list (string * list string * list signal)) : system :=
  map (fun e => let '(nm, fns, rs) := e in
         {| th_name := nm; th_points := map (bp_of' cls sol) (filter (fun p => mem (p_func p) fns) ps); th_raises := rs |}) spec.

(* one protocol role = one client.go / server.go file f:
   its handler points run on recvLoop; each `go` literal and each other function is a thread *)
Definition proto_system (cls : list closer) (sol : solf) (all : list point) (f : string) : system :=
  let eng := filter (fun p => String.eqb (p_file p) "protocol/protocol.go") all in
  let mine := filter (fun p => String.eqb (p_file p) f) all in
  let handler := filter (fun p => String.eqb (p_ctx p) "handler") mine in
  let others := filter (fun p => negb (String.eqb (p_ctx p) "handler")) mine in
  map (fun e => let '(nm, fns, rs) := e in
         {| th_name := nm;
            th_points := map (bp_of' cls sol) (filter (fun p => mem (p_func p) fns) eng
                                              ++ (if String.eqb nm "engine:recvLoop" then handler else []));
            th_raises := rs ++ flat_map (fun fn => go_raises (filter (fun c => closer_live (c_after c)) cls)
                                                             "protocol/protocol.go" fn) fns |}) engine_threads
  ++ map (fun fn => {| th_name := f ^^ ":" ^^ fn;
                       th_points := map (bp_of' cls sol) (filter (fun p => String.eqb (p_func p) fn) others);
                       th_raises := go_raises cls f fn |}) (funcs_of others).

Definition infra_system (cls : list closer) (all : list point) : system :=
  mk_threads cls (fun _ _ _ _ _ => false) all infra_threads.

(* solicited rendezvous (see notes/C15.md): a handler's send on a result
   channel X with no usable alternative is released by the API call that
   receives on X, PROVIDED every receive on X in that file waits
   unconditionally (its only other cases are protocol-done / closed channel:
   the caller never walks away while the protocol lives).  That the reply
   is only accepted when such a call is pending is the state machine's job
   (C11 handler_sound + C16 conformance); it is an explicit assumption signal. *)
Definition never_abandons (ws : list closer) (ps : list point) (f ch : string) : bool :=
  let rs := filter (fun p => String.eqb (p_file p) f && String.eqb (suffix_of (p_chan p)) (suffix_of ch)
                             && (String.eqb (p_op p) "recv" || String.eqb (p_op p) "range")
                             && negb (String.eqb (p_ctx p) "handler")) ps in
  negb (match rs with [] => true | _ => false end)
  && forallb (fun p => forallb (fun a => negb (mem (a_class a) ["ctx"; "timer"; "default"])) (p_alts p)) rs
  (* ... and no receiving function has a return path that leaves while a reply is outstanding
     (generated `walkaways`: a return between two reply receives that is not the shutdown /
     closed-channel / terminating-message branch) *)
  && forallb (fun p => negb (existsb (fun w => String.eqb (c_file w) f && String.eqb (c_func w) (p_func p)) ws)) rs.
Definition solicited (ws : list closer) (ps : list point) : solf := fun f ctx op ch cl =>
  String.eqb ctx "handler" && String.eqb op "send" && String.eqb cl "data" && never_abandons ws ps f ch.

(* signals available once the connection is closed by Close():
   c.doneChan is closed; timers fire; non-blocking operations;
   "solicited" = the assumption above *)
Definition init_signals : list signal := ["connDone"; "timer"; "nonblocking"; "solicited"].
