(* C15 - property theorems only. *)
From Coq Require Import String.
From V Require Import Lib.Base C15.Model C15.Proofs C15.Gen.
Local Open Scope string_scope.

(* Quiescence, generic: for EVERY system of threads whose blocking points are
   all guarded (checker over the table), every state in which the initial
   shutdown signals are raised (= whatever the peer and the schedule did
   before: malformed bytes, wrong-kind or surplus replies, silence,
   disconnect at any point - each thread may be parked at ANY of its points),
   every schedule afterwards: the run is at most (alive threads + pending data
   events) long, and a state where nothing can move has every thread returned. *)
Theorem C15_quiesce : forall sys init s ls s',
  guarded sys init = true -> Inv sys s -> incl init (raised s) ->
  run sys s ls = Some s' ->
  length ls <= nalive (stat s) + data s /\ (stuck sys s' -> all_term s').
Proof.
  intros sys init s ls s' G I A R. destruct (run_inv sys ls s s' I R) as (I' & R' & M). split; [lia|].
  intros St. eapply stuck_all_term; eauto. eapply incl_tran; eauto.
Qed.
Print Assumptions C15_quiesce.

(* ---- the instance: the generated table of the real code ---- *)
Definition proto_files : list string :=
  filter (fun f => negb (mem f ["connection.go"; "muxer/muxer.go"; "protocol/protocol.go"])) (files_of points).
Definition sol := solicited points.
Definition sysof (f : string) : system := app (proto_system closers sol points f) (infra_system closers points).
Definition lmn_server := "protocol/localmessagenotification/server.go".

(* every client.go / server.go with blocking points, except the DMQ
   local-message-notification server (known finding), is guarded: all its
   points - API calls, handlers on recvLoop, helper goroutines, engine loops,
   muxer and connection goroutines - have an alternative that connection
   close eventually raises.  A `<-DoneChan()` case inside a message handler is
   NOT counted (doneChan closes only after recvLoop returned). *)
Definition others := filter (fun f => negb (String.eqb f lmn_server)) proto_files.
Definition offending := flat_map (fun f => map (fun x => (f, x)) (unguarded (sysof f) init_signals)) others.
Theorem C15_guarded_partial : forall f, In f others -> guarded (sysof f) init_signals = true.
Proof. Time apply forallb_forall. Time vm_compute. Time reflexivity. Time Qed.
Print Assumptions C15_guarded_partial.

Theorem C15_quiesce_real : forall f, In f others -> forall s ls s',
  Inv (sysof f) s -> incl init_signals (raised s) -> run (sysof f) s ls = Some s' ->
  length ls <= nalive (stat s) + data s /\ (stuck (sysof f) s' -> all_term s').
Proof. intros f Hf s ls s' I A R. eapply C15_quiesce; eauto. apply C15_guarded_partial; exact Hf. Qed.

(* the finding: the points no signal at all can release *)
Theorem C15_guarded_refuted :
  roots (sysof lmn_server) init_signals =
    [("engine:recvLoop", ("(*Server).WaitForMessage", "s.newMessageSignal"));
     ("engine:recvLoop", ("(*Server).WaitForMessage", "s.done"))].
Proof. Time vm_compute. Time reflexivity. Time Qed.

(* Close returns and the error channel is closed - for every protocol file,
   the DMQ server included: connClosedChan (what Close waits for) and the
   closing of Connection.errorChan are among the signals that become raised *)
Theorem C15_close : forall f, In f proto_files ->
  mem "connClosed" (final (sysof f) init_signals) = true
  /\ mem "closed:connection.go:errorChan" (final (sysof f) init_signals) = true
  /\ mem "closed:muxer/muxer.go:errorChan" (final (sysof f) init_signals) = true.
Proof.
  assert (H : forallb (fun f => mem "connClosed" (final (sysof f) init_signals)
                        && mem "closed:connection.go:errorChan" (final (sysof f) init_signals)
                        && mem "closed:muxer/muxer.go:errorChan" (final (sysof f) init_signals)) proto_files = true)
    by (Time vm_compute; reflexivity).
  intros f Hf. rewrite forallb_forall in H. specialize (H f Hf).
  apply andb_true_iff in H. destruct H as [H H3]. apply andb_true_iff in H. destruct H as [H1 H2]. auto.
Qed.
Print Assumptions C15_close.

