(* C15 - the quiescence argument, for EVERY system of threads, every state
   (= whatever happened before: every peer script and schedule), every label
   list (= every schedule afterwards). *)
From Coq Require Import String.
From V Require Import Lib.Base C15.Model.

Lemma mem_in x l : mem x l = true <-> In x l.
Proof.
  unfold mem. rewrite existsb_exists. split.
  - intros (y & Hy & E). apply String.eqb_eq in E. subst. exact Hy.
  - intros H. exists x. split; [exact H|apply String.eqb_refl].
Qed.

Lemma alt_ready_mono av av' a : incl av av' -> alt_ready av a = true -> alt_ready av' a = true.
Proof.
  unfold alt_ready. intros I H. rewrite forallb_forall in *. intros s Hs.
  apply mem_in. apply I. apply mem_in. apply H. exact Hs.
Qed.
Lemma pt_ready_mono av av' p : incl av av' -> pt_ready av p = true -> pt_ready av' p = true.
Proof.
  unfold pt_ready. intros I H. rewrite existsb_exists in *. destruct H as (a & Ha & R).
  exists a. split; [exact Ha|eapply alt_ready_mono; eauto].
Qed.

Lemma set_nth_length {A} (l : list A) n x : length (set_nth l n x) = length l.
Proof. revert n. induction l as [|a l IH]; intros [|n]; cbn; auto. Qed.
Lemma nth_set_nth_eq {A} (l : list A) n x y : nth_error l n = Some y -> nth_error (set_nth l n x) n = Some x.
Proof. revert n. induction l as [|a l IH]; intros [|n]; cbn; intros H; try discriminate; auto. Qed.
Lemma nth_set_nth_ne {A} (l : list A) n m x : n <> m -> nth_error (set_nth l n x) m = nth_error l m.
Proof. revert n m. induction l as [|a l IH]; intros [|n] [|m] H; cbn; auto; try congruence. Qed.

Definition is_alive (x : tstat) : bool := match x with Term => false | _ => true end.
Definition nalive (l : list tstat) : nat := length (filter is_alive l).
Lemma nalive_term l t i : nth_error l t = Some (Blocked i) -> S (nalive (set_nth l t Term)) = nalive l.
Proof.
  unfold nalive. revert t. induction l as [|a l IH]; intros [|t] H; cbn in *; try discriminate.
  - injection H as ->. reflexivity.
  - destruct (is_alive a); cbn; rewrite <- (IH t H); reflexivity.
Qed.
Lemma nalive_move l t i j : nth_error l t = Some (Blocked i) -> nalive (set_nth l t (Blocked j)) = nalive l.
Proof.
  unfold nalive. revert t. induction l as [|a l IH]; intros [|t] H; cbn in *; try discriminate.
  - injection H as ->. reflexivity.
  - destruct (is_alive a); cbn; rewrite (IH t H); reflexivity.
Qed.

Section Quiesce.
Variable sys : system.

Record Inv (s : state) : Prop := {
  inv_len : length (stat s) = length sys;
  inv_term : forall t th, nth_error sys t = Some th -> nth_error (stat s) t = Some Term -> incl (th_raises th) (raised s);
  inv_pt : forall t i, nth_error (stat s) t = Some (Blocked i) ->
           exists th p, nth_error sys t = Some th /\ nth_error (th_points th) i = Some p }.

Lemma step_inv s l s' : Inv s -> step sys s l = Some s' ->
  Inv s' /\ incl (raised s) (raised s') /\ S (nalive (stat s') + data s') <= nalive (stat s) + data s.
Proof.
  intros [IL IT IP] H. destruct l as [t|t j|t]; cbn [step] in H.
  - destruct (nth_error sys t) as [th|] eqn:Eth; [|discriminate].
    destruct (nth_error (stat s) t) as [[i|]|] eqn:Est; try discriminate.
    destruct (nth_error (th_points th) i) as [p|] eqn:Ep; [|discriminate].
    destruct (pt_ready (raised s) p); [|discriminate]. injection H as <-. unfold terminate; cbn.
    split; [split; cbn|split].
    + rewrite set_nth_length. exact IL.
    + intros t' th' E1 E2. destruct (Nat.eq_dec t t') as [->|N].
      * rewrite Eth in E1. injection E1 as <-. apply incl_appr, incl_refl.
      * rewrite nth_set_nth_ne in E2 by exact N. apply incl_appl. eapply IT; eauto.
    + intros t' i' E. destruct (Nat.eq_dec t t') as [->|N].
      * erewrite nth_set_nth_eq in E by eauto. discriminate.
      * rewrite nth_set_nth_ne in E by exact N. eauto.
    + apply incl_appl, incl_refl.
    + pose proof (nalive_term _ _ _ Est) as NT. cbn [stat data]. rewrite ?Ed. unfold nalive in *. lia.
  - destruct (nth_error sys t) as [th|] eqn:Eth; [|discriminate].
    destruct (nth_error (stat s) t) as [[i|]|] eqn:Est; try discriminate.
    destruct (data s) as [|d] eqn:Ed; [discriminate|].
    cbv beta iota in H. destruct (Nat.ltb j (length (th_points th))) eqn:Lj; [|discriminate]. injection H as <-. cbn.
    split; [split; cbn|split].
    + rewrite set_nth_length. exact IL.
    + intros t' th' E1 E2. destruct (Nat.eq_dec t t') as [->|N].
      * erewrite nth_set_nth_eq in E2 by eauto. discriminate.
      * rewrite nth_set_nth_ne in E2 by exact N. eapply IT; eauto.
    + intros t' i' E. destruct (Nat.eq_dec t t') as [->|N].
      * erewrite nth_set_nth_eq in E by eauto. injection E as <-.
        apply Nat.ltb_lt in Lj. destruct (nth_error (th_points th) j) eqn:Ej.
        -- eauto.
        -- apply nth_error_None in Ej. lia.
      * rewrite nth_set_nth_ne in E by exact N. eauto.
    + apply incl_refl.
    + pose proof (nalive_move _ _ _ j Est) as NM. cbn [stat data]. rewrite ?Ed. unfold nalive in *. lia.
  - destruct (nth_error sys t) as [th|] eqn:Eth; [|discriminate].
    destruct (nth_error (stat s) t) as [[i|]|] eqn:Est; try discriminate.
    destruct (data s) as [|d] eqn:Ed; [discriminate|]. cbv beta iota in H. injection H as <-. unfold terminate; cbn.
    split; [split; cbn|split].
    + rewrite set_nth_length. exact IL.
    + intros t' th' E1 E2. destruct (Nat.eq_dec t t') as [->|N].
      * rewrite Eth in E1. injection E1 as <-. apply incl_appr, incl_refl.
      * rewrite nth_set_nth_ne in E2 by exact N. apply incl_appl. eapply IT; eauto.
    + intros t' i' E. destruct (Nat.eq_dec t t') as [->|N].
      * erewrite nth_set_nth_eq in E by eauto. discriminate.
      * rewrite nth_set_nth_ne in E by exact N. eauto.
    + apply incl_appl, incl_refl.
    + pose proof (nalive_term _ _ _ Est) as NT. cbn [stat data]. rewrite ?Ed. unfold nalive in *. lia.
Qed.

Lemma run_inv : forall ls s s', Inv s -> run sys s ls = Some s' ->
  Inv s' /\ incl (raised s) (raised s') /\ length ls + (nalive (stat s') + data s') <= nalive (stat s) + data s.
Proof.
  induction ls as [|l ls IH]; intros s s' I H; cbn in H.
  - injection H as <-. split; [exact I|split; [apply incl_refl|cbn [length]; lia]].
  - destruct (step sys s l) as [s1|] eqn:E; [|discriminate].
    destruct (step_inv _ _ _ I E) as (I1 & R1 & M1). destruct (IH _ _ I1 H) as (I2 & R2 & M2).
    split; [exact I2|split; [eapply incl_tran; eauto|cbn [length]; lia]].
Qed.

(* in a state where nothing can move, everything that the rounds make
   available has in fact been raised *)
Lemma round_raised s av : Inv s -> stuck sys s -> incl av (raised s) -> incl (round sys av) (raised s).
Proof.
  intros I St A. unfold round. apply incl_app; [exact A|].
  intros x Hx. apply in_flat_map in Hx. destruct Hx as (th & Hth & Hx).
  destruct (th_ok av th) eqn:OK; [|destruct Hx].
  apply In_nth_error in Hth. destruct Hth as (t & Et).
  assert (L : t < length (stat s)). { rewrite (inv_len _ I). apply nth_error_Some. congruence. }
  destruct (nth_error (stat s) t) as [x0|] eqn:Es; [|apply nth_error_None in Es; lia].
  destruct x0 as [i|].
  - exfalso. destruct (inv_pt _ I _ _ Es) as (th' & p & E1 & E2). rewrite Et in E1. injection E1 as <-.
    specialize (St (RelShut t)). cbn in St. rewrite Et, Es, E2 in St.
    assert (R : pt_ready (raised s) p = true).
    { eapply pt_ready_mono; [exact A|]. unfold th_ok in OK. rewrite forallb_forall in OK. apply OK.
      eapply nth_error_In; eauto. }
    rewrite R in St. discriminate.
  - eapply (inv_term _ I); eauto.
Qed.
Lemma iter_raised s : Inv s -> stuck sys s -> forall n av, incl av (raised s) -> incl (iter n sys av) (raised s).
Proof. intros I St. induction n as [|n IH]; intros av A; cbn; [exact A|]. apply IH. apply round_raised; auto. Qed.

Theorem stuck_all_term init s : guarded sys init = true -> Inv s -> incl init (raised s) -> stuck sys s -> all_term s.
Proof.
  intros G I A St t x Ex. destruct x as [i|]; [|reflexivity]. exfalso.
  destruct (inv_pt _ I _ _ Ex) as (th & p & E1 & E2).
  assert (F : incl (final sys init) (raised s)) by (apply iter_raised; auto).
  assert (R : pt_ready (final sys init) p = true).
  { unfold guarded, unguarded, unguarded_in in G.
    destruct (pt_ready (final sys init) p) eqn:R; [reflexivity|]. exfalso.
    assert (X : In (th_name th, bp_id p)
      (flat_map (fun th => flat_map (fun p => if pt_ready (final sys init) p then [] else [(th_name th, bp_id p)]) (th_points th)) sys)).
    { apply in_flat_map. exists th. split; [eapply nth_error_In; eauto|].
      apply in_flat_map. exists p. split; [eapply nth_error_In; eauto|]. rewrite R. left. reflexivity. }
    destruct (flat_map _ sys); [destruct X|discriminate]. }
  specialize (St (RelShut t)). cbn in St. rewrite E1, Ex, E2 in St.
  rewrite (pt_ready_mono _ _ _ F R) in St. discriminate.
Qed.
End Quiesce.
