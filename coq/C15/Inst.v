(* C15 - the instance: the generated table of the real code as systems of threads,
   and the correspondence check of the monitor's hang/leak verdicts. *)
From Coq Require Import String.
From V Require Import Lib.Base C15.Model C15.Gen.
Local Open Scope string_scope.

Definition proto_files : list string :=
  filter (fun f => negb (mem f ["connection.go"; "muxer/muxer.go"; "protocol/protocol.go"])) (files_of points).
Definition sol := solicited walkaways points.
Definition sysof (f : string) : system := app (proto_system closers sol points f) (infra_system closers points).
Definition lmn_server := "protocol/localmessagenotification/server.go".


(* a monitor scenario: the protocol file, the function the dump showed
   blocked (or that leaked), and whether it hung/leaked.  A hang must be
   predicted: the function must own a point that no signal can release. *)
Record case := { k_file : string; k_func : string; k_hung : bool }.
Definition all_roots : list (string * string) :=
  app (flat_map (fun f => map (fun x => (f, fst (snd x))) (roots (sysof f) init_signals)) proto_files)
      (* a function that returns with a mutex held parks everybody who needs that mutex *)
      (map (fun l => (l_file l, l_func l)) (filter (fun l => negb (l_released l)) locks)).
Definition check_with (r : list (string * string)) (c : case) : bool :=
  if k_hung c then existsb (fun e => String.eqb (fst e) (k_file c) && String.eqb (snd e) (k_func c)) r else true.
Definition mismatches (cs : list case) : list nat :=
  if existsb k_hung cs then (let r := all_roots in failing (check_with r) cs) else [].
