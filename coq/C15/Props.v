(* C15 - property theorems only. *)
From Coq Require Import String.
From V Require Import Lib.Base C15.Model C15.Proofs C15.Gen C15.Inst.
Local Open Scope string_scope.

(* Quiescence, generic: for EVERY system of threads whose blocking points are
   all guarded (checker over the table), every state in which the initial
   shutdown signals are raised (= whatever the peer and the schedule did
   before: malformed bytes, wrong-kind or surplus replies, silence,
   disconnect at any point - each thread may be parked at ANY of its points),
   every schedule afterwards: the run is at most (alive threads + pending data
   events) long, and a state where nothing can move has every thread returned. *)
Theorem C15_quiesce : forall sys init s ls s',
  guarded sys init = true -> Inv sys s -> incl init (raised s) ->
  run sys s ls = Some s' ->
  length ls <= nalive (stat s) + data s /\ (stuck sys s' -> all_term s').
Proof.
  intros sys init s ls s' G I A R. destruct (run_inv sys ls s s' I R) as (I' & R' & M). split; [lia|].
  intros St. apply (stuck_all_term sys init s' G I'); [eapply incl_tran; [exact A|exact R']|exact St].
Qed.
Print Assumptions C15_quiesce.

(* ---- the instance: the generated table of the real code ---- *)
(* every client.go / server.go with blocking points, except the DMQ
   local-message-notification server (known finding), is guarded: all its
   points - API calls, handlers on recvLoop, helper goroutines, engine loops,
   muxer and connection goroutines - have an alternative that connection
   close eventually raises.  A `<-DoneChan()` case inside a message handler is
   NOT counted (doneChan closes only after recvLoop returned). *)
Definition others := filter (fun f => negb (String.eqb f lmn_server)) proto_files.
Definition offending := flat_map (fun f => map (fun x => (f, x)) (unguarded (sysof f) init_signals)) others.
Lemma guarded_all : forallb (fun f => guarded (sysof f) init_signals) others = true.
Proof. vm_compute. reflexivity. Qed.
Theorem C15_guarded_partial : forall f, In f others -> guarded (sysof f) init_signals = true.
Proof. intros f Hf. exact (proj1 (forallb_forall _ _) guarded_all f Hf). Qed.
Print Assumptions C15_guarded_partial.

Theorem C15_quiesce_real : forall f, In f others -> forall s ls s',
  Inv (sysof f) s -> incl init_signals (raised s) -> run (sysof f) s ls = Some s' ->
  length ls <= nalive (stat s) + data s /\ (stuck (sysof f) s' -> all_term s').
Proof. intros f Hf s ls s' I A R. exact (C15_quiesce (sysof f) init_signals s ls s' (C15_guarded_partial f Hf) I A R). Qed.

(* the finding: the points no signal at all can release *)
Theorem C15_guarded_refuted :
  roots (sysof lmn_server) init_signals =
    [("engine:recvLoop", ("(*Server).WaitForMessage", "s.newMessageSignal"));
     ("engine:recvLoop", ("(*Server).WaitForMessage", "s.done"))].
Proof. vm_compute. reflexivity. Qed.

(* Close returns and the error channel is closed - for every protocol file,
   the DMQ server included: connClosedChan (what Close waits for) and the
   closing of Connection.errorChan are among the signals that become raised *)
Definition close_ok (f : string) : bool :=
  let fin := final (sysof f) init_signals in
  mem "connClosed" fin && mem "closed:connection.go:errorChan" fin && mem "closed:muxer/muxer.go:errorChan" fin.
Lemma close_all : forallb close_ok proto_files = true.
Proof. vm_compute. reflexivity. Qed.
Theorem C15_close : forall f, In f proto_files -> close_ok f = true.
Proof. intros f Hf. exact (proj1 (forallb_forall _ _) close_all f Hf). Qed.
Print Assumptions C15_close.

(* A mutex is a blocking point for everybody else (UnregisterProtocol, the muxer's own cleanup, Stop):
   every function that locks one releases it on every return path (generated path table, go/ast
   abstract execution over if/switch/select/loops, deferred unlocks, acquire/release wrappers).
   `unreleased` lists the offending (file, function, mutex, exit). *)
Theorem C15_locks_released : unreleased locks = [].
Proof. vm_compute. reflexivity. Qed.
Print Assumptions C15_locks_released.

(* non-vacuity / the dead-guard distinction: the same select is guarded in
   an API call and unguarded inside a message handler *)
Example C15_dead_guard :
  alt_signal [] (fun _ _ _ _ _ => false) "f.go" "api" "recv" "c.DoneChan()" "protoDone" = Some "protoDone"
  /\ alt_signal [] (fun _ _ _ _ _ => false) "f.go" "handler" "recv" "c.DoneChan()" "protoDone" = None.
Proof. split; reflexivity. Qed.
Example C15_nonvacuous :
  (Nat.ltb 200 (length points) && Nat.eqb (length proto_files) 13 && mem "protocol/chainsync/client.go" others) = true.
Proof. vm_compute. reflexivity. Qed.
