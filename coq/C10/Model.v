(* C10 - messages survive segmentation and reassembly unchanged.
   Byte-level model of protocol/protocol.go sendLoop (batching + splitting)
   and readLoop (buffer accumulation, cbor.Decode into []RawMessage, the
   io.ErrUnexpectedEOF continuation, leftover handling, buffer cap).
   The state-machine side (agency tokens, queued transitions, pending byte
   limits) is the Engine model of C11/C12 and is not repeated here.
   NO proofs in this file. *)
From V Require Import Lib.Base Lib.Cbor Lib.CborParse C10.Gen.
Local Open Scope N_scope.

Definition len {A} (b : list A) : N := N.of_nat (length b).

(* ------------------------------------------------------------------ *)
(* Receiver: the decode step of readLoop                               *)

(* fxamacker's limits as configured by cbor/decode.go getDecMode, and its
   built-in tag content rule (common.go validBuiltinTag: decided by the major
   type of the first content byte).  d = nesting depth so far (valid.go
   wellformedInternal: arrays and maps count one level, and every tag
   directly inside a tag counts one level). *)
Definition tag_content_ok (t : N) (x : item) : bool :=
  if t =? 0 then match x with TStr _ _ | TStrI _ => true | _ => false end
  else if t =? 1 then match x with UInt _ _ | NInt _ _ | Float _ _ => true | _ => false end
  else if (t =? 2) || (t =? 3) then match x with BStr _ _ | BStrI _ => true | _ => false end
  else true.

Fixpoint limits_ok (d : N) (i : item) : bool :=
  match i with
  | Arr _ xs => (d + 1 <=? cbor_max_nest) && (len xs <=? cbor_max_arr) && forallb (limits_ok (d + 1)) xs
  | Map _ kvs => (d + 1 <=? cbor_max_nest) && (len kvs <=? cbor_max_map)
                 && forallb (fun kv => limits_ok (d + 1) (fst kv) && limits_ok (d + 1) (snd kv)) kvs
  | Tag _ t x => tag_content_ok t x &&
                 match x with
                 | Tag _ _ _ => (d + 1 <=? cbor_max_nest) && limits_ok (d + 1) x
                 | _ => limits_ok d x
                 end
  | _ => true
  end.

(* `tmpMsg := []cbor.RawMessage{}; cbor.Decode(buf, &tmpMsg)`: which items
   decode into a slice of raw elements.  None = decode error.  null and
   undefined decode to the empty slice; tag numbers other than 0..3 are
   skipped (0..3 have typed content that is never an array). *)
Fixpoint elems_of (i : item) : option (list item) :=
  match i with
  | Arr _ xs => Some xs
  | Simple Fimm v => if (v =? 22) || (v =? 23) then Some [] else None
  | Tag _ t x => if t <? 4 then None else elems_of x
  | _ => None
  end.

Fixpoint be_val (bs : bytes) (acc : N) : N :=
  match bs with [] => acc | b :: r => be_val r (acc * 256 + b) end.

(* `var msgType uint; cbor.Decode(tmpMsg[0], &msgType)` (64-bit uint).
   Quirks of the library kept: null/undefined leave the zero value, other
   simple values decode to their number, an unsigned bignum (tag 2) that fits
   is accepted, tag 1 and unknown tags are transparent. *)
Fixpoint type_of (x : item) : option N :=
  match x with
  | UInt _ n => Some n
  | Simple _ v => if (v =? 20) || (v =? 21) then None else if (v =? 22) || (v =? 23) then Some 0 else Some v
  | Tag _ t y =>
      if t =? 2 then
        match y with
        | BStr _ bs => let v := be_val bs 0 in if v <? 2^64 then Some v else None
        | BStrI cs => let v := be_val (flat_map snd cs) 0 in if v <? 2^64 then Some v else None
        | _ => None
        end
      else if (t =? 0) || (t =? 3) then None
      else type_of y
  | _ => None
  end.

Inductive dres :=
| DMsg (ty : N) (msg rest : bytes)   (* one message: its type id, its exact bytes, what follows *)
| DWait                              (* io.ErrUnexpectedEOF: wait for the next segment *)
| DHalt                              (* empty array / nil slice: readLoop returns (error unless idle/terminal state) *)
| DErr.                              (* SendError *)

Section Recv.
  (* MessageFromCborFunc of the mini-protocol: true = returns a message,
     false = returns an error or nil (both end in SendError) *)
  Variable accepts : N -> bytes -> bool.
  (* maxReadBufferSize; a parameter so that small instances can be run *)
  Variable cap : N.

  Definition dec_step (buf : bytes) : dres :=
    match parse_full buf with
    | Ok i rest =>
        if negb (limits_ok 0 i) then DErr else
        match elems_of i with
        | None => DErr
        | Some [] => DHalt
        | Some (x :: _) =>
            match type_of x with
            | None => DErr
            | Some t =>
                (* msgData := readBuffer.Bytes()[:numBytesRead] *)
                let msg := firstn (length buf - length rest) buf in
                if accepts t msg then DMsg t msg rest else DErr
            end
        end
    | NeedMore => DWait
    | Bad => DErr
    end.

  Inductive verdict := Running | Halted | Failed.
  Record rstate := mkR { delivered : list (N * bytes); rbuf : bytes; status : verdict }.

  (* the part of readLoop that runs without reading a segment: decode, hand
     the message over, and go round again while bytes are left over
     (leftoverData = true).  buf is not empty.  fuel > length buf. *)
  Fixpoint drain (fuel : nat) (buf : bytes) (acc : list (N * bytes)) : rstate :=
    match fuel with
    | O => mkR acc buf Failed
    | S fu =>
      match dec_step buf with
      | DMsg t m rest =>
          let acc' := acc ++ [(t, m)] in
          match rest with
          | [] => mkR acc' [] Running          (* readBuffer.Reset() *)
          | _ => drain fu rest acc'            (* leftoverData = true *)
          end
      | DWait => if cap <? len buf then mkR acc buf Failed else mkR acc buf Running
      | DHalt => mkR acc buf Halted
      | DErr => mkR acc buf Failed
      end
    end.

  (* one segment from the muxer: readBuffer.Write(segment.Payload), the
     zero-length check, then the decode loop *)
  Definition on_segment (s : rstate) (p : bytes) : rstate :=
    match status s with
    | Running =>
        let b := rbuf s ++ p in
        match b with
        | [] => mkR (delivered s) [] Halted
        | _ => drain (S (length b)) b (delivered s)
        end
    | _ => s
    end.

  Definition recv_from (s : rstate) (segs : list bytes) : rstate := fold_left on_segment segs s.
  Definition recv (segs : list bytes) : rstate := recv_from (mkR [] [] Running) segs.
End Recv.

(* ------------------------------------------------------------------ *)
(* Sender: sendLoop                                                    *)

(* readSendQueueLoop: messages are appended to payloadBuf until the
   scheduler-dependent conditions (queue empty, delivery channel) stop the
   batch - `want` stands for those - or maxMessagesPerSegment messages are in,
   or the buffer exceeds one segment.  At least one message is taken. *)
Fixpoint take_batch (want cnt : N) (buf : bytes) (q : list bytes) : bytes * list bytes :=
  match q with
  | [] => (buf, [])
  | m :: q' =>
      let buf' := buf ++ m in
      let cnt' := cnt + 1 in
      if (want <=? cnt') || (max_msgs <=? cnt') || (seg_max <? len buf') then (buf', q')
      else take_batch want cnt' buf' q'
  end.

(* the segment loop: min(len, SegmentMaxPayloadLength) bytes per segment;
   the loop body runs at least once (an empty buffer yields one empty segment) *)
Fixpoint split (fuel : nat) (buf : bytes) : list bytes :=
  match fuel with
  | O => [buf]
  | S fu =>
      if len buf <=? seg_max then [buf]
      else firstn (N.to_nat seg_max) buf :: split fu (skipn (N.to_nat seg_max) buf)
  end.
Definition split_buf (buf : bytes) : list bytes := split (length buf) buf.

(* the whole send loop over a queue of encoded messages; choices = the
   scheduler's batch-size decisions, one per batch (default 1) *)
Fixpoint segments_of (fuel : nat) (q : list bytes) (choices : list N) : list bytes :=
  match fuel with
  | O => []
  | S fu =>
    match q with
    | [] => []
    | _ =>
      let want := hd 1 choices in
      let '(buf, q') := take_batch want 0 [] q in
      split_buf buf ++ segments_of fu q' (tl choices)
    end
  end.
Definition send (msgs : list bytes) (choices : list N) : list bytes :=
  segments_of (length msgs) msgs choices.

(* the same on lengths only (what the correspondence evaluates for large
   messages; Proofs.send_lens_spec relates the two) *)
Fixpoint take_batch_l (want cnt total : N) (q : list N) : N * list N :=
  match q with
  | [] => (total, [])
  | m :: q' =>
      let total' := total + m in
      let cnt' := cnt + 1 in
      if (want <=? cnt') || (max_msgs <=? cnt') || (seg_max <? total') then (total', q')
      else take_batch_l want cnt' total' q'
  end.
Fixpoint split_l (fuel : nat) (total : N) : list N :=
  match fuel with
  | O => [total]
  | S fu => if total <=? seg_max then [total] else seg_max :: split_l fu (total - seg_max)
  end.
Definition split_len (total : N) : list N := split_l (N.to_nat (total / seg_max) + 1) total.
Fixpoint segments_l (fuel : nat) (q : list N) (choices : list N) : list N :=
  match fuel with
  | O => []
  | S fu =>
    match q with
    | [] => []
    | _ =>
      let want := hd 1 choices in
      let '(total, q') := take_batch_l want 0 0 q in
      split_len total ++ segments_l fu q' (tl choices)
    end
  end.
Definition send_lens (lens : list N) (choices : list N) : list N := segments_l (length lens) lens choices.

(* ------------------------------------------------------------------ *)
(* correspondence cases                                                *)

(* the harness' MessageFromCborFunc: types below 8 give a message, 8..199 an
   error, 200 and above nil *)
Definition h_accepts (t : N) (_ : bytes) : bool := t <? 8.

(* receiver case: the segment payloads fed to the real readLoop (cap given
   explicitly: the real constant, or none of these small cases reach it), the
   messages the handler received (type, msg.Cbor()) and whether an error was
   reported on ErrorChan *)
Record rcase := RC { rc_segs : list bytes; rc_got : list (N * bytes); rc_err : bool }.

Definition msg_eqb (a b : N * bytes) : bool := (fst a =? fst b) && bytes_eqb (snd a) (snd b).

Fixpoint is_prefix (a b : list (N * bytes)) : bool :=
  match a, b with
  | [], _ => true
  | x :: a', y :: b' => msg_eqb x y && is_prefix a' b'
  | _, _ => false
  end.

(* without an error the handler has received exactly the model's messages;
   with an error the protocol is stopped at once and messages still queued
   between readLoop and the handler may be discarded (recvLoop exits on
   stopChan): the handler has received a prefix of the model's messages *)
Definition check_rcase (c : rcase) : bool :=
  let st := recv h_accepts max_buf (rc_segs c) in
  let err := match status st with Running => false | _ => true end in
  Bool.eqb err (rc_err c) &&
  (if err then is_prefix (rc_got c) (delivered st) else list_eqb msg_eqb (delivered st) (rc_got c)).

(* sender case: message lengths queued, the batching the harness inferred,
   segment payload lengths seen on the wire *)
Record scase := SC { sc_lens : list N; sc_choices : list N; sc_wire : list N }.
Definition check_scase (c : scase) : bool :=
  list_eqb N.eqb (send_lens (sc_lens c) (sc_choices c)) (sc_wire c).

(* ------------------------------------------------------------------ *)
(* Demultiplexing (muxer.readLoop): a segment goes to the instance registered
   for (protocol id, direction) - the direction is the top bit of the id
   field: response bit set = for the initiator (client) instance, clear = for
   the responder (server) instance.  Each instance runs its own readLoop on
   the payloads addressed to it, in wire order. *)
Definition key := (N * bool)%type.
Definition key_eqb (a b : key) : bool := (fst a =? fst b) && Bool.eqb (snd a) (snd b).
Definition demux (wire : list (key * bytes)) (k : key) : list bytes :=
  map snd (filter (fun s => key_eqb (fst s) k) wire).
Definition recv_mux (accepts : N -> bytes -> bool) (cap : N) (wire : list (key * bytes)) (k : key) : rstate :=
  recv accepts cap (demux wire k).

(* duplex case: the interleaved wire (id, response bit, payload) fed to one
   real muxer with a responder and an initiator instance of the same protocol
   id, and what each instance's handler received *)
Record dcase := DC { dc_id : N; dc_wire : list (key * bytes);
                     dc_req_got : list (N * bytes); dc_req_err : bool;
                     dc_resp_got : list (N * bytes); dc_resp_err : bool }.
Definition check_dcase (c : dcase) : bool :=
  check_rcase (RC (demux (dc_wire c) (dc_id c, false)) (dc_req_got c) (dc_req_err c)) &&
  check_rcase (RC (demux (dc_wire c) (dc_id c, true)) (dc_resp_got c) (dc_resp_err c)).

Inductive case := CR (c : rcase) | CS (c : scase) | CD (c : dcase).
Definition check_case (c : case) : bool :=
  match c with CR r => check_rcase r | CS s => check_scase s | CD d => check_dcase d end.
Definition mismatches := failing check_case.
