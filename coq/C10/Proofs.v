(* C10 - lemmas.  Receiver: reassembly for every segmentation; soundness of
   what is delivered for every input.  Sender: concatenation, bounds. *)
From V Require Import Lib.CborProofs Lib.CborFuel C10.Gen C10.Model.

(* ---------------- small list facts ---------------- *)
Lemma firstn_app_exact {A} (l r : list A) : firstn (length (l ++ r) - length r) (l ++ r) = l.
Proof.
  rewrite app_length, Nat.add_sub, firstn_app, Nat.sub_diag, firstn_all. cbn. apply app_nil_r.
Qed.

Lemma Forall_skipn' {A} (P : A -> Prop) k : forall l, Forall P l -> Forall P (skipn k l).
Proof.
  induction k as [|k IH]; intros l H; [exact H|]. destruct l as [|x l]; [constructor|].
  cbn. apply IH. inversion H; assumption.
Qed.

Lemma enc_ne i : enc i <> [].
Proof. pose proof (enc_len_pos i) as H. destruct (enc i); [cbn in H; lia|discriminate]. Qed.

Lemma len_lt {A} (a b : list A) : (length a < length b)%nat -> (len a < len b)%N.
Proof. unfold len. lia. Qed.

Section Recv.
  Variable accepts : N -> bytes -> bool.
  Variable cap : N.

  (* a message as the library builds it: an array whose first element is the
     unsigned message type *)
  Definition msg_type (i : item) : option N :=
    match i with Arr _ (UInt _ t :: _) => Some t | _ => None end.
  Definition msg_of (i : item) : N * bytes :=
    (match msg_type i with Some t => t | None => 0%N end, enc i).

  (* wf, within the decoder's configured limits, accepted by the
     mini-protocol's MessageFromCborFunc, and at most one byte longer than the
     incomplete-buffer cap *)
  Definition good (i : item) : Prop :=
    wf i /\ limits_ok 0 i = true /\ (len (enc i) <= cap + 1)%N /\
    exists t, msg_type i = Some t /\ accepts t (enc i) = true.

  Lemma dec_step_msg i rest : good i ->
    dec_step accepts (enc i ++ rest) = DMsg (fst (msg_of i)) (enc i) rest.
  Proof.
    intros (Hw & Hl & _ & t & Ht & Ha). unfold dec_step. rewrite parse_full_enc by exact Hw.
    rewrite Hl. cbn [negb]. unfold msg_of. rewrite Ht. cbn [fst].
    destruct i as [| | | | | |f xs| | | |]; try discriminate. destruct xs as [|x xs]; [discriminate|].
    destruct x; try discriminate. cbn [msg_type] in Ht. injection Ht as ->.
    cbn [elems_of type_of]. rewrite firstn_app_exact, Ha. reflexivity.
  Qed.

  Lemma dec_step_wait i p q : good i -> enc i = p ++ q -> q <> [] -> dec_step accepts p = DWait.
  Proof.
    intros (Hw & _) E Hq. unfold dec_step. rewrite (parse_full_prefix i p q Hw E Hq). reflexivity.
  Qed.

  (* the leftover of a decode round: nothing, or a proper prefix of the next message *)
  Definition pending (p : bytes) (items : list item) : Prop :=
    p = [] \/ exists i r q, items = i :: r /\ enc i = p ++ q /\ q <> [].

  Lemma drain_ok : forall items b tail acc fuel,
    Forall good items -> b ++ tail = concat (map enc items) -> b <> [] -> (length b < fuel)%nat ->
    exists k p, drain accepts cap fuel b acc = mkR (acc ++ map msg_of (firstn k items)) p Running
             /\ p ++ tail = concat (map enc (skipn k items)) /\ pending p (skipn k items).
  Proof.
    induction items as [|i r IH]; intros b tail acc fuel Hg E Hb Hf.
    - cbn in E. apply app_eq_nil in E. destruct E; contradiction.
    - inversion Hg as [|? ? Hi Hr]; subst. cbn [map concat] in E.
      assert (MSG : forall l, b = enc i ++ l -> concat (map enc r) = l ++ tail ->
                exists k p, drain accepts cap fuel b acc = mkR (acc ++ map msg_of (firstn k (i :: r))) p Running
                  /\ p ++ tail = concat (map enc (skipn k (i :: r))) /\ pending p (skipn k (i :: r))).
      { intros l -> E2. destruct fuel as [|fu]; [lia|]. cbn [drain]. rewrite dec_step_msg by exact Hi.
        destruct l as [|c l].
        - exists 1%nat, []. cbn [firstn skipn map app]. split; [|split; [symmetry; exact E2|left; reflexivity]].
          reflexivity.
        - assert (Hlen : (length (c :: l) < fu)%nat).
          { rewrite app_length in Hf. pose proof (enc_len_pos i). lia. }
          destruct (IH (c :: l) tail (acc ++ [(fst (msg_of i), enc i)]) fu Hr (eq_sym E2) ltac:(discriminate) Hlen)
            as (k & p & D & P1 & P2).
          exists (S k), p. cbn [firstn skipn map]. rewrite D. split; [|split; [exact P1|exact P2]].
          f_equal. rewrite <- app_assoc. reflexivity. }
      apply app_eq_app in E. destruct E as (l & [[E1 E2]|[E1 E2]]).
      + apply (MSG l E1 E2).
      + destruct l as [|c l].
        * rewrite app_nil_r in E1. apply (MSG [] ltac:(rewrite app_nil_r; auto)). cbn in E2. cbn. auto.
        * exists 0%nat, b. cbn [firstn skipn map]. rewrite app_nil_r. destruct fuel as [|fu]; [lia|]. cbn [drain].
          rewrite (dec_step_wait i b (c :: l) Hi E1) by discriminate.
          destruct Hi as (_ & _ & Hc & _).
          assert (L : (len b < len (enc i))%N).
          { apply len_lt. rewrite E1, app_length. cbn. lia. }
          destruct (N.ltb_spec cap (len b)); [lia|]. split; [reflexivity|split].
          -- rewrite E2. cbn [map concat]. rewrite E1, <- app_assoc. reflexivity.
          -- right. exists i, r, (c :: l). repeat split; [exact E1|discriminate].
  Qed.

  Lemma concat_enc_nil items : concat (map enc items) = [] -> items = [].
  Proof.
    destruct items as [|i r]; [reflexivity|]. cbn. intros E. apply app_eq_nil in E.
    destruct E as [E _]. destruct (enc_ne i E).
  Qed.

  Lemma recv_from_cons st x l :
    recv_from accepts cap st (x :: l) = recv_from accepts cap (on_segment accepts cap st x) l.
  Proof. reflexivity. Qed.

  Lemma recv_ok : forall segs items acc p,
    Forall good items -> Forall (fun s => s <> []) segs ->
    p ++ concat segs = concat (map enc items) -> pending p items ->
    recv_from accepts cap (mkR acc p Running) segs = mkR (acc ++ map msg_of items) [] Running.
  Proof.
    induction segs as [|s segs IH]; intros items acc p Hg Hs E Hp.
    - cbn in E. rewrite app_nil_r in E. cbn. destruct Hp as [->|(i & r & q & -> & Ei & Hq)].
      + symmetry in E. apply concat_enc_nil in E. subst. cbn. rewrite app_nil_r. reflexivity.
      + exfalso. cbn in E. rewrite Ei in E. apply (f_equal (@length _)) in E.
        rewrite !app_length in E. destruct q; [contradiction|cbn in E; lia].
    - inversion Hs as [|? ? Hs1 Hs2]; subst. rewrite recv_from_cons.
      unfold on_segment. cbn [status rbuf delivered].
      assert (Hb : p ++ s <> []). { destruct p; [exact Hs1|discriminate]. }
      destruct (p ++ s) as [|b0 b] eqn:Eb; [contradiction|]. rewrite <- Eb in *.
      cbn [concat] in E. rewrite app_assoc in E.
      destruct (drain_ok items (p ++ s) (concat segs) acc (S (length (p ++ s))) Hg E Hb ltac:(lia))
        as (k & p' & D & P1 & P2).
      rewrite D. rewrite (IH (skipn k items) _ p' (Forall_skipn' _ k _ Hg) Hs2 P1 P2).
      rewrite <- app_assoc, <- map_app, firstn_skipn. reflexivity.
  Qed.

  (* ---------- soundness on arbitrary input ---------- *)
  (* what dec_step hands over is the encoding of a well-formed item and the
     buffer is exactly message ++ rest *)
  Lemma dec_step_sound buf t m rest : all_bytes buf -> dec_step accepts buf = DMsg t m rest ->
    buf = m ++ rest /\ exists i, wf i /\ m = enc i /\ accepts t m = true.
  Proof.
    intros Hb. unfold dec_step. destruct (parse_full buf) as [i r| |] eqn:P; try discriminate.
    destruct (parse_full_sound _ _ _ Hb P) as [-> Hw].
    destruct (negb (limits_ok 0 i)); [discriminate|].
    destruct (elems_of i) as [[|x xs]|]; try discriminate.
    destruct (type_of x) as [ty|]; [|discriminate].
    rewrite firstn_app_exact. destruct (accepts ty (enc i)) eqn:A; [|discriminate].
    intros H. injection H as <- <- <-. split; [reflexivity|]. exists i. auto.
  Qed.

  Definition is_msg (m : N * bytes) : Prop := exists i, wf i /\ snd m = enc i /\ accepts (fst m) (snd m) = true.
  Definition waiting (p : bytes) : Prop := p = [] \/ parse_full p = NeedMore.

  Lemma drain_sound : forall fuel buf acc st, all_bytes buf -> buf <> [] ->
    drain accepts cap fuel buf acc = st -> Forall is_msg acc ->
    Forall is_msg (delivered st) /\
    concat (map snd (delivered st)) ++ rbuf st = concat (map snd acc) ++ buf /\
    (status st = Running -> waiting (rbuf st) /\ (len (rbuf st) <= cap)%N).
  Proof.
    induction fuel as [|fu IH]; intros buf acc st Hb Hne D Ha.
    - cbn in D. subst. cbn [delivered rbuf status]. split; [exact Ha|split; [reflexivity|discriminate]].
    - cbn [drain] in D. destruct (dec_step accepts buf) as [t m rest| | |] eqn:S.
      + destruct (dec_step_sound _ _ _ _ Hb S) as [-> (i & Hw & -> & A)].
        assert (Ha' : Forall is_msg (acc ++ [(t, enc i)])).
        { apply Forall_app. split; [exact Ha|]. constructor; [|constructor]. exists i. auto. }
        assert (C : concat (map snd (acc ++ [(t, enc i)])) = concat (map snd acc) ++ enc i).
        { rewrite map_app, concat_app. cbn. rewrite app_nil_r. reflexivity. }
        destruct rest as [|c rest].
        * subst st. cbn [delivered rbuf status]. split; [exact Ha'|split].
          -- rewrite C, !app_nil_r. reflexivity.
          -- intros _. split; [left; reflexivity|cbn; lia].
        * apply Forall_app in Hb. destruct Hb as [_ Hb].
          destruct (IH (c :: rest) _ st Hb ltac:(discriminate) D Ha') as (I1 & I2 & I3).
          split; [exact I1|split; [|exact I3]]. rewrite I2, C, <- app_assoc. reflexivity.
      + unfold dec_step in S. destruct (parse_full buf) as [i r| |] eqn:P.
        * destruct (negb (limits_ok 0 i)); [discriminate|]. destruct (elems_of i) as [[|x xs]|]; try discriminate.
          destruct (type_of x); [|discriminate]. destruct (accepts _ _); discriminate.
        * destruct (N.ltb_spec cap (len buf)); subst st; cbn [delivered rbuf status].
          -- split; [exact Ha|split; [reflexivity|discriminate]].
          -- split; [exact Ha|split; [reflexivity|]]. intros _. split; [right; exact P|assumption].
        * discriminate.
      + subst st. cbn [delivered rbuf status]. split; [exact Ha|split; [reflexivity|discriminate]].
      + subst st. cbn [delivered rbuf status]. split; [exact Ha|split; [reflexivity|discriminate]].
  Qed.

  Lemma all_bytes_app' (a b : bytes) : all_bytes a -> all_bytes b -> all_bytes (a ++ b).
  Proof. intros. apply Forall_app. auto. Qed.

  Lemma recv_from_stopped : forall segs st, status st <> Running -> recv_from accepts cap st segs = st.
  Proof.
    induction segs as [|x xs IH]; intros st H; [reflexivity|]. rewrite recv_from_cons.
    assert (E : on_segment accepts cap st x = st). { unfold on_segment. destruct (status st); congruence. }
    rewrite E. apply IH. exact H.
  Qed.

  Lemma msgs_bytes l : Forall is_msg l -> all_bytes (concat (map snd l)).
  Proof.
    induction 1 as [|m l (i & Hw & E & _) _ IHl]; cbn; [constructor|].
    apply all_bytes_app'; [rewrite E; apply enc_bytes; exact Hw|exact IHl].
  Qed.

  (* one segment, arbitrary content, any state *)
  Lemma on_segment_sound st0 s st1 : all_bytes s -> all_bytes (rbuf st0) -> Forall is_msg (delivered st0) ->
    status st0 = Running -> on_segment accepts cap st0 s = st1 ->
    Forall is_msg (delivered st1) /\ all_bytes (rbuf st1) /\
    concat (map snd (delivered st1)) ++ rbuf st1 = concat (map snd (delivered st0)) ++ rbuf st0 ++ s /\
    (status st1 = Running -> waiting (rbuf st1) /\ (len (rbuf st1) <= cap)%N).
  Proof.
    intros Hbs Hb0 Hd S0 E1. unfold on_segment in E1. rewrite S0 in E1.
    assert (Hbb : all_bytes (rbuf st0 ++ s)) by (apply all_bytes_app'; assumption).
    remember (rbuf st0 ++ s) as bb eqn:Ebb. destruct bb as [|b0 b].
    - subst st1. cbn [delivered rbuf status]. split; [exact Hd|split; [constructor|split; [reflexivity|discriminate]]].
    - destruct (drain_sound _ _ _ _ Hbb ltac:(discriminate) E1 Hd) as (I1 & I2 & I3).
      assert (A : all_bytes (concat (map snd (delivered st1)) ++ rbuf st1)).
      { rewrite I2. apply all_bytes_app'; [apply msgs_bytes; exact Hd|exact Hbb]. }
      apply Forall_app in A. split; [exact I1|split; [apply A|split; [exact I2|exact I3]]].
  Qed.

  (* invariant of the whole receive loop, for arbitrary segment contents and
     every outcome: what was delivered, followed by the buffer, is exactly
     the part of the stream that was consumed (all of it while Running) *)
  Lemma recv_sound : forall segs st0 st, all_bytes (concat segs) -> all_bytes (rbuf st0) ->
    Forall is_msg (delivered st0) -> recv_from accepts cap st0 segs = st ->
    exists pre post, concat segs = pre ++ post /\ Forall is_msg (delivered st) /\
      concat (map snd (delivered st)) ++ rbuf st = concat (map snd (delivered st0)) ++ rbuf st0 ++ pre /\
      (status st = Running -> post = [] /\ status st0 = Running /\ (waiting (rbuf st0) -> waiting (rbuf st))).
  Proof.
    induction segs as [|s segs IH]; intros st0 st Hb Hb0 Hd R.
    - cbn in R. subst st0. exists [], []. cbn [concat app]. rewrite !app_nil_r.
      split; [reflexivity|split; [exact Hd|split; [reflexivity|intros Hr; split; [reflexivity|split; [exact Hr|auto]]]]].
    - cbn [concat] in Hb. apply Forall_app in Hb. destruct Hb as [Hbs Hb].
      destruct (status st0) eqn:S0.
      + rewrite recv_from_cons in R.
        destruct (on_segment_sound st0 s _ Hbs Hb0 Hd S0 eq_refl) as (K1 & K2 & K3 & K4).
        destruct (IH _ st Hb K2 K1 R) as (pre & post & E & J1 & J2 & J3).
        exists (s ++ pre), post. cbn [concat]. split; [rewrite E, app_assoc; reflexivity|].
        split; [exact J1|split].
        * rewrite J2, app_assoc, K3, <- !app_assoc. reflexivity.
        * intros Hr. destruct (J3 Hr) as (P1 & P2 & P3). split; [exact P1|split; [reflexivity|]].
          intros _. apply P3. apply K4. exact P2.
      + rewrite recv_from_stopped in R by congruence. subst st. exists [], (concat (s :: segs)).
        rewrite !app_nil_r. split; [reflexivity|split; [exact Hd|split; [reflexivity|congruence]]].
      + rewrite recv_from_stopped in R by congruence. subst st. exists [], (concat (s :: segs)).
        rewrite !app_nil_r. split; [reflexivity|split; [exact Hd|split; [reflexivity|congruence]]].
  Qed.

  (* a Bad buffer is an error at once *)
  Lemma drain_bad fuel buf acc : parse_full buf = Bad -> drain accepts cap (S fuel) buf acc = mkR acc buf Failed.
  Proof. intros P. cbn [drain]. unfold dec_step. rewrite P. reflexivity. Qed.

  (* concatenations of encodings are uniquely decomposable *)
  Lemma enc_concat_prefix : forall js items r1 r2, Forall wf js -> Forall wf items ->
    concat (map enc js) ++ r1 = concat (map enc items) ++ r2 ->
    (exists k, js = firstn k items) \/ (exists j js', js = items ++ j :: js' /\ exists rest, r2 = enc j ++ rest).
  Proof.
    induction js as [|j js IH]; intros items r1 r2 Hj Hi E.
    - left. exists 0%nat. reflexivity.
    - inversion Hj as [|? ? Hj1 Hj2]; subst. destruct items as [|i items].
      + right. exists j, js. split; [reflexivity|]. cbn in E. rewrite <- app_assoc in E. eauto.
      + inversion Hi as [|? ? Hi1 Hi2]; subst. cbn [map concat] in E. rewrite <- !app_assoc in E.
        destruct (enc_inj _ _ _ _ Hj1 Hi1 E) as [-> E'].
        destruct (IH items r1 r2 Hj2 Hi2 E') as [(k & ->)|(j' & js' & -> & rest & ->)].
        * left. exists (S k). reflexivity.
        * right. exists j', js'. split; [reflexivity|eauto].
  Qed.

  (* fuel of drain is never exhausted: the result does not depend on it *)
  Lemma drain_fuel : forall f1 f2 buf acc, all_bytes buf -> (length buf < f1)%nat -> (length buf < f2)%nat ->
    drain accepts cap f1 buf acc = drain accepts cap f2 buf acc.
  Proof.
    induction f1 as [|f1 IH]; intros f2 buf acc Hb H1 H2; [lia|]. destruct f2 as [|f2]; [lia|].
    cbn [drain]. destruct (dec_step accepts buf) as [t m rest| | |] eqn:S; try reflexivity.
    destruct rest as [|c rest]; [reflexivity|].
    destruct (dec_step_sound _ _ _ _ Hb S) as [E (i & Hw & -> & _)]. subst buf.
    apply Forall_app in Hb. destruct Hb as [_ Hb].
    rewrite app_length in H1, H2. pose proof (enc_len_pos i). apply IH; [exact Hb|lia|lia].
  Qed.
End Recv.

(* ---------------- sender ---------------- *)
Lemma take_batch_concat : forall q want cnt buf buf' q',
  take_batch want cnt buf q = (buf', q') -> buf' ++ concat q' = buf ++ concat q.
Proof.
  induction q as [|m q IH]; intros want cnt buf buf' q' H; cbn [take_batch] in H.
  - injection H as <- <-. reflexivity.
  - cbn [concat]. destruct (_ || _ || _).
    + injection H as <- <-. rewrite <- app_assoc. reflexivity.
    + rewrite (IH _ _ _ _ _ H), <- app_assoc. reflexivity.
Qed.

(* at least one message is taken, at most maxMessagesPerSegment *)
Lemma take_batch_count : forall q want cnt buf buf' q', q <> [] -> (cnt < max_msgs)%N ->
  take_batch want cnt buf q = (buf', q') ->
  (length q' < length q)%nat /\ (cnt + N.of_nat (length q - length q') <= max_msgs)%N.
Proof.
  induction q as [|m q IH]; intros want cnt buf buf' q' Hq Hc H; [contradiction|].
  cbn [take_batch] in H. destruct (N.leb_spec want (cnt + 1)); cbn [orb] in H.
  { injection H as <- <-. cbn [length]. lia. }
  destruct (N.leb_spec max_msgs (cnt + 1)); cbn [orb] in H.
  { injection H as <- <-. cbn [length]. lia. }
  destruct (seg_max <? len (buf ++ m))%N.
  { injection H as <- <-. cbn [length]. lia. }
  destruct q as [|m2 q].
  - cbn [take_batch] in H. injection H as <- <-. cbn [length]. lia.
  - destruct (IH want (cnt + 1)%N (buf ++ m) buf' q' ltac:(discriminate) ltac:(lia) H) as [I1 I2]. cbn [length] in *. lia.
Qed.

(* no message is added once the buffer has spilled over one segment: all
   messages of a batch but the last start within the first segment *)
Lemma take_batch_nonempty : forall q want cnt buf buf' q', q <> [] -> Forall (fun m => m <> []) q ->
  take_batch want cnt buf q = (buf', q') -> buf' <> [].
Proof.
  intros q want cnt buf buf' q' Hq Hm H. destruct q as [|m q]; [contradiction|].
  inversion Hm as [|? ? Hm1 _]; subst.
  assert (G : forall q want cnt buf buf' q', buf <> [] -> take_batch want cnt buf q = (buf', q') -> buf' <> []).
  { clear. induction q as [|m q IH]; intros want cnt buf buf' q' Hb H; cbn [take_batch] in H.
    - injection H as <- <-. exact Hb.
    - assert (buf ++ m <> []) by (destruct buf; [contradiction|discriminate]).
      destruct (_ || _ || _); [injection H as <- <-; assumption|]. eapply IH; eauto. }
  cbn [take_batch] in H. assert (buf ++ m <> []). { destruct buf; [exact Hm1|discriminate]. }
  destruct (_ || _ || _); [injection H as <- <-; assumption|]. eapply G; eauto.
Qed.

Lemma split_concat : forall fuel buf, concat (split fuel buf) = buf.
Proof.
  induction fuel as [|fu IH]; intros buf; cbn [split]; [cbn; apply app_nil_r|].
  destruct (len buf <=? seg_max)%N; [cbn; apply app_nil_r|].
  cbn [concat]. rewrite IH. apply firstn_skipn.
Qed.

Definition seg_ok (s : bytes) : Prop := s <> [] /\ (len s <= seg_max)%N.

Lemma split_bounds : forall fuel buf, (length buf <= fuel)%nat -> buf <> [] -> Forall seg_ok (split fuel buf).
Proof.
  induction fuel as [|fu IH]; intros buf Hf Hb.
  - destruct buf; [contradiction|cbn in Hf; lia].
  - cbn [split]. destruct (N.leb_spec (len buf) seg_max) as [L|L].
    + constructor; [split; assumption|constructor].
    + unfold len, seg_max in L.
      assert (F : length (firstn (N.to_nat seg_max) buf) = N.to_nat seg_max).
      { apply firstn_length_le. unfold seg_max. lia. }
      assert (Sk : length (skipn (N.to_nat seg_max) buf) = (length buf - N.to_nat seg_max)%nat) by apply skipn_length.
      constructor.
      * split; [intros E; rewrite E in F; cbn in F; unfold seg_max in F; lia|]. unfold len. rewrite F. lia.
      * apply IH; [rewrite Sk; unfold seg_max; lia|]. intros E. rewrite E in Sk. cbn in Sk. unfold seg_max in Sk. lia.
Qed.

(* every segment of a split except the last is full *)
Lemma split_full : forall fuel buf, (length buf <= fuel)%nat ->
  Forall (fun s => len s = seg_max) (removelast (split fuel buf)).
Proof.
  induction fuel as [|fu IH]; intros buf Hf; cbn [split]; [constructor|].
  destruct (N.leb_spec (len buf) seg_max) as [L|L]; [constructor|].
  assert (F : length (firstn (N.to_nat seg_max) buf) = N.to_nat seg_max).
  { apply firstn_length_le. unfold len, seg_max in *. lia. }
  assert (Sk : length (skipn (N.to_nat seg_max) buf) = (length buf - N.to_nat seg_max)%nat) by apply skipn_length.
  assert (NE : split fu (skipn (N.to_nat seg_max) buf) <> []).
  { destruct fu; cbn [split]; [discriminate|]. destruct (_ <=? _)%N; discriminate. }
  assert (IHs := IH (skipn (N.to_nat seg_max) buf) ltac:(rewrite Sk; unfold seg_max; lia)).
  destruct (split fu (skipn (N.to_nat seg_max) buf)) as [|t0 tl]; [contradiction|].
  cbn [removelast]. constructor; [unfold len; rewrite F; lia|exact IHs].
Qed.

Lemma segments_concat : forall fuel q choices, (length q <= fuel)%nat ->
  concat (segments_of fuel q choices) = concat q.
Proof.
  induction fuel as [|fu IH]; intros q choices Hf.
  - destruct q; [reflexivity|cbn in Hf; lia].
  - cbn [segments_of]. destruct q as [|m q]; [reflexivity|].
    destruct (take_batch (hd 1%N choices) 0 [] (m :: q)) as [buf q'] eqn:T.
    rewrite concat_app. unfold split_buf. rewrite split_concat.
    destruct (take_batch_count (m :: q) (hd 1%N choices) 0%N [] buf q' ltac:(discriminate) ltac:(unfold max_msgs; lia) T) as [P _].
    rewrite IH by (cbn [length] in *; lia).
    apply take_batch_concat in T. exact T.
Qed.

Lemma segments_bounds : forall fuel q choices, Forall (fun m => m <> []) q ->
  Forall seg_ok (segments_of fuel q choices).
Proof.
  induction fuel as [|fu IH]; intros q choices Hm; [constructor|].
  cbn [segments_of]. destruct q as [|m q]; [constructor|].
  destruct (take_batch (hd 1%N choices) 0 [] (m :: q)) as [buf q'] eqn:T.
  apply Forall_app. split.
  - apply split_bounds; [lia|]. eapply take_batch_nonempty; [|exact Hm|exact T]. discriminate.
  - apply IH. pose proof (take_batch_concat _ _ _ _ _ _ T) as _.
    (* q' is a suffix of the queue *)
    assert (G : forall q want cnt buf buf' q', take_batch want cnt buf q = (buf', q') ->
                Forall (fun m => m <> []) q -> Forall (fun m : bytes => m <> []) q').
    { clear. induction q as [|m q IHq]; intros want cnt buf buf' q' H Hq; cbn [take_batch] in H.
      - injection H as <- <-. constructor.
      - inversion Hq; subst. destruct (_ || _ || _); [injection H as <- <-; assumption|]. eapply IHq; eauto. }
    eapply G; eauto.
Qed.

(* ---------------- lengths-only sender = sender on bytes ---------------- *)
Lemma take_batch_lens : forall q want cnt buf buf' q', take_batch want cnt buf q = (buf', q') ->
  take_batch_l want cnt (len buf) (map len q) = (len buf', map len q').
Proof.
  induction q as [|m q IH]; intros want cnt buf buf' q' H; cbn [take_batch map take_batch_l] in *.
  - injection H as <- <-. reflexivity.
  - assert (E : (len buf + len m = len (buf ++ m))%N) by (unfold len; rewrite app_length; lia).
    rewrite E. destruct (_ || _ || _).
    + injection H as <- <-. reflexivity.
    + apply IH. exact H.
Qed.

Lemma split_lens : forall fuel buf, map len (split fuel buf) = split_l fuel (len buf).
Proof.
  induction fuel as [|fu IH]; intros buf; cbn [split split_l]; [reflexivity|].
  destruct (N.leb_spec (len buf) seg_max) as [L|L]; [reflexivity|]. cbn [map]. rewrite IH. f_equal.
  - unfold len. rewrite firstn_length_le; unfold len, seg_max in *; lia.
  - f_equal. unfold len. rewrite skipn_length. unfold len in L. lia.
Qed.

Lemma split_l_fuel : forall f1 f2 total, (total / seg_max < N.of_nat f1)%N -> (total / seg_max < N.of_nat f2)%N ->
  split_l f1 total = split_l f2 total.
Proof.
  induction f1 as [|f1 IH]; intros f2 total H1 H2; [unfold seg_max in *; lia|]. destruct f2 as [|f2]; [unfold seg_max in *; lia|].
  cbn [split_l]. destruct (N.leb_spec total seg_max) as [L|L]; [reflexivity|]. f_equal.
  assert (D : ((total - seg_max) / seg_max = total / seg_max - 1)%N).
  { unfold seg_max in *. lia. }
  assert (P : (1 <= total / seg_max)%N) by (unfold seg_max in *; lia).
  apply IH; lia.
Qed.

Lemma split_buf_lens buf : map len (split_buf buf) = split_len (len buf).
Proof.
  destruct buf as [|b0 buf]; [reflexivity|].
  unfold split_buf, split_len. rewrite split_lens. apply split_l_fuel.
  - unfold len, seg_max. cbn [length]. lia.
  - lia.
Qed.

Lemma segments_lens : forall fuel q choices,
  map len (segments_of fuel q choices) = segments_l fuel (map len q) choices.
Proof.
  induction fuel as [|fu IH]; intros q choices; [reflexivity|].
  cbn [segments_of segments_l]. destruct q as [|m q]; [reflexivity|]. cbn [map].
  destruct (take_batch (hd 1%N choices) 0 [] (m :: q)) as [buf q'] eqn:T.
  apply take_batch_lens in T. cbn [map] in T. change (len []) with 0%N in T. rewrite T.
  rewrite map_app, split_buf_lens, IH. reflexivity.
Qed.
