(* C10 - property theorems only. *)
From V Require Import Lib.CborProofs Lib.CborMore C10.Gen C10.Model C10.Proofs.

(* Receiver.  For every mini-protocol decoder `accepts`, every list of
   messages - each the encoding of a well-formed CBOR array [uint type, ...]
   of any shape, header forms and size up to the incomplete-buffer cap + 1,
   within the CBOR decoder's configured limits - and EVERY way of cutting
   their concatenation into non-empty segment payloads (cuts inside headers,
   one byte per segment, many messages per segment): the real readLoop's
   model hands exactly these messages to the handler, in order, byte for
   byte, keeps nothing in the buffer and reports no error. *)
Theorem C10_reassembly : forall accepts cap items segs,
  Forall (good accepts cap) items -> Forall (fun s => s <> []) segs ->
  concat segs = concat (map enc items) ->
  recv accepts cap segs = mkR (map msg_of items) [] Running.
Proof.
  intros accepts cap items segs Hg Hs E.
  apply (recv_ok accepts cap segs items [] [] Hg Hs E). left. reflexivity.
Qed.
Print Assumptions C10_reassembly.

(* Sender.  For every scheduler choice of batch sizes: the segment payloads,
   concatenated, are the queued messages concatenated; every payload is
   non-empty and at most SegmentMaxPayloadLength. *)
Theorem C10_sender : forall msgs choices, Forall (fun m => m <> []) msgs ->
  concat (send msgs choices) = concat msgs /\
  Forall (fun s => s <> [] /\ (len s <= seg_max)%N) (send msgs choices).
Proof.
  intros msgs choices Hm. split.
  - apply segments_concat. lia.
  - apply segments_bounds. exact Hm.
Qed.
Print Assumptions C10_sender.

(* a batch holds between 1 and maxMessagesPerSegment messages, and every
   segment of a batch except the last is full *)
Theorem C10_batch : forall want q buf q', q <> [] -> take_batch want 0 [] q = (buf, q') ->
  (length q' < length q)%nat /\ (N.of_nat (length q - length q') <= max_msgs)%N /\
  buf ++ concat q' = concat q /\
  Forall (fun s => len s = seg_max) (removelast (split_buf buf)).
Proof.
  intros want q buf q' Hq T.
  destruct (take_batch_count q want 0%N [] buf q' Hq ltac:(unfold max_msgs; lia) T) as [A B].
  repeat split; [exact A|lia|apply (take_batch_concat _ _ _ _ _ _ T)|apply split_full; lia].
Qed.

(* Composition: whatever the batching, the peer's handler receives what was queued. *)
Theorem C10_composed : forall accepts cap items choices,
  Forall (good accepts cap) items ->
  recv accepts cap (send (map enc items) choices) = mkR (map msg_of items) [] Running.
Proof.
  intros accepts cap items choices Hg.
  assert (Hm : Forall (fun m : bytes => m <> []) (map enc items)).
  { apply Forall_forall. intros m Hin. apply in_map_iff in Hin. destruct Hin as (i & <- & _). apply enc_ne. }
  destruct (C10_sender (map enc items) choices Hm) as [C B].
  apply C10_reassembly; [exact Hg| |exact C].
  eapply Forall_impl; [|exact B]. intros s [H _]. exact H.
Qed.
Print Assumptions C10_composed.

(* Soundness for arbitrary input (garbage included) and every outcome: the
   delivered messages are encodings of well-formed items accepted by the
   protocol decoder, and delivered bytes followed by the buffer are exactly
   the consumed part of the stream - nothing dropped, duplicated, reordered or
   merged; while no error is reported the whole stream is accounted for and
   the buffer is empty or an incomplete item. *)
Theorem C10_delivered_sound : forall accepts cap segs, all_bytes (concat segs) ->
  let st := recv accepts cap segs in
  exists pre post, concat segs = pre ++ post /\
    Forall (is_msg accepts) (delivered st) /\
    concat (map snd (delivered st)) ++ rbuf st = pre /\
    (status st = Running -> post = [] /\ waiting (rbuf st)).
Proof.
  intros accepts cap segs Hb st.
  destruct (recv_sound accepts cap segs (mkR [] [] Running) st Hb ltac:(constructor) ltac:(constructor) eq_refl)
    as (pre & post & E & I1 & I2 & I3).
  exists pre, post. cbn in I2. repeat split; auto; try (apply I3; assumption).
  destruct (I3 H) as (_ & _ & W). apply W. left. reflexivity.
Qed.
Print Assumptions C10_delivered_sound.

(* Error case.  If, after some messages, the stream continues with bytes
   that are not the beginning of any well-formed item (parse_full = Bad),
   then whatever the segmentation the handler only ever receives a prefix of
   those messages - no message is made up from the bad position onwards -
   and a buffer holding the bad bytes is an error at once, never skipped. *)
Theorem C10_error : forall accepts cap items bad more segs,
  Forall wf items -> parse_full bad = Bad -> all_bytes (concat segs) ->
  concat segs = concat (map enc items) ++ bad ++ more ->
  exists k, map snd (delivered (recv accepts cap segs)) = map enc (firstn k items).
Proof.
  intros accepts cap items bad more segs Hw Hbad Hb E.
  destruct (C10_delivered_sound accepts cap segs Hb) as (pre & post & E1 & I1 & I2 & _).
  set (st := recv accepts cap segs) in *.
  assert (exists js, Forall wf js /\ map snd (delivered st) = map enc js) as (js & Hj & Ej).
  { clear - I1. induction I1 as [|m l (i & Hw & Em & _) _ (js & Hj & Ej)]; [exists []; split; [constructor|reflexivity]|].
    exists (i :: js). split; [constructor; assumption|]. cbn. rewrite Em, Ej. reflexivity. }
  rewrite Ej in I2. rewrite E1, <- I2, <- app_assoc in E.
  destruct (enc_concat_prefix js items _ _ Hj Hw E) as [(k & ->)|(j & js' & -> & rest & E2)].
  - exists k. rewrite Ej. reflexivity.
  - exfalso. apply Forall_app in Hj. destruct Hj as [_ Hj]. inversion Hj as [|? ? Hwj _]; subst.
    exact (parse_full_bad bad Hbad j more rest Hwj E2).
Qed.
Print Assumptions C10_error.

(* ... and the error IS reported: once the segments received so far contain
   the whole bad position (wherever the cuts fall, also when it arrives split
   over many segments), the receiver is no longer Running - by
   Lib.CborMore.parse_full_bad_stable a buffer that starts with the bad bytes
   can neither be waited on nor parsed.  Applied to the prefix of the segment
   list that ends with the segment completing `bad`, this is "reported as soon
   as it is complete". *)
Theorem C10_error_reported : forall accepts cap items bad more segs,
  Forall wf items -> parse_full bad = Bad -> all_bytes (concat segs) ->
  concat segs = concat (map enc items) ++ bad ++ more ->
  status (recv accepts cap segs) <> Running.
Proof.
  intros accepts cap items bad more segs Hw Hbad Hb E Hrun.
  destruct (C10_delivered_sound accepts cap segs Hb) as (pre & post & E1 & I1 & I2 & I3).
  set (st := recv accepts cap segs) in *.
  destruct (I3 Hrun) as [-> W]. rewrite app_nil_r in E1.
  assert (exists js, Forall wf js /\ map snd (delivered st) = map enc js) as (js & Hj & Ej).
  { clear - I1. induction I1 as [|m l (i & Hwi & Em & _) _ (js & Hj & Ej)]; [exists []; split; [constructor|reflexivity]|].
    exists (i :: js). split; [constructor; assumption|]. cbn. rewrite Em, Ej. reflexivity. }
  rewrite Ej in I2. rewrite E1, <- I2 in E.
  destruct (enc_concat_prefix js items _ _ Hj Hw E) as [(k & ->)|(j & js' & -> & rest & E2)].
  - (* delivered = the first k messages: the buffer holds the rest of the stream *)
    assert (R : rbuf st = concat (map enc (skipn k items)) ++ bad ++ more).
    { rewrite <- (firstn_skipn k items) in E at 2. rewrite map_app, concat_app, <- app_assoc in E.
      apply app_inv_head in E. exact E. }
    destruct (skipn k items) as [|i r] eqn:Sk.
    + cbn in R. destruct W as [W|W].
      * rewrite W in R. destruct bad; [vm_compute in Hbad; discriminate|discriminate].
      * rewrite R, (parse_full_bad_stable bad Hbad more) in W. discriminate.
    + assert (Hwi : wf i).
      { assert (F : Forall wf (skipn k items)) by (apply Forall_skipn'; exact Hw). rewrite Sk in F. inversion F; assumption. }
      cbn [map concat] in R. rewrite <- app_assoc in R. destruct W as [W|W].
      * rewrite W in R. symmetry in R. apply app_eq_nil in R. destruct R as [R _]. destruct (enc_ne i R).
      * rewrite R, parse_full_enc in W by exact Hwi. discriminate.
  - apply Forall_app in Hj. destruct Hj as [_ Hj]. inversion Hj as [|? ? Hwj _]; subst.
    exact (parse_full_bad bad Hbad j more rest Hwj E2).
Qed.
Print Assumptions C10_error_reported.

(* Duplex: on a connection that carries both directions of the same protocol
   id, each (id, direction) stream is reassembled on its own - whatever
   segments of the other direction (or of other protocols) are interleaved,
   and wherever: they do not reach this instance and do not disturb it. *)
Lemma key_eqb_refl k : key_eqb k k = true.
Proof. unfold key_eqb. rewrite N.eqb_refl. destruct (snd k); reflexivity. Qed.

Theorem C10_demux_other : forall w1 w2 k k' p, key_eqb k' k = false ->
  demux (w1 ++ (k', p) :: w2) k = demux (w1 ++ w2) k.
Proof.
  intros w1 w2 k k' p H. unfold demux. rewrite !filter_app. cbn [filter fst]. rewrite H. reflexivity.
Qed.

Theorem C10_demux_own : forall w1 w2 k p,
  demux (w1 ++ (k, p) :: w2) k = demux w1 k ++ p :: demux w2 k.
Proof.
  intros w1 w2 k p. unfold demux. rewrite filter_app. cbn [filter fst]. rewrite key_eqb_refl, map_app. reflexivity.
Qed.

Theorem C10_duplex : forall accepts cap wire k items,
  Forall (good accepts cap) items -> Forall (fun s => s <> []) (demux wire k) ->
  concat (demux wire k) = concat (map enc items) ->
  recv_mux accepts cap wire k = mkR (map msg_of items) [] Running.
Proof. intros. unfold recv_mux. apply C10_reassembly; assumption. Qed.
Print Assumptions C10_duplex.

Example C10_duplex_ex :
  let wire : list (key * bytes) := [((77%N, true), [130; 1]%N); ((77%N, false), [129]%N); ((77%N, true), [65; 170]%N); ((77%N, false), [2]%N)] in
  delivered (recv_mux h_accepts max_buf wire (77%N, false)) = [(2%N, [129; 2]%N)] /\
  delivered (recv_mux h_accepts max_buf wire (77%N, true)) = [(1%N, [130; 1; 65; 170]%N)].
Proof. vm_compute. split; reflexivity. Qed.

Theorem C10_error_now : forall accepts cap fuel buf acc, parse_full buf = Bad ->
  drain accepts cap (S fuel) buf acc = mkR acc buf Failed.
Proof. exact drain_bad. Qed.

(* The incomplete-buffer cap: an incomplete item longer than cap is an error. *)
Theorem C10_cap : forall accepts cap fuel buf acc, parse_full buf = NeedMore ->
  status (drain accepts cap (S fuel) buf acc) = (if (cap <? len buf)%N then Failed else Running) /\
  delivered (drain accepts cap (S fuel) buf acc) = acc.
Proof.
  intros accepts cap fuel buf acc P. cbn [drain]. unfold dec_step. rewrite P.
  destruct (cap <? len buf)%N; split; reflexivity.
Qed.

(* the lengths-only sender evaluated by the correspondence is the sender *)
Theorem C10_send_lens : forall msgs choices, map len (send msgs choices) = send_lens (map len msgs) choices.
Proof. intros. unfold send, send_lens. rewrite map_length. apply segments_lens. Qed.

(* the decode loop's fuel is never exhausted *)
Theorem C10_fuel : forall accepts cap f1 f2 buf acc, all_bytes buf -> (length buf < f1)%nat -> (length buf < f2)%nat ->
  drain accepts cap f1 buf acc = drain accepts cap f2 buf acc.
Proof. exact drain_fuel. Qed.

(* ---- non-vacuity ---- *)
Definition ex_m1 : item := Arr (Some Fimm) [UInt Fimm 2; BStr F1 [1;2;3]%N].
Definition ex_m2 : item := Arr None [UInt F1 0; Arr (Some Fimm) []; TStrI [(Fimm, [97]%N)]].
Example C10_good_ex : Forall (good h_accepts max_buf) [ex_m1; ex_m2].
Proof.
  repeat constructor; try (cbn; lia); try (vm_compute; reflexivity); try (vm_compute; discriminate);
    try (eexists; split; reflexivity).
Qed.
(* two messages, cut inside the first header, inside the string, and with the
   second message split byte by byte *)
Example C10_reassembly_ex :
  recv h_accepts max_buf [[130]%N; [2;88;3;1]%N; [2;3;159;24]%N; [0]%N; [128]%N; [127;97;97;255]%N; [255]%N]
  = mkR [(2%N, enc ex_m1); (0%N, enc ex_m2)] [] Running.
Proof. vm_compute. reflexivity. Qed.
Example C10_error_ex :
  status (recv h_accepts max_buf [[130;2]%N; [88;3;1;2;3;28]%N]) = Failed
  /\ map fst (delivered (recv h_accepts max_buf [[130;2]%N; [88;3;1;2;3;28]%N])) = [2%N].
Proof. vm_compute. split; reflexivity. Qed.
(* batching: 3 messages wanted, but the batch stops once it spills over one segment *)
Example C10_sender_ex : send_lens [10; 70000; 5; 7]%N [3; 2]%N = [65535; 4475; 12]%N.
Proof. vm_compute. reflexivity. Qed.
