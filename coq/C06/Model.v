(* C06 - multi-asset values.  Model of ledger/common/common.go:
   MultiAsset[T] (data map[Blake2b224]map[cbor.ByteString]T), Asset, Add,
   Compare, normalize, pruneZeroAssets, MarshalCBOR / UnmarshalCBOR.

   A Go map is an association list with pairwise distinct keys, in an
   arbitrary order (= Go's iteration order): the theorems quantify over all
   such lists, so nothing may depend on the order.  `None` is the nil map
   (zero-value MultiAsset, or one decoded from CBOR null).
   Quantities are Z (Go big.Int pointers); `wrap` makes the int64 / uint64
   instantiations of the generic type explicit.
   Add describes the code WITH fixes/C06-add-nil-data.patch (a nil receiver
   map is allocated on the first write instead of panicking). *)
From V Require Import Lib.Base Lib.Hex Lib.Cbor.
Local Open Scope Z_scope.

Section Assoc.
  Context {V : Type}.
  (* m[k] *)
  Fixpoint lookup (k : bytes) (m : list (bytes * V)) : option V :=
    match m with
    | [] => None
    | (k', v) :: r => if bytes_eqb k k' then Some v else lookup k r
    end.
  (* m[k] = v *)
  Fixpoint set (k : bytes) (v : V) (m : list (bytes * V)) : list (bytes * V) :=
    match m with
    | [] => [(k, v)]
    | (k', v') :: r => if bytes_eqb k k' then (k, v) :: r else (k', v') :: set k v r
    end.
End Assoc.

Definition amap := list (bytes * Z).        (* map[cbor.ByteString]T *)
Definition pmap := list (bytes * amap).     (* map[Blake2b224]map[cbor.ByteString]T *)
Definition masset := option pmap.           (* MultiAsset.data, None = nil *)

Definition data_of (m : masset) : pmap := match m with Some l => l | None => [] end.
Definition inner (p : bytes) (m : pmap) : amap := match lookup p m with Some am => am | None => [] end.

(* func (m *MultiAsset[T]) Asset(policyId, assetName) T  (zero T when absent) *)
Definition asset (m : pmap) (p n : bytes) : Z :=
  match lookup p m with
  | None => 0
  | Some am => match lookup n am with Some q => q | None => 0 end
  end.
Definition qty (m : masset) (p n : bytes) : Z := asset (data_of m) p n.

(* the three instantiations of T *)
Inductive width := Big | I64 | U64.
Definition wrap (w : width) (z : Z) : Z :=
  match w with
  | Big => z
  | U64 => z mod 2^64
  | I64 => (z + 2^63) mod 2^64 - 2^63
  end.
Definition in_range (w : width) (z : Z) : bool :=
  match w with
  | Big => true
  | U64 => (0 <=? z) && (z <? 2^64)
  | I64 => (- 2^63 <=? z) && (z <? 2^63)
  end.

(* if _, ok := m.data[policy]; !ok { m.data[policy] = make(...) }; m.data[policy][asset] = q *)
Definition put (m : pmap) (p n : bytes) (q : Z) : pmap := set p (set n q (inner p m)) m.

(* Add: for policy, assets := range other.data { for asset, amount := range assets {
     existing := m.Asset(policy, asset); m.data[policy][asset] = addAmounts(existing, amount) } } *)
Definition add_inner (w : width) (p : bytes) (m : pmap) (am : amap) : pmap :=
  fold_left (fun m na => put m p (fst na) (wrap w (asset m p (fst na) + snd na))) am m.
Definition add_pmap (w : width) (m o : pmap) : pmap :=
  fold_left (fun m pa => add_inner w (fst pa) m (snd pa)) o m.
Definition has_entry (o : pmap) : bool := existsb (fun pa => negb (Nat.eqb (length (snd pa)) 0)) o.
(* a nil receiver map stays nil unless something is written *)
Definition add (w : width) (m o : masset) : masset :=
  match m with
  | Some l => Some (add_pmap w l (data_of o))
  | None => if has_entry (data_of o) then Some (add_pmap w [] (data_of o)) else None
  end.

(* a sequence of Adds into one accumulator *)
Definition add_seq (w : width) (a : masset) (xs : list masset) : masset := fold_left (add w) xs a.

(* normalize(): a fresh map with the non-zero entries; policies without any are absent *)
Definition nonzero (na : bytes * Z) : bool := negb (snd na =? 0).
Definition norm_amap (am : amap) : amap := filter nonzero am.
Definition nonempty (pa : bytes * amap) : bool := negb (Nat.eqb (length (snd pa)) 0).
Definition norm_pmap (m : pmap) : pmap :=
  filter nonempty (map (fun pa => (fst pa, norm_amap (snd pa))) m).
Definition norm (m : masset) : pmap := norm_pmap (data_of m).

(* Compare: the two length tests, then every non-zero entry of `other` against
   m.Asset on the UN-normalised receiver *)
Definition compare (m o : masset) : bool :=
  let t := norm m in
  let od := norm o in
  if Nat.eqb (length od) (length t) then
    forallb (fun pa =>
      Nat.eqb (length (snd pa)) (length (inner (fst pa) t)) &&
      forallb (fun na => snd na =? asset (data_of m) (fst pa) (fst na)) (snd pa)) od
  else false.

(* pruneZeroAssets: nil stays nil, otherwise delete zero entries and empty policies *)
Definition prune (m : masset) : masset :=
  match m with None => None | Some l => Some (norm_pmap l) end.

Definition neg_pmap (m : pmap) : pmap := map (fun pa => (fst pa, map (fun na => (fst na, - snd na)) (snd pa))) m.
Definition neg (m : masset) : masset := option_map neg_pmap m.

(* ---- well-formedness of a Go map: distinct keys on both levels ---- *)
Definition keys {V} (m : list (bytes * V)) : list bytes := map fst m.
Definition wf_pmap (m : pmap) : Prop :=
  NoDup (keys m) /\ Forall (fun pa => NoDup (keys (snd pa))) m.
Definition wfm (m : masset) : Prop := wf_pmap (data_of m).

(* ---- CBOR encoding (cbor.Encode(m.data), fxamacker SortCoreDeterministic:
        pairs ordered by the bytewise order of the ENCODED keys;
        BigIntConvertShortest: integers that fit 64 bits as major 0/1, others
        as tag 2/3 with minimal big-endian bytes; nil map = null) ---- *)
Local Open Scope N_scope.
Fixpoint lex_ltb (a b : bytes) : bool :=
  match a, b with
  | [], [] => false
  | [], _ :: _ => true
  | _ :: _, [] => false
  | x :: r, y :: s => if x <? y then true else if x =? y then lex_ltb r s else false
  end.
Definition nlen {A} (l : list A) : N := N.of_nat (length l).
Definition bkey (k : bytes) : item := BStr (min_form (nlen k)) k.
Definition ekey (k : bytes) : bytes := enc (bkey k).
Definition key_ltb (k1 k2 : bytes) : bool := lex_ltb (ekey k1) (ekey k2).

Section Sort.
  Context {V : Type}.
  Fixpoint insert (kv : bytes * V) (l : list (bytes * V)) : list (bytes * V) :=
    match l with
    | [] => [kv]
    | x :: r => if key_ltb (fst x) (fst kv) then x :: insert kv r else kv :: l
    end.
  Definition ksort (l : list (bytes * V)) : list (bytes * V) := fold_right insert [] l.
End Sort.

Fixpoint be_min_fuel (fuel : nat) (n : N) (acc : bytes) : bytes :=
  match fuel with
  | O => acc
  | S f => if n =? 0 then acc else be_min_fuel f (n / 256) (n mod 256 :: acc)
  end.
Definition be_min (n : N) : bytes := be_min_fuel (N.to_nat (N.size n)) n [].

Definition enc_big (tag : N) (n : N) : item :=
  let b := be_min n in Tag Fimm tag (BStr (min_form (nlen b)) b).
Definition enc_qty (q : Z) : item :=
  if (0 <=? q)%Z then
    let n := Z.to_N q in if n <? 2^64 then UInt (min_form n) n else enc_big 2 n
  else
    let n := Z.to_N (-1 - q)%Z in if n <? 2^64 then NInt (min_form n) n else enc_big 3 n.
Definition enc_amap (am : amap) : item :=
  Map (Some (min_form (nlen am))) (map (fun na => (bkey (fst na), enc_qty (snd na))) (ksort am)).
Definition enc_pmap (m : pmap) : item :=
  Map (Some (min_form (nlen m))) (map (fun pa => (bkey (fst pa), enc_amap (snd pa))) (ksort m)).
Definition enc_ma (m : masset) : item :=
  match m with None => Simple Fimm 22 | Some l => enc_pmap l end.

(* ---- CBOR decoding (UnmarshalCBOR): strict pass, on a duplicate-key error a
        lenient last-wins pass and duplicateMapKeys = true; then pruneZeroAssets.
        Modelled fragment: maps (any header form, definite or not), byte-string
        keys (definite or chunked), policy keys copied into a [28]byte (short
        keys zero-padded, long keys truncated - fxamacker's array fill),
        quantities uint / nint / bignum tag 2,3 / null,undefined (nil *big.Int,
        pruned as zero).  Anything else is `None` (decode error). ---- *)
Definition chunks_cat (cs : list (form * bytes)) : bytes := flat_map snd cs.
Definition dec_key (it : item) : option bytes :=
  match it with
  | BStr _ bs => Some bs
  | BStrI cs => Some (chunks_cat cs)
  | _ => None
  end.
Definition fit28 (bs : bytes) : bytes := firstn 28 (bs ++ repeat 0 28).
Definition dec_pkey (it : item) : option bytes := option_map fit28 (dec_key it).
Definition be_val (bs : bytes) : N := fold_left (fun acc b => acc * 256 + b) bs 0.
Definition is_nil (it : item) : bool :=
  match it with Simple Fimm 22 | Simple Fimm 23 => true | _ => false end.
Definition dec_qty (it : item) : option Z :=
  match it with
  | UInt _ n => Some (Z.of_N n)
  | NInt _ n => Some (-1 - Z.of_N n)%Z
  | Tag _ 2 (BStr _ bs) => Some (Z.of_N (be_val bs))
  | Tag _ 3 (BStr _ bs) => Some (-1 - Z.of_N (be_val bs))%Z
  | Tag _ 2 (BStrI cs) => Some (Z.of_N (be_val (chunks_cat cs)))
  | Tag _ 3 (BStrI cs) => Some (-1 - Z.of_N (be_val (chunks_cat cs)))%Z
  | Simple Fimm 22 | Simple Fimm 23 => Some 0%Z
  | _ => None
  end.

(* one Go map filled pair by pair; the flag records a key seen twice *)
Fixpoint dec_amap_kvs (kvs : list (item * item)) (acc : amap) (dup : bool) : option (amap * bool) :=
  match kvs with
  | [] => Some (acc, dup)
  | (k, v) :: r =>
    match dec_key k, dec_qty v with
    | Some kb, Some q =>
        dec_amap_kvs r (set kb q acc) (dup || match lookup kb acc with Some _ => true | None => false end)
    | _, _ => None
    end
  end.
Definition dec_amap (it : item) : option (amap * bool) :=
  match it with
  | Map _ kvs => dec_amap_kvs kvs [] false
  | Simple Fimm 22 | Simple Fimm 23 => Some ([], false)
  | _ => None
  end.
Fixpoint dec_pmap_kvs (kvs : list (item * item)) (acc : pmap) (dup : bool) : option (pmap * bool) :=
  match kvs with
  | [] => Some (acc, dup)
  | (k, v) :: r =>
    match dec_pkey k, dec_amap v with
    | Some kb, Some (am, d) =>
        dec_pmap_kvs r (set kb am acc) (dup || d || match lookup kb acc with Some _ => true | None => false end)
    | _, _ => None
    end
  end.
Definition dec_ma (it : item) : option (masset * bool) :=
  match it with
  | Map _ kvs =>
      match dec_pmap_kvs kvs [] false with
      | Some (m, d) => Some (prune (Some m), d)
      | None => None
      end
  | Simple Fimm 22 | Simple Fimm 23 => Some (None, false)
  | _ => None
  end.
Local Close Scope N_scope.

(* ---- correspondence ---- *)
(* equality of two Go maps given in arbitrary order (both with distinct keys) *)
Definition amap_eqb (a b : amap) : bool :=
  Nat.eqb (length a) (length b) &&
  forallb (fun na => match lookup (fst na) b with Some q => snd na =? q | None => false end) a.
Definition pmap_eqb (a b : pmap) : bool :=
  Nat.eqb (length a) (length b) &&
  forallb (fun pa => match lookup (fst pa) b with Some am => amap_eqb (snd pa) am | None => false end) a.
Definition masset_eqb (a b : masset) : bool :=
  match a, b with
  | None, None => true
  | Some x, Some y => pmap_eqb x y
  | _, _ => false
  end.

Inductive case :=
| CAdd (w : width) (a b r : masset)             (* a.Add(&b) left a = r *)
| CCmp (a b : masset) (r : bool)                (* a.Compare(&b) = r *)
| CAsset (a : masset) (p n : bytes) (q : Z)     (* a.Asset(p, n) = q *)
| CEnc (a : masset) (bs : bytes)                (* cbor.Encode(&a) = bs *)
| CDec (it : item) (r : option (masset * bool)) (* UnmarshalCBOR(enc it): error, or data and duplicate flag *)
| CSeq (w : width) (start : masset) (xs : list masset) (r : masset).
    (* acc := start; for x in xs { acc.Add(&x) } left acc = r, where the x are
       long-lived operand objects shared between several accumulators *)

Definition check_case (c : case) : bool :=
  match c with
  | CAdd w a b r => masset_eqb (add w a b) r
  | CCmp a b r => Bool.eqb (compare a b) r
  | CAsset a p n q => qty a p n =? q
  | CEnc a bs => bytes_eqb (enc (enc_ma a)) bs
  | CSeq w a xs r => masset_eqb (add_seq w a xs) r
  | CDec it r =>
      match dec_ma it, r with
      | None, None => true
      | Some (m, d), Some (m', d') => masset_eqb m m' && Bool.eqb d d'
      | _, _ => false
      end
  end.
Definition mismatches : list case -> list nat := failing check_case.
