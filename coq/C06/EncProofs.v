(* C06 - lemmas about the CBOR encoding of multi-asset values: key order,
   independence of the Go map iteration order, decode (encode a). *)
From Coq Require Import Permutation Sorting.Sorted.
From V Require Import Lib.Base Lib.Hex Lib.Cbor C06.Model C06.Proofs.
Local Open Scope N_scope.

(* ------------------------------------------------------------------ *)
(* bytewise lexicographic order *)

Lemma lex_irrefl a : lex_ltb a a = false.
Proof. induction a as [|x r IH]; cbn [lex_ltb]; [reflexivity|]. rewrite N.ltb_irrefl, N.eqb_refl. exact IH. Qed.

Lemma lex_trans a : forall b c, lex_ltb a b = true -> lex_ltb b c = true -> lex_ltb a c = true.
Proof.
  induction a as [|x r IH]; intros [|y s] [|z t]; cbn [lex_ltb]; try discriminate; auto.
  intros Hab Hbc.
  destruct (N.ltb_spec x y), (N.eqb_spec x y), (N.ltb_spec y z), (N.eqb_spec y z),
           (N.ltb_spec x z), (N.eqb_spec x z); try discriminate; try lia; auto.
  eapply IH; eauto.
Qed.

Lemma lex_total a : forall b, a <> b -> lex_ltb a b = true \/ lex_ltb b a = true.
Proof.
  induction a as [|x r IH]; intros [|y s] H; cbn [lex_ltb]; auto; try congruence.
  destruct (N.ltb_spec x y), (N.eqb_spec x y), (N.ltb_spec y x), (N.eqb_spec y x); try lia; auto.
  subst. apply IH. congruence.
Qed.

Lemma lex_asym a b : lex_ltb a b = true -> lex_ltb b a = true -> False.
Proof. intros H1 H2. pose proof (lex_trans _ _ _ H1 H2) as H. rewrite lex_irrefl in H. discriminate. Qed.

(* the encoded key determines the key *)
Lemma be_length k : forall n, length (be k n) = k.
Proof. induction k as [|k IH]; intros n; cbn [be]; [reflexivity|]. rewrite app_length, IH. cbn. lia. Qed.

Lemma ekey_eq k : ekey k = enc_head 2 (min_form (nlen k)) (nlen k) ++ k.
Proof. reflexivity. Qed.

Lemma head_length f n : length (enc_head 2 f n) = S (nbytes f).
Proof. unfold enc_head. cbn [length]. rewrite be_length. reflexivity. Qed.

Lemma nbytes_min_form_mono a b : a <= b -> (nbytes (min_form a) <= nbytes (min_form b))%nat.
Proof.
  intros H. unfold min_form.
  change (2 ^ 8) with 256. change (2 ^ 16) with 65536. change (2 ^ 32) with 4294967296.
  destruct (N.ltb_spec a 24), (N.ltb_spec a 256), (N.ltb_spec a 65536), (N.ltb_spec a 4294967296),
           (N.ltb_spec b 24), (N.ltb_spec b 256), (N.ltb_spec b 65536), (N.ltb_spec b 4294967296);
    cbn [nbytes]; lia.
Qed.

Lemma ekey_inj k1 k2 : ekey k1 = ekey k2 -> k1 = k2.
Proof.
  intros E. assert (L : length (ekey k1) = length (ekey k2)) by (rewrite E; reflexivity).
  rewrite !ekey_eq, !app_length, !head_length in L.
  assert (Hl : length k1 = length k2).
  { destruct (Nat.lt_trichotomy (length k1) (length k2)) as [H|[H|H]]; [exfalso|exact H|exfalso].
    - assert (M := nbytes_min_form_mono (nlen k1) (nlen k2)). unfold nlen in *. lia.
    - assert (M := nbytes_min_form_mono (nlen k2) (nlen k1)). unfold nlen in *. lia. }
  rewrite !ekey_eq in E. unfold nlen in E. rewrite Hl in E. apply app_inv_head in E. exact E.
Qed.

Lemma key_irrefl k : key_ltb k k = false.
Proof. apply lex_irrefl. Qed.
Lemma key_trans a b c : key_ltb a b = true -> key_ltb b c = true -> key_ltb a c = true.
Proof. apply lex_trans. Qed.
Lemma key_total a b : a <> b -> key_ltb a b = true \/ key_ltb b a = true.
Proof. intros H. apply lex_total. intros E. apply H. apply ekey_inj. exact E. Qed.
Lemma key_asym a b : key_ltb a b = true -> key_ltb b a = true -> False.
Proof. apply lex_asym. Qed.

(* ------------------------------------------------------------------ *)
(* sorting by encoded key *)

Section SortFacts.
  Context {V : Type}.
  Implicit Types (l : list (bytes * V)) (kv : bytes * V).
  Definition kR (x y : bytes * V) : Prop := key_ltb (fst x) (fst y) = true.

  Lemma insert_perm kv l : Permutation (kv :: l) (insert kv l).
  Proof.
    induction l as [|x r IH]; cbn [insert]; [apply Permutation_refl|].
    destruct (key_ltb (fst x) (fst kv)); [|apply Permutation_refl].
    eapply Permutation_trans; [apply perm_swap|]. apply perm_skip. exact IH.
  Qed.

  Lemma ksort_perm l : Permutation l (ksort l).
  Proof.
    induction l as [|x r IH]; cbn [ksort fold_right]; [constructor|].
    eapply Permutation_trans; [apply perm_skip; exact IH|]. apply insert_perm.
  Qed.

  Lemma insert_sorted kv l :
    StronglySorted kR l -> ~ In (fst kv) (keys l) -> StronglySorted kR (insert kv l).
  Proof.
    induction l as [|x r IH]; cbn [insert]; intros S Hn.
    - constructor; constructor.
    - inversion S as [|? ? Sr Fx]; subst.
      destruct (key_ltb (fst x) (fst kv)) eqn:E.
      + constructor.
        * apply IH; [exact Sr|]. intros H. apply Hn. right. exact H.
        * apply Forall_forall. intros y Hy.
          apply (Permutation_in _ (Permutation_sym (insert_perm kv r))) in Hy.
          destruct Hy as [<-|Hy]; [exact E|]. rewrite Forall_forall in Fx. auto.
      + assert (Rkx : kR kv x).
        { destruct (key_total (fst kv) (fst x)) as [H|H]; [|exact H|unfold kR in *; congruence].
          intros Eq. apply Hn. left. symmetry. exact Eq. }
        constructor; [exact S|]. constructor; [exact Rkx|].
        apply Forall_forall. intros y Hy. rewrite Forall_forall in Fx. unfold kR in *. eapply key_trans; eauto.
  Qed.

  Lemma ksort_sorted l : NoDup (keys l) -> StronglySorted kR (ksort l).
  Proof.
    induction l as [|x r IH]; cbn [ksort fold_right keys map]; intros ND; [constructor|].
    inversion ND as [|? ? Hn ND']; subst. apply insert_sorted; [apply IH; exact ND'|].
    intros H. apply Hn. eapply Permutation_in; [|exact H].
    apply Permutation_sym. apply Permutation_map. apply ksort_perm.
  Qed.

  Lemma sorted_perm_eq l1 : forall l2,
    StronglySorted kR l1 -> StronglySorted kR l2 -> Permutation l1 l2 -> l1 = l2.
  Proof.
    induction l1 as [|x r IH]; intros l2 S1 S2 P.
    - apply Permutation_nil in P. auto.
    - destruct l2 as [|y s]; [apply Permutation_sym, Permutation_nil in P; discriminate|].
      inversion S1 as [|? ? S1' F1]; subst. inversion S2 as [|? ? S2' F2]; subst.
      rewrite Forall_forall in F1, F2.
      assert (x = y).
      { pose proof (Permutation_in x P (or_introl eq_refl)) as Hx.
        pose proof (Permutation_in y (Permutation_sym P) (or_introl eq_refl)) as Hy.
        destruct Hx as [->|Hx]; [reflexivity|]. destruct Hy as [->|Hy]; [reflexivity|].
        exfalso. eapply key_asym; [apply (F1 _ Hy)|apply (F2 _ Hx)]. }
      subst y. f_equal. apply IH; auto. eapply Permutation_cons_inv. exact P.
  Qed.

  Lemma ksort_perm_eq l l' : NoDup (keys l) -> Permutation l l' -> ksort l = ksort l'.
  Proof.
    intros ND P. apply sorted_perm_eq.
    - apply ksort_sorted. exact ND.
    - apply ksort_sorted. eapply Permutation_NoDup; [|exact ND]. apply Permutation_map. exact P.
    - eapply Permutation_trans; [apply Permutation_sym, ksort_perm|].
      eapply Permutation_trans; [exact P|apply ksort_perm].
  Qed.

  Lemma ksort_keys_nodup l : NoDup (keys l) -> NoDup (keys (ksort l)).
  Proof. intros ND. eapply Permutation_NoDup; [|exact ND]. apply Permutation_map. apply ksort_perm. Qed.

  Lemma ksort_length l : length (ksort l) = length l.
  Proof. symmetry. apply Permutation_length. apply ksort_perm. Qed.
End SortFacts.

(* sorting respects a key-preserving relation on the values *)
Lemma insert_Forall2 {V W} (Q : bytes * V -> bytes * W -> Prop) x y l l' :
  (fst x = fst y) -> Q x y -> Forall2 (fun a b => fst a = fst b /\ Q a b) l l' ->
  Forall2 (fun a b => fst a = fst b /\ Q a b) (insert x l) (insert y l').
Proof.
  intros Ek Qxy F. induction F as [|a b r s [Eab Qab] F IH]; cbn [insert].
  - constructor; [split; assumption|constructor].
  - rewrite <- Ek, <- Eab. destruct (key_ltb (fst a) (fst x)).
    + constructor; [split; assumption|exact IH].
    + constructor; [split; assumption|]. constructor; [split; assumption|exact F].
Qed.
Lemma ksort_Forall2 {V W} (Q : bytes * V -> bytes * W -> Prop) l l' :
  Forall2 (fun a b => fst a = fst b /\ Q a b) l l' ->
  Forall2 (fun a b => fst a = fst b /\ Q a b) (ksort l) (ksort l').
Proof.
  intros F. induction F as [|a b r s [Eab Qab] F IH]; cbn [ksort fold_right]; [constructor|].
  apply insert_Forall2; assumption.
Qed.

(* ------------------------------------------------------------------ *)
(* the encoder: independent of the iteration order, keys strictly increasing *)

Lemma enc_amap_perm am am' : NoDup (keys am) -> Permutation am am' -> enc_amap am = enc_amap am'.
Proof.
  intros ND P. unfold enc_amap, nlen. rewrite (Permutation_length P), (ksort_perm_eq _ _ ND P). reflexivity.
Qed.

(* two Go maps with the same contents: the same policies in some order, each
   with the same assets in some order *)
Definition pm_perm (a b : pmap) : Prop :=
  exists mid : pmap, Forall2 (fun x y : bytes * amap => fst x = fst y /\ Permutation (snd x) (snd y)) a mid /\ Permutation mid b.

Lemma Forall2_keys {V W} (Q : bytes * V -> bytes * W -> Prop) l l' :
  Forall2 (fun a b => fst a = fst b /\ Q a b) l l' -> keys l = keys l'.
Proof. intros F. induction F as [|a b r s [E _] F IH]; cbn [keys map]; [reflexivity|]. f_equal; assumption. Qed.

Lemma Forall2_len {A B} (Q : A -> B -> Prop) l l' : Forall2 Q l l' -> length l = length l'.
Proof. intros F. induction F; cbn [length]; congruence. Qed.

Lemma enc_pmap_perm a b : wf_pmap a -> pm_perm a b -> enc_pmap a = enc_pmap b.
Proof.
  intros [ND FA] (mid & F & P).
  assert (Km : keys a = keys mid) by (apply (Forall2_keys (fun x y => Permutation (snd x) (snd y))); exact F).
  assert (E1 : enc_pmap mid = enc_pmap b).
  { unfold enc_pmap, nlen. rewrite (Permutation_length P).
    rewrite (ksort_perm_eq mid b) by (try rewrite <- Km; assumption). reflexivity. }
  rewrite <- E1. unfold enc_pmap, nlen. rewrite (Forall2_len _ _ _ F). f_equal.
  assert (F' : Forall2 (fun x y => fst x = fst y /\ (enc_amap (snd x) = enc_amap (snd y))) a mid).
  { clear - F FA. induction F as [|x y r s [E Pxy] F IH]; [constructor|].
    inversion FA as [|? ? Hx FA']; subst. constructor; [|apply IH; exact FA'].
    split; [exact E|]. apply enc_amap_perm; assumption. }
  apply (ksort_Forall2 (fun x y => enc_amap (snd x) = enc_amap (snd y))) in F'.
  induction F' as [|x y r s [E Exy] F' IH]; cbn [map]; [reflexivity|].
  rewrite E, Exy, IH. reflexivity.
Qed.

Definition lexlt (a b : bytes) : Prop := lex_ltb a b = true.
(* the encoded keys of a CBOR map item, in wire order *)
Definition wire_keys (it : item) : list bytes :=
  match it with Map _ kvs => map (fun kv => enc (fst kv)) kvs | _ => [] end.

Lemma sorted_wire_keys {V} (f : bytes * V -> item * item) (l : list (bytes * V)) :
  (forall x, fst (f x) = bkey (fst x)) -> NoDup (keys l) ->
  StronglySorted lexlt (map (fun kv => enc (fst kv)) (map f (ksort l))).
Proof.
  intros Hf ND. pose proof (ksort_sorted l ND) as S. induction S as [|x r S IH Fx]; cbn [map]; [constructor|].
  constructor; [exact IH|]. rewrite Forall_forall in *. intros k Hk.
  apply in_map_iff in Hk. destruct Hk as [kv [<- Hk]]. apply in_map_iff in Hk. destruct Hk as [y [<- Hy]].
  rewrite !Hf. apply (Fx _ Hy).
Qed.

Lemma enc_pmap_sorted m : wf_pmap m ->
  StronglySorted lexlt (wire_keys (enc_pmap m)) /\
  forall p am, In (p, am) m -> StronglySorted lexlt (wire_keys (enc_amap am)).
Proof.
  intros [ND FA]. split.
  - unfold enc_pmap, wire_keys. apply sorted_wire_keys; [reflexivity|exact ND].
  - intros p am Hin. rewrite Forall_forall in FA. specialize (FA _ Hin). cbn [snd] in FA.
    unfold enc_amap, wire_keys. apply sorted_wire_keys; [reflexivity|exact FA].
Qed.

(* ------------------------------------------------------------------ *)
(* decoding an encoding *)

Lemma fold_be l : forall a0, fold_left (fun acc b => acc * 256 + b) l a0 = a0 * 256 ^ nlen l + be_val l.
Proof.
  unfold be_val. induction l as [|x r IH]; intros a0; cbn [fold_left].
  - unfold nlen. cbn [length]. change (256 ^ N.of_nat 0) with 1. ring.
  - rewrite (IH (a0 * 256 + x)), (IH (0 * 256 + x)).
    unfold nlen. cbn [length]. rewrite Nat2N.inj_succ, N.pow_succ_r'. ring.
Qed.
Lemma be_val_cons x l : be_val (x :: l) = x * 256 ^ nlen l + be_val l.
Proof. unfold be_val at 1. cbn [fold_left]. rewrite fold_be. ring. Qed.

Lemma be_min_val f : forall n acc, n < 2 ^ N.of_nat f ->
  be_val (be_min_fuel f n acc) = n * 256 ^ nlen acc + be_val acc.
Proof.
  induction f as [|f IH]; intros n acc Hn; cbn [be_min_fuel].
  - change (2 ^ N.of_nat 0) with 1 in Hn. assert (n = 0) by lia. subst. ring.
  - destruct (N.eqb_spec n 0) as [->|Hnz]; [ring|].
    rewrite IH.
    + rewrite be_val_cons. unfold nlen. cbn [length]. rewrite Nat2N.inj_succ, N.pow_succ_r'.
      pose proof (N.div_mod' n 256) as D. revert D. generalize (n / 256) (n mod 256). intros q r ->. ring.
    + rewrite Nat2N.inj_succ, N.pow_succ_r' in Hn.
      revert Hn. generalize (2 ^ N.of_nat f). intros P Hn. lia.
Qed.

Lemma be_min_ok n : be_val (be_min n) = n.
Proof.
  unfold be_min. rewrite be_min_val.
  - unfold nlen, be_val. cbn [length fold_left]. change (256 ^ N.of_nat 0) with 1. ring.
  - rewrite N2Nat.id. apply N.size_gt.
Qed.

Lemma dec_enc_qty q : dec_qty (enc_qty q) = Some q.
Proof.
  unfold enc_qty. destruct (Z.leb_spec 0 q) as [H|H].
  - destruct (Z.to_N q <? 2 ^ 64); cbn [dec_qty enc_big].
    + f_equal. lia.
    + rewrite be_min_ok. f_equal. lia.
  - destruct (Z.to_N (-1 - q) <? 2 ^ 64); cbn [dec_qty enc_big].
    + f_equal. lia.
    + rewrite be_min_ok. f_equal. lia.
Qed.

Lemma keys_app {V} (a b : list (bytes * V)) : keys (a ++ b) = keys a ++ keys b.
Proof. apply map_app. Qed.

Lemma dec_amap_enc l : forall acc dup, NoDup (keys (acc ++ l)) ->
  dec_amap_kvs (map (fun na => (bkey (fst na), enc_qty (snd na))) l) acc dup = Some (acc ++ l, dup).
Proof.
  induction l as [|[n q] r IH]; intros acc dup ND; cbn [map dec_amap_kvs fst snd].
  - rewrite app_nil_r. reflexivity.
  - cbn [bkey dec_key]. rewrite dec_enc_qty.
    assert (Hn : ~ In n (keys acc)).
    { rewrite keys_app in ND. cbn [keys map fst] in ND. apply NoDup_remove_2 in ND.
      intros H. apply ND. apply in_or_app. left. exact H. }
    pose proof Hn as Hl. apply lookup_None in Hl. rewrite Hl, set_fresh by exact Hn.
    rewrite IH by (rewrite <- app_assoc; exact ND). rewrite <- app_assoc, orb_false_r. reflexivity.
Qed.

Lemma dec_enc_amap am : NoDup (keys am) -> dec_amap (enc_amap am) = Some (ksort am, false).
Proof.
  intros ND. unfold enc_amap. cbn [dec_amap]. rewrite dec_amap_enc; [reflexivity|].
  cbn [app]. apply ksort_keys_nodup. exact ND.
Qed.

Lemma fit28_id p : length p = 28%nat -> fit28 p = p.
Proof.
  intros L. unfold fit28. rewrite firstn_app. replace (28 - length p)%nat with 0%nat by lia.
  rewrite firstn_O, app_nil_r. rewrite <- L. apply firstn_all.
Qed.

Definition sort_inner (pa : bytes * amap) : bytes * amap := (fst pa, ksort (snd pa)).

Lemma dec_pmap_enc l :
  Forall (fun pa : bytes * amap => length (fst pa) = 28%nat /\ NoDup (keys (snd pa))) l ->
  forall acc dup, NoDup (keys (acc ++ l)) ->
  dec_pmap_kvs (map (fun pa => (bkey (fst pa), enc_amap (snd pa))) l) acc dup
  = Some (acc ++ map sort_inner l, dup).
Proof.
  induction l as [|[p am] r IH]; intros FA acc dup ND; cbn [map dec_pmap_kvs fst snd].
  - rewrite app_nil_r. reflexivity.
  - inversion FA as [|? ? [L28 NDa] FA']; subst. cbn [fst snd] in *.
    unfold dec_pkey. cbn [bkey dec_key option_map]. rewrite (fit28_id _ L28), (dec_enc_amap _ NDa).
    assert (Hn : ~ In p (keys acc)).
    { rewrite keys_app in ND. cbn [keys map fst] in ND. apply NoDup_remove_2 in ND.
      intros H. apply ND. apply in_or_app. left. exact H. }
    pose proof Hn as Hl. apply lookup_None in Hl. rewrite Hl, set_fresh by exact Hn.
    rewrite IH; [|exact FA'|].
    + rewrite <- app_assoc, !orb_false_r. reflexivity.
    + rewrite <- app_assoc. rewrite keys_app in *. cbn [keys map fst app] in *. exact ND.
Qed.

Definition keys28 (m : masset) : Prop := Forall (fun pa : bytes * amap => length (fst pa) = 28%nat) (data_of m).
Definition sorted_form (m : pmap) : pmap := map sort_inner (ksort m).

Lemma dec_enc_pmap m : wf_pmap m -> keys28 (Some m) ->
  dec_ma (enc_pmap m) = Some (Some (norm_pmap (sorted_form m)), false).
Proof.
  intros [ND FA] K. unfold enc_pmap. cbn [dec_ma].
  rewrite (dec_pmap_enc (ksort m)).
  - reflexivity.
  - apply Forall_forall. intros pa Hin.
    apply (Permutation_in _ (Permutation_sym (ksort_perm m))) in Hin.
    unfold keys28 in K. cbn [data_of] in K. rewrite Forall_forall in K, FA. split; auto.
  - cbn [app]. apply ksort_keys_nodup. exact ND.
Qed.

Lemma asset_sorted_form m : wf_pmap m -> forall p n, asset (sorted_form m) p n = asset m p n.
Proof.
  intros [ND FA] p n. unfold asset, sorted_form.
  assert (E : lookup p (map sort_inner (ksort m)) = option_map (fun am : amap => ksort am) (lookup p (ksort m)))
    by exact (lookup_mapv (fun am : amap => ksort am) (ksort m) p).
  rewrite E, <- (lookup_perm p m (ksort m) ND (ksort_perm m)).
  destruct (lookup p m) as [am|] eqn:El; cbn [option_map]; [|reflexivity].
  apply lookup_Some_In in El. rewrite Forall_forall in FA. specialize (FA _ El). cbn [snd] in FA.
  rewrite <- (lookup_perm n am (ksort am) FA (ksort_perm am)). reflexivity.
Qed.

Lemma wf_sorted_form m : wf_pmap m -> wf_pmap (sorted_form m).
Proof.
  intros [ND FA]. unfold sorted_form. split.
  - assert (E : keys (map sort_inner (ksort m)) = keys (ksort m)) by exact (keys_mapv (fun pa : bytes * amap => ksort (snd pa)) (ksort m)).
    rewrite E. apply ksort_keys_nodup. exact ND.
  - apply Forall_forall. intros x Hx. apply in_map_iff in Hx. destruct Hx as [[p am] [<- Hin]]. cbn [sort_inner fst snd].
    apply ksort_keys_nodup. apply (Permutation_in _ (Permutation_sym (ksort_perm m))) in Hin.
    rewrite Forall_forall in FA. apply (FA _ Hin).
Qed.

Lemma dec_enc_ma a : wfm a -> keys28 a ->
  exists a', dec_ma (enc_ma a) = Some (a', false) /\ compare a' a = true /\ no_zero a' /\ wfm a'
             /\ (a' = None <-> a = None).
Proof.
  intros W K. destruct a as [m|]; cbn [enc_ma].
  - exists (Some (norm_pmap (sorted_form m))). unfold wfm in W. cbn [data_of] in W.
    pose proof (wf_sorted_form m W) as Ws.
    assert (Wn : wfm (Some (norm_pmap (sorted_form m)))) by (unfold wfm; cbn [data_of]; apply wf_norm; exact Ws).
    split; [apply dec_enc_pmap; assumption|]. split; [|split; [|split]].
    + apply compare_iff; [exact Wn|exact W|]. intros p n. unfold qty. cbn [data_of].
      rewrite asset_norm by exact Ws. apply asset_sorted_form. exact W.
    + apply (no_zero_prune (Some (sorted_form m))).
    + exact Wn.
    + split; discriminate.
  - exists None. cbn [dec_ma]. split; [reflexivity|]. split; [reflexivity|]. split; [|split; [exact W|tauto]].
    intros p am [].
Qed.

(* nothing the decoder returns holds a zero quantity or an empty policy *)
Lemma dec_no_zero it a d : dec_ma it = Some (a, d) -> no_zero a.
Proof.
  unfold dec_ma. intros H.
  destruct it as [| | | | | | |f kvs| |f v|]; try discriminate.
  - destruct (dec_pmap_kvs kvs [] false) as [[m d']|]; [|discriminate].
    injection H as <- _. apply (no_zero_prune (Some m)).
  - assert (a = None); [|subst; intros ? ? []].
    destruct f; try discriminate. destruct v as [|q]; try discriminate.
    do 5 (try (destruct q as [q|q|]; try discriminate)); injection H as <- _; reflexivity.
Qed.

(* ------------------------------------------------------------------ *)
(* Compare-equal values have the same normal form up to order, hence the same
   encoding once normalised (pruned) *)

Lemma Forall2_map_r {A B} (R : A -> B -> Prop) (f : A -> B) l :
  (forall x, In x l -> R x (f x)) -> Forall2 R l (map f l).
Proof.
  induction l as [|x r IH]; intros H; cbn [map]; constructor.
  - apply H. left. reflexivity.
  - apply IH. intros y Hy. apply H. right. exact Hy.
Qed.

Lemma NoDup_pairs {V} (l : list (bytes * V)) : NoDup (keys l) -> NoDup l.
Proof. apply NoDup_map_inv. Qed.

Lemma norm_pm_perm M O t od : norm_spec M t -> norm_spec O od -> same M O -> pm_perm t od.
Proof.
  intros (NDt & Ht & Ct) (NDo & Ho & Co) S.
  assert (Kto : forall p, In p (keys t) -> In p (keys od)).
  { intros p Hp. apply In_keys in Hp. destruct Hp as [tm Htm]. destruct (Ht _ _ Htm) as (_ & Hne & Hq).
    destruct (nonempty_has tm Hne) as (n & q & Hnq). apply Hq in Hnq. apply (Co p n). rewrite <- S. destruct Hnq; congruence. }
  assert (Kot : forall p, In p (keys od) -> In p (keys t)).
  { intros p Hp. apply In_keys in Hp. destruct Hp as [am Ham]. destruct (Ho _ _ Ham) as (_ & Hne & Hq).
    destruct (nonempty_has am Hne) as (n & q & Hnq). apply Hq in Hnq. apply (Ct p n). rewrite S. destruct Hnq; congruence. }
  exists (map (fun pa : bytes * amap => (fst pa, inner (fst pa) od)) t). split.
  - apply Forall2_map_r. intros [p am] Hin. cbn [fst snd]. split; [reflexivity|].
    assert (Hp : In p (keys od)) by (apply Kto; apply In_keys; eauto).
    apply In_keys in Hp. destruct Hp as [am' Ham']. unfold inner. rewrite (In_lookup _ _ _ NDo Ham').
    destruct (Ht _ _ Hin) as (NDa & _ & Hqa). destruct (Ho _ _ Ham') as (NDa' & _ & Hqa').
    apply NoDup_Permutation; [apply NoDup_pairs; exact NDa|apply NoDup_pairs; exact NDa'|].
    intros [n q]. rewrite Hqa, Hqa', S. tauto.
  - apply NoDup_Permutation.
    + apply NoDup_pairs.
      assert (E : keys (map (fun pa : bytes * amap => (fst pa, inner (fst pa) od)) t) = keys t)
        by exact (keys_mapv (fun pa : bytes * amap => inner (fst pa) od) t).
      rewrite E. exact NDt.
    + apply NoDup_pairs. exact NDo.
    + intros [p x]. rewrite in_map_iff. split.
      * intros [[p0 am] [[= <- <-] Hin]]. cbn [fst].
        assert (Hp : In p0 (keys od)) by (apply Kto; apply In_keys; eauto).
        apply In_keys in Hp. destruct Hp as [am' Ham']. unfold inner. rewrite (In_lookup _ _ _ NDo Ham'). exact Ham'.
      * intros Hin. assert (Hp : In p (keys t)) by (apply Kot; apply In_keys; eauto).
        apply In_keys in Hp. destruct Hp as [am Ham]. exists (p, am). split; [|exact Ham].
        cbn [fst]. unfold inner. rewrite (In_lookup _ _ _ NDo Hin). reflexivity.
Qed.

Lemma compare_enc_norm a b : wfm a -> wfm b -> compare a b = true ->
  enc_pmap (norm a) = enc_pmap (norm b).
Proof.
  intros Wa Wb H. apply enc_pmap_perm; [apply wf_norm; exact Wa|].
  apply (norm_pm_perm (data_of a) (data_of b)); try (apply norm_pmap_spec; assumption).
  exact (proj1 (compare_iff a b Wa Wb) H).
Qed.
