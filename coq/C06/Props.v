(* C06 - property theorems only.  `wfm a` = the value is a Go map: distinct
   policy ids, distinct asset names per policy (arbitrary iteration order,
   zero entries, empty policies and the nil map allowed).  `qty a p n` is
   a.Asset(p, n): the stored quantity, 0 when absent. *)
From Coq Require Import Permutation Sorting.Sorted.
From V Require Import Lib.Base Lib.Hex Lib.Cbor C06.Model C06.Proofs C06.EncProofs.
Local Open Scope Z_scope.

(* Compare decides "equal quantities per (policy, asset name), zeros = absent". *)
Theorem C06_compare_spec : forall a b, wfm a -> wfm b ->
  (compare a b = true <-> forall p n, qty a p n = qty b p n).
Proof. exact compare_iff. Qed.
Print Assumptions C06_compare_spec.

Theorem C06_compare_equivalence :
  (forall a, wfm a -> compare a a = true) /\
  (forall a b, wfm a -> wfm b -> compare a b = true -> compare b a = true) /\
  (forall a b c, wfm a -> wfm b -> wfm c -> compare a b = true -> compare b c = true -> compare a c = true).
Proof.
  split; [|split].
  - intros a W. apply compare_iff; auto.
  - intros a b Wa Wb H. apply compare_iff; auto. intros p n. symmetry. revert p n. apply compare_iff; auto.
  - intros a b c Wa Wb Wc H1 H2. apply compare_iff; auto. intros p n.
    rewrite (proj1 (compare_iff a b Wa Wb) H1), (proj1 (compare_iff b c Wb Wc) H2). reflexivity.
Qed.
Print Assumptions C06_compare_equivalence.

(* Add on big.Int quantities is per-asset integer addition, and keeps the map well formed *)
Theorem C06_add_pointwise : forall a b p n, wfm b ->
  qty (add Big a b) p n = qty a p n + qty b p n.
Proof. exact qty_add_big. Qed.
Theorem C06_add_wf : forall w a b, wfm a -> wfm (add w a b).
Proof. exact wf_add. Qed.
Print Assumptions C06_add_pointwise.

(* any number of Adds into one accumulator: the pointwise sum of the accumulator
   and all operands; in particular the result does not depend on the order of
   the operands.  (The model is pure: that Add leaves its ARGUMENT object
   untouched cannot even be stated here - that part of the property is checked
   on the implementation by the op-sequence correspondence with shared
   operand objects, CSeq.) *)
Theorem C06_add_sequence : forall xs a p n, Forall wfm xs ->
  qty (add_seq Big a xs) p n = qty a p n + qsum xs p n.
Proof. intros xs a p n F. apply qty_add_seq. exact F. Qed.
Theorem C06_add_sequence_order : forall xs ys a, Forall wfm xs -> wfm a -> Permutation xs ys ->
  compare (add_seq Big a xs) (add_seq Big a ys) = true.
Proof.
  intros xs ys a F Wa P.
  assert (F' : Forall wfm ys) by (rewrite Forall_forall in *; intros y Hy; apply F; eapply Permutation_in; [apply Permutation_sym; exact P|exact Hy]).
  assert (Wseq : forall l, wfm (add_seq Big a l)).
  { intros l. unfold add_seq. revert a Wa. induction l as [|x r IH]; intros a Wa; cbn [fold_left]; [exact Wa|]. apply IH. apply wf_add. exact Wa. }
  apply compare_iff; auto. intros p n. rewrite !qty_add_seq by assumption. f_equal.
  clear - P. induction P; cbn [qsum fold_right]; try fold (qsum l p n); try fold (qsum l' p n); lia.
Qed.
Print Assumptions C06_add_sequence_order.

Theorem C06_add_commutative : forall a b, wfm a -> wfm b ->
  compare (add Big a b) (add Big b a) = true.
Proof.
  intros a b Wa Wb. apply compare_iff; try apply wf_add; auto.
  intros p n. rewrite !qty_add_big by assumption. lia.
Qed.
Theorem C06_add_associative : forall a b c, wfm a -> wfm b -> wfm c ->
  compare (add Big (add Big a b) c) (add Big a (add Big b c)) = true.
Proof.
  intros a b c Wa Wb Wc. apply compare_iff; repeat apply wf_add; auto.
  intros p n. rewrite !qty_add_big; try assumption; [lia|apply wf_add; assumption].
Qed.
Print Assumptions C06_add_associative.

(* identity (the empty map and the nil map, on either side) and inverse *)
Theorem C06_add_identity : forall a z, wfm a -> (z = None \/ z = Some []) ->
  compare (add Big a z) a = true /\ compare (add Big z a) a = true.
Proof.
  intros a z Wa Hz.
  assert (Wz : wfm z) by (destruct Hz as [->| ->]; exact wf_nil).
  assert (Qz : forall p n, qty z p n = 0) by (destruct Hz as [->| ->]; reflexivity).
  split; apply compare_iff; try apply wf_add; auto; intros p n; rewrite qty_add_big by assumption; rewrite Qz; lia.
Qed.
Theorem C06_add_inverse : forall a, wfm a ->
  compare (add Big a (neg a)) None = true /\ compare (add Big a (neg a)) (Some []) = true.
Proof.
  intros a Wa. pose proof (wf_neg a Wa) as Wn.
  split; apply compare_iff; try apply wf_add; auto; try exact wf_nil;
    intros p n; rewrite qty_add_big by assumption; rewrite qty_neg; cbn; lia.
Qed.
Print Assumptions C06_add_inverse.

(* the fixed-width instantiations: what Add computes, and that it is not integer addition *)
Theorem C06_add_wrapped : forall w a b p n, wfm b ->
  qty (add w a b) p n =
  match lookup p (data_of b) with
  | Some am => match lookup n am with Some q => wrap w (qty a p n + q) | None => qty a p n end
  | None => qty a p n
  end.
Proof. exact qty_add_wrapped. Qed.

Definition all_in_range (w : width) (a : masset) : bool :=
  forallb (fun pa => forallb (fun na => in_range w (snd na)) (snd pa)) (data_of a).

Theorem C06_add_int64_refuted : exists a b p n,
  wfm a /\ wfm b /\ all_in_range I64 a = true /\ all_in_range I64 b = true /\
  qty (add I64 a b) p n <> qty a p n + qty b p n.
Proof.
  exists (Some [([1%N], [([1%N], 2^63 - 1)])]), (Some [([1%N], [([1%N], 1)])]), [1%N], [1%N].
  repeat split; try (repeat constructor; cbn; tauto); try reflexivity.
  vm_compute. discriminate.
Qed.
Theorem C06_add_uint64_refuted : exists a b p n,
  wfm a /\ wfm b /\ all_in_range U64 a = true /\ all_in_range U64 b = true /\
  qty (add U64 a b) p n <> qty a p n + qty b p n.
Proof.
  exists (Some [([1%N], [([1%N], 2^64 - 1)])]), (Some [([1%N], [([1%N], 1)])]), [1%N], [1%N].
  repeat split; try (repeat constructor; cbn; tauto); try reflexivity.
  vm_compute. discriminate.
Qed.
Print Assumptions C06_add_int64_refuted.

(* encoding: the bytes do not depend on the Go map iteration order, and the
   keys of every map on the wire are strictly increasing bytewise *)
Theorem C06_encode_deterministic : forall a b, wf_pmap a -> pm_perm a b ->
  enc (enc_ma (Some a)) = enc (enc_ma (Some b)).
Proof. intros a b W P. cbn [enc_ma]. rewrite (enc_pmap_perm a b W P). reflexivity. Qed.
(* Compare-equal values encode to the same bytes once zeros are pruned
   (norm = the data pruneZeroAssets / normalize leave) *)
Theorem C06_encode_equal_values : forall a b, wfm a -> wfm b -> compare a b = true ->
  enc (enc_ma (Some (norm a))) = enc (enc_ma (Some (norm b))).
Proof. intros a b Wa Wb H. cbn [enc_ma]. rewrite (compare_enc_norm a b Wa Wb H). reflexivity. Qed.
Theorem C06_encode_key_sorted : forall m, wf_pmap m ->
  StronglySorted lexlt (wire_keys (enc_pmap m)) /\
  forall p am, In (p, am) m -> StronglySorted lexlt (wire_keys (enc_amap am)).
Proof. exact enc_pmap_sorted. Qed.
Print Assumptions C06_encode_deterministic.

(* decoding the encoding gives a Compare-equal value without zero entries and
   without the duplicate flag; no decoder output ever holds a zero entry *)
Theorem C06_decode_encode : forall a, wfm a -> keys28 a ->
  exists a', dec_ma (enc_ma a) = Some (a', false) /\ compare a' a = true /\ no_zero a' /\ wfm a'
             /\ (a' = None <-> a = None).
Proof. exact dec_enc_ma. Qed.
Theorem C06_decode_no_zero : forall it a d, dec_ma it = Some (a, d) -> no_zero a.
Proof. exact dec_no_zero. Qed.
Print Assumptions C06_decode_encode.

(* non-vacuity: a value with a zero entry, an empty policy and a permuted twin *)
Example C06_nonvacuous :
  let p1 := repeat 1%N 28 in let p2 := repeat 2%N 28 in
  let a := Some [(p1, [([1%N], 5); ([2%N], 0)]); (p2, [])] in
  let b := Some [(p1, [([3%N], 0); ([1%N], 5)])] in
  wfm a /\ wfm b /\ keys28 a /\ compare a b = true /\ compare b a = true /\
  enc (enc_ma a) <> enc (enc_ma b) /\
  pm_perm [(p1, [([1%N], 5); ([2%N], 7)]); (p2, [])] [(p2, []); (p1, [([2%N], 7); ([1%N], 5)])].
Proof.
  cbv zeta. split; [|split; [|split; [|split; [|split; [|split]]]]].
  - split; repeat constructor; cbn; intuition discriminate.
  - split; repeat constructor; cbn; intuition discriminate.
  - repeat constructor.
  - vm_compute. reflexivity.
  - vm_compute. reflexivity.
  - vm_compute. discriminate.
  - exists [(repeat 1%N 28, [([2%N], 7); ([1%N], 5)]); (repeat 2%N 28, [])]. split.
    + repeat constructor; apply perm_swap.
    + apply perm_swap.
Qed.
