(* C06 - lemmas about the algebra of multi-asset values (Add / Compare / normalize). *)
From Coq Require Import Permutation.
From V Require Import Lib.Base Lib.Hex Lib.Cbor C06.Model.
Local Open Scope Z_scope.

(* ------------------------------------------------------------------ *)
(* association lists *)

Lemma beq_refl k : bytes_eqb k k = true.
Proof. apply bytes_eqb_eq. reflexivity. Qed.
Lemma beq_neq k k' : k <> k' -> bytes_eqb k k' = false.
Proof. intros H. destruct (bytes_eqb k k') eqn:E; [|reflexivity]. apply bytes_eqb_eq in E. contradiction. Qed.
Lemma beq_sym k k' : bytes_eqb k k' = bytes_eqb k' k.
Proof.
  destruct (bytes_eqb k k') eqn:E.
  - apply bytes_eqb_eq in E. subst. symmetry. apply beq_refl.
  - symmetry. apply beq_neq. intros ->. rewrite beq_refl in E. discriminate.
Qed.
Lemma bytes_dec (k k' : bytes) : k = k' \/ k <> k'.
Proof. destruct (bytes_eqb k k') eqn:E; [left; apply bytes_eqb_eq; exact E|right; intros ->; rewrite beq_refl in E; discriminate]. Qed.

Section AssocFacts.
  Context {V : Type}.
  Implicit Types (m : list (bytes * V)) (k : bytes) (v : V).

  Lemma lookup_set_same k v m : lookup k (set k v m) = Some v.
  Proof.
    induction m as [|[k' v'] r IH]; cbn [set lookup].
    - rewrite beq_refl. reflexivity.
    - destruct (bytes_eqb k k') eqn:E; cbn [lookup]; rewrite ?beq_refl, ?E; auto.
  Qed.

  Lemma lookup_set_other k k' v m : k <> k' -> lookup k' (set k v m) = lookup k' m.
  Proof.
    intros Hne. induction m as [|[k0 v0] r IH]; cbn [set lookup].
    - rewrite beq_neq by congruence. reflexivity.
    - destruct (bytes_eqb k k0) eqn:E; cbn [lookup].
      + apply bytes_eqb_eq in E. subst k0. rewrite beq_neq by congruence. reflexivity.
      + rewrite IH. reflexivity.
  Qed.

  Lemma lookup_None k m : lookup k m = None <-> ~ In k (keys m).
  Proof.
    induction m as [|[k' v'] r IH]; cbn [lookup keys map fst In]; [tauto|].
    destruct (bytes_eqb k k') eqn:E.
    - apply bytes_eqb_eq in E. subst. split; [discriminate|intros H; exfalso; apply H; auto].
    - fold (keys r). rewrite IH. split; [|tauto]. intros H [->|H']; [rewrite beq_refl in E; discriminate|tauto].
  Qed.

  Lemma lookup_Some_In k v m : lookup k m = Some v -> In (k, v) m.
  Proof.
    induction m as [|[k' v'] r IH]; cbn [lookup In]; [discriminate|].
    destruct (bytes_eqb k k') eqn:E; [|auto].
    apply bytes_eqb_eq in E. intros [= ->]. subst. auto.
  Qed.

  Lemma In_lookup k v m : NoDup (keys m) -> In (k, v) m -> lookup k m = Some v.
  Proof.
    induction m as [|[k' v'] r IH]; cbn [lookup In keys map fst]; [tauto|].
    intros ND [[= -> ->]|Hin]; [rewrite beq_refl; reflexivity|].
    inversion ND as [|? ? Hn ND']; subst.
    destruct (bytes_eqb k k') eqn:E; [|auto].
    apply bytes_eqb_eq in E. subst. exfalso. apply Hn. change (In (fst (k', v)) (map fst r)). apply in_map. exact Hin.
  Qed.

  Lemma In_keys k m : In k (keys m) <-> exists v, In (k, v) m.
  Proof.
    unfold keys. rewrite in_map_iff. split.
    - intros [[k' v] [<- H]]. exists v. exact H.
    - intros [v H]. exists (k, v). auto.
  Qed.

  Lemma In_set x k v m : In x (set k v m) -> x = (k, v) \/ In x m.
  Proof.
    induction m as [|[k' v'] r IH]; cbn [set In]; [intros [<-|[]]; auto|].
    destruct (bytes_eqb k k'); cbn [In]; intros [<-|H]; auto. apply IH in H. tauto.
  Qed.

  Lemma keys_set k v m : forall k', In k' (keys (set k v m)) -> k' = k \/ In k' (keys m).
  Proof.
    intros k' H. apply In_keys in H. destruct H as [v0 H]. apply In_set in H.
    destruct H as [[= -> ->]|H]; [auto|right; apply In_keys; eauto].
  Qed.

  Lemma NoDup_set k v m : NoDup (keys m) -> NoDup (keys (set k v m)).
  Proof.
    induction m as [|[k' v'] r IH]; cbn [set keys map fst]; intros ND.
    - constructor; [intros []|constructor].
    - inversion ND as [|? ? Hn ND']; subst. fold (keys r) in *.
      destruct (bytes_eqb k k') eqn:E; cbn [map fst].
      + apply bytes_eqb_eq in E. subst. constructor; assumption.
      + fold (keys (set k v r)). constructor; [|auto].
        intros H. apply keys_set in H. destruct H as [->|H]; [rewrite beq_refl in E; discriminate|contradiction].
  Qed.

  Lemma set_fresh k v m : ~ In k (keys m) -> set k v m = m ++ [(k, v)].
  Proof.
    induction m as [|[k' v'] r IH]; cbn [set keys map fst In app]; intros H; [reflexivity|].
    rewrite beq_neq by (intros ->; tauto). rewrite IH by tauto. reflexivity.
  Qed.

  Lemma NoDup_keys_filter (f : bytes * V -> bool) m : NoDup (keys m) -> NoDup (keys (filter f m)).
  Proof.
    induction m as [|[k v] r IH]; cbn [filter keys map fst]; intros ND; [constructor|].
    inversion ND as [|? ? Hn ND']; subst. fold (keys r) in *.
    destruct (f (k, v)); cbn [keys map fst]; [|auto].
    constructor; [|auto]. fold (keys (filter f r)). intros H. apply Hn.
    apply In_keys in H. destruct H as [v0 H]. apply filter_In in H. apply In_keys. exists v0. tauto.
  Qed.

  Lemma lookup_perm k m m' : NoDup (keys m) -> Permutation m m' -> lookup k m = lookup k m'.
  Proof.
    intros ND P. assert (ND' : NoDup (keys m')).
    { eapply Permutation_NoDup; [|exact ND]. apply Permutation_map. exact P. }
    destruct (lookup k m) eqn:E.
    - symmetry. apply In_lookup; [exact ND'|]. eapply Permutation_in; [exact P|]. apply lookup_Some_In. exact E.
    - symmetry. apply lookup_None. apply lookup_None in E. intros H. apply E.
      eapply Permutation_in; [|exact H]. apply Permutation_sym. apply Permutation_map. exact P.
  Qed.
End AssocFacts.

Lemma lookup_mapv {V W} (g : V -> W) (m : list (bytes * V)) k :
  lookup k (map (fun kv => (fst kv, g (snd kv))) m) = option_map g (lookup k m).
Proof.
  induction m as [|[k' v'] r IH]; cbn [map lookup fst snd option_map]; [reflexivity|].
  destruct (bytes_eqb k k'); [reflexivity|exact IH].
Qed.
Lemma keys_mapv {V W} (g : bytes * V -> W) (m : list (bytes * V)) :
  keys (map (fun kv => (fst kv, g kv)) m) = keys m.
Proof. unfold keys. rewrite map_map. apply map_ext. reflexivity. Qed.

Ltac rwb lem := let E := fresh "E" in pose proof lem as E; cbn beta in E; rewrite E; clear E.

(* ------------------------------------------------------------------ *)
(* Asset / put / Add *)

Lemma asset_put m p n q p' n' :
  asset (put m p n q) p' n' = if bytes_eqb p p' && bytes_eqb n n' then q else asset m p' n'.
Proof.
  unfold asset, put. destruct (bytes_eqb p p') eqn:Ep; cbn [andb].
  - apply bytes_eqb_eq in Ep. subst p'. rewrite lookup_set_same.
    destruct (bytes_eqb n n') eqn:En.
    + apply bytes_eqb_eq in En. subst n'. rewrite lookup_set_same. reflexivity.
    + rewrite lookup_set_other by (intros ->; rewrite beq_refl in En; discriminate).
      unfold inner. destruct (lookup p m); reflexivity.
  - rewrite lookup_set_other by (intros ->; rewrite beq_refl in Ep; discriminate). reflexivity.
Qed.

Lemma asset_add_inner w p am : NoDup (keys am) -> forall m p' n',
  asset (add_inner w p m am) p' n' =
  if bytes_eqb p p' then
    match lookup n' am with Some q => wrap w (asset m p n' + q) | None => asset m p' n' end
  else asset m p' n'.
Proof.
  unfold add_inner. induction am as [|[n q] r IH]; intros ND m p' n'; cbn [fold_left lookup fst snd].
  - destruct (bytes_eqb p p'); reflexivity.
  - inversion ND as [|? ? Hn ND']; subst. fold (keys r) in *.
    rewrite IH by exact ND'. rewrite !asset_put.
    destruct (bytes_eqb p p') eqn:Ep; cbn [andb]; [|reflexivity].
    apply bytes_eqb_eq in Ep. subst p'. rewrite beq_refl. cbn [andb].
    rewrite (beq_sym n' n).
    destruct (bytes_eqb n n') eqn:En.
    + apply bytes_eqb_eq in En. subst n'.
      apply lookup_None in Hn. rewrite Hn. reflexivity.
    + reflexivity.
  Qed.

Lemma asset_add_pmap w o : wf_pmap o -> forall m p n,
  asset (add_pmap w m o) p n =
  match lookup p o with
  | Some am => match lookup n am with Some q => wrap w (asset m p n + q) | None => asset m p n end
  | None => asset m p n
  end.
Proof.
  unfold add_pmap. induction o as [|[p0 am0] r IH]; intros [ND FA] m p n; cbn [fold_left lookup fst snd]; [reflexivity|].
  inversion ND as [|? ? Hn ND']; subst. inversion FA as [|? ? Ha FA']; subst. fold (keys r) in *. cbn [snd] in Ha.
  rewrite IH by (split; assumption).
  rewrite (beq_sym p p0).
  destruct (bytes_eqb p0 p) eqn:Ep.
  - apply bytes_eqb_eq in Ep. subst p0. apply lookup_None in Hn. rewrite Hn.
    rewrite asset_add_inner by exact Ha. rewrite beq_refl. reflexivity.
  - rewrite !asset_add_inner by exact Ha. rewrite Ep. reflexivity.
Qed.

Lemma asset_add_big m o p n : wf_pmap o -> asset (add_pmap Big m o) p n = asset m p n + asset o p n.
Proof.
  intros W. rewrite asset_add_pmap by exact W. generalize (asset m p n). intros x. unfold asset. cbn [wrap].
  destruct (lookup p o) as [am|]; [destruct (lookup n am)|]; lia.
Qed.

Lemma has_entry_false o : has_entry o = false -> forall p n, asset o p n = 0.
Proof.
  unfold has_entry. intros H p n. unfold asset. destruct (lookup p o) as [am|] eqn:E; [|reflexivity].
  apply lookup_Some_In in E.
  assert (X : negb (Nat.eqb (length am) 0) = false).
  { destruct (negb (Nat.eqb (length am) 0)) eqn:F; [|reflexivity].
    assert (existsb (fun pa => negb (Nat.eqb (length (snd pa)) 0)) o = true) by (apply existsb_exists; exists (p, am); auto).
    congruence. }
  destruct am; [reflexivity|discriminate].
Qed.

Lemma qty_add_big a b p n : wfm b -> qty (add Big a b) p n = qty a p n + qty b p n.
Proof.
  intros W. unfold qty, add. destruct a as [l|]; cbn [data_of].
  - apply asset_add_big. exact W.
  - destruct (has_entry (data_of b)) eqn:H; cbn [data_of].
    + rewrite asset_add_big by exact W. reflexivity.
    + rewrite (has_entry_false _ H). reflexivity.
Qed.

(* a whole sequence of Adds into one accumulator = the pointwise sum *)
Definition qsum (xs : list masset) (p n : bytes) : Z := fold_right (fun x acc => qty x p n + acc) 0 xs.
Lemma qty_add_seq xs : Forall wfm xs -> forall a p n,
  qty (add_seq Big a xs) p n = qty a p n + qsum xs p n.
Proof.
  unfold add_seq. induction xs as [|x r IH]; intros F a p n; cbn [fold_left qsum fold_right]; [lia|].
  inversion F as [|? ? Wx F']; subst. rewrite IH by exact F'. rewrite qty_add_big by exact Wx.
  fold (qsum r p n). lia.
Qed.

(* the general (wrapped) form *)
Lemma qty_add_wrapped w a b p n : wfm b ->
  qty (add w a b) p n =
  match lookup p (data_of b) with
  | Some am => match lookup n am with Some q => wrap w (qty a p n + q) | None => qty a p n end
  | None => qty a p n
  end.
Proof.
  intros W. unfold qty, add. destruct a as [l|]; cbn [data_of].
  - apply asset_add_pmap. exact W.
  - destruct (has_entry (data_of b)) eqn:H; cbn [data_of].
    + apply asset_add_pmap. exact W.
    + destruct (lookup p (data_of b)) as [am|] eqn:E; [|reflexivity].
      apply lookup_Some_In in E.
      assert (am = []).
      { destruct am; [reflexivity|]. exfalso. unfold has_entry in H.
        assert (existsb (fun pa => negb (Nat.eqb (length (snd pa)) 0)) (data_of b) = true) by (apply existsb_exists; eexists; split; [exact E|reflexivity]).
        congruence. }
      subst. reflexivity.
Qed.

(* well-formedness is preserved *)
Lemma wf_put m p n q : wf_pmap m -> wf_pmap (put m p n q).
Proof.
  intros [ND FA]. unfold put. split; [apply NoDup_set; exact ND|].
  apply Forall_forall. intros x Hx. apply In_set in Hx. destruct Hx as [->|Hx].
  - cbn [snd]. apply NoDup_set. unfold inner. destruct (lookup p m) as [am|] eqn:E; [|constructor].
    apply lookup_Some_In in E. rewrite Forall_forall in FA. apply (FA _ E).
  - rewrite Forall_forall in FA. auto.
Qed.
Lemma wf_add_inner w p am : forall m, wf_pmap m -> wf_pmap (add_inner w p m am).
Proof. unfold add_inner. induction am as [|x r IH]; intros m W; cbn [fold_left]; [exact W|]. apply IH. apply wf_put. exact W. Qed.
Lemma wf_add_pmap w o : forall m, wf_pmap m -> wf_pmap (add_pmap w m o).
Proof. unfold add_pmap. induction o as [|x r IH]; intros m W; cbn [fold_left]; [exact W|]. apply IH. apply wf_add_inner. exact W. Qed.
Lemma wf_nil : wf_pmap [].
Proof. split; constructor. Qed.
Lemma wf_add w a b : wfm a -> wfm (add w a b).
Proof.
  unfold wfm, add. intros W. destruct a as [l|]; cbn [data_of] in *.
  - apply wf_add_pmap. exact W.
  - destruct (has_entry (data_of b)); cbn [data_of]; [apply wf_add_pmap|]; exact wf_nil.
Qed.

(* negation *)
Definition neg_amap (am : amap) : amap := map (fun na => (fst na, - snd na)) am.
Lemma asset_neg m p n : asset (neg_pmap m) p n = - asset m p n.
Proof.
  assert (E : lookup p (neg_pmap m) = option_map neg_amap (lookup p m)) by exact (lookup_mapv neg_amap m p).
  unfold asset. rewrite E.
  destruct (lookup p m) as [am|]; cbn [option_map]; [|reflexivity].
  assert (E2 : lookup n (neg_amap am) = option_map Z.opp (lookup n am)) by exact (lookup_mapv Z.opp am n).
  rewrite E2. destruct (lookup n am); reflexivity.
Qed.
Lemma qty_neg a p n : qty (neg a) p n = - qty a p n.
Proof. unfold qty, neg. destruct a; cbn [option_map data_of]; [apply asset_neg|reflexivity]. Qed.
Lemma wf_neg a : wfm a -> wfm (neg a).
Proof.
  unfold wfm, neg. destruct a as [l|]; cbn [option_map data_of]; [|auto].
  intros [ND FA]. unfold neg_pmap. split.
  - assert (E : keys (neg_pmap l) = keys l) by exact (keys_mapv (fun pa => neg_amap (snd pa)) l).
    unfold neg_pmap in E. rewrite E. exact ND.
  - apply Forall_forall. intros x Hx. apply in_map_iff in Hx. destruct Hx as [[p am] [<- Hin]]. cbn [fst snd].
    assert (E : keys (neg_amap am) = keys am) by exact (keys_mapv (fun na => - snd na) am).
    unfold neg_amap in E. rewrite E. rewrite Forall_forall in FA. apply (FA _ Hin).
Qed.

(* ------------------------------------------------------------------ *)
(* normalize: an abstract description, then Compare *)

Definition norm_spec (M t : pmap) : Prop :=
  NoDup (keys t) /\
  (forall p am, In (p, am) t ->
     NoDup (keys am) /\ am <> [] /\ forall n q, In (n, q) am <-> (q <> 0 /\ asset M p n = q)) /\
  (forall p n, asset M p n <> 0 -> In p (keys t)).

Lemma asset_In M p am n q : wf_pmap M -> In (p, am) M -> (In (n, q) am /\ q <> 0 <-> q <> 0 /\ asset M p n = q).
Proof.
  intros [ND FA] Hin. rewrite Forall_forall in FA. pose proof (FA _ Hin) as NDa. cbn [snd] in NDa.
  unfold asset. rewrite (In_lookup _ _ _ ND Hin). split.
  - intros [H Hq]. rewrite (In_lookup _ _ _ NDa H). auto.
  - intros [Hq H]. destruct (lookup n am) as [q'|] eqn:E; [|congruence]. subst q'. split; [apply lookup_Some_In; exact E|exact Hq].
Qed.

Lemma norm_pmap_spec M : wf_pmap M -> norm_spec M (norm_pmap M).
Proof.
  intros W. pose proof W as [ND FA]. unfold norm_spec, norm_pmap. split; [|split].
  - apply NoDup_keys_filter.
    assert (E : keys (map (fun pa : bytes * amap => (fst pa, norm_amap (snd pa))) M) = keys M) by exact (keys_mapv (fun pa => norm_amap (snd pa)) M).
    rewrite E. exact ND.
  - intros p am H. apply filter_In in H. destruct H as [H Hne].
    apply in_map_iff in H. destruct H as [[p0 am0] [[= <- <-] Hin]]. cbn [fst snd] in *.
    split; [|split].
    + apply NoDup_keys_filter. rewrite Forall_forall in FA. apply (FA _ Hin).
    + unfold nonempty in Hne. cbn [snd] in Hne. intros E. rewrite E in Hne. discriminate.
    + intros n q. split.
      * intros Hq. unfold norm_amap in Hq. apply filter_In in Hq. destruct Hq as [Hq Hz].
        unfold nonzero in Hz. cbn [snd] in Hz.
        apply (asset_In M p0 am0 n q W Hin). split; [exact Hq|lia].
      * intros Hq. apply (asset_In M p0 am0 n q W Hin) in Hq. destruct Hq as [Hq Hz].
        unfold norm_amap. apply filter_In. split; [exact Hq|]. unfold nonzero. cbn [snd]. lia.
  - intros p n Hnz. unfold asset in Hnz.
    destruct (lookup p M) as [am|] eqn:E; [|congruence].
    destruct (lookup n am) as [q|] eqn:En; [|congruence].
    apply lookup_Some_In in E. apply lookup_Some_In in En.
    apply In_keys. exists (norm_amap am). apply filter_In. split.
    + apply in_map_iff. exists (p, am). auto.
    + unfold nonempty. cbn [snd].
      assert (In (n, q) (norm_amap am)) by (apply filter_In; split; [exact En|unfold nonzero; cbn [snd]; lia]).
      destruct (norm_amap am); [contradiction|reflexivity].
Qed.

Definition same (M O : pmap) : Prop := forall p n, asset M p n = asset O p n.

Definition cmp_pmap (M t od : pmap) : bool :=
  if Nat.eqb (length od) (length t) then
    forallb (fun pa =>
      Nat.eqb (length (snd pa)) (length (inner (fst pa) t)) &&
      forallb (fun na => snd na =? asset M (fst pa) (fst na)) (snd pa)) od
  else false.
Lemma compare_cmp m o : compare m o = cmp_pmap (data_of m) (norm m) (norm o).
Proof. reflexivity. Qed.

Lemma keys_length {V} (m : list (bytes * V)) : length (keys m) = length m.
Proof. apply map_length. Qed.

Lemma nonempty_has {V} (am : list (bytes * V)) : am <> [] -> exists n q, In (n, q) am.
Proof. destruct am as [|[n q] r]; [congruence|]. intros _. exists n, q. left. reflexivity. Qed.

Lemma cmp_true_same M O t od :
  norm_spec M t -> norm_spec O od -> cmp_pmap M t od = true -> same M O.
Proof.
  intros (NDt & Ht & Ct) (NDo & Ho & Co) H. unfold cmp_pmap in H.
  destruct (Nat.eqb (length od) (length t)) eqn:EL; [|discriminate]. apply Nat.eqb_eq in EL.
  rewrite forallb_forall in H.
  assert (Hchk : forall p am, In (p, am) od ->
            length am = length (inner p t) /\ forall n q, In (n, q) am -> q = asset M p n).
  { intros p am Hin. specialize (H _ Hin). cbn [fst snd] in H. apply andb_true_iff in H. destruct H as [H1 H2].
    apply Nat.eqb_eq in H1. split; [exact H1|]. intros n q Hq. rewrite forallb_forall in H2.
    specialize (H2 _ Hq). cbn [fst snd] in H2. lia. }
  (* every policy of od is a policy of t, hence (equal sizes, no repeats) conversely *)
  assert (Inc : incl (keys od) (keys t)).
  { intros p Hp. apply In_keys in Hp. destruct Hp as [am Hin].
    destruct (Ho _ _ Hin) as (_ & Hne & Hq). destruct (nonempty_has am Hne) as (n & q & Hnq).
    apply (Ct p n). destruct (Hchk _ _ Hin) as [_ Hc]. rewrite <- (Hc _ _ Hnq). apply Hq in Hnq. tauto. }
  assert (Inc' : incl (keys t) (keys od)).
  { apply NoDup_length_incl; [exact NDo| |exact Inc]. rewrite !keys_length. lia. }
  intros p n. destruct (Z.eq_dec (asset O p n) 0) as [Hz|Hnz].
  - rewrite Hz. destruct (Z.eq_dec (asset M p n) 0) as [|Hm]; [assumption|exfalso].
    pose proof (Ct _ _ Hm) as Hpt. pose proof (Inc' _ Hpt) as Hpo.
    apply In_keys in Hpt. destruct Hpt as [tm Htm]. apply In_keys in Hpo. destruct Hpo as [am Ham].
    destruct (Hchk _ _ Ham) as [Hlen Hc]. unfold inner in Hlen. rewrite (In_lookup _ _ _ NDt Htm) in Hlen.
    destruct (Ht _ _ Htm) as (NDtm & _ & Hqt). destruct (Ho _ _ Ham) as (NDam & _ & Hqo).
    assert (I1 : incl (keys am) (keys tm)).
    { intros n' Hn'. apply In_keys in Hn'. destruct Hn' as [q' Hq']. apply In_keys. exists q'.
      apply Hqt. pose proof (Hc _ _ Hq'). apply Hqo in Hq'. split; [tauto|congruence]. }
    assert (I2 : incl (keys tm) (keys am)).
    { apply NoDup_length_incl; [exact NDam| |exact I1]. rewrite !keys_length. lia. }
    assert (Hn : In n (keys tm)) by (apply In_keys; exists (asset M p n); apply Hqt; auto).
    apply I2 in Hn. apply In_keys in Hn. destruct Hn as [q' Hq']. apply Hqo in Hq'. destruct Hq' as [Hq' E]. congruence.
  - pose proof (Co _ _ Hnz) as Hpo. apply In_keys in Hpo. destruct Hpo as [am Ham].
    destruct (Ho _ _ Ham) as (_ & _ & Hqo). destruct (Hchk _ _ Ham) as [_ Hc].
    symmetry. apply Hc. apply Hqo. auto.
Qed.

Lemma NoDup_same_length (l l' : list bytes) : NoDup l -> NoDup l' -> incl l l' -> incl l' l -> length l = length l'.
Proof. intros N1 N2 I1 I2. apply Nat.le_antisymm; apply NoDup_incl_length; assumption. Qed.

Lemma same_cmp_true M O t od :
  norm_spec M t -> norm_spec O od -> same M O -> cmp_pmap M t od = true.
Proof.
  intros (NDt & Ht & Ct) (NDo & Ho & Co) S. unfold cmp_pmap.
  assert (Kto : forall p, In p (keys t) -> In p (keys od)).
  { intros p Hp. apply In_keys in Hp. destruct Hp as [tm Htm]. destruct (Ht _ _ Htm) as (_ & Hne & Hq).
    destruct (nonempty_has tm Hne) as (n & q & Hnq). apply Hq in Hnq. apply (Co p n). rewrite <- S. destruct Hnq; congruence. }
  assert (Kot : forall p, In p (keys od) -> In p (keys t)).
  { intros p Hp. apply In_keys in Hp. destruct Hp as [am Ham]. destruct (Ho _ _ Ham) as (_ & Hne & Hq).
    destruct (nonempty_has am Hne) as (n & q & Hnq). apply Hq in Hnq. apply (Ct p n). rewrite S. destruct Hnq; congruence. }
  assert (EL : length od = length t).
  { rewrite <- !keys_length. apply NoDup_same_length; auto. }
  rewrite EL, Nat.eqb_refl. apply forallb_forall. intros [p am] Ham. cbn [fst snd].
  destruct (Ho _ _ Ham) as (NDam & _ & Hqo).
  assert (Hpt : In p (keys t)) by (apply Kot; apply In_keys; eauto).
  apply In_keys in Hpt. destruct Hpt as [tm Htm]. destruct (Ht _ _ Htm) as (NDtm & _ & Hqt).
  unfold inner. rewrite (In_lookup _ _ _ NDt Htm). apply andb_true_iff. split.
  - apply Nat.eqb_eq. rewrite <- !keys_length. apply NoDup_same_length; auto.
    + intros n Hn. apply In_keys in Hn. destruct Hn as [q Hq]. apply In_keys. exists q. apply Hqt. apply Hqo in Hq. rewrite S. exact Hq.
    + intros n Hn. apply In_keys in Hn. destruct Hn as [q Hq]. apply In_keys. exists q. apply Hqo. apply Hqt in Hq. rewrite <- S. exact Hq.
  - apply forallb_forall. intros [n q] Hq. cbn [fst snd]. apply Hqo in Hq. rewrite S. lia.
Qed.

Lemma compare_iff a b : wfm a -> wfm b ->
  (compare a b = true <-> forall p n, qty a p n = qty b p n).
Proof.
  intros Wa Wb. rewrite compare_cmp. unfold norm, qty.
  pose proof (norm_pmap_spec _ Wa) as Sa. pose proof (norm_pmap_spec _ Wb) as Sb.
  split; intros H.
  - exact (cmp_true_same _ _ _ _ Sa Sb H).
  - exact (same_cmp_true _ _ _ _ Sa Sb H).
Qed.

(* normalize / prune do not change any quantity *)
Lemma asset_norm M : wf_pmap M -> forall p n, asset (norm_pmap M) p n = asset M p n.
Proof.
  intros W p n. destruct (norm_pmap_spec M W) as (NDt & Ht & Ct).
  unfold asset at 1. destruct (lookup p (norm_pmap M)) as [am|] eqn:E.
  - pose proof (lookup_Some_In _ _ _ E) as Hin. destruct (Ht _ _ Hin) as (NDam & _ & Hq).
    destruct (lookup n am) as [q|] eqn:En.
    + apply lookup_Some_In in En. apply Hq in En. symmetry. tauto.
    + destruct (Z.eq_dec (asset M p n) 0) as [|Hnz]; [congruence|exfalso].
      apply lookup_None in En. apply En. apply In_keys. exists (asset M p n). apply Hq. auto.
  - destruct (Z.eq_dec (asset M p n) 0) as [|Hnz]; [congruence|exfalso].
    apply lookup_None in E. apply E. apply (Ct p n Hnz).
Qed.
Lemma wf_norm M : wf_pmap M -> wf_pmap (norm_pmap M).
Proof.
  intros W. destruct (norm_pmap_spec M W) as (NDt & Ht & _). split; [exact NDt|].
  apply Forall_forall. intros [p am] Hin. cbn [snd]. apply (Ht _ _ Hin).
Qed.

(* what the pruned / decoded value never contains *)
Definition no_zero (m : masset) : Prop :=
  forall p am, In (p, am) (data_of m) -> am <> [] /\ forall n q, In (n, q) am -> q <> 0.
Lemma no_zero_prune m : no_zero (prune m).
Proof.
  unfold no_zero, prune. destruct m as [l|]; cbn [data_of]; [|intros ? ? []].
  intros p am H. unfold norm_pmap in H. apply filter_In in H. destruct H as [H Hne].
  apply in_map_iff in H. destruct H as [[p0 am0] [[= <- <-] _]]. split.
  - unfold nonempty in Hne. cbn [snd] in Hne. intros E. rewrite E in Hne. discriminate.
  - intros n q Hq. unfold norm_amap in Hq. apply filter_In in Hq. destruct Hq as [_ Hz]. unfold nonzero in Hz. cbn [snd] in Hz. lia.
Qed.
