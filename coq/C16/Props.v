(* C16 - property theorems only.  impl_* come from Gen.v (regenerated from the real
   state maps each run), spec_* from the hand-written Spec*.v.
   conforms I S := forall trace (any length), accepts I = accepts S /\ the agencies of
   all states visited agree /\ the agency of the state reached (terminal or not) agrees. *)
From Coq Require Import String.
From V Require Import Lib.Base Lib.Automata Lib.Bisim C16.Model C16.Proofs.
(* end of imports *)

Theorem C16_handshake_ntn : conforms impl_handshake_ntn_client spec_handshake /\ conforms impl_handshake_ntn_server spec_handshake.
Proof. split; apply conforms_by_check; vm_compute; reflexivity. Qed.
Theorem C16_handshake_ntc : conforms impl_handshake_ntc_client spec_handshake /\ conforms impl_handshake_ntc_server spec_handshake.
Proof. split; apply conforms_by_check; vm_compute; reflexivity. Qed.
Theorem C16_chainsync_ntn : conforms impl_chainsync_ntn_client spec_chainsync /\ conforms impl_chainsync_ntn_server spec_chainsync.
Proof. split; apply conforms_by_check; vm_compute; reflexivity. Qed.
Theorem C16_chainsync_ntc : conforms impl_chainsync_ntc_client spec_chainsync /\ conforms impl_chainsync_ntc_server spec_chainsync.
Proof. split; apply conforms_by_check; vm_compute; reflexivity. Qed.
Theorem C16_blockfetch : conforms impl_blockfetch_client spec_blockfetch /\ conforms impl_blockfetch_server spec_blockfetch.
Proof. split; apply conforms_by_check; vm_compute; reflexivity. Qed.
Theorem C16_txsubmission : conforms impl_txsubmission_client spec_txsubmission /\ conforms impl_txsubmission_server spec_txsubmission.
Proof. split; apply conforms_by_check; vm_compute; reflexivity. Qed.
Theorem C16_keepalive : conforms impl_keepalive_client spec_keepalive /\ conforms impl_keepalive_server spec_keepalive.
Proof. split; apply conforms_by_check; vm_compute; reflexivity. Qed.
Theorem C16_peersharing : conforms impl_peersharing_client spec_peersharing /\ conforms impl_peersharing_server spec_peersharing.
Proof. split; apply conforms_by_check; vm_compute; reflexivity. Qed.
Theorem C16_localtxsubmission : conforms impl_localtxsubmission_client spec_localtxsubmission /\ conforms impl_localtxsubmission_server spec_localtxsubmission.
Proof. split; apply conforms_by_check; vm_compute; reflexivity. Qed.
Theorem C16_localstatequery : conforms impl_localstatequery_client spec_localstatequery /\ conforms impl_localstatequery_server spec_localstatequery.
Proof. split; apply conforms_by_check; vm_compute; reflexivity. Qed.
Theorem C16_localstatequery_v9 : conforms impl_localstatequery_v9_client spec_localstatequery /\ conforms impl_localstatequery_v9_server spec_localstatequery.
Proof. split; apply conforms_by_check; vm_compute; reflexivity. Qed.
Theorem C16_localtxmonitor : conforms impl_localtxmonitor_client spec_localtxmonitor /\ conforms impl_localtxmonitor_server spec_localtxmonitor.
Proof. split; apply conforms_by_check; vm_compute; reflexivity. Qed.
Theorem C16_messagesubmission_v1 : conforms impl_messagesubmission_v1_client spec_messagesubmission_v1 /\ conforms impl_messagesubmission_v1_server spec_messagesubmission_v1.
Proof. split; apply conforms_by_check; vm_compute; reflexivity. Qed.
Theorem C16_messagesubmission_v2 : conforms impl_messagesubmission_v2_client spec_messagesubmission_v2 /\ conforms impl_messagesubmission_v2_server spec_messagesubmission_v2.
Proof. split; apply conforms_by_check; vm_compute; reflexivity. Qed.
Theorem C16_localmessagesubmission : conforms impl_localmessagesubmission_client spec_localmessagesubmission /\ conforms impl_localmessagesubmission_server spec_localmessagesubmission.
Proof. split; apply conforms_by_check; vm_compute; reflexivity. Qed.
Theorem C16_localmessagenotification : conforms impl_localmessagenotification_client spec_localmessagenotification /\ conforms impl_localmessagenotification_server spec_localmessagenotification.
Proof. split; apply conforms_by_check; vm_compute; reflexivity. Qed.
Theorem C16_leiosfetch : conforms impl_leiosfetch_client spec_leiosfetch /\ conforms impl_leiosfetch_server spec_leiosfetch.
Proof. split; apply conforms_by_check; vm_compute; reflexivity. Qed.
Theorem C16_leiosnotify : conforms impl_leiosnotify_client spec_leiosnotify /\ conforms impl_leiosnotify_server spec_leiosnotify.
Proof. split; apply conforms_by_check; vm_compute; reflexivity. Qed.
Theorem C16_leiosvotes : conforms impl_leiosvotes_client spec_leiosvotes /\ conforms impl_leiosvotes_server spec_leiosvotes.
Proof. split; apply conforms_by_check; vm_compute; reflexivity. Qed.

(* every pair at once, plus: the bisimulation is a one-to-one correspondence covering
   every state of both tables (no collapsed, duplicated, unreachable or dangling state) *)
Theorem C16_all_conform : forall n I S, In (n, I, S) pairs -> conforms I S.
Proof. apply all_conform. vm_compute. reflexivity. Qed.

Theorem C16_state_sets : forall n I S, In (n, I, S) pairs ->
  exists R : rel,
    (forall tr qi qs, run I tr = Some qi -> run S tr = Some qs -> In (qi, qs) R) /\
    (forall a b b', In (a, b) R -> In (a, b') R -> b = b') /\
    (forall a a' b, In (a, b) R -> In (a', b) R -> a = a') /\
    (forall a, In a (state_ids I) -> exists b, In (a, b) R) /\
    (forall b, In b (state_ids S) -> exists a, In (a, b) R).
Proof. apply all_state_sets. vm_compute. reflexivity. Qed.

(* every message type a state machine permits is one NewMsgFromCbor has a case for
   (go/ast) and one the real decoder turned back into a message of that type *)
Theorem C16_decodable : forall I da dd, In (I, da, dd) dec_table ->
  forall t, In t (all_trans I) -> In (t_msg t) da /\ In (t_msg t) dd.
Proof. apply all_decodable. vm_compute. reflexivity. Qed.

(* known finding: the implementation has no MsgGetMeasures / MsgReplyGetMeasures
   (local-tx-monitor from NodeToClientV_20, which the version table offers) *)
Theorem C16_localtxmonitor_v20_refuted :
  exists tr, accepts impl_localtxmonitor_client tr <> accepts spec_localtxmonitor_v20 tr /\
             accepts impl_localtxmonitor_server tr <> accepts spec_localtxmonitor_v20 tr.
Proof. exists [(1, 0); (2, 0); (11, 0)]%N. vm_compute. split; discriminate. Qed.

(* ... and that is the only difference: on traces without message types 11 and 12 the
   implementation conforms to the V_20 machine as well *)
Theorem C16_localtxmonitor_v20_partial : forall tr,
  forallb (fun l => negb (memN (fst l) [11; 12]%N)) tr = true ->
  (accepts impl_localtxmonitor_client tr = accepts spec_localtxmonitor_v20 tr /\
   obs impl_localtxmonitor_client tr = obs spec_localtxmonitor_v20 tr /\
   final_agency impl_localtxmonitor_client tr = final_agency spec_localtxmonitor_v20 tr) /\
  (accepts impl_localtxmonitor_server tr = accepts spec_localtxmonitor_v20 tr /\
   obs impl_localtxmonitor_server tr = obs spec_localtxmonitor_v20 tr /\
   final_agency impl_localtxmonitor_server tr = final_agency spec_localtxmonitor_v20 tr).
Proof. exact ltm_v20_partial. Qed.

Print Assumptions C16_all_conform.
Print Assumptions C16_state_sets.
Print Assumptions C16_decodable.
Print Assumptions C16_localtxmonitor_v20_partial.

(* non-vacuity: the specifications accept real conversations and reject wrong ones *)
Example C16_nonvacuous_chainsync :
  accepts spec_chainsync [(0,0); (1,0); (2,0); (4,0); (5,0); (7,0)]%N = true /\
  accepts spec_chainsync [(0,0); (1,0); (1,0)]%N = false /\
  final_agency spec_chainsync [(7,0)]%N = Some AgNone.
Proof. vm_compute. auto. Qed.
Example C16_nonvacuous_ltm :
  accepts spec_localtxmonitor [(1,0); (2,0); (7,0); (8,0)]%N = true /\
  accepts spec_localtxmonitor [(1,0); (2,0); (7,0); (6,0)]%N = false.
Proof. vm_compute. auto. Qed.
Example C16_nonvacuous_txsub :
  accepts spec_txsubmission [(6,0); (0,1); (4,0)]%N = true /\
  accepts spec_txsubmission [(6,0); (0,2); (4,0)]%N = false.
Proof. vm_compute. auto. Qed.
