(* C16 - lemmas lifting the boolean checks of Model.v to the statements of Props.v. *)
From Coq Require Import String.
From V Require Import Lib.Base Lib.Automata Lib.Bisim C16.Model.
(* end of imports *)
Local Open Scope N_scope.

Lemma conforms_by_check I S : bisim_auto I S = true -> conforms I S.
Proof. intros H tr. apply (bisim_auto_sound I S H). Qed.

Lemma all_conform_gen (ps : list (string * aut * aut)) : all_bisim ps = true ->
  forall n I S, In (n, I, S) ps -> conforms I S.
Proof.
  unfold all_bisim. intros H n I S Hin. rewrite forallb_forall in H.
  specialize (H _ Hin). cbn in H. apply conforms_by_check. exact H.
Qed.

Lemma all_conform : all_bisim pairs = true -> forall n I S, In (n, I, S) pairs -> conforms I S.
Proof. apply all_conform_gen. Qed.

Lemma all_state_sets : all_iso pairs = true -> forall n I S, In (n, I, S) pairs ->
  exists R : rel,
    (forall tr qi qs, run I tr = Some qi -> run S tr = Some qs -> In (qi, qs) R) /\
    (forall a b b', In (a, b) R -> In (a, b') R -> b = b') /\
    (forall a a' b, In (a, b) R -> In (a', b) R -> a = a') /\
    (forall a, In a (state_ids I) -> exists b, In (a, b) R) /\
    (forall b, In b (state_ids S) -> exists a, In (a, b) R).
Proof.
  unfold all_iso. intros H n I S Hin. rewrite forallb_forall in H.
  specialize (H _ Hin). cbn in H. apply andb_true_iff in H. destruct H as [Hb Hi].
  exists (bisim_rel I S). split.
  - intros tr qi qs Hr1 Hr2. unfold bisim_auto in Hb.
    destruct (sound_from I S _ Hb tr _ _ (chk_init I S _ Hb)) as [_ Hrun].
    unfold run in Hr1, Hr2. rewrite Hr1, Hr2 in Hrun. exact Hrun.
  - apply iso_sound. exact Hi.
Qed.

Lemma undecodable_nil I ds : undecodable I ds = [] ->
  forall t, In t (all_trans I) -> In (t_msg t) ds.
Proof.
  unfold undecodable, permitted_msgs. intros H t Ht.
  destruct (memN (t_msg t) ds) eqn:E; [apply memN_In; exact E|].
  exfalso. assert (Hin : In (t_msg t) (filter (fun m => negb (memN m ds)) (dedupN (msgs_of I)))).
  { apply filter_In. split; [|rewrite E; reflexivity].
    apply dedupN_In. unfold msgs_of. apply in_map. exact Ht. }
  rewrite H in Hin. destruct Hin.
Qed.

Lemma all_decodable : forallb dec_ok dec_table = true ->
  forall I da dd, In (I, da, dd) dec_table ->
  forall t, In t (all_trans I) -> In (t_msg t) da /\ In (t_msg t) dd.
Proof.
  intros H I da dd Hin t Ht. rewrite forallb_forall in H. specialize (H _ Hin).
  unfold dec_ok in H.
  destruct (undecodable I da) eqn:E1; [|discriminate].
  destruct (undecodable I dd) eqn:E2; [|discriminate].
  split; eapply undecodable_nil; eauto.
Qed.

(* ---- removing the transitions on a set of message types ------------------- *)

Definition keep (X : list N) (t : trans) : bool := negb (memN (t_msg t) X).
Definition restrict_st (X : list N) (s : stent) : stent :=
  mkS (s_id s) (s_name s) (s_agency s) (filter (keep X) (s_trans s)) (s_timeout s) (s_dyn_timeout s) (s_limit s).
Definition restrict (X : list N) (A : aut) : aut :=
  mkA (a_name A) (map (restrict_st X) (a_states A)) (a_init A).

Lemma lookup_restrict X ss q :
  lookup_st (map (restrict_st X) ss) q = option_map (restrict_st X) (lookup_st ss q).
Proof.
  induction ss as [|s r IH]; cbn; [reflexivity|].
  destruct (N.eqb (s_id s) q); [reflexivity|exact IH].
Qed.

Lemma agency_restrict X A q : agency_of (restrict X A) q = agency_of A q.
Proof.
  unfold agency_of, lookup, restrict. cbn [a_states]. rewrite lookup_restrict.
  destruct (lookup_st (a_states A) q); reflexivity.
Qed.

Lemma find_trans_filter X ts m c : memN m X = false ->
  find_trans (filter (keep X) ts) m c = find_trans ts m c.
Proof.
  intros Hm. induction ts as [|t r IH]; cbn; [reflexivity|].
  unfold keep at 1. destruct (memN (t_msg t) X) eqn:E; cbn.
  - destruct (N.eqb (t_msg t) m) eqn:Em.
    + apply N.eqb_eq in Em. congruence.
    + cbn. exact IH.
  - rewrite IH. reflexivity.
Qed.

Lemma step_restrict X A q l : memN (fst l) X = false -> step (restrict X A) q l = step A q l.
Proof.
  intros Hm. unfold step, trans_of, lookup, restrict. cbn [a_states]. rewrite lookup_restrict.
  destruct (lookup_st (a_states A) q) as [s|]; cbn; [|reflexivity].
  apply find_trans_filter. exact Hm.
Qed.

Definition avoids (X : list N) (tr : list label) : bool := forallb (fun l => negb (memN (fst l) X)) tr.

Lemma run_restrict X A tr : avoids X tr = true -> forall q,
  run_from (restrict X A) q tr = run_from A q tr /\ obs_from (restrict X A) q tr = obs_from A q tr.
Proof.
  induction tr as [|l r IH]; intros Hav q; cbn.
  - rewrite agency_restrict. auto.
  - cbn in Hav. apply andb_true_iff in Hav. destruct Hav as [Hl Hr].
    apply negb_true_iff in Hl. rewrite (step_restrict X A q l Hl), agency_restrict.
    destruct (step A q l) as [q'|]; [|auto].
    destruct (IH Hr q') as [E1 E2]. rewrite E1, E2. auto.
Qed.

Lemma conforms_restrict X A tr : avoids X tr = true ->
  accepts (restrict X A) tr = accepts A tr /\ obs (restrict X A) tr = obs A tr /\
  final_agency (restrict X A) tr = final_agency A tr.
Proof.
  intros Hav. destruct (run_restrict X A tr Hav (a_init A)) as [E1 E2].
  unfold accepts, obs, final_agency, run. change (a_init (restrict X A)) with (a_init A).
  rewrite E1, E2. repeat split.
  destruct (run_from A (a_init A) tr); [|reflexivity]. rewrite agency_restrict. reflexivity.
Qed.

Lemma ltm_v20_one I :
  bisim_auto I (restrict [11; 12] spec_localtxmonitor_v20) = true ->
  forall tr, avoids [11; 12] tr = true ->
  accepts I tr = accepts spec_localtxmonitor_v20 tr /\
  obs I tr = obs spec_localtxmonitor_v20 tr /\
  final_agency I tr = final_agency spec_localtxmonitor_v20 tr.
Proof.
  intros H tr Hav. destruct (bisim_auto_sound _ _ H tr) as (A1 & A2 & A3).
  destruct (conforms_restrict [11; 12] spec_localtxmonitor_v20 tr Hav) as (B1 & B2 & B3).
  rewrite A1, A2, A3, B1, B2, B3. auto.
Qed.

Lemma ltm_v20_partial : forall tr,
  forallb (fun l => negb (memN (fst l) [11; 12])) tr = true ->
  (accepts impl_localtxmonitor_client tr = accepts spec_localtxmonitor_v20 tr /\
   obs impl_localtxmonitor_client tr = obs spec_localtxmonitor_v20 tr /\
   final_agency impl_localtxmonitor_client tr = final_agency spec_localtxmonitor_v20 tr) /\
  (accepts impl_localtxmonitor_server tr = accepts spec_localtxmonitor_v20 tr /\
   obs impl_localtxmonitor_server tr = obs spec_localtxmonitor_v20 tr /\
   final_agency impl_localtxmonitor_server tr = final_agency spec_localtxmonitor_v20 tr).
Proof.
  intros tr Hav. split; apply ltm_v20_one; try exact Hav; vm_compute; reflexivity.
Qed.
