(* C16 - specification automata of the experimental Leios mini-protocols
   (CIP-0164 Linear Leios).  Reference used: the "State Machine", "States",
   "Messages" and "State Transitions" tables of
   /repo/protocol/leiosfetch/README.md, /repo/protocol/leiosnotify/README.md and
   /repo/protocol/leiosvotes/README.md (there is no ratified network
   specification for these protocols yet).  Written by hand from those tables. *)
From Coq Require Import String.
From V Require Import Lib.Base Lib.Automata C16.SpecCardano.
(* end of imports *)
Local Open Scope string_scope.
Local Open Scope N_scope.

(* BlockRequest 0, Block 1, BlockTxsRequest 2, BlockTxs 3, VotesRequest 4, Votes 5,
   BlockRangeRequest 6, LastBlockAndTxsInRange 7, NextBlockAndTxsInRange 8, Done 9,
   NoBlock 10, NoBlockTxs 11. *)
Definition spec_leiosfetch : aut := mkA "spec_leiosfetch" [
  st 1 "Idle" AgClient [u 0 2; u 2 3; u 4 4; u 6 5; u 9 6];
  st 2 "Block" AgServer [u 1 1; u 10 1];
  st 3 "BlockTxs" AgServer [u 3 1; u 11 1];
  st 4 "Votes" AgServer [u 5 1];
  st 5 "BlockRange" AgServer [u 8 5; u 7 1];
  st 6 "Done" AgNone []
] 1.

(* NotificationRequestNext 0, BlockAnnouncement 1, BlockOffer 2, BlockTxsOffer 3,
   VotesOffer 4, Done 5. *)
Definition spec_leiosnotify : aut := mkA "spec_leiosnotify" [
  st 1 "Idle" AgClient [u 0 2; u 5 3];
  st 2 "Busy" AgServer [u 1 1; u 2 1; u 3 1; u 4 1];
  st 3 "Done" AgNone []
] 1.

(* VotesRequestNext 0 (positive count, capped), Vote 1, Done 2.
     Idle --VotesRequestNext(N)--> Busy(tokens=N)
     Busy --Vote, tokens > 1--> Busy(tokens-1)
     Busy --Vote, tokens = 1--> Idle
     Idle --Done--> Done
   The token counter is abstracted into guard classes of the label:
     1 = request with 1 <= count <= max, 2 = count 0, 3 = count above the cap,
     4 = vote while more than one is outstanding, 5 = the last outstanding vote,
     6 = vote with none outstanding.
   Classes 2, 3 and 6 are not permitted anywhere. *)
Definition cls_count_ok : N := 1.
Definition cls_more_pending : N := 4.
Definition cls_final : N := 5.
Definition spec_leiosvotes : aut := mkA "spec_leiosvotes" [
  st 1 "Idle" AgClient [g 0 cls_count_ok 2; u 2 3];
  st 2 "Busy" AgServer [g 1 cls_more_pending 2; g 1 cls_final 1];
  st 3 "Done" AgNone []
] 1.
