(* C16 - specification automata of the DMQ mini-protocols (CIP-0137, "Decentralized
   Message Queue": message submission, local message submission, local message
   notification).  References used: CIP-0137 (state machine and CDDL of the three
   mini-protocols; message submission is the tx-submission2 machine with
   transactions replaced by messages) and, for the revised node-to-node machine
   ("V2": no StInit, termination by the inbound side from StIdle), the doc
   comment of stateMapV2 in /repo/protocol/messagesubmission/messagesubmission.go
   and the state tables of /repo/protocol/{localmessagesubmission,
   localmessagenotification}/README.md.  (The README of messagesubmission mixes
   both versions in one table and was not used.)  Written by hand. *)
From Coq Require Import String.
From V Require Import Lib.Base Lib.Automata C16.SpecCardano.
(* end of imports *)
Local Open Scope string_scope.
Local Open Scope N_scope.

(* msgInit 0, msgRequestMessageIds 1 (blocking flag), msgReplyMessageIds 2,
   msgRequestMessages 3, msgReplyMessages 4, msgDone 5.  Client = outbound side. *)
Definition spec_messagesubmission_v1 : aut := mkA "spec_messagesubmission_v1" [
  st 1 "StInit" AgClient [u 0 2];
  st 2 "StIdle" AgServer [g 1 cls_blocking 3; g 1 cls_nonblocking 4; u 3 5];
  st 3 "StMessageIdsBlocking" AgClient [u 2 2; u 5 6];
  st 4 "StMessageIdsNonBlocking" AgClient [u 2 2];
  st 5 "StMessages" AgClient [u 4 2];
  st 6 "StDone" AgNone []
] 1.

Definition spec_messagesubmission_v2 : aut := mkA "spec_messagesubmission_v2" [
  st 2 "StIdle" AgServer [g 1 cls_blocking 3; g 1 cls_nonblocking 4; u 3 5; u 5 6];
  st 3 "StMessageIdsBlocking" AgClient [u 2 2];
  st 4 "StMessageIdsNonBlocking" AgClient [u 2 2];
  st 5 "StMessages" AgClient [u 4 2];
  st 6 "StDone" AgNone []
] 2.

(* msgSubmitMessage 0, msgAcceptMessage 1, msgRejectMessage 2, msgDone 3. *)
Definition spec_localmessagesubmission : aut := mkA "spec_localmessagesubmission" [
  st 1 "StIdle" AgClient [u 0 2; u 3 3];
  st 2 "StBusy" AgServer [u 1 1; u 2 1];
  st 3 "StDone" AgNone []
] 1.

(* msgRequestMessages 0 (blocking flag), msgReplyMessagesNonBlocking 1,
   msgReplyMessagesBlocking 2, msgClientDone 3. *)
Definition spec_localmessagenotification : aut := mkA "spec_localmessagenotification" [
  st 1 "StIdle" AgClient [g 0 cls_blocking 2; g 0 cls_nonblocking 3; u 3 4];
  st 2 "StBusyBlocking" AgServer [u 2 1];
  st 3 "StBusyNonBlocking" AgServer [u 1 1];
  st 4 "StDone" AgNone []
] 1.
