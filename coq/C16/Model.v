(* C16 - executable model: which generated implementation automaton (Gen.v, regenerated
   from the real state maps on every run) is compared with which hand-written
   specification automaton (Spec*.v), the report of shortest distinguishing traces,
   and the correspondence check of engine observations.  No proofs here. *)
From Coq Require Import String.
From V Require Import Lib.Base Lib.Automata Lib.Bisim.
From V Require Export C16.Gen C16.SpecCardano C16.SpecDMQ C16.SpecLeios.
(* end of imports *)
Local Open Scope string_scope.

(* the property for one implementation automaton I and its specification S:
   same accepted language, same agency in every state visited, same agency
   (in particular: terminal or not) of the state reached - for every trace *)
Definition conforms (I S : aut) : Prop :=
  forall tr : list label,
    accepts I tr = accepts S tr /\ obs I tr = obs S tr /\ final_agency I tr = final_agency S tr.

(* (name, implementation, specification) - client-role and server-role configuration
   of every protocol variant *)
Definition pairs : list (string * aut * aut) := [  ("handshake_ntn_client", impl_handshake_ntn_client, spec_handshake);
  ("handshake_ntn_server", impl_handshake_ntn_server, spec_handshake);
  ("handshake_ntc_client", impl_handshake_ntc_client, spec_handshake);
  ("handshake_ntc_server", impl_handshake_ntc_server, spec_handshake);
  ("chainsync_ntn_client", impl_chainsync_ntn_client, spec_chainsync);
  ("chainsync_ntn_server", impl_chainsync_ntn_server, spec_chainsync);
  ("chainsync_ntc_client", impl_chainsync_ntc_client, spec_chainsync);
  ("chainsync_ntc_server", impl_chainsync_ntc_server, spec_chainsync);
  ("blockfetch_client", impl_blockfetch_client, spec_blockfetch);
  ("blockfetch_server", impl_blockfetch_server, spec_blockfetch);
  ("txsubmission_client", impl_txsubmission_client, spec_txsubmission);
  ("txsubmission_server", impl_txsubmission_server, spec_txsubmission);
  ("keepalive_client", impl_keepalive_client, spec_keepalive);
  ("keepalive_server", impl_keepalive_server, spec_keepalive);
  ("peersharing_client", impl_peersharing_client, spec_peersharing);
  ("peersharing_server", impl_peersharing_server, spec_peersharing);
  ("localtxsubmission_client", impl_localtxsubmission_client, spec_localtxsubmission);
  ("localtxsubmission_server", impl_localtxsubmission_server, spec_localtxsubmission);
  ("localstatequery_client", impl_localstatequery_client, spec_localstatequery);
  ("localstatequery_server", impl_localstatequery_server, spec_localstatequery);
  ("localstatequery_v9_client", impl_localstatequery_v9_client, spec_localstatequery);
  ("localstatequery_v9_server", impl_localstatequery_v9_server, spec_localstatequery);
  ("localtxmonitor_client", impl_localtxmonitor_client, spec_localtxmonitor);
  ("localtxmonitor_server", impl_localtxmonitor_server, spec_localtxmonitor);
  ("messagesubmission_v1_client", impl_messagesubmission_v1_client, spec_messagesubmission_v1);
  ("messagesubmission_v1_server", impl_messagesubmission_v1_server, spec_messagesubmission_v1);
  ("messagesubmission_v2_client", impl_messagesubmission_v2_client, spec_messagesubmission_v2);
  ("messagesubmission_v2_server", impl_messagesubmission_v2_server, spec_messagesubmission_v2);
  ("localmessagesubmission_client", impl_localmessagesubmission_client, spec_localmessagesubmission);
  ("localmessagesubmission_server", impl_localmessagesubmission_server, spec_localmessagesubmission);
  ("localmessagenotification_client", impl_localmessagenotification_client, spec_localmessagenotification);
  ("localmessagenotification_server", impl_localmessagenotification_server, spec_localmessagenotification);
  ("leiosfetch_client", impl_leiosfetch_client, spec_leiosfetch);
  ("leiosfetch_server", impl_leiosfetch_server, spec_leiosfetch);
  ("leiosnotify_client", impl_leiosnotify_client, spec_leiosnotify);
  ("leiosnotify_server", impl_leiosnotify_server, spec_leiosnotify);
  ("leiosvotes_client", impl_leiosvotes_client, spec_leiosvotes);
  ("leiosvotes_server", impl_leiosvotes_server, spec_leiosvotes)].

(* comparisons that are EXPECTED to differ on the pinned tree (known findings);
   reported under their own keys *)
Definition known_pairs : list (string * aut * aut) := [
  ("localtxmonitor_v20_client", impl_localtxmonitor_client, spec_localtxmonitor_v20);
  ("localtxmonitor_v20_server", impl_localtxmonitor_server, spec_localtxmonitor_v20)].

(* (automaton, go/ast decodable ids, dynamically decodable ids) *)
Definition dec_table : list (aut * list N * list N) := [  (impl_handshake_ntn_client, dec_ast_handshake_ntn, dec_dyn_handshake_ntn);
  (impl_handshake_ntn_server, dec_ast_handshake_ntn, dec_dyn_handshake_ntn);
  (impl_handshake_ntc_client, dec_ast_handshake_ntc, dec_dyn_handshake_ntc);
  (impl_handshake_ntc_server, dec_ast_handshake_ntc, dec_dyn_handshake_ntc);
  (impl_chainsync_ntn_client, dec_ast_chainsync_ntn, dec_dyn_chainsync_ntn);
  (impl_chainsync_ntn_server, dec_ast_chainsync_ntn, dec_dyn_chainsync_ntn);
  (impl_chainsync_ntc_client, dec_ast_chainsync_ntc, dec_dyn_chainsync_ntc);
  (impl_chainsync_ntc_server, dec_ast_chainsync_ntc, dec_dyn_chainsync_ntc);
  (impl_blockfetch_client, dec_ast_blockfetch, dec_dyn_blockfetch);
  (impl_blockfetch_server, dec_ast_blockfetch, dec_dyn_blockfetch);
  (impl_txsubmission_client, dec_ast_txsubmission, dec_dyn_txsubmission);
  (impl_txsubmission_server, dec_ast_txsubmission, dec_dyn_txsubmission);
  (impl_keepalive_client, dec_ast_keepalive, dec_dyn_keepalive);
  (impl_keepalive_server, dec_ast_keepalive, dec_dyn_keepalive);
  (impl_peersharing_client, dec_ast_peersharing, dec_dyn_peersharing);
  (impl_peersharing_server, dec_ast_peersharing, dec_dyn_peersharing);
  (impl_localtxsubmission_client, dec_ast_localtxsubmission, dec_dyn_localtxsubmission);
  (impl_localtxsubmission_server, dec_ast_localtxsubmission, dec_dyn_localtxsubmission);
  (impl_localstatequery_client, dec_ast_localstatequery, dec_dyn_localstatequery);
  (impl_localstatequery_server, dec_ast_localstatequery, dec_dyn_localstatequery);
  (impl_localstatequery_v9_client, dec_ast_localstatequery_v9, dec_dyn_localstatequery_v9);
  (impl_localstatequery_v9_server, dec_ast_localstatequery_v9, dec_dyn_localstatequery_v9);
  (impl_localtxmonitor_client, dec_ast_localtxmonitor, dec_dyn_localtxmonitor);
  (impl_localtxmonitor_server, dec_ast_localtxmonitor, dec_dyn_localtxmonitor);
  (impl_messagesubmission_v1_client, dec_ast_messagesubmission_v1, dec_dyn_messagesubmission_v1);
  (impl_messagesubmission_v1_server, dec_ast_messagesubmission_v1, dec_dyn_messagesubmission_v1);
  (impl_messagesubmission_v2_client, dec_ast_messagesubmission_v2, dec_dyn_messagesubmission_v2);
  (impl_messagesubmission_v2_server, dec_ast_messagesubmission_v2, dec_dyn_messagesubmission_v2);
  (impl_localmessagesubmission_client, dec_ast_localmessagesubmission, dec_dyn_localmessagesubmission);
  (impl_localmessagesubmission_server, dec_ast_localmessagesubmission, dec_dyn_localmessagesubmission);
  (impl_localmessagenotification_client, dec_ast_localmessagenotification, dec_dyn_localmessagenotification);
  (impl_localmessagenotification_server, dec_ast_localmessagenotification, dec_dyn_localmessagenotification);
  (impl_leiosfetch_client, dec_ast_leiosfetch, dec_dyn_leiosfetch);
  (impl_leiosfetch_server, dec_ast_leiosfetch, dec_dyn_leiosfetch);
  (impl_leiosnotify_client, dec_ast_leiosnotify, dec_dyn_leiosnotify);
  (impl_leiosnotify_server, dec_ast_leiosnotify, dec_dyn_leiosnotify);
  (impl_leiosvotes_client, dec_ast_leiosvotes, dec_dyn_leiosvotes);
  (impl_leiosvotes_server, dec_ast_leiosvotes, dec_dyn_leiosvotes)].

Definition ag_code (a : option agency) : N :=
  match a with Some AgNone => 0 | Some AgClient => 1 | Some AgServer => 2 | None => 3 end%N.

(* name, differs?, shortest distinguishing trace, accepted by impl / by spec,
   final agency codes (3 = rejected) *)
Definition report_row := (string * bool * list label * bool * bool * N * N)%type.
Definition report_one (p : string * aut * aut) : report_row :=
  let '(n, Im, Sp) := p in
  match distinguish Im Sp with
  | None => (n, false, [], true, true, 3%N, 3%N)
  | Some d => (n, true, d_trace d, d_accA d, d_accB d, ag_code (d_agA d), ag_code (d_agB d))
  end.
Definition report (ps : list (string * aut * aut)) : list report_row := map report_one ps.

(* boolean forms of the theorems' side conditions *)
Definition all_bisim (ps : list (string * aut * aut)) : bool :=
  forallb (fun p => let '(_, Im, Sp) := p in bisim_auto Im Sp) ps.
Definition all_iso (ps : list (string * aut * aut)) : bool :=
  forallb (fun p => let '(_, Im, Sp) := p in bisim_auto Im Sp && iso_check Im Sp (bisim_rel Im Sp)) ps.
Definition all_wf (ps : list (string * aut * aut)) : bool :=
  forallb (fun p => let '(_, Im, _) := p in wf_aut Im && terminals_silent Im) ps.
Definition dec_ok (e : aut * list N * list N) : bool :=
  let '(Im, da, dd) := e in
  match undecodable Im da, undecodable Im dd with [], [] => true | _, _ => false end.

(* ---- correspondence with the real engine --------------------------------
   One case = one scripted conversation driven through a real
   protocol.Protocol instance: the automaton's name, the trace of labels, the
   number of messages the engine accepted before the first protocol error
   (= length of the trace if none) and whether Protocol.IsDone() held at the
   end of a fully accepted trace. *)
Definition case := (string * list label * N * bool)%type.

Fixpoint find_aut (n : string) (l : list (string * aut)) : option aut :=
  match l with
  | [] => None
  | (m, A) :: r => if String.eqb n m then Some A else find_aut n r
  end.

Definition check_case (c : case) : bool :=
  let '(n, tr, k, done) := c in
  match find_aut n all_impl with
  | None => false
  | Some A =>
    let o := obs A tr in
    N.eqb (N.of_nat (length o)) (k + 1) &&
    (if N.eqb k (N.of_nat (length tr))
     then match final_agency A tr with Some AgNone => done | Some _ => negb done | None => false end
     else true)
  end.
Definition mismatches := failing check_case.
