(* C16 - specification automata of the Cardano mini-protocols, encoded BY HAND
   from "The Shelley Networking Protocol" / "Ouroboros Network Specification"
   (IOG, network-spec; chapter 3 "Mini Protocols": state machine tables and
   agency tables of each protocol) and the CDDL of ouroboros-network for the wire
   tags (messages.cddl: handshake-node-to-node, chain-sync, block-fetch,
   tx-submission2, keep-alive, peer-sharing, local-tx-submission,
   local-state-query, local-tx-monitor).  Nothing here is derived from the Go
   state maps.  State ids are the specification's order of presentation and
   deliberately need not coincide with the implementation's ids; timeouts and
   byte limits are not part of this property (C13/C14) and are left 0. *)
From Coq Require Import String.
From V Require Import Lib.Base Lib.Automata.
(* end of imports *)
Local Open Scope string_scope.
Local Open Scope N_scope.

Definition st (id : N) (name : string) (ag : agency) (ts : list trans) : stent :=
  mkS id name ag ts 0%Z false 0.
Definition u (m next : N) : trans := mkT m None next.            (* unguarded *)
Definition g (m c next : N) : trans := mkT m (Some [c]) next.    (* only for guard class c *)

(* guard classes used by the specifications *)
Definition cls_blocking : N := 1.
Definition cls_nonblocking : N := 2.

(* ---- Handshake (section 3.6; identical machine for NtN and NtC).
   msgProposeVersions = 0, msgAcceptVersion = 1, msgRefuse = 2, msgQueryReply = 3.
   StPropose (client) -> StConfirm (server) -> StDone. *)
Definition spec_handshake : aut := mkA "spec_handshake" [
  st 1 "StPropose" AgClient [u 0 2];
  st 2 "StConfirm" AgServer [u 1 3; u 2 3; u 3 3];
  st 3 "StDone" AgNone []
] 1.

(* ---- Chain-Sync (section 3.7; same machine for NtN (headers) and NtC (blocks)).
   msgRequestNext 0, msgAwaitReply 1, msgRollForward 2, msgRollBackward 3,
   msgFindIntersect 4, msgIntersectFound 5, msgIntersectNotFound 6, msgDone 7. *)
Definition spec_chainsync : aut := mkA "spec_chainsync" [
  st 1 "StIdle" AgClient [u 0 2; u 4 4; u 7 5];
  st 2 "StCanAwait" AgServer [u 1 3; u 2 1; u 3 1];
  st 3 "StMustReply" AgServer [u 2 1; u 3 1];
  st 4 "StIntersect" AgServer [u 5 1; u 6 1];
  st 5 "StDone" AgNone []
] 1.

(* ---- Block-Fetch (section 3.8).
   msgRequestRange 0, msgClientDone 1, msgStartBatch 2, msgNoBlocks 3, msgBlock 4, msgBatchDone 5. *)
Definition spec_blockfetch : aut := mkA "spec_blockfetch" [
  st 1 "StIdle" AgClient [u 0 2; u 1 4];
  st 2 "StBusy" AgServer [u 2 3; u 3 1];
  st 3 "StStreaming" AgServer [u 4 3; u 5 1];
  st 4 "StDone" AgNone []
] 1.

(* ---- Tx-Submission2 (section 3.9).  The server (inbound side) asks.
   msgRequestTxIds 0 (blocking flag), msgReplyTxIds 1, msgRequestTxs 2, msgReplyTxs 3,
   msgDone 4, msgInit 6.  MsgDone only from StTxIds(Blocking). *)
Definition spec_txsubmission : aut := mkA "spec_txsubmission" [
  st 1 "StInit" AgClient [u 6 2];
  st 2 "StIdle" AgServer [g 0 cls_blocking 3; g 0 cls_nonblocking 4; u 2 5];
  st 3 "StTxIdsBlocking" AgClient [u 1 2; u 4 6];
  st 4 "StTxIdsNonBlocking" AgClient [u 1 2];
  st 5 "StTxs" AgClient [u 3 2];
  st 6 "StDone" AgNone []
] 1.

(* ---- Keep-Alive (section 3.10).  msgKeepAlive 0, msgKeepAliveResponse 1, msgDone 2. *)
Definition spec_keepalive : aut := mkA "spec_keepalive" [
  st 1 "StClient" AgClient [u 0 2; u 2 3];
  st 2 "StServer" AgServer [u 1 1];
  st 3 "StDone" AgNone []
] 1.

(* ---- Peer-Sharing (section 3.11).  msgShareRequest 0, msgSharePeers 1, msgDone 2. *)
Definition spec_peersharing : aut := mkA "spec_peersharing" [
  st 1 "StIdle" AgClient [u 0 2; u 2 3];
  st 2 "StBusy" AgServer [u 1 1];
  st 3 "StDone" AgNone []
] 1.

(* ---- Local Tx-Submission.  msgSubmitTx 0, msgAcceptTx 1, msgRejectTx 2, msgDone 3. *)
Definition spec_localtxsubmission : aut := mkA "spec_localtxsubmission" [
  st 1 "StIdle" AgClient [u 0 2; u 3 3];
  st 2 "StBusy" AgServer [u 1 1; u 2 1];
  st 3 "StDone" AgNone []
] 1.

(* ---- Local State Query.
   msgAcquire 0 (point) / 8 (volatile tip) / 10 (immutable tip), msgAcquired 1,
   msgFailure 2, msgQuery 3, msgResult 4, msgRelease 5,
   msgReAcquire 6 (point) / 9 (volatile tip) / 11 (immutable tip), msgDone 7. *)
Definition spec_localstatequery : aut := mkA "spec_localstatequery" [
  st 1 "StIdle" AgClient [u 0 2; u 8 2; u 10 2; u 7 5];
  st 2 "StAcquiring" AgServer [u 1 3; u 2 1];
  st 3 "StAcquired" AgClient [u 3 4; u 6 2; u 9 2; u 11 2; u 5 1];
  st 4 "StQuerying" AgServer [u 4 3];
  st 5 "StDone" AgNone []
] 1.

(* ---- Local Tx-Monitor.
   msgDone 0, msgAcquire / msgAwaitAcquire 1, msgAcquired 2, msgRelease 3,
   msgNextTx 5, msgReplyNextTx 6, msgHasTx 7, msgReplyHasTx 8,
   msgGetSizes 9, msgReplyGetSizes 10, msgGetMeasures 11, msgReplyGetMeasures 12.
   StBusy is indexed by the request kind: a reply is only valid for the request
   it answers.  MsgGetMeasures/MsgReplyGetMeasures exist from NodeToClientV_20. *)
Definition spec_localtxmonitor_with (measures : bool) : aut :=
  mkA "spec_localtxmonitor" ([
  st 1 "StIdle" AgClient [u 1 2; u 0 9];
  st 2 "StAcquiring" AgServer [u 2 3];
  st 3 "StAcquired" AgClient ([u 1 2; u 3 1; u 5 4; u 7 5; u 9 6] ++ (if measures then [u 11 7] else []));
  st 4 "StBusyNextTx" AgServer [u 6 3];
  st 5 "StBusyHasTx" AgServer [u 8 3];
  st 6 "StBusyGetSizes" AgServer [u 10 3]] ++
  (if measures then [st 7 "StBusyGetMeasures" AgServer [u 12 3]] else []) ++
  [st 9 "StDone" AgNone []]) 1.

(* the protocol as of NodeToClientV_9 .. V_19 *)
Definition spec_localtxmonitor : aut := spec_localtxmonitor_with false.
(* the protocol as of NodeToClientV_20 and later *)
Definition spec_localtxmonitor_v20 : aut := spec_localtxmonitor_with true.
