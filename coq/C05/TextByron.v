(* C05 - Byron addresses (CBOR framing + CRC) and the text form. *)
From Coq Require Import String.
From V Require Import Lib.Base Lib.Cbor Lib.CborParse Lib.CborProofs C05.Gen C05.Model C05.Varint C05.Proofs.
Local Open Scope N_scope.

(* ---------- accepted Byron bytes have the framing [tag24 payload, crc payload] and nothing else ---------- *)
Lemma byron_inner_inv payload b : byron_inner payload = Good b ->
  exists fi fh fm kvs ft,
    parse_full payload = Ok (Arr fi [BStr fh (b_hash b); Map fm kvs; UInt ft (b_type b)]) [] /\
    length (b_hash b) = hash_size.
Proof.
  unfold byron_inner. intros H.
  repeat match type of H with
  | match ?x with _ => _ end = Good _ => let E := fresh "E" in destruct x eqn:E; try discriminate H
  | (if ?x then _ else _) = Good _ => let E := fresh "E" in destruct x eqn:E; try discriminate H
  end.
  all: inversion H; subst b; cbn [b_hash b_type].
  all: match goal with E : negb (is_nil ?r) = false |- _ => destruct r; [|discriminate E] end.
  all: match goal with E : Nat.eqb _ _ = true |- _ => apply Nat.eqb_eq in E end.
  all: eauto 10.
Qed.

Lemma byron_populate_inv crc data b : byron_populate crc data = Good b ->
  exists fa ft fb fc payload,
    parse_full data = Ok (Arr fa [Tag ft 24 (BStr fb payload); UInt fc (crc payload)]) [] /\
    byron_inner payload = Good b.
Proof.
  unfold byron_populate. intros H.
  repeat match type of H with
  | match ?x with _ => _ end = Good _ => let E := fresh "E" in destruct x eqn:E; try discriminate H
  | (if ?x then _ else _) = Good _ => let E := fresh "E" in destruct x eqn:E; try discriminate H
  end.
  match goal with E : negb (is_nil ?r) = false |- _ => destruct r; [|discriminate E] end.
  repeat match goal with E : negb (_ =? _) = false |- _ => apply negb_false_iff, N.eqb_eq in E end.
  subst. eauto 10.
Qed.

(* a checksum that does not match is rejected, whatever else the bytes contain *)
Lemma byron_bad_crc crc data fa ft t fb payload fc c rest :
  parse_full data = Ok (Arr fa [Tag ft t (BStr fb payload); UInt fc c]) rest ->
  c <> crc payload -> exists e, byron_populate crc data = Fail e.
Proof.
  intros P Hc. destruct (byron_populate crc data) as [b|e] eqn:E; [|eauto].
  destruct (byron_populate_inv _ _ _ E) as (fa' & ft' & fb' & fc' & payload' & P' & _).
  rewrite P in P'. inversion P'; subst. contradiction.
Qed.

(* ---------- Byron: address -> bytes -> address ---------- *)
Definition wf_b (crc : bytes -> N) (b : baddr) : Prop :=
  length (b_hash b) = hash_size /\ all_bytes (b_hash b) /\ all_bytes (b_payload b) /\
  N.of_nat (length (b_payload b)) < two64 /\ b_type b < two64 /\
  match b_network b with Some n => n < two32 | None => True end /\
  N.of_nat (length (byron_payload b)) < two64 /\ crc (byron_payload b) < two32.

Lemma fits_min n : n < two64 -> fits (min_form n) n.
Proof.
  unfold min_form, two64. intros H.
  destruct (n <? 24) eqn:E1; [cbn; lia|]. destruct (n <? 2 ^ 8) eqn:E2; [cbn [fits]; lia|].
  destruct (n <? 2 ^ 16) eqn:E3; [cbn [fits]; lia|]. destruct (n <? 2 ^ 32) eqn:E4; [cbn [fits]; lia|].
  cbn [fits]. change (2 ^ 64) with 18446744073709551616. exact H.
Qed.

Lemma wf_attr b : all_bytes (b_payload b) -> N.of_nat (length (b_payload b)) < two64 ->
  match b_network b with Some n => n < two32 | None => True end -> wf (attr_item b).
Proof.
  intros Hp Hl Hn. unfold attr_item.
  assert (W2 : forall n, n < two32 -> wf (BStr (mf_len (enc (UInt (min_form n) n))) (enc (UInt (min_form n) n)))).
  { intros n Hn'. cbn [wf]. split.
    - unfold len_ok, mf_len. apply fits_min. cbn [enc]. rewrite CborLemmas.enc_head_length.
      unfold two64. destruct (min_form n); cbn; lia.
    - apply enc_bytes. cbn [wf]. apply fits_min. unfold two32, two64 in *. lia. }
  destruct (b_payload b) as [|x p] eqn:EP; destruct (b_network b) as [n|] eqn:EN; cbn [app wf fst snd].
  - repeat split; try (cbn; lia); try apply W2; auto.
  - repeat split; cbn; lia.
  - repeat split; try (cbn; lia); try apply W2; auto. unfold len_ok, mf_len. apply fits_min. exact Hl.
  - repeat split; try (cbn; lia); auto. unfold len_ok, mf_len. apply fits_min. exact Hl.
Qed.

Lemma wf_inner crc b : wf_b crc b ->
  wf (Arr (Some Fimm) [BStr (mf_len (b_hash b)) (b_hash b); attr_item b; UInt (min_form (b_type b)) (b_type b)]).
Proof.
  intros (Hh & Hhb & Hp & Hpl & Ht & Hn & _ & _). apply CborLemmas.wf_arr. split; [cbn; lia|].
  constructor; [|constructor; [|constructor; [|constructor]]].
  - cbn [wf]. split; [|exact Hhb]. unfold len_ok, mf_len. apply fits_min. rewrite Hh. unfold two64. cbn. lia.
  - apply wf_attr; auto.
  - cbn [wf]. apply fits_min. exact Ht.
Qed.

Lemma decode_u32_enc n : n < two32 -> exists x r, enc (UInt (min_form n) n) = x :: r /\
  decode_u32 (enc (UInt (min_form n) n)) = Some n.
Proof.
  intros Hn. cbn [enc]. unfold enc_head at 1. eexists _, _. split; [reflexivity|].
  unfold decode_u32. change (enc_head 0 (min_form n) n) with (enc (UInt (min_form n) n)).
  rewrite <- (app_nil_r (enc _)). rewrite parse_full_enc by (cbn [wf]; apply fits_min; unfold two32, two64 in *; lia).
  destruct (n <? two32) eqn:E; [reflexivity|lia].
Qed.

Lemma byron_inner_enc crc b : wf_b crc b -> byron_inner (byron_payload b) = Good b.
Proof.
  intros W. pose proof (wf_inner _ _ W) as WI. destruct W as (Hh & Hhb & Hp & Hpl & Ht & Hn & _ & _).
  unfold byron_inner, byron_payload. rewrite <- (app_nil_r (enc _)). rewrite parse_full_enc by exact WI.
  cbn [is_nil negb]. destruct (b_type b <? two64) eqn:E; [|lia]. cbn [negb].
  unfold attr_item. destruct b as [hash pl net ty]; cbn [b_hash b_payload b_network b_type] in *.
  rewrite Hh, Nat.eqb_refl.
  destruct pl as [|x p]; destruct net as [n|]; cbn [app attr_fields N.eqb Pos.eqb].
  - destruct (decode_u32_enc n Hn) as (x0 & r0 & E1 & E2). rewrite E1 in *. rewrite E2. reflexivity.
  - reflexivity.
  - destruct (decode_u32_enc n Hn) as (x0 & r0 & E1 & E2). rewrite E1 in *. rewrite E2. reflexivity.
  - reflexivity.
Qed.

Lemma byron_roundtrip crc b : wf_b crc b -> byron_populate crc (byron_bytes crc b) = Good b.
Proof.
  intros W. pose proof (byron_inner_enc _ _ W) as BI. pose proof (wf_inner _ _ W) as WI.
  destruct W as (Hh & Hhb & Hp & Hpl & Ht & Hn & Hlen & Hcrc).
  unfold byron_populate, byron_bytes. rewrite <- (app_nil_r (enc _)). rewrite parse_full_enc.
  - destruct (crc (byron_payload b) <? two32) eqn:E; [|lia]. cbn [negb is_nil N.eqb Pos.eqb].
    rewrite N.eqb_refl. cbn [negb]. exact BI.
  - apply CborLemmas.wf_arr. split; [cbn; lia|]. constructor; [|constructor; [|constructor]].
    + cbn [wf]. split; [cbn [fits]; lia|]. split.
      * unfold len_ok, mf_len. apply fits_min. exact Hlen.
      * unfold byron_payload. apply enc_bytes. exact WI.
    + cbn [wf]. apply fits_min. unfold two32, two64 in *. lia.
Qed.

Lemma byron_bytes_head crc b : exists r, byron_bytes crc b = 130 :: r.
Proof. unfold byron_bytes. cbn [enc]. unfold enc_head at 1. eexists. reflexivity. Qed.

(* ---------- text form ---------- *)
Lemma eqfold_refl s : eqfold s s = true.
Proof. unfold eqfold. apply String.eqb_refl. Qed.

Lemma known_not_byron ty net : ty < 16 -> net < 16 -> mem ty known_types = true ->
  (type_of (header_of ty net) =? ty_byron) = false.
Proof.
  intros Ht Hn K. destruct (hdr_of _ _ Ht Hn) as (_ & -> & _).
  destruct (kinds_spec _ Ht) as (K1 & _ & K3). rewrite K3. rewrite K1 in K.
  unfold spec_known in K. lia.
Qed.

Lemma populate_shelley_rt crc a : wf_addr a -> populate crc (to_bytes a) = Good (Shelley a).
Proof.
  intros W. unfold populate, to_bytes.
  pose proof W as (Ht & Kn & Nn & _).
  assert (Hn : a_net a < 16) by (destruct Nn as [E|E]; rewrite E; [change net_testnet with 0|change net_mainnet with 1]; lia).
  rewrite known_not_byron by assumption. rewrite roundtrip_encode by exact W. reflexivity.
Qed.

Section TextThms.
  Variable crc : bytes -> N.
  Variable bech32_dec : string -> b32res.
  Variable bech32_enc : string -> bytes -> string.
  Variable b58_dec : string -> bytes.
  Variable b58_enc : bytes -> string.
  Variable has_shelley_hrp : string -> bool.
  Hypothesis bech32_law : forall h d, bech32_dec (bech32_enc h d) = B32 h d.
  Hypothesis b58_law : forall d, b58_dec (b58_enc d) = d.

  Let new_address := new_address crc bech32_dec b58_dec has_shelley_hrp.
  Let to_string := to_string crc bech32_enc b58_enc.

  Lemma text_roundtrip_shelley a : wf_addr a -> new_address (to_string (Shelley a)) = Good (Shelley a).
  Proof.
    intros W. unfold new_address, to_string, Model.new_address, Model.to_string.
    rewrite bech32_law. unfold after_bech32. rewrite populate_shelley_rt by exact W.
    rewrite eqfold_refl. reflexivity.
  Qed.

  (* a text whose bech32 prefix does not match the address inside is never accepted *)
  Lemma text_prefix s h d x : bech32_dec s = B32 h d -> new_address s = Good x ->
    exists hb payload a, d = hb :: payload /\ x = Shelley a /\ shelley_populate hb payload = Good a /\
                         eqfold h (hrp a) = true /\ (hb < 256 -> hrp a = spec_hrp hb).
  Proof.
    intros B H. unfold new_address, Model.new_address in H. rewrite B in H. unfold after_bech32 in H.
    destruct (populate crc d) as [[a|b]|e] eqn:P; try discriminate.
    destruct (eqfold h (hrp a)) eqn:EF; [|discriminate]. inversion H; subst x.
    unfold populate in P. destruct d as [|hb payload]; [discriminate|].
    destruct (type_of hb =? ty_byron).
    - destruct (byron_populate crc (hb :: payload)); discriminate.
    - destruct (shelley_populate hb payload) as [a'|] eqn:SP; [|discriminate]. inversion P; subst a'.
      exists hb, payload, a. repeat split; auto. intros Hh. eapply hrp_fields; eauto.
  Qed.

  (* Byron: base58 text round trip (the base58 text must not also be valid bech32 / carry a Shelley prefix) *)
  Lemma text_roundtrip_byron b : wf_b crc b ->
    bech32_dec (to_string (Byron b)) = B32Bad -> has_shelley_hrp (to_string (Byron b)) = false ->
    new_address (to_string (Byron b)) = Good (Byron b).
  Proof.
    intros W B Hs. unfold new_address, Model.new_address. rewrite B, Hs.
    unfold to_string, Model.to_string. rewrite b58_law.
    destruct (byron_bytes_head crc b) as (r & E). rewrite E. cbn [is_nil].
    unfold populate. change (type_of 130 =? ty_byron) with true. cbv iota. rewrite <- E.
    rewrite byron_roundtrip by exact W. reflexivity.
  Qed.
End TextThms.

(* ---------- statements at the level of populate (= populateFromBytes) ---------- *)
Definition minimal_varints_bs (bs : bytes) : bool :=
  match bs with h :: p => minimal_varints h p | [] => true end.
Definition trailer_exempt (h : N) (rest : bytes) : bool := (spec_net h =? 1) && is_known_trailer rest.

Lemma populate_shelley_inv crc bs a : populate crc bs = Good (Shelley a) ->
  exists h p, bs = h :: p /\ shelley_populate h p = Good a.
Proof.
  unfold populate. destruct bs as [|h p]; [discriminate|].
  destruct (type_of h =? ty_byron).
  - destruct (byron_populate crc (h :: p)); discriminate.
  - destruct (shelley_populate h p) eqn:E; [|discriminate]. intros H; inversion H; subst. eauto.
Qed.

Lemma bytes_roundtrip crc bs a : all_bytes bs -> populate crc bs = Good (Shelley a) ->
  minimal_varints_bs bs = true -> to_bytes a = bs.
Proof.
  intros Hall H Hm. destruct (populate_shelley_inv _ _ _ H) as (h & p & -> & SP).
  inversion Hall; subst. apply roundtrip_decode; auto.
Qed.

Lemma populate_wf crc bs a : all_bytes bs -> populate crc bs = Good (Shelley a) -> wf_addr a.
Proof.
  intros Hall H. destruct (populate_shelley_inv _ _ _ H) as (h & p & -> & SP).
  inversion Hall; subst. eapply populate_inv in SP; [|assumption]. tauto.
Qed.

Definition hash_or_zero (o : option (bool * bytes)) : bytes := match o with Some (_, x) => x | None => zero_hash end.

Lemma fields_top crc h payload a : h < 256 -> populate crc (h :: payload) = Good (Shelley a) ->
  a_type a = h / 16 /\ a_net a = h mod 16 /\
  pay_view a = spec_payment (h / 16) payload /\ stake_view a = spec_stake (h / 16) payload /\
  payment_key_hash a = hash_or_zero (spec_payment (h / 16) payload) /\
  stake_key_hash a = hash_or_zero (spec_stake (h / 16) payload) /\
  hrp a = spec_hrp h.
Proof.
  intros Hh H. destruct (populate_shelley_inv _ _ _ H) as (h' & p' & E & SP). inversion E; subst h' p'.
  destruct (fields _ _ _ Hh SP) as (F1 & F2 & F3 & F4 & _).
  unfold spec_type, spec_net in F1, F2, F3, F4.
  repeat split; auto.
  - rewrite <- F3. unfold payment_key_hash, pay_view. destruct (a_pay a); reflexivity.
  - rewrite <- F4. unfold stake_key_hash, stake_view. destruct (a_stake a) as [[c|? ? ?]|]; reflexivity.
  - eapply hrp_fields; eauto.
Qed.

Lemma reject_partial crc h payload : h < 256 -> spec_type h <> 8 ->
  (spec_known (spec_type h) = false \/ 2 <= spec_net h \/ spec_rest (spec_type h) payload = None \/
   exists rest, spec_rest (spec_type h) payload = Some rest /\ rest <> [] /\ trailer_exempt h rest = false) ->
  exists e, populate crc (h :: payload) = Fail e.
Proof.
  intros Hh H8 Hbad. destruct (populate crc (h :: payload)) as [x|e] eqn:P; [|eauto]. exfalso.
  unfold populate in P. destruct (hdr_split h Hh) as [T1 _]. rewrite T1 in P.
  assert (Ht : spec_type h < 16) by (unfold spec_type; lia).
  destruct (kinds_spec _ Ht) as (_ & _ & K3). rewrite K3 in P.
  destruct (spec_type h =? 8) eqn:E8; [lia|].
  destruct (shelley_populate h payload) as [a|] eqn:SP; [|discriminate].
  destruct (populate_inv _ _ _ Hh SP) as (Ty & Ne & W & K & N2 & _).
  destruct (fields _ _ _ Hh SP) as (_ & _ & _ & _ & R).
  destruct Hbad as [B|[B|[B|(rest & B1 & B2 & B3)]]]; try congruence; try lia.
  rewrite R in B1. inversion B1; subst rest.
  destruct W as (_ & _ & _ & _ & _ & [We|[We1 We2]]); [contradiction|].
  unfold trailer_exempt in B3. rewrite <- Ne, We1, We2 in B3. discriminate.
Qed.
