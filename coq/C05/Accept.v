(* C05 - acceptance of raw address bytes as an IFF against an independent
   specification (`wf_bytes`), written from CIP-19 (header nibbles, exact
   lengths 57 / 29 / 29 + three base-128 varints), the Byron CDDL
   [#6.24(bytes .cbor [hash28, attributes, type]), crc32] stated over the CBOR
   syntax tree of Lib/Cbor (bytes = enc item), and cardano-multiplatform-lib's
   TRAILING_WHITELIST (the known finding, an explicit disjunct). *)
From Coq Require Import String.
From V Require Import Lib.Base Lib.Hex Lib.Cbor Lib.CborParse Lib.CborProofs
  C05.Gen C05.Model C05.Varint C05.Proofs C05.TextByron.
Local Open Scope N_scope.

(* ====================== the specification ====================== *)

(* one pointer component: bytes with the top bit set, closed by one without *)
Definition is_varint (p : bytes) : Prop :=
  exists body last, p = body ++ [last] /\ Forall (fun b => 128 <= b) body /\ last < 128.

(* cardano-multiplatform-lib TRAILING_WHITELIST (hex, not a copy of the Go table) *)
Local Open Scope string_scope.
Definition cml_whitelist : list bytes := [
  hx "cb57afb0b35fc89c63061c9914e055001a518c7516";
  hx "13d5f4a3fe0478b2241e0168e3cba5001a22c15a11";
  hx "00";
  hx "6a33306635616d6b776877716134777666796a64657a7961656c6d6e6e676436643465";
  hx "35616379327230656b7270717a716a6c71646b386c7a716e357234356e";
  hx "061d070c0d041b07020f0b0d0b0f020912051d1c100911040e1f0713110301000b101600";
  hx "126e7735333567367673703778376668787071327074736839676b72";
  hx "2c" ].
Local Close Scope string_scope.

Definition known_type (ty : N) : Prop := ty < 8 \/ ty = 14 \/ ty = 15.

(* the part of the address after the header byte that CIP-19 prescribes *)
Definition core_ok (ty : N) (core : bytes) : Prop :=
  if ty <? 4 then length core = 56%nat                           (* base: 57 bytes in all *)
  else if ty <? 6 then                                           (* pointer: 29 + three varints *)
    exists hsh p1 p2 p3, core = hsh ++ p1 ++ p2 ++ p3 /\ length hsh = 28%nat /\
                         is_varint p1 /\ is_varint p2 /\ is_varint p3
  else length core = 28%nat.                                     (* enterprise / reward: 29 bytes *)

(* nothing may follow - except (known finding) a whitelisted trailer on mainnet *)
Definition trailer_ok (net : N) (t : bytes) : Prop := t = [] \/ (net = 1 /\ In t cml_whitelist).

Definition wf_shelley (h : N) (payload : bytes) : Prop :=
  known_type (h / 16) /\ h mod 16 < 2 /\
  exists core t, payload = core ++ t /\ core_ok (h / 16) core /\ trailer_ok (h mod 16) t.

(* Byron attributes: at most one key 1 and one key 2 (either order), nothing
   else, byte-string values; a non-empty key-2 value starts with a CBOR
   unsigned integer below 2^32 *)
Definition is_kv (k : N) (v : bytes) (kv : item * item) : Prop := exists fk fv, kv = (UInt fk k, BStr fv v).
Definition net_raw_ok (w : bytes) : Prop :=
  w = [] \/ exists f n rest, w = enc (UInt f n) ++ rest /\ fits f n /\ n < 2 ^ 32.
Definition attrs_ok (kvs : list (item * item)) : Prop :=
  kvs = [] \/
  (exists x v, kvs = [x] /\ is_kv 1 v x) \/
  (exists y w, kvs = [y] /\ is_kv 2 w y /\ net_raw_ok w) \/
  (exists x y v w, (kvs = [x; y] \/ kvs = [y; x]) /\ is_kv 1 v x /\ is_kv 2 w y /\ net_raw_ok w).

Definition wf_byron_payload (payload : bytes) : Prop :=
  exists fi fh fm ft hash kvs ty,
    payload = enc (Arr fi [BStr fh hash; Map fm kvs; UInt ft ty]) /\
    wf (Arr fi [BStr fh hash; Map fm kvs; UInt ft ty]) /\
    length hash = 28%nat /\ attrs_ok kvs.

Definition wf_byron (crc : bytes -> N) (bs : bytes) : Prop :=
  exists fa ft fb fc payload,
    bs = enc (Arr fa [Tag ft 24 (BStr fb payload); UInt fc (crc payload)]) /\
    wf (Arr fa [Tag ft 24 (BStr fb payload); UInt fc (crc payload)]) /\
    crc payload < 2 ^ 32 /\ wf_byron_payload payload.

Definition wf_bytes (crc : bytes -> N) (bs : bytes) : Prop :=
  exists h payload, bs = h :: payload /\
    ((h / 16 = 8 /\ wf_byron crc bs) \/ wf_shelley h payload).

(* ====================== Shelley family ====================== *)

Lemma trailers_are_cml : known_trailers = cml_whitelist.
Proof. vm_compute. reflexivity. Qed.

Lemma known_trailer_in t : is_known_trailer t = true <-> In t cml_whitelist.
Proof.
  unfold is_known_trailer. rewrite <- trailers_are_cml, existsb_exists. split.
  - intros (x & Hin & E). apply bytes_eqb_eq in E. subst. exact Hin.
  - intros Hin. exists t. split; [exact Hin|]. apply bytes_eqb_eq. reflexivity.
Qed.

Lemma split_varint_iff d p r : split_varint d = Some (p, r) <-> d = p ++ r /\ is_varint p.
Proof.
  split.
  - intros H. split; [apply split_app; exact H|]. exact (split_shape _ _ _ H).
  - intros [-> (body & last & -> & Hb & Hl)]. rewrite <- app_assoc. cbn [app].
    apply split_of_shape; assumption.
Qed.

Lemma skip3_iff d r : skip3 d = Some r <->
  exists p1 p2 p3, d = p1 ++ p2 ++ p3 ++ r /\ is_varint p1 /\ is_varint p2 /\ is_varint p3.
Proof.
  unfold skip3. split.
  - destruct (split_varint d) as [[p1 r1]|] eqn:S1; [|discriminate].
    destruct (split_varint r1) as [[p2 r2]|] eqn:S2; [|discriminate].
    destruct (split_varint r2) as [[p3 r3]|] eqn:S3; [|discriminate].
    intros H; inversion H; subst r3.
    apply split_varint_iff in S1, S2, S3. destruct S1 as [-> V1], S2 as [-> V2], S3 as [-> V3].
    exists p1, p2, p3. auto.
  - intros (p1 & p2 & p3 & -> & V1 & V2 & V3).
    rewrite (proj2 (split_varint_iff (p1 ++ p2 ++ p3 ++ r) p1 (p2 ++ p3 ++ r)) (conj eq_refl V1)).
    rewrite (proj2 (split_varint_iff (p2 ++ p3 ++ r) p2 (p3 ++ r)) (conj eq_refl V2)).
    rewrite (proj2 (split_varint_iff (p3 ++ r) p3 r) (conj eq_refl V3)). reflexivity.
Qed.

Lemma skipn_exact_iff {A} (n : nat) (l t : list A) :
  ((if Nat.ltb (length l) n then None else Some (skipn n l)) = Some t) <->
  exists core, l = core ++ t /\ length core = n.
Proof.
  split.
  - destruct (Nat.ltb (length l) n) eqn:E; [discriminate|]. intros H; inversion H; subst t.
    apply Nat.ltb_ge in E. exists (firstn n l). split; [symmetry; apply firstn_skipn|].
    apply firstn_length_le. exact E.
  - intros (core & -> & L). rewrite app_length.
    destruct (Nat.ltb (length core + length t) n) eqn:E; [apply Nat.ltb_lt in E; lia|].
    rewrite skipn_app_exact by exact L. reflexivity.
Qed.

(* the positional spec_rest of Proofs.v is the existential length specification *)
Lemma spec_rest_iff ty payload t : known_type ty ->
  (spec_rest ty payload = Some t <-> exists core, payload = core ++ t /\ core_ok ty core).
Proof.
  intros K. unfold spec_rest, core_ok.
  destruct (ty <? 4) eqn:E4; [apply skipn_exact_iff|].
  destruct (ty <? 6) eqn:E6.
  - assert (E45 : (ty =? 4) || (ty =? 5) = true) by lia. rewrite E45. split.
    + destruct (Nat.ltb (length payload) 28) eqn:EL; [discriminate|]. intros H.
      apply skip3_iff in H. destruct H as (p1 & p2 & p3 & H & V1 & V2 & V3).
      apply Nat.ltb_ge in EL.
      exists (firstn 28 payload ++ p1 ++ p2 ++ p3). split.
      * rewrite <- !app_assoc. rewrite <- H. symmetry. apply firstn_skipn.
      * exists (firstn 28 payload), p1, p2, p3. repeat split; auto. apply firstn_length_le. exact EL.
    + intros (core & -> & hsh & p1 & p2 & p3 & -> & L & V1 & V2 & V3).
      rewrite !app_length.
      destruct (Nat.ltb _ 28) eqn:EL; [apply Nat.ltb_lt in EL; lia|].
      rewrite <- !app_assoc. rewrite skipn_app_exact by exact L.
      apply skip3_iff. exists p1, p2, p3. auto.
  - assert (E45 : (ty =? 4) || (ty =? 5) = false) by lia. rewrite E45. apply skipn_exact_iff.
Qed.

Lemma skipn_add {A} (n m : nat) : forall l : list A, skipn n (skipn m l) = skipn (m + n) l.
Proof.
  induction m as [|m IH]; intros l; [reflexivity|].
  destruct l as [|x l]; [cbn; destruct n; reflexivity|]. cbn [skipn Nat.add]. apply IH.
Qed.

Lemma take_hash_ge p : (28 <= length p)%nat -> take_hash p = Some (firstn 28 p, skipn 28 p).
Proof.
  intros L. unfold take_hash. change hash_size with 28%nat.
  destruct (Nat.ltb (length p) 28) eqn:E; [apply Nat.ltb_lt in E; lia|reflexivity].
Qed.

Lemma decode_pointer_of_skip3 p r : skip3 p = Some r -> exists s, decode_pointer p = Some (s, r).
Proof.
  unfold decode_pointer, skip3. rewrite read_split.
  destruct (split_varint p) as [[p1 r1]|]; [|discriminate]. rewrite read_split.
  destruct (split_varint r1) as [[p2 r2]|]; [|discriminate]. rewrite read_split.
  destruct (split_varint r2) as [[p3 r3]|]; [|discriminate].
  intros H; inversion H; subst. eauto.
Qed.

Lemma opt_skipn_inv {A} (n : nat) (l t : list A) :
  (if Nat.ltb (length l) n then None else Some (skipn n l)) = Some t -> (n <= length l)%nat /\ t = skipn n l.
Proof. destruct (Nat.ltb (length l) n) eqn:E; [discriminate|]. apply Nat.ltb_ge in E. intros H. split; [exact E|congruence]. Qed.
Lemma spec_rest_base ty payload t : ty <? 4 = true -> spec_rest ty payload = Some t ->
  (56 <= length payload)%nat /\ t = skipn 56 payload.
Proof. unfold spec_rest. intros ->. apply opt_skipn_inv. Qed.
Lemma spec_rest_ptr ty payload t : ty <? 4 = false -> (ty =? 4) || (ty =? 5) = true -> spec_rest ty payload = Some t ->
  (28 <= length payload)%nat /\ skip3 (skipn 28 payload) = Some t.
Proof.
  unfold spec_rest. intros -> ->. destruct (Nat.ltb (length payload) 28) eqn:E; [discriminate|].
  apply Nat.ltb_ge in E. auto.
Qed.
Lemma spec_rest_single ty payload t : ty <? 4 = false -> (ty =? 4) || (ty =? 5) = false -> spec_rest ty payload = Some t ->
  (28 <= length payload)%nat /\ t = skipn 28 payload.
Proof. unfold spec_rest. intros -> ->. apply opt_skipn_inv. Qed.

Ltac eval_kinds :=
  repeat match goal with
  | |- context [pay_kind ?k] => let v := eval vm_compute in (pay_kind k) in change (pay_kind k) with v
  | |- context [stake_kind ?k] => let v := eval vm_compute in (stake_kind k) in change (stake_kind k) with v
  end; cbv beta match.

(* completeness of the Shelley-family branch *)
Lemma shelley_complete h payload t : h < 256 -> spec_known (spec_type h) = true -> spec_net h < 2 ->
  spec_rest (spec_type h) payload = Some t -> wf_extra (spec_net h) t ->
  exists a, shelley_populate h payload = Good a.
Proof.
  intros Hh K N2 R We. unfold shelley_populate. destruct (hdr_split h Hh) as [-> ->].
  assert (Ht : spec_type h < 16) by (unfold spec_type; lia).
  destruct (kinds_spec _ Ht) as (K1 & _ & _). rewrite K1, K.
  assert (EN : (spec_net h =? net_testnet) || (spec_net h =? net_mainnet) = true).
  { change net_testnet with 0. change net_mainnet with 1. lia. }
  rewrite EN. cbn [negb]. apply trailer_step_fwd in We.
  unfold pay_step, stake_step.
  destruct (known_cases _ Ht K) as [E|[E|[E|[E|[E|[E|[E|[E|[E|E]]]]]]]]]; rewrite E in *; eval_kinds.
  (* base addresses: two hashes *)
  1-4: match type of R with spec_rest ?k _ = _ => destruct (spec_rest_base k _ _ eq_refl R) as [EL ->] end;
       rewrite take_hash_ge by lia; cbv beta match;
       rewrite take_hash_ge by (rewrite skipn_length; lia); cbv beta match;
       rewrite skipn_add; change (28 + 28)%nat with 56%nat; rewrite We; eauto.
  (* pointer addresses *)
  1-2: match type of R with spec_rest ?k _ = _ => destruct (spec_rest_ptr k _ _ eq_refl eq_refl R) as [EL R'] end;
       rewrite take_hash_ge by lia; cbv beta match;
       destruct (decode_pointer_of_skip3 _ _ R') as (s & ->); cbv beta match; rewrite We; eauto.
  (* enterprise and reward *)
  1-4: match type of R with spec_rest ?k _ = _ => destruct (spec_rest_single k _ _ eq_refl eq_refl R) as [EL ->] end;
       rewrite take_hash_ge by lia; cbv beta match; rewrite We; eauto.
Qed.

Lemma known_type_spec ty : ty < 16 -> (spec_known ty = true <-> known_type ty).
Proof. unfold spec_known, known_type. intros. lia. Qed.

Lemma shelley_accept_iff h payload : h < 256 ->
  ((exists a, shelley_populate h payload = Good a) <-> wf_shelley h payload).
Proof.
  intros Hh. assert (Ht : spec_type h < 16) by (unfold spec_type; lia).
  unfold wf_shelley. fold (spec_type h). fold (spec_net h). split.
  - intros (a & SP).
    destruct (populate_inv _ _ _ Hh SP) as (Ty & Ne & W & K & N2 & _).
    destruct (fields _ _ _ Hh SP) as (_ & _ & _ & _ & R).
    apply known_type_spec in K; [|exact Ht]. split; [exact K|]. split; [exact N2|].
    apply (spec_rest_iff _ _ _ K) in R. destruct R as (core & P & C).
    exists core, (a_extra a). split; [exact P|]. split; [exact C|].
    destruct W as (_ & _ & _ & _ & _ & [We|[We1 We2]]); [left; exact We|right].
    rewrite <- Ne. split; [exact We1|]. apply known_trailer_in. exact We2.
  - intros (K & N2 & core & t & P & C & T).
    assert (R : spec_rest (spec_type h) payload = Some t) by (apply (spec_rest_iff _ _ _ K); eauto).
    apply known_type_spec in K; [|exact Ht].
    eapply shelley_complete; eauto.
    destruct T as [->|[T1 T2]]; [left; reflexivity|right]. split; [exact T1|]. apply known_trailer_in. exact T2.
Qed.

(* ====================== Byron ====================== *)

Lemma fits_lt64 f n : fits f n -> n < two64.
Proof. unfold two64. destruct f; cbn [fits]; intros H; try (change (2 ^ 8) with 256 in H); try (change (2 ^ 16) with 65536 in H);
  try (change (2 ^ 32) with 4294967296 in H); try (change (2 ^ 64) with 18446744073709551616 in H); lia. Qed.

(* one step of the attribute-map decoder *)
Lemma attr_fields_cons kv r p n res : attr_fields (kv :: r) p n = Some res ->
  exists fk k fv v, kv = (UInt fk k, BStr fv v) /\
    ((k = 1 /\ p = None /\ attr_fields r (Some v) n = Some res) \/
     (k = 2 /\ n = None /\ attr_fields r p (Some v) = Some res)).
Proof.
  cbn [attr_fields]. destruct kv as [ki vi]. destruct ki as [fk k| | | | | | | | | |]; try discriminate.
  destruct vi as [|  |fv v| | | | | | | |]; try discriminate.
  intros H. exists fk, k, fv, v. split; [reflexivity|].
  destruct (k =? 1) eqn:E1.
  - apply N.eqb_eq in E1. destruct p; [discriminate|]. left. auto.
  - destruct (k =? 2) eqn:E2; [|discriminate]. apply N.eqb_eq in E2. destruct n; [discriminate|]. right. auto.
Qed.

(* what the code requires of the network attribute *)
Definition net_ok (n : option bytes) : Prop :=
  match n with Some ((_ :: _) as raw) => decode_u32 raw <> None | _ => True end.

Lemma net_ok_spec w : all_bytes w -> (net_ok (Some w) <-> net_raw_ok w).
Proof.
  intros Hw. unfold net_ok, net_raw_ok. destruct w as [|x w]; [split; auto|]. unfold decode_u32. split.
  - intros H. right. destruct (parse_full (x :: w)) as [i rest| |] eqn:P; try congruence.
    destruct i as [f n| | | | | | | | | |]; try congruence.
    destruct (n <? two32) eqn:E; [|congruence].
    destruct (parse_full_sound _ _ _ Hw P) as [E1 W]. exists f, n, rest. repeat split; auto.
    unfold two32 in E. change (2 ^ 32) with 4294967296. lia.
  - intros [H|(f & n & rest & E & Hf & Hn)]; [discriminate|]. rewrite E.
    rewrite parse_full_enc by exact Hf. change (2 ^ 32) with two32 in Hn.
    destruct (n <? two32) eqn:E2; [discriminate|lia].
Qed.

Lemma attrs_complete kvs : attrs_ok kvs -> exists p n, attr_fields kvs None None = Some (p, n) /\ (forall w, n = Some w -> net_raw_ok w).
Proof.
  intros [->|[(x & v & -> & fk & fv & ->)|[(y & w & -> & (fk & fv & ->) & Hw)|
          (x & y & v & w & Hk & (fk & fv & ->) & (fk' & fv' & ->) & Hw)]]].
  - exists None, None. split; [reflexivity|discriminate].
  - exists (Some v), None. split; [reflexivity|discriminate].
  - exists None, (Some w). split; [reflexivity|]. intros w' E; inversion E; subst; exact Hw.
  - exists (Some v), (Some w). split; [destruct Hk as [->| ->]; reflexivity|]. intros w' E; inversion E; subst; exact Hw.
Qed.

Lemma attrs_sound kvs p n : attr_fields kvs None None = Some (p, n) -> (forall w, n = Some w -> net_raw_ok w) -> attrs_ok kvs.
Proof.
  intros H Hn. unfold attrs_ok. destruct kvs as [|kv1 r1]; [left; reflexivity|right].
  destruct (attr_fields_cons _ _ _ _ _ H) as (fk & k & fv & v & -> & [(-> & _ & H1)|(-> & _ & H1)]).
  - (* key 1 first *)
    destruct r1 as [|kv2 r2].
    + left. exists (UInt fk 1, BStr fv v), v. split; [reflexivity|]. exists fk, fv. reflexivity.
    + right. right.
      destruct (attr_fields_cons _ _ _ _ _ H1) as (fk2 & k2 & fv2 & v2 & -> & [(-> & D & _)|(-> & _ & H2)]); [discriminate|].
      destruct r2 as [|kv3 r3].
      * cbn [attr_fields] in H2. inversion H2; subst p n.
        exists (UInt fk 1, BStr fv v), (UInt fk2 2, BStr fv2 v2), v, v2.
        split; [left; reflexivity|]. split; [exists fk, fv; reflexivity|]. split; [exists fk2, fv2; reflexivity|].
        apply Hn. reflexivity.
      * destruct (attr_fields_cons _ _ _ _ _ H2) as (? & ? & ? & ? & _ & [(_ & D & _)|(_ & D & _)]); discriminate.
  - (* key 2 first *)
    destruct r1 as [|kv2 r2].
    + right. left. cbn [attr_fields] in H1. inversion H1; subst p n.
      exists (UInt fk 2, BStr fv v), v. split; [reflexivity|]. split; [exists fk, fv; reflexivity|]. apply Hn. reflexivity.
    + right. right.
      destruct (attr_fields_cons _ _ _ _ _ H1) as (fk2 & k2 & fv2 & v2 & -> & [(-> & _ & H2)|(-> & D & _)]); [|discriminate].
      destruct r2 as [|kv3 r3].
      * cbn [attr_fields] in H2. inversion H2; subst p n.
        exists (UInt fk2 1, BStr fv2 v2), (UInt fk 2, BStr fv v), v2, v.
        split; [right; reflexivity|]. split; [exists fk2, fv2; reflexivity|]. split; [exists fk, fv; reflexivity|].
        apply Hn. reflexivity.
      * destruct (attr_fields_cons _ _ _ _ _ H2) as (? & ? & ? & ? & _ & [(_ & D & _)|(_ & D & _)]); discriminate.
Qed.

(* every value collected by attr_fields is a value of the map *)
Lemma attr_fields_net_in kvs : forall p n p' w, attr_fields kvs p n = Some (p', Some w) ->
  n = Some w \/ exists k f, In (k, BStr f w) kvs.
Proof.
  induction kvs as [|kv r IH]; intros p n p' w H.
  - cbn [attr_fields] in H. inversion H; subst. left. reflexivity.
  - destruct (attr_fields_cons _ _ _ _ _ H) as (fk & k & fv & v & -> & [(-> & -> & H1)|(-> & -> & H1)]).
    + destruct (IH _ _ _ _ H1) as [E|(k' & f' & Hin)]; [left; exact E|right; exists k', f'; right; exact Hin].
    + destruct (IH _ _ _ _ H1) as [E|(k' & f' & Hin)].
      * inversion E; subst. right. exists (UInt fk 2), fv. left. reflexivity.
      * right. exists k', f'. right. exact Hin.
Qed.

Lemma wf_map_value fm kvs k f w : wf (Map fm kvs) -> In (k, BStr f w) kvs -> all_bytes w.
Proof.
  intros [_ W] Hin. induction kvs as [|[k0 v0] r IH]; [destruct Hin|].
  destruct W as (_ & Wv & Wr). destruct Hin as [E|Hin]; [|apply IH; assumption].
  inversion E; subst. destruct Wv as [_ Hb]. exact Hb.
Qed.

(* the inner item [hash, attributes, type] *)
Lemma byron_inner_accept_iff payload : all_bytes payload ->
  ((exists b, byron_inner payload = Good b) <-> wf_byron_payload payload).
Proof.
  intros Hall. unfold wf_byron_payload. split.
  - intros (b & H). unfold byron_inner in H.
    destruct (parse_full payload) as [i rest| |] eqn:P; try discriminate.
    repeat match type of H with
    | match ?x with _ => _ end = Good _ => is_var x; destruct x; try discriminate H
    end.
    match type of P with _ = Ok (Arr ?a [BStr ?b ?c; Map ?d ?e; UInt ?f ?g]) ?r =>
      rename a into fi, b into fh, c into hash, d into fm, e into kvs, f into ft, g into ty, r into rest end.
    destruct rest as [|? ?]; [|discriminate]. cbn [is_nil negb] in H.
    destruct (ty <? two64) eqn:E64; [|discriminate]. cbn [negb] in H.
    destruct (attr_fields kvs None None) as [[p n]|] eqn:AF; [|discriminate].
    destruct (parse_full_sound _ _ _ Hall P) as [E W]. rewrite app_nil_r in E.
    exists fi, fh, fm, ft, hash, kvs, ty. split; [exact E|]. split; [exact W|].
    assert (WM : wf (Map fm kvs)).
    { apply CborLemmas.wf_arr in W. destruct W as [_ W]. inversion W as [|? ? _ W2]; subst. inversion W2; subst. assumption. }
    assert (NB : forall w, n = Some w -> all_bytes w).
    { intros w ->. destruct (attr_fields_net_in _ _ _ _ _ AF) as [D|(k & f & Hin)]; [discriminate|].
      eapply wf_map_value; eauto. }
    assert (L : length hash = 28%nat /\ net_ok n).
    { unfold net_ok. change hash_size with 28%nat in H. destruct n as [[|x raw]|].
      - destruct (Nat.eqb (length hash) 28) eqn:EL; [|discriminate]. apply Nat.eqb_eq in EL. auto.
      - destruct (decode_u32 (x :: raw)) eqn:D; [|discriminate].
        destruct (Nat.eqb (length hash) 28) eqn:EL; [|discriminate]. apply Nat.eqb_eq in EL. split; [exact EL|congruence].
      - destruct (Nat.eqb (length hash) 28) eqn:EL; [|discriminate]. apply Nat.eqb_eq in EL. auto. }
    destruct L as [L NO]. split; [exact L|].
    eapply attrs_sound; [exact AF|]. intros w ->. apply net_ok_spec; [apply NB; reflexivity|exact NO].
  - intros (fi & fh & fm & ft & hash & kvs & ty & E & W & L & A).
    destruct (attrs_complete _ A) as (p & n & AF & NO).
    assert (WM : wf (Map fm kvs)).
    { apply CborLemmas.wf_arr in W. destruct W as [_ W]. inversion W as [|? ? _ W2]; subst. inversion W2; subst. assumption. }
    assert (T64 : ty < two64).
    { apply CborLemmas.wf_arr in W. destruct W as [_ W]. inversion W as [|? ? _ W2]; subst. inversion W2 as [|? ? _ W3]; subst.
      inversion W3 as [|? ? W4 _]; subst. cbn [wf] in W4. eapply fits_lt64; eauto. }
    unfold byron_inner. rewrite E. rewrite <- (app_nil_r (enc _)). rewrite parse_full_enc by exact W.
    cbn [is_nil negb]. destruct (ty <? two64) eqn:E64; [|lia]. cbn [negb]. rewrite AF.
    change hash_size with 28%nat. rewrite L, Nat.eqb_refl.
    destruct n as [[|x raw]|]; eauto.
    assert (NB : all_bytes (x :: raw)).
    { destruct (attr_fields_net_in _ _ _ _ _ AF) as [D|(k & f & Hin)]; [discriminate|]. eapply wf_map_value; eauto. }
    pose proof (proj2 (net_ok_spec _ NB) (NO _ eq_refl)) as NK. unfold net_ok in NK.
    destruct (decode_u32 (x :: raw)); [eauto|congruence].
Qed.

(* the outer item [#6.24(payload), crc32 payload] *)
Lemma byron_accept_iff crc data : all_bytes data ->
  ((exists b, byron_populate crc data = Good b) <-> wf_byron crc data).
Proof.
  intros Hall. unfold wf_byron. split.
  - intros (b & H). destruct (byron_populate_inv _ _ _ H) as (fa & ft & fb & fc & payload & P & BI).
    destruct (parse_full_sound _ _ _ Hall P) as [E W]. rewrite app_nil_r in E.
    exists fa, ft, fb, fc, payload. split; [exact E|]. split; [exact W|].
    assert (PB : all_bytes payload).
    { apply CborLemmas.wf_arr in W. destruct W as [_ W]. inversion W as [|? ? W1 _]; subst.
      destruct W1 as [_ [_ Hb]]. exact Hb. }
    split.
    + unfold byron_populate in H. rewrite P in H.
      destruct (crc payload <? two32) eqn:E32; [|discriminate]. unfold two32 in E32. change (2 ^ 32) with 4294967296. lia.
    + apply byron_inner_accept_iff; eauto.
  - intros (fa & ft & fb & fc & payload & E & W & C32 & BP).
    assert (PB : all_bytes payload).
    { apply CborLemmas.wf_arr in W. destruct W as [_ W]. inversion W as [|? ? W1 _]; subst.
      destruct W1 as [_ [_ Hb]]. exact Hb. }
    apply (byron_inner_accept_iff _ PB) in BP. destruct BP as (b & BI). exists b.
    unfold byron_populate. rewrite E. rewrite <- (app_nil_r (enc _)). rewrite parse_full_enc by exact W.
    change (2 ^ 32) with two32 in C32. destruct (crc payload <? two32) eqn:E32; [|lia].
    cbn [negb is_nil]. rewrite !N.eqb_refl. cbn [negb]. exact BI.
Qed.

(* ====================== the whole of populateFromBytes ====================== *)

Theorem accept_iff crc bs : all_bytes bs -> ((exists a, populate crc bs = Good a) <-> wf_bytes crc bs).
Proof.
  intros Hall. unfold wf_bytes, populate. destruct bs as [|h payload].
  { split; [intros (a & H); discriminate|intros (h & p & E & _); discriminate]. }
  assert (Hh : h < 256) by (inversion Hall; assumption).
  assert (Ht : spec_type h < 16) by (unfold spec_type; lia).
  destruct (hdr_split h Hh) as [T1 _]. destruct (kinds_spec _ Ht) as (_ & _ & K3).
  rewrite T1, K3. unfold spec_type in *.
  destruct (h / 16 =? 8) eqn:E8.
  - apply N.eqb_eq in E8. split.
    + intros (a & H). exists h, payload. split; [reflexivity|]. left. split; [exact E8|].
      apply byron_accept_iff; [exact Hall|].
      destruct (byron_populate crc (h :: payload)) as [b|]; [eauto|discriminate].
    + intros (h' & p' & E & [[_ B]|(K & _)]); inversion E; subst h' p'.
      * apply byron_accept_iff in B; [|exact Hall]. destruct B as (b & ->). eauto.
      * unfold known_type in K. lia.
  - apply N.eqb_neq in E8. split.
    + intros (a & H). exists h, payload. split; [reflexivity|]. right.
      apply shelley_accept_iff; [exact Hh|].
      destruct (shelley_populate h payload) as [s|]; [eauto|discriminate].
    + intros (h' & p' & E & [[D _]|S]); inversion E; subst h' p'; [contradiction|].
      apply shelley_accept_iff in S; [|exact Hh]. destruct S as (s & ->). eauto.
Qed.

Corollary reject_iff crc bs : all_bytes bs -> ((exists e, populate crc bs = Fail e) <-> ~ wf_bytes crc bs).
Proof.
  intros Hall. pose proof (accept_iff crc bs Hall) as A. split.
  - intros (e & H) W. apply A in W. destruct W as (a & G). congruence.
  - intros NW. destruct (populate crc bs) as [a|e] eqn:P; [|eauto]. exfalso. apply NW, A. eauto.
Qed.

(* exact lengths of an accepted testnet address *)
Lemma accept_lengths crc h payload a : all_bytes (h :: payload) ->
  populate crc (h :: payload) = Good (Shelley a) -> h mod 16 = 0 ->
  (h / 16 < 4 -> length payload = 56%nat) /\
  (6 <= h / 16 -> length payload = 28%nat) /\
  (h / 16 = 4 \/ h / 16 = 5 -> exists hsh p1 p2 p3, payload = hsh ++ p1 ++ p2 ++ p3 /\ length hsh = 28%nat /\
                                 is_varint p1 /\ is_varint p2 /\ is_varint p3).
Proof.
  intros Hall H N0.
  assert (W : wf_bytes crc (h :: payload)) by (apply accept_iff; eauto).
  destruct W as (h' & p' & E & [[E8 B]|(K & _ & core & t & P & C & T)]); inversion E; subst h' p'.
  - exfalso. apply byron_accept_iff in B; [|exact Hall]. destruct B as (b & B).
    unfold populate in H. inversion Hall as [|? ? Hh _]; subst.
    assert (Ht : spec_type h < 16) by (unfold spec_type; lia).
    destruct (hdr_split h Hh) as [T1 _]. destruct (kinds_spec _ Ht) as (_ & _ & K3).
    rewrite T1, K3 in H. unfold spec_type in H. rewrite E8 in H. cbn [N.eqb Pos.eqb] in H. rewrite B in H. discriminate.
  - subst payload. destruct T as [->|[T1 _]]; [|lia]. rewrite app_nil_r. unfold core_ok in C. unfold known_type in K.
    repeat split.
    + intros L4. destruct (h / 16 <? 4) eqn:E4; [exact C|lia].
    + intros L6. destruct (h / 16 <? 4) eqn:E4; [lia|]. destruct (h / 16 <? 6) eqn:E6; [lia|exact C].
    + intros L45. destruct (h / 16 <? 4) eqn:E4; [lia|]. destruct (h / 16 <? 6) eqn:E6; [exact C|lia].
Qed.
