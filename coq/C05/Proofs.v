(* C05 - Shelley-family addresses: spec (CIP-19, positional) and lemmas. *)
From Coq Require Import String.
From V Require Import Lib.Base C05.Gen C05.Model C05.Varint.
Local Open Scope N_scope.

(* ---------- exhaustive checks over small domains ---------- *)
Definition below (n : nat) : list N := map N.of_nat (seq 0 n).
Lemma forall_below n (P : N -> bool) : forallb P (below n) = true -> forall h, h < N.of_nat n -> P h = true.
Proof.
  intros H h Hh. rewrite forallb_forall in H. apply H. unfold below.
  rewrite in_map_iff. exists (N.to_nat h). split; [lia|]. apply in_seq. lia.
Qed.

(* ---------- the specification (CIP-19), independent of the model ---------- *)
(* header byte: type in the high nibble, network in the low nibble *)
Definition spec_type (h : N) : N := h / 16.
Definition spec_net (h : N) : N := h mod 16.
Definition spec_known (ty : N) : bool := (ty <? 8) || ((14 <=? ty) && (ty <? 16)).
(* payment credential: types 0..7, bytes [1,29) of the address; script iff bit 0 of the type *)
Definition spec_payment (ty : N) (payload : bytes) : option (bool * bytes) :=
  if ty <? 8 then Some (N.odd ty, firstn 28 payload) else None.
(* stake credential: types 0..3 bytes [29,57), script iff bit 1; types 14/15 bytes [1,29), script iff bit 0 *)
Definition spec_stake (ty : N) (payload : bytes) : option (bool * bytes) :=
  if ty <? 4 then Some (N.testbit ty 1, firstn 28 (skipn 28 payload))
  else if 14 <=? ty then Some (N.odd ty, firstn 28 payload) else None.
Definition skip3 (d : bytes) : option bytes :=
  match split_varint d with None => None | Some (_, r1) =>
  match split_varint r1 with None => None | Some (_, r2) =>
  match split_varint r2 with None => None | Some (_, r3) => Some r3 end end end.
(* what follows the exact CIP-19 length (None: too short / pointer unterminated) *)
Definition spec_rest (ty : N) (payload : bytes) : option bytes :=
  if ty <? 4 then (if Nat.ltb (length payload) 56 then None else Some (skipn 56 payload))
  else if (ty =? 4) || (ty =? 5) then (if Nat.ltb (length payload) 28 then None else skip3 (skipn 28 payload))
  else (if Nat.ltb (length payload) 28 then None else Some (skipn 28 payload)).
Definition min3 (d : bytes) : bool :=
  match split_varint d with None => false | Some (p1, r1) => min_varint p1 &&
  match split_varint r1 with None => false | Some (p2, r2) => min_varint p2 &&
  match split_varint r2 with None => false | Some (p3, _) => min_varint p3 end end end.
Definition minimal_varints (h : N) (payload : bytes) : bool :=
  if (spec_type h =? 4) || (spec_type h =? 5) then min3 (skipn 28 payload) else true.
Local Open Scope string_scope.
Definition spec_hrp (h : N) : string :=
  (if (14 <=? spec_type h)%N then "stake" else "addr") ++ (if (spec_net h =? 1)%N then "" else "_test").
Local Close Scope string_scope.

(* ---------- header facts (exhaustive over the 256 header bytes; depend on Gen masks) ---------- *)
Lemma hdr_split h : h < 256 -> type_of h = spec_type h /\ net_of h = spec_net h.
Proof.
  intros Hh.
  pose proof (forall_below 256 (fun h => (type_of h =? spec_type h) && (net_of h =? spec_net h))
                eq_refl h Hh) as H. cbn beta in H.
  apply andb_true_iff in H. destruct H as [H1 H2]. apply N.eqb_eq in H1, H2. auto.
Qed.

Lemma hdr_join h : h < 256 -> header_of (type_of h) (net_of h) = h.
Proof.
  intros Hh. pose proof (forall_below 256 (fun h => header_of (type_of h) (net_of h) =? h) eq_refl h Hh) as H.
  apply N.eqb_eq in H. exact H.
Qed.

Lemma hdr_of ty net : ty < 16 -> net < 16 ->
  header_of ty net = ty * 16 + net /\ type_of (header_of ty net) = ty /\ net_of (header_of ty net) = net.
Proof.
  intros Ht Hn.
  pose proof (forall_below 256 (fun x => let ty := x / 16 in let net := x mod 16 in
      (header_of ty net =? x) && (type_of (header_of ty net) =? ty) && (net_of (header_of ty net) =? net))
      eq_refl (ty * 16 + net) ltac:(lia)) as H. cbn beta zeta in H.
  replace ((ty * 16 + net) / 16) with ty in H by lia.
  replace ((ty * 16 + net) mod 16) with net in H by lia.
  apply andb_true_iff in H. destruct H as [H H3]. apply andb_true_iff in H. destruct H as [H1 H2].
  apply N.eqb_eq in H1, H2, H3. auto.
Qed.

(* the switch statements against the CIP-19 table (exhaustive over the 16 types) *)
Definition pk_code (k : pkind) : N := match k with PK => 0 | PS => 1 | PN => 2 end.
Definition sk_code (k : skind) : N := match k with SK => 0 | SS => 1 | SP => 2 | SN => 3 end.
Definition spec_pk (ty : N) : N := if ty <? 8 then (if N.odd ty then 1 else 0) else 2.
Definition spec_sk (ty : N) : N :=
  if ty <? 4 then (if N.testbit ty 1 then 1 else 0) else if ty <? 6 then 2 else if ty <? 14 then 3
  else if N.odd ty then 1 else 0.
Lemma kinds_spec ty : ty < 16 ->
  mem ty known_types = spec_known ty /\
  (spec_known ty = true -> pk_code (pay_kind ty) = spec_pk ty /\ sk_code (stake_kind ty) = spec_sk ty) /\
  (ty =? ty_byron) = (ty =? 8).
Proof.
  intros Ht.
  pose proof (forall_below 16 (fun ty => Bool.eqb (mem ty known_types) (spec_known ty) &&
     (negb (spec_known ty) || ((pk_code (pay_kind ty) =? spec_pk ty) && (sk_code (stake_kind ty) =? spec_sk ty)))
     && Bool.eqb (ty =? ty_byron) (ty =? 8)) eq_refl ty Ht) as H. cbn beta in H.
  apply andb_true_iff in H. destruct H as [H H3]. apply andb_true_iff in H. destruct H as [H1 H2].
  apply eqb_prop in H1, H3. repeat split; auto.
  - destruct (spec_known ty); [|discriminate]. cbn in H2. apply andb_true_iff in H2. destruct H2 as [H2 _].
    apply N.eqb_eq in H2. exact H2.
  - destruct (spec_known ty); [|discriminate]. cbn in H2. apply andb_true_iff in H2. destruct H2 as [_ H2].
    apply N.eqb_eq in H2. exact H2.
Qed.

Lemma known_cases ty : ty < 16 -> spec_known ty = true ->
  ty = 0 \/ ty = 1 \/ ty = 2 \/ ty = 3 \/ ty = 4 \/ ty = 5 \/ ty = 6 \/ ty = 7 \/ ty = 14 \/ ty = 15.
Proof. unfold spec_known. intros. lia. Qed.

(* ---------- well-formed decoded addresses ---------- *)
Definition wf_pay (ty : N) (p : option cred) : Prop :=
  match pay_kind ty, p with
  | PK, Some (KeyH h) | PS, Some (ScriptH h) => length h = hash_size
  | PN, None => True
  | _, _ => False
  end.
Definition wf_stake (ty : N) (s : option stakep) : Prop :=
  match stake_kind ty, s with
  | SK, Some (SCred (KeyH h)) | SS, Some (SCred (ScriptH h)) => length h = hash_size
  | SP, Some (SPtr s t c) => s < two64 /\ t < two64 /\ c < two64
  | SN, None => True
  | _, _ => False
  end.
Definition wf_extra (net : N) (e : bytes) : Prop := e = [] \/ (net = net_mainnet /\ is_known_trailer e = true).
Definition wf_addr (a : addr) : Prop :=
  a_type a < 16 /\ mem (a_type a) known_types = true /\ (a_net a = net_testnet \/ a_net a = net_mainnet) /\
  wf_pay (a_type a) (a_pay a) /\ wf_stake (a_type a) (a_stake a) /\ wf_extra (a_net a) (a_extra a).

(* ---------- the three steps ---------- *)
Lemma take_hash_inv p h r : take_hash p = Some (h, r) -> p = h ++ r /\ length h = hash_size.
Proof.
  unfold take_hash. destruct (Nat.ltb (length p) hash_size) eqn:E; [discriminate|].
  revert E. generalize hash_size. intros n E H. injection H as <- <-. split; [symmetry; apply firstn_skipn|].
  apply Nat.ltb_ge in E. apply firstn_length_le. exact E.
Qed.
Lemma take_hash_app h r : length h = hash_size -> take_hash (h ++ r) = Some (h, r).
Proof.
  intros L. unfold take_hash. rewrite app_length.
  destruct (Nat.ltb (length h + length r) hash_size) eqn:E; [apply Nat.ltb_lt in E; lia|].
  rewrite <- L. rewrite firstn_app, Nat.sub_diag, firstn_all, skipn_app, Nat.sub_diag, skipn_all. cbn.
  rewrite app_nil_r. reflexivity.
Qed.

Lemma pay_step_inv ty p pay r : pay_step ty p = Good (pay, r) ->
  wf_pay ty pay /\ p = opt_bytes cred_bytes pay ++ r.
Proof.
  unfold pay_step, wf_pay. destruct (pay_kind ty).
  - destruct (take_hash p) as [[h r']|] eqn:E; [|discriminate]. intros H; inversion H; subst.
    apply take_hash_inv in E. destruct E; auto.
  - destruct (take_hash p) as [[h r']|] eqn:E; [|discriminate]. intros H; inversion H; subst.
    apply take_hash_inv in E. destruct E; auto.
  - intros H; inversion H; subst. auto.
Qed.
Lemma pay_step_fwd ty pay r : wf_pay ty pay -> pay_step ty (opt_bytes cred_bytes pay ++ r) = Good (pay, r).
Proof.
  unfold pay_step, wf_pay. destruct (pay_kind ty); destruct pay as [[h|h]|]; try contradiction; intros W; cbn [opt_bytes cred_bytes].
  - rewrite take_hash_app by exact W. reflexivity.
  - rewrite take_hash_app by exact W. reflexivity.
  - reflexivity.
Qed.

Lemma var_step_lt acc b : var_step acc b < two64.
Proof.
  unfold var_step, two64.
  change 18446744073709551616 with (144115188075855872 * 128).
  rewrite N.mul_mod_distr_r by lia.
  assert (acc mod 144115188075855872 < 144115188075855872) by (apply N.mod_lt; lia).
  assert (b mod 128 < 128) by (apply N.mod_lt; lia). lia.
Qed.
Lemma read_lt d acc v r : read_varuint d acc = Some (v, r) -> v < two64.
Proof.
  revert acc. induction d as [|b d IH]; intros acc; cbn [read_varuint]; [discriminate|].
  destruct (b <? 128).
  - intros H; inversion H; subst. apply var_step_lt.
  - apply IH.
Qed.

Lemma decode_pointer_wf p s r : decode_pointer p = Some (s, r) ->
  exists a b c, s = SPtr a b c /\ a < two64 /\ b < two64 /\ c < two64.
Proof.
  unfold decode_pointer.
  destruct (read_varuint p 0) as [[a r1]|] eqn:E1; [|discriminate].
  destruct (read_varuint r1 0) as [[b r2]|] eqn:E2; [|discriminate].
  destruct (read_varuint r2 0) as [[c r3]|] eqn:E3; [|discriminate].
  intros H; inversion H; subst. exists a, b, c. repeat split; eauto using read_lt.
Qed.

Lemma decode_pointer_skip p s r : decode_pointer p = Some (s, r) -> skip3 p = Some r.
Proof.
  unfold decode_pointer, skip3. rewrite !read_split.
  destruct (split_varint p) as [[p1 r1]|]; [|discriminate]. rewrite read_split.
  destruct (split_varint r1) as [[p2 r2]|]; [|discriminate]. rewrite read_split.
  destruct (split_varint r2) as [[p3 r3]|]; [|discriminate].
  intros H; inversion H; subst. reflexivity.
Qed.

Lemma all_bytes_app_r (a b : bytes) : all_bytes (a ++ b) -> all_bytes b.
Proof. intros H. apply Forall_app in H. tauto. Qed.

Lemma decode_pointer_min p s r : decode_pointer p = Some (s, r) -> all_bytes p -> min3 p = true ->
  p = stake_bytes s ++ r.
Proof.
  unfold decode_pointer, min3. intros H Hall Hm.
  destruct (split_varint p) as [[p1 r1]|] eqn:S1; [|discriminate].
  apply andb_true_iff in Hm. destruct Hm as [M1 Hm].
  destruct (split_varint r1) as [[p2 r2]|] eqn:S2; [|discriminate].
  apply andb_true_iff in Hm. destruct Hm as [M2 Hm].
  destruct (split_varint r2) as [[p3 r3]|] eqn:S3; [|discriminate].
  pose proof (split_app _ _ _ S1) as A1. pose proof (split_app _ _ _ S2) as A2. pose proof (split_app _ _ _ S3) as A3.
  assert (Hall1 : all_bytes r1) by (rewrite A1 in Hall; eapply all_bytes_app_r; eauto).
  assert (Hall2 : all_bytes r2) by (rewrite A2 in Hall1; eapply all_bytes_app_r; eauto).
  destruct (read_min _ _ _ 0 Hall S1 M1 eq_refl) as (R1 & W1 & _).
  destruct (read_min _ _ _ 0 Hall1 S2 M2 eq_refl) as (R2 & W2 & _).
  destruct (read_min _ _ _ 0 Hall2 S3 Hm eq_refl) as (R3 & W3 & _).
  rewrite R1, R2, R3 in H. inversion H; subst s r3. cbn [stake_bytes].
  rewrite W1, W2, W3. rewrite A1 at 1. rewrite A2 at 1. rewrite A3 at 1. rewrite <- !app_assoc. reflexivity.
Qed.

Lemma decode_pointer_fwd a b c r : a < two64 -> b < two64 -> c < two64 ->
  decode_pointer (stake_bytes (SPtr a b c) ++ r) = Some (SPtr a b c, r).
Proof.
  intros Ha Hb Hc. unfold decode_pointer. cbn [stake_bytes]. rewrite <- !app_assoc.
  rewrite read_write by exact Ha. rewrite read_write by exact Hb. rewrite read_write by exact Hc. reflexivity.
Qed.

Lemma stake_step_inv ty p s r : stake_step ty p = Good (s, r) ->
  wf_stake ty s /\
  (stake_kind ty <> SP -> p = opt_bytes stake_bytes s ++ r) /\
  (stake_kind ty = SP -> skip3 p = Some r /\ (all_bytes p -> min3 p = true -> p = opt_bytes stake_bytes s ++ r)).
Proof.
  unfold stake_step, wf_stake. destruct (stake_kind ty).
  - destruct (take_hash p) as [[h r']|] eqn:E; [|discriminate]. intros H; inversion H; subst.
    apply take_hash_inv in E. destruct E. repeat split; auto; intros; discriminate.
  - destruct (take_hash p) as [[h r']|] eqn:E; [|discriminate]. intros H; inversion H; subst.
    apply take_hash_inv in E. destruct E. repeat split; auto; intros; discriminate.
  - destruct (decode_pointer p) as [[s' r']|] eqn:E; [|discriminate]. intros H; inversion H; subst.
    destruct (decode_pointer_wf _ _ _ E) as (a & b & c & -> & Ha & Hb & Hc).
    repeat split; auto; try congruence.
    + eapply decode_pointer_skip; eauto.
    + intros. cbn [opt_bytes]. eapply decode_pointer_min; eauto.
  - intros H; inversion H; subst. repeat split; auto; intros; discriminate.
Qed.

Lemma stake_step_fwd ty s r : wf_stake ty s -> stake_step ty (opt_bytes stake_bytes s ++ r) = Good (s, r).
Proof.
  unfold stake_step, wf_stake.
  destruct (stake_kind ty); destruct s as [[[h|h]|a b c]|]; try contradiction; intros W; cbn [opt_bytes stake_bytes cred_bytes].
  - rewrite take_hash_app by exact W. reflexivity.
  - rewrite take_hash_app by exact W. reflexivity.
  - destruct W as (Ha & Hb & Hc). change (write_varuint a ++ write_varuint b ++ write_varuint c) with (stake_bytes (SPtr a b c)).
    rewrite decode_pointer_fwd by assumption. reflexivity.
  - reflexivity.
Qed.

Lemma trailer_step_inv net p e : trailer_step net p = Good e -> e = p /\ wf_extra net e.
Proof.
  unfold trailer_step, wf_extra. destruct p as [|b p].
  - intros H; inversion H; auto.
  - destruct (net =? net_mainnet) eqn:E1; cbn [negb orb]; [|discriminate].
    destruct (is_known_trailer (b :: p)) eqn:E2; cbn [negb]; [|discriminate].
    intros H; inversion H; subst. apply N.eqb_eq in E1. auto.
Qed.
Lemma trailer_step_fwd net e : wf_extra net e -> trailer_step net e = Good e.
Proof.
  unfold trailer_step, wf_extra. intros [->|[-> H]]; [reflexivity|].
  destruct e; [reflexivity|]. rewrite N.eqb_refl, H. reflexivity.
Qed.

(* ---------- inversion of shelley_populate ---------- *)
Lemma populate_inv h payload a : h < 256 -> shelley_populate h payload = Good a ->
  a_type a = spec_type h /\ a_net a = spec_net h /\ wf_addr a /\ spec_known (spec_type h) = true /\ spec_net h < 2 /\
  exists p1 p2,
    payload = opt_bytes cred_bytes (a_pay a) ++ p1 /\
    (stake_kind (a_type a) <> SP -> p1 = opt_bytes stake_bytes (a_stake a) ++ p2) /\
    (stake_kind (a_type a) = SP -> skip3 p1 = Some p2 /\
        (all_bytes p1 -> min3 p1 = true -> p1 = opt_bytes stake_bytes (a_stake a) ++ p2)) /\
    a_extra a = p2.
Proof.
  intros Hh. unfold shelley_populate. destruct (hdr_split h Hh) as [-> ->].
  assert (Ht : spec_type h < 16) by (unfold spec_type; lia).
  assert (Hn : spec_net h < 16) by (unfold spec_net; lia).
  destruct ((spec_net h =? net_testnet) || (spec_net h =? net_mainnet)) eqn:EN; cbn [negb]; [|discriminate].
  destruct (mem (spec_type h) known_types) eqn:EK; cbn [negb]; [|discriminate].
  destruct (pay_step (spec_type h) payload) as [[pay p1]|] eqn:E1; [|discriminate].
  destruct (stake_step (spec_type h) p1) as [[stk p2]|] eqn:E2; [|discriminate].
  destruct (trailer_step (spec_net h) p2) as [extra|] eqn:E3; [|discriminate].
  intros H; inversion H; subst a; cbn [a_type a_net a_pay a_stake a_extra].
  apply pay_step_inv in E1. destruct E1 as [W1 P1].
  apply stake_step_inv in E2. destruct E2 as (W2 & P2 & P2').
  apply trailer_step_inv in E3. destruct E3 as [-> W3].
  destruct (kinds_spec _ Ht) as (K1 & _ & _).
  assert (NN : spec_net h = net_testnet \/ spec_net h = net_mainnet).
  { apply orb_true_iff in EN. destruct EN as [EN|EN]; apply N.eqb_eq in EN; auto. }
  split; [reflexivity|]. split; [reflexivity|]. split.
  { unfold wf_addr; cbn [a_type a_net a_pay a_stake a_extra]. repeat split; auto. }
  split; [congruence|]. split.
  { destruct NN as [E|E]; rewrite E; [change net_testnet with 0|change net_mainnet with 1]; lia. }
  exists p1, p2. repeat split; auto; apply P2'; auto.
Qed.

(* ---------- raw bytes -> address -> raw bytes ---------- *)
Lemma roundtrip_decode h payload a : h < 256 -> all_bytes payload ->
  shelley_populate h payload = Good a -> minimal_varints h payload = true -> to_bytes a = h :: payload.
Proof.
  intros Hh Hall H Hmin.
  assert (Hfull := H). unfold shelley_populate in H.
  destruct (populate_inv _ _ _ Hh Hfull) as (Ty & Ne & W & K & N2 & p1 & p2 & P1 & P2 & P2' & Ex).
  unfold to_bytes. f_equal.
  - destruct (hdr_split h Hh) as [T1 T2]. rewrite Ty, Ne, <- T1, <- T2. apply hdr_join. exact Hh.
  - rewrite Ex. transitivity (opt_bytes cred_bytes (a_pay a) ++ p1); [|symmetry; exact P1]. f_equal.
    destruct W as (Ht & Kn & _ & Wp & Ws & _).
    assert (Hall1 : all_bytes p1) by (rewrite P1 in Hall; eapply all_bytes_app_r; eauto).
    assert (L1 : skipn 28 payload = p1 \/ (a_type a <> 4 /\ a_type a <> 5)).
    { destruct (kinds_spec _ Ht) as (_ & KS & _). rewrite Ty in *. specialize (KS K). destruct KS as [KP KS].
      destruct (known_cases _ Ht K) as [E|[E|[E|[E|[E|[E|[E|[E|[E|E]]]]]]]]]; try (right; lia);
      left; rewrite P1; rewrite E in KP, Wp; unfold wf_pay in Wp;
      destruct (pay_kind _); destruct (a_pay a) as [[hh|hh]|]; try contradiction; try discriminate;
      cbn [opt_bytes cred_bytes]; change hash_size with 28%nat in Wp;
      rewrite skipn_app, <- Wp, skipn_all, Nat.sub_diag; reflexivity. }
    destruct (stake_kind (a_type a)) eqn:SKE.
    1,2,4: symmetry; apply P2; congruence.
    destruct (P2' eq_refl) as [_ P3]. symmetry. apply P3; [exact Hall1|].
    unfold minimal_varints in Hmin. rewrite <- Ty in Hmin.
    destruct (kinds_spec _ Ht) as (_ & KS & _). rewrite Ty in KS. specialize (KS K). destruct KS as [_ KS].
    rewrite <- Ty, SKE in KS. cbn [sk_code] in KS.
    assert (T45 : a_type a = 4 \/ a_type a = 5).
    { rewrite <- Ty in K. destruct (known_cases _ Ht K) as [E|[E|[E|[E|[E|[E|[E|[E|[E|E]]]]]]]]]; rewrite E in KS; try discriminate; auto. }
    destruct L1 as [L1|L1]; [|lia]. rewrite <- L1.
    destruct T45 as [E|E]; rewrite E in Hmin; exact Hmin.
Qed.

(* ---------- address -> raw bytes -> address ---------- *)
Lemma roundtrip_encode a : wf_addr a ->
  shelley_populate (header_of (a_type a) (a_net a))
                   (opt_bytes cred_bytes (a_pay a) ++ opt_bytes stake_bytes (a_stake a) ++ a_extra a) = Good a.
Proof.
  intros (Ht & Kn & Nn & Wp & Ws & We). unfold shelley_populate.
  assert (Hn : a_net a < 16) by (destruct Nn as [E|E]; rewrite E; [change net_testnet with 0|change net_mainnet with 1]; lia).
  destruct (hdr_of _ _ Ht Hn) as (_ & -> & ->).
  assert (EN : (a_net a =? net_testnet) || (a_net a =? net_mainnet) = true).
  { destruct Nn as [E|E]; rewrite E, N.eqb_refl; [reflexivity|apply orb_true_r]. }
  rewrite EN, Kn. cbn [negb].
  rewrite pay_step_fwd by exact Wp. rewrite stake_step_fwd by exact Ws.
  rewrite trailer_step_fwd by exact We. destruct a; reflexivity.
Qed.

(* ---------- fields are the header nibbles and payload slices ---------- *)
Definition cred_is_script (c : cred) : bool := match c with KeyH _ => false | ScriptH _ => true end.
Definition pay_view (a : addr) : option (bool * bytes) :=
  match a_pay a with Some c => Some (cred_is_script c, cred_bytes c) | None => None end.
Definition stake_view (a : addr) : option (bool * bytes) :=
  match a_stake a with Some (SCred c) => Some (cred_is_script c, cred_bytes c) | _ => None end.

Lemma firstn_app_exact {A} (x y : list A) n : length x = n -> firstn n (x ++ y) = x.
Proof. intros <-. rewrite firstn_app, Nat.sub_diag, firstn_all. cbn. apply app_nil_r. Qed.
Lemma skipn_app_exact {A} (x y : list A) n : length x = n -> skipn n (x ++ y) = y.
Proof. intros <-. rewrite skipn_app, Nat.sub_diag, skipn_all. reflexivity. Qed.

Lemma skipn_app2 {A} (x y z : list A) n m : length x = n -> length y = m -> skipn (n + m) (x ++ y ++ z) = z.
Proof. intros Hx Hy. rewrite app_assoc. apply skipn_app_exact. rewrite app_length. lia. Qed.

Lemma fields h payload a : h < 256 -> shelley_populate h payload = Good a ->
  a_type a = spec_type h /\ a_net a = spec_net h /\
  pay_view a = spec_payment (spec_type h) payload /\
  stake_view a = spec_stake (spec_type h) payload /\
  spec_rest (spec_type h) payload = Some (a_extra a).
Proof.
  intros Hh H.
  destruct (populate_inv _ _ _ Hh H) as (Ty & Ne & W & K & N2 & p1 & p2 & P1 & P2 & P2' & Ex).
  split; [exact Ty|]. split; [exact Ne|].
  destruct W as (Ht & Kn & _ & Wp & Ws & _).
  destruct (kinds_spec _ Ht) as (_ & KS & _). rewrite Ty in KS. specialize (KS K). destruct KS as [KP KS].
  rewrite <- Ty in KP, KS, K |- *. unfold wf_pay in Wp. unfold wf_stake in Ws. unfold pay_view, stake_view.
  change hash_size with 28%nat in *.
  destruct (known_cases _ Ht K) as [E|[E|[E|[E|[E|[E|[E|[E|[E|E]]]]]]]]]; rewrite E in *;
  (destruct (pay_kind _) eqn:PKE; try discriminate KP);
  (destruct (stake_kind _) eqn:SKE; try discriminate KS);
  (destruct (a_pay a) as [[ph|ph]|]; try contradiction);
  (destruct (a_stake a) as [[[sh|sh]|s1 s2 s3]|]; try contradiction);
  cbn [opt_bytes cred_bytes stake_bytes cred_is_script] in *;
  unfold spec_payment, spec_stake, spec_rest; cbn [N.ltb N.leb N.compare Pos.compare Pos.compare_cont N.odd N.testbit Pos.testbit N.eqb Pos.eqb orb];
  try (assert (Q : p1 = sh ++ p2) by (apply P2; discriminate));
  try (assert (Q : p1 = [] ++ p2) by (apply P2; discriminate));
  try (destruct (P2' eq_refl) as [Q _]);
  subst payload; try subst p1.
  all: repeat rewrite app_length; try rewrite Wp; try rewrite Ws.
  all: repeat match goal with |- context [Nat.ltb ?x ?y] =>
         let b := fresh in destruct (Nat.ltb x y) eqn:b; [apply Nat.ltb_lt in b; lia|clear b] end.
  all: repeat split.
  all: try (rewrite firstn_app_exact by assumption; reflexivity).
  all: try (rewrite skipn_app_exact by assumption; try rewrite firstn_app_exact by assumption; try rewrite Q; try rewrite Ex; reflexivity).
  all: try (cbn [app]; rewrite firstn_app_exact by assumption; reflexivity).
  all: try (cbn [app] in *; rewrite skipn_app_exact by assumption; congruence).
  all: rewrite Ex; f_equal.
  all: try (cbn [app]; rewrite skipn_app_exact by assumption; reflexivity).
  all: replace 56%nat with (28 + 28)%nat by reflexivity; apply skipn_app2; assumption.
Qed.

(* ---------- hrp ---------- *)
Lemma hrp_spec_all : forallb (fun h => negb (spec_known (spec_type h) && (spec_net h <? 2))
    || String.eqb (hrp_of (type_of h) (net_of h)) (spec_hrp h)) (below 256) = true.
Proof. vm_compute. reflexivity. Qed.

Lemma hrp_fields h payload a : h < 256 -> shelley_populate h payload = Good a -> hrp a = spec_hrp h.
Proof.
  intros Hh H. destruct (populate_inv _ _ _ Hh H) as (Ty & Ne & _ & K & N2 & _).
  pose proof (forall_below 256 _ hrp_spec_all h Hh) as Q. cbn beta in Q.
  rewrite K in Q. assert (E : spec_net h <? 2 = true) by lia. rewrite E in Q. cbn [andb negb orb] in Q.
  apply String.eqb_eq in Q. unfold hrp. destruct (hdr_split h Hh) as [T1 T2]. rewrite Ty, Ne, <- T1, <- T2. exact Q.
Qed.
