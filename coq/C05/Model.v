(* C05 - address encodings.  Function-by-function model of
   ledger/common/address.go (populateFromBytes, Bytes, generateHRP, NewAddress,
   AddressPayloadPointer.decode/encode, isKnownMalformedAddressTrailer,
   NetworkId/Type/PaymentKeyHash/StakeKeyHash).  Constants and the trailer
   table come from C05/Gen.v, regenerated from the Go tree on every run.
   NO proofs in this file. *)
From Coq Require Import String Ascii.
From V Require Import Lib.Base Lib.Hex Lib.Cbor Lib.CborParse C05.Gen.
Local Open Scope N_scope.

Inductive err :=
| EEmpty | ENetwork | EType | EPayShort | EStakeShort | EPtrEOF | ETrailing
| ECbor | EPayloadContent | ECrc | EHashLen | EByronBech32 | EHrp | ETextDecode.
Inductive result (A : Type) := Good (a : A) | Fail (e : err).
Arguments Good {A}. Arguments Fail {A}.

Definition mem (x : N) (l : list N) : bool := existsb (N.eqb x) l.

(* ---- header ---- *)
(* a.addressType = (header & AddressHeaderTypeMask) >> 4 ; a.networkId = header & AddressHeaderNetworkMask *)
Definition type_of (header : N) : N := N.shiftr (N.land header type_mask) 4.
Definition net_of (header : N) : N := N.land header net_mask.
(* ret[0] = (a.addressType << 4) | (a.networkId & AddressHeaderNetworkMask)   (uint8 shift wraps) *)
Definition header_of (ty net : N) : N := N.lor ((ty * 16) mod 256) (N.land net net_mask).

(* the case lists of the three switch statements in populateFromBytes *)
Definition known_types := [ty_key_key; ty_script_key; ty_key_script; ty_script_script; ty_key_pointer;
                           ty_script_pointer; ty_key_none; ty_script_none; ty_none_key; ty_none_script].
Definition pay_key_types := [ty_key_key; ty_key_script; ty_key_pointer; ty_key_none].
Definition pay_script_types := [ty_script_key; ty_script_script; ty_script_pointer; ty_script_none].
Definition stake_key_types := [ty_key_key; ty_script_key; ty_none_key].
Definition stake_script_types := [ty_key_script; ty_script_script; ty_none_script].
Definition stake_ptr_types := [ty_key_pointer; ty_script_pointer].

Inductive pkind := PK | PS | PN.
Inductive skind := SK | SS | SP | SN.
Definition pay_kind (ty : N) : pkind :=
  if mem ty pay_key_types then PK else if mem ty pay_script_types then PS else PN.
Definition stake_kind (ty : N) : skind :=
  if mem ty stake_key_types then SK else if mem ty stake_script_types then SS
  else if mem ty stake_ptr_types then SP else SN.

(* ---- decoded Shelley-family address (struct Address without the Byron fields) ---- *)
Inductive cred := KeyH (h : bytes) | ScriptH (h : bytes).
Inductive stakep := SCred (c : cred) | SPtr (slot tx cert : N).
Record addr := mkAddr { a_type : N; a_net : N; a_pay : option cred; a_stake : option stakep; a_extra : bytes }.

(* ---- AddressPayloadPointer.decode: readVarUint with the Go uint64 shift ---- *)
Definition two64 : N := 18446744073709551616.
(* ret = (ret << 7) | uint64(byt & 0x7F)   on uint64 *)
Definition var_step (acc b : N) : N := (acc * 128) mod two64 + b mod 128.
Fixpoint read_varuint (data : bytes) (acc : N) : option (N * bytes) :=
  match data with
  | [] => None                                  (* io.ErrUnexpectedEOF *)
  | b :: r => let acc' := var_step acc b in
              if b <? 128 then Some (acc', r) else read_varuint r acc'   (* (byt & 0x80) == 0 *)
  end.
Definition decode_pointer (data : bytes) : option (stakep * bytes) :=
  match read_varuint data 0 with None => None | Some (s, r1) =>
  match read_varuint r1 0 with None => None | Some (t, r2) =>
  match read_varuint r2 0 with None => None | Some (c, r3) => Some (SPtr s t c, r3) end end end.

(* AddressPayloadPointer.encode: writeVarUint fills tmp[10] from the right *)
Fixpoint varuint_hi (fuel : nat) (v : N) (acc : bytes) : bytes :=
  match fuel with
  | O => acc
  | S f => if v =? 0 then acc else varuint_hi f (v / 128) ((v mod 128 + 128) :: acc)
  end.
Definition write_varuint (v : N) : bytes := varuint_hi 9 (v / 128) [v mod 128].

(* ---- populateFromBytes, Shelley-family part ---- *)
Definition take_hash (p : bytes) : option (bytes * bytes) :=
  if Nat.ltb (length p) hash_size then None else Some (firstn hash_size p, skipn hash_size p).

Definition pay_step (ty : N) (p : bytes) : result (option cred * bytes) :=
  match pay_kind ty with
  | PK => match take_hash p with None => Fail EPayShort | Some (h, r) => Good (Some (KeyH h), r) end
  | PS => match take_hash p with None => Fail EPayShort | Some (h, r) => Good (Some (ScriptH h), r) end
  | PN => Good (None, p)
  end.

Definition stake_step (ty : N) (p : bytes) : result (option stakep * bytes) :=
  match stake_kind ty with
  | SK => match take_hash p with None => Fail EStakeShort | Some (h, r) => Good (Some (SCred (KeyH h)), r) end
  | SS => match take_hash p with None => Fail EStakeShort | Some (h, r) => Good (Some (SCred (ScriptH h)), r) end
  | SP => match decode_pointer p with None => Fail EPtrEOF | Some (s, r) => Good (Some s, r) end
  | SN => Good (None, p)
  end.

(* isKnownMalformedAddressTrailer *)
Definition is_known_trailer (t : bytes) : bool := existsb (bytes_eqb t) known_trailers.

(* the trailing-byte rule *)
Definition trailer_step (net : N) (p : bytes) : result bytes :=
  match p with
  | [] => Good []
  | _ => if negb (net =? net_mainnet) || negb (is_known_trailer p) then Fail ETrailing else Good p
  end.

Definition shelley_populate (header : N) (payload : bytes) : result addr :=
  let ty := type_of header in
  let net := net_of header in
  if negb ((net =? net_testnet) || (net =? net_mainnet)) then Fail ENetwork else
  if negb (mem ty known_types) then Fail EType else
  match pay_step ty payload with Fail e => Fail e | Good (pay, p1) =>
  match stake_step ty p1 with Fail e => Fail e | Good (stk, p2) =>
  match trailer_step net p2 with Fail e => Fail e | Good extra =>
  Good (mkAddr ty net pay stk extra) end end end.

(* ---- Address.Bytes, Shelley-family part ---- *)
Definition cred_bytes (c : cred) : bytes := match c with KeyH h | ScriptH h => h end.
Definition stake_bytes (s : stakep) : bytes :=
  match s with
  | SCred c => cred_bytes c
  | SPtr s t c => write_varuint s ++ write_varuint t ++ write_varuint c
  end.
Definition opt_bytes {A} (f : A -> bytes) (o : option A) : bytes := match o with Some x => f x | None => [] end.
Definition to_bytes (a : addr) : bytes :=
  header_of (a_type a) (a_net a) :: opt_bytes cred_bytes (a_pay a) ++ opt_bytes stake_bytes (a_stake a) ++ a_extra a.

(* ---- accessors ---- *)
Definition zero_hash : bytes := repeat 0 hash_size.
Definition payment_key_hash (a : addr) : bytes := match a_pay a with Some c => cred_bytes c | None => zero_hash end.
Definition stake_key_hash (a : addr) : bytes :=
  match a_stake a with Some (SCred c) => cred_bytes c | _ => zero_hash end.

(* generateHRP *)
Local Open Scope string_scope.
Definition hrp_of (ty net : N) : string :=
  (if (ty =? ty_none_key)%N || (ty =? ty_none_script)%N then "stake" else "addr")
  ++ (if negb (net =? net_mainnet)%N then "_test" else "").
Definition hrp (a : addr) : string := hrp_of (a_type a) (a_net a).
Local Close Scope string_scope.

(* ---- Byron ---- *)
(* hash/crc32.ChecksumIEEE, executable (bitwise, reflected polynomial 0xEDB88320);
   the theorems take the checksum as a Section variable *)
Definition crc_step (c : N) : N := if N.odd c then N.lxor (N.shiftr c 1) 3988292384 else N.shiftr c 1.
Definition crc_byte (c b : N) : N :=
  crc_step (crc_step (crc_step (crc_step (crc_step (crc_step (crc_step (crc_step (N.lxor c b)))))))).
Definition crc32 (bs : bytes) : N := N.lxor (fold_left crc_byte bs 4294967295) 4294967295.

Record baddr := mkB { b_hash : bytes; b_payload : bytes; b_network : option N; b_type : N }.

Definition two32 : N := 4294967296.

(* ByronAddressAttributes.UnmarshalCBOR: struct with keyasint fields 1, 2 ([]byte);
   unknown fields and duplicate keys are errors (ExtraDecErrorUnknownField, DupMapKeyEnforcedAPF) *)
Fixpoint attr_fields (kvs : list (item * item)) (p n : option bytes) : option (option bytes * option bytes) :=
  match kvs with
  | [] => Some (p, n)
  | (UInt _ k, BStr _ v) :: r =>
      if k =? 1 then match p with None => attr_fields r (Some v) n | Some _ => None end
      else if k =? 2 then match n with None => attr_fields r p (Some v) | Some _ => None end
      else None
  | _ => None
  end.

(* cbor.Decode(tmpData.NetworkRaw, &tmpNetwork) : first item must be a uint32; what follows is ignored *)
Definition decode_u32 (raw : bytes) : option N :=
  match parse_full raw with
  | Ok (UInt _ n) _ => if n <? two32 then Some n else None
  | _ => None
  end.

Definition is_nil {A} (l : list A) : bool := match l with [] => true | _ => false end.

(* byronAddressPayload + the hash length test *)
Definition byron_inner (payload : bytes) : result baddr :=
  match parse_full payload with
  | Ok (Arr _ [BStr _ hash; Map _ kvs; UInt _ ty]) rest =>
      if negb (is_nil rest) then Fail ETrailing else         (* fixes/C05-byron-trailing-bytes.patch *)
      if negb (ty <? two64) then Fail ECbor else
      match attr_fields kvs None None with
      | None => Fail ECbor
      | Some (p, n) =>
          let pl := match p with Some v => v | None => [] end in
          match n with
          | Some ((_ :: _) as raw) =>
              match decode_u32 raw with
              | None => Fail ECbor
              | Some net => if Nat.eqb (length hash) hash_size then Good (mkB hash pl (Some net) ty) else Fail EHashLen
              end
          | _ => if Nat.eqb (length hash) hash_size then Good (mkB hash pl None ty) else Fail EHashLen
          end
      end
  | _ => Fail ECbor
  end.

(* populateFromBytes, Byron branch (byronAddress = [tag Payload, uint32 Checksum]) *)
Definition byron_populate (crc : bytes -> N) (data : bytes) : result baddr :=
  match parse_full data with
  | Ok (Arr _ [Tag _ t (BStr _ payload); UInt _ c]) rest =>
      if negb (c <? two32) then Fail ECbor else
      if negb (t =? 24) then Fail EPayloadContent else
      if negb (c =? crc payload) then Fail ECrc else
      if negb (is_nil rest) then Fail ETrailing else         (* fixes/C05-byron-trailing-bytes.patch *)
      byron_inner payload
  | _ => Fail ECbor
  end.

(* Address.Bytes, Byron branch: canonical (shortest-form, sorted keys) encoding *)
Definition mf_len {A} (l : list A) : form := min_form (N.of_nat (length l)).
Definition attr_item (b : baddr) : item :=
  let kv1 := match b_payload b with [] => [] | p => [(UInt Fimm 1, BStr (mf_len p) p)] end in
  let kv2 := match b_network b with
             | Some n => let raw := enc (UInt (min_form n) n) in [(UInt Fimm 2, BStr (mf_len raw) raw)]
             | None => [] end in
  Map (Some Fimm) (kv1 ++ kv2).
Definition byron_payload (b : baddr) : bytes :=
  enc (Arr (Some Fimm) [BStr (mf_len (b_hash b)) (b_hash b); attr_item b; UInt (min_form (b_type b)) (b_type b)]).
Definition byron_bytes (crc : bytes -> N) (b : baddr) : bytes :=
  let p := byron_payload b in
  enc (Arr (Some Fimm) [Tag F1 24 (BStr (mf_len p) p); UInt (min_form (crc p)) (crc p)]).

(* ---- the whole of populateFromBytes / Bytes ---- *)
Inductive address := Shelley (a : addr) | Byron (b : baddr).

Definition populate (crc : bytes -> N) (data : bytes) : result address :=
  match data with
  | [] => Fail EEmpty
  | header :: payload =>
      if type_of header =? ty_byron then
        match byron_populate crc data with Good b => Good (Byron b) | Fail e => Fail e end
      else
        match shelley_populate header payload with Good a => Good (Shelley a) | Fail e => Fail e end
  end.

Definition addr_bytes (crc : bytes -> N) (a : address) : bytes :=
  match a with Shelley s => to_bytes s | Byron b => byron_bytes crc b end.

(* Type(), NetworkId(), PaymentKeyHash(), StakeKeyHash() *)
Definition obs_type (a : address) : N := match a with Shelley s => a_type s | Byron _ => ty_byron end.
Definition obs_net (a : address) : N :=
  match a with
  | Shelley s => a_net s
  | Byron b => match b_network b with None => net_mainnet | Some _ => net_testnet end
  end.
Definition obs_pay (a : address) : bytes := match a with Shelley s => payment_key_hash s | Byron b => b_hash b end.
Definition obs_stake (a : address) : bytes := match a with Shelley s => stake_key_hash s | Byron _ => zero_hash end.

(* ---- text form (NewAddress / String) over abstract bech32 and base58 ---- *)
Definition lower (c : ascii) : ascii :=
  let n := N_of_ascii c in if (65 <=? n) && (n <=? 90) then ascii_of_N (n + 32) else c.
Fixpoint lower_s (s : string) : string :=
  match s with EmptyString => EmptyString | String c r => String (lower c) (lower_s r) end.
(* strings.EqualFold on the (ASCII) human-readable parts *)
Definition eqfold (a b : string) : bool := String.eqb (lower_s a) (lower_s b).

(* the part of NewAddress after a successful bech32 decode + ConvertBits *)
Definition after_bech32 (crc : bytes -> N) (h : string) (d : bytes) : result address :=
  match populate crc d with
  | Fail e => Fail e
  | Good (Byron _) => Fail EByronBech32
  | Good (Shelley a) => if eqfold h (hrp a) then Good (Shelley a) else Fail EHrp
  end.

(* result of bech32.DecodeNoLimit followed by ConvertBits(5 -> 8, no padding) *)
Inductive b32res := B32 (h : string) (d : bytes) | B32Conv | B32Bad.

Section Text.
  Variable crc : bytes -> N.
  Variable bech32_dec : string -> b32res.
  Variable bech32_enc : string -> bytes -> string.   (* ConvertBits(8 -> 5, pad) + bech32.Encode *)
  Variable b58_dec : string -> bytes.                (* base58.Decode: empty on failure *)
  Variable b58_enc : bytes -> string.
  Variable has_shelley_hrp : string -> bool.         (* hasShelleyAddressHRP *)

  Definition new_address (s : string) : result address :=
    match bech32_dec s with
    | B32 h d => after_bech32 crc h d
    | B32Conv => Fail ETextDecode
    | B32Bad =>
        if has_shelley_hrp s then Fail ETextDecode else
        let d := b58_dec s in
        if is_nil d then Fail ETextDecode else populate crc d
    end.

  Definition to_string (a : address) : string :=
    match a with
    | Byron b => b58_enc (byron_bytes crc b)
    | Shelley s => bech32_enc (hrp s) (to_bytes s)
    end.
End Text.

(* ---- correspondence ---- *)
(* what the harness observed on an accepted address *)
Record observed := mkObs { o_type : N; o_net : N; o_pay : bytes; o_stake : bytes; o_bytes : bytes; o_hrp : string }.

Inductive case :=
| CBytes (input : bytes) (got : option observed)              (* NewAddressFromBytes + accessors + Bytes + generateHRP via String *)
| CText (h : string) (d : bytes) (accepted : bool).           (* NewAddress on bech32 text that decodes to (h, d) *)

Definition obs_hrp (a : address) : string := match a with Shelley s => hrp s | Byron _ => EmptyString end.

Definition check_case (c : case) : bool :=
  match c with
  | CBytes input got =>
      match populate crc32 input, got with
      | Fail _, None => true
      | Good a, Some o =>
          (obs_type a =? o_type o) && (obs_net a =? o_net o) && bytes_eqb (obs_pay a) (o_pay o)
          && bytes_eqb (obs_stake a) (o_stake o) && bytes_eqb (addr_bytes crc32 a) (o_bytes o)
          && String.eqb (obs_hrp a) (o_hrp o)
      | _, _ => false
      end
  | CText h d acc =>
      match after_bech32 crc32 h d with Good _ => acc | Fail _ => negb acc end
  end.

Definition mismatches : list case -> list nat := failing check_case.
