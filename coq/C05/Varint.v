(* C05 - pointer varints: the Go reader/writer against a positional spec. *)
From V Require Import Lib.Base C05.Gen C05.Model.
Local Open Scope N_scope.

(* ---- spec: a varint is a run of bytes >= 128 closed by a byte < 128; its
   value is the big-endian base-128 number of the low 7 bits (unbounded) ---- *)
Fixpoint split_varint (data : bytes) : option (bytes * bytes) :=
  match data with
  | [] => None
  | b :: r => if b <? 128 then Some ([b], r)
              else match split_varint r with Some (p, q) => Some (b :: p, q) | None => None end
  end.
Definition varval (p : bytes) (acc : N) : N := fold_left (fun a b => a * 128 + b mod 128) p acc.
(* minimal: no leading zero digit, and the value fits 64 bits: at most 9 digits,
   or 10 digits with leading digit 1 *)
Definition min_varint (p : bytes) : bool :=
  match p with
  | [] => false
  | b :: r => (is_nil r || negb (b =? 128)) && ((length p <=? 9)%nat || ((length p =? 10)%nat && (b =? 129)))
  end.

Definition wrapval (p : bytes) (acc : N) : N := fold_left var_step p acc.

Lemma read_split : forall data acc,
  read_varuint data acc =
  match split_varint data with Some (p, r) => Some (wrapval p acc, r) | None => None end.
Proof.
  induction data as [|b r IH]; intros acc; cbn [read_varuint split_varint]; [reflexivity|].
  destruct (b <? 128) eqn:E; [reflexivity|].
  rewrite IH. destruct (split_varint r) as [[p q]|]; reflexivity.
Qed.

Lemma split_app : forall data p r, split_varint data = Some (p, r) -> data = p ++ r.
Proof.
  induction data as [|b d IH]; intros p r H; cbn [split_varint] in H; [discriminate|].
  destruct (b <? 128); [inversion H; reflexivity|].
  destruct (split_varint d) as [[p' q']|] eqn:E; [|discriminate].
  inversion H; subst. cbn. f_equal. apply IH. reflexivity.
Qed.

(* shape of the consumed prefix *)
Definition cont (b : N) : Prop := 128 <= b.
Lemma split_shape : forall data p r, split_varint data = Some (p, r) ->
  exists body last, p = body ++ [last] /\ Forall cont body /\ last < 128.
Proof.
  induction data as [|b d IH]; intros p r H; cbn [split_varint] in H; [discriminate|].
  destruct (b <? 128) eqn:E.
  - inversion H; subst. exists [], b. repeat split; [constructor|lia].
  - destruct (split_varint d) as [[p' q']|] eqn:E2; [|discriminate].
    inversion H; subst. destruct (IH _ _ eq_refl) as (body & last & -> & Hb & Hl).
    exists (b :: body), last. repeat split; auto. constructor; auto. unfold cont. lia.
Qed.

Lemma split_of_shape : forall body last rest, Forall cont body -> last < 128 ->
  split_varint (body ++ last :: rest) = Some (body ++ [last], rest).
Proof.
  induction body as [|b body IH]; intros last rest Hb Hl; cbn [app split_varint].
  - destruct (last <? 128) eqn:E; [reflexivity|lia].
  - inversion Hb; subst. unfold cont in *. destruct (b <? 128) eqn:E; [lia|].
    rewrite IH by auto. reflexivity.
Qed.

Lemma varval_snoc p b acc : varval (p ++ [b]) acc = varval p acc * 128 + b mod 128.
Proof. unfold varval. rewrite fold_left_app. reflexivity. Qed.

Lemma varval_ge : forall p acc, acc <= varval p acc.
Proof.
  induction p as [|b p IH]; intros acc; cbn [varval fold_left]; [lia|].
  fold (varval p (acc * 128 + b mod 128)). specialize (IH (acc * 128 + b mod 128)). lia.
Qed.

Lemma varval_bound : forall p acc, varval p acc < (acc + 1) * 128 ^ N.of_nat (length p).
Proof.
  induction p as [|b p IH]; intros acc; cbn [varval fold_left length].
  - cbn. lia.
  - fold (varval p (acc * 128 + b mod 128)). specialize (IH (acc * 128 + b mod 128)).
    rewrite Nat2N.inj_succ, N.pow_succ_r'.
    assert (b mod 128 < 128) by (apply N.mod_lt; lia).
    nia.
Qed.

Lemma wrap_nooverflow : forall p acc, varval p acc < two64 -> wrapval p acc = varval p acc.
Proof.
  induction p as [|b p IH]; intros acc H; cbn [wrapval varval fold_left] in *; [reflexivity|].
  fold (varval p (acc * 128 + b mod 128)) in H. fold (wrapval p (var_step acc b)).
  fold (varval p (acc * 128 + b mod 128)).
  pose proof (varval_ge p (acc * 128 + b mod 128)) as G.
  assert (E : var_step acc b = acc * 128 + b mod 128).
  { unfold var_step. rewrite N.mod_small; [reflexivity|]. unfold two64 in *. lia. }
  rewrite E. apply IH. exact H.
Qed.

Lemma min_bound p : min_varint p = true -> varval p 0 < two64.
Proof.
  destruct p as [|b r]; [discriminate|]. unfold min_varint. intros H.
  apply andb_true_iff in H. destruct H as [_ H]. apply orb_true_iff in H. destruct H as [H|H].
  - pose proof (varval_bound (b :: r) 0) as B.
    assert (L : N.of_nat (length (b :: r)) <= 9) by (apply Nat.leb_le in H; lia).
    assert (128 ^ N.of_nat (length (b :: r)) <= 128 ^ 9) by (apply N.pow_le_mono_r; lia).
    change (128 ^ 9) with 9223372036854775808 in *. unfold two64. lia.
  - apply andb_true_iff in H. destruct H as [HL Hb]. apply Nat.eqb_eq in HL. apply N.eqb_eq in Hb. subst b.
    cbn [varval fold_left]. fold (varval r (0 * 128 + 129 mod 128)).
    change (0 * 128 + 129 mod 128) with 1.
    pose proof (varval_bound r 1) as B. cbn [length] in HL.
    assert (L : N.of_nat (length r) = 9) by lia. rewrite L in B.
    change (128 ^ 9) with 9223372036854775808 in *. unfold two64. lia.
Qed.

(* ---- the writer ---- *)
Lemma hi_spec : forall body acc fuel, Forall (fun b => 128 <= b < 256) body ->
  (body = [] \/ hd 0 body <> 128) -> (length body <= fuel)%nat ->
  varuint_hi fuel (varval body 0) acc = body ++ acc.
Proof.
  induction body as [|c body IH] using rev_ind; intros acc fuel Hb Hh Hl.
  - cbn [varval fold_left]. destruct fuel; reflexivity.
  - apply Forall_app in Hb. destruct Hb as [Hb Hc]. inversion Hc as [|? ? Hc' _]; subst.
    rewrite app_length in Hl. cbn [length] in Hl.
    destruct fuel as [|fuel]; [lia|]. cbn [varuint_hi].
    rewrite varval_snoc.
    assert (Hpos : varval body 0 * 128 + c mod 128 <> 0).
    { destruct body as [|b0 body'].
      - cbn [varval fold_left]. destruct Hh as [Hh|Hh]; [destruct (app_cons_not_nil _ _ _ (eq_sym Hh))|].
        cbn in Hh. lia.
      - destruct Hh as [Hh|Hh]; [discriminate|]. cbn [app hd] in Hh.
        inversion Hb as [|? ? Hb0 _]; subst.
        cbn [varval fold_left]. fold (varval body' (0 * 128 + b0 mod 128)).
        pose proof (varval_ge body' (0 * 128 + b0 mod 128)). lia. }
    destruct (varval body 0 * 128 + c mod 128 =? 0) eqn:E; [lia|].
    replace ((varval body 0 * 128 + c mod 128) / 128) with (varval body 0) by lia.
    replace ((varval body 0 * 128 + c mod 128) mod 128 + 128) with c by lia.
    rewrite IH; [rewrite <- app_assoc; reflexivity|exact Hb| |lia].
    destruct body as [|b0 body']; [left; reflexivity|right].
    destruct Hh as [Hh|Hh]; [discriminate|exact Hh].
Qed.

Lemma write_of_min : forall data p r, all_bytes data -> split_varint data = Some (p, r) ->
  min_varint p = true -> write_varuint (varval p 0) = p.
Proof.
  intros data p r Hall Hs Hm.
  destruct (split_shape _ _ _ Hs) as (body & last & -> & Hb & Hl).
  pose proof (split_app _ _ _ Hs) as Hd. subst data.
  unfold write_varuint. rewrite varval_snoc.
  replace ((varval body 0 * 128 + last mod 128) / 128) with (varval body 0) by lia.
  replace ((varval body 0 * 128 + last mod 128) mod 128) with last by lia.
  apply hi_spec.
  - apply Forall_app in Hall. destruct Hall as [Hall _]. apply Forall_app in Hall. destruct Hall as [Hall _].
    rewrite Forall_forall in *. intros x Hx. specialize (Hb x Hx). specialize (Hall x Hx).
    unfold cont, is_byte in *. lia.
  - destruct body as [|b0 body']; [left; reflexivity|right]. cbn [app hd min_varint] in *.
    apply andb_true_iff in Hm. destruct Hm as [Hm _]. apply orb_true_iff in Hm.
    destruct Hm as [Hm|Hm]; [destruct body'; discriminate|].
    apply negb_true_iff, N.eqb_neq in Hm. exact Hm.
  - unfold min_varint in Hm. destruct (body ++ [last]) as [|b0 t] eqn:E; [discriminate|].
    apply andb_true_iff in Hm. destruct Hm as [_ Hm].
    assert (L : (length (b0 :: t) = length body + 1)%nat) by (rewrite <- E, app_length; reflexivity).
    apply orb_true_iff in Hm. destruct Hm as [Hm|Hm].
    + apply Nat.leb_le in Hm. lia.
    + apply andb_true_iff in Hm. destruct Hm as [Hm _]. apply Nat.eqb_eq in Hm. lia.
Qed.

(* reading a minimal varint gives its value, and writing the value gives it back *)
Lemma read_min : forall data p r acc0, all_bytes data -> split_varint data = Some (p, r) -> min_varint p = true ->
  acc0 = 0 -> read_varuint data acc0 = Some (varval p 0, r) /\ write_varuint (varval p 0) = p /\ varval p 0 < two64.
Proof.
  intros data p r acc0 Hall Hs Hm ->. rewrite read_split, Hs.
  pose proof (min_bound _ Hm) as B. rewrite wrap_nooverflow by exact B.
  repeat split; auto. eapply write_of_min; eauto.
Qed.

(* ---- reading back what the writer produced ---- *)
Lemma read_hi : forall fuel v acc rest, v < 128 ^ N.of_nat fuel -> v * 128 < two64 ->
  read_varuint (varuint_hi fuel v acc ++ rest) 0 = read_varuint (acc ++ rest) v.
Proof.
  induction fuel as [|fuel IH]; intros v acc rest Hv Ho.
  - cbn in Hv. assert (v = 0) by lia. subst. reflexivity.
  - cbn [varuint_hi]. destruct (v =? 0) eqn:E.
    + apply N.eqb_eq in E. subst. reflexivity.
    + rewrite Nat2N.inj_succ, N.pow_succ_r' in Hv.
      rewrite IH by (unfold two64 in *; lia).
      cbn [app read_varuint]. destruct (v mod 128 + 128 <? 128) eqn:E2; [lia|].
      f_equal. unfold var_step. rewrite N.mod_small by (unfold two64 in *; lia).
      unfold two64 in *. lia.
Qed.

Lemma read_write : forall v rest, v < two64 -> read_varuint (write_varuint v ++ rest) 0 = Some (v, rest).
Proof.
  intros v rest Hv. unfold write_varuint.
  rewrite read_hi.
  - cbn [app read_varuint]. destruct (v mod 128 <? 128) eqn:E; [|lia].
    f_equal. f_equal. unfold var_step. rewrite N.mod_small by (unfold two64 in *; lia). lia.
  - change (128 ^ N.of_nat 9) with 9223372036854775808. unfold two64 in Hv. lia.
  - unfold two64 in *. lia.
Qed.

(* what the writer produces is minimal *)
Lemma write_bytes v : all_bytes (write_varuint v).
Proof.
  unfold write_varuint.
  assert (G : forall fuel v acc, all_bytes acc -> all_bytes (varuint_hi fuel v acc)).
  { induction fuel as [|f IH]; intros w acc Ha; cbn [varuint_hi]; [exact Ha|].
    destruct (w =? 0); [exact Ha|]. apply IH. constructor; [|exact Ha]. unfold is_byte. lia. }
  apply G. constructor; [unfold is_byte; lia|constructor].
Qed.
