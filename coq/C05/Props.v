(* C05 - property theorems only.  crc, bech32 and base58 are universally
   quantified (Section variables with their round-trip laws as premises). *)
From Coq Require Import String.
From V Require Import Lib.Base Lib.Hex Lib.Cbor Lib.CborParse C05.Gen C05.Model C05.Varint C05.Proofs C05.TextByron C05.Accept.
Local Open Scope N_scope.

(* raw bytes -> decoded address -> raw bytes is the identity (pointer varints minimal) *)
Theorem C05_bytes_roundtrip : forall crc bs a, all_bytes bs ->
  populate crc bs = Good (Shelley a) -> minimal_varints_bs bs = true -> to_bytes a = bs.
Proof. exact bytes_roundtrip. Qed.
Print Assumptions C05_bytes_roundtrip.

(* decoded address -> raw bytes -> decoded address is the identity; every decoded address is well formed *)
Theorem C05_decoded_wf : forall crc bs a, all_bytes bs -> populate crc bs = Good (Shelley a) -> wf_addr a.
Proof. exact populate_wf. Qed.
Theorem C05_encode_roundtrip : forall crc a, wf_addr a -> populate crc (to_bytes a) = Good (Shelley a).
Proof. exact populate_shelley_rt. Qed.
Print Assumptions C05_encode_roundtrip.

(* pointer varints against the positional base-128 specification *)
Theorem C05_varint_read : forall data p r, all_bytes data -> split_varint data = Some (p, r) -> min_varint p = true ->
  read_varuint data 0 = Some (varval p 0, r) /\ write_varuint (varval p 0) = p /\ varval p 0 < two64.
Proof. intros. eapply read_min; eauto. Qed.
Theorem C05_varint_write : forall v rest, v < two64 -> read_varuint (write_varuint v ++ rest) 0 = Some (v, rest).
Proof. exact read_write. Qed.
Print Assumptions C05_varint_read.

(* type, network, credentials and hrp are the header nibbles and the payload slices of CIP-19 *)
Theorem C05_fields : forall crc h payload a, h < 256 -> populate crc (h :: payload) = Good (Shelley a) ->
  a_type a = h / 16 /\ a_net a = h mod 16 /\
  pay_view a = spec_payment (h / 16) payload /\ stake_view a = spec_stake (h / 16) payload /\
  payment_key_hash a = hash_or_zero (spec_payment (h / 16) payload) /\
  stake_key_hash a = hash_or_zero (spec_stake (h / 16) payload) /\
  hrp a = spec_hrp h.
Proof. exact fields_top. Qed.
Print Assumptions C05_fields.

(* rejection: unknown type, network nibble above 1, too short, or trailing bytes -
   with exactly the exception the code has: a mainnet address followed by one
   of the known malformed trailers (table in Gen.v) *)
Theorem C05_reject_partial : forall crc h payload, h < 256 -> spec_type h <> 8 ->
  (spec_known (spec_type h) = false \/ 2 <= spec_net h \/ spec_rest (spec_type h) payload = None \/
   exists rest, spec_rest (spec_type h) payload = Some rest /\ rest <> [] /\ trailer_exempt h rest = false) ->
  exists e, populate crc (h :: payload) = Fail e.
Proof. exact reject_partial. Qed.
Print Assumptions C05_reject_partial.

(* the exception is real: a 30-byte type-6 mainnet address is accepted *)
Theorem C05_reject_refuted : exists bs a rest,
  populate crc32 bs = Good (Shelley a) /\ spec_rest (spec_type (hd 0 bs)) (tl bs) = Some rest /\ rest <> [].
Proof.
  exists (hx "61" ++ repeat 7 28 ++ [0]). eexists. exists [0].
  split; [vm_compute; reflexivity|]. split; [vm_compute; reflexivity|discriminate].
Qed.

(* ACCEPTANCE AS AN IFF ON RAW BYTES.  wf_bytes (C05/Accept.v) is written from CIP-19, the Byron CDDL and
   cardano-multiplatform-lib's whitelist, independently of the model: a non-empty string h :: payload with
   - type nibble h/16 = 8 and  h :: payload = enc [#6.24(bytes payload'), uint (crc payload')]  (one well-formed
     CBOR item, nothing after it), crc payload' < 2^32, payload' = enc [bytes hash28, {?1: bytes, ?2: bytes}, uint]
     (keys at most once, either order; a non-empty key-2 value starts with a CBOR uint < 2^32), or
   - type nibble in {0..7, 14, 15}, network nibble < 2, payload = core ++ t with |core| = 56 (types 0..3),
     28 (types 6, 7, 14, 15) or 28 + three base-128 varints (types 4, 5; any length, minimal or not), and
     t = [] or (known finding) network nibble 1 and t in the whitelist. *)
Theorem C05_accept_iff : forall crc bs, all_bytes bs ->
  ((exists a, populate crc bs = Good a) <-> wf_bytes crc bs).
Proof. exact accept_iff. Qed.
Print Assumptions C05_accept_iff.
(* contrapositive: everything outside the specification is rejected (and only that) *)
Theorem C05_reject_iff : forall crc bs, all_bytes bs ->
  ((exists e, populate crc bs = Fail e) <-> ~ wf_bytes crc bs).
Proof. exact reject_iff. Qed.
Print Assumptions C05_reject_iff.
(* the exact lengths, read off the specification: an accepted testnet address (no whitelist) *)
Theorem C05_accept_lengths : forall crc h payload a, all_bytes (h :: payload) ->
  populate crc (h :: payload) = Good (Shelley a) -> h mod 16 = 0 ->
  (h / 16 < 4 -> length payload = 56%nat) /\
  (6 <= h / 16 -> length payload = 28%nat) /\
  (h / 16 = 4 \/ h / 16 = 5 -> exists hsh p1 p2 p3, payload = hsh ++ p1 ++ p2 ++ p3 /\ length hsh = 28%nat /\
                                 is_varint p1 /\ is_varint p2 /\ is_varint p3).
Proof. exact accept_lengths. Qed.
Print Assumptions C05_accept_lengths.

(* Byron: accepted bytes are exactly one CBOR item [tag 24 payload, crc payload]; a wrong checksum is rejected *)
Theorem C05_byron_framing : forall crc data b, byron_populate crc data = Good b ->
  exists fa ft fb fc payload,
    parse_full data = Ok (Arr fa [Tag ft 24 (BStr fb payload); UInt fc (crc payload)]) [] /\
    byron_inner payload = Good b.
Proof. exact byron_populate_inv. Qed.
Theorem C05_byron_bad_checksum : forall crc data fa ft t fb payload fc c rest,
  parse_full data = Ok (Arr fa [Tag ft t (BStr fb payload); UInt fc c]) rest ->
  c <> crc payload -> exists e, byron_populate crc data = Fail e.
Proof. exact byron_bad_crc. Qed.
Theorem C05_byron_roundtrip : forall crc b, wf_b crc b -> byron_populate crc (byron_bytes crc b) = Good b.
Proof. exact byron_roundtrip. Qed.
Print Assumptions C05_byron_roundtrip.

(* text form over abstract bech32 / base58 codecs with their round-trip laws *)
Theorem C05_text_roundtrip : forall crc bech32_dec bech32_enc b58_dec b58_enc has_shelley_hrp,
  (forall h d, bech32_dec (bech32_enc h d) = B32 h d) ->
  forall a, wf_addr a ->
  new_address crc bech32_dec b58_dec has_shelley_hrp (to_string crc bech32_enc b58_enc (Shelley a)) = Good (Shelley a).
Proof. intros. eapply text_roundtrip_shelley; eauto. Qed.
Theorem C05_text_prefix : forall crc bech32_dec b58_dec has_shelley_hrp s h d x,
  bech32_dec s = B32 h d -> new_address crc bech32_dec b58_dec has_shelley_hrp s = Good x ->
  exists hb payload a, d = hb :: payload /\ x = Shelley a /\ shelley_populate hb payload = Good a /\
                       eqfold h (hrp a) = true /\ (hb < 256 -> hrp a = spec_hrp hb).
Proof. intros. eapply text_prefix; eauto. Qed.
Theorem C05_text_byron_base58 : forall crc bech32_dec bech32_enc b58_dec b58_enc has_shelley_hrp,
  (forall d, b58_dec (b58_enc d) = d) ->
  forall b, wf_b crc b ->
  bech32_dec (to_string crc bech32_enc b58_enc (Byron b)) = B32Bad ->
  has_shelley_hrp (to_string crc bech32_enc b58_enc (Byron b)) = false ->
  new_address crc bech32_dec b58_dec has_shelley_hrp (to_string crc bech32_enc b58_enc (Byron b)) = Good (Byron b).
Proof. intros. eapply text_roundtrip_byron; eauto. Qed.
Print Assumptions C05_text_byron_base58.

(* ---- non-vacuity ---- *)
Definition ex_ptr : bytes := hx "41" ++ repeat 9 28 ++ hx "818000" ++ hx "7f" ++ hx "81ffffffffffffffff7f".
Example C05_nonvacuous_roundtrip : exists a, populate crc32 ex_ptr = Good (Shelley a) /\
  minimal_varints_bs ex_ptr = true /\ to_bytes a = ex_ptr /\ a_stake a = Some (SPtr 16384 127 18446744073709551615).
Proof. eexists. split; [vm_compute; reflexivity|]. repeat split; vm_compute; reflexivity. Qed.
Example C05_nonvacuous_reject : exists e, populate crc32 (hx "62" ++ repeat 7 28) = Fail e.
Proof. eexists. vm_compute. reflexivity. Qed.
Example C05_nonvacuous_byron : exists b, byron_populate crc32
  (hx "82d818582183581c0102030405060708090a0b0c0d0e0f101112131415161718191a1b1ca0001aff652cd9") = Good b /\ b_type b = 0.
Proof. eexists. split; vm_compute; reflexivity. Qed.

(* the specification is satisfiable on each branch, directly (not through the iff) *)
Example C05_nonvacuous_wf_enterprise : forall crc, wf_bytes crc (hx "60" ++ repeat 7 28).
Proof.
  intros crc. exists 96, (repeat 7 28). split; [reflexivity|]. right.
  split; [left; vm_compute; reflexivity|]. split; [vm_compute; reflexivity|].
  exists (repeat 7 28), []. split; [rewrite app_nil_r; reflexivity|]. split; [reflexivity|left; reflexivity].
Qed.
Example C05_nonvacuous_wf_whitelist : forall crc, wf_bytes crc (hx "61" ++ repeat 7 28 ++ [0]).
Proof.
  intros crc. exists 97, (repeat 7 28 ++ [0]). split; [reflexivity|]. right.
  split; [left; vm_compute; reflexivity|]. split; [vm_compute; reflexivity|].
  exists (repeat 7 28), [0]. split; [reflexivity|]. split; [reflexivity|right].
  split; [reflexivity|]. right. right. left. reflexivity.
Qed.
Example C05_nonvacuous_not_wf : ~ wf_bytes crc32 (hx "60" ++ repeat 7 28 ++ [0]) /\ ~ wf_bytes crc32 (hx "62" ++ repeat 7 28)
  /\ ~ wf_bytes crc32 (hx "60" ++ repeat 7 27) /\ ~ wf_bytes crc32 (hx "90" ++ repeat 7 28).
Proof.
  repeat split; (apply C05_reject_iff; [repeat constructor; unfold is_byte; lia|eexists; vm_compute; reflexivity]).
Qed.
Example C05_nonvacuous_wf_byron : wf_bytes crc32
  (hx "82d818582183581c0102030405060708090a0b0c0d0e0f101112131415161718191a1b1ca0001aff652cd9").
Proof.
  apply C05_accept_iff; [vm_compute; repeat constructor; unfold is_byte; lia|]. eexists. vm_compute. reflexivity.
Qed.
