(* C24 - window specification on the wire trace and proofs. *)
From V Require Import Lib.Base C24.Gen C24.Model.
(* *)
Local Open Scope Z_scope.

(* ---- limits from the generated constants ----------------------------------- *)
Lemma max_ack_u16 : 0 <= max_ack_count <= 65535.
Proof. unfold max_ack_count. lia. Qed.
Lemma max_req_u16 : 0 <= max_request_count <= 65535.
Proof. unfold max_request_count. lia. Qed.

Lemma u16_id x : 0 <= x <= 65535 -> u16 x = x.
Proof. intros H. unfold u16. apply Z.mod_small. lia. Qed.

(* ---- the wire trace and its specification ----------------------------------- *)
Inductive wev :=
| Sent (blocking : bool) (ack req : Z)   (* a MsgRequestTxIds left the server *)
| Got (n : Z)                            (* a MsgReplyTxIds with n ids arrived *)
| Restart.                               (* Done: the protocol instance was replaced *)

Definition ev_trace (e : sop * option smsg * result) : list wev :=
  let '(_, w, r) := e in
  match w with
  | Some (WReqIds b a q) =>
      Sent b a q :: match r with ROk n => [Got n] | RStop => [Restart] | _ => [] end
  | _ => []
  end.
Definition trace (evs : list (sop * option smsg * result)) : list wev := flat_map ev_trace evs.

(* the property, stated on the trace alone: u = ids received and not yet
   acknowledged.  Every request acknowledges at most u and both counts are
   uint16 values. *)
Fixpoint window_ok (u : Z) (tr : list wev) : Prop :=
  match tr with
  | [] => True
  | Sent _ a r :: t => 0 <= a <= u /\ a <= 65535 /\ 0 <= r <= 65535 /\ window_ok (u - a) t
  | Got n :: t => window_ok (u + n) t
  | Restart :: t => window_ok 0 t
  end.

(* what this implementation does beyond that: it acknowledges everything outstanding *)
Fixpoint window_exact (u : Z) (tr : list wev) : Prop :=
  match tr with
  | [] => True
  | Sent _ a r :: t => a = u /\ window_exact 0 t
  | Got n :: t => window_exact (u + n) t
  | Restart :: t => window_exact 0 t
  end.

(* replies carry a list: its length is not negative *)
Definition op_wf (o : sop) : Prop :=
  match o with
  | SReqIds _ _ _ (RIds n) => 0 <= n
  | SReqIds _ _ _ RDone => True
  | SReqTxs k j => 0 <= k /\ 0 <= j
  end.

(* ---- one RequestTxIds call ---------------------------------------------------- *)
Lemma s_req_ids_sent st b req rep st' w res :
  s_req_ids st b req rep = (st', Some w, res) ->
  s_alive st = true /\ 0 <= req <= 65535 /\ 0 <= ack_count st <= 65535
  /\ w = WReqIds b (ack_count st) req.
Proof.
  unfold s_req_ids.
  destruct (Z.ltb_spec req 0); [discriminate|].
  destruct (Z.gtb_spec req max_request_count); [discriminate|].
  destruct (Z.ltb_spec (ack_count st) 0); [discriminate|].
  destruct (Z.gtb_spec (ack_count st) max_ack_count); [discriminate|].
  destruct (s_alive st); cbn [negb]; [|discriminate].
  pose proof max_ack_u16. pose proof max_req_u16.
  intros E. assert (W : w = WReqIds b (u16 (ack_count st)) (u16 req)).
  { destruct rep; [destruct (answer_allowed b msg_reply_tx_ids)|destruct (answer_allowed b msg_done)];
      inversion E; reflexivity. }
  rewrite !u16_id in W by lia. repeat split; auto; lia.
Qed.

Lemma s_req_ids_none st b req rep st' res :
  s_req_ids st b req rep = (st', None, res) ->
  st' = st /\ (res = RDown \/ res = RExceeded).
Proof.
  unfold s_req_ids.
  destruct (req <? 0); [intros E; inversion E; auto|].
  destruct (req >? max_request_count); [intros E; inversion E; auto|].
  destruct (ack_count st <? 0); [intros E; inversion E; auto|].
  destruct (ack_count st >? max_ack_count); [intros E; inversion E; auto|].
  destruct (s_alive st); cbn [negb]; [|intros E; inversion E; auto].
  destruct rep; [destruct (answer_allowed b msg_reply_tx_ids)|destruct (answer_allowed b msg_done)]; discriminate.
Qed.

(* the request goes out exactly when both counts are within 0..65535 *)
Lemma s_req_ids_sends_iff st b req rep : s_alive st = true -> 0 <= ack_count st ->
  ((exists w, snd (fst (s_req_ids st b req rep)) = Some w) <->
   (0 <= req <= 65535 /\ ack_count st <= 65535)).
Proof.
  intros A P. split.
  - intros [w E]. destruct (s_req_ids st b req rep) as [[st' w'] res] eqn:Q. cbn in E. subst w'.
    apply s_req_ids_sent in Q. lia.
  - intros [R K]. unfold s_req_ids. rewrite A. cbn [negb].
    unfold max_request_count, max_ack_count.
    destruct (Z.ltb_spec req 0); [lia|]. destruct (Z.gtb_spec req 65535); [lia|].
    destruct (Z.ltb_spec (ack_count st) 0); [lia|]. destruct (Z.gtb_spec (ack_count st) 65535); [lia|].
    cbn [negb].
    destruct rep; [destruct (answer_allowed b msg_reply_tx_ids)|destruct (answer_allowed b msg_done)]; cbn; eauto.
Qed.

(* a reply longer than 65535 ids: the next request fails, nothing is sent, nothing wraps *)
Lemma s_req_ids_overlong st b req rep : s_alive st = true -> ack_count st > 65535 ->
  s_req_ids st b req rep = (st, None, RExceeded).
Proof.
  intros A K. unfold s_req_ids.
  destruct (req <? 0); [reflexivity|]. destruct (req >? max_request_count); [reflexivity|].
  destruct (Z.ltb_spec (ack_count st) 0); [reflexivity|].
  unfold max_ack_count. destruct (Z.gtb_spec (ack_count st) 65535); [reflexivity|lia].
Qed.

Lemma s_req_ids_state st b req rep st' w res :
  s_req_ids st b req rep = (st', Some w, res) ->
  match res with
  | ROk n => rep = RIds n /\ st' = mkS n true true
  | RStop => rep = RDone /\ b = true /\ st' = mkS 0 true false
  | RDown => s_alive st' = false
  | RExceeded | ROther => False
  end.
Proof.
  unfold s_req_ids.
  destruct (req <? 0); [discriminate|]. destruct (req >? max_request_count); [discriminate|].
  destruct (ack_count st <? 0); [discriminate|]. destruct (ack_count st >? max_ack_count); [discriminate|].
  destruct (s_alive st); cbn [negb]; [|discriminate].
  destruct rep as [n|].
  - destruct (answer_allowed b msg_reply_tx_ids); intros E; inversion E; subst; cbn; auto.
  - destruct (answer_allowed b msg_done) eqn:A; intros E; inversion E; subst; cbn; auto.
    repeat split; auto. destruct b; [reflexivity|]. vm_compute in A. discriminate.
Qed.

(* ---- all histories --------------------------------------------------------------- *)
(* the state a call sees: the peer's Init is delivered first unless the call is early *)
Definition pre (st : sstate) (o : sop) : sstate :=
  match o with
  | SReqIds early _ _ _ => if early then st else deliver_init st
  | SReqTxs _ _ => deliver_init st
  end.

Lemma deliver_init_ack st : ack_count (deliver_init st) = ack_count st.
Proof. unfold deliver_init. destruct (s_inited st); reflexivity. Qed.
Lemma deliver_init_alive st : s_alive (deliver_init st) = s_alive st.
Proof. unfold deliver_init. destruct (s_inited st); reflexivity. Qed.
Lemma pre_ack st o : ack_count (pre st o) = ack_count st.
Proof. destruct o as [[|] ? ? ?|? ?]; cbn [pre]; auto using deliver_init_ack. Qed.
Lemma pre_alive st o : s_alive (pre st o) = s_alive st.
Proof. destruct o as [[|] ? ? ?|? ?]; cbn [pre]; auto using deliver_init_alive. Qed.

Lemma s_step_pre st o : s_step st o =
  match o with
  | SReqIds _ b req rep => s_req_ids (pre st o) b req rep
  | SReqTxs k j => s_req_txs (pre st o) k j
  end.
Proof. destruct o; reflexivity. Qed.

Lemma dead_step st o st1 w res : s_alive st = false -> s_step st o = (st1, w, res) ->
  s_alive st1 = false /\ w = None.
Proof.
  intros D E. rewrite s_step_pre in E. pose proof (pre_alive st o) as A. rewrite D in A.
  destruct o; unfold s_req_ids, s_req_txs in E; rewrite A in E; cbn [negb] in E;
    repeat match type of E with (if ?c then _ else _) = _ => destruct c end; inversion E; subst; auto.
Qed.

Lemma dead_no_trace ops : forall st, s_alive st = false -> trace (fst (s_run st ops)) = [].
Proof.
  induction ops as [|o r IH]; intros st D; [reflexivity|].
  cbn [s_run]. destruct (s_step st o) as [[st1 w] res] eqn:E.
  destruct (s_run st1 r) as [evs st2] eqn:E2. cbn [fst].
  destruct (dead_step _ _ _ _ _ D E) as [D1 ->].
  unfold trace. cbn [flat_map ev_trace app]. fold (trace evs).
  specialize (IH st1 D1). rewrite E2 in IH. exact IH.
Qed.

Lemma run_window ops : forall st, Forall op_wf ops -> 0 <= ack_count st ->
  window_ok (ack_count st) (trace (fst (s_run st ops)))
  /\ window_exact (ack_count st) (trace (fst (s_run st ops))).
Proof.
  induction ops as [|o r IH]; intros st WF P; [cbn; auto|].
  inversion WF as [|? ? Wo Wr]; subst.
  cbn [s_run]. destruct (s_step st o) as [[st1 w] res] eqn:E.
  destruct (s_run st1 r) as [evs st2] eqn:E2. cbn [fst].
  unfold trace. cbn [flat_map]. fold (trace evs).
  assert (T : evs = fst (s_run st1 r)) by (rewrite E2; reflexivity).
  rewrite s_step_pre in E. pose proof (pre_ack st o) as HA. remember (pre st o) as st0 eqn:Hst0.
  destruct o as [early b req rep|k j].
  - destruct w as [w|].
    + pose proof (s_req_ids_sent _ _ _ _ _ _ _ E) as (A & R & K & ->).
      pose proof (s_req_ids_state _ _ _ _ _ _ _ E) as S.
      cbn [ev_trace]. rewrite HA in *. destruct res as [n| | | |].
      * destruct S as [-> ->]. cbn [op_wf] in Wo.
        destruct (IH (mkS n true true) Wr) as [I1 I2]; [cbn; lia|]. rewrite E2 in I1, I2. cbn [fst ack_count] in I1, I2.
        cbn [app window_ok window_exact]. rewrite Z.sub_diag. cbn [Z.add]. repeat split; try lia; auto.
      * destruct S.
      * destruct S as (-> & -> & ->).
        destruct (IH (mkS 0 true false) Wr) as [I1 I2]; [cbn; lia|]. rewrite E2 in I1, I2. cbn [fst ack_count] in I1, I2.
        cbn [app window_ok window_exact]. repeat split; try lia; auto.
      * cbn [app window_ok window_exact]. rewrite T, (dead_no_trace r st1 S). cbn. repeat split; lia.
      * destruct S.
    + apply s_req_ids_none in E. destruct E as [-> _]. cbn [ev_trace app].
      rewrite <- HA. assert (P0 : 0 <= ack_count st0) by lia.
      specialize (IH st0 Wr P0). rewrite E2 in IH. exact IH.
  - unfold s_req_txs in E. rewrite <- HA. assert (P0 : 0 <= ack_count st0) by lia.
    destruct (s_alive st0); cbn [negb] in E; injection E as <- <- <-; cbn [ev_trace app];
      specialize (IH st0 Wr P0); rewrite E2 in IH; exact IH.
Qed.

(* once a reply was too long every later id request fails without sending *)
Lemma run_stuck ops : forall st, s_alive st = true -> ack_count st > 65535 ->
  Forall (fun e => let '(o, w, res) := e in
            match o with SReqIds _ _ _ _ => w = None /\ res = RExceeded | SReqTxs _ _ => True end)
         (fst (s_run st ops)).
Proof.
  induction ops as [|o r IH]; intros st A K; [constructor|].
  cbn [s_run]. destruct (s_step st o) as [[st1 w] res] eqn:E.
  destruct (s_run st1 r) as [evs st2] eqn:E2. cbn [fst].
  rewrite s_step_pre in E. pose proof (pre_ack st o) as HA. pose proof (pre_alive st o) as HL.
  remember (pre st o) as st0 eqn:Hst0. rewrite A in HL. rewrite <- HA in K.
  destruct o as [early b req rep|k j].
  - rewrite (s_req_ids_overlong st0 b req rep HL K) in E. injection E as <- <- <-.
    constructor; [auto|]. specialize (IH st0 HL K). rewrite E2 in IH. exact IH.
  - unfold s_req_txs in E. rewrite HL in E. cbn [negb] in E. injection E as <- <- <-.
    constructor; [auto|]. specialize (IH st0 HL K). rewrite E2 in IH. exact IH.
Qed.

(* while the current instance has not had its Init (before the first one, and between a
   Done and the next Init) the pending acknowledgement is 0: handleDone reset it *)
Definition gap_inv (st : sstate) : Prop := s_inited st = false -> ack_count st = 0.

Lemma deliver_init_inited st : s_inited (deliver_init st) = true.
Proof. unfold deliver_init. destruct (s_inited st) eqn:I; [exact I|reflexivity]. Qed.

Lemma gap_inv_pre st o : gap_inv st -> gap_inv (pre st o).
Proof.
  intros G. destruct o as [[|] ? ? ?|? ?]; cbn [pre]; auto;
    intros I; rewrite deliver_init_inited in I; discriminate.
Qed.

Lemma gap_inv_step st o st1 w res : gap_inv st -> s_step st o = (st1, w, res) -> gap_inv st1.
Proof.
  intros G E. rewrite s_step_pre in E. apply (gap_inv_pre st o) in G.
  remember (pre st o) as st0 eqn:H0. clear H0.
  destruct o as [early b req rep|k j].
  - destruct w as [w|].
    + pose proof (s_req_ids_state _ _ _ _ _ _ _ E) as S. destruct res as [n| | | |].
      * destruct S as [_ ->]. intros I; discriminate.
      * destruct S.
      * destruct S as (_ & _ & ->). intros _. reflexivity.
      * unfold s_req_ids in E.
        repeat match type of E with (if ?c then _ else _) = _ => destruct c end; try discriminate;
          destruct rep; repeat match type of E with (if ?c then _ else _) = _ => destruct c end;
          inversion E; subst; intros I; discriminate.
      * destruct S.
    + apply s_req_ids_none in E. destruct E as [-> _]. exact G.
  - unfold s_req_txs in E. destruct (negb (s_alive st0)); injection E as <- _ _; exact G.
Qed.

Lemma gap_inv_run ops : forall st, gap_inv st -> gap_inv (snd (s_run st ops))
  /\ forall pre_ops o post, ops = pre_ops ++ o :: post -> gap_inv (snd (s_run st pre_ops)).
Proof.
  induction ops as [|o r IH]; intros st G.
  - split; [exact G|]. intros [|? ?] ? ? H; discriminate.
  - cbn [s_run]. destruct (s_step st o) as [[st1 w] res] eqn:E.
    destruct (s_run st1 r) as [evs st2] eqn:E2. cbn [snd].
    pose proof (gap_inv_step _ _ _ _ _ G E) as G1. destruct (IH st1 G1) as [F Pfx]. rewrite E2 in F. split; [exact F|].
    intros [|o' p'] o2 post H.
    + cbn. exact G.
    + cbn [app] in H. injection H as <- H. cbn [s_run]. rewrite E.
      destruct (s_run st1 p') as [evs' st'] eqn:E3. cbn [snd].
      specialize (Pfx p' o2 post H). rewrite E3 in Pfx. exact Pfx.
Qed.

(* ---- outbound side --------------------------------------------------------------- *)
Lemma c_handle_limits q : fits_u16 (q_ack q) && fits_u16 (q_req q) = false ->
  c_handle q = (CError, None).
Proof. intros H. unfold c_handle. rewrite H. reflexivity. Qed.

Lemma c_handle_args q o b a r : c_handle q = (o, Some (b, a, r)) ->
  b = q_blocking q /\ a = q_ack q /\ r = q_req q
  /\ 0 <= a <= 65535 /\ 0 <= r <= 65535 /\ a <= max_ack_count /\ r <= max_request_count.
Proof.
  unfold c_handle. destruct (fits_u16 (q_ack q) && fits_u16 (q_req q)) eqn:F; cbn [negb]; [|discriminate].
  destruct (Z.gtb_spec (q_ack q) max_ack_count); [discriminate|].
  destruct (Z.gtb_spec (q_req q) max_request_count); [discriminate|].
  apply andb_true_iff in F. unfold fits_u16 in F. destruct F as [F1 F2].
  intros E. assert (Some (b, a, r) = Some (q_blocking q, q_ack q, q_req q)) as X.
  { destruct (q_cb q); [| destruct (q_blocking q) |]; inversion E; reflexivity. }
  inversion X; subst. repeat split; auto; lia.
Qed.

Lemma c_handle_done q a : c_handle q = (CDone, a) -> q_blocking q = true /\ q_cb q = CbStop.
Proof.
  unfold c_handle. destruct (negb _); [discriminate|].
  destruct (q_ack q >? max_ack_count); [discriminate|].
  destruct (q_req q >? max_request_count); [discriminate|].
  destruct (q_cb q); [discriminate| |discriminate]. destruct (q_blocking q); [auto|discriminate].
Qed.

(* in a session: Done only for a blocking request, out-of-range requests are
   errors without a callback, and Done / an error is the last thing that happens *)
Fixpoint session_ok (evs : list (creq * cout * option (bool * Z * Z))) : Prop :=
  match evs with
  | [] => True
  | (q, o, a) :: r =>
      (o = CDone -> q_blocking q = true)
      /\ (fits_u16 (q_ack q) && fits_u16 (q_req q) = false -> o = CError /\ a = None)
      /\ (forall b x y, a = Some (b, x, y) -> b = q_blocking q /\ x = q_ack q /\ y = q_req q /\ 0 <= x <= 65535 /\ 0 <= y <= 65535)
      /\ match o with CReply _ => session_ok r | _ => r = [] end
  end.

Lemma c_run_ok qs : session_ok (c_run qs).
Proof.
  induction qs as [|q r IH]; [exact I|].
  cbn [c_run]. destruct (c_handle q) as [o a] eqn:E.
  assert (H : (o = CDone -> q_blocking q = true)
      /\ (fits_u16 (q_ack q) && fits_u16 (q_req q) = false -> o = CError /\ a = None)
      /\ (forall b x y, a = Some (b, x, y) -> b = q_blocking q /\ x = q_ack q /\ y = q_req q /\ 0 <= x <= 65535 /\ 0 <= y <= 65535)).
  { split; [|split].
    - intros ->. apply c_handle_done in E. tauto.
    - intros F. rewrite (c_handle_limits q F) in E. inversion E; auto.
    - intros b x y ->. apply c_handle_args in E. tauto. }
  destruct o; cbn [session_ok]; tauto.
Qed.

(* the generated state map allows Done only in answer to a blocking request,
   and ReplyTxIds in answer to both kinds *)
Lemma statemap_done_only_blocking : forall b, answer_allowed b msg_done = true -> b = true.
Proof. intros [|]; [reflexivity|]. vm_compute. discriminate. Qed.
Lemma statemap_reply_allowed : forall b, answer_allowed b msg_reply_tx_ids = true.
Proof. intros [|]; vm_compute; reflexivity. Qed.
Lemma statemap_done_blocking : answer_allowed true msg_done = true.
Proof. vm_compute. reflexivity. Qed.
