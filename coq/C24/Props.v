(* C24 - property theorems only. *)
From V Require Import Lib.Base C24.Gen C24.Model C24.Proofs.
(* *)
Local Open Scope Z_scope.

(* Inbound side, every history of RequestTxIds / RequestTxs calls against a
   peer that answers with any number of ids or with Done: on the wire trace,
   no request acknowledges more than the ids received and not yet acknowledged
   (counted from the last restart), and every ack / req count on the wire is in
   0..65535. *)
Theorem C24_ack : forall ops, Forall op_wf ops ->
  window_ok 0 (trace (fst (s_run s_init ops))).
Proof. intros ops WF. apply (run_window ops s_init WF). cbn. lia. Qed.

(* ... and this server acknowledges exactly what is outstanding *)
Theorem C24_ack_exact : forall ops, Forall op_wf ops ->
  window_exact 0 (trace (fst (s_run s_init ops))).
Proof. intros ops WF. apply (run_window ops s_init WF). cbn. lia. Qed.

(* The uint16 conversions never truncate: a request goes out exactly when the
   requested count and the pending acknowledgement are both in 0..65535, and
   then the wire carries those very numbers. *)
Theorem C24_range : forall st b req rep, s_alive st = true -> 0 <= ack_count st ->
  ((exists w, snd (fst (s_req_ids st b req rep)) = Some w) <-> (0 <= req <= 65535 /\ ack_count st <= 65535))
  /\ (forall st' w res, s_req_ids st b req rep = (st', Some w, res) ->
        w = WReqIds b (ack_count st) req /\ 0 <= ack_count st <= 65535 /\ 0 <= req <= 65535).
Proof.
  intros st b req rep A P. split; [apply s_req_ids_sends_iff; assumption|].
  intros st' w res E. apply s_req_ids_sent in E. tauto.
Qed.

(* A reply longer than 65535 ids makes the next request fail (nothing is sent,
   nothing wraps), and every later id request of that session fails the same way. *)
Theorem C24_overlong_reply_fails : forall st b req rep, s_alive st = true -> ack_count st > 65535 ->
  s_req_ids st b req rep = (st, None, RExceeded).
Proof. exact s_req_ids_overlong. Qed.

Theorem C24_overlong_reply_stuck : forall ops st, s_alive st = true -> ack_count st > 65535 ->
  Forall (fun e => let '(o, w, res) := e in
            match o with SReqIds _ _ _ _ => w = None /\ res = RExceeded | SReqTxs _ _ => True end)
         (fst (s_run st ops)).
Proof. exact run_stuck. Qed.

(* bookkeeping: the pending acknowledgement is the length of the last reply, 0 after Done *)
Theorem C24_bookkeeping : forall st b req rep st' w res,
  s_req_ids st b req rep = (st', Some w, res) ->
  match res with
  | ROk n => rep = RIds n /\ st' = mkS n true true
  | RStop => rep = RDone /\ b = true /\ st' = mkS 0 true false
  | RDown => s_alive st' = false
  | RExceeded | ROther => False
  end.
Proof. exact s_req_ids_state. Qed.

(* The session lifecycle: a RequestTxIds made while the current protocol instance has not
   had its Init yet - before the first Init, or in the gap between the peer's Done and its
   next Init - is queued with the acknowledgement count handleDone has already reset, so
   it reaches the wire (after Init) with ack = 0, after every history whatsoever. *)
Theorem C24_request_before_init : forall ops_before b req rep st' w res,
  s_inited (snd (s_run s_init ops_before)) = false ->
  s_step (snd (s_run s_init ops_before)) (SReqIds true b req rep) = (st', Some w, res) ->
  w = WReqIds b 0 req.
Proof.
  intros ops b req rep st' w res I E.
  destruct (gap_inv_run ops s_init) as [G _]; [intros _; reflexivity|].
  cbn [s_step] in E. apply s_req_ids_sent in E. destruct E as (_ & _ & _ & ->).
  rewrite (G I). reflexivity.
Qed.

(* Outbound side, every session: a request whose ack or req count is outside
   0..65535 is an error (no callback, no reply, session over); the callback sees
   the wire values unchanged; Done is sent only in answer to a blocking request;
   nothing follows Done or an error. *)
Theorem C24_client_limits : forall q, fits_u16 (q_ack q) && fits_u16 (q_req q) = false ->
  c_handle q = (CError, None).
Proof. exact c_handle_limits. Qed.

Theorem C24_done : forall q a, c_handle q = (CDone, a) -> q_blocking q = true /\ q_cb q = CbStop.
Proof. exact c_handle_done. Qed.

Theorem C24_client_session : forall qs, session_ok (c_run qs).
Proof. exact c_run_ok. Qed.

(* the state map (generated from the code) admits Done only as the answer to a
   blocking request, so a Done in any other place is a protocol error *)
Theorem C24_statemap_done : forall b, answer_allowed b msg_done = true <-> b = true.
Proof.
  intros b. split; [apply statemap_done_only_blocking|intros ->; exact statemap_done_blocking].
Qed.

Print Assumptions C24_ack.
Print Assumptions C24_request_before_init.
Print Assumptions C24_ack_exact.
Print Assumptions C24_range.
Print Assumptions C24_overlong_reply_stuck.
Print Assumptions C24_client_session.
Print Assumptions C24_statemap_done.

(* ---- non-vacuity ---------------------------------------------------------------- *)
Example C24_nonvacuous_server :
  map (fun e => (snd (fst e), snd e))
      (fst (s_run s_init [SReqIds false true 10 (RIds 3); SReqIds false false 65535 (RIds 70000);
                          SReqIds false false 1 (RIds 1); SReqTxs 2 2; SReqIds false true 5 RDone]))
  = [(Some (WReqIds true 0 10), ROk 3); (Some (WReqIds false 3 65535), ROk 70000);
     (None, RExceeded); (Some (WReqTxs 2), ROk 2); (None, RExceeded)].
Proof. vm_compute. reflexivity. Qed.

Example C24_nonvacuous_done :
  map (fun e => (snd (fst e), snd e))
      (fst (s_run s_init [SReqIds false true 10 (RIds 3); SReqIds false true 2 RDone; SReqIds false false 65536 (RIds 1);
                          SReqIds false false 7 (RIds 2); SReqIds false false 7 RDone; SReqIds false false 7 (RIds 2)]))
  = [(Some (WReqIds true 0 10), ROk 3); (Some (WReqIds true 3 2), RStop); (None, RExceeded);
     (Some (WReqIds false 0 7), ROk 2); (Some (WReqIds false 2 7), RDown); (None, RDown)].
Proof. vm_compute. reflexivity. Qed.

(* the gap between Done and the next Init, and a call before the first Init *)
Example C24_nonvacuous_gap :
  map (fun e => (snd (fst e), snd e))
      (fst (s_run s_init [SReqIds true true 4 (RIds 9); SReqIds false true 2 RDone;
                          SReqIds true false 7 (RIds 2); SReqIds false false 1 (RIds 0)]))
  = [(Some (WReqIds true 0 4), ROk 9); (Some (WReqIds true 9 2), RStop);
     (Some (WReqIds false 0 7), ROk 2); (Some (WReqIds false 2 1), ROk 0)].
Proof. vm_compute. reflexivity. Qed.

Example C24_nonvacuous_client :
  map (fun e => (snd (fst e), snd e))
      (c_run [mkReq false 0 5 (CbIds 5); mkReq true 5 65535 (CbIds 70000); mkReq true 65535 1 CbStop; mkReq true 0 1 (CbIds 1)])
  = [(CReply 5, Some (false, 0, 5)); (CReply 70000, Some (true, 5, 65535)); (CDone, Some (true, 65535, 1))]
  /\ c_run [mkReq false 65536 1 (CbIds 1)] = [(mkReq false 65536 1 (CbIds 1), CError, None)]
  /\ c_run [mkReq false 1 1 CbStop; mkReq true 1 1 CbStop] = [(mkReq false 1 1 CbStop, CError, Some (false, 1, 1))].
Proof. vm_compute. repeat split. Qed.
