(* C24 - tx-submission acknowledgement window.  Model of
   protocol/txsubmission/server.go (Server.RequestTxIds, RequestTxs,
   handleReplyTxIds, handleDone: the inbound side) and
   protocol/txsubmission/client.go (Client.handleRequestTxIds: the outbound
   side), with the limits and the state map taken from C24/Gen.v.
   Go int is modelled as unbounded Z (lengths and counts are far from 2^63);
   every conversion to uint16 is written as an explicit mod 2^16.
   No proofs in this file. *)
From V Require Import Lib.Base C24.Gen.
(* *)
Local Open Scope Z_scope.

Definition u16 (x : Z) : Z := x mod 65536.   (* Go: uint16(x) *)

(* ---- inbound side: Server ------------------------------------------------ *)
(* what the peer answers to a MsgRequestTxIds *)
Inductive reply :=
| RIds (n : Z)      (* MsgReplyTxIds carrying n ids *)
| RDone.            (* MsgDone *)

(* class of the value returned by RequestTxIds / RequestTxs *)
Inductive result :=
| ROk (n : Z)       (* n ids (txs) returned, err == nil *)
| RExceeded         (* ErrProtocolViolationRequestExceeded, nothing sent *)
| RStop             (* ErrStopServerProcess: the peer said Done *)
| RDown             (* the protocol instance is (being) shut down *)
| ROther.           (* any other error (never produced by the model) *)

(* messages the server puts on the wire *)
Inductive smsg :=
| WReqIds (blocking : bool) (ack req : Z)   (* MsgRequestTxIds, fields as uint16 values *)
| WReqTxs (k : Z).                          (* MsgRequestTxs with k ids *)

Record sstate := mkS {
  ack_count : Z;     (* Server.ackCount *)
  s_alive : bool;    (* false after a protocol violation tore the protocol down *)
  s_inited : bool }. (* the current protocol instance has handled the peer's MsgInit (state Idle or later);
                        false = state Init, the client has agency: before the first Init and between
                        a Done (restart) and the next Init *)

Definition s_init : sstate := mkS 0 true false.

(* Server.handleInit: runs the user callback only; ackCount is not touched *)
Definition handle_init (st : sstate) : sstate := mkS (ack_count st) (s_alive st) true.
(* the peer's MsgInit reaches the server (no-op when this instance already had it) *)
Definition deliver_init (st : sstate) : sstate := if s_inited st then st else handle_init st.

Inductive sop :=
| SReqIds (early : bool) (blocking : bool) (req : Z) (rep : reply)
    (* RequestTxIds(blocking, req); rep = the peer's answer if a request goes out.
       early = the call is made although the peer's Init for this protocol instance has not
       arrived yet (before the first Init, or in the gap between Done and the next Init): the
       message is built at once (ack taken from ackCount at call time), waits in the send
       queue, and goes out when Init has given the server agency.  Without early the peer's
       Init, if still missing, is delivered before the call. *)
| SReqTxs (k j : Z).                                 (* RequestTxs(k ids), the peer answers j bodies *)

(* may the peer answer a request sent in state Idle with this message?  From the
   generated state map: the request moves Idle -> s by the guard, the answer
   must be a transition out of s. *)
Definition guard_ok (g : Z) (blocking : bool) : bool :=
  (g =? 0) || ((g =? 1) && blocking) || ((g =? 2) && negb blocking).
Definition next_state (from mt : Z) (blocking : bool) : option Z :=
  match find (fun t => let '(f, m, g, _) := t in (f =? from) && (m =? mt) && guard_ok g blocking) transitions with
  | Some (_, _, _, to) => Some to
  | None => None
  end.
Definition idle_state : Z := 2.
Definition answer_allowed (blocking : bool) (answer_type : Z) : bool :=
  match next_state idle_state msg_request_tx_ids blocking with
  | Some s => match next_state s answer_type blocking with Some _ => true | None => false end
  | None => false
  end.

(* Server.RequestTxIds + handleReplyTxIds / handleDone *)
Definition s_req_ids (st : sstate) (blocking : bool) (req : Z) (rep : reply)
  : sstate * option smsg * result :=
  (* the argument and ackCount checks come first, SendMessage notices a dead protocol after them *)
  if req <? 0 then (st, None, RExceeded) else
  if req >? max_request_count then (st, None, RExceeded) else
  if ack_count st <? 0 then (st, None, RExceeded) else
  if ack_count st >? max_ack_count then (st, None, RExceeded) else
  if negb (s_alive st) then (st, None, RDown) else
  (* the message is built now, from ackCount as it is at call time *)
  let w := WReqIds blocking (u16 (ack_count st)) (u16 req) in
  (* it leaves the queue only once Init has been handled *)
  let st1 := deliver_init st in
  match rep with
  | RIds n =>
      if answer_allowed blocking msg_reply_tx_ids
      then (mkS n true true, Some w, ROk n)            (* s.ackCount = len(result.txIds) *)
      else (mkS (ack_count st1) false true, Some w, RDown)
  | RDone =>
      if answer_allowed blocking msg_done
      then (mkS 0 true false, Some w, RStop)           (* handleDone: new instance (awaits Init), s.ackCount = 0 *)
      else (mkS (ack_count st1) false true, Some w, RDown) (* no such transition: protocol error *)
  end.

(* Server.RequestTxs: no window bookkeeping *)
Definition s_req_txs (st : sstate) (k j : Z) : sstate * option smsg * result :=
  if negb (s_alive st) then (st, None, RDown) else (st, Some (WReqTxs k), ROk j).

Definition s_step (st : sstate) (o : sop) : sstate * option smsg * result :=
  match o with
  | SReqIds early b req rep => s_req_ids (if early then st else deliver_init st) b req rep
  | SReqTxs k j => s_req_txs (deliver_init st) k j
  end.

Fixpoint s_run (st : sstate) (ops : list sop) : list (sop * option smsg * result) * sstate :=
  match ops with
  | [] => ([], st)
  | o :: r =>
    let '(st1, w, res) := s_step st o in
    let '(evs, st2) := s_run st1 r in
    ((o, w, res) :: evs, st2)
  end.

(* ---- outbound side: Client ------------------------------------------------- *)
(* what the user callback RequestTxIdsFunc returns *)
Inductive cbres :=
| CbIds (n : Z)     (* n ids, nil error *)
| CbStop            (* ErrStopServerProcess *)
| CbErr.            (* any other error *)

(* what the client does in answer to one MsgRequestTxIds on the wire *)
Inductive cout :=
| CReply (n : Z)    (* MsgReplyTxIds with n ids *)
| CDone             (* MsgDone *)
| CError.           (* handler/decoder error: the protocol is torn down, nothing sent *)

(* one incoming request: the integers as they are on the wire (any CBOR integer) *)
Record creq := mkReq { q_blocking : bool; q_ack : Z; q_req : Z; q_cb : cbres }.

(* cbor.Decode into the uint16 fields of MsgRequestTxIds *)
Definition fits_u16 (x : Z) : bool := (0 <=? x) && (x <=? 65535).

(* NewMsgFromCbor + Client.handleRequestTxIds.  Second component: the arguments
   the callback was invoked with (None = not invoked). *)
Definition c_handle (q : creq) : cout * option (bool * Z * Z) :=
  if negb (fits_u16 (q_ack q) && fits_u16 (q_req q)) then (CError, None) else
  if q_ack q >? max_ack_count then (CError, None) else
  if q_req q >? max_request_count then (CError, None) else
  let args := Some (q_blocking q, q_ack q, q_req q) in
  match q_cb q with
  | CbIds n => (CReply n, args)
  | CbStop => if q_blocking q then (CDone, args) else (CError, args)
  | CbErr => (CError, args)
  end.

(* a session: requests are handled until an error or Done ends it *)
Fixpoint c_run (qs : list creq) : list (creq * cout * option (bool * Z * Z)) :=
  match qs with
  | [] => []
  | q :: r =>
    let '(o, a) := c_handle q in
    match o with
    | CReply _ => (q, o, a) :: c_run r
    | _ => [(q, o, a)]
    end
  end.

(* ---- correspondence --------------------------------------------------------- *)
Definition res_eqb (a b : result) : bool :=
  match a, b with
  | ROk n, ROk m => n =? m
  | RExceeded, RExceeded | RStop, RStop | RDown, RDown | ROther, ROther => true
  | _, _ => false
  end.
Definition smsg_eqb (a b : smsg) : bool :=
  match a, b with
  | WReqIds b1 a1 r1, WReqIds b2 a2 r2 => Bool.eqb b1 b2 && (a1 =? a2) && (r1 =? r2)
  | WReqTxs k1, WReqTxs k2 => k1 =? k2
  | _, _ => false
  end.
Definition cout_eqb (a b : cout) : bool :=
  match a, b with
  | CReply n, CReply m => n =? m
  | CDone, CDone | CError, CError => true
  | _, _ => false
  end.
Definition args_eqb (a b : bool * Z * Z) : bool :=
  let '(b1, x1, y1) := a in let '(b2, x2, y2) := b in Bool.eqb b1 b2 && (x1 =? x2) && (y1 =? y2).

Inductive case :=
| ServerCase (ops : list sop) (obs : list (option smsg * result))   (* observed wire message and result per op *)
| ClientCase (qs : list creq) (obs : list (cout * option (bool * Z * Z))).

Fixpoint s_obs_eqb (evs : list (sop * option smsg * result)) (obs : list (option smsg * result)) : bool :=
  match evs, obs with
  | [], [] => true
  | (_, w, r) :: e, (w', r') :: o => opt_eqb smsg_eqb w w' && res_eqb r r' && s_obs_eqb e o
  | _, _ => false
  end.
Fixpoint c_obs_eqb (evs : list (creq * cout * option (bool * Z * Z))) (obs : list (cout * option (bool * Z * Z))) : bool :=
  match evs, obs with
  | [], [] => true
  | (_, o, a) :: e, (o', a') :: r => cout_eqb o o' && opt_eqb args_eqb a a' && c_obs_eqb e r
  | _, _ => false
  end.

Definition check_case (c : case) : bool :=
  match c with
  | ServerCase ops obs => s_obs_eqb (fst (s_run s_init ops)) obs
  | ClientCase qs obs => c_obs_eqb (c_run qs) obs
  end.
Definition mismatches := failing check_case.
