(* C38 - ECVRF-ED25519-SHA512-Elligator2 (draft-03) as implemented by
   /repo/vrf/vrf.go: KeyGen, Prove, VerifyAndHash, Verify, ProofToHash,
   verify, hashPoints, decodeProofArrays, transcribed over an abstract
   group.  Section variables: the curve group (carrier, add, neg, identity,
   scalar multiplication by a natural number, base point B, order L, point
   equality, Bytes / SetBytes), hashToCurveElligator2 and SHA-512.
   edwards25519.Scalar values are naturals below L; SetUniformBytes = mod L,
   SetCanonicalBytes = "< L or error", SetBytesWithClamping = clamp then mod L. *)
From V Require Import Lib.Base.
Local Open Scope N_scope.

Definition slice (off len : nat) (b : bytes) : bytes := firstn len (skipn off b).

(* little-endian *)
Definition le2n (b : bytes) : N := fold_right (fun x acc => x + 256 * acc) 0 b.
Fixpoint n2le (len : nat) (n : N) : bytes :=
  match len with O => [] | S l => n mod 256 :: n2le l (n / 256) end.

(* SetBytesWithClamping: b[0] &= 248; b[31] &= 63; b[31] |= 64 (32 bytes) *)
Definition clamp (b : bytes) : N :=
  let v := le2n b in v mod 2 ^ 254 - v mod 8 + 2 ^ 254.

Inductive vres :=
| VOk (out : bytes)      (* verified; the 64-byte output *)
| VBad                   (* malformed input: an error other than ErrProofVerificationFailed *)
| VFail.                 (* ErrProofVerificationFailed *)

Section vrf.
  Variable G : Type.
  Variable add : G -> G -> G.
  Variable neg : G -> G.
  Variable zero : G.                      (* NewIdentityPoint *)
  Variable smul : N -> G -> G.            (* ScalarMult / ScalarBaseMult / MultByCofactor *)
  Variable B : G.
  Variable L : N.
  Variable geq : G -> G -> bool.          (* Point.Equal *)
  Variable encode : G -> bytes.           (* Point.Bytes *)
  Variable decode : bytes -> option G.    (* Point.SetBytes *)
  Variable h2c : G -> bytes -> option G.  (* hashToCurveElligator2(Y, alpha); None = error *)
  Variable H512 : bytes -> bytes.         (* SHA-512 *)

  Definition sub (P Q : G) : G := add P (neg Q).   (* Point.Subtract *)

  (* secret scalar x: SHA512(sk)[0:32] clamped, reduced mod L *)
  Definition x_of (sk : bytes) : N := clamp (firstn 32 (H512 sk)) mod L.

  (* KeyGen: public key; None = "seed must be 32 bytes" *)
  Definition keygen (seed : bytes) : option bytes :=
    if negb (Nat.eqb (length seed) 32) then None
    else Some (encode (smul (x_of seed) B)).

  (* hashPoints: first 16 bytes of SHA512(suite || 0x02 || P1 || P2 || P3 || P4) *)
  Definition hash_points (P1 P2 P3 P4 : G) : bytes :=
    firstn 16 (H512 (4 :: 2 :: encode P1 ++ encode P2 ++ encode P3 ++ encode P4)).

  (* ProofToHash: SHA512(suite || 0x03 || cofactor * Gamma) *)
  Definition proof_to_hash (pi : bytes) : option bytes :=
    if negb (Nat.eqb (length pi) 80) then None
    else match decode (firstn 32 pi) with
         | None => None
         | Some Gm => Some (H512 (4 :: 3 :: encode (smul 8 Gm)))
         end.

  (* Prove; None = error *)
  Definition prove (sk alpha : bytes) : option (bytes * bytes) :=
    if negb (Nat.eqb (length sk) 32) then None
    else
      let h := H512 sk in
      let x := clamp (firstn 32 h) mod L in
      let Y := smul x B in
      match h2c Y alpha with
      | None => None
      | Some Hp =>
        let Gm := smul x Hp in
        let k := le2n (H512 (slice 32 32 h ++ encode Hp)) mod L in   (* SetUniformBytes *)
        let U := smul k B in
        let V := smul k Hp in
        let c16 := hash_points Hp Gm U V in
        let c := le2n c16 in
        let s := (c * x + k) mod L in                                 (* MultiplyAdd *)
        let pi := encode Gm ++ c16 ++ n2le 32 s in
        match proof_to_hash pi with
        | Some out => Some (pi, out)
        | None => None
        end
      end.

  (* verify; None = error, Some b = the comparison *)
  Definition verify_core (Y : G) (pi alpha : bytes) : option bool :=
    if negb (Nat.eqb (length pi) 80) then None            (* decodeProofArrays *)
    else match decode (firstn 32 pi) with
    | None => None
    | Some Gm =>
      let c16 := slice 32 16 pi in
      let s32 := slice 48 32 pi in
      match h2c Y alpha with
      | None => None
      | Some Hp =>
        let c := le2n c16 mod L in                       (* SetUniformBytes(c16 || zeros) *)
        if L <=? le2n s32 then None                      (* SetCanonicalBytes: non-canonical s *)
        else
          let s := le2n s32 in
          let U := sub (smul s B) (smul c Y) in
          let V := sub (smul s Hp) (smul c Gm) in
          Some (bytes_eqb c16 (hash_points Hp Gm U V))
      end
    end.

  (* VerifyAndHash *)
  Definition verify_and_hash (pk pi alpha : bytes) : vres :=
    match decode pk with
    | None => VBad
    | Some Y =>
      if geq (smul 8 Y) zero then VBad                   (* small order public key *)
      else match verify_core Y pi alpha with
           | None => VBad
           | Some false => VFail
           | Some true =>
             match proof_to_hash pi with Some out => VOk out | None => VBad end
           end
    end.

  (* Verify(vrfKey, proof, expectedOutput, msg): None = error *)
  Definition verify (pk pi expected alpha : bytes) : option bool :=
    match verify_and_hash pk pi alpha with
    | VOk out => Some (bytes_eqb out expected)
    | _ => None
    end.
End vrf.

(* ------------------------------------------------------------------ *)
(* Correspondence: the carrier is the canonical 32-byte encoding; group
   operations, SetBytes, hash-to-curve and SHA-512 are finite oracle tables
   recorded by the harness.  A missing entry makes the model's answer differ
   visibly (empty point / failed decode). *)
From Coq Require Import String.
From V Require Import Lib.Hex.

Record tables := mk_tables {
  t_add : list (bytes * bytes * bytes);
  t_neg : list (bytes * bytes);
  t_smul : list (N * bytes * bytes);
  t_dec : list (bytes * option bytes);
  t_h2c : list (bytes * bytes * option bytes);
  t_sha : list (bytes * bytes)
}.

Fixpoint look_add (t : list (bytes * bytes * bytes)) (p q : bytes) : bytes :=
  match t with
  | [] => []
  | (a, b, v) :: r => if bytes_eqb p a && bytes_eqb q b then v else look_add r p q
  end.
Fixpoint look1 (t : list (bytes * bytes)) (p : bytes) : bytes :=
  match t with
  | [] => []
  | (a, v) :: r => if bytes_eqb p a then v else look1 r p
  end.
Fixpoint look_smul (t : list (N * bytes * bytes)) (n : N) (p : bytes) : bytes :=
  match t with
  | [] => []
  | (a, b, v) :: r => if (n =? a) && bytes_eqb p b then v else look_smul r n p
  end.
Fixpoint look_dec (t : list (bytes * option bytes)) (p : bytes) : option bytes :=
  match t with
  | [] => None
  | (a, v) :: r => if bytes_eqb p a then v else look_dec r p
  end.
Fixpoint look_h2c (t : list (bytes * bytes * option bytes)) (p q : bytes) : option bytes :=
  match t with
  | [] => None
  | (a, b, v) :: r => if bytes_eqb p a && bytes_eqb q b then v else look_h2c r p q
  end.

Definition ed_L : N := 2 ^ 252 + 27742317777372353535851937790883648493.
Definition ed_B : bytes := 88 :: repeat 102 31.          (* 5866..66 *)
Definition ed_zero : bytes := 1 :: repeat 0 31.

Inductive case :=
| CKeyGen (seed : bytes) (obs : option bytes)
| CProve (sk alpha : bytes) (obs : option (bytes * bytes))
| CVerify (pk pi alpha : bytes) (obs : vres)
| CVerifyExp (pk pi expected alpha : bytes) (obs : option bool).

Definition vres_eqb (a b : vres) : bool :=
  match a, b with
  | VOk x, VOk y => bytes_eqb x y
  | VBad, VBad => true
  | VFail, VFail => true
  | _, _ => false
  end.

Section run.
  Variable T : tables.
  Let add := look_add (t_add T).
  Let neg := look1 (t_neg T).
  Let smul := look_smul (t_smul T).
  Let dec := look_dec (t_dec T).
  Let h2c := look_h2c (t_h2c T).
  Let sha := look1 (t_sha T).
  Let enc := fun p : bytes => p.

  Definition check_case (c : case) : bool :=
    match c with
    | CKeyGen seed obs => opt_eqb bytes_eqb (keygen bytes smul ed_B ed_L enc sha seed) obs
    | CProve sk alpha obs =>
      opt_eqb (fun a b => bytes_eqb (fst a) (fst b) && bytes_eqb (snd a) (snd b))
              (prove bytes smul ed_B ed_L enc dec h2c sha sk alpha) obs
    | CVerify pk pi alpha obs =>
      vres_eqb (verify_and_hash bytes add neg ed_zero smul ed_B ed_L bytes_eqb enc dec h2c sha pk pi alpha) obs
    | CVerifyExp pk pi ex alpha obs =>
      opt_eqb Bool.eqb (verify bytes add neg ed_zero smul ed_B ed_L bytes_eqb enc dec h2c sha pk pi ex alpha) obs
    end.
  Definition mismatches (cs : list case) : list nat := failing check_case cs.
End run.

(* translator-pinned constants of vrf.go *)
Definition consts : list (string * N) :=
  [("Suite", 4); ("ProofSize", 80); ("OutputSize", 64); ("SeedSize", 32); ("PublicKeySize", 32)]%string.
