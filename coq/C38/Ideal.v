(* C38 - instances showing that the premises of the theorems are jointly
   satisfiable.  The group is Z/L0 written additively (base point 1, order
   exactly L0 = 2^252 + 27742317777372353535851937790883648493).
   Instance 1 (completeness premises): byte-valued "SHA-512"; Prove and
   VerifyAndHash are evaluated by vm_compute.
   Instance 2 (idealised premises): an injective hash, possible because a
   cell of [bytes] is an unbounded N (symbolic-model idealisation; with real
   bytes the 16 challenge bytes cannot be an injective image of four points). *)
From Coq Require Import Eqdep_dec.
From V Require Import Lib.Base C38.Model C38.Proofs.
Local Open Scope N_scope.

Definition L0 : N := ed_L.   (* the order of the edwards25519 base point *)
Lemma L0_pos : L0 <> 0.
Proof. vm_compute. discriminate. Qed.

Definition G0 : Type := { n : N | (n <? L0) = true }.
Lemma mod_lt n : (n mod L0 <? L0) = true.
Proof. apply N.ltb_lt, N.mod_lt, L0_pos. Qed.
Definition mk (n : N) : G0 := exist _ (n mod L0) (mod_lt n).
Definition val (a : G0) : N := proj1_sig a.

Lemma val_lt a : val a < L0.
Proof. destruct a as [n Hn]. cbn. apply N.ltb_lt. exact Hn. Qed.

Lemma G0_eq (a b : G0) : val a = val b -> a = b.
Proof.
  destruct a as [n Hn], b as [m Hm]. cbn. intros ->.
  f_equal. apply UIP_dec. apply Bool.bool_dec.
Qed.

Lemma val_mk n : val (mk n) = n mod L0.
Proof. reflexivity. Qed.

Definition gadd (a b : G0) : G0 := mk (val a + val b).
Definition gneg (a : G0) : G0 := mk (L0 - val a).
Definition gzero : G0 := mk 0.
Definition gsmul (n : N) (a : G0) : G0 := mk (n * val a).
Definition gB : G0 := mk 1.
Definition ggeq (a b : G0) : bool := val a =? val b.
Definition genc (a : G0) : bytes := n2le 32 (val a).
Definition gdec (b : bytes) : option G0 :=
  if Nat.eqb (length b) 32 then Some (mk (le2n b)) else None.
Definition gh2c (Y : G0) (alpha : bytes) : option G0 := Some (mk (3 + le2n alpha)).

Lemma gadd_assoc P Q R : gadd P (gadd Q R) = gadd (gadd P Q) R.
Proof.
  apply G0_eq. unfold gadd. rewrite !val_mk.
  rewrite N.add_mod_idemp_r, N.add_mod_idemp_l by apply L0_pos. f_equal. lia.
Qed.
Lemma gadd_comm P Q : gadd P Q = gadd Q P.
Proof. apply G0_eq. unfold gadd. rewrite !val_mk. f_equal. lia. Qed.
Lemma gadd_zero_l P : gadd gzero P = P.
Proof.
  apply G0_eq. unfold gadd, gzero. rewrite !val_mk.
  rewrite N.mod_0_l by apply L0_pos. apply N.mod_small, val_lt.
Qed.
Lemma gadd_neg_r P : gadd P (gneg P) = gzero.
Proof.
  apply G0_eq. unfold gadd, gneg, gzero. rewrite !val_mk.
  rewrite N.add_mod_idemp_r by apply L0_pos.
  pose proof (val_lt P). replace (val P + (L0 - val P)) with L0 by lia.
  rewrite N.mod_same, N.mod_0_l by apply L0_pos. reflexivity.
Qed.
Lemma gsmul_add a b P : gsmul (a + b) P = gadd (gsmul a P) (gsmul b P).
Proof.
  apply G0_eq. unfold gsmul, gadd. rewrite !val_mk.
  rewrite <- N.add_mod by apply L0_pos. f_equal. lia.
Qed.
Lemma gsmul_mul a b P : gsmul (a * b) P = gsmul a (gsmul b P).
Proof.
  apply G0_eq. unfold gsmul. rewrite !val_mk.
  rewrite N.mul_mod_idemp_r by apply L0_pos. f_equal. lia.
Qed.
Lemma gsmul_0 P : gsmul 0 P = gzero.
Proof. apply G0_eq. unfold gsmul, gzero. rewrite !val_mk. reflexivity. Qed.
Lemma gsmul_L P : gsmul L0 P = gzero.
Proof.
  apply G0_eq. unfold gsmul, gzero. rewrite !val_mk.
  rewrite N.mul_comm, N.mod_mul, N.mod_0_l by apply L0_pos. reflexivity.
Qed.
Lemma gB_exact a b : a < L0 -> b < L0 -> gsmul a gB = gsmul b gB -> a = b.
Proof.
  intros Ha Hb E. apply (f_equal val) in E. unfold gsmul, gB in E. rewrite !val_mk in E.
  change (1 mod L0) with 1 in E. rewrite !N.mul_1_r, !N.mod_small in E by assumption. exact E.
Qed.
Lemma gdec_enc P : gdec (genc P) = Some P.
Proof.
  unfold gdec, genc. rewrite n2le_len. cbn [Nat.eqb]. f_equal. apply G0_eq.
  rewrite val_mk, le2n_n2le.
  - apply N.mod_small, val_lt.
  - pose proof (val_lt P). change (256 ^ N.of_nat 32) with (2 ^ 256).
    assert (L0 <= 2 ^ 256) by (vm_compute; discriminate). lia.
Qed.
Lemma genc_len P : length (genc P) = 32%nat.
Proof. apply n2le_len. Qed.

(* ---- instance 1: byte-valued hash ---- *)
Definition sha1 (x : bytes) : bytes := repeat (1 + N.of_nat (length x) mod 200) 64.
Lemma sha1_len x : length (sha1 x) = 64%nat.
Proof. apply repeat_length. Qed.
Lemma sha1_bytes x : Forall (fun b => b < 256) (sha1 x).
Proof.
  unfold sha1. apply Forall_forall. intros b Hb. apply repeat_spec in Hb. subst b.
  pose proof (N.mod_lt (N.of_nat (length x)) 200). lia.
Qed.

(* ---- instance 2: injective hash into an unbounded cell ---- *)
Fixpoint enc (l : list N) : N :=
  match l with [] => 0 | x :: r => 2 ^ x * (2 * enc r + 1) end.

Lemma pow2odd_inj x : forall y a b, 2 ^ x * (2 * a + 1) = 2 ^ y * (2 * b + 1) -> x = y /\ a = b.
Proof.
  induction x as [|x IH] using N.peano_ind; intros y a b E;
    destruct y as [|y] using N.peano_ind.
  - rewrite !N.pow_0_r in E. lia.
  - rewrite N.pow_0_r, N.pow_succ_r', <- N.mul_assoc in E.
    remember (2 ^ y * (2 * b + 1)) as T. lia.
  - rewrite N.pow_0_r, N.pow_succ_r', <- N.mul_assoc in E.
    remember (2 ^ x * (2 * a + 1)) as T. lia.
  - rewrite !N.pow_succ_r', <- !N.mul_assoc in E.
    assert (E' : 2 ^ x * (2 * a + 1) = 2 ^ y * (2 * b + 1)).
    { remember (2 ^ x * (2 * a + 1)) as T. remember (2 ^ y * (2 * b + 1)) as U. lia. }
    apply IH in E'. destruct E' as [-> ->]. auto.
Qed.
Lemma enc_cons_nonzero x r : 2 ^ x * (2 * enc r + 1) <> 0.
Proof.
  intros E. apply N.eq_mul_0 in E. destruct E as [E|E]; [|lia].
  revert E. apply N.pow_nonzero. discriminate.
Qed.
Lemma enc_inj : forall l l', enc l = enc l' -> l = l'.
Proof.
  induction l as [|x r IH]; intros [|y r'] E; cbn [enc] in E.
  - reflexivity.
  - symmetry in E. apply enc_cons_nonzero in E. destruct E.
  - apply enc_cons_nonzero in E. destruct E.
  - apply pow2odd_inj in E. destruct E as [-> E]. apply IH in E. congruence.
Qed.

Definition sha2 (x : bytes) : bytes := enc x :: repeat 0 63.

Lemma genc_inj P Q : genc P = genc Q -> P = Q.
Proof.
  intros E. pose proof (gdec_enc P) as HP. rewrite E, gdec_enc in HP. congruence.
Qed.

Lemma app_inj_len {A} (a b a' b' : list A) :
  length a = length a' -> a ++ b = a' ++ b' -> a = a' /\ b = b'.
Proof.
  revert a'. induction a as [|x a IH]; intros [|y a'] Hl E; cbn in *; try discriminate.
  - auto.
  - inversion E; subst. destruct (IH a') as [-> ->]; auto.
Qed.

Lemma hp2_inj P1 P2 P3 P4 Q1 Q2 Q3 Q4 :
  hash_points G0 genc sha2 P1 P2 P3 P4 = hash_points G0 genc sha2 Q1 Q2 Q3 Q4 ->
  P1 = Q1 /\ P2 = Q2 /\ P3 = Q3 /\ P4 = Q4.
Proof.
  unfold hash_points, sha2. intros E.
  apply (f_equal (hd 0)) in E. cbn [firstn hd] in E.
  apply enc_inj in E. apply (f_equal (@tl N)) in E. cbn [tl] in E.
  apply (f_equal (@tl N)) in E. cbn [tl] in E. rename E into E2.
  apply app_inj_len in E2; [|rewrite !genc_len; reflexivity]. destruct E2 as [A1 E2].
  apply app_inj_len in E2; [|rewrite !genc_len; reflexivity]. destruct E2 as [A2 E2].
  apply app_inj_len in E2; [|rewrite !genc_len; reflexivity]. destruct E2 as [A3 A4].
  repeat split; apply genc_inj; assumption.
Qed.

(* curve facts used to show that generated keys are never of small order *)
Lemma ggeq_true P Q : ggeq P Q = true -> P = Q.
Proof. unfold ggeq. intros E. apply N.eqb_eq in E. apply G0_eq. exact E. Qed.
Lemma gB_order n : gsmul n gB = gzero -> n mod L0 = 0.
Proof.
  intros E. apply (f_equal val) in E. unfold gsmul, gB, gzero in E. rewrite !val_mk in E.
  change (1 mod L0) with 1 in E. rewrite N.mul_1_r in E. exact E.
Qed.
Lemma L0_odd : N.gcd L0 8 = 1.
Proof. vm_compute. reflexivity. Qed.
Lemma L0_gt : 2 ^ 252 < L0.
Proof. vm_compute. reflexivity. Qed.
