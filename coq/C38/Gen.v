(* written by harness/cmd/c38 gen *)
From Coq Require Import String.
From V Require Import Lib.Base.
Open Scope string_scope.
Definition gen_consts : list (string * N) :=
  [("Suite", 4%N);
   ("ProofSize", 80%N);
   ("OutputSize", 64%N);
   ("SeedSize", 32%N);
   ("PublicKeySize", 32%N)].
