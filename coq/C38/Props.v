(* C38 - property theorems only.  The curve group, hash-to-curve and SHA-512
   are universally quantified; every assumption is an explicit premise. *)
From V Require Import Lib.Base C38.Model C38.Proofs C38.Ideal C38.Gen.
Local Open Scope N_scope.

Section statements.
  Variable G : Type.
  Variable add : G -> G -> G.
  Variable neg : G -> G.
  Variable zero : G.
  Variable smul : N -> G -> G.
  Variable B : G.
  Variable L : N.
  Variable geq : G -> G -> bool.
  Variable encode : G -> bytes.
  Variable decode : bytes -> option G.
  Variable h2c : G -> bytes -> option G.
  Variable H512 : bytes -> bytes.

  (* abelian group with an action of the naturals; B and every
     hash-to-curve output have order dividing L; Bytes/SetBytes round-trip;
     SHA-512 returns 64 bytes; 2^128 <= L <= 2^256 *)
  Definition group_laws : Prop :=
    (forall P Q R, add P (add Q R) = add (add P Q) R)
    /\ (forall P Q, add P Q = add Q P)
    /\ (forall P, add zero P = P)
    /\ (forall P, add P (neg P) = zero)
    /\ (forall a b P, smul (a + b) P = add (smul a P) (smul b P))
    /\ (forall a b P, smul (a * b) P = smul a (smul b P))
    /\ (forall P, smul 0 P = zero)
    /\ smul L B = zero
    /\ (forall Y alpha Hp, h2c Y alpha = Some Hp -> smul L Hp = zero).
  Definition encodings : Prop :=
    (forall P, decode (encode P) = Some P)
    /\ (forall P, length (encode P) = 32%nat)
    /\ (forall x, length (H512 x) = 64%nat)
    /\ (forall x, Forall (fun b => b < 256) (H512 x))
    /\ 2 ^ 128 <= L /\ L <= 2 ^ 256.
  (* idealised *)
  Definition challenge_injective : Prop :=
    forall P1 P2 P3 P4 Q1 Q2 Q3 Q4,
      hash_points G encode H512 P1 P2 P3 P4 = hash_points G encode H512 Q1 Q2 Q3 Q4 ->
      P1 = Q1 /\ P2 = Q2 /\ P3 = Q3 /\ P4 = Q4.
  Definition B_exact_order : Prop :=
    forall a b, a < L -> b < L -> smul a B = smul b B -> a = b.

  Local Notation prove := (prove G smul B L encode decode h2c H512).
  Local Notation vah := (verify_and_hash G add neg zero smul B L geq encode decode h2c H512).
  Local Notation keygen := (keygen G smul B L encode H512).
  Local Notation x_of := (x_of L H512).

  (* For every secret key and message: whatever Prove returns verifies under
     the public key KeyGen derives and VerifyAndHash yields the output Prove
     returned.  (Premise besides the laws: the public key is not of small
     order - true for every clamped scalar on the real curve, where
     x mod L <> 0 and gcd(8, L) = 1.) *)
  Theorem C38_complete : group_laws -> encodings ->
    forall sk alpha pi out, prove sk alpha = Some (pi, out) ->
    geq (smul 8 (smul (x_of sk) B)) zero = false ->
    keygen sk = Some (encode (smul (x_of sk) B))
    /\ vah (encode (smul (x_of sk) B)) pi alpha = VOk out.
  Proof.
    intros (G1 & G2 & G3 & G4 & G5 & G6 & G7 & G8 & G9) (E1 & E2 & E3 & E4 & E5 & E6).
    intros. eapply (complete G add neg zero smul B L geq encode decode h2c H512); eauto.
  Qed.

  (* facts about the curve: Equal decides equality, B has order exactly L, L is odd
     and above 2^252 *)
  Definition curve_facts : Prop :=
    (forall P Q, geq P Q = true -> P = Q)
    /\ (forall n, smul n B = zero -> n mod L = 0)
    /\ N.gcd L 8 = 1 /\ 2 ^ 252 < L.

  (* with them a clamped scalar never gives a small-order key, so completeness
     holds for every secret key without a side condition *)
  Theorem C38_complete_all_keys : group_laws -> encodings -> curve_facts ->
    forall sk alpha pi out, prove sk alpha = Some (pi, out) ->
    keygen sk = Some (encode (smul (x_of sk) B))
    /\ vah (encode (smul (x_of sk) B)) pi alpha = VOk out.
  Proof.
    intros GL EN (C1 & C2 & C3 & C4) sk alpha pi out Hp.
    apply (C38_complete GL EN sk alpha pi out Hp).
    destruct GL as (G1 & G2 & G3 & G4 & G5 & G6 & G7 & G8 & G9).
    destruct EN as (E1 & E2 & E3 & E4 & E5 & E6).
    eapply key_not_small_order; eauto.
  Qed.

  (* ... and that output is SHA512(suite || 3 || cofactor * Gamma), Gamma = x * H *)
  Theorem C38_output : group_laws -> encodings ->
    forall sk alpha pi out, prove sk alpha = Some (pi, out) ->
    exists Hp, h2c (smul (x_of sk) B) alpha = Some Hp
      /\ firstn 32 pi = encode (smul (x_of sk) Hp) /\ length pi = 80%nat
      /\ out = H512 (4 :: 3 :: encode (smul 8 (smul (x_of sk) Hp))).
  Proof.
    intros (G1 & G2 & G3 & G4 & G5 & G6 & G7 & G8 & G9) (E1 & E2 & E3 & E4 & E5 & E6).
    intros. eapply prove_output; eauto.
  Qed.

  (* a response scalar >= L is rejected as malformed, whatever the rest is *)
  Theorem C38_noncanonical_s : forall pk pi alpha,
    L <= le2n (slice 48 32 pi) -> vah pk pi alpha = VBad.
  Proof.
    intros. eapply noncanonical_s_bad; eauto.
  Qed.

  (* a public key of small order is rejected as malformed *)
  Theorem C38_small_order_pk : forall pk Y pi alpha,
    decode pk = Some Y -> geq (smul 8 Y) zero = true -> vah pk pi alpha = VBad.
  Proof. intros. eapply small_order_pk; eauto. Qed.

  (* a proof that is not 80 bytes long is rejected as malformed *)
  Theorem C38_bad_length : forall pk pi alpha, length pi <> 80%nat -> vah pk pi alpha = VBad.
  Proof. intros. eapply bad_length; eauto. Qed.

  (* PARTIAL soundness (idealised: injective challenge hash): two accepted
     (key, proof, message) triples with the same 16 challenge bytes recompute
     the same H, Gamma, U and V - hence the same output; a change of s,
     Gamma, alpha or the key that alters that tuple cannot verify.  NOT
     covered: a changed challenge c' (needs the random-oracle property). *)
  Theorem C38_sound_partial : challenge_injective ->
    forall pk pi alpha out pk' pi' alpha' out',
    vah pk pi alpha = VOk out -> vah pk' pi' alpha' = VOk out' ->
    slice 32 16 pi = slice 32 16 pi' ->
    exists Y Gm Hp Y' Gm' Hp',
      decode pk = Some Y /\ decode pk' = Some Y'
      /\ decode (firstn 32 pi) = Some Gm /\ decode (firstn 32 pi') = Some Gm'
      /\ h2c Y alpha = Some Hp /\ h2c Y' alpha' = Some Hp'
      /\ Hp = Hp' /\ Gm = Gm' /\ out = out'
      /\ sub G add neg (smul (le2n (slice 48 32 pi)) B) (smul (le2n (slice 32 16 pi) mod L) Y)
         = sub G add neg (smul (le2n (slice 48 32 pi')) B) (smul (le2n (slice 32 16 pi) mod L) Y')
      /\ sub G add neg (smul (le2n (slice 48 32 pi)) Hp) (smul (le2n (slice 32 16 pi) mod L) Gm)
         = sub G add neg (smul (le2n (slice 48 32 pi')) Hp) (smul (le2n (slice 32 16 pi) mod L) Gm).
  Proof.
    intros Hi. intros. eapply sound_partial; eauto.
  Qed.

  (* same key, message and challenge: the response scalar is determined *)
  Theorem C38_s_determined : group_laws -> challenge_injective -> B_exact_order ->
    forall pk alpha pi pi' out out',
    vah pk pi alpha = VOk out -> vah pk pi' alpha = VOk out' ->
    slice 32 16 pi = slice 32 16 pi' ->
    le2n (slice 48 32 pi) = le2n (slice 48 32 pi').
  Proof.
    intros (G1 & G2 & G3 & G4 & G5 & G6 & G7 & G8 & G9) Hi Hb.
    intros. eapply s_determined; eauto.
  Qed.
End statements.

Print Assumptions C38_complete.
Print Assumptions C38_complete_all_keys.
Print Assumptions C38_noncanonical_s.
Print Assumptions C38_small_order_pk.
Print Assumptions C38_sound_partial.
Print Assumptions C38_s_determined.

Theorem C38_constants : gen_consts = consts.
Proof. reflexivity. Qed.

(* ---- non-vacuity ---- *)
(* the completeness premises hold together for Z/L0 (L0 = the real group order) with a byte-valued hash ... *)
Example C38_premises_satisfiable :
  group_laws G0 gadd gneg gzero gsmul gB L0 gh2c /\ encodings G0 L0 genc gdec sha1.
Proof.
  split.
  - repeat split; auto using gadd_assoc, gadd_comm, gadd_zero_l, gadd_neg_r, gsmul_add,
      gsmul_mul, gsmul_0, gsmul_L.
  - repeat split; auto using gdec_enc, genc_len, sha1_len, sha1_bytes; vm_compute; discriminate.
Qed.

Example C38_curve_facts_satisfiable : curve_facts G0 gzero gsmul gB L0 ggeq.
Proof.
  split; [exact ggeq_true|]. split; [exact gB_order|]. split; [exact L0_odd|exact L0_gt].
Qed.

(* ... and there Prove succeeds, the key is not of small order, and the proof verifies
   (evaluated, and also obtained from the theorem) *)
Definition ex_sk : bytes := repeat 7 32.
Definition ex_alpha : bytes := [1; 2; 3].
Example C38_instance_runs :
  exists pi out,
    prove G0 gsmul gB L0 genc gdec gh2c sha1 ex_sk ex_alpha = Some (pi, out)
    /\ ggeq (gsmul 8 (gsmul (x_of L0 sha1 ex_sk) gB)) gzero = false
    /\ verify_and_hash G0 gadd gneg gzero gsmul gB L0 ggeq genc gdec gh2c sha1
         (genc (gsmul (x_of L0 sha1 ex_sk) gB)) pi ex_alpha = VOk out.
Proof.
  destruct (prove G0 gsmul gB L0 genc gdec gh2c sha1 ex_sk ex_alpha) as [[pi out]|] eqn:E;
    [|vm_compute in E; discriminate].
  exists pi, out. split; [reflexivity|].
  assert (Hso : ggeq (gsmul 8 (gsmul (x_of L0 sha1 ex_sk) gB)) gzero = false) by (vm_compute; reflexivity).
  split; [exact Hso|].
  destruct C38_premises_satisfiable as (GL & EN).
  exact (proj2 (C38_complete G0 gadd gneg gzero gsmul gB L0 ggeq genc gdec gh2c sha1 GL EN
                  ex_sk ex_alpha pi out E Hso)).
Qed.

(* the idealised premises hold together for Z/L0 with the injective hash *)
Example C38_ideal_premises_satisfiable :
  group_laws G0 gadd gneg gzero gsmul gB L0 gh2c
  /\ challenge_injective G0 genc sha2 /\ B_exact_order G0 gsmul gB L0.
Proof.
  split; [exact (proj1 C38_premises_satisfiable)|]. split.
  - exact hp2_inj.
  - exact gB_exact.
Qed.
